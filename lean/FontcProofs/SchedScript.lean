import FontcProofs.SchedSafety
namespace Fontc.Sched

/-! ### static facts about scripts -/

theorem effects_mem {sc : Script} {q : Id} {e : Effect} (h : e ∈ sc.effects q) :
    ∃ p ∈ sc.onDeliver, p.1 = q ∧ e ∈ p.2 := by
  unfold Script.effects at h
  split at h
  · rename_i p hp
    have h1 := List.mem_of_find?_eq_some hp
    have h2 := List.find?_some hp
    exact ⟨p, h1, by simpa using h2, h⟩
  · simp at h

theorem add_mem_spawns {sc : Script} {q : Id} {j : Job} (h : Effect.add j ∈ sc.effects q) : (q, j) ∈ sc.spawns := by
  obtain ⟨p, hp, rfl, he⟩ := effects_mem h
  simp only [Script.spawns, List.mem_flatMap, List.mem_filterMap]
  exact ⟨p, hp, .add j, he, by simp [Effect.addJob?]⟩

theorem spawns_mem_jobs {sc : Script} {q : Id} {j : Job} (h : (q, j) ∈ sc.spawns) : j ∈ sc.jobs := by
  simp only [Script.jobs, List.mem_append, List.mem_map]
  exact Or.inr ⟨(q, j), h, rfl⟩

theorem init_mem_jobs {sc : Script} {j : Job} (h : j ∈ sc.init) : j ∈ sc.jobs := by
  simp [Script.jobs, h]

theorem rewrite_mem_rewrites {sc : Script} {q id : Id} {a : Access} {m : Bool} (h : Effect.rewrite id a m ∈ sc.effects q) :
    (q, id, a) ∈ sc.rewrites := by
  obtain ⟨p, hp, rfl, he⟩ := effects_mem h
  simp only [Script.rewrites, List.mem_flatMap, List.mem_filterMap]
  exact ⟨p, hp, .rewrite id a m, he, rfl⟩

theorem skip_mem_skips {sc : Script} {q o : Id} (h : Effect.skip o ∈ sc.effects q) : (q, o) ∈ sc.skips := by
  obtain ⟨p, hp, rfl, he⟩ := effects_mem h
  simp only [Script.skips, List.mem_flatMap, List.mem_filterMap]
  exact ⟨p, hp, .skip o, he, rfl⟩

theorem mem_owners {sc : Script} {j : Job} {x : Id} (hj : j ∈ sc.jobs) (hx : x ∈ j.ids) : j.id ∈ sc.owners x := by
  simp only [Script.owners, List.mem_map, List.mem_filter]
  exact ⟨j, ⟨hj, by simpa using hx⟩, rfl⟩

theorem mem_creators {sc : Script} {q : Id} {j : Job} (h : (q, j) ∈ sc.spawns) : q ∈ sc.creators j.id := by
  simp only [Script.creators, List.mem_map, List.mem_filter]
  exact ⟨(q, j), ⟨h, by simp⟩, rfl⟩

theorem mem_installers {sc : Script} {q id : Id} {a : Access} (h : (q, id, a) ∈ sc.rewrites) : q ∈ sc.installers id a := by
  simp only [Script.installers, List.mem_map, List.mem_filter]
  exact ⟨(q, id, a), ⟨h, by simp⟩, rfl⟩

theorem mem_skippers {sc : Script} {q o : Id} (h : (q, o) ∈ sc.skips) : q ∈ sc.skippers o := by
  simp only [Script.skippers, List.mem_map, List.mem_filter]
  exact ⟨(q, o), ⟨h, by simp⟩, rfl⟩

theorem mem_initialAccesses {sc : Script} {j : Job} (h : j ∈ sc.jobs) : j.reads ∈ sc.initialAccesses j.id := by
  simp only [Script.initialAccesses, List.mem_map, List.mem_filter]
  exact ⟨j, ⟨h, by simp⟩, rfl⟩

theorem initialAccesses_sub_versions {sc : Script} {j : Id} {a : Access} (h : a ∈ sc.initialAccesses j) : a ∈ sc.versions j := by
  simp [Script.versions, h]

theorem installers_sub_versions {sc : Script} {q j : Id} {a : Access} (h : q ∈ sc.installers j a) : a ∈ sc.versions j := by
  simp only [Script.installers, List.mem_map, List.mem_filter] at h
  obtain ⟨p, ⟨hp, hc⟩, rfl⟩ := h
  simp only [Script.versions, List.mem_append, List.mem_map, List.mem_filter]
  simp at hc
  exact Or.inr ⟨p, ⟨hp, by simp [hc.1]⟩, hc.2⟩

theorem add_ids_sub_addedIds {sc : Script} {q : Id} {j : Job} (h : Effect.add j ∈ sc.effects q) : ∀ x ∈ j.ids, x ∈ sc.addedIds q := by
  intro x hx
  simp only [Script.addedIds, List.mem_flatMap]
  exact ⟨.add j, h, hx⟩


/-! ### invariants that tie the state to the script -/

/-- where `j` (as a job) comes from: `Workload::new`, or an `add` effect of a delivery that has happened -/
def JobOrigin (sc : Script) (s : State) (j : Id) : Prop :=
  sc.init.any (·.id = j) = true ∨ ∃ q ∈ s.delivered, q ∈ sc.creators j

/-- where the read access `a` of `j` comes from: the job's own declaration, or a rewrite of a delivery that has happened -/
def AccOrigin (sc : Script) (s : State) (j : Id) (a : Access) : Prop :=
  (sc.initialAccesses j).contains a = true ∨ ∃ q ∈ s.delivered, q ∈ sc.installers j a

structure Scr (sc : Script) (s : State) : Prop where
  ins_origin : ∀ x ∈ s.inserted, x ∈ sc.initIds ∨ ∃ q ∈ s.delivered, x ∈ sc.addedIds q
  entry_job : ∀ e ∈ s.pending, e.kind ≠ .alsoComplete → JobOrigin sc s e.id
  entry_acc : ∀ e ∈ s.pending, e.kind ≠ .alsoComplete → AccOrigin sc s e.id e.reads
  entry_isjob : ∀ e ∈ s.pending, e.kind ≠ .alsoComplete → e.id ∈ sc.owners e.id
  launched_job : ∀ p ∈ s.launched, JobOrigin sc s p.1
  launched_acc : ∀ p ∈ s.launched, AccOrigin sc s p.1 p.2
  owner_static : ∀ e ∈ s.pending, e.owner ∈ sc.owners e.id
  also_static : ∀ o x, x ∈ s.alsoOf o → o ∈ sc.owners x
  skipped_origin : ∀ o ∈ s.skipped, ∃ q ∈ s.delivered, q ∈ sc.skippers o
  done_job : ∀ o, (o ∈ s.delivered ∨ o ∈ s.skipped) → o ∈ sc.owners o

theorem JobOrigin.mono {sc : Script} {s s' : State} {j : Id} (m : ∀ x ∈ s.delivered, x ∈ s'.delivered)
    (h : JobOrigin sc s j) : JobOrigin sc s' j := by
  rcases h with h | ⟨q, hq, hc⟩
  · exact Or.inl h
  · exact Or.inr ⟨q, m q hq, hc⟩

theorem AccOrigin.mono {sc : Script} {s s' : State} {j : Id} {a : Access} (m : ∀ x ∈ s.delivered, x ∈ s'.delivered)
    (h : AccOrigin sc s j a) : AccOrigin sc s' j a := by
  rcases h with h | ⟨q, hq, hc⟩
  · exact Or.inl h
  · exact Or.inr ⟨q, m q hq, hc⟩

theorem AccOrigin.version {sc : Script} {s : State} {j : Id} {a : Access} (h : AccOrigin sc s j a) : a ∈ sc.versions j := by
  rcases h with h | ⟨q, _, hc⟩
  · exact initialAccesses_sub_versions (by simpa using h)
  · exact installers_sub_versions hc

theorem scr_empty (sc : Script) : Scr sc State.empty := by
  constructor <;> simp [State.empty, State.alsoOf]

/-- inserting a job of the script, either at creation (`q = none`) or as an effect of `Deliver(q)` -/
theorem scr_insertJob {sc : Script} {s s' : State} {j : Job} (hs : Scr sc s) (h : s.insertJob j = some s')
    (horigin : j ∈ sc.init ∨ ∃ q ∈ s.delivered, Effect.add j ∈ sc.effects q) : Scr sc s' := by
  obtain ⟨hkind, cs, rfl, hcs, hnd, hnp⟩ := insertJob_spec h
  have hjobs : j ∈ sc.jobs := by
    rcases horigin with h | ⟨q, _, h⟩
    · exact init_mem_jobs h
    · exact spawns_mem_jobs (add_mem_spawns h)
  have hjo : JobOrigin sc s j.id := by
    rcases horigin with h | ⟨q, hq, h⟩
    · left; simp only [List.any_eq_true, decide_eq_true_eq]; exact ⟨j, h, rfl⟩
    · right; exact ⟨q, hq, mem_creators (add_mem_spawns h)⟩
  constructor
  · intro x hx
    simp only [List.mem_cons, List.mem_append, List.mem_reverse] at hx
    have hnew : x ∈ j.ids → x ∈ sc.initIds ∨ ∃ q ∈ s.delivered, x ∈ sc.addedIds q := by
      intro hxj
      rcases horigin with h | ⟨q, hq, h⟩
      · left; simp only [Script.initIds, List.mem_flatMap]; exact ⟨j, h, hxj⟩
      · right; exact ⟨q, hq, add_ids_sub_addedIds h x hxj⟩
    rcases hx with rfl | hx | hx
    · exact hnew (by simp [Job.ids])
    · exact hnew (by simp [Job.ids, hx])
    · exact hs.ins_origin x hx
  · intro e he hk
    simp only [List.mem_cons, List.mem_append, List.mem_reverse, List.mem_map] at he
    rcases he with rfl | ⟨b, hb, rfl⟩ | he
    · exact hjo
    · simp [placeholder] at hk
    · exact hs.entry_job e he hk
  · intro e he hk
    simp only [List.mem_cons, List.mem_append, List.mem_reverse, List.mem_map] at he
    rcases he with rfl | ⟨b, hb, rfl⟩ | he
    · left
      have := mem_initialAccesses hjobs
      simpa [jobEntry] using this
    · simp [placeholder] at hk
    · exact hs.entry_acc e he hk
  · intro e he hk
    simp only [List.mem_cons, List.mem_append, List.mem_reverse, List.mem_map] at he
    rcases he with rfl | ⟨b, hb, rfl⟩ | he
    · exact mem_owners hjobs (by simp [Job.ids, jobEntry])
    · simp [placeholder] at hk
    · exact hs.entry_isjob e he hk
  · exact hs.launched_job
  · exact hs.launched_acc
  · intro e he
    simp only [List.mem_cons, List.mem_append, List.mem_reverse, List.mem_map] at he
    rcases he with rfl | ⟨b, hb, rfl⟩ | he
    · exact mem_owners hjobs (by simp [Job.ids, jobEntry])
    · exact mem_owners hjobs (by simp [Job.ids, placeholder, hb])
    · exact hs.owner_static e he
  · intro o x hx
    by_cases he : j.also.isEmpty
    · have : ({ s with jobCount := s.jobCount + j.also.length + 1, counters := cs, pending := jobEntry j :: ((j.also.map (placeholder j.id j.reads)).reverse ++ s.pending), inserted := j.id :: (j.also.reverse ++ s.inserted), also := if j.also.isEmpty then s.also else (j.id, j.also) :: s.also } : State).alsoOf o = s.alsoOf o := by
        simp [State.alsoOf, he]
      rw [this] at hx
      exact hs.also_static o x hx
    · by_cases ho : o = j.id
      · subst ho
        have : ({ s with jobCount := s.jobCount + j.also.length + 1, counters := cs, pending := jobEntry j :: ((j.also.map (placeholder j.id j.reads)).reverse ++ s.pending), inserted := j.id :: (j.also.reverse ++ s.inserted), also := if j.also.isEmpty then s.also else (j.id, j.also) :: s.also } : State).alsoOf j.id = j.also := by
          simp [State.alsoOf, he]
        rw [this] at hx
        exact mem_owners hjobs (by simp [Job.ids, hx])
      · have hne : ¬ j.id = o := fun e => ho e.symm
        have : ({ s with jobCount := s.jobCount + j.also.length + 1, counters := cs, pending := jobEntry j :: ((j.also.map (placeholder j.id j.reads)).reverse ++ s.pending), inserted := j.id :: (j.also.reverse ++ s.inserted), also := if j.also.isEmpty then s.also else (j.id, j.also) :: s.also } : State).alsoOf o = s.alsoOf o := by
          simp [State.alsoOf, he, hne]
        rw [this] at hx
        exact hs.also_static o x hx
  · exact hs.skipped_origin
  · exact hs.done_job


theorem scr_launch {sc : Script} {s s' : State} {id : Id} (hs : Scr sc s) (h : s.launch id = some s') : Scr sc s' := by
  obtain ⟨e, he, hid, hl, rfl⟩ := launch_spec h
  subst hid
  have hreal : e.kind ≠ .alsoComplete := by
    simp [State.launchable] at hl; exact hl.1.1
  have hmap : ∀ x, (setRunning e.id x).id = x.id ∧ (setRunning e.id x).kind = x.kind ∧ (setRunning e.id x).reads = x.reads ∧
      (setRunning e.id x).owner = x.owner := by
    intro x; simp only [setRunning]; split <;> simp
  constructor
  · exact hs.ins_origin
  · intro x hx hk
    simp only [List.mem_map] at hx
    obtain ⟨y, hy, rfl⟩ := hx
    rw [(hmap y).1]; rw [(hmap y).2.1] at hk
    exact hs.entry_job y hy hk
  · intro x hx hk
    simp only [List.mem_map] at hx
    obtain ⟨y, hy, rfl⟩ := hx
    rw [(hmap y).1, (hmap y).2.2.1]; rw [(hmap y).2.1] at hk
    exact hs.entry_acc y hy hk
  · intro x hx hk
    simp only [List.mem_map] at hx
    obtain ⟨y, hy, rfl⟩ := hx
    rw [(hmap y).1]; rw [(hmap y).2.1] at hk
    exact hs.entry_isjob y hy hk
  · intro p hp
    simp only [List.mem_cons] at hp
    rcases hp with rfl | hp
    · exact hs.entry_job e he hreal
    · exact hs.launched_job p hp
  · intro p hp
    simp only [List.mem_cons] at hp
    rcases hp with rfl | hp
    · exact hs.entry_acc e he hreal
    · exact hs.launched_acc p hp
  · intro x hx
    simp only [List.mem_map] at hx
    obtain ⟨y, hy, rfl⟩ := hx
    rw [(hmap y).1, (hmap y).2.2.2]
    exact hs.owner_static y hy
  · exact hs.also_static
  · exact hs.skipped_origin
  · exact hs.done_job

theorem scr_finish {sc : Script} {s s' : State} {id : Id} (hs : Scr sc s) (h : s.finish id = some s') : Scr sc s' := by
  obtain ⟨e, cs, he, hid, hrun, hni, hdec, rfl⟩ := finish_spec h
  exact ⟨hs.ins_origin, hs.entry_job, hs.entry_acc, hs.entry_isjob, hs.launched_job, hs.launched_acc, hs.owner_static,
    hs.also_static, hs.skipped_origin, hs.done_job⟩

theorem scr_rewrite {sc : Script} {s s' : State} {id : Id} {a : Access} {m : Bool} (hs : Scr sc s)
    (h : s.rewrite id a m = some s') (horigin : ∃ q ∈ s.delivered, Effect.rewrite id a m ∈ sc.effects q) : Scr sc s' := by
  have := rewrite_spec h
  subst this
  obtain ⟨q, hq, hmem⟩ := horigin
  have hinst := mem_installers (rewrite_mem_rewrites hmem)
  have hmap : ∀ x, (setReads id a x).id = x.id ∧ (setReads id a x).kind = x.kind ∧ (setReads id a x).owner = x.owner := by
    intro x; simp only [setReads]; split <;> simp
  constructor
  · exact hs.ins_origin
  · intro x hx hk
    simp only [List.mem_map] at hx
    obtain ⟨y, hy, rfl⟩ := hx
    rw [(hmap y).1]; rw [(hmap y).2.1] at hk
    exact hs.entry_job y hy hk
  · intro x hx hk
    simp only [List.mem_map] at hx
    obtain ⟨y, hy, rfl⟩ := hx
    rw [(hmap y).2.1] at hk
    rw [(hmap y).1]
    simp only [setReads]
    split
    · rename_i hyid
      right; exact ⟨q, hq, by rw [hyid]; exact hinst⟩
    · exact hs.entry_acc y hy hk
  · intro x hx hk
    simp only [List.mem_map] at hx
    obtain ⟨y, hy, rfl⟩ := hx
    rw [(hmap y).1]; rw [(hmap y).2.1] at hk
    exact hs.entry_isjob y hy hk
  · exact hs.launched_job
  · exact hs.launched_acc
  · intro x hx
    simp only [List.mem_map] at hx
    obtain ⟨y, hy, rfl⟩ := hx
    rw [(hmap y).1, (hmap y).2.2]
    exact hs.owner_static y hy
  · exact hs.also_static
  · exact hs.skipped_origin
  · exact hs.done_job

/-- `complete` only removes pending entries and grows `success` -/
theorem scr_complete {sc : Script} {s s' : State} {id : Id} (hs : Scr sc s) (h : s.complete id = some s') : Scr sc s' := by
  obtain ⟨rfl, _, _⟩ := complete_spec h
  exact ⟨hs.ins_origin, fun e he => hs.entry_job e (List.mem_filter.1 he).1, fun e he => hs.entry_acc e (List.mem_filter.1 he).1,
    fun e he => hs.entry_isjob e (List.mem_filter.1 he).1,
    hs.launched_job, hs.launched_acc, fun e he => hs.owner_static e (List.mem_filter.1 he).1, hs.also_static, hs.skipped_origin,
    hs.done_job⟩

theorem scr_receive {sc : Script} {s s' : State} {id : Id} (w : WF s) (hs : Scr sc s) (h : s.receive id = some s') : Scr sc s' := by
  obtain ⟨hin, _, hc⟩ := receive_spec h
  obtain ⟨o, ho, rfl, hrun⟩ := w.inflight_running id hin
  have hreal := w.running_real o ho hrun
  have hisjob := hs.entry_isjob o ho hreal
  have m : ∀ x ∈ s.delivered, x ∈ o.id :: s.delivered := fun x hx => by simp [hx]
  have hs0 : Scr sc { s with inflight := s.inflight.erase o.id, delivered := o.id :: s.delivered } := by
    constructor
    · intro x hx
      rcases hs.ins_origin x hx with h | ⟨q, hq, h⟩
      · exact Or.inl h
      · exact Or.inr ⟨q, m q hq, h⟩
    · intro e he hk; exact (hs.entry_job e he hk).mono m
    · intro e he hk; exact (hs.entry_acc e he hk).mono m
    · exact hs.entry_isjob
    · intro p hp; exact (hs.launched_job p hp).mono m
    · intro p hp; exact (hs.launched_acc p hp).mono m
    · exact hs.owner_static
    · exact hs.also_static
    · intro x hx
      obtain ⟨q, hq, h⟩ := hs.skipped_origin x hx
      exact ⟨q, m q hq, h⟩
    · intro x hx
      simp only [List.mem_cons] at hx
      rcases hx with (rfl | hx) | hx
      · exact hisjob
      · exact hs.done_job x (Or.inl hx)
      · exact hs.done_job x (Or.inr hx)
  exact scr_complete hs0 hc

theorem scr_skip {sc : Script} {s s' : State} {id : Id} (hs : Scr sc s)
    (h : s.skip id = some s') (horigin : ∃ q ∈ s.delivered, Effect.skip id ∈ sc.effects q) : Scr sc s' := by
  rcases skip_spec h with ⟨_, rfl⟩ | ⟨o, cs, ho, rfl, hrun, hreal, hdec, hc⟩
  · exact hs
  · obtain ⟨q, hq, hmem⟩ := horigin
    have hisjob := hs.entry_isjob o ho hreal
    have hs0 : Scr sc { s with counters := cs, skipped := o.id :: s.skipped } := by
      refine ⟨hs.ins_origin, hs.entry_job, hs.entry_acc, hs.entry_isjob, hs.launched_job, hs.launched_acc, hs.owner_static,
        hs.also_static, ?_, ?_⟩
      · intro x hx
        simp only [List.mem_cons] at hx
        rcases hx with rfl | hx
        · exact ⟨q, hq, mem_skippers (skip_mem_skips hmem)⟩
        · exact hs.skipped_origin x hx
      · intro x hx
        simp only [List.mem_cons] at hx
        rcases hx with hx | rfl | hx
        · exact hs.done_job x (Or.inl hx)
        · exact hisjob
        · exact hs.done_job x (Or.inr hx)
    exact scr_complete hs0 hc

theorem scr_applyEffects {sc : Script} {q : Id} {es : List Effect} {s s' : State} (hs : Scr sc s)
    (hq : q ∈ s.delivered) (hes : ∀ e ∈ es, e ∈ sc.effects q) (h : s.applyEffects es = some s') : Scr sc s' := by
  induction es generalizing s with
  | nil => simp [State.applyEffects] at h; subst h; exact hs
  | cons e es ih =>
    simp only [State.applyEffects] at h
    cases h1 : s.applyEffect e with
    | none => simp [h1] at h
    | some s1 =>
      simp [h1] at h
      have he := hes e (by simp)
      have hs1 : Scr sc s1 := by
        cases e with
        | add j => exact scr_insertJob hs h1 (Or.inr ⟨q, hq, he⟩)
        | rewrite id a m => exact scr_rewrite hs h1 ⟨q, hq, he⟩
        | skip id => exact scr_skip hs h1 ⟨q, hq, he⟩
        | guard id st =>
          simp only [State.applyEffect] at h1
          split at h1
          · simp at h1; subst h1; exact hs
          · simp at h1
      exact ih hs1 ((mono_applyEffect h1).delivered q hq) (fun e he => hes e (by simp [he])) h

theorem scr_deliver {sc : Script} {s s' : State} {id : Id} (w : WF s) (hs : Scr sc s) (h : s.deliver sc id = some s') :
    Scr sc s' := by
  unfold State.deliver at h
  cases h1 : s.receive id with
  | none => simp [h1] at h
  | some s1 =>
    simp [h1] at h
    have hq : id ∈ s1.delivered := by
      obtain ⟨_, _, hc⟩ := receive_spec h1
      exact (mono_complete hc).delivered id (by simp)
    exact scr_applyEffects (scr_receive w hs h1) hq (fun e he => he) h

/-- states reachable from the workload that `Workload::new` builds by launch / finish / deliver events -/
inductive ReachInit (sc : Script) : State → Prop where
  | init {s : State} : initState sc = some s → ReachInit sc s
  | launch {s s' : State} (id : Id) : ReachInit sc s → s.launch id = some s' → ReachInit sc s'
  | finish {s s' : State} (id : Id) : ReachInit sc s → s.finish id = some s' → ReachInit sc s'
  | deliver {s s' : State} (id : Id) : ReachInit sc s → s.deliver sc id = some s' → ReachInit sc s'

theorem reach_insertAll {sc : Script} {js : List Job} {s s' : State} (r : Reach sc s) (h : s.insertAll js = some s') : Reach sc s' := by
  induction js generalizing s with
  | nil => simp [State.insertAll] at h; subst h; exact r
  | cons j js ih =>
    simp only [State.insertAll] at h
    cases h1 : s.insertJob j with
    | none => simp [h1] at h
    | some s1 =>
      simp [h1] at h
      exact ih (Reach.step (.insert j) r h1) h

theorem ReachInit.reach {sc : Script} {s : State} (r : ReachInit sc s) : Reach sc s := by
  induction r with
  | init h => exact reach_insertAll Reach.empty h
  | launch id _ h ih => exact Reach.step (.launch id) ih h
  | finish id _ h ih => exact Reach.step (.finish id) ih h
  | deliver id _ h ih => exact Reach.step (.deliver id) ih h

theorem scr_insertAll {sc : Script} {js : List Job} {s s' : State} (hs : Scr sc s) (hjs : ∀ j ∈ js, j ∈ sc.init)
    (h : s.insertAll js = some s') : Scr sc s' := by
  induction js generalizing s with
  | nil => simp [State.insertAll] at h; subst h; exact hs
  | cons j js ih =>
    simp only [State.insertAll] at h
    cases h1 : s.insertJob j with
    | none => simp [h1] at h
    | some s1 =>
      simp [h1] at h
      exact ih (scr_insertJob hs h1 (Or.inl (hjs j (by simp)))) (fun j hj => hjs j (by simp [hj])) h

theorem ReachInit.scr {sc : Script} {s : State} (r : ReachInit sc s) (hn : s.inserted.Nodup) : Scr sc s := by
  induction r with
  | init h => exact scr_insertAll (scr_empty sc) (fun j hj => hj) h
  | launch id r h ih => exact scr_launch (ih ((mono_launch h).nodup hn)) h
  | finish id r h ih => exact scr_finish (ih ((mono_finish h).nodup hn)) h
  | deliver id r h ih =>
    have hn' := (mono_deliver h).nodup hn
    exact scr_deliver (r.reach.wf hn') (ih hn') h

end Fontc.Sched
