/-
  C11 helper lemmas: association lists as maps (`Cmp.mapInsert`), `List.lookup`, `findSome?`.
-/
import FontcModel.FeaCompile

namespace Fontc.FeaCompile
open Cmp

theorem lookup_mapInsert {β : Type} (k k' : Glyph) (v : β) (m : List (Glyph × β)) :
    (mapInsert k v m).lookup k' = if k' = k then some v else m.lookup k' := by
  induction m with
  | nil => simp [mapInsert, List.lookup]; split <;> simp_all
  | cons hd tl ih =>
    obtain ⟨a, b⟩ := hd
    simp only [mapInsert]
    split
    · simp [List.lookup]; split <;> simp_all
    · split
      · subst_vars; simp [List.lookup]; split <;> simp_all
      · simp [List.lookup, ih]
        split <;> simp_all
        intro h; exact absurd h.symm ‹_›

theorem lookup_eq_none_of_not_mem {β : Type} (ps : List (Glyph × β)) (g : Glyph)
    (h : g ∉ ps.map (·.1)) : ps.lookup g = none := by
  induction ps with
  | nil => rfl
  | cons p ps ih =>
    obtain ⟨a, b⟩ := p
    simp only [List.map_cons, List.mem_cons, not_or] at h
    simp only [List.lookup]
    have : (g == a) = false := by simp [h.1]
    simp [this, ih h.2]

theorem lookup_append {β : Type} (xs ys : List (Glyph × β)) (g : Glyph) :
    (xs ++ ys).lookup g = (xs.lookup g).orElse fun _ => ys.lookup g := by
  induction xs with
  | nil => simp [List.lookup]
  | cons p xs ih =>
    obtain ⟨a, b⟩ := p
    simp only [List.cons_append, List.lookup]
    split <;> simp_all

/-- With distinct keys, folding `mapInsert` over a list of pairs gives a map that looks the pairs up
    first and falls back to the initial map. -/
theorem lookup_foldl_mapInsert {β : Type} (ps : List (Glyph × β)) (m : List (Glyph × β)) (g : Glyph)
    (hnd : (ps.map (·.1)).Nodup) :
    (ps.foldl (fun m (p : Glyph × β) => mapInsert p.1 p.2 m) m).lookup g
      = (ps.lookup g).orElse fun _ => m.lookup g := by
  induction ps generalizing m with
  | nil => simp [List.lookup]
  | cons p ps ih =>
    obtain ⟨a, b⟩ := p
    simp only [List.map_cons, List.nodup_cons] at hnd
    simp only [List.foldl_cons, ih _ hnd.2, lookup_mapInsert, List.lookup]
    by_cases hga : g = a
    · subst hga
      simp [lookup_eq_none_of_not_mem ps g hnd.1]
    · have : (g == a) = false := by simp [hga]
      simp [this, hga]

theorem findSome_lookup_flatMap {α β : Type} (f : α → List (Glyph × β)) (xs : List α) (g : Glyph) :
    xs.findSome? (fun x => (f x).lookup g) = (xs.flatMap f).lookup g := by
  induction xs with
  | nil => rfl
  | cons x xs ih =>
    simp only [List.findSome?_cons, List.flatMap_cons, lookup_append, ih]
    cases (f x).lookup g <;> simp

theorem lookup_map_const {β : Type} (ts : List Glyph) (v : β) (g : Glyph) :
    (ts.map (·, v)).lookup g = if ts.contains g then some v else none := by
  induction ts with
  | nil => rfl
  | cons t ts ih =>
    simp only [List.map_cons, List.lookup, List.contains_cons]
    by_cases h : g = t
    · subst h; simp
    · have : (g == t) = false := by simp [h]
      simp [this, ih]

theorem lookup_map_snd {β γ : Type} (f : β → γ) (ps : List (Glyph × β)) (g : Glyph) :
    (ps.map fun p => (p.1, f p.2)).lookup g = (ps.lookup g).map f := by
  induction ps with
  | nil => rfl
  | cons p ps ih =>
    obtain ⟨a, b⟩ := p
    simp only [List.map_cons, List.lookup]
    split <;> simp_all

theorem lookup_zip (ts xs : List Glyph) (g : Glyph) :
    (ts.zip xs).lookup g = (indexOf? ts g).bind (xs[·]?) := by
  induction ts generalizing xs with
  | nil => rfl
  | cons t ts ih =>
    cases xs with
    | nil =>
      simp only [List.zip_nil_right, List.lookup, indexOf?]
      split <;> simp
    | cons x xs =>
      simp only [List.zip_cons_cons, List.lookup, indexOf?]
      by_cases h : t = g
      · subst h; simp
      · have h' : (g == t) = false := by simp; exact fun e => h e.symm
        simp only [h', h, if_false, ih xs]
        cases indexOf? ts g <;> simp

theorem map_fst_map {β γ : Type} (f : β → γ) (ps : List (Glyph × β)) :
    (ps.map fun p => (p.1, f p.2)).map (·.1) = ps.map (·.1) := by
  induction ps <;> simp_all

end Fontc.FeaCompile
