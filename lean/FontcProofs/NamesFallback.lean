/-
  Helper lemmas for C18: `NameBuilder::build` (statement by statement) computes the declarative fallback rules.
  Core Lean only.
-/
import FontcProofs.NamesAssoc

namespace Fontc.Names

/-! ### builder operations as updates of the lookup function -/

@[simp] theorem Builder.add_major (b : Builder) (i : Nat) (v : Str) : (b.add i v).major = b.major := rfl
@[simp] theorem Builder.add_minor (b : Builder) (i : Nat) (v : Str) : (b.add i v).minor = b.minor := rfl

theorem Builder.get_add (b : Builder) (i j : Nat) (v : Str) :
    (b.add i v).get j = if i = j then some (normCR v) else b.get j := by
  simp [Builder.get, Builder.add, alookup_ainsert]

theorem Builder.get_remove (b : Builder) (i j : Nat) :
    (b.remove i).get j = if i = j then none else b.get j := by
  simp [Builder.get, Builder.remove, alookup_aerase]

theorem Builder.has_eq (b : Builder) (i : Nat) : b.has i = (b.get i).isSome := rfl

theorem Builder.add_nodup (b : Builder) (i : Nat) (v : Str) (h : (akeys b.names).Nodup) : (akeys (b.add i v).names).Nodup :=
  akeys_ainsert_nodup h

theorem Builder.remove_nodup (b : Builder) (i : Nat) (h : (akeys b.names).Nodup) : (akeys (b.remove i).names).Nodup :=
  akeys_aerase_nodup h

@[simp] theorem Builder.ensure_major (b : Builder) (i : Nat) (v : Str) : (b.ensure i v).major = b.major := by
  unfold Builder.ensure; split <;> rfl
@[simp] theorem Builder.ensure_minor (b : Builder) (i : Nat) (v : Str) : (b.ensure i v).minor = b.minor := by
  unfold Builder.ensure; split <;> rfl

theorem Builder.get_ensure (b : Builder) (i j : Nat) (v : Str) :
    (b.ensure i v).get j = if i = j then some ((b.get i).getD (normCR v)) else b.get j := by
  unfold Builder.ensure
  rw [Builder.has_eq]
  cases h : b.get i with
  | none =>
    simp only [Option.isSome_none, Bool.false_eq_true, if_false, Builder.get_add, Option.getD_none]
  | some w =>
    simp only [Option.isSome_some, if_true, Option.getD_some]
    split
    · next e => rw [← e, h]
    · rfl

theorem Builder.ensure_nodup (b : Builder) (i : Nat) (v : Str) (h : (akeys b.names).Nodup) :
    (akeys (b.ensure i v).names).Nodup := by
  unfold Builder.ensure; split
  · exact h
  · exact Builder.add_nodup b i v h

/-- `apply_fallback(id, [fb])` when the fallback is known to be set -/
theorem Builder.applyFallback_of_some (b : Builder) (i fb : Nat) (w : Str) (h : b.get fb = some w) :
    b.applyFallback i [fb] = b.ensure i w := by
  unfold Builder.applyFallback Builder.ensure Builder.fallbackOrDefault
  simp [h]

theorem Builder.fallbackString_eq (b : Builder) (i fb : Nat) :
    b.fallbackString i fb = (b.get fb).getD ((defaultValue i).getD []) := by
  unfold Builder.fallbackString Builder.fallbackOrDefault
  cases h : b.get fb <;> simp [h]

/-- the final `retain`: lookup after dropping empty strings -/
theorem Builder.lookup_retain (b : Builder) (h : (akeys b.names).Nodup) (id : Nat) :
    alookup id (b.names.filter fun p => !p.2.isEmpty) = (b.get id).filter fun v => !v.isEmpty :=
  alookup_filter_val (fun v => !v.isEmpty) id h

theorem Builder.applyFallback_nodup (b : Builder) (i : Nat) (fbs : List Nat) (h : (akeys b.names).Nodup) :
    (akeys (b.applyFallback i fbs).names).Nodup := by
  unfold Builder.applyFallback
  split
  · exact h
  · split
    · exact Builder.add_nodup _ _ _ h
    · exact h

theorem Builder.get_applyFallback (b : Builder) (i fb j : Nat) (w : Str) (h : b.get fb = some w) :
    (b.applyFallback i [fb]).get j = if i = j then some ((b.get i).getD (normCR w)) else b.get j := by
  rw [Builder.applyFallback_of_some b i fb w h, Builder.get_ensure]

@[simp] theorem Builder.applyFallback_major (b : Builder) (i : Nat) (fbs : List Nat) :
    (b.applyFallback i fbs).major = b.major := by
  unfold Builder.applyFallback; split
  · rfl
  · split <;> rfl
@[simp] theorem Builder.applyFallback_minor (b : Builder) (i : Nat) (fbs : List Nat) :
    (b.applyFallback i fbs).minor = b.minor := by
  unfold Builder.applyFallback; split
  · rfl
  · split <;> rfl

/-! ### the values of the declarative specification, one by one -/

section Values
variable (src : Nat → Option Str) (major : Int) (minor : Nat) (vendor : Str)

def vStyle : Str := (src 17).getD (lit "Regular")
def v2 : Str := (src 2).getD (normCR (if isRibbi (vStyle src) then vStyle src else lit "Regular"))
def vSuffix : Str := if (src 2).isSome || isRibbi (vStyle src) || (vStyle src).isEmpty then [] else 0x20 :: vStyle src
def v1 : Str := (src 1).getD (normCR ((src 16).getD (lit "New Font") ++ vSuffix src))
def v16 : Str := (src 16).getD (normCR (v1 src))
def v17 : Str := (src 17).getD (normCR (v2 src))
def v5 : Str := (src 5).getD (normCR (versionString major minor))
def v4 : Str := (src 4).getD (normCR (makeFamilyName (v16 src) (v17 src)))
def v6 : Str := (src 6).getD (normCR (normalizePS (makeFamilyName
  (if (v17 src).isEmpty then (v16 src).filter (fun c => c != 0x20) else (v16 src).filter (fun c => c != 0x20) ++ [0x2D]) (v17 src))))
def v3 : Str := (src 3).getD (normCR (removeSub (lit "Version ") (v5 src major minor) ++ 0x3B :: vendor ++ 0x3B :: v6 src))

theorem fallbackSpec_eq : fallbackSpec src major minor vendor =
    { id1 := v1 src, id2 := v2 src, id3 := v3 src major minor vendor, id4 := v4 src, id5 := v5 src major minor,
      id6 := v6 src, id16 := v16 src, id17 := v17 src, dropTypo := v1 src == v16 src && v2 src == v17 src } := rfl

end Values

/-! ### the statements of `build`, one by one -/

def s2 (b : Builder) : Builder :=
  b.ensure 2 (if isRibbi (b.fallbackString 2 17) then b.fallbackString 2 17 else lit "Regular")
def sfx (b : Builder) : Option Str :=
  if b.has 2 || isRibbi (b.fallbackString 2 17) || (b.fallbackString 2 17).isEmpty then none else some (b.fallbackString 2 17)
def s1 (b : Builder) : Builder :=
  (s2 b).ensure 1 (match sfx b with
    | some s => (s2 b).fallbackString 1 16 ++ 0x20 :: s
    | none => (s2 b).fallbackString 1 16)
def s16 (b : Builder) : Builder := (s1 b).applyFallback 16 [1]
def s17 (b : Builder) : Builder := (s16 b).applyFallback 17 [2]
def s5 (b : Builder) : Builder := (s17 b).ensure 5 (versionString (s17 b).major (s17 b).minor)
def s4 (b : Builder) : Builder := (s5 b).ensure 4 (makeFamilyName (((s5 b).get 16).getD []) (((s5 b).get 17).getD []))
def s6 (b : Builder) : Builder :=
  (s4 b).ensure 6 (
    let family := (((s4 b).get 16).getD []).filter (fun c => c != 0x20)
    let subfamily := ((s4 b).get 17).getD []
    let family := if subfamily.isEmpty then family else family ++ [0x2D]
    normalizePS (makeFamilyName family subfamily))
def s3 (b : Builder) (vendor : Str) : Builder :=
  (s6 b).ensure 3 (removeSub (lit "Version ") (((s6 b).get 5).getD []) ++ 0x3B :: vendor ++ 0x3B :: ((s6 b).get 6).getD [])
def sEnd (b : Builder) (vendor : Str) : Builder :=
  if ((s3 b vendor).get 1).isSome && ((s3 b vendor).get 2).isSome && (s3 b vendor).get 1 == (s3 b vendor).get 16 &&
      (s3 b vendor).get 2 == (s3 b vendor).get 17
  then ((s3 b vendor).remove 16).remove 17 else s3 b vendor

theorem build_eq (b : Builder) (vendor : Str) :
    b.build vendor = (sEnd b vendor).names.filter fun p => !p.2.isEmpty := rfl

theorem fs_eq (b : Builder) : b.fallbackString 2 17 = vStyle b.get := by
  rw [Builder.fallbackString_eq]; simp [defaultValue, vStyle]

theorem s2_get (b : Builder) (j : Nat) : (s2 b).get j = if 2 = j then some (v2 b.get) else b.get j := by
  unfold s2; rw [Builder.get_ensure, fs_eq]; rfl

theorem s1_get (b : Builder) (j : Nat) :
    (s1 b).get j = if 1 = j then some (v1 b.get) else if 2 = j then some (v2 b.get) else b.get j := by
  unfold s1
  rw [Builder.get_ensure]
  simp only [s2_get, Builder.fallbackString_eq]
  split
  · congr 1
    simp only [v1, defaultValue, sfx, fs_eq, Builder.has_eq, vSuffix]
    simp only [show ¬ (2 = 1) by decide, show ¬ (2 = 16) by decide, if_false, if_true, Option.getD_some]
    congr 2
    by_cases hc : ((b.get 2).isSome || isRibbi (vStyle b.get) || List.isEmpty (vStyle b.get)) = true
    · simp only [hc, if_true]; simp
    · simp only [hc]; simp
  · rfl

theorem s16_get (b : Builder) (j : Nat) :
    (s16 b).get j = if 16 = j then some (v16 b.get) else (s1 b).get j := by
  unfold s16
  rw [Builder.get_applyFallback _ 16 1 j (v1 b.get) (by simp [s1_get])]
  simp [s1_get, v16]

theorem s17_get (b : Builder) (j : Nat) :
    (s17 b).get j = if 17 = j then some (v17 b.get) else (s16 b).get j := by
  unfold s17
  rw [Builder.get_applyFallback _ 17 2 j (v2 b.get) (by simp [s16_get, s1_get])]
  simp [s16_get, s1_get, v17]

theorem s5_get (b : Builder) (j : Nat) :
    (s5 b).get j = if 5 = j then some (v5 b.get b.major b.minor) else (s17 b).get j := by
  unfold s5
  rw [Builder.get_ensure]
  have hM : (s17 b).major = b.major := by simp [s17, s16, s1, s2]
  have hm : (s17 b).minor = b.minor := by simp [s17, s16, s1, s2]
  simp [s17_get, s16_get, s1_get, v5, hM, hm]

theorem s4_get (b : Builder) (j : Nat) :
    (s4 b).get j = if 4 = j then some (v4 b.get) else (s5 b).get j := by
  unfold s4
  rw [Builder.get_ensure]
  simp [s5_get, s17_get, s16_get, s1_get, v4]

theorem s6_get (b : Builder) (j : Nat) :
    (s6 b).get j = if 6 = j then some (v6 b.get) else (s4 b).get j := by
  unfold s6
  rw [Builder.get_ensure]
  simp [s4_get, s5_get, s17_get, s16_get, s1_get, v6]

theorem s3_get (b : Builder) (vendor : Str) (j : Nat) :
    (s3 b vendor).get j = if 3 = j then some (v3 b.get b.major b.minor vendor) else (s6 b).get j := by
  unfold s3
  rw [Builder.get_ensure]
  simp [s6_get, s4_get, s5_get, s17_get, s16_get, s1_get, v3]

theorem s3_nodup (b : Builder) (vendor : Str) (hn : (akeys b.names).Nodup) : (akeys (s3 b vendor).names).Nodup := by
  unfold s3 s6 s4 s5 s17 s16 s1 s2
  repeat (first | apply Builder.ensure_nodup | apply Builder.applyFallback_nodup)
  exact hn

theorem sEnd_nodup (b : Builder) (vendor : Str) (hn : (akeys b.names).Nodup) : (akeys (sEnd b vendor).names).Nodup := by
  unfold sEnd
  split
  · exact Builder.remove_nodup _ _ (Builder.remove_nodup _ _ (s3_nodup b vendor hn))
  · exact s3_nodup b vendor hn

theorem build_lookup (b : Builder) (vendor : Str) (hn : (akeys b.names).Nodup) (id : Nat) :
    alookup id (b.build vendor) = (fallbackSpec b.get b.major b.minor vendor).get b.get id := by
  rw [build_eq, Builder.lookup_retain _ (sEnd_nodup b vendor hn), fallbackSpec_eq]
  unfold FallbackSpec.get sEnd
  simp only [s3_get, s6_get, s4_get, s5_get, s17_get, s16_get, s1_get]
  simp only [show ¬ (3 = 1) by decide, show ¬ (6 = 1) by decide, show ¬ (4 = 1) by decide, show ¬ (5 = 1) by decide,
    show ¬ (17 = 1) by decide, show ¬ (16 = 1) by decide, show ¬ (3 = 2) by decide, show ¬ (6 = 2) by decide,
    show ¬ (4 = 2) by decide, show ¬ (5 = 2) by decide, show ¬ (17 = 2) by decide, show ¬ (16 = 2) by decide,
    show ¬ (1 = 2) by decide, show ¬ (3 = 16) by decide, show ¬ (6 = 16) by decide, show ¬ (4 = 16) by decide,
    show ¬ (5 = 16) by decide, show ¬ (17 = 16) by decide, show ¬ (3 = 17) by decide, show ¬ (6 = 17) by decide,
    show ¬ (4 = 17) by decide, show ¬ (5 = 17) by decide, if_false, if_true, Option.isSome_some, Bool.true_and]
  congr 1
  have e : (some (v1 b.get) == some (v16 b.get) && some (v2 b.get) == some (v17 b.get)) =
      (v1 b.get == v16 b.get && v2 b.get == v17 b.get) := by simp
  rw [e]
  rw [apply_ite (fun c : Builder => c.get id)]
  simp only [Builder.get_remove, s3_get, s6_get, s4_get, s5_get, s17_get, s16_get, s1_get]
  generalize v1 b.get = a1
  generalize v2 b.get = a2
  generalize v3 b.get b.major b.minor vendor = a3
  generalize v4 b.get = a4
  generalize v5 b.get b.major b.minor = a5
  generalize v6 b.get = a6
  generalize v16 b.get = a16
  generalize v17 b.get = a17
  generalize (a1 == a16 && a2 == a17) = d
  have flip : ∀ k : Nat, (k = id) = (id = k) := fun k => propext ⟨Eq.symm, Eq.symm⟩
  cases d
  · simp only [Bool.false_eq_true, if_false, flip]
    by_cases h3 : id = 3
    · subst h3; simp
    by_cases h6 : id = 6
    · subst h6; simp
    by_cases h4 : id = 4
    · subst h4; simp
    by_cases h5 : id = 5
    · subst h5; simp
    by_cases h17 : id = 17
    · subst h17; simp
    by_cases h16 : id = 16
    · subst h16; simp
    by_cases h1 : id = 1
    · subst h1; simp
    by_cases h2 : id = 2
    · subst h2; simp
    simp [h1, h2, h3, h4, h5, h6, h16, h17]
  · simp only [if_true, flip]
    by_cases h3 : id = 3
    · subst h3; simp
    by_cases h6 : id = 6
    · subst h6; simp
    by_cases h4 : id = 4
    · subst h4; simp
    by_cases h5 : id = 5
    · subst h5; simp
    by_cases h17 : id = 17
    · subst h17; simp
    by_cases h16 : id = 16
    · subst h16; simp
    by_cases h1 : id = 1
    · subst h1; simp
    by_cases h2 : id = 2
    · subst h2; simp
    simp [h1, h2, h3, h4, h5, h6, h16, h17]

end Fontc.Names
