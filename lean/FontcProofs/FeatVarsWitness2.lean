/-
  Concrete witnesses for C16 (continued): precedence among conflicting rules, a rule without condition sets.
-/
import FontcProofs.FeatVarsTop
import FontcProofs.FeatVarsTouch

namespace Fontc.FeatVars

/-! ### precedence: rules A, B, C where A and C have the same region and A, B both substitute glyph 1.
    `merge_same_region_rules` files A+C at C's position, i.e. after B. -/
def precRules : List Rule :=
  [ ([[some (0, 1)]],     [(1, 11)]),      -- A: glyph 1 → 11 on [0, 1]
    ([[some (-1/2, 1/2)]], [(1, 12)]),      -- B: glyph 1 → 12 on [-1/2, 1/2]
    ([[some (0, 1)]],     [(2, 13)]) ]     -- C: glyph 2 → 13 on [0, 1]

theorem precRules_ok : RulesOk 1 precRules := rulesOkB_sound (by decide +kernel)

theorem prec_off_boundary : ¬ OnTouchingBoundary (precRules.flatMap (·.1)) [1/4] :=
  offLowerBoundsB_sound (by decide +kernel)

/-- at 1/4 all three rules are active; the earlier rule A should win for glyph 1 (→ 11), but the first matching
    box lists B's map first (→ 12) -/
theorem prec_first_match :
    effective (activeSubs precRules [1/4]) 1 = some 11 ∧
    (firstMatch ((overlayFeatureVariations natOps 1 precRules).getD []) [1/4]).getD [] = [[(1, 12)], [(1, 11), (2, 13)]] ∧
    effective ((firstMatch ((overlayFeatureVariations natOps 1 precRules).getD []) [1/4]).getD []) 1 = some 12 := by
  decide +kernel

/-! ### a rule without any condition set wipes the rules before it -/
def emptyRegionRules : List Rule :=
  [ ([[some (0, 1)]], [(1, 11)]),
    ([],             [(2, 12)]) ]

theorem emptyRegion_first_match :
    activeSubs emptyRegionRules [1/2] = [[(1, 11)]] ∧
    (overlayFeatureVariations natOps 1 emptyRegionRules).map List.length = some 0 := by
  decide +kernel

end Fontc.FeatVars
