/-
  C15 helper lemmas (3/4): the final state of the depth sort is stuck (`Stuck`), `leftover = []` iff the graph is
  acyclic (given no dangling references), pruning.
-/
import FontcProofs.CompGraphInv
namespace Fontc.CompGraph
variable {α : Type} [DecidableEq α]

/-- no glyph of `ind` can be placed with the depths `ds` -/
def Stuck (ds : Depths α) (ind : Graph α) : Prop := ∀ e ∈ ind, maxCompDepth ds e.2 = none

theorem round_no_progress (ds : Depths α) (ind : Graph α) (h : (round ds ind).2.length = ind.length) :
    round ds ind = (ds, ind) ∧ Stuck ds ind := by
  induction ind generalizing ds with
  | nil => simp [round, Stuck]
  | cons e rest ih =>
    obtain ⟨n, cs⟩ := e
    simp only [round] at h ⊢
    split at h
    · rename_i m hm
      have := round_length_le ((n, m + 1) :: ds) rest
      simp only [List.length_cons] at h; omega
    · rename_i hm
      simp only [List.length_cons, Nat.add_right_cancel_iff] at h
      obtain ⟨h1, h2⟩ := ih ds h
      refine ⟨by simp [h1], ?_⟩
      intro e he
      rcases List.mem_cons.mp he with he | he
      · subst he; exact hm
      · exact h2 e he

theorem Stuck.loop : ∀ (fuel p : Nat) (ds : Depths α) (ind : Graph α) r,
    loop fuel p ds ind = some r → (p = 0 → Stuck ds ind) → Stuck r.1 r.2 := by
  intro fuel
  induction fuel with
  | zero =>
    intro p ds ind r h hp
    cases p with
    | zero => rw [loop_zero] at h; cases h; exact hp rfl
    | succ p => simp [CompGraph.loop] at h
  | succ fuel ih =>
    intro p ds ind r h hp
    cases p with
    | zero => rw [loop_zero] at h; cases h; exact hp rfl
    | succ p =>
      simp only [CompGraph.loop] at h
      refine ih _ _ _ _ h ?_
      intro hz
      have hle := round_length_le ds ind
      have := round_no_progress ds ind (by omega)
      rw [this.1]; exact this.2

theorem depthCoreFuel_isSome (g : Graph α) (fuel : Nat) (h : g.length + 1 ≤ fuel) : (depthCoreFuel fuel g).isSome := by
  apply loop_isSome
  have : (composites g).length ≤ g.length := List.length_filter_le _ _
  omega

theorem depthCoreFuel_eq (g : Graph α) : depthCoreFuel (g.length + 1) g = some (depthCore g) := by
  have := depthCoreFuel_isSome g (g.length + 1) (Nat.le_refl _)
  obtain ⟨r, hr⟩ := Option.isSome_iff_exists.mp this
  simp [depthCore, hr]

theorem depthCore_inv (g : Graph α) (hnd : (names g).Nodup) : Inv g (depthCore g).1 (depthCore g).2 :=
  Inv.loop hnd _ _ _ _ _ (depthCoreFuel_eq g) (Inv.init hnd)

theorem depthCore_stuck (g : Graph α) : Stuck (depthCore g).1 (depthCore g).2 := by
  refine Stuck.loop _ _ _ _ _ (depthCoreFuel_eq g) ?_
  intro hz e he
  -- no simple glyph at all: no depth is known, and every indeterminate glyph has a component
  have hnil : simples g = [] := List.eq_nil_of_length_eq_zero hz
  obtain ⟨_, he2⟩ := mem_composites.mp he
  rw [hnil]
  cases hcs : e.2 with
  | nil => exact absurd hcs he2
  | cons c cs => simp [maxCompDepth, depthOf]

/-- with nothing left over, the depths are a rank function -/
theorem acyclic_of_leftover_nil (g : Graph α) (hnd : (names g).Nodup) (h : (depthCore g).2 = []) : Acyclic g := by
  have hI := depthCore_inv g hnd
  refine ⟨fun n => (depthOf (depthCore g).1 n).getD 0, ?_⟩
  intro n c hc
  have hmem := mem_of_mem_compsOf g n c hc
  rcases hI.cover _ hmem with hs | hs
  · obtain ⟨d, hd⟩ := Option.isSome_iff_exists.mp hs
    simp only at hd
    obtain ⟨dc, h1, h2⟩ := hI.rank n d hd c hc
    simp [hd, h1, h2]
  · rw [h] at hs; simp at hs

/-- on an acyclic graph without dangling references nothing is left over -/
theorem leftover_nil_of_acyclic (g : Graph α) (hnd : (names g).Nodup) (hac : Acyclic g) (hdg : NoDangling g) :
    (depthCore g).2 = [] := by
  have hI := depthCore_inv g hnd
  have hS := depthCore_stuck g
  obtain ⟨rank, hrank⟩ := hac
  have all : ∀ k, ∀ e ∈ g, rank e.1 = k → (depthOf (depthCore g).1 e.1).isSome := by
    intro k
    induction k using Nat.strongRecOn with
    | _ k ih =>
      intro e he hk
      have hcs : compsOf g e.1 = e.2 := compsOf_of_mem g hnd e.1 e.2 he
      have hchildren : ∀ c ∈ e.2, (depthOf (depthCore g).1 c).isSome := by
        intro c hc
        have hc' : c ∈ compsOf g e.1 := hcs ▸ hc
        have hlt := hrank e.1 c hc'
        obtain ⟨e', he', heq⟩ := List.mem_map.mp (hdg e.1 c hc')
        have := ih (rank c) (by omega) e' he' (by rw [heq])
        rwa [heq] at this
      rcases hI.cover e he with h | h
      · exact h
      · have h1 := hS e h
        have h2 := maxCompDepth_isSome _ _ hchildren
        rw [h1] at h2; cases h2
  cases hl : (depthCore g).2 with
  | nil => rfl
  | cons e rest =>
    have he : e ∈ (depthCore g).2 := by rw [hl]; exact List.mem_cons_self ..
    have h1 := hI.fresh e he
    have h2 := all _ e (hI.sub.subset he) rfl
    rw [h1] at h2; cases h2

/-! ### pruning -/

theorem names_prune (g : Graph α) : names (prune g) = names g := by
  simp [names, prune, List.map_map, Function.comp_def]

theorem compsOf_prune_aux (g h : Graph α) (n : α) :
    compsOf (h.map fun e => (e.1, e.2.filter fun c => decide (c ∈ names g))) n =
      (compsOf h n).filter fun c => decide (c ∈ names g) := by
  induction h with
  | nil => rfl
  | cons e h ih =>
    obtain ⟨m, cs⟩ := e
    simp only [List.map_cons, compsOf_cons]
    split
    · rfl
    · exact ih

theorem compsOf_prune (g : Graph α) (n : α) :
    compsOf (prune g) n = (compsOf g n).filter fun c => decide (c ∈ names g) := compsOf_prune_aux g g n

theorem prune_noDangling (g : Graph α) : NoDangling (prune g) := by
  intro n c hc
  rw [compsOf_prune] at hc
  rw [names_prune]
  simpa using (List.mem_filter.mp hc).2

/-- nothing to prune: the graph is unchanged -/
theorem prune_eq_self (g : Graph α) (hnd : (names g).Nodup) (h : NoDangling g) : prune g = g := by
  unfold prune
  conv => rhs; rw [← List.map_id g]
  apply List.map_congr_left
  intro e he
  have hcs : compsOf g e.1 = e.2 := compsOf_of_mem g hnd e.1 e.2 he
  have : (e.2.filter fun c => decide (c ∈ names g)) = e.2 := by
    apply List.filter_eq_self.mpr
    intro c hc
    simpa using h e.1 c (hcs ▸ hc)
  simp [this]

end Fontc.CompGraph
