/-
  C11: from the top-level invariant to `shape = interp`.
-/
import FontcProofs.FeaSimTop
import FontcProofs.FeaRunSem

namespace Fontc.FeaCompile
open Cmp
set_option linter.unusedSimpArgs false

theorem attach_flatten_nodup (U : List (List Glyph)) (hU1 : ∀ c ∈ U, c.Nodup)
    (hU2 : ∀ c ∈ U, ∀ c' ∈ U, c ≠ c' → ∀ g ∈ c, g ∉ c') :
    ∀ (l : List (List Glyph)), l.Nodup → (∀ c ∈ l, c ∈ U) → (l.flatMap id).Nodup := by
  intro l
  induction l with
  | nil => intro _ _; simp
  | cons c l ih =>
    intro hl hsub
    simp only [List.nodup_cons] at hl
    simp only [List.flatMap_cons, id]
    rw [List.nodup_append]
    refine ⟨hU1 c (hsub c (by simp)), ih hl.2 (fun c' h => hsub c' (by simp [h])), ?_⟩
    intro g hg g' hg' e
    subst e
    obtain ⟨c', hc', hgc'⟩ := List.mem_flatMap.mp hg'
    have hne : c ≠ c' := fun e => hl.1 (e ▸ hc')
    exact hU2 c (hsub c (by simp)) c' (hsub c' (by simp [hc'])) hne g hg hgc'

def mkId (isPos : Bool) (n : Nat) : LookupId := if isPos then .gpos n else .gsub n

def Cmp.LookupId.idx : LookupId → Nat
  | .gsub n => n
  | .gpos n => n
  | .empty => 0

theorem mem_lookupIdxs (isPos : Bool) (ls : List LookupId) (a : Nat) :
    a ∈ lookupIdxs isPos ls ↔ mkId isPos a ∈ ls := by
  unfold lookupIdxs
  rw [mem_sortDedup, List.mem_filterMap]
  constructor
  · rintro ⟨id, hid, h⟩
    cases id <;> cases isPos <;> simp_all [mkId]
  · intro h
    refine ⟨_, h, ?_⟩
    cases isPos <;> simp [mkId]

/-- facts about an entry and its id -/
theorem OutRel.of_mem_zip {fx : Fixes} {s : St} :
    ∀ {es : List Src.Entry} {ids : List LookupId}, OutRel fx s (entItems es) ids →
    ∀ e id, (e, id) ∈ es.zip ids →
      e.lookup.name = none ∧
      ∃ ls, CompiledRun fx s.attachIds s.filterIds e.lookup.flag e.lookup.rules id ls ∧ Placed s.gsub s.gpos id ls := by
  intro es
  induction es with
  | nil => intro ids _ e id h; simp at h
  | cons e0 es ih =>
    intro ids h e id hmem
    cases ids with
    | nil => simp [entItems, OutRel] at h
    | cons id0 ids =>
      simp only [entItems, List.map_cons, OutRel] at h
      simp only [List.zip_cons_cons, List.mem_cons, Prod.mk.injEq] at hmem
      rcases hmem with ⟨rfl, rfl⟩ | hmem
      · exact ⟨h.2.1, h.2.2.1⟩
      · exact ih h.2.2.2 e id hmem

theorem zip_map_snd {α β : Type} (as : List α) (bs : List β) (h : as.length = bs.length) : (as.zip bs).map (·.2) = bs := by
  induction as generalizing bs with
  | nil => cases bs <;> simp_all
  | cons a as ih =>
    cases bs with
    | nil => simp at h
    | cons b bs => simp at h; simp [ih bs h]

theorem zip_filter_map_fst {α β : Type} (as : List α) (bs : List β) (h : as.length = bs.length) (p : α → Bool) :
    ((as.zip bs).filter fun x => p x.1).map (·.1) = as.filter p := by
  induction as generalizing bs with
  | nil => cases bs <;> simp_all
  | cons a as ih =>
    cases bs with
    | nil => simp at h
    | cons b bs =>
      simp at h
      simp only [List.zip_cons_cons, List.filter_cons]
      cases p a <;> simp [ih bs h]

theorem lookup_eq_some_iff_mem' {κ β : Type} [BEq κ] [LawfulBEq κ] (l : List (κ × β)) (h : (l.map (·.1)).Nodup)
    (k : κ) (v : β) : l.lookup k = some v ↔ (k, v) ∈ l := by
  induction l with
  | nil => simp [List.lookup]
  | cons p l ih =>
    obtain ⟨a, b⟩ := p
    simp only [List.map_cons, List.nodup_cons] at h
    simp only [List.lookup, List.mem_cons, Prod.mk.injEq]
    by_cases hka : k = a
    · subst hka
      simp only [beq_self_eq_true, Option.some.injEq, true_and]
      constructor
      · intro e; exact Or.inl e.symm
      · rintro (e | hm)
        · exact e.symm
        · exact absurd (List.mem_map_of_mem (f := (·.1)) hm) h.1
    · have : (k == a) = false := by simp [hka]
      simp [this, hka, ih h.2]

theorem mem_regIds (es : List Src.Entry) (ids : List LookupId) (reg : Tag × Tag × Tag) (id : LookupId) :
    id ∈ regIds es ids reg ↔ ∃ e, (e, id) ∈ es.zip ids ∧ e.regs.contains reg = true := by
  simp only [regIds, List.mem_map, List.mem_filter]
  constructor
  · rintro ⟨⟨e, id'⟩, ⟨hm, hc⟩, rfl⟩; exact ⟨e, hm, hc⟩
  · rintro ⟨e, hm, hc⟩; exact ⟨(e, id), ⟨hm, hc⟩, rfl⟩

theorem active_iff (e : Src.Entry) (script lang : Tag) (feats : List Tag) :
    e.active script lang feats = true ↔ ∃ tag, feats.contains tag = true ∧ e.regs.contains (tag, script, lang) = true := by
  simp only [Src.Entry.active, List.any_eq_true, Bool.and_eq_true, beq_iff_eq, List.contains_iff_mem]
  constructor
  · rintro ⟨⟨f, s, l⟩, hm, ⟨hf, rfl⟩, rfl⟩; exact ⟨f, hf, hm⟩
  · rintro ⟨tag, hf, hm⟩; exact ⟨(tag, script, lang), hm, ⟨hf, rfl⟩, rfl⟩

/-- **Active lookup indices of the compiled table** = indices of the entries active for the request. -/
theorem mem_active_of_topInv (fx : Fixes) (U : List (List Glyph)) (dls : List Sys) (es : List Src.Entry) (s : St)
    (ids : List LookupId) (hinv : TopInv fx U dls es s ids) (isPos : Bool) (lookups : List OT.Lookup)
    (script lang : Tag) (hreg : (script, lang) ∈ dls) (feats : List Tag) (a : Nat) :
    a ∈ OT.activeLookups (buildTable lookups isPos s.features) script lang feats ↔
      ∃ e, (e, mkId isPos a) ∈ es.zip ids ∧ e.active script lang feats = true := by
  -- members of the feature map
  have hfm : ∀ key l, (key, l) ∈ s.features → l = regIds es ids (key.1, key.2.2, key.2.1) := by
    intro key l hm
    have := (lookup_eq_some_iff_mem' s.features hinv.featKeys key l).mpr hm
    have h2 := hinv.feats key.1 key.2.1 key.2.2
    rw [show (key.1, key.2.1, key.2.2) = key from rfl, this] at h2
    exact h2
  have hpresent : ∀ tag lang' script' id, id ∈ regIds es ids (tag, script', lang') →
      ∃ l, ((tag, lang', script'), l) ∈ s.features ∧ id ∈ l := by
    intro tag lang' script' id hid
    have h2 := hinv.feats tag lang' script'
    cases hq : s.features.lookup (tag, lang', script') with
    | none =>
      rw [hq] at h2
      simp only [Option.getD_none] at h2
      rw [← h2] at hid
      simp at hid
    | some l =>
      rw [hq] at h2
      simp at h2
      exact ⟨l, (lookup_eq_some_iff_mem' s.features hinv.featKeys _ l).mp hq, h2 ▸ hid⟩
  -- the right-hand side gives a registered lookup of the table
  have hrhs : ∀ e, (e, mkId isPos a) ∈ es.zip ids → e.active script lang feats = true →
      ∃ x ∈ s.features, x.1.2.1 = lang ∧ x.1.2.2 = script ∧ feats.contains x.1.1 = true ∧ a ∈ lookupIdxs isPos x.2 := by
    intro e hm hact
    obtain ⟨tag, hf, hc⟩ := (active_iff e script lang feats).mp hact
    obtain ⟨l, hl, hid⟩ := hpresent tag lang script _ ((mem_regIds es ids _ _).mpr ⟨e, hm, hc⟩)
    exact ⟨_, hl, rfl, rfl, hf, (mem_lookupIdxs isPos l a).mpr hid⟩
  by_cases hreg' : lang = "dflt" ∨ ∃ x ∈ s.features, x.1.2.1 = lang ∧ x.1.2.2 = script ∧ Counts isPos x
  · rw [mem_activeLookups_buildTable lookups isPos s.features script lang feats a hreg']
    constructor
    · rintro ⟨⟨key, l⟩, hm, h1, h2, hf, ha⟩
      simp only at h1 h2 hf ha
      have hl := hfm key l hm
      rw [mem_lookupIdxs, hl] at ha
      obtain ⟨e, hz, hc⟩ := (mem_regIds es ids _ _).mp ha
      refine ⟨e, hz, (active_iff e script lang feats).mpr ⟨key.1, hf, ?_⟩⟩
      rw [← h1, ← h2]; exact hc
    · rintro ⟨e, hm, hact⟩; exact hrhs e hm hact
  · -- no LangSys record for the language: then none for the script default either
    have hnl : lang ≠ "dflt" := fun e => hreg' (Or.inl e)
    have h1 : ¬ ∃ x ∈ s.features, x.1.2.1 = lang ∧ x.1.2.2 = script ∧ Counts isPos x := fun h => hreg' (Or.inr h)
    have h2 : ¬ ∃ x ∈ s.features, x.1.2.1 = "dflt" ∧ x.1.2.2 = script ∧ Counts isPos x := by
      rintro ⟨⟨key, l⟩, hm, e1, e2, hc⟩
      simp only at e1 e2
      have hl := hfm key l hm
      -- some id of the table is registered for (tag, script, dflt)
      have : ∃ b, b ∈ lookupIdxs isPos l := by
        cases hq : lookupIdxs isPos l with
        | nil => exact absurd hq hc
        | cons b _ => exact ⟨b, by simp⟩
      obtain ⟨b, hb⟩ := this
      rw [mem_lookupIdxs, hl] at hb
      obtain ⟨e, hz, hcon⟩ := (mem_regIds es ids _ _).mp hb
      obtain ⟨tagE, huni⟩ := hinv.regsUniform e (List.of_mem_zip hz).1
      have hk := (huni key.1 key.2.2 key.2.1).mp hcon
      have hcon' : e.regs.contains (key.1, script, lang) = true := (huni key.1 script lang).mpr ⟨hk.1, hreg⟩
      obtain ⟨l', hl', hid⟩ := hpresent key.1 lang script _ ((mem_regIds es ids _ _).mpr ⟨e, hz, hcon'⟩)
      apply h1
      refine ⟨_, hl', rfl, rfl, ?_⟩
      intro hempty
      have := (mem_lookupIdxs isPos l' b).mpr hid
      rw [hempty] at this
      simp at this
    rw [activeLookups_buildTable_nil lookups isPos s.features script lang feats h1 h2]
    constructor
    · intro h; simp at h
    · rintro ⟨e, hm, hact⟩
      exfalso
      obtain ⟨x, hx, e1, e2, _, ha⟩ := hrhs e hm hact
      exact h1 ⟨x, hx, e1, e2, by intro he; rw [he] at ha; simp at ha⟩

theorem entry_isPos (e : Src.Entry) (hne : e.lookup.rules ≠ []) (hk : ∀ r ∈ e.lookup.rules, r.kind = headKind e.lookup.rules) :
    e.lookup.isPos = (headKind e.lookup.rules).isPos := by
  simp only [Src.Lookup.isPos]
  exact any_isPos_of_homogeneous _ _ hne hk

/-- the id of an entry lies in the table of its type -/
theorem id_of_entry {fx : Fixes} {s : St} {es : List Src.Entry} {ids : List LookupId}
    (h : OutRel fx s (entItems es) ids) (e : Src.Entry) (id : LookupId) (hm : (e, id) ∈ es.zip ids) :
    id = mkId e.lookup.isPos id.idx := by
  obtain ⟨_, ls, hc, hp⟩ := h.of_mem_zip e id hm
  obtain ⟨hne, hk, hg, _⟩ := hc
  rw [entry_isPos e hne hk, ← hg]
  cases id with
  | gsub n => simp [mkId, Cmp.LookupId.isGpos, Cmp.LookupId.idx]
  | gpos n => simp [mkId, Cmp.LookupId.isGpos, Cmp.LookupId.idx]
  | empty => exact absurd hp (by simp [Placed])

theorem mkId_inj (b b' : Bool) (n n' : Nat) (h : mkId b n = mkId b' n') : b = b' ∧ n = n' := by
  cases b <;> cases b' <;> simp_all [mkId]

theorem idx_mkId (b : Bool) (n : Nat) : (mkId b n).idx = n := by cases b <;> rfl

/-- the entries active for the request, of one table, with their ids -/
def sel (es : List Src.Entry) (ids : List LookupId) (script lang : Tag) (feats : List Tag) (isPos : Bool) :
    List (Src.Entry × LookupId) :=
  (es.zip ids).filter fun x => x.1.active script lang feats && (x.1.lookup.isPos == isPos)

theorem sel_sorted {fx : Fixes} {s : St} {es : List Src.Entry} {ids : List LookupId}
    (h : OutRel fx s (entItems es) ids) (hord : ids.Pairwise idLt) (script lang : Tag) (feats : List Tag) (isPos : Bool) :
    ((sel es ids script lang feats isPos).map (·.2.idx)).Pairwise (· < ·) := by
  have hlen : es.length = ids.length := by
    have := h.length; rw [entItems_length] at this; exact this
  have hsub : ((sel es ids script lang feats isPos).map (·.2)).Sublist ids := by
    have h1 : ((sel es ids script lang feats isPos).map (·.2)).Sublist ((es.zip ids).map (·.2)) :=
      List.Sublist.map _ List.filter_sublist
    rwa [zip_map_snd es ids hlen] at h1
  have hpw : ((sel es ids script lang feats isPos).map (·.2)).Pairwise idLt := hord.sublist hsub
  have hall : ∀ x ∈ sel es ids script lang feats isPos, x.2 = mkId isPos x.2.idx := by
    intro x hx
    obtain ⟨hz, hc⟩ := List.mem_filter.mp hx
    simp only [Bool.and_eq_true, beq_iff_eq] at hc
    have := id_of_entry h x.1 x.2 hz
    rw [hc.2] at this
    exact this
  generalize sel es ids script lang feats isPos = l at hpw hall
  induction l with
  | nil => simp
  | cons x l ih =>
    simp only [List.map_cons, List.pairwise_cons] at hpw ⊢
    refine ⟨?_, ih hpw.2 (fun y hy => hall y (by simp [hy]))⟩
    intro a ha
    obtain ⟨y, hy, rfl⟩ := List.mem_map.mp ha
    have h1 := hpw.1 y.2 (List.mem_map.mpr ⟨y, hy, rfl⟩)
    rw [hall x (by simp), hall y (by simp [hy])] at h1
    cases isPos <;> simpa [mkId, idLt] using h1

/-- **From the invariant to the theorem.** -/
theorem correct_of_topInv (fx : Fixes) (p : Program) (U : List (List Glyph)) (dls : List Sys) (s : St)
    (ids : List LookupId) (hinv : TopInv fx U dls (Src.entries p) s ids)
    (hents : ∀ e ∈ Src.entries p, GsubRunOk e.lookup.rules ∨ GposRunOk e.lookup.rules)
    (hgdef : (p.gdef.map (·.1)).Nodup)
    (hU1 : ∀ c ∈ U, c.Nodup) (hU2 : ∀ c ∈ U, ∀ c' ∈ U, c ≠ c' → ∀ g ∈ c, g ∉ c')
    (script lang : Tag) (hreg : (script, lang) ∈ dls) (feats : List Tag) (alt : Nat) (str : List Glyph) :
    shape ⟨buildTable s.gsub false s.features, buildTable s.gpos true s.features, buildGdef p s⟩ script lang feats alt str
      = interp p script lang feats alt str := by
  have hlen : (Src.entries p).length = ids.length := by
    have := hinv.ents.length; rw [entItems_length] at this; exact this
  have hatt : (s.attachIds.flatMap id).Nodup := attach_flatten_nodup U hU1 hU2 _ hinv.idsInv.1 hinv.attachU
  -- index lists
  have hactive : ∀ (isPos : Bool) (lookups : List OT.Lookup),
      OT.activeLookups (buildTable lookups isPos s.features) script lang feats
        = (sel (Src.entries p) ids script lang feats isPos).map (·.2.idx) := by
    intro isPos lookups
    apply sorted_ext _ _ (activeLookups_sorted _ _ _ _) (sel_sorted hinv.ents hinv.ordered script lang feats isPos)
    intro a
    rw [mem_active_of_topInv fx U dls _ s ids hinv isPos lookups script lang hreg feats a]
    simp only [List.mem_map, sel, List.mem_filter, Bool.and_eq_true, beq_iff_eq]
    constructor
    · rintro ⟨e, hm, hact⟩
      have hid := id_of_entry hinv.ents e _ hm
      rw [idx_mkId] at hid
      have := (mkId_inj _ _ _ _ hid).1
      exact ⟨(e, mkId isPos a), ⟨hm, hact, this.symm⟩, idx_mkId isPos a⟩
    · rintro ⟨⟨e, id⟩, ⟨hm, hact, hpos⟩, rfl⟩
      have hid := id_of_entry hinv.ents e id hm
      simp only at hpos
      rw [hpos] at hid
      exact ⟨e, hid ▸ hm, hact⟩
  apply shape_eq_interp_of p _ script lang feats alt
    ((sel (Src.entries p) ids script lang feats false).map fun x => (x.1, x.2.idx))
    ((sel (Src.entries p) ids script lang feats true).map fun x => (x.1, x.2.idx))
  · -- the substitution entries
    rw [List.map_map]
    have : ((fun x : Src.Entry × Nat => x.1) ∘ fun x : Src.Entry × LookupId => (x.1, x.2.idx)) = (·.1) := rfl
    rw [this, sel, zip_filter_map_fst _ _ hlen (fun e => e.active script lang feats && (e.lookup.isPos == false)),
      List.filter_filter]
    apply List.filter_congr
    intro e _
    cases e.lookup.isPos <;> simp [Bool.and_comm]
  · rw [List.map_map]
    have : ((fun x : Src.Entry × Nat => x.1) ∘ fun x : Src.Entry × LookupId => (x.1, x.2.idx)) = (·.1) := rfl
    rw [this, sel, zip_filter_map_fst _ _ hlen (fun e => e.active script lang feats && (e.lookup.isPos == true)),
      List.filter_filter]
    apply List.filter_congr
    intro e _
    cases e.lookup.isPos <;> simp [Bool.and_comm]
  · simp only [List.map_map]
    exact hactive false s.gsub
  · simp only [List.map_map]
    exact hactive true s.gpos
  · -- substitution lookups act alike
    intro x hx
    obtain ⟨⟨e, id⟩, hsel, rfl⟩ := List.mem_map.mp hx
    obtain ⟨hz, hc⟩ := List.mem_filter.mp hsel
    simp only [Bool.and_eq_true, beq_iff_eq] at hc
    have hid := id_of_entry hinv.ents e id hz
    rw [hc.2] at hid
    obtain ⟨_, ls, hcomp, hpl⟩ := hinv.ents.of_mem_zip e id hz
    have hmem : e ∈ Src.entries p := (List.of_mem_zip hz).1
    have hok : GsubRunOk e.lookup.rules := by
      rcases hents e hmem with h | h
      · exact h
      · have := entry_isPos e hcomp.1 hcomp.2.1
        rw [h.1, hc.2] at this
        simp [Kind.isPos] at this
    simp only [mkId, Bool.false_eq_true, ↓reduceIte] at hid
    rw [hid] at hcomp hpl
    have := run_applyGsub_correct fx p.gdef s.attachIds s.filterIds e.lookup.flag e.lookup.rules id.idx ls
      ⟨buildTable s.gsub false s.features, buildTable s.gpos true s.features, buildGdef p s⟩ hcomp hpl rfl hok hgdef hatt
      alt (Src.envOf (Src.entries p)) e.lookup.name
    exact this
  · intro x hx
    obtain ⟨⟨e, id⟩, hsel, rfl⟩ := List.mem_map.mp hx
    obtain ⟨hz, hc⟩ := List.mem_filter.mp hsel
    simp only [Bool.and_eq_true, beq_iff_eq] at hc
    have hid := id_of_entry hinv.ents e id hz
    rw [hc.2] at hid
    obtain ⟨_, ls, hcomp, hpl⟩ := hinv.ents.of_mem_zip e id hz
    have hmem : e ∈ Src.entries p := (List.of_mem_zip hz).1
    have hok : GposRunOk e.lookup.rules := by
      rcases hents e hmem with h | h
      · have := entry_isPos e hcomp.1 hcomp.2.1
        rw [hc.2] at this
        rcases h with ⟨hm, _⟩ | ⟨hl, _⟩ | ⟨hl, _⟩
        · generalize headKind e.lookup.rules = k at hm this
          cases k <;> simp [Kind.isMapGsub, Kind.isPos] at hm this
        · rw [hl] at this; simp [Kind.isPos] at this
        · rw [hl] at this; simp [Kind.isPos] at this
      · exact h
    obtain ⟨hk, hnd⟩ := hok
    simp only [mkId, ↓reduceIte] at hid
    rw [hid] at hcomp hpl
    have := run_applyGpos_correct fx p.gdef s.attachIds s.filterIds e.lookup.flag e.lookup.rules id.idx ls
      ⟨buildTable s.gsub false s.features, buildTable s.gpos true s.features, buildGdef p s⟩ hcomp hpl rfl hk hnd hgdef hatt
      e.lookup.name
    exact this

end Fontc.FeaCompile
