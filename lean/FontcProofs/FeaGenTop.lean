/-
  C11 simulation, general part 8: the invariant between the entries of the source and the state of
  the compilation context, between top-level statements; feature blocks and lookup blocks preserve it.
-/
import FontcProofs.FeaGenFeature
import FontcProofs.FeaGenSrc
import FontcProofs.FeaSimTop

namespace Fontc.FeaCompile
open Cmp
set_option linter.unusedSimpArgs false

def entPairs (es : List Src.Entry) (ids : List LookupId) : List (Src.Lookup × LookupId) := (es.map (·.lookup)).zip ids

theorem mem_entPairs_of_zip {es : List Src.Entry} {ids : List LookupId} {e : Src.Entry} {id : LookupId}
    (h : (e, id) ∈ es.zip ids) : (e.lookup, id) ∈ entPairs es ids := by
  induction es generalizing ids with
  | nil => simp at h
  | cons e0 es ih =>
    cases ids with
    | nil => simp at h
    | cons id0 ids =>
      simp only [entPairs, List.map_cons, List.zip_cons_cons, List.mem_cons, Prod.mk.injEq] at h ⊢
      rcases h with ⟨rfl, rfl⟩ | h
      · exact Or.inl ⟨rfl, rfl⟩
      · exact Or.inr (ih h)

theorem zip_of_mem_entPairs {es : List Src.Entry} {ids : List LookupId} {l : Src.Lookup} {id : LookupId}
    (h : (l, id) ∈ entPairs es ids) : ∃ e, (e, id) ∈ es.zip ids ∧ e.lookup = l := by
  induction es generalizing ids with
  | nil => simp [entPairs] at h
  | cons e0 es ih =>
    cases ids with
    | nil => simp [entPairs] at h
    | cons id0 ids =>
      simp only [entPairs, List.map_cons, List.zip_cons_cons, List.mem_cons, Prod.mk.injEq] at h
      rcases h with ⟨rfl, rfl⟩ | h
      · exact ⟨e0, by simp, rfl⟩
      · obtain ⟨e, he, hl⟩ := ih h
        exact ⟨e, by simp [he], hl⟩

/-- invariant between the source entries so far and the compilation context, between top-level
    statements -/
structure TopInvG (fx : Fixes) (U : List (List Glyph)) (dls : List Sys) (es : List Src.Entry) (s : St)
    (ids : List LookupId) (used : List String) : Prop where
  closed : s.cur = none ∧ s.curName = none ∧ s.script = none ∧ s.active = none ∧ s.flag = (0, none)
  dlsOk : ∀ sys, sys ∈ s.defaultSystems ↔ sys ∈ dls
  idsInv : IdsInv s
  attachU : ∀ c ∈ s.attachIds, c ∈ U
  len : es.length = ids.length
  ents : ∀ l id, (l, id) ∈ entPairs es ids →
    ∃ ls, CompiledRun fx s.attachIds s.filterIds l.flag l.rules id ls ∧ Placed s.gsub s.gpos id ls
  ordered : ids.Pairwise idLt
  below : ∀ id ∈ ids, idBelow s id
  featKeys : (s.features.map (·.1)).Nodup
  feats : ∀ tag lang script id, id ∈ (s.features.lookup (tag, lang, script)).getD [] ↔
    ∃ e, (e, id) ∈ es.zip ids ∧ (tag, script, lang) ∈ e.regs
  namedKeys : ∀ n, (s.named.lookup n).isSome = true ↔ n ∈ used
  namedEnt : ∀ n id, s.named.lookup n = some id ↔ ∃ l, (l, id) ∈ entPairs es ids ∧ l.name = some n

/-! ### items ↔ events -/

theorem itemAt_iff_of_evRel : ∀ (evs : List Ev) (r0 : Src.Reg) (items : List (Src.Reg × Src.Item)) (ids : List LookupId),
    EvRel r0 evs items ids → ∀ r id,
    (∃ x y, evs = x ++ .item id :: y ∧ regAfter r0 x = r) ↔ ∃ it, ((r, it), id) ∈ items.zip ids := by
  intro evs
  induction evs with
  | nil =>
    intro r0 items ids h r id
    cases items <;> cases ids <;> simp_all [EvRel]
  | cons e evs ih =>
    intro r0 items ids h r id
    cases e with
    | sys s ex =>
      simp only [EvRel] at h
      rw [← ih (regOfSys s) items ids h r id]
      constructor
      · rintro ⟨x, y, he, hr⟩
        cases x with
        | nil => simp at he
        | cons e0 x =>
          simp only [List.cons_append, List.cons.injEq] at he
          obtain ⟨rfl, he⟩ := he
          exact ⟨x, y, he, by simpa [regAfter] using hr⟩
      · rintro ⟨x, y, he, hr⟩
        exact ⟨.sys s ex :: x, y, by simp [he], by simpa [regAfter] using hr⟩
    | item id0 =>
      cases items with
      | nil => simp [EvRel] at h
      | cons it0 items =>
        cases ids with
        | nil => simp [EvRel] at h
        | cons id1 ids =>
          obtain ⟨r', itm⟩ := it0
          simp only [EvRel] at h
          obtain ⟨rfl, rfl, h⟩ := h
          have ih' := ih r' items ids h r id
          simp only [List.zip_cons_cons, List.mem_cons, Prod.mk.injEq]
          constructor
          · rintro ⟨x, y, he, hr⟩
            cases x with
            | nil =>
              simp only [List.nil_append, List.cons.injEq, Ev.item.injEq] at he
              obtain ⟨rfl, _⟩ := he
              simp only [regAfter] at hr
              exact ⟨itm, Or.inl ⟨⟨hr.symm, rfl⟩, rfl⟩⟩
            | cons e0 x =>
              simp only [List.cons_append, List.cons.injEq] at he
              obtain ⟨rfl, he⟩ := he
              obtain ⟨it, hit⟩ := ih'.mp ⟨x, y, he, by simpa [regAfter] using hr⟩
              exact ⟨it, Or.inr hit⟩
          · rintro ⟨it, (⟨⟨rfl, rfl⟩, rfl⟩ | hit)⟩
            · exact ⟨[], evs, rfl, rfl⟩
            · obtain ⟨x, y, he, hr⟩ := ih'.mpr ⟨it, hit⟩
              exact ⟨.item id1 :: x, y, by simp [he], by simpa [regAfter] using hr⟩

theorem itemAt_iff {evs : List Ev} {items : List (Src.Reg × Src.Item)} {ids : List LookupId}
    (h : EvRel .root evs items ids) (r : Src.Reg) (id : LookupId) :
    itemAt evs r id ↔ ∃ it, ((r, it), id) ∈ items.zip ids :=
  itemAt_iff_of_evRel evs .root items ids h r id

/-! ### the pairs (lookup, id) of the lookups a block defines -/

theorem mem_defZip : ∀ (items : List (Src.Reg × Src.Item)) (idsF : List LookupId), items.length = idsF.length →
    ∀ l id, (l, id) ∈ (defLookups items).zip (defIds items idsF) ↔ ∃ reg, ((reg, Src.Item.defn l), id) ∈ items.zip idsF := by
  intro items
  induction items with
  | nil => intro idsF _ l id; simp [defLookups, defIds]
  | cons it items ih =>
    intro idsF hlen l id
    cases idsF with
    | nil => simp at hlen
    | cons id0 idsF =>
      have hlen' : items.length = idsF.length := by simpa using hlen
      obtain ⟨reg0, itm⟩ := it
      cases itm with
      | defn l0 =>
        have hD : defIds ((reg0, Src.Item.defn l0) :: items) (id0 :: idsF) = id0 :: defIds items idsF := by
          simp [defIds, Src.Item.isDefn]
        have hL : defLookups ((reg0, Src.Item.defn l0) :: items) = l0 :: defLookups items := by simp [defLookups]
        rw [hD, hL]
        simp only [List.zip_cons_cons, List.mem_cons, Prod.mk.injEq, ih idsF hlen' l id, Src.Item.defn.injEq]
        constructor
        · rintro (⟨rfl, rfl⟩ | ⟨reg, h⟩)
          · exact ⟨reg0, Or.inl ⟨⟨rfl, rfl⟩, rfl⟩⟩
          · exact ⟨reg, Or.inr h⟩
        · rintro ⟨reg, (⟨⟨rfl, rfl⟩, rfl⟩ | h)⟩
          · exact Or.inl ⟨rfl, rfl⟩
          · exact Or.inr ⟨reg, h⟩
      | ref n =>
        have hD : defIds ((reg0, Src.Item.ref n) :: items) (id0 :: idsF) = defIds items idsF := by
          simp [defIds, Src.Item.isDefn]
        have hL : defLookups ((reg0, Src.Item.ref n) :: items) = defLookups items := by simp [defLookups]
        rw [hD, hL, ih idsF hlen' l id]
        simp only [List.zip_cons_cons, List.mem_cons, Prod.mk.injEq, reduceCtorEq, and_false, false_and, false_or]

theorem defLookups_length (items : List (Src.Reg × Src.Item)) (idsF : List LookupId) (h : items.length = idsF.length) :
    (defLookups items).length = (defIds items idsF).length := by
  induction items generalizing idsF with
  | nil => simp [defLookups, defIds]
  | cons it items ih =>
    cases idsF with
    | nil => simp at h
    | cons id0 idsF =>
      obtain ⟨reg0, itm⟩ := it
      have := ih idsF (by simpa using h)
      cases itm <;> simp_all [defLookups, defIds, Src.Item.isDefn]

theorem mem_defIds {items : List (Src.Reg × Src.Item)} {idsF : List LookupId} {id : LookupId}
    (h : id ∈ defIds items idsF) : id ∈ idsF := by
  simp only [defIds, List.mem_map, List.mem_filter] at h
  obtain ⟨p, ⟨hp, _⟩, rfl⟩ := h
  exact (List.of_mem_zip hp).2


/-! ### registration on the source side -/

def NoLangDflt (body : List Stmt) : Prop := ∀ l ex, Stmt.language l ex ∈ body → l ≠ "dflt"

theorem langOf_append (a b : List (Sys × Bool)) : langOf (a ++ b) = langOf a ++ langOf b := by
  simp [langOf]

theorem langOf_stmtSys (body : List Stmt) (h : NoLangDflt body) (c : Option Tag) :
    langOf (stmtSys (c.getD "DFLT") body) = Src.langStmts c body := by
  induction body generalizing c with
  | nil => rfl
  | cons st body ih =>
    have hb : NoLangDflt body := fun l ex hm => h l ex (List.mem_cons_of_mem _ hm)
    simp only [stmtSys, langOf_append]
    cases st with
    | script t =>
      simp only [stmtSys1, scriptAfterStmt, Src.langStmts]
      rw [← ih hb (some t)]
      simp [langOf]
    | language l ex =>
      have hl : l ≠ "dflt" := h l ex (by simp)
      simp only [stmtSys1, scriptAfterStmt, Src.langStmts]
      rw [← ih hb c]
      simp [langOf, hl]
    | flag f => simp only [stmtSys1, scriptAfterStmt, Src.langStmts]; rw [← ih hb c]; simp [langOf]
    | rule r => simp only [stmtSys1, scriptAfterStmt, Src.langStmts]; rw [← ih hb c]; simp [langOf]
    | lookup n b => simp only [stmtSys1, scriptAfterStmt, Src.langStmts]; rw [← ih hb c]; simp [langOf]
    | ref n => simp only [stmtSys1, scriptAfterStmt, Src.langStmts]; rw [← ih hb c]; simp [langOf]

theorem contains_congr {α : Type} [BEq α] [LawfulBEq α] (l l' : List α) (h : ∀ x, x ∈ l ↔ x ∈ l') (a : α) :
    l.contains a = l'.contains a := by
  rw [Bool.eq_iff_iff]; simp [h a]

theorem registeredWith_congr (ls ls' : List (Tag × Tag)) (h : ∀ x, x ∈ ls ↔ x ∈ ls') (st : List (Tag × Tag × Bool))
    (r : Src.Reg) (sc lg : Tag) : registeredWith ls st r sc lg = registeredWith ls' st r sc lg := by
  cases r <;> simp only [registeredWith, contains_congr ls ls' h]

theorem mem_allPairs (ls : List (Tag × Tag)) (body : List Stmt) (sc lg : Tag) :
    (sc, lg) ∈ Src.allPairs ls body ↔ (sc, lg) ∈ ls ∨ ∃ ex, (sc, lg, ex) ∈ Src.langStmts none body := by
  simp only [Src.allPairs, List.mem_eraseDups, List.mem_append, List.mem_map]
  constructor
  · rintro (h | ⟨⟨a, b, ex⟩, hm, he⟩)
    · exact Or.inl h
    · simp only [Prod.mk.injEq] at he
      obtain ⟨rfl, rfl⟩ := he
      exact Or.inr ⟨ex, hm⟩
  · rintro (h | ⟨ex, hm⟩)
    · exact Or.inl h
    · exact Or.inr ⟨(sc, lg, ex), hm, rfl⟩

theorem mem_regsFor (ls : List (Tag × Tag)) (tag : Tag) (body : List Stmt) (reg : Src.Reg) (tag' sc lg : Tag) :
    (tag', sc, lg) ∈ Src.regsFor ls tag body reg ↔
      tag' = tag ∧ (sc, lg) ∈ Src.allPairs ls body ∧ Src.registered ls body reg sc lg = true := by
  simp only [Src.regsFor, List.mem_map, List.mem_filter]
  constructor
  · rintro ⟨⟨a, b⟩, ⟨hm, hr⟩, he⟩
    simp only [Prod.mk.injEq] at he
    obtain ⟨rfl, rfl, rfl⟩ := he
    exact ⟨rfl, hm, hr⟩
  · rintro ⟨rfl, hm, hr⟩
    exact ⟨(sc, lg), ⟨hm, hr⟩, rfl⟩


theorem sysOk_congr (dls dls' : List Sys) (h : ∀ x, x ∈ dls ↔ x ∈ dls') :
    ∀ (l : List (Sys × Bool)) (cur : Option Tag) (seen : List Sys), sysOk dls cur seen l = sysOk dls' cur seen l := by
  intro l
  induction l with
  | nil => intro _ _; rfl
  | cons x l ih =>
    intro cur seen
    obtain ⟨sy, ex⟩ := x
    simp only [sysOk, ih, contains_congr dls dls' h]

/-- a position that has an item and is registered for `(sc, lg)` belongs to a declared language system -/
theorem registered_declared {dls : List Sys} {evs : List Ev} {a : Active} (hA : AInv dls evs a) (r : Src.Reg)
    (id : LookupId) (sc lg : Tag) (hitem : itemAt evs r id)
    (hreg : registeredWith dls (langOf (sysEvs evs)) r sc lg = true) : (sc, lg) ∈ dls := by
  cases r with
  | root =>
    simp only [registeredWith, Bool.and_eq_true, List.contains_eq_mem, decide_eq_true_eq] at hreg
    exact hreg.1
  | script S =>
    simp only [registeredWith, Bool.and_eq_true, Bool.or_eq_true, beq_iff_eq] at hreg
    obtain ⟨rfl, h2⟩ := hreg
    rcases h2 with rfl | h2
    · exact hA.seenDls _ (itemAt_script_seen evs S id hitem)
    · have := (any_langOf_false (sysEvs evs) S lg).mp h2
      exact hA.seenDls _ (List.mem_map.mpr ⟨_, this.1, rfl⟩)
  | lang S L =>
    simp only [registeredWith, Bool.and_eq_true, beq_iff_eq] at hreg
    obtain ⟨rfl, rfl⟩ := hreg
    exact hA.seenDls _ (itemAt_lang_seen evs S L id hitem)

/-- **A feature block preserves the invariant.** -/
theorem top_feature_gen (fx : Fixes) (U : List (List Glyph)) (dls : List Sys) (ls : List (Tag × Tag))
    (hls : ∀ x, x ∈ ls ↔ x ∈ dls)
    (es : List Src.Entry) (s : St) (ids : List LookupId) (used : List String) (tag : Tag) (body : List Stmt)
    (hinv : TopInvG fx U dls es s ids used) (hbody : BodyOk U {} used body)
    (hsys : sysOk dls none [] (stmtSys "DFLT" body) = true) (hnld : NoLangDflt body) :
    ∃ ids', TopInvG fx U dls (Src.addItems ls tag body es (Src.featureItems body)) (s.feature fx tag body) ids'
      (namesAfter used body) := by
  have hnb : ∀ n id, s.named.lookup n = some id → idBelow s id := by
    intro n id hn
    obtain ⟨l, hm, _⟩ := (hinv.namedEnt n id).mp hn
    exact hinv.below id (List.of_mem_zip hm).2
  obtain ⟨evs, idsF, hF, hsysE⟩ := gen_feature fx U tag s body used ⟨hinv.closed.1, hinv.closed.2.1, hinv.closed.2.2.1⟩
    hinv.idsInv hinv.attachU hinv.namedKeys hnb hbody
  have hA : AInv s.defaultSystems evs (evs.foldl evStep (a0 tag s.defaultSystems)) := by
    have hok : EvsOkFrom s.defaultSystems [] evs := by
      apply evsOk_of_sysOk
      rw [hsysE, sysOk_congr s.defaultSystems dls hinv.dlsOk]
      exact hsys
    have := AInv.fold evs [] (a0 tag s.defaultSystems) (AInv.init tag _) hok
    simpa using this
  have hlsd : ∀ x, x ∈ ls ↔ x ∈ s.defaultSystems := fun x => (hls x).trans (hinv.dlsOk x).symm
  generalize hs' : s.feature fx tag body = s' at hF ⊢
  generalize hitems : Src.featureItems body = items at hF ⊢
  have hlenI : items.length = idsF.length := hF.out.length
  have hitemOk : ∀ it id, (it, id) ∈ items.zip idsF → ItemOk fx s' it id := fun it id hm => hF.out.of_mem_zip it id hm
  obtain ⟨r1, r2, r3⟩ := addItems_spec ls tag body (fun n => s'.named.lookup n) items idsF es ids hinv.len hlenI
    (by
      intro e id hm n hn
      exact hF.namedExt n id ((hinv.namedEnt n id).mpr ⟨e.lookup, mem_entPairs_of_zip hm, hn⟩))
    (by
      intro reg l id hm n hn
      have := hitemOk _ _ hm
      simp only [ItemOk] at this
      exact this.2 n hn)
    (by
      intro reg n id hm
      have := hitemOk _ _ hm
      simp only [ItemOk] at this
      exact this.1)
    (by
      intro pre reg n post he
      rcases hF.refsBack pre reg n post he with h1 | h1
      · left
        cases hq : s.named.lookup n with
        | none => rw [hq] at h1; cases h1
        | some id =>
          obtain ⟨l, hm, hl⟩ := (hinv.namedEnt n id).mp hq
          obtain ⟨e, he, rfl⟩ := zip_of_mem_entPairs hm
          exact ⟨e, (List.of_mem_zip he).1, hl⟩
      · exact Or.inr h1)
  have hlenL : (es.map (·.lookup)).length = ids.length := by simp [hinv.len]
  have hpairs : entPairs (Src.addItems ls tag body es items) (ids ++ defIds items idsF) =
      entPairs es ids ++ (defLookups items).zip (defIds items idsF) := by
    simp only [entPairs, r2]
    rw [List.zip_append hlenL]
  have hdefItem : ∀ l id, (l, id) ∈ (defLookups items).zip (defIds items idsF) →
      (∃ ls', CompiledRun fx s'.attachIds s'.filterIds l.flag l.rules id ls' ∧ Placed s'.gsub s'.gpos id ls') ∧
      ∀ n, l.name = some n → s'.named.lookup n = some id := by
    intro l id hm
    obtain ⟨reg, hm'⟩ := (mem_defZip items idsF hlenI l id).mp hm
    have := hitemOk _ _ hm'
    simpa only [ItemOk] using this
  refine ⟨ids ++ defIds items idsF, {
    closed := hF.closed
    dlsOk := by
      intro sys
      have : s'.defaultSystems = s.defaultSystems := by simp [St.defaultSystems, hF.langsys]
      rw [this]; exact hinv.dlsOk sys
    idsInv := hF.idsInv
    attachU := hF.attachU
    len := r1
    ents := by
      intro l id hm
      rw [hpairs] at hm
      rcases List.mem_append.mp hm with hm | hm
      · obtain ⟨ls', hc, hp⟩ := hinv.ents l id hm
        obtain ⟨⟨g, e1⟩, ⟨p, e2⟩, ⟨a, e3⟩, ⟨f, e4⟩⟩ := hF.grew
        exact ⟨ls', by rw [e3, e4]; exact hc.mono a f, by rw [e1, e2]; exact hp.mono g p⟩
      · exact (hdefItem l id hm).1
    ordered := by
      rw [List.pairwise_append]
      refine ⟨hinv.ordered, hF.ordered, ?_⟩
      intro a ha b hb
      have h1 := hinv.below a ha
      have h2 := hF.fresh b hb
      have h3 := hF.below b (mem_defIds hb)
      cases a <;> cases b <;> simp_all [idLt, idBelow] <;> omega
    below := by
      intro id hid
      rcases List.mem_append.mp hid with h | h
      · exact (hinv.below id h).mono hF.grew
      · exact hF.below id (mem_defIds h)
    featKeys := by rw [hF.feats]; exact featKeys_foldl tag _ _ hinv.featKeys
    feats := ?_
    namedKeys := hF.namedKeys
    namedEnt := ?_ }⟩
  · -- the feature map
    intro tag' lang script id
    rw [hF.feats, lookup_foldl_featInsert, List.mem_append, hinv.feats, r3]
    apply or_congr Iff.rfl
    have hfin := finish_spec hA script lang id
    simp only [List.mem_flatMap, List.mem_filter, decide_eq_true_eq, Prod.mk.injEq]
    constructor
    · rintro ⟨⟨⟨sc', lg'⟩, l⟩, ⟨hm, rfl, rfl, rfl⟩, hid⟩
      obtain ⟨r, hit, hreg⟩ := hfin.mp ⟨l, hm, hid⟩
      obtain ⟨it, hmem⟩ := (itemAt_iff hF.evrel r id).mp hit
      refine ⟨r, it, hmem, (mem_regsFor ls tag body r tag sc' lg').mpr ⟨rfl, ?_, ?_⟩⟩
      · rw [mem_allPairs]
        exact Or.inl ((hlsd _).mpr (registered_declared hA r id sc' lg' hit hreg))
      · rw [registered_eq, ← langOf_stmtSys body hnld none, registeredWith_congr ls _ hlsd]
        simp only [Option.getD_none]
        rw [← hsysE]; exact hreg
    · rintro ⟨r, it, hmem, hk⟩
      obtain ⟨rfl, _, hreg⟩ := (mem_regsFor ls tag body r tag' script lang).mp hk
      have hit : itemAt evs r id := (itemAt_iff hF.evrel r id).mpr ⟨it, hmem⟩
      have hreg' : registeredWith s.defaultSystems (langOf (sysEvs evs)) r script lang = true := by
        rw [registered_eq, ← langOf_stmtSys body hnld none, registeredWith_congr ls _ hlsd] at hreg
        simp only [Option.getD_none] at hreg
        rw [hsysE]; exact hreg
      obtain ⟨l, hm, hid⟩ := hfin.mpr ⟨r, hit, hreg'⟩
      exact ⟨((script, lang), l), ⟨hm, rfl, rfl, rfl⟩, hid⟩
  · -- named lookups
    intro n id
    rw [hpairs]
    constructor
    · intro hn
      rcases hF.namedNew n id hn with h1 | ⟨reg, l, hm, hl⟩
      · obtain ⟨l, hm, hl⟩ := (hinv.namedEnt n id).mp h1
        exact ⟨l, List.mem_append_left _ hm, hl⟩
      · exact ⟨l, List.mem_append_right _ ((mem_defZip items idsF hlenI l id).mpr ⟨reg, hm⟩), hl⟩
    · rintro ⟨l, hm, hl⟩
      rcases List.mem_append.mp hm with hm | hm
      · exact hF.namedExt n id ((hinv.namedEnt n id).mpr ⟨l, hm, hl⟩)
      · exact (hdefItem l id hm).2 n hl


/-! ### a top-level lookup block -/

theorem finishAndAdd_closed (s : St) (h1 : s.cur = none) (h2 : s.curName = none) : s.finishAndAdd = s := by
  obtain ⟨gsub, gpos, cur, curName, named, flag, aIds, fIds, ls, active, script, features⟩ := s
  simp only at h1 h2
  subst h1 h2
  simp [St.finishAndAdd, St.finishCurrent]

theorem lookupBlock_top (fx : Fixes) (s : St) (n : String) (body : List BStmt) (s4 : St) (id : LookupId)
    (h1 : s.cur = none) (h2 : s.curName = none) (h3 : s.active = none) (h4 : s.flag = (0, none))
    (hfin : (body.foldl (St.blockStmt fx) { s with curName := some n }).finishCurrent = (s4, some id))
    (hact4 : s4.active = none) :
    s.lookupBlock fx n body = s4.clearFlags := by
  have e0 : s.finishAndAdd = s := finishAndAdd_closed s h1 h2
  have e1 : (if s.active.isNone then s.clearFlags else s) = s := by
    rw [h3]
    simp only [Option.isNone_none, ↓reduceIte, St.clearFlags]
    obtain ⟨gsub, gpos, cur, curName, named, flag, aIds, fIds, ls, active, script, features⟩ := s
    simp only at h4
    subst h4
    rfl
  unfold St.lookupBlock
  simp only []
  rw [e0, e1, hfin]
  simp only [hact4, Option.isSome_none, Bool.false_eq_true, ↓reduceIte]

/-- **A top-level lookup block preserves the invariant.** -/
theorem top_lookup_gen (fx : Fixes) (U : List (List Glyph)) (dls : List Sys)
    (es : List Src.Entry) (s : St) (ids : List LookupId) (used : List String) (n : String) (body : List BStmt)
    (hinv : TopInvG fx U dls es s ids used) (hblock : BlockOk U body) (hname : n ∉ used) :
    ∃ ids', TopInvG fx U dls (es ++ [⟨⟨some n, Src.blockFlag {} body, Src.blockRules body⟩, []⟩]) (s.lookupBlock fx n body) ids'
      (n :: used) := by
  obtain ⟨fl, rs, k, rfl, hfl, hk, hne⟩ := hblock
  obtain ⟨c1, c2, c3, c4, c5⟩ := hinv.closed
  have hfc : FlagCode s.attachIds s.filterIds s.flag {} := by rw [c5]; exact flagCode_empty _ _
  obtain ⟨s4, id, ls, hfin, hid, hcomp, hplace, hnamed, hcur4, hcn4, hfc4, hidsInv4, hattU4, ⟨a, ha⟩, ⟨ff, hff⟩, hls4, hact4, hsc4, hfe4⟩ :=
    block_core fx U n fl rs k hfl hk hne { s with curName := some n } {} c1 rfl hinv.idsInv hinv.attachU hfc
  simp only at hid hplace hnamed ha hff hls4 hact4 hsc4 hfe4
  rw [lookupBlock_top fx s n _ s4 id c1 c2 c4 c5 hfin (hact4.trans c4), blockFlag_shape, blockRules_shape]
  have hnone : s.named.lookup n = none := by
    cases hq : s.named.lookup n with
    | none => rfl
    | some v => exact absurd ((hinv.namedKeys n).mp (by rw [hq]; rfl)) hname
  have hposlen : 0 < ls.length := List.length_pos_iff.mpr (compiledRun_ls_ne hcomp)
  have hgrew : Grew s s4.clearFlags := by
    by_cases hpos : k.isPos = true
    · simp only [hpos, ↓reduceIte] at hplace
      exact ⟨⟨[], by simp [St.clearFlags, hplace.2]⟩, ⟨ls, hplace.1⟩, ⟨a, ha⟩, ⟨ff, hff⟩⟩
    · simp only [hpos, Bool.false_eq_true, ↓reduceIte] at hplace
      exact ⟨⟨ls, hplace.1⟩, ⟨[], by simp [St.clearFlags, hplace.2]⟩, ⟨a, ha⟩, ⟨ff, hff⟩⟩
  have hbel : idBelow s4.clearFlags id := by
    by_cases hpos : k.isPos = true
    · simp only [hpos, ↓reduceIte] at hplace hid
      rw [hid]; simp only [idBelow, St.clearFlags, hplace.1, List.length_append]; omega
    · simp only [hpos, Bool.false_eq_true, ↓reduceIte] at hplace hid
      rw [hid]; simp only [idBelow, St.clearFlags, hplace.1, List.length_append]; omega
  have hplaced : Placed s4.clearFlags.gsub s4.clearFlags.gpos id ls := by
    by_cases hpos : k.isPos = true
    · simp only [hpos, ↓reduceIte] at hplace hid
      rw [hid]; exact ⟨s.gpos, [], by simp [St.clearFlags, hplace.1], rfl⟩
    · simp only [hpos, Bool.false_eq_true, ↓reduceIte] at hplace hid
      rw [hid]; exact ⟨s.gsub, [], by simp [St.clearFlags, hplace.1], rfl⟩
  have hlt : ∀ x, idBelow s x → idLt x id := by
    intro x hx
    rw [hid]
    split <;> cases x <;> simp_all [idLt, idBelow]
  have hlenL : (es.map (·.lookup)).length = ids.length := by simp [hinv.len]
  have hpairs : entPairs (es ++ [⟨⟨some n, fl.getLast?.getD {}, rs⟩, []⟩]) (ids ++ [id]) =
      entPairs es ids ++ [(⟨some n, fl.getLast?.getD {}, rs⟩, id)] := by
    simp only [entPairs, List.map_append, List.map_cons, List.map_nil]
    rw [List.zip_append hlenL]; rfl
  have hzip : (es ++ [(⟨⟨some n, fl.getLast?.getD {}, rs⟩, []⟩ : Src.Entry)]).zip (ids ++ [id]) =
      es.zip ids ++ [((⟨⟨some n, fl.getLast?.getD {}, rs⟩, []⟩ : Src.Entry), id)] := by
    rw [List.zip_append hinv.len]; rfl
  refine ⟨ids ++ [id], {
    closed := ⟨hcur4, hcn4, hsc4.trans c3, hact4.trans c4, rfl⟩
    dlsOk := by
      intro sys
      have : s4.clearFlags.defaultSystems = s.defaultSystems := by simp [St.defaultSystems, St.clearFlags, hls4]
      rw [this]; exact hinv.dlsOk sys
    idsInv := hidsInv4
    attachU := hattU4
    len := by simp [hinv.len]
    ents := by
      intro l id' hm
      rw [hpairs] at hm
      rcases List.mem_append.mp hm with hm | hm
      · obtain ⟨ls', hc, hp⟩ := hinv.ents l id' hm
        obtain ⟨⟨g, e1⟩, ⟨p, e2⟩, ⟨a', e3⟩, ⟨f', e4⟩⟩ := hgrew
        exact ⟨ls', by rw [e3, e4]; exact hc.mono a' f', by rw [e1, e2]; exact hp.mono g p⟩
      · simp only [List.mem_singleton, Prod.mk.injEq] at hm
        obtain ⟨rfl, rfl⟩ := hm
        exact ⟨ls, hcomp, hplaced⟩
    ordered := pairwise_snoc hinv.ordered (fun x hx => hlt x (hinv.below x hx))
    below := by
      intro x hx
      rcases List.mem_append.mp hx with hx | hx
      · exact (hinv.below x hx).mono hgrew
      · simp at hx; subst hx; exact hbel
    featKeys := by show (s4.features.map (·.1)).Nodup; rw [hfe4]; exact hinv.featKeys
    feats := by
      intro tag lang script id'
      show id' ∈ (s4.features.lookup (tag, lang, script)).getD [] ↔ _
      rw [hfe4, hinv.feats, hzip]
      constructor
      · rintro ⟨e, hm, hk'⟩; exact ⟨e, List.mem_append_left _ hm, hk'⟩
      · rintro ⟨e, hm, hk'⟩
        rcases List.mem_append.mp hm with hm | hm
        · exact ⟨e, hm, hk'⟩
        · simp only [List.mem_singleton, Prod.mk.injEq] at hm
          obtain ⟨rfl, _⟩ := hm
          simp at hk'
    namedKeys := by
      intro n'
      show ((s4.named).lookup n').isSome = true ↔ _
      rw [hnamed]
      by_cases e : n' = n
      · subst e; simp [List.lookup]
      · rw [lookup_cons_ne _ _ _ _ e, hinv.namedKeys]; simp [e]
    namedEnt := by
      intro n' id'
      show (s4.named).lookup n' = some id' ↔ _
      rw [hnamed, hpairs]
      by_cases e : n' = n
      · subst e
        simp only [List.lookup, beq_self_eq_true, Option.some.injEq, List.mem_append, List.mem_singleton, Prod.mk.injEq]
        constructor
        · rintro rfl; exact ⟨_, Or.inr ⟨rfl, rfl⟩, rfl⟩
        · rintro ⟨l, (hm | ⟨rfl, rfl⟩), hl⟩
          · have := (hinv.namedEnt n' id').mpr ⟨l, hm, hl⟩
            rw [hnone] at this; cases this
          · rfl
      · rw [lookup_cons_ne _ _ _ _ e, hinv.namedEnt]
        constructor
        · rintro ⟨l, hm, hl⟩; exact ⟨l, List.mem_append_left _ hm, hl⟩
        · rintro ⟨l, hm, hl⟩
          rcases List.mem_append.mp hm with hm | hm
          · exact ⟨l, hm, hl⟩
          · simp only [List.mem_singleton, Prod.mk.injEq] at hm
            obtain ⟨rfl, _⟩ := hm
            simp only [Option.some.injEq] at hl
            exact absurd hl.symm e }⟩

end Fontc.FeaCompile
