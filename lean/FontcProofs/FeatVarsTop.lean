/-
  `overlay_feature_variations` as a whole (merge passes + overlay), for conflict-free rule lists.
-/
import FontcProofs.FeatVarsMerge

namespace Fontc.FeatVars

theorem regionContains_iff {r : Region} {p : Point} : regionContains r p = true ↔ ∃ c ∈ r, contains c p = true := by
  simp [regionContains]

/-- the rule list `overlay_feature_variations` hands to its overlay loop -/
def mergedRules (rules : List Rule) : List Rule := mergeSameRegionRules (mergeSameSubRules rules)

section
variable {n : Nat} {rules : List Rule} (hok : RulesOk n rules) (hu : ∀ r ∈ rules, SubsUniq r.2)
include hok hu

theorem merged1_ok : RulesOk n (mergeSameSubRules rules) ∧ ∀ r ∈ mergeSameSubRules rules, SubsUniq r.2 := by
  obtain ⟨s1, _⟩ := mergeSameSubRules_spec rules hok.nonempty
  refine ⟨⟨fun r hr => (s1 r hr).1, fun r' hr' c hc => ?_⟩, fun r' hr' => ?_⟩
  · obtain ⟨r, hr, _, hcr⟩ := (s1 r' hr').2 c hc
    exact hok.shape r hr c hcr
  · obtain ⟨hne, hsrc⟩ := s1 r' hr'
    cases hreg : r'.1 with
    | nil => exact absurd hreg hne
    | cons c _ =>
      obtain ⟨r, hr, he, _⟩ := hsrc c (by rw [hreg]; simp)
      rw [← he]; exact hu r hr

theorem merged1_active (p : Point) (g x : Nat) :
    ActiveHas (mergeSameSubRules rules) p g x ↔ ActiveHas rules p g x := by
  obtain ⟨s1, s2⟩ := mergeSameSubRules_spec rules hok.nonempty
  constructor
  · rintro ⟨r', hr', hact, hx⟩
    obtain ⟨c, hc, hcp⟩ := regionContains_iff.1 hact
    obtain ⟨r, hr, he, hcr⟩ := (s1 r' hr').2 c hc
    exact ⟨r, hr, regionContains_iff.2 ⟨c, hcr, hcp⟩, by rw [he]; exact hx⟩
  · rintro ⟨r, hr, hact, hx⟩
    obtain ⟨r', hr', he, hsub⟩ := s2 r hr
    obtain ⟨c, hc, hcp⟩ := regionContains_iff.1 hact
    exact ⟨r', hr', regionContains_iff.2 ⟨c, hsub c hc, hcp⟩, by rw [he]; exact hx⟩

theorem merged_ok : RulesOk n (mergedRules rules) := by
  obtain ⟨ok1, u1⟩ := merged1_ok hok hu
  obtain ⟨s1, _⟩ := mergeSameRegionRules_spec (mergeSameSubRules rules) u1
  constructor
  · intro r' hr'
    obtain ⟨r, hr, he⟩ := (s1 r' hr').1
    rw [← he]; exact normalizeRegion_ne_nil (ok1.nonempty r hr)
  · intro r' hr' c hc
    obtain ⟨r, hr, he⟩ := (s1 r' hr').1
    rw [← he] at hc
    obtain ⟨b, hb, rfl⟩ := mem_normalizeRegion.1 hc
    obtain ⟨h1, h2⟩ := ok1.shape r hr b hb
    exact ⟨by rw [length_cleanupBox, h1], cleanupBox_ok h2⟩

theorem merged_active (p : Point) (hp : InCube p) (hnc : NoConflict rules p) (g x : Nat) :
    ActiveHas (mergedRules rules) p g x ↔ ActiveHas rules p g x := by
  obtain ⟨_, u1⟩ := merged1_ok hok hu
  obtain ⟨s1, s2⟩ := mergeSameRegionRules_spec (mergeSameSubRules rules) u1
  have hnc1 : NoConflict (mergeSameSubRules rules) p := fun g x y hx hy =>
    hnc g x y ((merged1_active hok hu p g x).1 hx) ((merged1_active hok hu p g y).1 hy)
  have fwd : ∀ g x, ActiveHas (mergedRules rules) p g x → ActiveHas (mergeSameSubRules rules) p g x := by
    rintro g x ⟨r', hr', hact, hx⟩
    obtain ⟨r, hr, he, hxr⟩ := (s1 r' hr').2 g x hx
    refine ⟨r, hr, ?_, hxr⟩
    rw [← regionContains_normalize r.1 p hp, he]; exact hact
  rw [← merged1_active hok hu p g x]
  constructor
  · exact fwd g x
  · rintro ⟨r, hr, hact, hx⟩
    obtain ⟨r', hr', he, hsome⟩ := s2 r hr
    have hact' : regionContains r'.1 p = true := by rw [he, regionContains_normalize r.1 p hp]; exact hact
    cases hy : subsGet r'.2 g with
    | none => have := hsome g (by rw [hx]; rfl); rw [hy] at this; cases this
    | some y =>
      have hyA : ActiveHas (mergedRules rules) p g y := ⟨r', hr', hact', hy⟩
      have : y = x := hnc1 g y x (fwd g y hyA) ⟨r, hr, hact, hx⟩
      subst this; exact hyA

theorem merged_touch (p : Point) (h : OnTouchingBoundary ((mergedRules rules).flatMap (·.1)) p) :
    OnTouchingBoundary (rules.flatMap (·.1)) p := by
  obtain ⟨_, u1⟩ := merged1_ok hok hu
  obtain ⟨s1, _⟩ := mergeSameRegionRules_spec (mergeSameSubRules rules) u1
  obtain ⟨t1, _⟩ := mergeSameSubRules_spec rules hok.nonempty
  -- every box of the merged list is the clean-up of a source box
  have src : ∀ c ∈ (mergedRules rules).flatMap (·.1), ∃ b ∈ rules.flatMap (·.1), c = cleanupBox b := by
    intro c hc
    obtain ⟨r', hr', hcr⟩ := List.mem_flatMap.1 hc
    obtain ⟨r, hr, he⟩ := (s1 r' hr').1
    rw [← he] at hcr
    obtain ⟨b, hb, rfl⟩ := mem_normalizeRegion.1 hcr
    obtain ⟨r0, hr0, _, hb0⟩ := (t1 r hr).2 b hb
    exact ⟨b, List.mem_flatMap.2 ⟨r0, hr0, hb0⟩, rfl⟩
  obtain ⟨k, x, hk, ⟨c1, hc1, hi, h1⟩, ⟨c2, hc2, lo, h2⟩⟩ := h
  obtain ⟨b1, hb1, rfl⟩ := src c1 hc1
  obtain ⟨b2, hb2, rfl⟩ := src c2 hc2
  exact ⟨k, x, hk, ⟨b1, hb1, hi, cleanupBox_getElem h1⟩, ⟨b2, hb2, lo, cleanupBox_getElem h2⟩⟩
end

/-- **The whole function, any lawful rank.**  On a conflict-free point of the cube, off the touching
    boundaries, the effective glyph map of the first matching box is the effective map of the source rules. -/
theorem overlay_effective_generic {ρ : Type} {ops : RankOps ρ} (n : Nat) (rules : List Rule)
    (hok : RulesOk n rules) (hu : ∀ r ∈ rules, SubsUniq r.2) (law : LawfulRank ops (mergedRules rules).length) :
    ∃ out, overlayFeatureVariations ops n rules = some out ∧
      ∀ p : Point, p.length = n → InCube p → ¬ OnTouchingBoundary (rules.flatMap (·.1)) p → NoConflict rules p →
        ∀ g, effective ((firstMatch out p).getD []) g = effective (activeSubs rules p) g := by
  obtain ⟨out, hout, hall⟩ := first_match_generic n (mergedRules rules) law (merged_ok hok hu)
  refine ⟨out, hout, ?_⟩
  intro p hp hcube hnt hnc g
  rw [hall p hp fun h => hnt (merged_touch hok hu p h)]
  exact effective_congr hnc (fun g x => merged_active hok hu p hcube hnc g x) g
end Fontc.FeatVars
