/-
  C07 assembly: the model built by `Model.new` is `Triangular`.

  Combines the geometric theorems T1–T3 of FontcProofs/VarModelGeom.lean (stated for any list with
  equal lengths, distinct entries and non-decreasing ranks) with B1–B2 of
  FontcProofs/VarModelSort.lean (`sortLocs locs` is a permutation of `locs` with non-decreasing
  ranks) to discharge the hypothesis `Triangular` of FontcProofs/VarModelAlg.lean.
-/
import FontcProofs.VarModelAlg
import FontcProofs.VarModelSort
import FontcProofs.VarModelGeom

namespace Fontc.VarModel
open Fontc

/-- T1–T3 packaged: any equal-length, duplicate-free, rank-sorted list of locations gives
    unitriangular influence regions. -/
theorem triangular_of_rank_sorted (n : Nat) (locs : List Loc)
    (H1 : ∀ l ∈ locs, l.length = n) (H2 : locs.Pairwise (· ≠ ·))
    (H3 : locs.Pairwise (fun a b => rank a ≤ rank b)) :
    Triangular (masterInfluence (regionsFor locs)) locs :=
  ⟨masterInfluence_length locs,
   fun j r l hr hl => masterInfluence_self_scalar H1 j r l hr hl,
   fun i j r l hij hr hl => masterInfluence_triangular H1 H2 H3 i j hij r l hr hl⟩

theorem sortLocs_triangular (n : Nat) (locs : List Loc)
    (hlen : ∀ l ∈ locs, l.length = n) (hnd : locs.Pairwise (· ≠ ·)) :
    Triangular (masterInfluence (regionsFor (sortLocs locs))) (sortLocs locs) :=
  triangular_of_rank_sorted n (sortLocs locs)
    (fun l hl => hlen l ((mem_sortLocs locs l).mp hl))
    (sortLocs_nodup locs hnd)
    (sortLocs_rank_sorted locs)

/-- The model built by `VariationModel::new` from `n`-axis, pairwise distinct locations is
    unitriangular. -/
theorem Model.new_triangular (n : Nat) (locs : List Loc)
    (hlen : ∀ l ∈ locs, l.length = n) (hnd : locs.Pairwise (· ≠ ·)) :
    Triangular (Model.new n locs).influence (Model.new n locs).locations := by
  rw [Model.new_eq n locs hlen hnd]
  exact sortLocs_triangular n locs hlen hnd

end Fontc.VarModel
