/-
  C10, anchor names: the model of `AnchorKind::new` is total and coincides with a declarative description of the
  naming convention (`NameSpec`).
-/
import FontcModel.Marks

namespace Fontc.Marks
open Fontc

/-! ### the convention, declaratively -/

/-- `s` is an index literal with value `k`: an optional `+`, at least one ASCII digit, value below 2^64. -/
def IsIndex (s : List Char) (k : Nat) : Prop :=
  ∃ ds : List Char, (s = ds ∨ s = '+' :: ds) ∧ ds ≠ [] ∧ (∀ c ∈ ds, c.isDigit = true) ∧
    k = digitsVal ds ∧ k ≤ usizeMax

def IsNumber (s : List Char) : Prop := ∃ k, IsIndex s k

/-- neither `entry`/`exit`, nor a caret name, nor starting with an underscore -/
def Plain (n : Name) : Prop :=
  n ≠ sEntry ∧ n ≠ sExit ∧ (∀ s, n ≠ sCaret ++ s) ∧ (∀ s, n ≠ sVCaret ++ s) ∧ (∀ s, n ≠ '_' :: s)

/-- The anchor naming convention fontc implements (after ufo2ft's markFeatureWriter):

  * `entry`, `exit`: cursive attachment;
  * `caret_N` / `vcaret_N`: ligature caret number N ≥ 1 (`caret_0` is an error; anything else after the
    underscore counts as caret 1);
  * `_N`: marker for ligature component N ≥ 1 (`_0` is an error);
  * `_`: error; `_name_N`: error (a numbered mark anchor);
  * `_name`: mark anchor of group `name`;
  * `name_N` (not starting with an underscore): anchor of group `name` on ligature component N ≥ 1
    (`name_0` is an error), split at the *last* underscore;
  * anything else: base anchor whose group is the whole name. -/
inductive NameSpec : Name → Except BadAnchor Kind → Prop where
  | entry : NameSpec sEntry (.ok .cursiveEntry)
  | exit : NameSpec sExit (.ok .cursiveExit)
  | caret (s : List Char) (k : Nat) : IsIndex s k → 0 < k → NameSpec (sCaret ++ s) (.ok (.caret k))
  | caretZero (s : List Char) : IsIndex s 0 → NameSpec (sCaret ++ s) (.error .zeroIndex)
  | caretOther (s : List Char) : ¬ IsNumber s → NameSpec (sCaret ++ s) (.ok (.caret 1))
  | vcaret (s : List Char) (k : Nat) : IsIndex s k → 0 < k → NameSpec (sVCaret ++ s) (.ok (.vcaret k))
  | vcaretZero (s : List Char) : IsIndex s 0 → NameSpec (sVCaret ++ s) (.error .zeroIndex)
  | vcaretOther (s : List Char) : ¬ IsNumber s → NameSpec (sVCaret ++ s) (.ok (.vcaret 1))
  | component (s : List Char) (k : Nat) : IsIndex s k → 0 < k → NameSpec ('_' :: s) (.ok (.componentMarker k))
  | componentZero (s : List Char) : IsIndex s 0 → NameSpec ('_' :: s) (.error .zeroIndex)
  | nilMark : NameSpec ['_'] (.error .nilMarkGroup)
  | numberedMark (g t : List Char) : IsNumber t → ¬ IsNumber (g ++ '_' :: t) →
      NameSpec ('_' :: (g ++ '_' :: t)) (.error .numberedMarkAnchor)
  | mark (s : List Char) : s ≠ [] → ¬ IsNumber s → (∀ g t, s = g ++ '_' :: t → ¬ IsNumber t) →
      NameSpec ('_' :: s) (.ok (.mark s))
  | ligature (g t : List Char) (k : Nat) : Plain (g ++ '_' :: t) → IsIndex t k → 0 < k →
      NameSpec (g ++ '_' :: t) (.ok (.ligature g k))
  | ligatureZero (g t : List Char) : Plain (g ++ '_' :: t) → IsIndex t 0 →
      NameSpec (g ++ '_' :: t) (.error .zeroIndex)
  | base (n : Name) : Plain n → (∀ g t, n = g ++ '_' :: t → ¬ IsNumber t) → NameSpec n (.ok (.base n))

/-! ### the string primitives -/

theorem stripPrefix_eq_some (p s r : List Char) : stripPrefix p s = some r ↔ s = p ++ r := by
  induction p generalizing s with
  | nil => simp [stripPrefix, eq_comm]
  | cons a p ih =>
    cases s with
    | nil => simp [stripPrefix]
    | cons c cs =>
      simp only [stripPrefix, List.cons_append, List.cons.injEq]
      by_cases h : a = c
      · subst h; simp [ih]
      · simp [h]; intro h'; exact absurd h'.symm h

theorem stripPrefix_eq_none (p s : List Char) : stripPrefix p s = none ↔ ∀ r, s ≠ p ++ r := by
  constructor
  · intro h r hr
    rw [(stripPrefix_eq_some p s r).mpr hr] at h; cases h
  · intro h
    cases hs : stripPrefix p s with
    | none => rfl
    | some r => exact absurd ((stripPrefix_eq_some p s r).mp hs) (h r)

theorem rsplitOnce_eq_none (c : Char) (s : List Char) :
    rsplitOnce c s = none ↔ c ∉ s := by
  induction s with
  | nil => simp [rsplitOnce]
  | cons x xs ih =>
    simp only [rsplitOnce]
    cases hr : rsplitOnce c xs with
    | some p =>
      simp only [List.mem_cons, not_or, reduceCtorEq, false_iff, not_and]
      exact fun _ hc => by rw [ih.mpr hc] at hr; cases hr
    | none =>
      have := ih.mp hr
      by_cases hx : x = c
      · simp [hx]
      · simp [hx, this]; exact fun h => hx h.symm

theorem rsplitOnce_eq_some (c : Char) (s h t : List Char) :
    rsplitOnce c s = some (h, t) ↔ s = h ++ c :: t ∧ c ∉ t := by
  induction s generalizing h t with
  | nil => simp [rsplitOnce]
  | cons x xs ih =>
    simp only [rsplitOnce]
    cases hr : rsplitOnce c xs with
    | some p =>
      obtain ⟨h', t'⟩ := p
      have ih' := (ih h' t').mp hr
      simp only [Option.some.injEq, Prod.mk.injEq]
      constructor
      · rintro ⟨rfl, rfl⟩
        exact ⟨by rw [ih'.1]; rfl, ih'.2⟩
      · rintro ⟨hs, hc⟩
        cases h with
        | nil =>
          simp only [List.nil_append, List.cons.injEq] at hs
          obtain ⟨rfl, rfl⟩ := hs
          -- c occurs in xs = t, contradiction with c ∉ t
          exfalso; apply hc; rw [ih'.1]; simp
        | cons y ys =>
          simp only [List.cons_append, List.cons.injEq] at hs
          obtain ⟨rfl, hxs⟩ := hs
          have := (ih ys t).mpr ⟨hxs, hc⟩
          rw [hr] at this
          simp only [Option.some.injEq, Prod.mk.injEq] at this
          exact ⟨by rw [this.1], this.2⟩
    | none =>
      have hnone : ∀ h t, ¬ (xs = h ++ c :: t ∧ c ∉ t) := fun h t hh => by
        have := (ih h t).mpr hh; rw [hr] at this; cases this
      by_cases hx : x = c
      · subst hx
        simp only [if_true, Option.some.injEq, Prod.mk.injEq]
        constructor
        · rintro ⟨rfl, rfl⟩
          refine ⟨rfl, ?_⟩
          exact (rsplitOnce_eq_none x xs).mp hr
        · rintro ⟨hs, hc⟩
          cases h with
          | nil =>
            simp only [List.nil_append, List.cons.injEq, true_and] at hs
            exact ⟨rfl, hs⟩
          | cons y ys =>
            simp only [List.cons_append, List.cons.injEq] at hs
            exact absurd ⟨hs.2, hc⟩ (hnone ys t)
      · simp only [hx, if_false]
        constructor
        · intro h'; cases h'
        · rintro ⟨hs, hc⟩
          cases h with
          | nil =>
            simp only [List.nil_append, List.cons.injEq] at hs
            exact absurd hs.1 hx
          | cons y ys =>
            simp only [List.cons_append, List.cons.injEq] at hs
            exact absurd ⟨hs.2, hc⟩ (hnone ys t)

/-! ### index literals -/

theorem isDigit_ne_plus (c : Char) (h : c.isDigit = true) : c ≠ '+' := by
  intro hc; subst hc; revert h; decide

theorem isDigit_ne_underscore (c : Char) (h : c.isDigit = true) : c ≠ '_' := by
  intro hc; subst hc; revert h; decide

theorem unsignedBody_cases (s : List Char) :
    (unsignedBody s = s ∧ ∀ r, s ≠ '+' :: r) ∨ s = '+' :: unsignedBody s := by
  cases s with
  | nil => left; simp [unsignedBody]
  | cons c r =>
    by_cases h : c = '+'
    · right; simp [unsignedBody, h]
    · left; simp [unsignedBody, h]

theorem unsignedBody_of_digits (ds : List Char) (hd : ∀ c ∈ ds, c.isDigit = true) : unsignedBody ds = ds := by
  cases ds with
  | nil => rfl
  | cons c r =>
    have : c ≠ '+' := isDigit_ne_plus c (hd c List.mem_cons_self)
    simp [unsignedBody, this]

theorem parseUsize_eq_some (s : List Char) (k : Nat) : parseUsize s = some k ↔ IsIndex s k := by
  unfold parseUsize IsIndex
  constructor
  · intro h
    simp only at h
    split at h
    · cases h
    · rename_i hne
      split at h
      · cases h
      · rename_i hall
        split at h
        · rename_i hle
          simp only [Option.some.injEq] at h
          refine ⟨unsignedBody s, ?_, ?_, ?_, h.symm, by rw [← h]; exact hle⟩
          · rcases unsignedBody_cases s with h' | h'
            · left; exact h'.1.symm
            · right; exact h'
          · intro he; rw [he] at hne; simp at hne
          · simpa using hall
        · cases h
  · rintro ⟨ds, hs, hne, hd, hk, hle⟩
    have hbody : unsignedBody s = ds := by
      rcases hs with rfl | rfl
      · exact unsignedBody_of_digits _ hd
      · simp [unsignedBody]
    simp only [hbody]
    have h1 : ds.isEmpty = false := by cases ds <;> simp_all
    have h2 : ds.all Char.isDigit = true := by simpa using hd
    simp [h1, h2, ← hk, hle]

theorem parseUsize_eq_none (s : List Char) : parseUsize s = none ↔ ¬ IsNumber s := by
  constructor
  · intro h ⟨k, hk⟩
    rw [(parseUsize_eq_some s k).mpr hk] at h; cases h
  · intro h
    cases hp : parseUsize s with
    | none => rfl
    | some k => exact absurd ⟨k, (parseUsize_eq_some s k).mp hp⟩ h

theorem IsIndex.no_underscore {s : List Char} {k : Nat} (h : IsIndex s k) : '_' ∉ s := by
  obtain ⟨ds, hs, _, hd, _, _⟩ := h
  intro hm
  rcases hs with rfl | rfl
  · exact isDigit_ne_underscore _ (hd _ hm) rfl
  · rcases List.mem_cons.mp hm with h | h
    · revert h; decide
    · exact isDigit_ne_underscore _ (hd _ h) rfl

theorem IsIndex.unique {s : List Char} {k k' : Nat} (h : IsIndex s k) (h' : IsIndex s k') : k = k' := by
  have a := (parseUsize_eq_some s k).mpr h
  have b := (parseUsize_eq_some s k').mpr h'
  rw [a] at b; exact Option.some.inj b

/-- a split `s = g ++ '_' :: t` whose tail is a number is the split at the last underscore -/
theorem rsplit_of_number_tail (s g t : List Char) (hs : s = g ++ '_' :: t) (ht : IsNumber t) :
    rsplitOnce '_' s = some (g, t) := by
  obtain ⟨k, hk⟩ := ht
  exact (rsplitOnce_eq_some '_' s g t).mpr ⟨hs, hk.no_underscore⟩

/-! ### caret prefixes -/

theorem caretSuffix_caret (s : List Char) : caretSuffix (sCaret ++ s) = some (s, false) := by
  have := (stripPrefix_eq_some sCaret (sCaret ++ s) s).mpr rfl
  simp [caretSuffix, this]

theorem caretSuffix_vcaret (s : List Char) : caretSuffix (sVCaret ++ s) = some (s, true) := by
  have h1 : stripPrefix sCaret (sVCaret ++ s) = none := by simp [stripPrefix, sCaret, sVCaret]
  have h2 := (stripPrefix_eq_some sVCaret (sVCaret ++ s) s).mpr rfl
  simp [caretSuffix, h1, h2]

theorem caretSuffix_eq_some (n s : List Char) (v : Bool) (h : caretSuffix n = some (s, v)) :
    (v = false ∧ n = sCaret ++ s) ∨ (v = true ∧ n = sVCaret ++ s) := by
  unfold caretSuffix at h
  cases h1 : stripPrefix sCaret n with
  | some r =>
    rw [h1] at h
    simp only [Option.some.injEq, Prod.mk.injEq] at h
    left; exact ⟨h.2.symm, by rw [← h.1]; exact (stripPrefix_eq_some _ _ _).mp h1⟩
  | none =>
    rw [h1] at h
    cases h2 : stripPrefix sVCaret n with
    | some r =>
      rw [h2] at h
      simp only [Option.some.injEq, Prod.mk.injEq] at h
      right; exact ⟨h.2.symm, by rw [← h.1]; exact (stripPrefix_eq_some _ _ _).mp h2⟩
    | none => rw [h2] at h; cases h

theorem caretSuffix_eq_none (n : List Char) :
    caretSuffix n = none ↔ (∀ s, n ≠ sCaret ++ s) ∧ (∀ s, n ≠ sVCaret ++ s) := by
  constructor
  · intro h
    refine ⟨fun s hs => ?_, fun s hs => ?_⟩
    · rw [hs, caretSuffix_caret] at h; cases h
    · rw [hs, caretSuffix_vcaret] at h; cases h
  · rintro ⟨h1, h2⟩
    have a := (stripPrefix_eq_none sCaret n).mpr h1
    have b := (stripPrefix_eq_none sVCaret n).mpr h2
    simp [caretSuffix, a, b]

/-! ### soundness: the function satisfies the description -/

theorem anchorKind_spec (n : Name) : NameSpec n (anchorKind n) := by
  unfold anchorKind
  split
  · rename_i h; subst h; exact .entry
  · rename_i hne
    split
    · rename_i h; subst h; exact .exit
    · rename_i hnx
      split
      · -- caret names
        rename_i suffix v hcs
        rcases caretSuffix_eq_some n suffix v hcs with ⟨rfl, rfl⟩ | ⟨rfl, rfl⟩
        · split
          · rename_i hp; exact .caretZero _ ((parseUsize_eq_some _ _).mp hp)
          · rename_i i hp; exact .caret _ _ ((parseUsize_eq_some _ _).mp hp) (Nat.succ_pos _)
          · rename_i hp; exact .caretOther _ ((parseUsize_eq_none _).mp hp)
        · split
          · rename_i hp; exact .vcaretZero _ ((parseUsize_eq_some _ _).mp hp)
          · rename_i i hp; exact .vcaret _ _ ((parseUsize_eq_some _ _).mp hp) (Nat.succ_pos _)
          · rename_i hp; exact .vcaretOther _ ((parseUsize_eq_none _).mp hp)
      · rename_i hcs
        have hcar := (caretSuffix_eq_none n).mp hcs
        split
        · -- starts with an underscore
          rename_i suffix
          split
          · rename_i hp; exact .componentZero _ ((parseUsize_eq_some _ _).mp hp)
          · rename_i i hp; exact .component _ _ ((parseUsize_eq_some _ _).mp hp) (Nat.succ_pos _)
          · rename_i hp
            have hnn := (parseUsize_eq_none _).mp hp
            split
            · rename_i he
              have : suffix = [] := by cases suffix <;> simp_all
              subst this; exact .nilMark
            · rename_i hne'
              have hsne : suffix ≠ [] := by intro h; subst h; simp at hne'
              split
              · rename_i g t hsp
                have hsplit := (rsplitOnce_eq_some '_' suffix g t).mp hsp
                split
                · rename_i hnum
                  obtain ⟨k, hk⟩ := Option.isSome_iff_exists.mp hnum
                  rw [hsplit.1]
                  exact .numberedMark g t ⟨k, (parseUsize_eq_some _ _).mp hk⟩ (by rw [← hsplit.1]; exact hnn)
                · rename_i hnum
                  refine .mark suffix hsne hnn ?_
                  intro g' t' hs' hnt'
                  have := rsplit_of_number_tail suffix g' t' hs' hnt'
                  rw [hsp] at this
                  simp only [Option.some.injEq, Prod.mk.injEq] at this
                  obtain ⟨k, hk⟩ := hnt'
                  rw [← this.2] at hk
                  rw [(parseUsize_eq_some _ _).mpr hk] at hnum
                  simp at hnum
              · rename_i hsp
                have hno := (rsplitOnce_eq_none '_' suffix).mp hsp
                refine .mark suffix hsne hnn ?_
                intro g' t' hs' _
                apply hno; rw [hs']; simp
        · -- does not start with an underscore
          rename_i hnu
          have hplain : Plain n := ⟨hne, hnx, hcar.1, hcar.2, fun s hs => hnu s hs⟩
          split
          · rename_i g t hsp
            have hsplit := (rsplitOnce_eq_some '_' n g t).mp hsp
            split
            · rename_i hp
              rw [hsplit.1] at hplain ⊢
              exact .ligatureZero g t hplain ((parseUsize_eq_some _ _).mp hp)
            · rename_i i hp
              have hidx := (parseUsize_eq_some _ _).mp hp
              have := NameSpec.ligature g t (i + 1) (by rw [← hsplit.1]; exact hplain) hidx (Nat.succ_pos _)
              rw [← hsplit.1] at this; exact this
            · rename_i hp
              refine .base n hplain ?_
              intro g' t' hs' hnt'
              have := rsplit_of_number_tail n g' t' hs' hnt'
              rw [hsp] at this
              simp only [Option.some.injEq, Prod.mk.injEq] at this
              rw [← this.2] at hnt'
              exact (parseUsize_eq_none _).mp hp hnt'
          · rename_i hsp
            have hno := (rsplitOnce_eq_none '_' n).mp hsp
            refine .base n hplain ?_
            intro g' t' hs' _
            apply hno; rw [hs']; simp

/-! ### completeness: the description determines the result -/

theorem Plain.caretSuffix {n : Name} (h : Plain n) : caretSuffix n = none :=
  (caretSuffix_eq_none n).mpr ⟨h.2.2.1, h.2.2.2.1⟩

theorem anchorKind_of_plain (n : Name) (h : Plain n) :
    anchorKind n =
      match rsplitOnce '_' n with
      | some (g, t) =>
        match parseUsize t with
        | some 0 => .error .zeroIndex
        | some (i + 1) => .ok (.ligature g (i + 1))
        | none => .ok (.base n)
      | none => .ok (.base n) := by
  unfold anchorKind
  rw [if_neg h.1, if_neg h.2.1, h.caretSuffix]
  simp only []
  split
  · rename_i s; exact absurd rfl (h.2.2.2.2 s)
  · rfl

theorem sEntry_not_caret : caretSuffix sEntry = none := by decide
theorem sExit_not_caret : caretSuffix sExit = none := by decide

theorem anchorKind_underscore (s : List Char) :
    anchorKind ('_' :: s) =
      match parseUsize s with
      | some 0 => .error .zeroIndex
      | some (i + 1) => .ok (.componentMarker (i + 1))
      | none =>
        if s.isEmpty then .error .nilMarkGroup
        else
          match rsplitOnce '_' s with
          | some (_, t) => if (parseUsize t).isSome then .error .numberedMarkAnchor else .ok (.mark s)
          | none => .ok (.mark s) := by
  have h1 : ('_' :: s) ≠ sEntry := by simp [sEntry]
  have h2 : ('_' :: s) ≠ sExit := by simp [sExit]
  have h3 : caretSuffix ('_' :: s) = none := by simp [caretSuffix, stripPrefix, sCaret, sVCaret]
  unfold anchorKind
  rw [if_neg h1, if_neg h2, h3]
  rfl

theorem anchorKind_caret (s : List Char) :
    anchorKind (sCaret ++ s) =
      match parseUsize s with
      | some 0 => .error .zeroIndex
      | some (i + 1) => .ok (.caret (i + 1))
      | none => .ok (.caret 1) := by
  have h1 : (sCaret ++ s) ≠ sEntry := by simp [sEntry, sCaret]
  have h2 : (sCaret ++ s) ≠ sExit := by simp [sExit, sCaret]
  unfold anchorKind
  rw [if_neg h1, if_neg h2, caretSuffix_caret]
  simp only []
  split <;> simp_all

theorem anchorKind_vcaret (s : List Char) :
    anchorKind (sVCaret ++ s) =
      match parseUsize s with
      | some 0 => .error .zeroIndex
      | some (i + 1) => .ok (.vcaret (i + 1))
      | none => .ok (.vcaret 1) := by
  have h1 : (sVCaret ++ s) ≠ sEntry := by simp [sEntry, sVCaret]
  have h2 : (sVCaret ++ s) ≠ sExit := by simp [sExit, sVCaret]
  unfold anchorKind
  rw [if_neg h1, if_neg h2, caretSuffix_vcaret]
  simp only []
  split <;> simp_all

theorem parse_pos {s : List Char} {k : Nat} (h : IsIndex s k) (hk : 0 < k) :
    ∃ i, parseUsize s = some (i + 1) ∧ k = i + 1 := by
  have := (parseUsize_eq_some s k).mpr h
  cases k with
  | zero => omega
  | succ i => exact ⟨i, this, rfl⟩

theorem anchorKind_complete (n : Name) (r : Except BadAnchor Kind) (h : NameSpec n r) : anchorKind n = r := by
  cases h with
  | entry => unfold anchorKind; rw [if_pos rfl]
  | exit => unfold anchorKind; rw [if_neg (by decide), if_pos rfl]
  | caret s k hi hk =>
    obtain ⟨i, hp, rfl⟩ := parse_pos hi hk
    rw [anchorKind_caret, hp]
  | caretZero s hi => rw [anchorKind_caret, (parseUsize_eq_some s 0).mpr hi]
  | caretOther s hn => rw [anchorKind_caret, (parseUsize_eq_none s).mpr hn]
  | vcaret s k hi hk =>
    obtain ⟨i, hp, rfl⟩ := parse_pos hi hk
    rw [anchorKind_vcaret, hp]
  | vcaretZero s hi => rw [anchorKind_vcaret, (parseUsize_eq_some s 0).mpr hi]
  | vcaretOther s hn => rw [anchorKind_vcaret, (parseUsize_eq_none s).mpr hn]
  | component s k hi hk =>
    obtain ⟨i, hp, rfl⟩ := parse_pos hi hk
    rw [anchorKind_underscore, hp]
  | componentZero s hi => rw [anchorKind_underscore, (parseUsize_eq_some s 0).mpr hi]
  | nilMark => rw [anchorKind_underscore]; rfl
  | numberedMark g t ht hn =>
    rw [anchorKind_underscore, (parseUsize_eq_none _).mpr hn]
    have hne : (g ++ '_' :: t).isEmpty = false := by cases g <;> simp
    simp only [hne]
    rw [rsplit_of_number_tail _ g t rfl ht]
    obtain ⟨k, hk⟩ := ht
    simp [(parseUsize_eq_some t k).mpr hk]
  | mark s hne hn hsplit =>
    rw [anchorKind_underscore, (parseUsize_eq_none _).mpr hn]
    have hne' : s.isEmpty = false := by cases s <;> simp_all
    simp only [hne']
    cases hr : rsplitOnce '_' s with
    | none => simp
    | some p =>
      obtain ⟨g, t⟩ := p
      have := (rsplitOnce_eq_some '_' s g t).mp hr
      have hnt := hsplit g t this.1
      simp [(parseUsize_eq_none t).mpr hnt]
  | ligature g t k hp hi hk =>
    obtain ⟨i, hpp, rfl⟩ := parse_pos hi hk
    rw [anchorKind_of_plain _ hp, rsplit_of_number_tail _ g t rfl ⟨_, hi⟩]
    simp only [hpp]
  | ligatureZero g t hp hi =>
    rw [anchorKind_of_plain _ hp, rsplit_of_number_tail _ g t rfl ⟨_, hi⟩]
    simp only [(parseUsize_eq_some t 0).mpr hi]
  | base n hp hsplit =>
    rw [anchorKind_of_plain _ hp]
    cases hr : rsplitOnce '_' n with
    | none => rfl
    | some p =>
      obtain ⟨g, t⟩ := p
      have := (rsplitOnce_eq_some '_' n g t).mp hr
      simp only [(parseUsize_eq_none t).mpr (hsplit g t this.1)]

/-- ligature anchors produced by the parser have a positive component index -/
theorem anchorKind_ligature_pos (n g : Name) (i : Nat) (h : anchorKind n = .ok (.ligature g i)) : 1 ≤ i := by
  have hs := anchorKind_spec n
  rw [h] at hs
  cases hs with
  | ligature g t k _ _ hk => exact hk

end Fontc.Marks
