/-
  C06 helper lemmas, part 4: `resolve` (the queue that creates derived glyphs), `ensureNotdef`, and the shape of
  `finalOrder`.
-/
import FontcModel.GlyphOrder
import FontcProofs.GlyphOrderBasic
import FontcProofs.GlyphOrderNames
import FontcProofs.GlyphOrderTable

namespace Fontc.GlyphOrder

/-! ### induction principle for `resolve` -/

theorem resolve_ind (d : Nat) (P : RState → Prop)
    (hdefer : ∀ (st : RState) op g rest, st.todo = (op, g) :: rest → P st →
      P { st with todo := rest ++ [(op, g)] })
    (happly : ∀ (st : RState) op g rest, st.todo = (op, g) :: rest → P st →
      P { applyFix { st with todo := rest } op g with
          pending := (applyFix { st with todo := rest } op g).pending.filter (· ≠ g.name) }) :
    ∀ (fuel : Nat) (st st' : RState), P st → resolve d fuel st = some st' → P st' ∧ st'.todo = []
  | 0, st, st', hP, h => by
    unfold resolve at h
    split at h
    · rename_i he
      injection h with h
      subst h
      exact ⟨hP, by simpa using he⟩
    · simp at h
  | fuel + 1, st, st', hP, h => by
    unfold resolve at h
    split at h
    · rename_i he
      injection h with h
      subst h
      exact ⟨hP, he⟩
    · rename_i op g rest he
      split at h
      · exact resolve_ind d P hdefer happly fuel _ st' (hdefer st op g rest he hP) h
      · exact resolve_ind d P hdefer happly fuel _ st' (happly st op g rest he hP) h

/-! ### the invariant of the queue -/

/-- `T0`, `init`, `Q`: table, order and queue when `resolve` starts. -/
structure RInv (T0 : Table) (init : List String) (Q : List (Op × Glyph)) (st : RState) : Prop where
  todo_sub : ∀ x ∈ st.todo, x ∈ Q
  nodup : st.order.Nodup
  order_eq : ∃ derived, st.order = init ++ derived ∧
    (∀ x ∈ derived, ∃ g k, (Op.moveContoursToComponent, g) ∈ Q ∧ x = suffixed g.name k) ∧
    (∀ x ∈ derived, (st.table.get x).map Glyph.meta = some (x, true, []))
  meta_init : ∀ n ∈ init, (st.table.get n).map Glyph.meta = (T0.get n).map Glyph.meta

/-- what the queue entries look like when they come from `todoOf` -/
def QueueOk (T0 : Table) (init : List String) (Q : List (Op × Glyph)) : Prop :=
  ∀ x ∈ Q, x.2.name ∈ init ∧ x.2.exported = true ∧ (T0.get x.2.name).map Glyph.meta = some x.2.meta

theorem RInv.defer {T0 init Q} {st : RState} {op g rest} (he : st.todo = (op, g) :: rest)
    (h : RInv T0 init Q st) : RInv T0 init Q { st with todo := rest ++ [(op, g)] } := by
  refine ⟨?_, h.nodup, h.order_eq, h.meta_init⟩
  intro x hx
  apply h.todo_sub
  rw [he]
  simp only [List.mem_append, List.mem_singleton] at hx
  rcases hx with hx | hx
  · exact List.mem_cons_of_mem _ hx
  · simp [hx]

theorem RInv.apply {T0 init Q} (hQ : QueueOk T0 init Q) {st : RState} {op g rest}
    (he : st.todo = (op, g) :: rest) (h : RInv T0 init Q st) :
    RInv T0 init Q { applyFix { st with todo := rest } op g with
      pending := (applyFix { st with todo := rest } op g).pending.filter (· ≠ g.name) } := by
  have hgQ : (op, g) ∈ Q := h.todo_sub _ (by rw [he]; simp)
  obtain ⟨hginit, hgexp, hgmeta⟩ := hQ _ hgQ
  simp only at hginit hgexp hgmeta
  obtain ⟨derived, hord, hform, hdmeta⟩ := h.order_eq
  have hgorder : g.name ∈ st.order := by rw [hord]; exact List.mem_append_left _ hginit
  have hrest : ∀ x ∈ rest, x ∈ Q := fun x hx => h.todo_sub x (by rw [he]; exact List.mem_cons_of_mem _ hx)
  -- a derived name is never the name of a queued glyph
  have hder_ne : ∀ x ∈ derived, x ≠ g.name := by
    intro x hx e
    have hnd := h.nodup
    rw [hord, List.nodup_append] at hnd
    exact hnd.2.2 g.name hginit x hx e.symm
  cases op with
  | convertToContour =>
    refine ⟨hrest, h.nodup, ⟨derived, hord, hform, ?_⟩, ?_⟩
    · intro x hx
      show ((st.table.set _).get x).map Glyph.meta = _
      rw [Table.get_set]
      have : ¬ g.name = x := fun e => hder_ne x hx e.symm
      simp only [this, if_false]
      exact hdmeta x hx
    · intro n hn
      show ((st.table.set _).get n).map Glyph.meta = _
      rw [Table.get_set]
      by_cases e : g.name = n
      · simp only [e, if_true]
        rw [← e, hgmeta]
        rfl
      · simp only [e, if_false]
        exact h.meta_init n hn
  | moveContoursToComponent =>
    have hfresh : nameForDerivative g.name st.order ∉ st.order := nameForDerivative_not_mem _ _
    generalize hnew : nameForDerivative g.name st.order = new at hfresh
    have hnew_ne : new ≠ g.name := fun e => hfresh (e ▸ hgorder)
    have hnew_init : new ∉ init := fun hi => hfresh (by rw [hord]; exact List.mem_append_left _ hi)
    have hnew_der : new ∉ derived := fun hi => hfresh (by rw [hord]; exact List.mem_append_right _ hi)
    refine ⟨hrest, ?_, ⟨derived ++ [new], ?_, ?_, ?_⟩, ?_⟩
    · show (ixInsert st.order (nameForDerivative g.name st.order)).Nodup
      rw [hnew, ixInsert_of_not_mem hfresh, List.nodup_append]
      refine ⟨h.nodup, by simp, ?_⟩
      intro a ha b hb hab
      simp only [List.mem_singleton] at hb
      subst hab; subst hb
      exact hfresh ha
    · show ixInsert st.order (nameForDerivative g.name st.order) = _
      rw [hnew, ixInsert_of_not_mem hfresh, hord, List.append_assoc]
    · intro x hx
      rcases List.mem_append.mp hx with hx | hx
      · exact hform x hx
      · simp only [List.mem_singleton] at hx
        refine ⟨g, firstFree st.order g.name 0, hgQ, ?_⟩
        rw [hx, ← hnew]; rfl
    · intro x hx
      show (((st.table.set _).set _).get x).map Glyph.meta = _
      rw [Table.get_set, Table.get_set]
      simp only [hnew]
      rcases List.mem_append.mp hx with hx | hx
      · have h1 : ¬ g.name = x := fun e => hder_ne x hx e.symm
        have h2 : ¬ new = x := fun e => hnew_der (e ▸ hx)
        simp only [h1, h2, if_false]
        exact hdmeta x hx
      · simp only [List.mem_singleton] at hx
        subst hx
        have h1 : ¬ g.name = x := fun e => hnew_ne e.symm
        simp [h1, Glyph.meta, hgexp]
    · intro n hn
      show (((st.table.set _).set _).get n).map Glyph.meta = _
      rw [Table.get_set, Table.get_set]
      simp only [hnew]
      by_cases e : g.name = n
      · simp only [e, if_true]
        rw [← e, hgmeta]
        rfl
      · have h2 : ¬ new = n := fun e' => hnew_init (e' ▸ hn)
        simp only [e, h2, if_false]
        exact h.meta_init n hn

theorem resolve_inv {T0 : Table} {init : List String} {Q : List (Op × Glyph)} (hQ : QueueOk T0 init Q)
    (d fuel : Nat) (st st' : RState) (h0 : RInv T0 init Q st) (h : resolve d fuel st = some st') :
    RInv T0 init Q st' :=
  (resolve_ind d (RInv T0 init Q) (fun _ _ _ _ he hP => hP.defer he) (fun _ _ _ _ he hP => hP.apply hQ he)
    fuel st st' h0 h).1

/-! ### the queue built by `todoOf` -/

theorem todoOf_ok (preferSimple : Bool) (kept : List String) (t : Table)
    (hexp : ∀ n ∈ kept, t.isExport n = true) :
    QueueOk t kept (todoOf preferSimple kept t) := by
  intro x hx
  unfold todoOf at hx
  obtain ⟨n, hn, hsome⟩ := List.mem_filterMap.mp hx
  cases hg : t.get n with
  | none => simp [hg] at hsome
  | some g =>
    simp only [hg] at hsome
    have hname := Table.get_name hg
    have hx2 : x.2 = g := by
      split at hsome
      · injection hsome with e; rw [← e]
      · split at hsome
        · injection hsome with e; rw [← e]
        · simp at hsome
    rw [hx2, hname]
    refine ⟨hn, ?_, by rw [hg]; rfl⟩
    have := hexp n hn
    unfold Table.isExport at this
    simpa [hg] using this

/-! ### `ensureNotdef` -/

theorem ensureNotdef_order (f : Final) : (ensureNotdef f).order = notdef :: f.order.erase notdef := by
  unfold ensureNotdef
  split <;> simp [setGlyphId0_eq]

theorem ensureNotdef_table_of_mem (f : Final) (h : notdef ∈ f.order) : (ensureNotdef f).table = f.table := by
  unfold ensureNotdef
  cases hi : ixIndexOf notdef f.order with
  | some i => rfl
  | none => exact absurd h (ixIndexOf_eq_none.mp hi)

theorem ensureNotdef_table_of_not_mem (f : Final) (h : notdef ∉ f.order) :
    (ensureNotdef f).table = f.table.set { name := notdef, hasContours := true } := by
  unfold ensureNotdef
  cases hi : ixIndexOf notdef f.order with
  | some i =>
    have := ixIndexOf_get hi
    exact absurd (List.mem_of_getElem? this) h
  | none => rfl

/-! ### the shape of `finalOrder` -/

/-- the source's own table -/
def Source.table (s : Source) : Table := Table.ofList s.glyphs

/-- declared order restricted to exported glyphs -/
def Source.kept (s : Source) : List String := s.prelim.filter s.table.isExport

/-- everything the theorems of C06 need to know about a successful run of `finalOrder` -/
structure FinalShape (s : Source) (f : Final) : Prop where
  /-- every name of the preliminary order has a glyph -/
  prelim_known : ∀ n ∈ s.prelim, (s.table.get n).isSome = true
  shape : ∃ derived : List String,
    f.order = notdef :: ((s.kept ++ derived).erase notdef) ∧
    (s.kept ++ derived).Nodup ∧
    (∀ x ∈ derived, ∃ b k, b ∈ s.kept ∧ x = suffixed b k) ∧
    -- table: exported source glyphs keep name/flag/codepoints, made glyphs are exported and carry no codepoint
    (∀ n ∈ s.kept, (f.table.get n).map Glyph.meta = (s.table.get n).map Glyph.meta) ∧
    (∀ n ∈ f.order, n ∉ s.kept → (f.table.get n).map Glyph.meta = some (n, true, []))

theorem finalOrder_shape (s : Source) (f : Final) (hnd : s.prelim.Nodup) (h : finalOrder s = some f) :
    FinalShape s f := by
  unfold finalOrder at h
  simp only at h
  generalize ht0 : pruneMissing (s.glyphs.map (·.name)) (Table.ofList s.glyphs) = t0 at h
  generalize ht1 : flattenAll (depthSorted (s.glyphs.map (·.name)) t0) t0 = t1 at h
  have hsm1 : SameMeta s.table t1 := by
    rw [← ht1, ← ht0]
    exact (pruneMissing_sameMeta _ _).trans (flattenAll_sameMeta _ _)
  cases hk : keptOrder s.prelim t1 with
  | none => simp [hk] at h
  | some kept =>
    simp only [hk] at h
    obtain ⟨hkept, hknown⟩ := keptOrder_eq hk
    have hkept' : kept = s.kept := by
      rw [hkept]
      unfold Source.kept
      apply List.filter_congr
      intro n _
      exact (hsm1.isExport n).symm
    generalize hQ : todoOf s.preferSimple kept t1 = Q at h
    generalize hT0 : decomposeDangling kept t1 = T0 at h
    have hsm2 : SameMeta s.table T0 := by
      rw [← hT0]; exact hsm1.trans (decomposeDangling_sameMeta _ _)
    simp only [List.length_map] at h
    cases hres : resolve (s.glyphs.length + Q.length + 1) ((Q.length + 1) * (Q.length + 1))
        { table := T0, order := kept, pending := Q.map (·.2.name), todo := Q } with
    | none => simp [hres] at h
    | some st =>
      simp only [hres] at h
      injection h with h
      -- the queue invariant
      have hkept_nd : kept.Nodup := by rw [hkept]; exact hnd.sublist List.filter_sublist
      have hexp : ∀ n ∈ kept, t1.isExport n = true := by
        intro n hn
        rw [hkept] at hn
        exact (List.mem_filter.mp hn).2
      have hQok : QueueOk T0 kept Q := by
        have hq1 := todoOf_ok s.preferSimple kept t1 hexp
        rw [hQ] at hq1
        intro x hx
        obtain ⟨a, b, c⟩ := hq1 x hx
        refine ⟨a, b, ?_⟩
        have e1 := decomposeDangling_sameMeta kept t1 x.2.name
        rw [hT0] at e1
        rw [← e1]; exact c
      have h0 : RInv T0 kept Q { table := T0, order := kept, pending := Q.map (·.2.name), todo := Q } :=
        ⟨fun x hx => hx, hkept_nd, ⟨[], by simp, by simp, by simp⟩, fun _ _ => rfl⟩
      have hinv := resolve_inv hQok _ _ _ _ h0 hres
      obtain ⟨derived, hord, hform, hdmeta⟩ := hinv.order_eq
      have hnd2 : (kept ++ derived).Nodup := hord ▸ hinv.nodup
      refine ⟨?_, derived, ?_, ?_, ?_, ?_, ?_⟩
      · intro n hn
        rw [hsm1.isSome n]; exact hknown n hn
      · rw [← h, ensureNotdef_order, ← hkept']
        simp only [hord]
      · rw [← hkept']; exact hnd2
      · intro x hx
        obtain ⟨g, k, hg, hxe⟩ := hform x hx
        exact ⟨g.name, k, hkept' ▸ (hQok _ hg).1, hxe⟩
      · -- kept glyphs
        intro n hn
        rw [← hkept'] at hn
        have hmeta := (hinv.meta_init n hn).trans (hsm2 n).symm
        by_cases hmem : notdef ∈ st.order
        · rw [← h, ensureNotdef_table_of_mem _ hmem]; exact hmeta
        · rw [← h, ensureNotdef_table_of_not_mem _ hmem, Table.get_set]
          have hne : ¬ notdef = n := by
            intro e
            apply hmem
            show notdef ∈ st.order
            rw [hord]; exact List.mem_append_left _ (e ▸ hn)
          simp only [hne, if_false]
          exact hmeta
      · -- made glyphs
        intro n hn hnk
        rw [← hkept'] at hnk
        rw [← h, ensureNotdef_order] at hn
        by_cases hmem : notdef ∈ st.order
        · rw [← h, ensureNotdef_table_of_mem _ hmem]
          have hn' : n ∈ st.order := by
            rcases List.mem_cons.mp hn with e | e
            · exact e ▸ hmem
            · exact List.mem_of_mem_erase e
          show (st.table.get n).map Glyph.meta = _
          rw [hord] at hn'
          rcases List.mem_append.mp hn' with e | e
          · exact absurd e hnk
          · exact hdmeta n e
        · rw [← h, ensureNotdef_table_of_not_mem _ hmem, Table.get_set]
          by_cases e : notdef = n
          · subst e; simp [Glyph.meta]
          · simp only [e, if_false]
            have hn' : n ∈ st.order := by
              rcases List.mem_cons.mp hn with e' | e'
              · exact absurd e'.symm e
              · exact List.mem_of_mem_erase e'
            show (st.table.get n).map Glyph.meta = _
            rw [hord] at hn'
            rcases List.mem_append.mp hn' with e' | e'
            · exact absurd e' hnk
            · exact hdmeta n e'

end Fontc.GlyphOrder
