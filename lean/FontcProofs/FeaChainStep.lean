/-
  C11, contextual lookups, part 3: the step of the compiled contextual lookup as "first raw rule that
  matches" (format 3 subtables, `try_merge` undone).
-/
import FontcProofs.FeaChainFold
import FontcProofs.FeaSimBasic

namespace Fontc.FeaCompile
open Cmp
set_option linter.unusedSimpArgs false

/-- one raw rule tried at the current position -/
def otTry (ign : Glyph → Bool) (nested : Nat → Option Step) (rev : List Glyph) (g : Glyph) (suf : List Glyph)
    (cr : CRule) : Option (List Glyph × List Glyph) :=
  (matchCtx ign (cr.back.map GC.has) (cr.input.map (·.1.has)) (cr.look.map GC.has) rev g suf).map
    fun ps => ctxResult nested rev g suf ps cr.recs

theorem ctxSubtableMatch_buildCRule (ign : Glyph → Bool) (cr : CRule) (rev : List Glyph) (g : Glyph) (suf : List Glyph) :
    OT.ctxSubtableMatch ign (buildCRule cr) rev g suf
      = (matchCtx ign (cr.back.map GC.has) (cr.input.map (·.1.has)) (cr.look.map GC.has) rev g suf).map (·, cr.recs) := by
  simp only [buildCRule, OT.ctxSubtableMatch, covPreds_eq]
  have : (cr.input.map fun c => sortedSet c.1.glyphs).map (fun c y => c.contains y) = cr.input.map (·.1.has) := by
    rw [List.map_map]
    apply List.map_congr_left
    intro c _
    funext y
    exact has_sortedSet c.1 y
  rw [this]

/-- the compiled contextual lookup tries its rules in order -/
theorem lookupStep_chain (gdef : OT.Gdef) (alt : Nat) (lookups : List OT.Lookup) (d : Nat) (cf : CFlag)
    (crs : List CRule) (an : List Anon) (rev : List Glyph) (g : Glyph) (suf : List Glyph) :
    OT.lookupStep gdef alt lookups (d + 1) (buildLookup cf (.chain crs an)) rev g suf
      = crs.findSome? (otTry (OT.ignored gdef cf.1 cf.2) (fun i => (lookups[i]?).map (OT.lookupStep gdef alt lookups d)) rev g suf) := by
  simp only [OT.lookupStep, buildLookup, buildSubtables, OT.Lookup.ign]
  induction crs with
  | nil => rfl
  | cons cr crs ih =>
    simp only [List.map_cons, List.findSome?_cons]
    have hs : OT.simpleSubtableStep (OT.ignored gdef cf.1 cf.2) alt (buildCRule cr) rev g suf = none := by
      simp [buildCRule, OT.simpleSubtableStep]
    rw [hs, ctxSubtableMatch_buildCRule]
    simp only [Option.map_map, otTry]
    cases matchCtx (OT.ignored gdef cf.1 cf.2) (cr.back.map GC.has) (cr.input.map (·.1.has)) (cr.look.map GC.has) rev g suf with
    | none => simpa using ih
    | some ps => rfl

/-! ### `try_merge` -/

theorem matchCtx_single (ign : Glyph → Bool) (back look : List (Glyph → Bool)) (p : Glyph → Bool)
    (rev : List Glyph) (g : Glyph) (suf : List Glyph) :
    matchCtx ign back [p] look rev g suf =
      if p g && (matchFwd ign look ((g :: suf).drop 1) 0).isSome && (matchFwd ign back rev 0).isSome then some [0] else none := by
  simp only [matchCtx, matchInput, matchFwd]
  cases hp : p g
  · simp
  · simp [matchEnd]

theorem recs_single (c : GC) (ls : List LookupId) : (CRule.recs ⟨b, [(c, ls)], l⟩) = ls.map fun x => (0, x.gsubIdx) := by
  simp [CRule.recs, List.zipIdx]

theorem otTry_merged (ign : Glyph → Bool) (nested : Nat → Option Step) (rev : List Glyph) (g : Glyph) (suf : List Glyph)
    (back look : List GC) (c1 c2 : GC) (ls : List LookupId) :
    otTry ign nested rev g suf ⟨back, [(.c (c1.glyphs ++ c2.glyphs), ls)], look⟩
      = (otTry ign nested rev g suf ⟨back, [(c1, ls)], look⟩).orElse
          fun _ => otTry ign nested rev g suf ⟨back, [(c2, ls)], look⟩ := by
  simp only [otTry, List.map_cons, List.map_nil, matchCtx_single, recs_single]
  have hh : (GC.c (c1.glyphs ++ c2.glyphs)).has g = (c1.has g || c2.has g) := by
    simp [GC.has, GC.glyphs, List.contains_append]
  rw [hh]
  cases h1 : c1.has g <;> cases h2 : c2.has g <;>
    cases (matchFwd ign (look.map GC.has) ((g :: suf).drop 1) 0).isSome <;>
    cases (matchFwd ign (back.map GC.has) rev 0).isSome <;> simp

theorem findSome_append_singleton {α β : Type} (f : α → Option β) (l : List α) (a : α) :
    (l ++ [a]).findSome? f = (l.findSome? f).orElse fun _ => f a := by
  induction l with
  | nil => simp
  | cons x l ih =>
    simp only [List.cons_append, List.findSome?_cons, ih]
    cases f x <;> simp

theorem eq_dropLast_append {α : Type} (l : List α) (a : α) (h : l.getLast? = some a) : l = l.dropLast ++ [a] := by
  induction l with
  | nil => simp at h
  | cons x l ih =>
    cases l with
    | nil => simp at h; simp [h]
    | cons y l =>
      have : (y :: l).getLast? = some a := by simpa [List.getLast?_cons_cons] using h
      have := ih this
      simp only [List.dropLast_cons_cons, List.cons_append]
      rw [← this]

/-- adding a rule with `try_merge` does not change the first match -/
theorem findSome_addCRule (ign : Glyph → Bool) (nested : Nat → Option Step) (rev : List Glyph) (g : Glyph) (suf : List Glyph)
    (crs : List CRule) (r : CRule) :
    (addCRule crs r).findSome? (otTry ign nested rev g suf) = (crs ++ [r]).findSome? (otTry ign nested rev g suf) := by
  unfold addCRule
  cases hl : crs.getLast? with
  | none => rfl
  | some last =>
    have hcrs : crs = crs.dropLast ++ [last] := eq_dropLast_append crs last hl
    simp only
    obtain ⟨lb, li, ll⟩ := last
    obtain ⟨rb, ri, rl⟩ := r
    match li, ri with
    | [(c1, l1)], [(c2, l2)] =>
      simp only
      split
      · rename_i hc
        simp only [Bool.and_eq_true, beq_iff_eq] at hc
        obtain ⟨⟨hb, hlk⟩, hls⟩ := hc
        subst hb hlk hls
        rw [findSome_append_singleton, otTry_merged]
        conv => rhs; rw [hcrs]
        rw [List.append_assoc, List.findSome?_append]
        simp only [List.cons_append, List.nil_append, List.findSome?_cons, List.findSome?_nil]
        cases crs.dropLast.findSome? (otTry ign nested rev g suf) with
        | some x => simp
        | none =>
          cases otTry ign nested rev g suf ⟨lb, [(c1, l1)], ll⟩ with
          | some y => simp
          | none =>
            simp
            cases otTry ign nested rev g suf ⟨lb, [(c2, l1)], ll⟩ <;> rfl
      · rfl
    | [], _ => rfl
    | [_], [] => rfl
    | [_], _ :: _ :: _ => rfl
    | _ :: _ :: _, _ => rfl

theorem findSome_foldl_addCRule (ign : Glyph → Bool) (nested : Nat → Option Step) (rev : List Glyph) (g : Glyph) (suf : List Glyph)
    (raws : List CRule) :
    ∀ (crs : List CRule), (raws.foldl addCRule crs).findSome? (otTry ign nested rev g suf)
      = (crs ++ raws).findSome? (otTry ign nested rev g suf) := by
  induction raws with
  | nil => intro crs; simp
  | cons r raws ih =>
    intro crs
    simp only [List.foldl_cons]
    rw [ih, List.findSome?_append, findSome_addCRule, ← List.findSome?_append]
    simp

end Fontc.FeaCompile
