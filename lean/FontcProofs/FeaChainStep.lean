/-
  C11, contextual lookups, part 3: the step of the compiled contextual lookup as "first raw rule that
  matches" (format 3 subtables, `try_merge` undone).
-/
import FontcProofs.FeaChainFold
import FontcProofs.FeaSimBasic

namespace Fontc.FeaCompile
open Cmp
set_option linter.unusedSimpArgs false

/-- one raw rule tried at the current position -/
def otTry (ign : Glyph → Bool) (nested : Nat → Option Step) (rev : List Glyph) (g : Glyph) (suf : List Glyph)
    (cr : CRule) : Option (List Glyph × List Glyph) :=
  (matchCtx ign (cr.back.map GC.has) (cr.input.map (·.1.has)) (cr.look.map GC.has) rev g suf).map
    fun ps => ctxResult nested rev g suf ps cr.recs

theorem ctxSubtableMatch_buildCRule (ign : Glyph → Bool) (cr : CRule) (rev : List Glyph) (g : Glyph) (suf : List Glyph) :
    OT.ctxSubtableMatch ign (buildCRule cr) rev g suf
      = (matchCtx ign (cr.back.map GC.has) (cr.input.map (·.1.has)) (cr.look.map GC.has) rev g suf).map (·, cr.recs) := by
  simp only [buildCRule, OT.ctxSubtableMatch, covPreds_eq]
  have : (cr.input.map fun c => sortedSet c.1.glyphs).map (fun c y => c.contains y) = cr.input.map (·.1.has) := by
    rw [List.map_map]
    apply List.map_congr_left
    intro c _
    funext y
    exact has_sortedSet c.1 y
  rw [this]

/-- the compiled contextual lookup tries its rules in order -/
theorem lookupStep_chain (gdef : OT.Gdef) (alt : Nat) (lookups : List OT.Lookup) (d : Nat) (cf : CFlag)
    (crs : List CRule) (an : List Anon) (rev : List Glyph) (g : Glyph) (suf : List Glyph) :
    OT.lookupStep gdef alt lookups (d + 1) (buildLookup cf (.chain crs an)) rev g suf
      = crs.findSome? (otTry (OT.ignored gdef cf.1 cf.2) (fun i => (lookups[i]?).map (OT.lookupStep gdef alt lookups d)) rev g suf) := by
  simp only [OT.lookupStep, buildLookup, buildSubtables, OT.Lookup.ign]
  induction crs with
  | nil => rfl
  | cons cr crs ih =>
    simp only [List.map_cons, List.findSome?_cons]
    have hs : OT.simpleSubtableStep (OT.ignored gdef cf.1 cf.2) alt (buildCRule cr) rev g suf = none := by
      simp [buildCRule, OT.simpleSubtableStep]
    rw [hs, ctxSubtableMatch_buildCRule]
    simp only [Option.map_map, otTry]
    cases matchCtx (OT.ignored gdef cf.1 cf.2) (cr.back.map GC.has) (cr.input.map (·.1.has)) (cr.look.map GC.has) rev g suf with
    | none => simpa using ih
    | some ps => rfl

end Fontc.FeaCompile
