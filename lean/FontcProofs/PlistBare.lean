/-
  C20 — quotes are optional exactly on `bareOk` strings: a string value written without quotes reads back
  as the same string iff it is a non-empty word over the bare-word alphabet that `parse_atom` does not
  turn into a number.
-/
import FontcModel.Plist
import FontcProofs.PlistParse
namespace Fontc.Plist
set_option linter.unusedSimpArgs false
set_option linter.unusedVariables false

theorem hexRun_length (k : Nat) (s : List Char) (acc : Nat) : (hexRun k s acc).2.length ≤ s.length := by
  induction k generalizing s acc with
  | zero => simp [hexRun]
  | succ k ih =>
    cases s with
    | nil => simp [hexRun]
    | cons c s =>
      simp only [hexRun]
      split
      · next d _ => have := ih s (acc * 16 + d); simp only [List.length_cons]; omega
      · simp

theorem hex4_length {s : List Char} {v : Nat} {t : List Char} (h : hex4 s = some (v, t)) : t.length ≤ s.length := by
  cases s with
  | nil => simp [hex4] at h
  | cons c s =>
    simp only [hex4] at h
    split at h
    · simp at h
      have := hexRun_length 4 (c :: s) 0
      rw [h] at this
      exact this
    · cases h

/-- an escape consumes at least one character after the backslash -/
theorem parseEscape_length {r : List Char} {e : Char} {t : List Char} (h : parseEscape r = some (e, t)) :
    t.length < r.length := by
  unfold parseEscape at h
  split at h
  · cases h
  · next b u =>
    split at h
    · simp at h; simp [← h.2]
    split at h
    · simp at h; simp [← h.2]
    split at h
    · simp at h; simp [← h.2]
    split at h
    · simp at h; simp [← h.2]
    split at h
    · split at h
      · cases h
      · next v t1 h4 =>
        have l1 := hex4_length h4
        split at h
        · simp at h; obtain ⟨_, _, _, rfl⟩ := h; simp; omega
        · split at h
          · cases h
          · next v2 t3 h4' =>
            have l2 := hex4_length h4'
            simp at h; obtain ⟨_, _, _, rfl⟩ := h
            simp at l2 ⊢; omega
    split at h
    · split at h
      · split at h
        · simp at h; simp [← h.2]; omega
        · cases h
      · cases h
    · cases h

theorem lexQuoted_length (f : Nat) (acc inp t r : List Char) (h : lexQuoted f acc inp = some (t, r)) :
    t.length + r.length + 1 ≤ acc.length + inp.length := by
  induction f generalizing acc inp with
  | zero => simp [lexQuoted] at h
  | succ f ih =>
    cases inp with
    | nil => simp [lexQuoted] at h
    | cons c rest =>
      simp only [lexQuoted] at h
      split at h
      · simp at h; obtain ⟨rfl, rfl⟩ := h; simp; omega
      · split at h
        · split at h
          · cases h
          · next e r' he =>
            have := ih _ _ h
            have := parseEscape_length he
            simp at *; omega
        · have := ih _ _ h
          simp at *; omega

theorem parseDict_isDict (f : Nat) (m : List (Key × PVal)) (s : List Char) (v : PVal) (r : List Char)
    (h : parseDict f m s = some (v, r)) : ∃ kvs, v = .dict kvs := by
  induction f generalizing m s with
  | zero => simp [parseDict] at h
  | succ f ih =>
    rw [parseDict] at h
    split at h
    · simp at h; exact ⟨_, h.1.symm⟩
    · repeat' (split at h)
      all_goals first | (cases h; done) | exact ih _ _ h

theorem parseArr_isArr (f : Nat) (acc : List PVal) (s : List Char) (v : PVal) (r : List Char)
    (h : parseArr f acc s = some (v, r)) : ∃ xs, v = .arr xs := by
  induction f generalizing acc s with
  | zero => simp [parseArr] at h
  | succ f ih =>
    rw [parseArr] at h
    repeat' (split at h)
    all_goals first | (cases h; done) | (simp at h; exact ⟨_, h.1.symm⟩) | exact ih _ _ h

theorem parseAtom_str {a t : List Char} (h : parseAtom a = .str t) : t = a ∧ looksNumeric a = false := by
  unfold parseAtom at h
  unfold looksNumeric
  split at h
  · next hn =>
    split at h
    · cases h
    · next hp =>
      split at h
      · cases h
      · next hf => simp at h; subst h; simp [hn, hp, hf]
  · next hn => simp at h; subst h; simp [hn]

theorem all_takeWhile (p : Char → Bool) (l : List Char) : (l.takeWhile p).all p = true := by
  induction l with
  | nil => rfl
  | cons c l ih =>
    simp only [List.takeWhile]
    split
    · next h => simp [h]
    · rfl

theorem skipWs_length (inp : List Char) : (skipWs inp).length ≤ inp.length := by
  unfold skipWs
  exact (List.dropWhile_sublist _).length_le

theorem lex_str_inv {inp t r : List Char} (h : lex inp = some (.str t, r)) : t.length + r.length + 2 ≤ inp.length := by
  have hskip := skipWs_length inp
  unfold lex at h
  cases hs : skipWs inp with
  | nil => simp [hs] at h
  | cons c rest =>
    rw [hs] at hskip
    simp only [hs] at h
    split at h
    · simp at h
    split at h
    · simp at h
    split at h
    · cases hd : lexData rest <;> simp [hd] at h
    split at h
    · cases hq : lexQuoted rest.length [] rest with
      | none => simp [hq] at h
      | some p =>
        obtain ⟨t2, r2⟩ := p
        simp [hq] at h
        obtain ⟨rfl, rfl⟩ := h
        have := lexQuoted_length _ _ _ _ _ hq
        simp at this hskip; omega
    split at h <;> simp at h

theorem lex_atom_inv {inp a r : List Char} (h : lex inp = some (.atom a, r)) : a.all isAlnum = true ∧ a.isEmpty = false := by
  unfold lex at h
  cases hs : skipWs inp with
  | nil => simp [hs] at h
  | cons c rest =>
    simp only [hs] at h
    split at h
    · simp at h
    split at h
    · simp at h
    split at h
    · cases hd : lexData rest <;> simp [hd] at h
    split at h
    · cases hq : lexQuoted rest.length [] rest <;> simp [hq] at h
    split at h
    · next hc =>
      simp at h
      obtain ⟨rfl, _⟩ := h
      exact ⟨all_takeWhile isAlnum (c :: rest), by simp [List.takeWhile, hc]⟩
    · simp at h

/-- if the reader returns a string whose length is that of the text it consumed, the text was a bare word -/
theorem parseRec_str_bare (f : Nat) (inp t r : List Char) (h : parseRec (f + 1) inp = some (.str t, r))
    (hlen : inp.length ≤ t.length + r.length) : bareOk t = true := by
  rw [parseRec] at h
  cases hlex : lex inp with
  | none => simp [hlex] at h
  | some p =>
    obtain ⟨tok, r1⟩ := p
    simp only [hlex] at h
    cases tok with
    | eof => simp at h
    | openBrace => obtain ⟨kvs, hk⟩ := parseDict_isDict _ _ _ _ _ h; cases hk
    | openParen => obtain ⟨kvs, hk⟩ := parseArr_isArr _ _ _ _ _ h; cases hk
    | data bs => simp at h
    | str t' =>
      simp at h
      obtain ⟨rfl, rfl⟩ := h
      have := lex_str_inv hlex
      omega
    | atom a =>
      simp at h
      obtain ⟨ha, rfl⟩ := h
      obtain ⟨rfl, hnum⟩ := parseAtom_str ha
      obtain ⟨h1, h2⟩ := lex_atom_inv hlex
      unfold bareOk
      simp [h1, h2, hnum]

/-- **quotes may be left out exactly when the tokenizer reads the bare word back as the same string** -/
theorem bare_reads_back_iff (s r : List Char) (f : Nat) (hr : Stop r) :
    parseRec (f + 1) (s ++ r) = some (.str s, r) ↔ bareOk s = true := by
  constructor
  · intro h
    exact parseRec_str_bare f (s ++ r) s r h (by simp)
  · intro h
    have := lex_printStr_parse s { bare := true } [] r hr f
    simp only [printStr, h, Bool.and_self, if_true, ws, List.filter_nil, List.nil_append] at this
    exact this

end Fontc.Plist
