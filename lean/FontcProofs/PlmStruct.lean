/-
  C08 helper lemmas, part 5: structure of the emitted segment map (required entries, monotonicity).
-/
import FontcProofs.PlmAxis

namespace Fontc.PlmProofs
open Fontc Fontc.Plm Fontc.Avar

theorem mem_padded_of_mem (m : List Pt) (x : Pt) (h : x ∈ m) : x ∈ padded m := by
  unfold padded
  simp only []
  split_ifs <;> simp [h]

theorem front_mem_padded (m : List Pt) (h : rawMin m ≠ -1) : ((-1 : Rat), (-1 : Rat)) ∈ padded m := by
  unfold padded
  have : (rawMin m != -1) = true := by simpa using h
  simp only [this, if_true]
  split_ifs <;> simp

theorem back_mem_padded (m : List Pt) (h : rawMax m ≠ 1) : ((1 : Rat), (1 : Rat)) ∈ padded m := by
  unfold padded
  have : (rawMax m != 1) = true := by simpa using h
  simp only [this, if_true]
  simp

theorem strict_inj (l : List Pt) (hs : StrictFrom l) (p q : Pt) (hp : p ∈ l) (hq : q ∈ l) (e : p.1 = q.1) : p = q := by
  induction l with
  | nil => simp at hp
  | cons x t ih =>
    have hx := (List.pairwise_cons.mp hs).1
    rcases List.mem_cons.mp hp with hp1 | hp1
    · rcases List.mem_cons.mp hq with hq1 | hq1
      · rw [hp1, hq1]
      · have := hx q hq1; rw [← hp1] at this; linarith
    · rcases List.mem_cons.mp hq with hq1 | hq1
      · have := hx p hp1; rw [← hq1] at this; linarith
      · exact ih (List.pairwise_cons.mp hs).2 hp1 hq1

variable {ns : List Pt} {mn df mx dmin ddef dmax : Rat}

theorem Sorted.phi_default (h : Sorted ns mn df mx dmin ddef dmax) : phi mn df mx df = 0 := by
  obtain ⟨o1, o2, _, _⟩ := h.order
  simp only [phi]; unfold defaultNormalize
  have e1 : ¬ df < mn := not_lt.mpr o1
  have e2 : ¬ mx < df := not_lt.mpr o2
  simp [e1, e2]

/-- `-1:-1`, `0:0`, `1:1` are in the padded list, provided a non-degenerate left side is not entirely flat -/
theorem Sorted.padded_required (h : Sorted ns mn df mx dmin ddef dmax) (hleft : mn < df → dmin < ddef) :
    ((-1 : Rat), (-1 : Rat)) ∈ padded (rawOf ns mn df mx dmin ddef dmax) ∧
    ((0 : Rat), (0 : Rat)) ∈ padded (rawOf ns mn df mx dmin ddef dmax) ∧
    ((1 : Rat), (1 : Rat)) ∈ padded (rawOf ns mn df mx dmin ddef dmax) := by
  obtain ⟨o1, o2, o3, o4⟩ := h.order
  refine ⟨?_, ?_, ?_⟩
  · by_cases c : mn < df
    · apply mem_padded_of_mem
      simp only [rawOf, List.mem_map]
      refine ⟨(mn, dmin), h.head_mem, ?_⟩
      have e1 := h.phi_min
      have e2 := h.psi_vertex (mn, dmin) h.head_mem
      have e3 := desn_min dmin ddef dmax o3
      simp only [c, hleft c, if_true] at e1 e3
      simp only [] at e2
      rw [e1, e2, e3]
    · apply front_mem_padded
      rw [h.rawMin_eq]; simp only [c, if_false]; norm_num
  · apply mem_padded_of_mem
    simp only [rawOf, List.mem_map]
    refine ⟨(df, ddef), h.hdef, ?_⟩
    have e2 := h.psi_vertex (df, ddef) h.hdef
    simp only [] at e2
    rw [h.phi_default, e2, desn_default]
  · by_cases c : ddef < dmax
    · apply mem_padded_of_mem
      simp only [rawOf, List.mem_map]
      refine ⟨(mx, dmax), h.last_mem, ?_⟩
      have hdm : df < mx := by
        rcases eq_or_lt_of_le o2 with e | l
        · have := strict_inj ns h.strict (df, ddef) (mx, dmax) h.hdef h.last_mem e
          have : ddef = dmax := (Prod.mk.inj this).2
          linarith
        · exact l
      have e1 := h.phi_max
      have e2 := h.psi_vertex (mx, dmax) h.last_mem
      have e3 := desn_max dmin ddef dmax o4
      simp only [c, hdm, if_true] at e1 e3
      simp only [] at e2
      rw [e1, e2, e3]
    · apply back_mem_padded
      rw [h.rawMax_eq]; simp only [c, if_false]; norm_num

/-- chain-style monotonicity from pairwise monotonicity -/
theorem monotone_of_pairwise (l : List Pt) (h : l.Pairwise (fun p q => p.1 ≤ q.1 ∧ p.2 ≤ q.2)) :
    monotone l = true := by
  induction l with
  | nil => rfl
  | cons a t ih =>
    cases t with
    | nil => rfl
    | cons b t =>
      have h1 := (List.pairwise_cons.mp h).1 b (by simp)
      simp only [monotone, Bool.and_eq_true, decide_eq_true_eq]
      exact ⟨⟨h1.1, h1.2⟩, ih (List.pairwise_cons.mp h).2⟩

theorem Sorted.raw_pairwise (h : Sorted ns mn df mx dmin ddef dmax) :
    (rawOf ns mn df mx dmin ddef dmax).Pairwise (fun p q => p.1 < q.1 ∧ p.2 ≤ q.2) := by
  obtain ⟨o1, o2, o3, o4⟩ := h.order
  simp only [rawOf, List.pairwise_map]
  have hb := h.bounds
  have hv := h.psi_vertex
  have hpw := h.pw
  -- strengthen pairwise with membership
  have : ns.Pairwise (fun p q => (p ∈ ns ∧ q ∈ ns) ∧ (p.1 < q.1 ∧ p.2 ≤ q.2)) := by
    rw [List.pairwise_iff_forall_sublist] at hpw ⊢
    intro p q hsub
    exact ⟨⟨hsub.subset (by simp), hsub.subset (by simp)⟩, hpw hsub⟩
  refine this.imp ?_
  intro p q ⟨⟨hp, hq⟩, hlt, hle⟩
  have bp := hb p hp
  have bq := hb q hq
  refine ⟨defaultNormalize_strictMono mn df mx o1 o2 p.1 q.1 ⟨bp.1, bp.2.1⟩ ⟨bq.1, bq.2.1⟩ hlt, ?_⟩
  rw [hv p hp, hv q hq]
  exact designNormalize_mono dmin ddef dmax o3 o4 p.2 q.2 bp.2.2.1 bq.2.2.2 hle

theorem Sorted.raw_range (h : Sorted ns mn df mx dmin ddef dmax) :
    ∀ p ∈ rawOf ns mn df mx dmin ddef dmax,
      (if mn < df then (-1 : Rat) else 0) ≤ p.1 ∧ p.1 ≤ 1 ∧ -1 ≤ p.2 ∧ p.2 ≤ 1 := by
  obtain ⟨o1, o2, o3, o4⟩ := h.order
  intro p hp
  simp only [rawOf, List.mem_map] at hp
  obtain ⟨n, hn, rfl⟩ := hp
  have bn := h.bounds n hn
  have r1 := defaultNormalize_range mn df mx n.1 o1 o2 bn.1 bn.2.1
  have r2 := designNormalize_range dmin ddef dmax n.2 o3 o4 bn.2.2.1 bn.2.2.2
  simp only []
  rw [h.psi_vertex n hn]
  refine ⟨r1.1, ?_, r2.1, r2.2⟩
  have : (if df < mx then (1 : Rat) else 0) ≤ 1 := by split_ifs <;> norm_num
  exact le_trans r1.2 this

theorem Sorted.padded_pairwise (h : Sorted ns mn df mx dmin ddef dmax) :
    (padded (rawOf ns mn df mx dmin ddef dmax)).Pairwise (fun p q => p.1 ≤ q.1 ∧ p.2 ≤ q.2) := by
  have hraw : (rawOf ns mn df mx dmin ddef dmax).Pairwise (fun p q => p.1 ≤ q.1 ∧ p.2 ≤ q.2) :=
    h.raw_pairwise.imp (fun hab => ⟨le_of_lt hab.1, hab.2⟩)
  have hr := h.raw_range
  have hmin := h.rawMin_eq
  unfold padded
  simp only []
  generalize hM : (if rawMin (rawOf ns mn df mx dmin ddef dmax) != -1
        then ((-1 : Rat), (-1 : Rat)) :: rawOf ns mn df mx dmin ddef dmax else rawOf ns mn df mx dmin ddef dmax) = M
  have hfront : M.Pairwise (fun p q => p.1 ≤ q.1 ∧ p.2 ≤ q.2) ∧ ∀ p ∈ M, p.1 ≤ 1 ∧ p.2 ≤ 1 := by
    rw [← hM]
    split_ifs with c
    · constructor
      · rw [List.pairwise_cons]
        refine ⟨?_, hraw⟩
        intro p hp
        have := hr p hp
        have hlo : (-1 : Rat) ≤ (if mn < df then (-1 : Rat) else 0) := by split_ifs <;> norm_num
        exact ⟨le_trans hlo this.1, this.2.2.1⟩
      · intro p hp
        rcases List.mem_cons.mp hp with rfl | hp
        · norm_num
        · have := hr p hp; exact ⟨this.2.1, this.2.2.2⟩
    · exact ⟨hraw, fun p hp => by have := hr p hp; exact ⟨this.2.1, this.2.2.2⟩⟩
  split_ifs with c2
  · rw [List.pairwise_append]
    refine ⟨hfront.1, by simp, ?_⟩
    intro p hp q hq
    have : q = ((1 : Rat), (1 : Rat)) := by simpa using hq
    subst this
    exact hfront.2 p hp
  · exact hfront.1

end Fontc.PlmProofs
