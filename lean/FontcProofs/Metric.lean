/-
  Lemmas about the `AdvanceDeltas` model (FontcModel/Metric.lean): the model cache is transparent.
-/
import FontcModel.Metric
import FontcProofs.VarModelSort
import FontcProps.C07
import FontcProofs.Rounding

namespace Fontc.Metric
open Fontc Fontc.VarModel

/-- two location lists with the same key have the same model (`Model.new` is a function of the key) -/
theorem model_eq_of_keyOf_eq (n : Nat) (a b : List Loc) (h : keyOf n a = keyOf n b) :
    Model.new n a = Model.new n b := by
  unfold keyOf Model.new at *
  simp only at h ⊢
  rw [h]

theorem init_inv (n : Nat) (g gl : List Loc) : (State.init n g gl).Inv := by
  intro k M hmem locs hk
  simp only [State.init, List.mem_singleton, Prod.mk.injEq] at hmem
  obtain ⟨rfl, rfl⟩ := hmem
  exact model_eq_of_keyOf_eq n g locs hk.symm

theorem lookup_mem {α β} [BEq α] [LawfulBEq α] (l : List (α × β)) (k : α) (v : β) (h : l.lookup k = some v) :
    (k, v) ∈ l := by
  induction l with
  | nil => simp at h
  | cons p ps ih =>
    obtain ⟨a, b⟩ := p
    simp only [List.lookup_cons] at h
    split at h
    · rename_i heq
      have : k = a := by simpa using heq
      simp only [Option.some.injEq] at h
      subst this; subst h; simp
    · exact List.mem_cons_of_mem _ (ih h)

/-- the model handed out for a location list is that list's own model, whatever the cache holds -/
theorem lookupOrInsert_model (n : Nat) (models : List (List Loc × Model))
    (hinv : ∀ k M, (k, M) ∈ models → ∀ locs, keyOf n locs = k → M = Model.new n locs) (locs : List Loc) :
    (lookupOrInsert n models locs).2 = Model.new n locs := by
  unfold lookupOrInsert
  simp only
  split
  · rename_i M hM
    exact hinv _ M (lookup_mem _ _ _ hM) locs rfl
  · rfl

/-- … and the cache keeps its invariant -/
theorem lookupOrInsert_inv (n : Nat) (models : List (List Loc × Model))
    (hinv : ∀ k M, (k, M) ∈ models → ∀ locs, keyOf n locs = k → M = Model.new n locs) (locs : List Loc) :
    ∀ k M, (k, M) ∈ (lookupOrInsert n models locs).1 → ∀ l, keyOf n l = k → M = Model.new n l := by
  unfold lookupOrInsert
  simp only
  split
  · exact hinv
  · intro k M hmem l hk
    simp only [List.mem_append, List.mem_singleton, Prod.mk.injEq] at hmem
    rcases hmem with h | ⟨rfl, rfl⟩
    · exact hinv k M h l hk
    · exact model_eq_of_keyOf_eq n locs l hk.symm

theorem add_n (s : State) (g : GlyphSrc) : (s.add g).n = s.n := by
  unfold State.add; split <;> rfl

theorem add_glyphLocs (s : State) (g : GlyphSrc) : (s.add g).glyphLocs = s.glyphLocs := by
  unfold State.add; split <;> rfl

theorem add_inv (s : State) (g : GlyphSrc) (h : s.Inv) : (s.add g).Inv := by
  unfold State.Inv
  rw [add_n]
  unfold State.add
  split
  · exact h
  · exact lookupOrInsert_inv s.n s.models h _

/-- what `add` pushes, stated without the cache: the glyph's own model on the glyph's own values -/
def specEntry (n : Nat) (ms : List (Loc × Rat)) : Entry :=
  let M := Model.new n (ms.map (·.1))
  ⟨M, M.deltas Rounding.tiesEven.apply (valuesAt n M ms)⟩

theorem add_deltas (s : State) (g : GlyphSrc) (h : s.Inv) :
    (s.add g).deltas = s.deltas ++ [(effectiveMasters s g).map (specEntry s.n)] := by
  unfold State.add
  split
  · rename_i he; simp [he]
  · rename_i ms he
    simp only [he, Option.map_some, specEntry]
    rw [lookupOrInsert_model s.n s.models h]

/-- the per-glyph specification of the whole walk: entry `i` depends on the glyph, on whether it is the first glyph,
    and on the font's glyph locations — on nothing else -/
def specOf (n : Nat) (glyphLocs : List Loc) (first : Bool) (g : GlyphSrc) : Option Entry :=
  (effectiveMasters { n, models := [], deltas := if first then [] else [none], glyphLocs } g).map (specEntry n)

theorem effectiveMasters_congr (s : State) (g : GlyphSrc) :
    effectiveMasters s g =
      effectiveMasters { n := s.n, models := [], deltas := if s.deltas.length == 0 then [] else [none], glyphLocs := s.glyphLocs } g := by
  unfold effectiveMasters
  by_cases h0 : s.deltas.length = 0 <;> simp [h0]

/-- **the walk over the glyph order**: the entries pushed are `specOf` of each glyph -/
theorem addAll_deltas (s : State) (gs : List GlyphSrc) (h : s.Inv) :
    (s.addAll gs).deltas =
      s.deltas ++ gs.zipIdx.map fun (g, i) => specOf s.n s.glyphLocs (s.deltas.length + i == 0) g := by
  induction gs generalizing s with
  | nil => simp [State.addAll]
  | cons g gs ih =>
    have hadd := add_deltas s g h
    have hinv := add_inv s g h
    simp only [State.addAll, List.foldl_cons] at *
    rw [ih (s.add g) hinv, add_n, add_glyphLocs, hadd]
    simp only [List.append_assoc, List.singleton_append, List.length_append, List.length_singleton,
      List.zipIdx_cons, List.map_cons, Nat.add_zero, Nat.zero_add]
    congr 1
    congr 1
    · rw [effectiveMasters_congr]
      unfold specOf
      by_cases h0 : s.deltas.length = 0 <;> simp [h0]
    · rw [List.zipIdx_succ]
      simp only [List.map_map]
      apply List.map_congr_left
      intro p _
      simp only [Function.comp, Nat.add_assoc]
      congr 2
      omega


/-! ### every glyph's own masters are reproduced -/

theorem fit_of_length (n : Nat) (l : Loc) (h : l.length = n) : fit n l = l := by
  unfold fit
  rw [List.take_append_of_le_length (by omega)]
  exact List.take_of_length_le (by omega)

/-- looking a master up by its location finds that master, when locations are pairwise distinct -/
theorem find_master (n : Nat) (ms : List (Loc × Rat)) (hlen : ∀ p ∈ ms, p.1.length = n)
    (hnd : (ms.map (·.1)).Pairwise (· ≠ ·)) (loc : Loc) (a : Rat) (hmem : (loc, a) ∈ ms) :
    ms.find? (fun p => fit n p.1 == loc) = some (loc, a) := by
  induction ms with
  | nil => simp at hmem
  | cons p ps ih =>
    simp only [List.map_cons, List.pairwise_cons] at hnd
    rcases List.mem_cons.1 hmem with h | h
    · subst h
      have hf : fit n loc = loc := fit_of_length n loc (hlen (loc, a) (by simp))
      simp only [List.find?_cons, hf, beq_self_eq_true]
    · have hne : p.1 ≠ loc := hnd.1 loc (List.mem_map.2 ⟨(loc, a), h, rfl⟩)
      have hfit : fit n p.1 = p.1 := fit_of_length n p.1 (hlen p (by simp))
      simp only [List.find?_cons, hfit]
      have : (p.1 == loc) = false := by simpa using hne
      rw [this]
      exact ih (fun q hq => hlen q (List.mem_cons_of_mem _ hq)) hnd.2 h

/-- **One glyph.** With the glyph's own model on the glyph's own (rounded) advances, the value at each of the
    glyph's masters is within 1/2 of that master's rounded advance. -/
theorem specEntry_master_reproduced (n : Nat) (ms : List (Loc × Rat)) (hlen : ∀ p ∈ ms, p.1.length = n)
    (hnd : (ms.map (·.1)).Pairwise (· ≠ ·)) (loc : Loc) (a : Rat) (hmem : (loc, a) ∈ ms) :
    ratAbs ((specEntry n ms).valueAt loc - (otRound a : Rat)) ≤ 1/2 := by
  have hlen' : ∀ l ∈ ms.map (·.1), l.length = n := by
    intro l hl; obtain ⟨p, hp, rfl⟩ := List.mem_map.1 hl; exact hlen p hp
  have hnodup : (ms.map (·.1)).Nodup := hnd
  obtain ⟨M, hM⟩ : ∃ M, M = Model.new n (ms.map (·.1)) := ⟨_, rfl⟩
  have hlocs : M.locations = sortLocs (ms.map (·.1)) := by rw [hM]; exact Model.new_locations n _ hlen' hnodup
  have hin : loc ∈ M.locations := by
    rw [hlocs, mem_sortLocs]; exact List.mem_map.2 ⟨(loc, a), hmem, rfl⟩
  obtain ⟨m, hm⟩ := List.getElem?_of_mem hin
  let src : List (Option Rat) := M.locations.map fun l => (ms.find? fun p => fit n p.1 == l).map (·.2)
  have hsrc : src.length = M.locations.length := by simp [src]
  have hval : valuesAt n M ms = src.map (Option.map fun x => (otRound x : Rat)) := by
    simp only [valuesAt, src, List.map_map]
    apply List.map_congr_left
    intro l _
    simp only [Function.comp]
    cases h : (ms.find? fun p => fit n p.1 == l) <;> simp
  have ha : src[m]? = some (some a) := by
    simp only [src, List.getElem?_map, hm, Option.map_some]
    rw [find_master n ms hlen hnd loc a hmem]
    rfl
  have := C07.deltas_reproduce_rounding n (ms.map (·.1)) hlen' hnd M hM .tiesEven
    (src.map (Option.map fun x => (otRound x : Rat))) (by simpa using hsrc) m loc (otRound a : Rat) hm (by simp [ha])
  simp only [specEntry, Entry.valueAt, ← hM, hval]
  exact this

end Fontc.Metric
