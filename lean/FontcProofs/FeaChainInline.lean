/-
  C11, contextual lookups, part 5: every inline single / multiple substitution rule of a contextual
  lookup finds its own replacement in the anonymous lookup it references, once all rules are in
  (under the conditions `ChainOk` of the modelled subset).
-/
import FontcProofs.FeaChainAnon

namespace Fontc.FeaCompile
open Cmp
set_option linter.unusedSimpArgs false

/-- pairs of an inline single substitution rule, and whether it is of the class → glyph form -/
def inlineSinglePairs : Rule → Option (Bool × List (Glyph × Glyph))
  | .chain _ ((t, _) :: _) _ (.single by_) =>
    some ((normSingle t by_).1.isClass && !(normSingle t by_).2.isClass,
          singlePairs (normSingle t by_).1 (normSingle t by_).2)
  | _ => none

/-- rule shapes for which the inline replacement is modelled: single with one marked glyph, multiple
    with one marked glyph (not a class), no inline ligature, no explicit lookup references -/
def inlineShapeOk : Rule → Prop
  | .chain _ input _ (.single by_) => ∃ t, input = [(t, [])] ∧
      ∀ g ∈ t.glyphs, ∃ b, (g, b) ∈ singlePairs (normSingle t by_).1 (normSingle t by_).2
  | .chain _ input _ (.multi _) => ∃ a, input = [(.g a, [])]
  | .chain _ _ _ (.lig _) => False
  | .chain _ input _ .none => input ≠ [] ∧ ∀ x ∈ input, x.2 = []
  | .ignore alts => ∀ x ∈ alts, x.2.1 ≠ []
  | _ => False

/-- class → glyph inline substitutions agree with all earlier inline substitutions of the lookup;
    pairs of one rule are consistent -/
def SingleOk : List Rule → List (Glyph × Glyph) → Prop
  | [], _ => True
  | r :: rs, earlier =>
    match inlineSinglePairs r with
    | some (c2g, pairs) =>
      PairsFunctional pairs ∧ (c2g = true → ∀ p ∈ pairs, ∀ q ∈ earlier, p.1 = q.1 → p.2 = q.2) ∧
      SingleOk rs (earlier ++ pairs)
    | none => SingleOk rs earlier

theorem SingleOk.weaken : ∀ (rs : List Rule) (e1 e2 : List (Glyph × Glyph)), (∀ q ∈ e1, q ∈ e2) → SingleOk rs e2 → SingleOk rs e1 := by
  intro rs
  induction rs with
  | nil => intro _ _ _ _; trivial
  | cons r rs ih =>
    intro e1 e2 hsub h
    simp only [SingleOk] at h ⊢
    cases hq : inlineSinglePairs r with
    | none => rw [hq] at h; exact ih e1 e2 hsub h
    | some x =>
      obtain ⟨c2g, pairs⟩ := x
      rw [hq] at h
      simp only at h ⊢
      refine ⟨h.1, fun hc p hp q hq' e => h.2.1 hc p hp q (hsub q hq') e, ih _ _ ?_ h.2.2⟩
      intro q hq'
      rcases List.mem_append.mp hq' with h' | h'
      · exact List.mem_append_left _ (hsub q h')
      · exact List.mem_append_right _ h'

/-- the check of `add_anon_gsub_type_1` is complete unless the rule is class → glyph (without the repair) -/
theorem checked_complete (fx : Fixes) (t r : GC) (h : (t.isClass && !r.isClass) = false) :
    ∀ p ∈ singlePairs t r, p ∈ checkedPairs fx t r := by
  intro p hp
  simp only [checkedPairs]
  split
  · exact hp
  · cases t <;> cases r <;> simp_all [singlePairs, GC.glyphs, GC.isClass]

/-- a step of another rule type leaves single-substitution lookups alone -/
theorem addAnon_keeps_single (usable : Anon → Bool) (fresh : Anon) (upd : Anon → Anon) (an : List Anon)
    (hupd : ∀ m, upd (.single m) = .single m) (j : Nat) (pairs : List (Glyph × Glyph))
    (h : SingleHolds an j pairs) : SingleHolds (addAnon usable fresh upd an).1 j pairs := by
  obtain ⟨m, hm, hall⟩ := h
  obtain ⟨h1, h2⟩ := addAnon_get usable fresh upd an j _ hm
  by_cases hj : j = (addAnon usable fresh upd an).2
  · exact ⟨m, by rw [h1 hj, hupd], hall⟩
  · exact ⟨m, h2 hj, hall⟩

theorem addAnon_keeps_multi (usable : Anon → Bool) (fresh : Anon) (upd : Anon → Anon) (an : List Anon)
    (hupd : ∀ m, upd (.multiple m) = .multiple m) (j : Nat) (t : Glyph) (rs : List Glyph)
    (h : MultiHolds an j t rs) : MultiHolds (addAnon usable fresh upd an).1 j t rs := by
  obtain ⟨m, hm, hall⟩ := h
  obtain ⟨h1, h2⟩ := addAnon_get usable fresh upd an j _ hm
  by_cases hj : j = (addAnon usable fresh upd an).2
  · exact ⟨m, by rw [h1 hj, hupd], hall⟩
  · exact ⟨m, h2 hj, hall⟩

/-- the multiple-substitution adder: own entry found, earlier entries kept -/
theorem anonAddMultiple_holds (an : List Anon) (t : Glyph) (rs : List Glyph) :
    MultiHolds (anonAddMultiple an t rs).1 (anonAddMultiple an t rs).2 t rs := by
  rw [anonAddMultiple_eq']
  obtain ⟨a0, ha0, hget⟩ := addAnon_self (multiUsable t rs) (.multiple []) (multiUpd t rs) an
  rcases ha0 with rfl | ⟨_, hu⟩
  · exact ⟨_, hget, by simp [lookup_mapInsert]⟩
  · cases a0 with
    | multiple m => exact ⟨_, hget, by simp [lookup_mapInsert]⟩
    | single m => simp [multiUsable] at hu
    | ligature m => simp [multiUsable] at hu

theorem anonAddMultiple_preserves (an : List Anon) (t : Glyph) (rs : List Glyph) (j : Nat) (t' : Glyph) (rs' : List Glyph)
    (h : MultiHolds an j t' rs') : MultiHolds (anonAddMultiple an t rs).1 j t' rs' := by
  rw [anonAddMultiple_eq']
  obtain ⟨m, hm, hl⟩ := h
  obtain ⟨h1, h2⟩ := addAnon_get (multiUsable t rs) (.multiple []) (multiUpd t rs) an j _ hm
  by_cases hj : j = (addAnon (multiUsable t rs) (.multiple []) (multiUpd t rs) an).2
  · refine ⟨_, h1 hj, ?_⟩
    rw [lookup_mapInsert]
    by_cases ht : t' = t
    · subst ht
      -- the lookup was usable: the existing replacement equals the new one
      rcases addAnon_chosen (multiUsable t' rs) (.multiple []) (multiUpd t' rs) an with ⟨a, ha, hu⟩ | ⟨hlen, _⟩
      · rw [← hj, hm] at ha
        cases ha
        simp only [multiUsable, hl, beq_iff_eq] at hu
        simp [hu]
      · rw [hlen] at hj
        exact absurd (List.getElem?_eq_some_iff.mp hm).1 (by omega)
    · simp [ht, hl]
  · exact ⟨m, h2 hj, hl⟩

/-! ### through the remaining rules -/

theorem anonStep_single (fx : Fixes) (an : List Anon) (b l : List GC) (t by_ : GC) :
    anonStep fx an (.chain b [(t, [])] l (.single by_))
      = (anonAddSingle fx an (normSingle t by_).1 (normSingle t by_).2).1 := by
  simp [anonStep, anonInline]

theorem anonStep_multi (fx : Fixes) (an : List Anon) (b l : List GC) (a : Glyph) (rs : List Glyph) :
    anonStep fx an (.chain b [(.g a, [])] l (.multi rs)) = (anonAddMultiple an a rs).1 := by
  simp [anonStep, anonInline, GC.glyphs]

theorem singleHolds_through (fx : Fixes) (rs : List Rule) (hshape : ∀ r ∈ rs, inlineShapeOk r) :
    ∀ (A : List Anon) (earlier : List (Glyph × Glyph)) (j : Nat) (pairs' : List (Glyph × Glyph)),
    SingleHolds A j pairs' → (∀ q ∈ pairs', q ∈ earlier) → SingleOk rs earlier →
    SingleHolds (anonOf fx A rs) j pairs' := by
  induction rs with
  | nil => intro A _ j pairs' h _ _; exact h
  | cons r rs ih =>
    intro A earlier j pairs' h hsub hok
    have hs := hshape r (by simp)
    have hrest : ∀ r' ∈ rs, inlineShapeOk r' := fun r' h' => hshape r' (by simp [h'])
    simp only [anonOf]
    cases r with
    | chain b input l inl =>
      cases inl with
      | none =>
        have : anonStep fx A (.chain b input l .none) = A := by simp [anonStep, anonInline]
        rw [this]
        have hok' : SingleOk rs earlier := by
          simp only [SingleOk] at hok
          have : inlineSinglePairs (.chain b input l .none) = none := by
            cases input with
            | nil => rfl
            | cons x xs => obtain ⟨t, _⟩ := x; rfl
          rw [this] at hok; exact hok
        exact ih hrest A earlier j pairs' h hsub hok'
      | single by_ =>
        obtain ⟨t, rfl, _⟩ := hs
        rw [anonStep_single]
        simp only [SingleOk, inlineSinglePairs] at hok
        obtain ⟨hf, hc2g, hok'⟩ := hok
        apply ih hrest _ (earlier ++ singlePairs (normSingle t by_).1 (normSingle t by_).2) j pairs' _
          (fun q hq => List.mem_append_left _ (hsub q hq)) hok'
        apply anonAddSingle_preserves fx A _ _ j pairs' hf h
        intro p hp q hq hpq
        by_cases hc : ((normSingle t by_).1.isClass && !(normSingle t by_).2.isClass) = true
        · exact Or.inr (hc2g hc p hp q (hsub q hq) hpq)
        · exact Or.inl (checked_complete fx _ _ (by simpa using hc) p hp)
      | lig r => exact absurd hs (by simp [inlineShapeOk])
      | multi rs' =>
        obtain ⟨a, rfl⟩ := hs
        rw [anonStep_multi, anonAddMultiple_eq']
        have hok' : SingleOk rs earlier := by
          simp only [SingleOk, inlineSinglePairs] at hok; exact hok
        apply ih hrest _ earlier j pairs' _ hsub hok'
        exact addAnon_keeps_single _ _ _ A (by intro m; rfl) j pairs' h
    | ignore alts =>
      have : anonStep fx A (.ignore alts) = A := rfl
      rw [this]
      have hok' : SingleOk rs earlier := by simp only [SingleOk, inlineSinglePairs] at hok; exact hok
      exact ih hrest A earlier j pairs' h hsub hok'
    | _ => exact absurd hs (by simp [inlineShapeOk])

theorem multiHolds_through (fx : Fixes) (rs : List Rule) (hshape : ∀ r ∈ rs, inlineShapeOk r) :
    ∀ (A : List Anon) (j : Nat) (a : Glyph) (rs' : List Glyph),
    MultiHolds A j a rs' → MultiHolds (anonOf fx A rs) j a rs' := by
  induction rs with
  | nil => intro A j a rs' h; exact h
  | cons r rs ih =>
    intro A j a rs' h
    have hs := hshape r (by simp)
    have hrest : ∀ r' ∈ rs, inlineShapeOk r' := fun r' h' => hshape r' (by simp [h'])
    simp only [anonOf]
    cases r with
    | chain b input l inl =>
      cases inl with
      | none =>
        have : anonStep fx A (.chain b input l .none) = A := by simp [anonStep, anonInline]
        rw [this]; exact ih hrest A j a rs' h
      | single by_ =>
        obtain ⟨t, rfl, _⟩ := hs
        rw [anonStep_single, anonAddSingle_eq']
        exact ih hrest _ j a rs' (addAnon_keeps_multi _ _ _ A (by intro m; rfl) j a rs' h)
      | lig r => exact absurd hs (by simp [inlineShapeOk])
      | multi rs2 =>
        obtain ⟨a2, rfl⟩ := hs
        rw [anonStep_multi]
        exact ih hrest _ j a rs' (anonAddMultiple_preserves A a2 rs2 j a rs' h)
    | ignore alts => exact ih hrest A j a rs' h
    | _ => exact absurd hs (by simp [inlineShapeOk])

/-- an inline rule finds its replacement in anonymous lookup `idx` of the list `A` -/
def InlineHolds (A : List Anon) (input : List (GC × List String)) (inl : Inline) (idx : Option Nat) : Prop :=
  match inl, input, idx with
  | .single by_, (t, _) :: _, some j => SingleHolds A j (singlePairs (normSingle t by_).1 (normSingle t by_).2)
  | .multi rs, (.g a, _) :: _, some j => MultiHolds A j a rs
  | .none, _, none => True
  | _, _, _ => False

/-- every rule of the list, processed from the anonymous lookups `an`, finds its replacement in `A` -/
def AllHold (fx : Fixes) (A : List Anon) : List Anon → List Rule → Prop
  | _, [] => True
  | an, r :: rs =>
    (match r with
     | .chain _ input _ inl => InlineHolds A input inl (anonInline fx an input inl).2
     | _ => True) ∧ AllHold fx A (anonStep fx an r) rs

/-- **All inline rules hold at the end.** -/
theorem allHold_final (fx : Fixes) (rs : List Rule) (hshape : ∀ r ∈ rs, inlineShapeOk r) :
    ∀ (an : List Anon) (earlier : List (Glyph × Glyph)), SingleOk rs earlier →
    AllHold fx (anonOf fx an rs) an rs := by
  induction rs with
  | nil => intro _ _ _; trivial
  | cons r rs ih =>
    intro an earlier hok
    have hs := hshape r (by simp)
    have hrest : ∀ r' ∈ rs, inlineShapeOk r' := fun r' h' => hshape r' (by simp [h'])
    simp only [AllHold, anonOf]
    cases r with
    | chain b input l inl =>
      cases inl with
      | none =>
        have hstep : anonStep fx an (.chain b input l .none) = an := by simp [anonStep, anonInline]
        have hok' : SingleOk rs earlier := by
          simp only [SingleOk] at hok
          have : inlineSinglePairs (.chain b input l .none) = none := by
            cases input with
            | nil => rfl
            | cons x xs => obtain ⟨t, _⟩ := x; rfl
          rw [this] at hok; exact hok
        refine ⟨?_, by rw [hstep]; exact ih hrest an earlier hok'⟩
        simp [InlineHolds, anonInline]
      | single by_ =>
        obtain ⟨t, rfl, _⟩ := hs
        simp only [SingleOk, inlineSinglePairs] at hok
        obtain ⟨hf, _, hok'⟩ := hok
        rw [anonStep_single]
        refine ⟨?_, ih hrest _ _ hok'⟩
        have hidx : (anonInline fx an [(t, [])] (.single by_)).2
            = some (anonAddSingle fx an (normSingle t by_).1 (normSingle t by_).2).2 := by
          simp [anonInline]
        show InlineHolds _ [(t, [])] (.single by_) (anonInline fx an [(t, [])] (.single by_)).2
        rw [hidx]
        simp only [InlineHolds]
        exact singleHolds_through fx rs hrest _ _ _ _ (anonAddSingle_holds fx an _ _ hf)
          (fun q hq => List.mem_append_right _ hq) hok'
      | lig r => exact absurd hs (by simp [inlineShapeOk])
      | multi rs' =>
        obtain ⟨a, rfl⟩ := hs
        have hok' : SingleOk rs earlier := by simp only [SingleOk, inlineSinglePairs] at hok; exact hok
        rw [anonStep_multi]
        refine ⟨?_, ih hrest _ earlier hok'⟩
        have hidx : (anonInline fx an [(.g a, [])] (.multi rs')).2 = some (anonAddMultiple an a rs').2 := by
          simp [anonInline, GC.glyphs]
        show InlineHolds _ [(.g a, [])] (.multi rs') (anonInline fx an [(.g a, [])] (.multi rs')).2
        rw [hidx]
        simp only [InlineHolds]
        exact multiHolds_through fx rs hrest _ _ _ _ (anonAddMultiple_holds an a rs')
    | ignore alts =>
      have hok' : SingleOk rs earlier := by simp only [SingleOk, inlineSinglePairs] at hok; exact hok
      exact ⟨trivial, ih hrest an earlier hok'⟩
    | _ => exact absurd hs (by simp [inlineShapeOk])

end Fontc.FeaCompile
