/-
  C11, contextual lookups, part 5: every inline single / multiple substitution rule of a contextual
  lookup finds its own replacement in the anonymous lookup it references, once all rules are in
  (under the conditions `ChainOk` of the modelled subset).
-/
import FontcProofs.FeaChainAnon

namespace Fontc.FeaCompile
open Cmp
set_option linter.unusedSimpArgs false

/-- pairs of an inline single substitution rule, and whether it is of the class → glyph form -/
def inlineSinglePairs : Rule → Option (Bool × List (Glyph × Glyph))
  | .chain _ ((t, _) :: _) _ (.single by_) =>
    some ((normSingle t by_).1.isClass && !(normSingle t by_).2.isClass,
          singlePairs (normSingle t by_).1 (normSingle t by_).2)
  | _ => none

/-- rule shapes for which the inline replacement is modelled: single with one marked glyph, multiple
    with one marked glyph (not a class), no inline ligature, no explicit lookup references -/
def inlineShapeOk : Rule → Prop
  | .chain _ input _ (.single _) => ∃ t, input = [(t, [])]
  | .chain _ input _ (.multi _) => ∃ a, input = [(.g a, [])]
  | .chain _ _ _ (.lig _) => False
  | .chain _ input _ .none => input ≠ [] ∧ ∀ x ∈ input, x.2 = []
  | .ignore alts => ∀ x ∈ alts, x.2.1 ≠ []
  | _ => False

/-- class → glyph inline substitutions agree with all earlier inline substitutions of the lookup;
    pairs of one rule are consistent -/
def SingleOk : List Rule → List (Glyph × Glyph) → Prop
  | [], _ => True
  | r :: rs, earlier =>
    match inlineSinglePairs r with
    | some (c2g, pairs) =>
      PairsFunctional pairs ∧ (c2g = true → ∀ p ∈ pairs, ∀ q ∈ earlier, p.1 = q.1 → p.2 = q.2) ∧
      SingleOk rs (earlier ++ pairs)
    | none => SingleOk rs earlier

theorem SingleOk.weaken : ∀ (rs : List Rule) (e1 e2 : List (Glyph × Glyph)), (∀ q ∈ e1, q ∈ e2) → SingleOk rs e2 → SingleOk rs e1 := by
  intro rs
  induction rs with
  | nil => intro _ _ _ _; trivial
  | cons r rs ih =>
    intro e1 e2 hsub h
    simp only [SingleOk] at h ⊢
    cases hq : inlineSinglePairs r with
    | none => rw [hq] at h; exact ih e1 e2 hsub h
    | some x =>
      obtain ⟨c2g, pairs⟩ := x
      rw [hq] at h
      simp only at h ⊢
      refine ⟨h.1, fun hc p hp q hq' e => h.2.1 hc p hp q (hsub q hq') e, ih _ _ ?_ h.2.2⟩
      intro q hq'
      rcases List.mem_append.mp hq' with h' | h'
      · exact List.mem_append_left _ (hsub q h')
      · exact List.mem_append_right _ h'

/-- the check of `add_anon_gsub_type_1` is complete unless the rule is class → glyph (without the repair) -/
theorem checked_complete (fx : Fixes) (t r : GC) (h : (t.isClass && !r.isClass) = false) :
    ∀ p ∈ singlePairs t r, p ∈ checkedPairs fx t r := by
  intro p hp
  simp only [checkedPairs]
  split
  · exact hp
  · cases t <;> cases r <;> simp_all [singlePairs, GC.glyphs, GC.isClass]

/-- a step of another rule type leaves single-substitution lookups alone -/
theorem addAnon_keeps_single (usable : Anon → Bool) (fresh : Anon) (upd : Anon → Anon) (an : List Anon)
    (hupd : ∀ m, upd (.single m) = .single m) (j : Nat) (pairs : List (Glyph × Glyph))
    (h : SingleHolds an j pairs) : SingleHolds (addAnon usable fresh upd an).1 j pairs := by
  obtain ⟨m, hm, hall⟩ := h
  obtain ⟨h1, h2⟩ := addAnon_get usable fresh upd an j _ hm
  by_cases hj : j = (addAnon usable fresh upd an).2
  · exact ⟨m, by rw [h1 hj, hupd], hall⟩
  · exact ⟨m, h2 hj, hall⟩

theorem addAnon_keeps_multi (usable : Anon → Bool) (fresh : Anon) (upd : Anon → Anon) (an : List Anon)
    (hupd : ∀ m, upd (.multiple m) = .multiple m) (j : Nat) (t : Glyph) (rs : List Glyph)
    (h : MultiHolds an j t rs) : MultiHolds (addAnon usable fresh upd an).1 j t rs := by
  obtain ⟨m, hm, hall⟩ := h
  obtain ⟨h1, h2⟩ := addAnon_get usable fresh upd an j _ hm
  by_cases hj : j = (addAnon usable fresh upd an).2
  · exact ⟨m, by rw [h1 hj, hupd], hall⟩
  · exact ⟨m, h2 hj, hall⟩

/-- the multiple-substitution adder: own entry found, earlier entries kept -/
theorem anonAddMultiple_holds (an : List Anon) (t : Glyph) (rs : List Glyph) :
    MultiHolds (anonAddMultiple an t rs).1 (anonAddMultiple an t rs).2 t rs := by
  rw [anonAddMultiple_eq']
  obtain ⟨a0, ha0, hget⟩ := addAnon_self (multiUsable t rs) (.multiple []) (multiUpd t rs) an
  rcases ha0 with rfl | ⟨_, hu⟩
  · exact ⟨_, hget, by simp [lookup_mapInsert]⟩
  · cases a0 with
    | multiple m => exact ⟨_, hget, by simp [lookup_mapInsert]⟩
    | single m => simp [multiUsable] at hu
    | ligature m => simp [multiUsable] at hu

theorem anonAddMultiple_preserves (an : List Anon) (t : Glyph) (rs : List Glyph) (j : Nat) (t' : Glyph) (rs' : List Glyph)
    (h : MultiHolds an j t' rs') : MultiHolds (anonAddMultiple an t rs).1 j t' rs' := by
  rw [anonAddMultiple_eq']
  obtain ⟨m, hm, hl⟩ := h
  obtain ⟨h1, h2⟩ := addAnon_get (multiUsable t rs) (.multiple []) (multiUpd t rs) an j _ hm
  by_cases hj : j = (addAnon (multiUsable t rs) (.multiple []) (multiUpd t rs) an).2
  · refine ⟨_, h1 hj, ?_⟩
    rw [lookup_mapInsert]
    by_cases ht : t' = t
    · subst ht
      -- the lookup was usable: the existing replacement equals the new one
      rcases addAnon_chosen (multiUsable t' rs) (.multiple []) (multiUpd t' rs) an with ⟨a, ha, hu⟩ | ⟨hlen, _⟩
      · rw [← hj, hm] at ha
        cases ha
        simp only [multiUsable, hl, beq_iff_eq] at hu
        simp [hu]
      · rw [hlen] at hj
        exact absurd (List.getElem?_eq_some_iff.mp hm).1 (by omega)
    · simp [ht, hl]
  · exact ⟨m, h2 hj, hl⟩

end Fontc.FeaCompile
