/-
  Helper lemmas for C13: from "`EndOK` position" to "valid position of a Lean `String`".

  A Lean `String` is by definition a byte array that is the UTF-8 encoding of a list of characters, and
  `String.Pos.Raw.IsValid s p` says that the first `p` bytes are themselves valid UTF-8 (equivalently,
  core's `isValid_iff_isUTF8FirstByte`: `p` is the end, or the byte at `p` can start a character).
  The only fact about UTF-8 the lexer needs: an ASCII byte is always followed by the first byte of a
  character (`string_asciiFollow`).
-/
import FontcProofs.FeaLexRun
namespace Fontc.FeaLex

set_option linter.unusedVariables false

/-- the property of valid UTF-8 the lexer relies on: an ASCII byte is always followed by the first byte of a character -/
def AsciiFollowL (l : List UInt8) : Prop :=
  ∀ p a b, l[p]? = some a → l[p + 1]? = some b → a < 0x80 → b.IsUTF8FirstByte

def HeadFirst (l : List UInt8) : Prop := ∀ b, l.head? = some b → b.IsUTF8FirstByte

set_option maxRecDepth 100000 in
theorem lead_not_ascii : ∀ b : UInt8, ¬ ((b &&& 0x1f ||| 0xc0) < 0x80) ∧ ¬ ((b &&& 0x0f ||| 0xe0) < 0x80) ∧
    ¬ ((b &&& 0x07 ||| 0xf0) < 0x80) ∧ ¬ ((b &&& 0x3f ||| 0x80) < 0x80) := by
  apply forall_uint8
  decide

theorem enc_shape (c : Char) : (String.utf8EncodeChar c).length = 1 ∨ ∀ b ∈ String.utf8EncodeChar c, ¬ b < 0x80 := by
  rcases c.utf8Size_eq with h | h | h | h
  · left; simp [h]
  · right; rw [String.utf8EncodeChar_eq_cons_cons h]
    intro b hb
    simp only [List.mem_cons, List.not_mem_nil, or_false] at hb
    rcases hb with hb | hb <;> rw [hb]
    · exact (lead_not_ascii _).1
    · exact (lead_not_ascii _).2.2.2
  · right; rw [String.utf8EncodeChar_eq_cons_cons_cons h]
    intro b hb
    simp only [List.mem_cons, List.not_mem_nil, or_false] at hb
    rcases hb with hb | hb | hb <;> rw [hb]
    · exact (lead_not_ascii _).2.1
    · exact (lead_not_ascii _).2.2.2
    · exact (lead_not_ascii _).2.2.2
  · right; rw [String.utf8EncodeChar_eq_cons_cons_cons_cons h]
    intro b hb
    simp only [List.mem_cons, List.not_mem_nil, or_false] at hb
    rcases hb with hb | hb | hb | hb <;> rw [hb]
    · exact (lead_not_ascii _).2.2.1
    · exact (lead_not_ascii _).2.2.2
    · exact (lead_not_ascii _).2.2.2
    · exact (lead_not_ascii _).2.2.2

theorem af_append (E L : List UInt8) (hE : E.length = 1 ∨ ∀ b ∈ E, ¬ b < 0x80) (hne : E ≠ [])
    (hL : AsciiFollowL L) (hH : HeadFirst L) : AsciiFollowL (E ++ L) := by
  intro p a b ha hb hlt
  by_cases h1 : p + 1 < E.length
  · -- both inside E
    rcases hE with hE | hE
    · omega
    · have : a ∈ E := by
        rw [List.getElem?_append_left (by omega)] at ha
        exact List.mem_of_getElem? ha
      exact absurd hlt (hE a this)
  · by_cases h2 : p + 1 = E.length
    · rw [List.getElem?_append_right (by omega)] at hb
      have : p + 1 - E.length = 0 := by omega
      rw [this] at hb
      apply hH
      rw [List.head?_eq_getElem?]
      exact hb
    · rw [List.getElem?_append_right (by omega)] at ha hb
      have : p + 1 - E.length = (p - E.length) + 1 := by omega
      rw [this] at hb
      exact hL _ a b ha hb hlt

theorem chars_ok (m : List Char) : AsciiFollowL (m.flatMap String.utf8EncodeChar) ∧ HeadFirst (m.flatMap String.utf8EncodeChar) := by
  induction m with
  | nil => constructor <;> intro <;> simp
  | cons c m ih =>
    have hne : String.utf8EncodeChar c ≠ [] := by
      intro h
      have h1 := String.length_utf8EncodeChar c
      rw [h] at h1
      have h2 := c.utf8Size_pos
      simp at h1
      omega
    constructor
    · rw [List.flatMap_cons]
      exact af_append _ _ (enc_shape c) hne ih.1 ih.2
    · intro b hb
      have h0 : 0 < (String.utf8EncodeChar c).length := List.length_pos_iff.2 hne
      rw [List.flatMap_cons, List.head?_eq_getElem?, List.getElem?_append_left h0,
        List.getElem?_eq_getElem h0] at hb
      have := @UInt8.isUTF8FirstByte_getElem_zero_utf8EncodeChar c
      simp only [Option.some.injEq] at hb
      rw [← hb]
      exact this
/-- the array form used by the lexer model -/
def AsciiFollow (inp : Bytes) : Prop :=
  ∀ p, p + 1 < inp.size → nth inp p 0 < 0x80 → (nth inp (p + 1) 0).IsUTF8FirstByte

theorem asciiFollow_of_list (l : List UInt8) (h : AsciiFollowL l) : AsciiFollow l.toArray := by
  intro p hp hlt
  have hp' : p + 1 < l.length := by simpa using hp
  have e1 : nth l.toArray p 0 = l[p] := by simp [nth, show p < l.length by omega]
  have e2 : nth l.toArray (p + 1) 0 = l[p + 1] := by simp [nth, hp']
  rw [e2]
  rw [e1] at hlt
  exact h p l[p] l[p+1] (by simp) (by simp [hp']) hlt

theorem string_asciiFollow (s : String) : AsciiFollow s.toUTF8.data := by
  obtain ⟨m, hm⟩ := s.isValidUTF8
  have : s.toUTF8.data = (m.flatMap String.utf8EncodeChar).toArray := by
    show s.toByteArray.data = _
    rw [hm, List.utf8Encode, List.data_toByteArray]
  rw [this]
  exact asciiFollow_of_list _ (chars_ok m).1

set_option maxRecDepth 100000 in
theorem ascii_first : ∀ b : UInt8, b < 0x80 → b &&& 0x80 = 0 := by
  apply forall_uint8
  decide

/-- in a valid UTF-8 string every `EndOK` position is a valid position (a character boundary) -/
theorem endOK_isValid (s : String) (p : Nat) (h : EndOK s.toUTF8.data p) (hle : p ≤ s.utf8ByteSize) :
    (String.Pos.Raw.mk p).IsValid s := by
  rw [String.Pos.Raw.isValid_iff_isUTF8FirstByte]
  have hsz : s.toUTF8.data.size = s.utf8ByteSize := by
    show s.toByteArray.data.size = _
    rfl
  by_cases hend : p = s.utf8ByteSize
  · left; rw [hend]; rfl
  · right
    have hlt : p < s.utf8ByteSize := by omega
    have hlt' : String.Pos.Raw.mk p < s.rawEndPos := by
      simp [String.Pos.Raw.lt_iff]; exact hlt
    refine ⟨hlt', ?_⟩
    have hbyte : s.getUTF8Byte ⟨p⟩ hlt' = nth s.toUTF8.data p 0 := by
      simp [String.getUTF8Byte, nth, hlt]
      rfl
    rw [hbyte]
    rcases h with h | h | h
    · rw [hsz] at h; omega
    · left; exact ascii_first _ h.2
    · have := string_asciiFollow s (p - 1) (by rw [hsz]; omega) h.2.2
      have e : p - 1 + 1 = p := by omega
      rw [e] at this
      exact this
end Fontc.FeaLex
