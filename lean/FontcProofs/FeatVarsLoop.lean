/-
  The invariant of `overlay_feature_variations` after all rules have been overlaid.
-/
import FontcProofs.FeatVarsStep

namespace Fontc.FeatVars

/-- rule `j` is among the first `i` rules and its region contains `p` -/
def Act (R : List Region) (p : Point) (i j : Nat) : Prop :=
  j < i ∧ ∃ reg, R[j]? = some reg ∧ regionContains reg p = true

theorem good_emptyBox (L H : Bnd) (n : Nat) (p : Point) (hp : p.length = n) : Good L H (emptyBox n) p := by
  induction n generalizing L H p with
  | zero => simp [emptyBox, Good]
  | succ n ih =>
    cases p with
    | nil => simp at hp
    | cons x p =>
      have : emptyBox (n + 1) = none :: emptyBox n := by simp [emptyBox, List.replicate_succ]
      rw [this]
      simp only [Good]
      exact ih _ _ p (by simpa using hp)

section
variable {ρ : Type} {ops : RankOps ρ} {N : Nat} (law : LawfulRank ops N)
variable {n : Nat} {L H : Bnd} {p : Point}

theorem overlayLoop_inv (R : List Region) (hRN : R.length ≤ N) (hp : p.length = n) (hnt : NoTouch L H p)
    (hall : ∀ reg ∈ R, reg ≠ [] ∧ ∀ c ∈ reg, c.length = n ∧ BoxOk c ∧ InB L H c) :
    ∀ (rs : List Region) (i : Nat) (m : BoxMap ρ), R.drop i = rs →
      Shape law n m → SoundAt law p (Act R p i) m → HasWit law L H p (Act R p i) m →
      Shape law n (overlayLoop ops n rs i m) ∧ SoundAt law p (Act R p R.length) (overlayLoop ops n rs i m) ∧
        HasWit law L H p (Act R p R.length) (overlayLoop ops n rs i m) := by
  intro rs
  induction rs with
  | nil =>
    intro i m hd hs hm hw
    have hi : R.length ≤ i := by
      have := congrArg List.length hd
      simp at this; omega
    have hA : ∀ j, Act R p i j ↔ Act R p R.length j := by
      intro j
      unfold Act
      constructor
      · rintro ⟨_, reg, h1, h2⟩
        have : j < R.length := by
          rcases List.getElem?_eq_some_iff.1 h1 with ⟨h, _⟩; exact h
        exact ⟨this, reg, h1, h2⟩
      · rintro ⟨h, rest⟩; exact ⟨by omega, rest⟩
    simp only [overlayLoop]
    refine ⟨hs, ?_, ?_⟩
    · intro e he hc j hj; exact (hA j).1 (hm e he hc j hj)
    · obtain ⟨e, he, hg, hb⟩ := hw
      exact ⟨e, he, hg, fun j => (hb j).trans (hA j)⟩
  | cons r rs ih =>
    intro i m hd hs hm hw
    have hi : i < R.length := by
      have := congrArg List.length hd
      simp at this; omega
    have hri : R[i]? = some r := by
      have : (R.drop i)[0]? = some r := by rw [hd]; rfl
      simpa using this
    have hrmem : r ∈ R := List.mem_of_getElem? hri
    have hd' : R.drop (i + 1) = rs := by
      have : (R.drop i).drop 1 = rs := by rw [hd]; rfl
      simpa [List.drop_drop, Nat.add_comm] using this
    have ctx : StepCtx N n L H p i r (Act R p i) (Act R p (i + 1)) := {
      hk := by omega
      hp := hp
      hnt := hnt
      hreg := (hall r hrmem).2
      hA' := by
        intro j
        unfold Act
        constructor
        · rintro ⟨hj, reg, h1, h2⟩
          by_cases hji : j = i
          · subst hji
            rw [hri] at h1; cases h1
            exact Or.inr ⟨rfl, h2⟩
          · exact Or.inl ⟨by omega, reg, h1, h2⟩
        · rintro (⟨hj, rest⟩ | ⟨hj, h2⟩)
          · exact ⟨by omega, rest⟩
          · subst hj; exact ⟨by omega, r, hri, h2⟩ }
    obtain ⟨s1, s2, s3⟩ := stepRule_inv law ctx (hall r hrmem).1 hs hm hw
    simp only [overlayLoop]
    exact ih (i + 1) _ hd' s1 s2 s3

/-- **The overlay invariant** at the end of the loop: every box containing `p` carries a subset of the active
    rules, and some box good for `p` carries exactly the active rules. -/
theorem overlay_loop_final (R : List Region) (hRN : R.length ≤ N) (hp : p.length = n) (hnt : NoTouch L H p)
    (hall : ∀ reg ∈ R, reg ≠ [] ∧ ∀ c ∈ reg, c.length = n ∧ BoxOk c ∧ InB L H c) :
    Shape law n (overlayLoop ops n R 0 (initMap ops n)) ∧
    SoundAt law p (Act R p R.length) (overlayLoop ops n R 0 (initMap ops n)) ∧
    HasWit law L H p (Act R p R.length) (overlayLoop ops n R 0 (initMap ops n)) := by
  refine overlayLoop_inv law R hRN hp hnt hall R 0 _ (by simp) (initMap_shape law) ?_ ?_
  · intro e he _ j hj
    simp [initMap] at he
    subst he
    simp [law.bits_zero] at hj
  · refine ⟨(emptyBox n, ops.zero), by simp [initMap], good_emptyBox L H n p hp, ?_⟩
    intro j
    simp [law.bits_zero, Act]
end
end Fontc.FeatVars
