import FontcProofs.SchedScript
namespace Fontc.Sched

theorem insertJob_inserted {s s' : State} {j : Job} (h : s.insertJob j = some s') : ∀ x ∈ j.ids, x ∈ s'.inserted := by
  obtain ⟨_, cs, rfl, _⟩ := insertJob_spec h
  intro x hx
  simp [Job.ids] at hx
  rcases hx with rfl | hx <;> simp [*]

theorem insertAll_inserted {js : List Job} {s s' : State} (h : s.insertAll js = some s') :
    (∀ x ∈ s.inserted, x ∈ s'.inserted) ∧ ∀ j ∈ js, ∀ x ∈ j.ids, x ∈ s'.inserted := by
  induction js generalizing s with
  | nil => simp [State.insertAll] at h; subst h; simp
  | cons j js ih =>
    simp only [State.insertAll] at h
    cases h1 : s.insertJob j with
    | none => simp [h1] at h
    | some s1 =>
      simp [h1] at h
      obtain ⟨m, hall⟩ := ih h
      obtain ⟨l, hl⟩ := (mono_insertJob h1).inserted
      refine ⟨fun x hx => m x (by rw [hl]; simp [hx]), ?_⟩
      intro k hk x hx
      simp only [List.mem_cons] at hk
      rcases hk with rfl | hk
      · exact m x (insertJob_inserted h1 x hx)
      · exact hall k hk x hx

theorem applyEffects_inserted {es : List Effect} {s s' : State} (h : s.applyEffects es = some s') :
    ∀ j, Effect.add j ∈ es → ∀ x ∈ j.ids, x ∈ s'.inserted := by
  induction es generalizing s with
  | nil => simp
  | cons e es ih =>
    simp only [State.applyEffects] at h
    cases h1 : s.applyEffect e with
    | none => simp [h1] at h
    | some s1 =>
      simp [h1] at h
      intro j hj x hx
      simp only [List.mem_cons] at hj
      rcases hj with rfl | hj
      · obtain ⟨l, hl⟩ := (mono_applyEffects h).inserted
        rw [hl]
        simp only [List.mem_append]
        exact Or.inr (insertJob_inserted h1 x hx)
      · exact ih h j hj x hx

theorem ReachInit.init_inserted {sc : Script} {s : State} (r : ReachInit sc s) : ∀ x ∈ sc.initIds, x ∈ s.inserted := by
  induction r with
  | init h =>
    intro x hx
    simp only [Script.initIds, List.mem_flatMap] at hx
    obtain ⟨j, hj, hxj⟩ := hx
    exact (insertAll_inserted h).2 j hj x hxj
  | launch id _ h ih =>
    intro x hx
    obtain ⟨l, hl⟩ := (mono_launch h).inserted
    rw [hl]; simp [ih x hx]
  | finish id _ h ih =>
    intro x hx
    obtain ⟨l, hl⟩ := (mono_finish h).inserted
    rw [hl]; simp [ih x hx]
  | deliver id _ h ih =>
    intro x hx
    obtain ⟨l, hl⟩ := (mono_deliver h).inserted
    rw [hl]; simp [ih x hx]

theorem insertJob_delivered {s s' : State} {j : Job} (h : s.insertJob j = some s') : s'.delivered = s.delivered := by
  obtain ⟨_, cs, rfl, _⟩ := insertJob_spec h; rfl

theorem insertAll_delivered {js : List Job} {s s' : State} (h : s.insertAll js = some s') : s'.delivered = s.delivered := by
  induction js generalizing s with
  | nil => simp [State.insertAll] at h; subst h; rfl
  | cons j js ih =>
    simp only [State.insertAll] at h
    cases h1 : s.insertJob j with
    | none => simp [h1] at h
    | some s1 =>
      simp [h1] at h
      rw [ih h, insertJob_delivered h1]

theorem applyEffect_delivered {s s' : State} {e : Effect} (h : s.applyEffect e = some s') : s'.delivered = s.delivered := by
  cases e with
  | add j => exact insertJob_delivered h
  | rewrite i a m => have := rewrite_spec h; subst this; rfl
  | skip i =>
    rcases skip_spec h with ⟨_, rfl⟩ | ⟨o, cs, _, _, _, _, _, hc⟩
    · rfl
    · obtain ⟨rfl, _, _⟩ := complete_spec hc; rfl
  | guard i st =>
    simp only [State.applyEffect] at h
    split at h
    · simp at h; subst h; rfl
    · simp at h

theorem applyEffects_delivered {es : List Effect} {s s' : State} (h : s.applyEffects es = some s') : s'.delivered = s.delivered := by
  induction es generalizing s with
  | nil => simp [State.applyEffects] at h; subst h; rfl
  | cons e es ih =>
    simp only [State.applyEffects] at h
    cases h1 : s.applyEffect e with
    | none => simp [h1] at h
    | some s1 =>
      simp [h1] at h
      rw [ih h, applyEffect_delivered h1]

theorem receive_delivered {s s' : State} {id : Id} (h : s.receive id = some s') : s'.delivered = id :: s.delivered := by
  obtain ⟨_, _, hc⟩ := receive_spec h
  obtain ⟨rfl, _, _⟩ := complete_spec hc
  rfl

theorem ReachInit.added_inserted {sc : Script} {s : State} (r : ReachInit sc s) :
    ∀ q ∈ s.delivered, ∀ x ∈ sc.addedIds q, x ∈ s.inserted := by
  induction r with
  | init h =>
    intro q hq
    rw [initState] at h
    rw [insertAll_delivered h] at hq
    simp [State.empty] at hq
  | launch id _ h ih =>
    obtain ⟨e, _, _, _, rfl⟩ := launch_spec h
    exact ih
  | finish id _ h ih =>
    obtain ⟨e, cs, _, _, _, _, _, rfl⟩ := finish_spec h
    exact ih
  | deliver id _ h ih =>
    rename_i s0 s1
    intro q hq x hx
    unfold State.deliver at h
    obtain ⟨sr, h1, h⟩ := Option.bind_eq_some_iff.1 h
    rw [applyEffects_delivered h, receive_delivered h1] at hq
    simp only [List.mem_cons] at hq
    rcases hq with rfl | hq0
    · simp only [Script.addedIds, List.mem_flatMap] at hx
      obtain ⟨e, he, hxe⟩ := hx
      cases e with
      | add j => exact applyEffects_inserted h j he x hxe
      | rewrite i a m => simp at hxe
      | skip i => simp at hxe
      | guard i st => simp at hxe
    · obtain ⟨l, hl⟩ := ((mono_receive h1).trans (mono_applyEffects h)).inserted
      rw [hl]; simp [ih q hq0 x hx]


/-! ### soundness of the rules of `justified` -/

/-- `ev` has happened -/
def happened (s : State) : Ev → Prop
  | .del p => p ∈ s.delivered
  | .fin k => k ∈ s.finished ∨ k ∈ s.skipped

theorem happened_mono {s s' : State} (m : Mono s s') {ev : Ev} (h : happened s ev) : happened s' ev := by
  cases ev with
  | del p => exact m.delivered p h
  | fin k =>
    rcases h with h | h
    · exact Or.inl (m.finished k h)
    · exact Or.inr (m.skipped k h)

/-- every fact of the table is true so far -/
def TableHolds (t : Table) (s : State) : Prop :=
  ∀ f ∈ t, (f.job, f.acc) ∈ s.launched → happened s f.ev

section sound
variable {sc : Script} {t : Table} {s : State}
variable (w : WF s) (hh : Hist s) (hs : Scr sc s) (ih : TableHolds t s)
include hs ih

theorem hasAll_sound {ev : Ev} {o : Id} (h : hasAll (t.contains ·) sc ev o = true) (hl : ∃ a, (o, a) ∈ s.launched) :
    happened s ev := by
  obtain ⟨a, ha⟩ := hl
  have hv := (hs.launched_acc _ ha).version
  simp only [hasAll, List.all_eq_true] at h
  have := h a hv
  simp only [List.contains_iff_mem] at this
  exact ih _ this ha

include hh

theorem afterFin_sound {ev : Ev} {o : Id} (h : afterFin (t.contains ·) sc ev o = true) (hf : o ∈ s.finished) :
    happened s ev := by
  simp only [afterFin, Bool.or_eq_true, decide_eq_true_eq] at h
  rcases h with rfl | h
  · exact Or.inl hf
  · exact hasAll_sound hs ih h (hh.fin_launched o hf)

theorem afterDel_sound {ev : Ev} {o : Id} (h : afterDel (t.contains ·) sc ev o = true) (hd : o ∈ s.delivered) :
    happened s ev := by
  simp only [afterDel, Bool.or_eq_true, decide_eq_true_eq] at h
  rcases h with rfl | h
  · exact hd
  · exact afterFin_sound hh hs ih h (hh.delivered_fin o hd)

theorem afterSkip_sound {ev : Ev} {o : Id} (h : afterSkip (t.contains ·) sc ev o = true) (hk : o ∈ s.skipped) :
    happened s ev := by
  simp only [afterSkip, Bool.or_eq_true, decide_eq_true_eq, List.all_eq_true] at h
  rcases h with rfl | h
  · exact Or.inr hk
  · obtain ⟨q, hq, hqs⟩ := hs.skipped_origin o hk
    exact afterDel_sound hh hs ih (h q hqs) hq

theorem over_sound {ev : Ev} {x : Id} (h : overImplies (t.contains ·) sc ev x = true) (hx : x ∈ s.success) :
    happened s ev := by
  simp only [overImplies, List.all_eq_true, Bool.and_eq_true] at h
  obtain ⟨o, ho, hxo⟩ := hh.succ_char x hx
  have hown : o ∈ sc.owners x := by
    rcases hxo with rfl | hxo
    · exact hs.done_job _ ho
    · exact hs.also_static o x hxo
  rcases ho with ho | ho
  · exact afterDel_sound hh hs ih (h o hown).1 ho
  · exact afterSkip_sound hh hs ih (h o hown).2 ho

include w in
theorem fin_sound {ev : Ev} {y : Id} (h : finImplies (t.contains ·) sc ev y = true) (hy : y ∈ s.inserted)
    (hdone : ∀ e ∈ s.pending, e.id = y → e.owner ∈ s.inflight) : happened s ev := by
  simp only [finImplies, List.all_eq_true, Bool.and_eq_true] at h
  rcases w.inserted_cases y hy with hp | hsucc
  · obtain ⟨e, he, rfl⟩ := isPending_iff.1 hp
    have hin := hdone e he rfl
    exact afterFin_sound hh hs ih (h _ (hs.owner_static e he)).1 (hh.inflight_fin _ hin)
  · obtain ⟨o, ho, hxo⟩ := hh.succ_char y hsucc
    have hown : o ∈ sc.owners y := by
      rcases hxo with rfl | hxo
      · exact hs.done_job _ ho
      · exact hs.also_static o y hxo
    rcases ho with ho | ho
    · exact afterFin_sound hh hs ih (h o hown).1 (hh.delivered_fin o ho)
    · exact afterSkip_sound hh hs ih (h o hown).2 ho

end sound

theorem insertedBefore_sound {sc : Script} {s : State} (r : ReachInit sc s) (hs : Scr sc s) {e : Entry} (he : e ∈ s.pending)
    (hreal : e.kind ≠ .alsoComplete) {x : Id} (h : insertedBefore sc x e.id e.reads = true) : x ∈ s.inserted := by
  simp only [insertedBefore, Bool.or_eq_true, Bool.and_eq_true, Bool.not_eq_true', List.all_eq_true,
    List.contains_iff_mem] at h
  rcases h with (h | ⟨hni, hall⟩) | ⟨hni, hall⟩
  · exact r.init_inserted x h
  · rcases hs.entry_acc e he hreal with hc | ⟨q, hq, hqi⟩
    · rw [hc] at hni; simp at hni
    · exact r.added_inserted q hq x (hall q hqi)
  · rcases hs.entry_job e he hreal with hc | ⟨q, hq, hqi⟩
    · rw [hc] at hni; simp at hni
    · exact r.added_inserted q hq x (hall q hqi)

/-- the heart of the matter: a justified fact about `(e.id, e.reads)` is true at the moment `e` is launched -/
theorem justified_sound {sc : Script} {t : Table} {s : State} (r : ReachInit sc s) (w : WF s) (hh : Hist s) (hs : Scr sc s)
    (ih : TableHolds t s) {e : Entry} (he : e ∈ s.pending) (hreal : e.kind ≠ .alsoComplete) (hc : s.canRun e = true)
    {ev : Ev} (hj : justified (t.contains ·) sc ⟨ev, e.id, e.reads⟩ = true) : happened s ev := by
  simp only [justified, Bool.or_eq_true, Bool.and_eq_true, Bool.not_eq_true', List.all_eq_true, decide_eq_true_eq] at hj
  rcases hj with ((hu | ⟨hni, hall⟩) | ⟨hni, hall⟩) | hdep
  · -- unknown: cannot run
    simp [State.canRun, hu] at hc
  · rcases hs.entry_job e he hreal with h | ⟨q, hq, hqc⟩
    · rw [h] at hni; simp at hni
    · exact afterDel_sound hh hs ih (hall q hqc) hq
  · rcases hs.entry_acc e he hreal with h | ⟨q, hq, hqi⟩
    · rw [h] at hni; simp at hni
    · exact afterDel_sound hh hs ih (hall q hqi) hq
  · cases hr : e.reads with
    | none => simp [hr] at hdep
    | unknown => simp [hr] at hdep
    | all =>
      simp only [hr, List.any_eq_true, Bool.and_eq_true, decide_eq_true_eq] at hdep
      obtain ⟨x, hx, hne, hov⟩ := hdep
      rcases all_dep_ok w hc hr x (r.init_inserted x hx) with h | h
      · exact absurd h hne
      · exact over_sound hh hs ih hov h
    | set ds =>
      simp only [hr, List.any_eq_true] at hdep
      obtain ⟨d, hd, hjd⟩ := hdep
      cases d with
      | specific x =>
        simp only [depJustifies, Bool.and_eq_true] at hjd
        have hins : x ∈ s.inserted := insertedBefore_sound r hs he hreal (by rw [hr]; exact hjd.1)
        rcases specific_dep_ok w hc hr hd with h | h
        · exact over_sound hh hs ih hjd.2 h
        · exact absurd hins h
      | variant dd =>
        simp only [depJustifies, List.any_eq_true, Bool.and_eq_true, decide_eq_true_eq] at hjd
        obtain ⟨y, _, ⟨hyd, hyb⟩, hyf⟩ := hjd
        have hins : y ∈ s.inserted := insertedBefore_sound r hs he hreal (by rw [hr]; exact hyb)
        have hdone := variant_dep_ok w hc hr hd
        exact fin_sound w hh hs ih hyf hins (fun e' he' hid => hdone e' he' (by rw [hid]; exact hyd))

/-- **Soundness of the checker**: every fact of a locally justified table holds in every reachable state. -/
theorem checkTable_sound {sc : Script} {t : Table} (hc : checkTable sc t = true) {s : State} (r : ReachInit sc s)
    (hn : s.inserted.Nodup) : TableHolds t s := by
  induction r with
  | init h =>
    intro f _ hl
    have : ∀ (js : List Job) (a b : State), a.insertAll js = some b → b.launched = a.launched := by
      intro js
      induction js with
      | nil => intro a b hab; simp [State.insertAll] at hab; subst hab; rfl
      | cons j js ihj =>
        intro a b hab
        simp only [State.insertAll] at hab
        obtain ⟨a1, h1, hab⟩ := Option.bind_eq_some_iff.1 hab
        rw [ihj _ _ hab]
        obtain ⟨_, cs, rfl, _⟩ := insertJob_spec h1; rfl
    rw [initState] at h
    rw [this _ _ _ h] at hl
    simp [State.empty] at hl
  | finish id r h ih =>
    have m := mono_finish h
    intro f hf hl
    obtain ⟨e, cs, _, _, _, _, _, rfl⟩ := finish_spec h
    exact happened_mono m (ih (m.nodup hn) f hf hl)
  | deliver id r h ih =>
    have m := mono_deliver h
    intro f hf hl
    have hlaunched : ∀ p, p ∈ (‹State› : State).launched → True := fun _ _ => trivial
    rename_i s0 s1
    have e1 : s1.launched = s0.launched := by
      unfold State.deliver at h
      obtain ⟨sr, h1, h2⟩ := Option.bind_eq_some_iff.1 h
      have e2 : ∀ (es : List Effect) (a b : State), a.applyEffects es = some b → b.launched = a.launched := by
        intro es
        induction es with
        | nil => intro a b hab; simp [State.applyEffects] at hab; subst hab; rfl
        | cons e es ihes =>
          intro a b hab
          simp only [State.applyEffects] at hab
          obtain ⟨a1, h3, hab⟩ := Option.bind_eq_some_iff.1 hab
          rw [ihes _ _ hab]
          cases e with
          | add j => obtain ⟨_, cs, rfl, _⟩ := insertJob_spec h3; rfl
          | rewrite i a m => have := rewrite_spec h3; subst this; rfl
          | skip i =>
            rcases skip_spec h3 with ⟨_, rfl⟩ | ⟨o, cs, _, _, _, _, _, hc⟩
            · rfl
            · obtain ⟨rfl, _, _⟩ := complete_spec hc; rfl
          | guard i st =>
            simp only [State.applyEffect] at h3
            split at h3
            · simp at h3; subst h3; rfl
            · simp at h3
      rw [e2 _ _ _ h2]
      obtain ⟨_, _, hc⟩ := receive_spec h1
      obtain ⟨rfl, _, _⟩ := complete_spec hc
      rfl
    rw [e1] at hl
    exact happened_mono m (ih (m.nodup hn) f hf hl)
  | launch id r h ih =>
    rename_i s0 s1
    have m := mono_launch h
    have hn0 := m.nodup hn
    have ih0 := ih hn0
    obtain ⟨e, he, hid, hkind, hrun, hcan, hl⟩ := launch_canRun h
    intro f hf hlf
    rw [hl] at hlf
    simp only [List.mem_cons] at hlf
    rcases hlf with heq | hlf
    · have hjust : justified (t.contains ·) sc f = true := by
        simp only [checkTable, List.all_eq_true] at hc
        exact hc f hf
      have hf' : f = ⟨f.ev, e.id, e.reads⟩ := by
        cases f
        simp only [Prod.mk.injEq] at heq
        simp [heq.1, heq.2, hid]
      rw [hf'] at hjust
      exact happened_mono m (justified_sound r (r.reach.wf hn0) (r.reach.hist hn0) (r.scr hn0) ih0 he hkind hcan hjust)
    · exact happened_mono m (ih0 f hf hlf)

end Fontc.Sched
