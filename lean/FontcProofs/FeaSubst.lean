/-
  C11, per-lookup correctness of the map-keyed lookups: single, multiple (with promoted single
  rules), alternate substitution and single positioning.  The write-fonts builders keep one entry
  per glyph in a `BTreeMap` (the last insertion wins); the source says "first matching rule".
  With no glyph targeted twice the two agree.
-/
import FontcModel.FeaCompile
import FontcProofs.FeaMap

namespace Fontc.FeaCompile
open Cmp

/-- `(target glyph, replacement sequence)` pairs of a rule of a single / multiple substitution lookup -/
def substPairs : Rule → List (Glyph × List Glyph)
  | .single t r => (singlePairs (normSingle t r).1 (normSingle t r).2).map fun p => (p.1, [p.2])
  | .multiple t r => [(t, r)]
  | _ => []

theorem lookup_singlePairs (t r : GC) (g : Glyph) :
    ((singlePairs (normSingle t r).1 (normSingle t r).2).lookup g).map ([·]) = Src.subst1 (.single t r) g := by
  cases t with
  | g a =>
    cases r with
    | g b =>
      simp only [normSingle, singlePairs, List.lookup, Src.subst1]
      by_cases h : g = a
      · subst h; simp
      · have : (g == a) = false := by simp [h]
        simp [this, h]
    | c bs => simp [normSingle, singlePairs, Src.subst1]
  | c as =>
    cases r with
    | g b =>
      simp only [normSingle, singlePairs, Src.subst1, lookup_map_const]
      split <;> simp
    | c bs =>
      match bs with
      | [] => simp [normSingle, singlePairs, Src.subst1]
      | [b] =>
        simp only [normSingle, singlePairs, Src.subst1, lookup_map_const]
        split <;> simp
      | b :: b' :: rest =>
        simp only [normSingle, singlePairs, Src.subst1, lookup_zip]

theorem lookup_substPairs (r : Rule) (g : Glyph) : (substPairs r).lookup g = Src.subst1 r g := by
  cases r with
  | single t r =>
    simp only [substPairs]
    rw [lookup_map_snd (fun x => [x]), lookup_singlePairs]
  | multiple t r =>
    simp only [substPairs, List.lookup, Src.subst1]
    by_cases h : g = t
    · subst h; simp
    · have : (g == t) = false := by simp [h]
      simp [this, h]
  | _ => simp [substPairs, Src.subst1]

/-- the source semantics of a substitution lookup is a lookup in the concatenated pairs -/
theorem substStep_eq (rs : List Rule) (rev : List Glyph) (g : Glyph) (suf : List Glyph) :
    Src.substStep rs rev g suf = (((rs.flatMap substPairs).lookup g).map (·, suf)) := by
  simp only [Src.substStep]
  rw [← findSome_lookup_flatMap]
  congr 1
  apply congrArg (fun f => List.findSome? f rs)
  funext r
  exact (lookup_substPairs r g).symm

theorem zip_keys_sublist (as bs : List Glyph) : ((as.zip bs).map (·.1)).Sublist as := by
  induction as generalizing bs with
  | nil => simp
  | cons a as ih =>
    cases bs with
    | nil => simp
    | cons b bs => simpa using ih bs

theorem singlePairs_keys_sublist (t r : GC) : ((singlePairs t r).map (·.1)).Sublist t.glyphs := by
  cases t with
  | g a => cases r <;> simp [singlePairs, GC.glyphs]
  | c as =>
    cases r with
    | g b => simp [singlePairs, GC.glyphs, Function.comp_def]
    | c bs => exact zip_keys_sublist as bs

theorem normSingle_fst (t r : GC) : (normSingle t r).1 = t := by
  unfold normSingle; split <;> rfl

theorem substPairs_keys_sublist (r : Rule) : ((substPairs r).map (·.1)).Sublist (Wf.targets r) := by
  cases r with
  | single t r =>
    simp only [substPairs, Wf.targets, List.map_map, Function.comp_def]
    have := singlePairs_keys_sublist (normSingle t r).1 (normSingle t r).2
    rw [normSingle_fst] at this ⊢
    simpa [normSingle_fst] using this
  | multiple t r => simp [substPairs, Wf.targets]
  | _ => simp [substPairs]

theorem flatMap_keys_sublist (rs : List Rule) :
    ((rs.flatMap substPairs).map (·.1)).Sublist (rs.flatMap Wf.targets) := by
  induction rs with
  | nil => simp
  | cons r rs ih =>
    simp only [List.flatMap_cons, List.map_append]
    exact List.Sublist.append (substPairs_keys_sublist r) ih

/-- the `MultipleSubBuilder` after the rules of a lookup (single rules promoted) -/
theorem foldl_add_multiple (fx : Fixes) (root : Nat) (named : String → LookupId) (rs : List Rule)
    (hk : ∀ r ∈ rs, r.kind = .single ∨ r.kind = .multiple) (m : List (Glyph × List Glyph)) :
    rs.foldl (Builder.add fx root named) (.multiple m)
      = .multiple ((rs.flatMap substPairs).foldl (fun m p => mapInsert p.1 p.2 m) m) := by
  induction rs generalizing m with
  | nil => rfl
  | cons r rs ih =>
    have hr := hk r (by simp)
    have ht : ∀ r' ∈ rs, r'.kind = .single ∨ r'.kind = .multiple := fun r' h => hk r' (by simp [h])
    cases r with
    | single t r =>
      simp only [List.foldl_cons, Builder.add, List.flatMap_cons, List.foldl_append, substPairs]
      rw [ih ht]
      congr 2
      rw [List.foldl_map]
    | multiple t r =>
      simp only [List.foldl_cons, Builder.add, List.flatMap_cons, List.foldl_append, substPairs]
      rw [ih ht]
      rfl
    | _ => simp [Rule.kind] at hr

/-- **Multiple substitution lookups** (single rules in them promoted): the subtable built from the
    rules substitutes like the first matching rule, if no glyph is targeted twice. -/
theorem multiple_lookup_correct (fx : Fixes) (root : Nat) (named : String → LookupId) (rs : List Rule)
    (hk : ∀ r ∈ rs, r.kind = .single ∨ r.kind = .multiple)
    (hnd : (rs.flatMap Wf.targets).Nodup)
    (ign : Glyph → Bool) (alt : Nat) (rev : List Glyph) (g : Glyph) (suf : List Glyph) :
    (buildSubtables (rs.foldl (Builder.add fx root named) (.multiple []))).findSome?
        (fun st => OT.simpleSubtableStep ign alt st rev g suf)
      = Src.substStep rs rev g suf := by
  rw [foldl_add_multiple fx root named rs hk, substStep_eq]
  simp only [buildSubtables, List.findSome?_cons, List.findSome?_nil, OT.simpleSubtableStep]
  rw [lookup_foldl_mapInsert _ _ _ ((flatMap_keys_sublist rs).nodup hnd)]
  simp [List.lookup]
  cases (rs.flatMap substPairs).lookup g <;> simp

end Fontc.FeaCompile
