/-
  C11, per-lookup correctness of the map-keyed lookups: single, multiple (with promoted single
  rules), alternate substitution and single positioning.  The write-fonts builders keep one entry
  per glyph in a `BTreeMap` (the last insertion wins); the source says "first matching rule".
  With no glyph targeted twice the two agree.
-/
import FontcModel.FeaCompile
import FontcProofs.FeaMap

namespace Fontc.FeaCompile
open Cmp

/-- `(target glyph, replacement sequence)` pairs of a rule of a single / multiple substitution lookup -/
def substPairs : Rule → List (Glyph × List Glyph)
  | .single t r => (singlePairs (normSingle t r).1 (normSingle t r).2).map fun p => (p.1, [p.2])
  | .multiple t r => [(t, r)]
  | _ => []

theorem lookup_singlePairs (t r : GC) (g : Glyph) :
    ((singlePairs (normSingle t r).1 (normSingle t r).2).lookup g).map ([·]) = Src.subst1 (.single t r) g := by
  cases t with
  | g a =>
    cases r with
    | g b =>
      simp only [normSingle, singlePairs, List.lookup, Src.subst1]
      by_cases h : g = a
      · subst h; simp
      · have : (g == a) = false := by simp [h]
        simp [this, h]
    | c bs => simp [normSingle, singlePairs, Src.subst1]
  | c as =>
    cases r with
    | g b =>
      simp only [normSingle, singlePairs, Src.subst1, lookup_map_const]
      split <;> simp
    | c bs =>
      match bs with
      | [] => simp [normSingle, singlePairs, Src.subst1]
      | [b] =>
        simp only [normSingle, singlePairs, Src.subst1, lookup_map_const]
        split <;> simp
      | b :: b' :: rest =>
        simp only [normSingle, singlePairs, Src.subst1, lookup_zip]

theorem lookup_substPairs (r : Rule) (g : Glyph) : (substPairs r).lookup g = Src.subst1 r g := by
  cases r with
  | single t r =>
    simp only [substPairs]
    rw [lookup_map_snd (fun x => [x]), lookup_singlePairs]
  | multiple t r =>
    simp only [substPairs, List.lookup, Src.subst1]
    by_cases h : g = t
    · subst h; simp
    · have : (g == t) = false := by simp [h]
      simp [this, h]
  | _ => simp [substPairs, Src.subst1]

/-- the source semantics of a substitution lookup is a lookup in the concatenated pairs -/
theorem substStep_eq (rs : List Rule) (rev : List Glyph) (g : Glyph) (suf : List Glyph) :
    Src.substStep rs rev g suf = (((rs.flatMap substPairs).lookup g).map (·, suf)) := by
  simp only [Src.substStep]
  rw [← findSome_lookup_flatMap]
  congr 1
  apply congrArg (fun f => List.findSome? f rs)
  funext r
  exact (lookup_substPairs r g).symm

theorem zip_keys_sublist (as bs : List Glyph) : ((as.zip bs).map (·.1)).Sublist as := by
  induction as generalizing bs with
  | nil => simp
  | cons a as ih =>
    cases bs with
    | nil => simp
    | cons b bs => simpa using ih bs

theorem singlePairs_keys_sublist (t r : GC) : ((singlePairs t r).map (·.1)).Sublist t.glyphs := by
  cases t with
  | g a => cases r <;> simp [singlePairs, GC.glyphs]
  | c as =>
    cases r with
    | g b => simp [singlePairs, GC.glyphs, Function.comp_def]
    | c bs => exact zip_keys_sublist as bs

theorem normSingle_fst (t r : GC) : (normSingle t r).1 = t := by
  unfold normSingle; split <;> rfl

theorem substPairs_keys_sublist (r : Rule) : ((substPairs r).map (·.1)).Sublist (Wf.targets r) := by
  cases r with
  | single t r =>
    simp only [substPairs, Wf.targets, List.map_map, Function.comp_def]
    have := singlePairs_keys_sublist (normSingle t r).1 (normSingle t r).2
    rw [normSingle_fst] at this ⊢
    simpa [normSingle_fst] using this
  | multiple t r => simp [substPairs, Wf.targets]
  | _ => simp [substPairs]

theorem flatMap_keys_sublist (rs : List Rule) :
    ((rs.flatMap substPairs).map (·.1)).Sublist (rs.flatMap Wf.targets) := by
  induction rs with
  | nil => simp
  | cons r rs ih =>
    simp only [List.flatMap_cons, List.map_append]
    exact List.Sublist.append (substPairs_keys_sublist r) ih

/-- the `MultipleSubBuilder` after the rules of a lookup (single rules promoted) -/
theorem foldl_add_multiple (fx : Fixes) (root : Nat) (named : String → LookupId) (rs : List Rule)
    (hk : ∀ r ∈ rs, r.kind = .single ∨ r.kind = .multiple) (m : List (Glyph × List Glyph)) :
    rs.foldl (Builder.add fx root named) (.multiple m)
      = .multiple ((rs.flatMap substPairs).foldl (fun m p => mapInsert p.1 p.2 m) m) := by
  induction rs generalizing m with
  | nil => rfl
  | cons r rs ih =>
    have hr := hk r (by simp)
    have ht : ∀ r' ∈ rs, r'.kind = .single ∨ r'.kind = .multiple := fun r' h => hk r' (by simp [h])
    cases r with
    | single t r =>
      simp only [List.foldl_cons, Builder.add, List.flatMap_cons, List.foldl_append, substPairs]
      rw [ih ht]
      congr 2
      rw [List.foldl_map]
    | multiple t r =>
      simp only [List.foldl_cons, Builder.add, List.flatMap_cons, List.foldl_append, substPairs]
      rw [ih ht]
      rfl
    | _ => simp [Rule.kind] at hr

/-- **Multiple substitution lookups** (single rules in them promoted): the subtable built from the
    rules substitutes like the first matching rule, if no glyph is targeted twice. -/
theorem multiple_lookup_correct (fx : Fixes) (root : Nat) (named : String → LookupId) (rs : List Rule)
    (hk : ∀ r ∈ rs, r.kind = .single ∨ r.kind = .multiple)
    (hnd : (rs.flatMap Wf.targets).Nodup)
    (ign : Glyph → Bool) (alt : Nat) (rev : List Glyph) (g : Glyph) (suf : List Glyph) :
    (buildSubtables (rs.foldl (Builder.add fx root named) (.multiple []))).findSome?
        (fun st => OT.simpleSubtableStep ign alt st rev g suf)
      = Src.substStep rs rev g suf := by
  rw [foldl_add_multiple fx root named rs hk, substStep_eq]
  simp only [buildSubtables, List.findSome?_cons, List.findSome?_nil, OT.simpleSubtableStep]
  rw [lookup_foldl_mapInsert _ _ _ ((flatMap_keys_sublist rs).nodup hnd)]
  simp [List.lookup]
  cases (rs.flatMap substPairs).lookup g <;> simp

/-! single substitution -/

def singlePairsOf : Rule → List (Glyph × Glyph)
  | .single t r => singlePairs (normSingle t r).1 (normSingle t r).2
  | _ => []

theorem substPairs_of_single (r : Rule) (h : r.kind = .single) :
    substPairs r = (singlePairsOf r).map fun p => (p.1, [p.2]) := by
  cases r <;> simp_all [Rule.kind, substPairs, singlePairsOf]

theorem flatMap_substPairs_of_single (rs : List Rule) (hk : ∀ r ∈ rs, r.kind = .single) :
    rs.flatMap substPairs = (rs.flatMap singlePairsOf).map fun p => (p.1, [p.2]) := by
  induction rs with
  | nil => rfl
  | cons r rs ih =>
    simp only [List.flatMap_cons, List.map_append]
    rw [substPairs_of_single r (hk r (by simp)), ih (fun r' h => hk r' (by simp [h]))]

theorem foldl_add_single (fx : Fixes) (root : Nat) (named : String → LookupId) (rs : List Rule)
    (hk : ∀ r ∈ rs, r.kind = .single) (m : List (Glyph × Glyph)) :
    rs.foldl (Builder.add fx root named) (.single m)
      = .single ((rs.flatMap singlePairsOf).foldl (fun m p => mapInsert p.1 p.2 m) m) := by
  induction rs generalizing m with
  | nil => rfl
  | cons r rs ih =>
    have hr := hk r (by simp)
    have ht : ∀ r' ∈ rs, r'.kind = .single := fun r' h => hk r' (by simp [h])
    cases r with
    | single t r =>
      simp only [List.foldl_cons, Builder.add, List.flatMap_cons, List.foldl_append, singlePairsOf]
      rw [ih ht]
    | _ => simp [Rule.kind] at hr

/-- **Single substitution lookups.** -/
theorem single_lookup_correct (fx : Fixes) (root : Nat) (named : String → LookupId) (rs : List Rule)
    (hk : ∀ r ∈ rs, r.kind = .single)
    (hnd : (rs.flatMap Wf.targets).Nodup)
    (ign : Glyph → Bool) (alt : Nat) (rev : List Glyph) (g : Glyph) (suf : List Glyph) :
    (buildSubtables (rs.foldl (Builder.add fx root named) (.single []))).findSome?
        (fun st => OT.simpleSubtableStep ign alt st rev g suf)
      = Src.substStep rs rev g suf := by
  have hkeys : ((rs.flatMap singlePairsOf).map (·.1)).Nodup := by
    have h := (flatMap_keys_sublist rs).nodup hnd
    rw [flatMap_substPairs_of_single rs hk] at h
    simpa [List.map_map, Function.comp_def] using h
  rw [foldl_add_single fx root named rs hk, substStep_eq, flatMap_substPairs_of_single rs hk,
    lookup_map_snd (fun x => [x])]
  simp only [buildSubtables]
  split
  · rename_i hempty
    have hl := lookup_foldl_mapInsert (rs.flatMap singlePairsOf) [] g hkeys
    rw [List.isEmpty_iff.mp hempty] at hl
    simp only [List.lookup] at hl
    cases hq : (rs.flatMap singlePairsOf).lookup g <;> simp_all
  · simp only [List.findSome?_cons, List.findSome?_nil, OT.simpleSubtableStep]
    rw [lookup_foldl_mapInsert _ _ _ hkeys]
    simp [List.lookup]
    cases (rs.flatMap singlePairsOf).lookup g <;> simp

/-- promoting the single-substitution builder to a multiple-substitution builder
    (`promote_single_sub_to_multi_if_necessary`) commutes with adding the rules -/
theorem promote_multi_foldl (ps : List (Glyph × Glyph)) (m : List (Glyph × Glyph)) :
    (ps.foldl (fun m p => mapInsert p.1 p.2 m) m).map (fun p => (p.1, [p.2]))
      = (ps.map fun p => (p.1, [p.2])).foldl (fun m p => mapInsert p.1 p.2 m) (m.map fun p => (p.1, [p.2])) := by
  have hins : ∀ (k : Glyph) (v : Glyph) (m : List (Glyph × Glyph)),
      (mapInsert k v m).map (fun p => (p.1, [p.2])) = mapInsert k [v] (m.map fun p => (p.1, [p.2])) := by
    intro k v m
    induction m with
    | nil => rfl
    | cons hd tl ih =>
      simp only [mapInsert, List.map_cons]
      split
      · rfl
      · split
        · rfl
        · simp [ih]
  induction ps generalizing m with
  | nil => rfl
  | cons p ps ih => simp only [List.foldl_cons, List.map_cons, ih, hins]

/-! alternate substitution -/

def altPairs : Rule → List (Glyph × List Glyph)
  | .alternate t a => [(t, a)]
  | _ => []

theorem lookup_altPairs (r : Rule) (g : Glyph) : (altPairs r).lookup g = Src.altOf r g := by
  cases r with
  | alternate t a =>
    simp only [altPairs, List.lookup, Src.altOf]
    by_cases h : g = t
    · subst h; simp
    · have : (g == t) = false := by simp [h]
      simp [this, h]
  | _ => simp [altPairs, Src.altOf]

theorem altPairs_keys (rs : List Rule) (hk : ∀ r ∈ rs, r.kind = .alternate) :
    (rs.flatMap altPairs).map (·.1) = rs.flatMap Wf.targets := by
  induction rs with
  | nil => rfl
  | cons r rs ih =>
    have hr := hk r (by simp)
    simp only [List.flatMap_cons, List.map_append, ih (fun r' h => hk r' (by simp [h]))]
    cases r <;> simp_all [Rule.kind, altPairs, Wf.targets]

theorem foldl_add_alternate (fx : Fixes) (root : Nat) (named : String → LookupId) (rs : List Rule)
    (hk : ∀ r ∈ rs, r.kind = .alternate) (m : List (Glyph × List Glyph)) :
    rs.foldl (Builder.add fx root named) (.alternate m)
      = .alternate ((rs.flatMap altPairs).foldl (fun m p => mapInsert p.1 p.2 m) m) := by
  induction rs generalizing m with
  | nil => rfl
  | cons r rs ih =>
    have hr := hk r (by simp)
    have ht : ∀ r' ∈ rs, r'.kind = .alternate := fun r' h => hk r' (by simp [h])
    cases r with
    | alternate t a =>
      simp only [List.foldl_cons, Builder.add, List.flatMap_cons, List.foldl_append, altPairs]
      rw [ih ht]
      rfl
    | _ => simp [Rule.kind] at hr

/-- **Alternate substitution lookups**: the same alternates in the same order for every glyph, so
    the same glyph for every selector `alt`. -/
theorem alternate_lookup_correct (fx : Fixes) (root : Nat) (named : String → LookupId) (rs : List Rule)
    (hk : ∀ r ∈ rs, r.kind = .alternate)
    (hnd : (rs.flatMap Wf.targets).Nodup)
    (ign : Glyph → Bool) (alt : Nat) (rev : List Glyph) (g : Glyph) (suf : List Glyph) :
    (buildSubtables (rs.foldl (Builder.add fx root named) (.alternate []))).findSome?
        (fun st => OT.simpleSubtableStep ign alt st rev g suf)
      = Src.altStep alt rs rev g suf := by
  rw [foldl_add_alternate fx root named rs hk]
  simp only [buildSubtables, List.findSome?_cons, List.findSome?_nil, OT.simpleSubtableStep, Src.altStep]
  rw [lookup_foldl_mapInsert _ _ _ (by rw [altPairs_keys rs hk]; exact hnd)]
  have : rs.findSome? (Src.altOf · g) = (rs.flatMap altPairs).lookup g := by
    rw [← findSome_lookup_flatMap]
    apply congrArg (fun f => List.findSome? f rs)
    funext r
    exact (lookup_altPairs r g).symm
  rw [this]
  simp [List.lookup]
  cases (rs.flatMap altPairs).lookup g with
  | none => simp
  | some a =>
    simp only [Option.bind_some]
    generalize ((Option.map fun x => ([x], suf)) ∘ fun (x : List Glyph) => x[alt]?) a = o
    cases o <;> rfl

/-! single positioning -/

def sposPairs : Rule → List (Glyph × Value)
  | .spos t v => t.glyphs.map (·, v)
  | _ => []

theorem lookup_sposPairs (r : Rule) (g : Glyph) : (sposPairs r).lookup g = Src.sposOf r g := by
  cases r with
  | spos t v => simp only [sposPairs, Src.sposOf, lookup_map_const, GC.has]; rfl
  | _ => simp [sposPairs, Src.sposOf]

theorem sposPairs_keys (rs : List Rule) (hk : ∀ r ∈ rs, r.kind = .spos) :
    (rs.flatMap sposPairs).map (·.1) = rs.flatMap Wf.targets := by
  induction rs with
  | nil => rfl
  | cons r rs ih =>
    have hr := hk r (by simp)
    simp only [List.flatMap_cons, List.map_append, ih (fun r' h => hk r' (by simp [h]))]
    cases r <;> simp_all [Rule.kind, sposPairs, Wf.targets, Function.comp_def]

theorem foldl_add_spos (fx : Fixes) (root : Nat) (named : String → LookupId) (rs : List Rule)
    (hk : ∀ r ∈ rs, r.kind = .spos) (m : List (Glyph × Value)) :
    rs.foldl (Builder.add fx root named) (.spos m)
      = .spos ((rs.flatMap sposPairs).foldl (fun m p => mapInsert p.1 p.2 m) m) := by
  induction rs generalizing m with
  | nil => rfl
  | cons r rs ih =>
    have hr := hk r (by simp)
    have ht : ∀ r' ∈ rs, r'.kind = .spos := fun r' h => hk r' (by simp [h])
    cases r with
    | spos t v =>
      simp only [List.foldl_cons, Builder.add, List.flatMap_cons, List.foldl_append, sposPairs]
      rw [ih ht, List.foldl_map]
    | _ => simp [Rule.kind] at hr

/-- **Single positioning lookups.** -/
theorem spos_lookup_correct (fx : Fixes) (root : Nat) (named : String → LookupId) (rs : List Rule)
    (hk : ∀ r ∈ rs, r.kind = .spos)
    (hnd : (rs.flatMap Wf.targets).Nodup)
    (ign : Glyph → Bool) (rev : List PGlyph) (x : PGlyph) (suf : List PGlyph) :
    (buildSubtables (rs.foldl (Builder.add fx root named) (.spos []))).findSome?
        (fun st => OT.posSubtableStep ign st rev x suf)
      = Src.sposStep rs rev x suf := by
  have hkeys : ((rs.flatMap sposPairs).map (·.1)).Nodup := by rw [sposPairs_keys rs hk]; exact hnd
  have hsrc : rs.findSome? (Src.sposOf · x.1) = (rs.flatMap sposPairs).lookup x.1 := by
    rw [← findSome_lookup_flatMap]
    apply congrArg (fun f => List.findSome? f rs)
    funext r
    exact (lookup_sposPairs r x.1).symm
  rw [foldl_add_spos fx root named rs hk]
  simp only [buildSubtables, Src.sposStep, hsrc]
  split
  · rename_i hempty
    have hl := lookup_foldl_mapInsert (rs.flatMap sposPairs) [] x.1 hkeys
    rw [List.isEmpty_iff.mp hempty] at hl
    simp only [List.lookup] at hl
    cases hq : (rs.flatMap sposPairs).lookup x.1 with
    | none => simp
    | some v => rw [hq] at hl; simp at hl
  · simp only [List.findSome?_cons, List.findSome?_nil, OT.posSubtableStep]
    rw [lookup_foldl_mapInsert _ _ _ hkeys]
    simp [List.lookup]
    cases (rs.flatMap sposPairs).lookup x.1 <;> simp

end Fontc.FeaCompile
