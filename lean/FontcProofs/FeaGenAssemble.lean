/-
  C11: from the general top-level invariant to `shape = interp`.
-/
import FontcProofs.FeaGenTop
import FontcProofs.FeaAssemble

namespace Fontc.FeaCompile
open Cmp
set_option linter.unusedSimpArgs false

theorem TopInvG.ent_of_zip {fx : Fixes} {U : List (List Glyph)} {dls : List Sys} {es : List Src.Entry} {s : St}
    {ids : List LookupId} {used : List String} (hinv : TopInvG fx U dls es s ids used) (e : Src.Entry) (id : LookupId)
    (hm : (e, id) ∈ es.zip ids) :
    ∃ ls, CompiledRun fx s.attachIds s.filterIds e.lookup.flag e.lookup.rules id ls ∧ Placed s.gsub s.gpos id ls :=
  hinv.ents e.lookup id (mem_entPairs_of_zip hm)

theorem id_of_entryG {fx : Fixes} {U : List (List Glyph)} {dls : List Sys} {es : List Src.Entry} {s : St}
    {ids : List LookupId} {used : List String} (hinv : TopInvG fx U dls es s ids used) (e : Src.Entry) (id : LookupId)
    (hm : (e, id) ∈ es.zip ids) : id = mkId e.lookup.isPos id.idx := by
  obtain ⟨ls, hc, hp⟩ := hinv.ent_of_zip e id hm
  obtain ⟨hne, hk, hg, _⟩ := hc
  rw [entry_isPos e hne hk, ← hg]
  cases id with
  | gsub n => simp [mkId, Cmp.LookupId.isGpos, Cmp.LookupId.idx]
  | gpos n => simp [mkId, Cmp.LookupId.isGpos, Cmp.LookupId.idx]
  | empty => exact absurd hp (by simp [Placed])

theorem sel_sortedG {fx : Fixes} {U : List (List Glyph)} {dls : List Sys} {es : List Src.Entry} {s : St}
    {ids : List LookupId} {used : List String} (hinv : TopInvG fx U dls es s ids used)
    (script lang : Tag) (feats : List Tag) (isPos : Bool) :
    ((sel es ids script lang feats isPos).map (·.2.idx)).Pairwise (· < ·) := by
  have hlen := hinv.len
  have hsub : ((sel es ids script lang feats isPos).map (·.2)).Sublist ids := by
    have h1 : ((sel es ids script lang feats isPos).map (·.2)).Sublist ((es.zip ids).map (·.2)) :=
      List.Sublist.map _ List.filter_sublist
    rwa [zip_map_snd es ids hlen] at h1
  have hpw : ((sel es ids script lang feats isPos).map (·.2)).Pairwise idLt := hinv.ordered.sublist hsub
  have hall : ∀ x ∈ sel es ids script lang feats isPos, x.2 = mkId isPos x.2.idx := by
    intro x hx
    obtain ⟨hz, hc⟩ := List.mem_filter.mp hx
    simp only [Bool.and_eq_true, beq_iff_eq] at hc
    have := id_of_entryG hinv x.1 x.2 hz
    rw [hc.2] at this
    exact this
  generalize sel es ids script lang feats isPos = l at hpw hall
  induction l with
  | nil => simp
  | cons x l ih =>
    simp only [List.map_cons, List.pairwise_cons] at hpw ⊢
    refine ⟨?_, ih hpw.2 (fun y hy => hall y (by simp [hy]))⟩
    intro a ha
    obtain ⟨y, hy, rfl⟩ := List.mem_map.mp ha
    have h1 := hpw.1 y.2 (List.mem_map.mpr ⟨y, hy, rfl⟩)
    rw [hall x (by simp), hall y (by simp [hy])] at h1
    cases isPos <;> simpa [mkId, idLt] using h1

/-- The language system is requested with a language for which the table (`isPos`: GPOS) has a
    record, or there is no record for the script's default language system either (otherwise a client
    falls back to the default language system — see "assumptions"). -/
def LangOkFor (es : List Src.Entry) (isPos : Bool) (script lang : Tag) : Prop :=
  lang = "dflt" ∨
  (∃ e ∈ es, e.lookup.isPos = isPos ∧ ∃ tag, (tag, script, lang) ∈ e.regs) ∨
  (∀ e ∈ es, e.lookup.isPos = isPos → ∀ tag, (tag, script, "dflt") ∉ e.regs)

/-- the feature map has a non-empty list for `(script, lang)` in this table ↔ some entry of the table
    is registered for it -/
theorem counts_iff {fx : Fixes} {U : List (List Glyph)} {dls : List Sys} {es : List Src.Entry} {s : St}
    {ids : List LookupId} {used : List String} (hinv : TopInvG fx U dls es s ids used) (isPos : Bool) (script lang : Tag) :
    (∃ x ∈ s.features, x.1.2.1 = lang ∧ x.1.2.2 = script ∧ Counts isPos x) ↔
      ∃ e ∈ es, e.lookup.isPos = isPos ∧ ∃ tag, (tag, script, lang) ∈ e.regs := by
  constructor
  · rintro ⟨⟨⟨tag, lg, sc⟩, l⟩, hm, rfl, rfl, hc⟩
    simp only at hc ⊢
    have hlk := (lookup_eq_some_iff_mem' s.features hinv.featKeys (tag, lg, sc) l).mpr hm
    obtain ⟨b, hb⟩ : ∃ b, b ∈ lookupIdxs isPos l := by
      cases hq : lookupIdxs isPos l with
      | nil => exact absurd hq hc
      | cons b _ => exact ⟨b, by simp⟩
    rw [mem_lookupIdxs] at hb
    have := (hinv.feats tag lg sc (mkId isPos b)).mp (by rw [hlk]; exact hb)
    obtain ⟨e, hz, hk⟩ := this
    have hid := id_of_entryG hinv e _ hz
    rw [idx_mkId] at hid
    exact ⟨e, (List.of_mem_zip hz).1, ((mkId_inj _ _ _ _ hid).1).symm, tag, hk⟩
  · rintro ⟨e, he, hpos, tag, hk⟩
    obtain ⟨id, hz⟩ := exists_zip_of_mem es ids hinv.len e he
    have hid := id_of_entryG hinv e id hz
    rw [hpos] at hid
    have hmem := (hinv.feats tag lang script id).mpr ⟨e, hz, hk⟩
    cases hq : s.features.lookup (tag, lang, script) with
    | none => rw [hq] at hmem; simp at hmem
    | some l =>
      rw [hq] at hmem
      simp only [Option.getD_some] at hmem
      refine ⟨((tag, lang, script), l), (lookup_eq_some_iff_mem' s.features hinv.featKeys _ l).mp hq, rfl, rfl, ?_⟩
      intro hempty
      have : id.idx ∈ lookupIdxs isPos l := (mem_lookupIdxs isPos l id.idx).mpr (hid ▸ hmem)
      rw [hempty] at this
      simp at this

/-- **Active lookup indices of the compiled table** = indices of the entries active for the request. -/
theorem mem_active_of_topInvG {fx : Fixes} {U : List (List Glyph)} {dls : List Sys} {es : List Src.Entry} {s : St}
    {ids : List LookupId} {used : List String} (hinv : TopInvG fx U dls es s ids used) (isPos : Bool)
    (lookups : List OT.Lookup) (script lang : Tag) (hlang : LangOkFor es isPos script lang) (feats : List Tag) (a : Nat) :
    a ∈ OT.activeLookups (buildTable lookups isPos s.features) script lang feats ↔
      ∃ e, (e, mkId isPos a) ∈ es.zip ids ∧ e.active script lang feats = true := by
  have hrhs : ∀ e, (e, mkId isPos a) ∈ es.zip ids → e.active script lang feats = true →
      ∃ x ∈ s.features, x.1.2.1 = lang ∧ x.1.2.2 = script ∧ feats.contains x.1.1 = true ∧ a ∈ lookupIdxs isPos x.2 := by
    intro e hm hact
    obtain ⟨tag, hf, hc⟩ := (active_iff e script lang feats).mp hact
    have hk : (tag, script, lang) ∈ e.regs := by simpa using hc
    have hmem := (hinv.feats tag lang script _).mpr ⟨e, hm, hk⟩
    cases hq : s.features.lookup (tag, lang, script) with
    | none => rw [hq] at hmem; simp at hmem
    | some l =>
      rw [hq] at hmem
      simp only [Option.getD_some] at hmem
      exact ⟨((tag, lang, script), l), (lookup_eq_some_iff_mem' s.features hinv.featKeys _ l).mp hq, rfl, rfl, hf,
        (mem_lookupIdxs isPos l a).mpr hmem⟩
  by_cases hreg' : lang = "dflt" ∨ ∃ x ∈ s.features, x.1.2.1 = lang ∧ x.1.2.2 = script ∧ Counts isPos x
  · rw [mem_activeLookups_buildTable lookups isPos s.features script lang feats a hreg']
    constructor
    · rintro ⟨⟨⟨tag, lg, sc⟩, l⟩, hm, h1, h2, hf, ha⟩
      simp only at h1 h2 hf ha
      subst h1 h2
      have hlk := (lookup_eq_some_iff_mem' s.features hinv.featKeys (tag, lg, sc) l).mpr hm
      rw [mem_lookupIdxs] at ha
      obtain ⟨e, hz, hk⟩ := (hinv.feats tag lg sc (mkId isPos a)).mp (by rw [hlk]; exact ha)
      exact ⟨e, hz, (active_iff e sc lg feats).mpr ⟨tag, hf, by simpa using hk⟩⟩
    · rintro ⟨e, hm, hact⟩; exact hrhs e hm hact
  · have hnl : lang ≠ "dflt" := fun e => hreg' (Or.inl e)
    have h1 : ¬ ∃ x ∈ s.features, x.1.2.1 = lang ∧ x.1.2.2 = script ∧ Counts isPos x := fun h => hreg' (Or.inr h)
    have h2 : ¬ ∃ x ∈ s.features, x.1.2.1 = "dflt" ∧ x.1.2.2 = script ∧ Counts isPos x := by
      rw [counts_iff hinv]
      rcases hlang with h | h | h
      · exact absurd h hnl
      · exact absurd ((counts_iff hinv isPos script lang).mpr h) h1
      · rintro ⟨e, he, hpos, tag, hk⟩
        exact h e he hpos tag hk
    rw [activeLookups_buildTable_nil lookups isPos s.features script lang feats h1 h2]
    constructor
    · intro h; simp at h
    · rintro ⟨e, hm, hact⟩
      exfalso
      obtain ⟨x, hx, e1, e2, _, ha⟩ := hrhs e hm hact
      exact h1 ⟨x, hx, e1, e2, by intro he; rw [he] at ha; simp at ha⟩

/-- **From the invariant to the theorem.** -/
theorem correct_of_topInvG (fx : Fixes) (p : Program) (U : List (List Glyph)) (dls : List Sys) (s : St)
    (ids : List LookupId) (used : List String) (hinv : TopInvG fx U dls (Src.entries p) s ids used)
    (hents : ∀ e ∈ Src.entries p, GsubRunOk e.lookup.rules ∨ GposRunOk e.lookup.rules)
    (hgdef : (p.gdef.map (·.1)).Nodup)
    (hU1 : ∀ c ∈ U, c.Nodup) (hU2 : ∀ c ∈ U, ∀ c' ∈ U, c ≠ c' → ∀ g ∈ c, g ∉ c')
    (script lang : Tag) (hlang : ∀ isPos, LangOkFor (Src.entries p) isPos script lang)
    (feats : List Tag) (alt : Nat) (str : List Glyph) :
    shape ⟨buildTable s.gsub false s.features, buildTable s.gpos true s.features, buildGdef p s⟩ script lang feats alt str
      = interp p script lang feats alt str := by
  have hlen : (Src.entries p).length = ids.length := hinv.len
  have hatt : (s.attachIds.flatMap id).Nodup := attach_flatten_nodup U hU1 hU2 _ hinv.idsInv.1 hinv.attachU
  have hactive : ∀ (isPos : Bool) (lookups : List OT.Lookup),
      OT.activeLookups (buildTable lookups isPos s.features) script lang feats
        = (sel (Src.entries p) ids script lang feats isPos).map (·.2.idx) := by
    intro isPos lookups
    apply sorted_ext _ _ (activeLookups_sorted _ _ _ _) (sel_sortedG hinv script lang feats isPos)
    intro a
    rw [mem_active_of_topInvG hinv isPos lookups script lang (hlang isPos) feats a]
    simp only [List.mem_map, sel, List.mem_filter, Bool.and_eq_true, beq_iff_eq]
    constructor
    · rintro ⟨e, hm, hact⟩
      have hid := id_of_entryG hinv e _ hm
      rw [idx_mkId] at hid
      have := (mkId_inj _ _ _ _ hid).1
      exact ⟨(e, mkId isPos a), ⟨hm, hact, this.symm⟩, idx_mkId isPos a⟩
    · rintro ⟨⟨e, id⟩, ⟨hm, hact, hpos⟩, rfl⟩
      have hid := id_of_entryG hinv e id hm
      simp only at hpos
      rw [hpos] at hid
      exact ⟨e, hid ▸ hm, hact⟩
  apply shape_eq_interp_of p _ script lang feats alt
    ((sel (Src.entries p) ids script lang feats false).map fun x => (x.1, x.2.idx))
    ((sel (Src.entries p) ids script lang feats true).map fun x => (x.1, x.2.idx))
  · rw [List.map_map]
    have : ((fun x : Src.Entry × Nat => x.1) ∘ fun x : Src.Entry × LookupId => (x.1, x.2.idx)) = (·.1) := rfl
    rw [this, sel, zip_filter_map_fst _ _ hlen (fun e => e.active script lang feats && (e.lookup.isPos == false)),
      List.filter_filter]
    apply List.filter_congr
    intro e _
    cases e.lookup.isPos <;> simp [Bool.and_comm]
  · rw [List.map_map]
    have : ((fun x : Src.Entry × Nat => x.1) ∘ fun x : Src.Entry × LookupId => (x.1, x.2.idx)) = (·.1) := rfl
    rw [this, sel, zip_filter_map_fst _ _ hlen (fun e => e.active script lang feats && (e.lookup.isPos == true)),
      List.filter_filter]
    apply List.filter_congr
    intro e _
    cases e.lookup.isPos <;> simp [Bool.and_comm]
  · simp only [List.map_map]
    exact hactive false s.gsub
  · simp only [List.map_map]
    exact hactive true s.gpos
  · intro x hx
    obtain ⟨⟨e, id⟩, hsel, rfl⟩ := List.mem_map.mp hx
    obtain ⟨hz, hc⟩ := List.mem_filter.mp hsel
    simp only [Bool.and_eq_true, beq_iff_eq] at hc
    have hid := id_of_entryG hinv e id hz
    rw [hc.2] at hid
    obtain ⟨ls, hcomp, hpl⟩ := hinv.ent_of_zip e id hz
    have hmem : e ∈ Src.entries p := (List.of_mem_zip hz).1
    have hok : GsubRunOk e.lookup.rules := by
      rcases hents e hmem with h | h
      · exact h
      · have := entry_isPos e hcomp.1 hcomp.2.1
        rw [h.1, hc.2] at this
        simp [Kind.isPos] at this
    simp only [mkId, Bool.false_eq_true, ↓reduceIte] at hid
    rw [hid] at hcomp hpl
    have := run_applyGsub_correct fx p.gdef s.attachIds s.filterIds e.lookup.flag e.lookup.rules id.idx ls
      ⟨buildTable s.gsub false s.features, buildTable s.gpos true s.features, buildGdef p s⟩ hcomp hpl rfl hok hgdef hatt
      alt (Src.envOf (Src.entries p)) e.lookup.name
    exact this
  · intro x hx
    obtain ⟨⟨e, id⟩, hsel, rfl⟩ := List.mem_map.mp hx
    obtain ⟨hz, hc⟩ := List.mem_filter.mp hsel
    simp only [Bool.and_eq_true, beq_iff_eq] at hc
    have hid := id_of_entryG hinv e id hz
    rw [hc.2] at hid
    obtain ⟨ls, hcomp, hpl⟩ := hinv.ent_of_zip e id hz
    have hmem : e ∈ Src.entries p := (List.of_mem_zip hz).1
    have hok : GposRunOk e.lookup.rules := by
      rcases hents e hmem with h | h
      · have := entry_isPos e hcomp.1 hcomp.2.1
        rw [hc.2] at this
        rcases h with ⟨hm, _⟩ | ⟨hl, _⟩ | ⟨hl, _⟩
        · generalize headKind e.lookup.rules = k at hm this
          cases k <;> simp [Kind.isMapGsub, Kind.isPos] at hm this
        · rw [hl] at this; simp [Kind.isPos] at this
        · rw [hl] at this; simp [Kind.isPos] at this
      · exact h
    obtain ⟨hk, hnd⟩ := hok
    simp only [mkId, ↓reduceIte] at hid
    rw [hid] at hcomp hpl
    have := run_applyGpos_correct fx p.gdef s.attachIds s.filterIds e.lookup.flag e.lookup.rules id.idx ls
      ⟨buildTable s.gsub false s.features, buildTable s.gpos true s.features, buildGdef p s⟩ hcomp hpl rfl hk hnd hgdef hatt
      e.lookup.name
    exact this

end Fontc.FeaCompile
