import FontcProofs.SchedInv
namespace Fontc.Sched

theorem completeAll_isSome {l : List Id} {s : State} (hnd : l.Nodup)
    (h : ∀ a ∈ l, s.isPending a = true ∧ a ∉ s.success) : ∃ s', s.completeAll l = some s' := by
  induction l generalizing s with
  | nil => exact ⟨s, rfl⟩
  | cons a l ih =>
    obtain ⟨hp, hs⟩ := h a (by simp)
    have hc : s.completeOne a = some { s with pending := s.pending.filter (·.id ≠ a), success := a :: s.success } := by
      simp [State.completeOne, hp, hs]
    simp only [List.nodup_cons] at hnd
    have : ∀ b ∈ l, ({ s with pending := s.pending.filter (·.id ≠ a), success := a :: s.success } : State).isPending b = true ∧
        b ∉ ({ s with pending := s.pending.filter (·.id ≠ a), success := a :: s.success } : State).success := by
      intro b hb
      obtain ⟨hbp, hbs⟩ := h b (by simp [hb])
      have hba : b ≠ a := fun e => hnd.1 (e ▸ hb)
      obtain ⟨e, he, rfl⟩ := isPending_iff.1 hbp
      refine ⟨isPending_iff.2 ⟨e, ?_, rfl⟩, ?_⟩
      · simp [he, hba]
      · simp [hba, hbs]
    obtain ⟨s', hs'⟩ := ih hnd.2 this
    exact ⟨s', by rw [State.completeAll, hc]; exact hs'⟩

theorem complete_isSome {s : State} {id : Id} (hnd : (id :: s.alsoOf id).Nodup)
    (h : ∀ a ∈ id :: s.alsoOf id, s.isPending a = true ∧ a ∉ s.success) : ∃ s', s.complete id = some s' := by
  obtain ⟨s', hs'⟩ := completeAll_isSome hnd h
  refine ⟨s', ?_⟩
  simp only [State.completeAll] at hs'
  unfold State.complete
  cases hc : s.completeOne id with
  | none => simp [hc] at hs'
  | some s1 =>
    simp only [hc, Option.bind_some] at hs' ⊢
    exact hs'

theorem WF.complete_pre {s : State} {o : Entry} (w : WF s) (ho : o ∈ s.pending) (hreal : o.kind ≠ .alsoComplete) :
    (o.id :: s.alsoOf o.id).Nodup ∧ ∀ a ∈ o.id :: s.alsoOf o.id, s.isPending a = true ∧ a ∉ s.success := by
  refine ⟨w.also_nodup o ho hreal, ?_⟩
  intro a ha
  simp at ha
  rcases ha with rfl | ha
  · exact ⟨isPending_iff.2 ⟨o, ho, rfl⟩, w.disjoint o ho⟩
  · obtain ⟨e, he, rfl, _⟩ := w.also_pending o ho hreal a ha
    exact ⟨isPending_iff.2 ⟨e, he, rfl⟩, w.disjoint e he⟩

/-- `complete_one` / `mark_also_completed` never panic on a completion message the worker really sent -/
theorem receive_isSome {s : State} {id : Id} (w : WF s) (hin : id ∈ s.inflight) : ∃ s', s.receive id = some s' := by
  obtain ⟨o, ho, rfl, hrun⟩ := w.inflight_running id hin
  have hreal := w.running_real o ho hrun
  have hns : o.id ∉ s.success := w.disjoint o ho
  obtain ⟨hnd, hall⟩ := w.complete_pre ho hreal
  obtain ⟨s', hs'⟩ := @complete_isSome { s with inflight := s.inflight.erase o.id, delivered := o.id :: s.delivered } o.id hnd hall
  refine ⟨s', ?_⟩
  unfold State.receive
  simp [hin, hns, hs']

/-- the worker's counter decrements never underflow or miss a counter -/
theorem finish_isSome {s : State} {e : Entry} (w : WF s) (he : e ∈ s.pending) (hrun : e.running = true)
    (hni : e.id ∉ s.inflight) : ∃ s', s.finish e.id = some s' := by
  have hreal := w.running_real e he hrun
  have hact : e ∈ s.active := by simp [State.active]; exact ⟨he, hreal, hni⟩
  have hdec : ∃ cs, ctrDecAll s.counters (s.counterDiscs e.id) = some cs := by
    apply ctrDecAll_isSome
    intro d
    have h2 := w.counters d
    have h3 := count_flatMap_remove (fun p => s.counterDiscs p.id) hact (nodup_filter_ids _ w.nodup) d
    change ctrGet s.counters d = (s.active.flatMap (fun p => s.counterDiscs p.id)).count d at h2
    omega
  obtain ⟨cs, hcs⟩ := hdec
  have hent : s.entry? e.id = some e := by
    unfold State.entry?
    cases hf : s.pending.find? (fun x => x.id = e.id) with
    | none =>
      have := List.find?_eq_none.1 hf e he
      simp at this
    | some e' =>
      have h1 := List.mem_of_find?_eq_some hf
      have h2 := List.find?_some hf
      simp at h2
      rw [w.unique h1 he h2]
  unfold State.finish
  simp [hent, hrun, hni, hcs]

/-- a BE-glyph skip of a job that is not running never panics -/
theorem skip_isSome {s : State} {id : Id} (w : WF s)
    (h : ∀ e ∈ s.pending, e.id = id → e.running = false ∧ e.kind ≠ .alsoComplete) : ∃ s', s.skip id = some s' := by
  unfold State.skip
  cases hent : s.entry? id with
  | none => exact ⟨s, rfl⟩
  | some e =>
    obtain ⟨he, rfl⟩ := entry?_some hent
    obtain ⟨hrun, hreal⟩ := h e he rfl
    have hni : e.id ∉ s.inflight := by
      intro hin
      obtain ⟨e', he', heid, her⟩ := w.inflight_running e.id hin
      have := w.unique he' he heid
      subst this
      simp [hrun] at her
    have hact : e ∈ s.active := by simp [State.active]; exact ⟨he, hreal, hni⟩
    have hdec : ∃ cs, ctrDecAll s.counters (s.counterDiscs e.id) = some cs := by
      apply ctrDecAll_isSome
      intro d
      have h2 := w.counters d
      have h3 := count_flatMap_remove (fun p => s.counterDiscs p.id) hact (nodup_filter_ids _ w.nodup) d
      change ctrGet s.counters d = (s.active.flatMap (fun p => s.counterDiscs p.id)).count d at h2
      omega
    obtain ⟨cs, hcs⟩ := hdec
    obtain ⟨hnd, hall⟩ := w.complete_pre he hreal
    obtain ⟨s', hs'⟩ := @complete_isSome { s with counters := cs, skipped := e.id :: s.skipped } e.id hnd hall
    exact ⟨s', by simp [hrun, hreal, hcs, hs']⟩


/-! ### what a launch guarantees about the job's dependencies -/

theorem launch_canRun {s s' : State} {j : Id} (h : s.launch j = some s') :
    ∃ e ∈ s.pending, e.id = j ∧ e.kind ≠ .alsoComplete ∧ e.running = false ∧ s.canRun e = true ∧
      s'.launched = (j, e.reads) :: s.launched := by
  obtain ⟨e, he, hid, hl, rfl⟩ := launch_spec h
  simp [State.launchable] at hl
  exact ⟨e, he, hid, hl.1.1, hl.1.2, hl.2, rfl⟩

/-- `SpecificInstanceOfVariant(k)`: `k` is complete — or was never inserted (the scheduler cannot tell the difference) -/
theorem specific_dep_ok {s : State} {e : Entry} {ds : List Dep} {k : Id} (w : WF s)
    (hc : s.canRun e = true) (hr : e.reads = .set ds) (hk : Dep.specific k ∈ ds) :
    k ∈ s.success ∨ k ∉ s.inserted := by
  simp only [State.canRun, hr, List.all_eq_true] at hc
  have := hc _ hk
  simp only [State.depFulfilled, Bool.not_eq_true'] at this
  by_cases hi : k ∈ s.inserted
  · rcases w.inserted_cases k hi with h | h
    · rw [h] at this; simp at this
    · exact Or.inl h
  · exact Or.inr hi

/-- `Variant(d)`: the worker of the owner of every pending entry of discriminant `d` has finished -/
theorem variant_dep_ok {s : State} {e : Entry} {ds : List Dep} {d : String} (w : WF s)
    (hc : s.canRun e = true) (hr : e.reads = .set ds) (hv : Dep.variant d ∈ ds) :
    ∀ x ∈ s.pending, x.id.disc = d → x.owner ∈ s.inflight := by
  simp only [State.canRun, hr, List.all_eq_true] at hc
  have h0 := hc _ hv
  simp only [State.depFulfilled, decide_eq_true_eq] at h0
  rw [w.counters d] at h0
  have hnot : d ∉ s.slots := List.count_eq_zero.1 h0
  intro x hx hd
  apply Classical.byContradiction
  intro hni
  apply hnot
  simp only [State.slots, List.mem_flatMap]
  by_cases hk : x.kind = .alsoComplete
  · obtain ⟨p, hp, hpid, hpk, hin⟩ := w.owner_also x hx hk
    refine ⟨p, ?_, ?_⟩
    · simp [State.active]; exact ⟨hp, hpk, by rw [hpid]; exact hni⟩
    · simp only [State.counterDiscs, List.mem_cons, List.mem_map]
      right; exact ⟨x.id, by rw [hpid]; exact hin, hd⟩
  · have ho := w.owner_real x hx hk
    refine ⟨x, ?_, ?_⟩
    · simp [State.active]; exact ⟨hx, hk, by rw [← ho]; exact hni⟩
    · simp [State.counterDiscs, hd]

/-- `All`: nothing else is pending -/
theorem all_dep_ok {s : State} {e : Entry} (w : WF s) (hc : s.canRun e = true) (hr : e.reads = .all) :
    ∀ k ∈ s.inserted, k = e.id ∨ k ∈ s.success := by
  simp only [State.canRun, hr, Bool.and_eq_true, List.all_eq_true, decide_eq_true_eq] at hc
  intro k hk
  rcases w.inserted_cases k hk with h | h
  · obtain ⟨x, hx, rfl⟩ := isPending_iff.1 h
    exact Or.inl (hc.2 x hx)
  · exact Or.inr h

end Fontc.Sched
