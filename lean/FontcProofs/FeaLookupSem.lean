/-
  C11: from "the lookup of a run sits at its id" to "applying that lookup to a string is applying
  the source lookup" — flags, pass and per-type correctness put together (non-contextual types).
-/
import FontcProofs.FeaSimRun
import FontcProofs.FeaSubst
import FontcProofs.FeaGlue
import FontcProofs.FeaLig

namespace Fontc.FeaCompile
open Cmp
set_option linter.unusedSimpArgs false

theorem any_kind_of_homogeneous (rules : List Rule) (k k' : Kind) (hne : rules ≠ [])
    (h : ∀ r ∈ rules, r.kind = k) : rules.any (·.kind == k') = (k == k') := by
  cases rules with
  | nil => exact absurd rfl hne
  | cons r rs =>
    rw [Bool.eq_iff_iff]
    simp only [List.any_eq_true, beq_iff_eq]
    constructor
    · rintro ⟨x, hx, e⟩; rw [← e, h x hx]
    · intro e; exact ⟨r, by simp, by rw [h r (by simp), e]⟩

theorem any_isPos_of_homogeneous (rules : List Rule) (k : Kind) (hne : rules ≠ [])
    (h : ∀ r ∈ rules, r.kind = k) : rules.any (·.kind.isPos) = k.isPos := by
  cases rules with
  | nil => exact absurd rfl hne
  | cons r rs =>
    rw [Bool.eq_iff_iff]
    simp only [List.any_eq_true]
    constructor
    · rintro ⟨x, hx, e⟩; rw [← h x hx]; exact e
    · intro e; exact ⟨r, by simp, by rw [h r (by simp)]; exact e⟩

/-- a lookup without contextual subtables: nested lookups never come into play -/
theorem lookupStep_simple (gdef : OT.Gdef) (alt : Nat) (lookups : List OT.Lookup) (d : Nat) (l : OT.Lookup)
    (h : ∀ st ∈ l.subtables, ∀ ign rev g suf, OT.ctxSubtableMatch ign st rev g suf = none)
    (rev : List Glyph) (g : Glyph) (suf : List Glyph) :
    OT.lookupStep gdef alt lookups d l rev g suf
      = l.subtables.findSome? fun st => OT.simpleSubtableStep (l.ign gdef) alt st rev g suf := by
  cases d with
  | zero => rfl
  | succ d =>
    simp only [OT.lookupStep]
    generalize hsts : l.subtables = sts at h
    clear hsts
    induction sts with
    | nil => rfl
    | cons st sts ih =>
      simp only [List.findSome?_cons, h st (by simp), Option.map_none]
      cases OT.simpleSubtableStep (l.ign gdef) alt st rev g suf with
      | some r => rfl
      | none => exact ih (fun st' h' => h st' (by simp [h']))

/-- kinds whose lookups are keyed by the glyph at the current position -/
def Kind.isMapGsub : Kind → Bool
  | .single => true
  | .multiple => true
  | .alternate => true
  | _ => false

theorem map_run_step_correct (fx : Fixes) (root : Nat) (named : String → LookupId) (rules : List Rule) (k : Kind)
    (hne : rules ≠ []) (hk : ∀ r ∈ rules, r.kind = k) (hmap : k.isMapGsub = true)
    (hnd : (rules.flatMap Wf.targets).Nodup)
    (gdefSrc : List (Glyph × Nat)) (env : String → Option Src.Lookup) (f : Flag) (name : Option String)
    (gdef : OT.Gdef) (cf : CFlag) (alt : Nat) (lookups : List OT.Lookup) (d : Nat)
    (rev : List Glyph) (g : Glyph) (suf : List Glyph) :
    OT.lookupStep gdef alt lookups d (buildLookup cf (rules.foldl (Builder.add fx root named) (Builder.new k))) rev g suf
      = Src.lookupStep gdefSrc alt env ⟨name, f, rules⟩ rev g suf := by
  have hchain : Src.Lookup.isChain ⟨name, f, rules⟩ = false := by
    simp only [Src.Lookup.isChain, any_kind_of_homogeneous rules k .chain hne hk]
    cases k <;> simp_all [Kind.isMapGsub]
  have hlig : Src.Lookup.isLig ⟨name, f, rules⟩ = false := by
    simp only [Src.Lookup.isLig, any_kind_of_homogeneous rules k .ligature hne hk]
    cases k <;> simp_all [Kind.isMapGsub]
  have halt : Src.Lookup.isAlt ⟨name, f, rules⟩ = (k == .alternate) := by
    simp only [Src.Lookup.isAlt, any_kind_of_homogeneous rules k .alternate hne hk]
  simp only [Src.lookupStep, hchain, Src.simpleStep, hlig, halt, Bool.false_eq_true, ↓reduceIte]
  cases k with
  | single =>
    rw [lookupStep_simple]
    · simp only [buildLookup]
      exact single_lookup_correct fx root named rules hk hnd _ alt rev g suf
    · intro st hst
      simp only [buildLookup, Builder.new, foldl_add_single fx root named rules hk, buildSubtables] at hst
      split at hst
      · simp at hst
      · simp at hst; subst hst; intros; rfl
  | multiple =>
    rw [lookupStep_simple]
    · simp only [buildLookup]
      exact multiple_lookup_correct fx root named rules (fun r hr => Or.inr (hk r hr)) hnd _ alt rev g suf
    · intro st hst
      simp only [buildLookup, Builder.new, foldl_add_multiple fx root named rules (fun r hr => Or.inr (hk r hr)),
        buildSubtables] at hst
      simp at hst; subst hst; intros; rfl
  | alternate =>
    rw [lookupStep_simple]
    · simp only [buildLookup]
      exact alternate_lookup_correct fx root named rules hk hnd _ alt rev g suf
    · intro st hst
      simp only [buildLookup, Builder.new, foldl_add_alternate fx root named rules hk, buildSubtables] at hst
      simp at hst; subst hst; intros; rfl
  | _ => simp [Kind.isMapGsub] at hmap

/-- a run of ligature rules -/
theorem lig_run_step_correct (fx : Fixes) (root : Nat) (named : String → LookupId) (rules : List Rule)
    (hne : rules ≠ []) (hk : ∀ r ∈ rules, r.kind = .ligature)
    (hnd : (rules.flatMap Wf.ligSeqs).Nodup) (hcomp : ∀ r ∈ rules, ∀ ts x, r = Rule.ligature ts x → ts ≠ [])
    (gdefSrc : List (Glyph × Nat)) (env : String → Option Src.Lookup) (f : Flag) (name : Option String)
    (gdef : OT.Gdef) (cf : CFlag) (hign : ∀ g, OT.ignored gdef cf.1 cf.2 g = Src.ignored gdefSrc f g)
    (alt : Nat) (lookups : List OT.Lookup) (d : Nat) (rev : List Glyph) (g : Glyph) (suf : List Glyph) :
    OT.lookupStep gdef alt lookups d (buildLookup cf (rules.foldl (Builder.add fx root named) (Builder.new .ligature))) rev g suf
      = Src.lookupStep gdefSrc alt env ⟨name, f, rules⟩ rev g suf := by
  have hchain : Src.Lookup.isChain ⟨name, f, rules⟩ = false := by
    simp only [Src.Lookup.isChain, any_kind_of_homogeneous rules .ligature .chain hne hk]; rfl
  have hlig : Src.Lookup.isLig ⟨name, f, rules⟩ = true := by
    simp only [Src.Lookup.isLig, any_kind_of_homogeneous rules .ligature .ligature hne hk]; rfl
  simp only [Src.lookupStep, hchain, Src.simpleStep, hlig, Bool.false_eq_true, ↓reduceIte]
  rw [lookupStep_simple]
  · have hfun : OT.Lookup.ign gdef (buildLookup cf (rules.foldl (Builder.add fx root named) (Builder.new .ligature)))
        = Src.ignored gdefSrc f := by
      funext y; simp only [OT.Lookup.ign, buildLookup]; exact hign y
    rw [hfun]
    simp only [buildLookup]
    exact lig_lookup_correct fx root named rules hk hnd hcomp _ alt rev g suf
  · intro st hst
    simp only [buildLookup, Builder.new, foldl_add_ligature fx root named rules hk, buildSubtables] at hst
    split at hst
    · simp at hst
    · simp [buildLig] at hst; subst hst; intros; rfl

/-- a substitution lookup of the source for which the per-lookup correctness is proved -/
def GsubRunOk (rules : List Rule) : Prop :=
  ((headKind rules).isMapGsub = true ∧ (rules.flatMap Wf.targets).Nodup) ∨
  (headKind rules = .ligature ∧ (rules.flatMap Wf.ligSeqs).Nodup ∧
    ∀ r ∈ rules, ∀ ts x, r = Rule.ligature ts x → ts ≠ [])

/-- a positioning lookup of the source for which the per-lookup correctness is proved -/
def GposRunOk (rules : List Rule) : Prop :=
  headKind rules = .spos ∧ (rules.flatMap Wf.targets).Nodup

theorem builtLookups_nonchain (cf : CFlag) (b : Builder) (h : b.kind ≠ .chain) : builtLookups cf b = [buildLookup cf b] := by
  cases b <;> simp_all [builtLookups, Builder.kind]

/-- **A substitution run at its id** (single / multiple / alternate / ligature): the table lookup
    does to every string what the source lookup does. -/
theorem run_applyGsub_correct (fx : Fixes) (gdefSrc : List (Glyph × Nat)) (aIds fIds : List (List Glyph))
    (f : Flag) (rules : List Rule) (n : Nat) (ls : List OT.Lookup) (t : OT.Tables)
    (hc : CompiledRun fx aIds fIds f rules (.gsub n) ls) (hp : Placed t.gsub.lookups t.gpos.lookups (.gsub n) ls)
    (hgdef : t.gdef = gdefOf gdefSrc aIds fIds)
    (hok : GsubRunOk rules)
    (hg : (gdefSrc.map (·.1)).Nodup) (ha : (aIds.flatMap id).Nodup)
    (alt : Nat) (env : String → Option Src.Lookup) (name : Option String) :
    ∃ L, t.gsub.lookups[n]? = some L ∧
      ∀ str, OT.applyGsub t alt L str = Src.applyGsub gdefSrc alt env ⟨name, f, rules⟩ str := by
  obtain ⟨hne, hk, _, cf, named, root, hcf, _, hls⟩ := hc
  have hkind : (rules.foldl (Builder.add fx root named) (Builder.new (headKind rules))).kind ≠ .chain := by
    rw [Builder.foldl_add_kind, Builder.new_kind]
    rcases hok with ⟨hmap, _⟩ | ⟨hl, _⟩
    · intro e; rw [e] at hmap; simp [Kind.isMapGsub] at hmap
    · rw [hl]; simp
  rw [builtLookups_nonchain cf _ hkind] at hls
  subst hls
  refine ⟨_, hp.head, fun str => ?_⟩
  have hign : ∀ g, OT.ignored t.gdef cf.1 cf.2 g = Src.ignored gdefSrc f g := by
    intro g; rw [hgdef]; exact ignored_correct gdefSrc aIds fIds cf f hg ha hcf g
  simp only [OT.applyGsub, Src.applyGsub]
  rw [OT.pass_eq_src]
  apply Src.pass_congr
  · intro g
    simp only [OT.Lookup.ign, buildLookup]
    exact hign g
  · intro rev g suf
    rcases hok with ⟨hmap, hnd⟩ | ⟨hl, hnd, hcomp⟩
    · exact map_run_step_correct fx root named rules (headKind rules) hne hk hmap hnd gdefSrc env f name t.gdef cf alt _ _ rev g suf
    · rw [hl] at hk ⊢
      exact lig_run_step_correct fx root named rules hne hk hnd hcomp gdefSrc env f name t.gdef cf hign alt _ _ rev g suf

/-- **A single-positioning run at its id.** -/
theorem run_applyGpos_correct (fx : Fixes) (gdefSrc : List (Glyph × Nat)) (aIds fIds : List (List Glyph))
    (f : Flag) (rules : List Rule) (n : Nat) (ls : List OT.Lookup) (t : OT.Tables)
    (hc : CompiledRun fx aIds fIds f rules (.gpos n) ls) (hp : Placed t.gsub.lookups t.gpos.lookups (.gpos n) ls)
    (hgdef : t.gdef = gdefOf gdefSrc aIds fIds)
    (hkind : headKind rules = .spos) (hnd : (rules.flatMap Wf.targets).Nodup)
    (hg : (gdefSrc.map (·.1)).Nodup) (ha : (aIds.flatMap id).Nodup) (name : Option String) :
    ∃ L, t.gpos.lookups[n]? = some L ∧
      ∀ str, OT.applyGpos t L str = Src.applyGpos gdefSrc ⟨name, f, rules⟩ str := by
  obtain ⟨hne, hk, _, cf, named, root, hcf, _, hls⟩ := hc
  rw [hkind] at hk hls
  have hkb : (rules.foldl (Builder.add fx root named) (Builder.new .spos)).kind ≠ .chain := by
    rw [Builder.foldl_add_kind, Builder.new_kind]; simp
  rw [builtLookups_nonchain cf _ hkb] at hls
  subst hls
  refine ⟨_, hp.head_gpos, fun str => ?_⟩
  simp only [OT.applyGpos, Src.applyGpos]
  rw [OT.ppass_eq_src]
  apply Src.ppass_congr
  · intro g
    simp only [OT.Lookup.ign, buildLookup, hgdef]
    exact ignored_correct gdefSrc aIds fIds cf f hg ha hcf g
  · intro rev x suf
    have hsk : Src.Lookup.kind ⟨name, f, rules⟩ = .spos := by
      cases rules with
      | nil => exact absurd rfl hne
      | cons r rs => simp [Src.Lookup.kind, hk r (by simp)]
    simp only [Src.posStep, hsk, OT.posLookupStep, buildLookup]
    exact spos_lookup_correct fx root named rules hk hnd _ rev x suf

/-! a decidable form of the per-lookup conditions -/

def ligHasComps : Rule → Bool
  | .ligature [] _ => false
  | _ => true

/-- the lookup is of a type, and satisfies the conditions, for which correctness is proved -/
def runOkB (rules : List Rule) : Bool :=
  ((headKind rules).isMapGsub && decide (rules.flatMap Wf.targets).Nodup)
  || (headKind rules == .ligature && decide (rules.flatMap Wf.ligSeqs).Nodup && rules.all ligHasComps)
  || (headKind rules == .spos && decide (rules.flatMap Wf.targets).Nodup)

theorem runOk_of_runOkB (rules : List Rule) (h : runOkB rules = true) : GsubRunOk rules ∨ GposRunOk rules := by
  simp only [runOkB, Bool.or_eq_true, Bool.and_eq_true, decide_eq_true_eq, beq_iff_eq, List.all_eq_true] at h
  rcases h with (⟨h1, h2⟩ | ⟨⟨h1, h2⟩, h3⟩) | ⟨h1, h2⟩
  · exact Or.inl (Or.inl ⟨h1, h2⟩)
  · refine Or.inl (Or.inr ⟨h1, h2, ?_⟩)
    intro r hr ts x e
    have := h3 r hr
    subst e
    cases ts with
    | nil => simp [ligHasComps] at this
    | cons _ _ => simp
  · exact Or.inr ⟨h1, h2⟩

end Fontc.FeaCompile
