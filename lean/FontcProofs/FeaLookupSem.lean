/-
  C11: from "the lookup of a run sits at its id" to "applying that lookup to a string is applying
  the source lookup" — flags, pass and per-type correctness put together (non-contextual types).
-/
import FontcProofs.FeaSimRun
import FontcProofs.FeaSubst
import FontcProofs.FeaGlue
import FontcProofs.FeaLig

namespace Fontc.FeaCompile
open Cmp
set_option linter.unusedSimpArgs false

theorem any_kind_of_homogeneous (rules : List Rule) (k k' : Kind) (hne : rules ≠ [])
    (h : ∀ r ∈ rules, r.kind = k) : rules.any (·.kind == k') = (k == k') := by
  cases rules with
  | nil => exact absurd rfl hne
  | cons r rs =>
    rw [Bool.eq_iff_iff]
    simp only [List.any_eq_true, beq_iff_eq]
    constructor
    · rintro ⟨x, hx, e⟩; rw [← e, h x hx]
    · intro e; exact ⟨r, by simp, by rw [h r (by simp), e]⟩

theorem any_isPos_of_homogeneous (rules : List Rule) (k : Kind) (hne : rules ≠ [])
    (h : ∀ r ∈ rules, r.kind = k) : rules.any (·.kind.isPos) = k.isPos := by
  cases rules with
  | nil => exact absurd rfl hne
  | cons r rs =>
    rw [Bool.eq_iff_iff]
    simp only [List.any_eq_true]
    constructor
    · rintro ⟨x, hx, e⟩; rw [← h x hx]; exact e
    · intro e; exact ⟨r, by simp, by rw [h r (by simp)]; exact e⟩

/-- a lookup without contextual subtables: nested lookups never come into play -/
theorem lookupStep_simple (gdef : OT.Gdef) (alt : Nat) (lookups : List OT.Lookup) (d : Nat) (l : OT.Lookup)
    (h : ∀ st ∈ l.subtables, ∀ ign rev g suf, OT.ctxSubtableMatch ign st rev g suf = none)
    (rev : List Glyph) (g : Glyph) (suf : List Glyph) :
    OT.lookupStep gdef alt lookups d l rev g suf
      = l.subtables.findSome? fun st => OT.simpleSubtableStep (l.ign gdef) alt st rev g suf := by
  cases d with
  | zero => rfl
  | succ d =>
    simp only [OT.lookupStep]
    generalize hsts : l.subtables = sts at h
    clear hsts
    induction sts with
    | nil => rfl
    | cons st sts ih =>
      simp only [List.findSome?_cons, h st (by simp), Option.map_none]
      cases OT.simpleSubtableStep (l.ign gdef) alt st rev g suf with
      | some r => rfl
      | none => exact ih (fun st' h' => h st' (by simp [h']))

/-- kinds whose lookups are keyed by the glyph at the current position -/
def Kind.isMapGsub : Kind → Bool
  | .single => true
  | .multiple => true
  | .alternate => true
  | _ => false

theorem map_run_step_correct (fx : Fixes) (root : Nat) (named : String → LookupId) (rules : List Rule) (k : Kind)
    (hne : rules ≠ []) (hk : ∀ r ∈ rules, r.kind = k) (hmap : k.isMapGsub = true)
    (hnd : (rules.flatMap Wf.targets).Nodup)
    (gdefSrc : List (Glyph × Nat)) (env : String → Option Src.Lookup) (f : Flag) (name : Option String)
    (gdef : OT.Gdef) (cf : CFlag) (alt : Nat) (lookups : List OT.Lookup) (d : Nat)
    (rev : List Glyph) (g : Glyph) (suf : List Glyph) :
    OT.lookupStep gdef alt lookups d (buildLookup cf (rules.foldl (Builder.add fx root named) (Builder.new k))) rev g suf
      = Src.lookupStep gdefSrc alt env ⟨name, f, rules⟩ rev g suf := by
  have hchain : Src.Lookup.isChain ⟨name, f, rules⟩ = false := by
    simp only [Src.Lookup.isChain, any_kind_of_homogeneous rules k .chain hne hk]
    cases k <;> simp_all [Kind.isMapGsub]
  have hlig : Src.Lookup.isLig ⟨name, f, rules⟩ = false := by
    simp only [Src.Lookup.isLig, any_kind_of_homogeneous rules k .ligature hne hk]
    cases k <;> simp_all [Kind.isMapGsub]
  have halt : Src.Lookup.isAlt ⟨name, f, rules⟩ = (k == .alternate) := by
    simp only [Src.Lookup.isAlt, any_kind_of_homogeneous rules k .alternate hne hk]
  simp only [Src.lookupStep, hchain, Src.simpleStep, hlig, halt, Bool.false_eq_true, ↓reduceIte]
  cases k with
  | single =>
    rw [lookupStep_simple]
    · simp only [buildLookup]
      exact single_lookup_correct fx root named rules hk hnd _ alt rev g suf
    · intro st hst
      simp only [buildLookup, Builder.new, foldl_add_single fx root named rules hk, buildSubtables] at hst
      split at hst
      · simp at hst
      · simp at hst; subst hst; intros; rfl
  | multiple =>
    rw [lookupStep_simple]
    · simp only [buildLookup]
      exact multiple_lookup_correct fx root named rules (fun r hr => Or.inr (hk r hr)) hnd _ alt rev g suf
    · intro st hst
      simp only [buildLookup, Builder.new, foldl_add_multiple fx root named rules (fun r hr => Or.inr (hk r hr)),
        buildSubtables] at hst
      simp at hst; subst hst; intros; rfl
  | alternate =>
    rw [lookupStep_simple]
    · simp only [buildLookup]
      exact alternate_lookup_correct fx root named rules hk hnd _ alt rev g suf
    · intro st hst
      simp only [buildLookup, Builder.new, foldl_add_alternate fx root named rules hk, buildSubtables] at hst
      simp at hst; subst hst; intros; rfl
  | _ => simp [Kind.isMapGsub] at hmap

/-- a run of ligature rules -/
theorem lig_run_step_correct (fx : Fixes) (root : Nat) (named : String → LookupId) (rules : List Rule)
    (hne : rules ≠ []) (hk : ∀ r ∈ rules, r.kind = .ligature)
    (hnd : (rules.flatMap Wf.ligSeqs).Nodup) (hcomp : ∀ r ∈ rules, ∀ ts x, r = Rule.ligature ts x → ts ≠ [])
    (gdefSrc : List (Glyph × Nat)) (env : String → Option Src.Lookup) (f : Flag) (name : Option String)
    (gdef : OT.Gdef) (cf : CFlag) (hign : ∀ g, OT.ignored gdef cf.1 cf.2 g = Src.ignored gdefSrc f g)
    (alt : Nat) (lookups : List OT.Lookup) (d : Nat) (rev : List Glyph) (g : Glyph) (suf : List Glyph) :
    OT.lookupStep gdef alt lookups d (buildLookup cf (rules.foldl (Builder.add fx root named) (Builder.new .ligature))) rev g suf
      = Src.lookupStep gdefSrc alt env ⟨name, f, rules⟩ rev g suf := by
  have hchain : Src.Lookup.isChain ⟨name, f, rules⟩ = false := by
    simp only [Src.Lookup.isChain, any_kind_of_homogeneous rules .ligature .chain hne hk]; rfl
  have hlig : Src.Lookup.isLig ⟨name, f, rules⟩ = true := by
    simp only [Src.Lookup.isLig, any_kind_of_homogeneous rules .ligature .ligature hne hk]; rfl
  simp only [Src.lookupStep, hchain, Src.simpleStep, hlig, Bool.false_eq_true, ↓reduceIte]
  rw [lookupStep_simple]
  · have hfun : OT.Lookup.ign gdef (buildLookup cf (rules.foldl (Builder.add fx root named) (Builder.new .ligature)))
        = Src.ignored gdefSrc f := by
      funext y; simp only [OT.Lookup.ign, buildLookup]; exact hign y
    rw [hfun]
    simp only [buildLookup]
    exact lig_lookup_correct fx root named rules hk hnd hcomp _ alt rev g suf
  · intro st hst
    simp only [buildLookup, Builder.new, foldl_add_ligature fx root named rules hk, buildSubtables] at hst
    split at hst
    · simp at hst
    · simp [buildLig] at hst; subst hst; intros; rfl

end Fontc.FeaCompile
