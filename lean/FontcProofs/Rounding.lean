/-
  Facts about the rounding functions of FontcModel/Basic.lean (`roundTiesEven`, `otRound`, `ratAbs`,
  `Rounding.apply`).  Shared by several properties; core Lean only.
-/
import FontcModel.Basic

namespace Fontc

/-! ### `ratAbs` -/

theorem ratAbs_le_iff (x c : Rat) : ratAbs x ≤ c ↔ -c ≤ x ∧ x ≤ c := by
  unfold ratAbs; split <;> grind

theorem ratAbs_lt_iff (x c : Rat) : ratAbs x < c ↔ -c < x ∧ x < c := by
  unfold ratAbs; split <;> grind

theorem ratAbs_nonneg (x : Rat) : 0 ≤ ratAbs x := by
  unfold ratAbs; split <;> grind

theorem ratAbs_zero : ratAbs 0 = 0 := by
  unfold ratAbs; split <;> grind

theorem ratAbs_neg (x : Rat) : ratAbs (-x) = ratAbs x := by
  unfold ratAbs; split <;> split <;> grind

theorem ratAbs_sub_comm (x y : Rat) : ratAbs (x - y) = ratAbs (y - x) := by
  unfold ratAbs; split <;> split <;> grind

theorem ratAbs_eq_zero_iff (x : Rat) : ratAbs x = 0 ↔ x = 0 := by
  unfold ratAbs; split <;> grind

/-! ### `roundTiesEven` (f64::round_ties_even) -/

/-- Two-sided form: `-1/2 ≤ roundTiesEven x − x ≤ 1/2`. -/
theorem roundTiesEven_sub_bounds (x : Rat) :
    -(1/2 : Rat) ≤ (roundTiesEven x : Rat) - x ∧ (roundTiesEven x : Rat) - x ≤ 1/2 := by
  have h1 := Rat.floor_le x
  have h2 := Rat.lt_floor_add_one x
  unfold roundTiesEven
  simp only
  split
  · grind
  · split
    · constructor <;> (simp [Rat.intCast_add] at *; grind)
    · split <;> (simp [Rat.intCast_add] at *; grind)

/-- `|roundTiesEven x − x| ≤ 1/2`. -/
theorem roundTiesEven_abs_le (x : Rat) : ratAbs ((roundTiesEven x : Rat) - x) ≤ 1/2 := by
  rw [ratAbs_le_iff]; exact roundTiesEven_sub_bounds x

/-- Integers are fixed points of `roundTiesEven`. -/
theorem roundTiesEven_intCast (k : Int) : roundTiesEven (k : Rat) = k := by
  unfold roundTiesEven
  simp
  grind

/-! ### `otRound` (write_fonts::OtRound: floor (x + 1/2)) -/

/-- Two-sided form: `-1/2 < otRound x − x ≤ 1/2`. -/
theorem otRound_sub_bounds (x : Rat) :
    -(1/2 : Rat) < (otRound x : Rat) - x ∧ (otRound x : Rat) - x ≤ 1/2 := by
  have h1 := Rat.floor_le (x + 1/2)
  have h2 := Rat.lt_floor_add_one (x + 1/2)
  unfold otRound
  simp [Rat.intCast_add] at *
  grind

/-- `|otRound x − x| ≤ 1/2`. -/
theorem otRound_abs_le (x : Rat) : ratAbs ((otRound x : Rat) - x) ≤ 1/2 := by
  rw [ratAbs_le_iff]
  have := otRound_sub_bounds x
  grind

/-- Integers are fixed points of `otRound`. -/
theorem otRound_intCast (k : Int) : otRound (k : Rat) = k := by
  unfold otRound
  have h1 := Rat.floor_le ((k:Rat) + 1/2)
  have h2 := Rat.lt_floor_add_one ((k:Rat) + 1/2)
  generalize ((k:Rat) + 1/2).floor = f at *
  have a : (f : Rat) < (k : Rat) + 1 := by grind
  have b : (k : Rat) < (f : Rat) + 1 := by simp [Rat.intCast_add] at h2; grind
  have a' : f < k + 1 := by exact_mod_cast a
  have b' : k < f + 1 := by exact_mod_cast b
  omega

/-! ### `Rounding.apply` -/

/-- Both rounding behaviours of `deltas_with_rounding` move a value by at most 1/2. -/
theorem Rounding.apply_abs_le (r : Rounding) (x : Rat) : ratAbs (r.apply x - x) ≤ 1/2 := by
  cases r
  · simp [Rounding.apply, Rat.sub_self, ratAbs_zero]; grind
  · exact roundTiesEven_abs_le x

theorem Rounding.apply_none (x : Rat) : Rounding.none.apply x = x := rfl

/-- Integers are fixed points of every rounding behaviour. -/
theorem Rounding.apply_intCast (r : Rounding) (k : Int) : r.apply (k : Rat) = k := by
  cases r
  · rfl
  · simp [Rounding.apply, roundTiesEven_intCast]

end Fontc
