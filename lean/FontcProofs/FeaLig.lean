/-
  C11, ligature lookups, part 2: the `LigatureSubBuilder` (first glyph ↦ ligatures in insertion order,
  written out longest first) against "the longest matching rule, the first of equally long ones".
-/
import FontcProofs.FeaLigMatch
import FontcProofs.FeaMap

namespace Fontc.FeaCompile
open Cmp
set_option linter.unusedSimpArgs false

/-- `(component sequence, ligature)` pairs of a ligature rule, in enumeration order -/
def ligPairs : Rule → List (List Glyph × Glyph)
  | .ligature ts x => (enumerate ts).map (·, x)
  | _ => []

/-- candidates for first glyph `g`: `(remaining components, ligature)` -/
def candsOf (pairs : List (List Glyph × Glyph)) (g : Glyph) : List (List Glyph × Glyph) :=
  pairs.filterMap fun p =>
    match p.1 with
    | f :: rest => if f = g then some (rest, p.2) else none
    | [] => none

theorem candsOf_append (a b : List (List Glyph × Glyph)) (g : Glyph) :
    candsOf (a ++ b) g = candsOf a g ++ candsOf b g := by simp [candsOf]

theorem mem_candsOf (pairs : List (List Glyph × Glyph)) (g : Glyph) (rest : List Glyph) (x : Glyph) :
    (rest, x) ∈ candsOf pairs g ↔ (g :: rest, x) ∈ pairs := by
  simp only [candsOf, List.mem_filterMap]
  constructor
  · rintro ⟨⟨seq, y⟩, hm, h⟩
    cases seq with
    | nil => simp at h
    | cons f r =>
      simp only at h
      split at h
      · rename_i hf; subst hf; simp at h; obtain ⟨rfl, rfl⟩ := h; exact hm
      · simp at h
  · intro hm
    exact ⟨(g :: rest, x), hm, by simp⟩

/-- the builder's map after inserting pairs with pairwise distinct non-empty sequences -/
theorem ligMap_fold (pairs : List (List Glyph × Glyph)) :
    ∀ (m : LigMap) (done : List (List Glyph × Glyph)),
    (∀ g, (m.lookup g).getD [] = candsOf done g) →
    ((done ++ pairs).map (·.1)).Nodup → (∀ p ∈ pairs, p.1 ≠ []) →
    ∀ g, ((pairs.foldl (fun m (p : List Glyph × Glyph) => if ligCanAdd m p.1 p.2 then ligInsert m p.1 p.2 else m) m).lookup g).getD []
      = candsOf (done ++ pairs) g := by
  induction pairs with
  | nil => intro m done h _ _ g; simpa using h g
  | cons p pairs ih =>
    intro m done hm hnd hne g
    obtain ⟨seq, x⟩ := p
    cases seq with
    | nil => exact absurd rfl (hne ([], x) (by simp))
    | cons f rest =>
      have hnotin : ∀ y, (f :: rest, y) ∉ done := by
        intro y hy
        rw [List.map_append, List.nodup_append] at hnd
        exact hnd.2.2 (f :: rest) (List.mem_map.mpr ⟨_, hy, rfl⟩) (f :: rest) (by simp) rfl
      have hcands : ∀ y, (rest, y) ∉ candsOf done f := fun y h => hnotin y ((mem_candsOf done f rest y).mp h)
      have hlk : (m.lookup f).getD [] = candsOf done f := hm f
      have hcan : ligCanAdd m (f :: rest) x = true := by
        simp only [ligCanAdd]
        cases hq : m.lookup f with
        | none => rfl
        | some ligs =>
          rw [hq] at hlk; simp at hlk
          simp only [Bool.not_eq_true', List.any_eq_false, Bool.and_eq_true, beq_iff_eq, bne_iff_ne, not_and, Prod.forall]
          intro s t hst hs
          subst hs
          exact absurd (hlk ▸ hst) (hcands t)
      simp only [List.foldl_cons, hcan, ↓reduceIte]
      have hstep : ∀ g', ((ligInsert m (f :: rest) x).lookup g').getD [] = candsOf (done ++ [(f :: rest, x)]) g' := by
        intro g'
        simp only [ligInsert, mapUpdate, lookup_mapInsert, candsOf_append]
        by_cases hg : g' = f
        · subst hg
          have hany : (candsOf done g').any (fun p => p.1 == rest && p.2 == x) = false := by
            simp only [List.any_eq_false, Bool.and_eq_true, beq_iff_eq, not_and, Prod.forall]
            intro s t hst hs; subst hs
            exact absurd hst (hcands t)
          simp only [↓reduceIte, Option.getD_some, hlk]
          have h2 : (List.any (candsOf done g') fun x_1 => match x_1 with | (s, t) => s == rest && t == x) = false := hany
          rw [if_neg (by rw [h2]; simp)]
          simp [candsOf]
        · simp only [hg, ↓reduceIte, hm g']
          simp [candsOf, Ne.symm hg]
      have := ih (ligInsert m (f :: rest) x) (done ++ [(f :: rest, x)]) hstep (by simpa using hnd)
        (fun p hp => hne p (by simp [hp])) g
      simpa using this

/-! ### sorting, best match -/

theorem insertLig_perm (x : List Glyph × Glyph) (ys : List (List Glyph × Glyph)) : (insertLig x ys).Perm (x :: ys) := by
  induction ys with
  | nil => simp [insertLig]
  | cons y ys ih =>
    simp only [insertLig]
    split
    · exact List.Perm.refl _
    · exact (List.Perm.cons y ih).trans (List.Perm.swap x y ys)

theorem sortLigs_perm (l : List (List Glyph × Glyph)) : (sortLigs l).Perm l := by
  unfold sortLigs
  induction l with
  | nil => simp
  | cons x l ih => simp only [List.foldr_cons]; exact (insertLig_perm x _).trans (List.Perm.cons x ih)

def lenGe (a b : List Glyph × Glyph) : Prop := b.1.length ≤ a.1.length

theorem insertLig_sorted (x : List Glyph × Glyph) (ys : List (List Glyph × Glyph)) (h : ys.Pairwise lenGe) :
    (insertLig x ys).Pairwise lenGe := by
  induction ys with
  | nil => simp [insertLig]
  | cons y ys ih =>
    have hy := List.pairwise_cons.mp h
    simp only [insertLig]
    split
    · rename_i hyx
      refine List.pairwise_cons.mpr ⟨?_, h⟩
      intro a ha
      rcases List.mem_cons.mp ha with rfl | ha
      · exact hyx
      · exact Nat.le_trans (hy.1 a ha) hyx
    · rename_i hyx
      refine List.pairwise_cons.mpr ⟨?_, ih hy.2⟩
      intro a ha
      rcases List.mem_cons.mp ((insertLig_perm x ys).mem_iff.mp ha) with rfl | ha
      · simp only [lenGe]; omega
      · exact hy.1 a ha

theorem sortLigs_sorted (l : List (List Glyph × Glyph)) : (sortLigs l).Pairwise lenGe := by
  unfold sortLigs
  induction l with
  | nil => simp
  | cons x l ih => simp only [List.foldr_cons]; exact insertLig_sorted x _ ih

/-- the first match in a list sorted longest first is a longest match -/
theorem findSome_sorted {β : Type} (l : List (List Glyph × Glyph)) (hs : l.Pairwise lenGe)
    (f : List Glyph × Glyph → Option β) (r : β) (h : l.findSome? f = some r) :
    ∃ c ∈ l, f c = some r ∧ ∀ c' ∈ l, (f c').isSome = true → c'.1.length ≤ c.1.length := by
  induction l with
  | nil => simp at h
  | cons c l ih =>
    have hc := List.pairwise_cons.mp hs
    simp only [List.findSome?_cons] at h
    cases hq : f c with
    | some r' =>
      rw [hq] at h
      simp at h
      subst h
      refine ⟨c, by simp, hq, ?_⟩
      intro c' hc' _
      rcases List.mem_cons.mp hc' with rfl | hc'
      · exact Nat.le_refl _
      · exact hc.1 c' hc'
    | none =>
      rw [hq] at h
      obtain ⟨c0, hc0, hf0, hmax⟩ := ih hc.2 h
      refine ⟨c0, by simp [hc0], hf0, ?_⟩
      intro c' hc' hsome
      rcases List.mem_cons.mp hc' with rfl | hc'
      · rw [hq] at hsome; simp at hsome
      · exact hmax c' hc' hsome

theorem bestLig_spec (l : List (Nat × Glyph × List Nat)) :
    (l = [] → Src.bestLig l = none) ∧
    (l ≠ [] → ∃ b, Src.bestLig l = some b ∧ b ∈ l ∧ ∀ c ∈ l, c.1 ≤ b.1) := by
  induction l with
  | nil => simp [Src.bestLig]
  | cons c cs ih =>
    refine ⟨by simp, fun _ => ?_⟩
    simp only [Src.bestLig]
    by_cases hcs : cs = []
    · subst hcs
      simp [Src.bestLig]
    · obtain ⟨b, hb, hbm, hmax⟩ := ih.2 hcs
      rw [hb]
      simp only
      split
      · rename_i hgt
        refine ⟨b, rfl, by simp [hbm], ?_⟩
        intro e he
        rcases List.mem_cons.mp he with rfl | he
        · omega
        · exact hmax e he
      · rename_i hgt
        refine ⟨c, rfl, by simp, ?_⟩
        intro e he
        rcases List.mem_cons.mp he with rfl | he
        · exact Nat.le_refl _
        · have := hmax e he; omega

theorem enumerate_length (ts : List GC) : ∀ seq ∈ enumerate ts, seq.length = ts.length := by
  induction ts with
  | nil => intro seq h; simp [enumerate] at h; subst h; rfl
  | cons t ts ih =>
    intro seq h
    obtain ⟨a, rest, rfl, _, hr⟩ := (mem_enumerate_cons t ts seq).mp h
    simp [ih rest hr]

theorem pairs_unique (P : List (List Glyph × Glyph)) (h : (P.map (·.1)).Nodup) (s : List Glyph) (x y : Glyph)
    (hx : (s, x) ∈ P) (hy : (s, y) ∈ P) : x = y := by
  induction P with
  | nil => simp at hx
  | cons p P ih =>
    simp only [List.map_cons, List.nodup_cons] at h
    rcases List.mem_cons.mp hx with e1 | hx'
    · rcases List.mem_cons.mp hy with e2 | hy'
      · rw [← e1] at e2; exact (Prod.mk.inj e2).2.symm ▸ rfl
      · exfalso; apply h.1; rw [← e1]; exact List.mem_map.mpr ⟨_, hy', rfl⟩
    · rcases List.mem_cons.mp hy with e2 | hy'
      · exfalso; apply h.1; rw [← e2]; exact List.mem_map.mpr ⟨_, hx', rfl⟩
      · exact ih h.2 hx' hy'

/-! ### the ligature lookup -/

/-- a candidate `(remaining components, ligature)` tried at the current position -/
def candTry (ign : Glyph → Bool) (suf : List Glyph) (c : List Glyph × Glyph) : Option (List Glyph × List Glyph) :=
  (matchFwd ign (eqPreds c.1) suf 1).map fun ps => ligResult c.2 suf (0 :: ps)

theorem ligMatch_to_cand (ign : Glyph → Bool) (rs : List Rule) (g : Glyph) (suf : List Glyph)
    (r : Rule) (hr : r ∈ rs) (n : Nat) (x : Glyph) (ps : List Nat)
    (h : Src.ligMatch ign r g suf = some (n, x, ps)) (hk : r.kind = .ligature) :
    ∃ rest ps', (rest, x) ∈ candsOf (rs.flatMap ligPairs) g ∧ n = rest.length + 1 ∧ ps = 0 :: ps' ∧
      matchFwd ign (eqPreds rest) suf 1 = some ps' := by
  cases r with
  | ligature ts y =>
    cases ts with
    | nil => simp [Src.ligMatch] at h
    | cons t ts =>
      simp only [Src.ligMatch] at h
      split at h
      · rename_i hg
        cases hq : matchFwd ign (ts.map GC.has) suf 1 with
        | none => simp [hq] at h
        | some ps' =>
          simp [hq] at h
          obtain ⟨rfl, rfl, rfl⟩ := h
          obtain ⟨rest, hrest, hm⟩ := (matchFwd_enum ign suf ts 1 ps').mp hq
          refine ⟨rest, ps', ?_, by rw [enumerate_length ts rest hrest], rfl, hm⟩
          rw [mem_candsOf]
          apply List.mem_flatMap.mpr
          refine ⟨_, hr, ?_⟩
          simp only [ligPairs, List.mem_map]
          exact ⟨g :: rest, (mem_enumerate_cons t ts _).mpr ⟨g, rest, rfl, by simpa [GC.has] using hg, hrest⟩, rfl⟩
      · simp at h
  | _ => simp [Rule.kind] at hk

theorem cand_to_ligMatch (ign : Glyph → Bool) (rs : List Rule) (hk : ∀ r ∈ rs, r.kind = .ligature)
    (g : Glyph) (suf : List Glyph) (rest : List Glyph) (x : Glyph) (ps' : List Nat)
    (hc : (rest, x) ∈ candsOf (rs.flatMap ligPairs) g) (hm : matchFwd ign (eqPreds rest) suf 1 = some ps') :
    ∃ r ∈ rs, Src.ligMatch ign r g suf = some (rest.length + 1, x, 0 :: ps') := by
  rw [mem_candsOf] at hc
  obtain ⟨r, hr, hp⟩ := List.mem_flatMap.mp hc
  have hkr := hk r hr
  cases r with
  | ligature ts y =>
    simp only [ligPairs, List.mem_map, Prod.mk.injEq] at hp
    obtain ⟨seq, hseq, rfl, rfl⟩ := hp
    cases ts with
    | nil => simp [enumerate] at hseq
    | cons t ts =>
      obtain ⟨a, rest', e, ha, hr'⟩ := (mem_enumerate_cons t ts _).mp hseq
      obtain ⟨e1, e2⟩ := List.cons.inj e
      subst e1 e2
      refine ⟨_, hr, ?_⟩
      have hg : t.has g = true := by simpa [GC.has] using ha
      have := (matchFwd_enum ign suf ts 1 ps').mpr ⟨rest, hr', hm⟩
      simp [Src.ligMatch, hg, this, enumerate_length ts rest hr']
  | _ => simp [Rule.kind] at hkr

/-- **Core of the ligature lookup**: trying the candidates longest first gives what the longest
    matching rule gives. -/
theorem lig_core (ign : Glyph → Bool) (rs : List Rule) (hk : ∀ r ∈ rs, r.kind = .ligature)
    (hnd : ((rs.flatMap ligPairs).map (·.1)).Nodup) (g : Glyph) (suf : List Glyph) :
    (sortLigs (candsOf (rs.flatMap ligPairs) g)).findSome? (candTry ign suf)
      = (Src.bestLig (rs.filterMap (Src.ligMatch ign · g suf))).map fun (_, x, ps) => ligResult x suf ps := by
  cases hA : (sortLigs (candsOf (rs.flatMap ligPairs) g)).findSome? (candTry ign suf) with
  | none =>
    -- no candidate matches, so no rule matches
    have hnone : ∀ c ∈ candsOf (rs.flatMap ligPairs) g, candTry ign suf c = none := by
      intro c hc
      exact List.findSome?_eq_none_iff.mp hA c ((sortLigs_perm _).mem_iff.mpr hc)
    have hL : rs.filterMap (Src.ligMatch ign · g suf) = [] := by
      apply List.filterMap_eq_nil_iff.mpr
      intro r hr
      cases hq : Src.ligMatch ign r g suf with
      | none => rfl
      | some m =>
        obtain ⟨n, x, ps⟩ := m
        obtain ⟨rest, ps', hc, _, _, hm⟩ := ligMatch_to_cand ign rs g suf r hr n x ps hq (hk r hr)
        have := hnone _ hc
        simp [candTry, hm] at this
    rw [hL]; rfl
  | some res =>
    obtain ⟨c, hcs, hfc, hmax⟩ := findSome_sorted _ (sortLigs_sorted _) (candTry ign suf) res hA
    have hcC : c ∈ candsOf (rs.flatMap ligPairs) g := (sortLigs_perm _).mem_iff.mp hcs
    obtain ⟨rest, x⟩ := c
    simp only [candTry] at hfc
    cases hm : matchFwd ign (eqPreds rest) suf 1 with
    | none => simp [hm] at hfc
    | some ps =>
      simp [hm] at hfc
      obtain ⟨r, hr, hlm⟩ := cand_to_ligMatch ign rs hk g suf rest x ps hcC hm
      have hmemL : (rest.length + 1, x, 0 :: ps) ∈ rs.filterMap (Src.ligMatch ign · g suf) :=
        List.mem_filterMap.mpr ⟨r, hr, hlm⟩
      have hLne : rs.filterMap (Src.ligMatch ign · g suf) ≠ [] := by
        intro e; rw [e] at hmemL; simp at hmemL
      obtain ⟨b, hb, hbm, hbmax⟩ := (bestLig_spec _).2 hLne
      rw [hb]
      obtain ⟨n, xb, psb⟩ := b
      obtain ⟨rb, hrb, hlb⟩ := List.mem_filterMap.mp hbm
      obtain ⟨restb, psb', hcb, hn, hps, hmb⟩ := ligMatch_to_cand ign rs g suf rb hrb n xb psb hlb (hk rb hrb)
      -- equal lengths
      have h1 : restb.length ≤ rest.length := by
        have := hmax (restb, xb) ((sortLigs_perm _).mem_iff.mpr hcb) (by simp [candTry, hmb])
        exact this
      have h2 : rest.length + 1 ≤ n := hbmax _ hmemL
      have hlen : restb.length = rest.length := by omega
      have hrest : restb = rest := matchFwd_literal_unique ign suf restb rest 1 psb' ps hlen hmb hm
      subst hrest
      have hx : xb = x := by
        rw [mem_candsOf] at hcb hcC
        exact pairs_unique _ hnd _ _ _ hcb hcC
      subst hx
      rw [hm] at hmb
      cases hmb
      simp [hps, ← hfc]

theorem foldl_add_ligature (fx : Fixes) (root : Nat) (named : String → LookupId) (rs : List Rule)
    (hk : ∀ r ∈ rs, r.kind = .ligature) (m : LigMap) :
    rs.foldl (Builder.add fx root named) (.ligature m)
      = .ligature ((rs.flatMap ligPairs).foldl
          (fun m (p : List Glyph × Glyph) => if ligCanAdd m p.1 p.2 then ligInsert m p.1 p.2 else m) m) := by
  induction rs generalizing m with
  | nil => rfl
  | cons r rs ih =>
    have hr := hk r (by simp)
    have ht : ∀ r' ∈ rs, r'.kind = .ligature := fun r' h => hk r' (by simp [h])
    cases r with
    | ligature ts x =>
      simp only [List.foldl_cons, Builder.add, List.flatMap_cons, List.foldl_append, ligPairs]
      rw [ih ht, List.foldl_map]
    | _ => simp [Rule.kind] at hr

theorem ligPairs_seqs (rs : List Rule) (hk : ∀ r ∈ rs, r.kind = .ligature) :
    (rs.flatMap ligPairs).map (·.1) = rs.flatMap Wf.ligSeqs := by
  induction rs with
  | nil => rfl
  | cons r rs ih =>
    have hr := hk r (by simp)
    simp only [List.flatMap_cons, List.map_append, ih (fun r' h => hk r' (by simp [h]))]
    cases r <;> simp_all [Rule.kind, ligPairs, Wf.ligSeqs, Function.comp_def]

theorem ligPairs_nonempty (rs : List Rule) (hne : ∀ r ∈ rs, ∀ ts x, r = Rule.ligature ts x → ts ≠ []) :
    ∀ p ∈ rs.flatMap ligPairs, p.1 ≠ [] := by
  intro p hp
  obtain ⟨r, hr, hpr⟩ := List.mem_flatMap.mp hp
  cases r with
  | ligature ts x =>
    simp only [ligPairs, List.mem_map] at hpr
    obtain ⟨seq, hseq, rfl⟩ := hpr
    have hts := hne _ hr ts x rfl
    cases ts with
    | nil => exact absurd rfl hts
    | cons t ts =>
      obtain ⟨a, rest, rfl, _, _⟩ := (mem_enumerate_cons t ts seq).mp hseq
      simp
  | _ => simp [ligPairs] at hpr

theorem lookup_map_lig (m : LigMap) (g : Glyph) :
    (m.map fun (g, ligs) => (g, (sortLigs ligs).map fun (comps, lig) => (lig, comps))).lookup g
      = (m.lookup g).map fun ligs => (sortLigs ligs).map fun (comps, lig) => (lig, comps) := by
  induction m with
  | nil => rfl
  | cons p m ih =>
    obtain ⟨a, b⟩ := p
    simp only [List.map_cons, List.lookup]
    split <;> simp_all

/-- **Ligature substitution lookups** (`sub a [b c] by d;`): the `LigatureSubst` subtable built from
    the rules, tried at any position of any string under any ignore set, does what the longest
    matching rule says — provided no component sequence is given twice and every rule has
    components. -/
theorem lig_lookup_correct (fx : Fixes) (root : Nat) (named : String → LookupId) (rs : List Rule)
    (hk : ∀ r ∈ rs, r.kind = .ligature) (hnd : (rs.flatMap Wf.ligSeqs).Nodup)
    (hne : ∀ r ∈ rs, ∀ ts x, r = Rule.ligature ts x → ts ≠ [])
    (ign : Glyph → Bool) (alt : Nat) (rev : List Glyph) (g : Glyph) (suf : List Glyph) :
    (buildSubtables (rs.foldl (Builder.add fx root named) (.ligature []))).findSome?
        (fun st => OT.simpleSubtableStep ign alt st rev g suf)
      = Src.ligStep ign rs rev g suf := by
  have hnd' : ((rs.flatMap ligPairs).map (·.1)).Nodup := by rw [ligPairs_seqs rs hk]; exact hnd
  rw [foldl_add_ligature fx root named rs hk]
  have hmap := ligMap_fold (rs.flatMap ligPairs) [] [] (by intro g; simp [candsOf, List.lookup]) (by simpa using hnd')
    (ligPairs_nonempty rs hne)
  simp only [List.nil_append] at hmap
  simp only [Src.ligStep, ← lig_core ign rs hk hnd' g suf]
  generalize hM : (rs.flatMap ligPairs).foldl
    (fun m (p : List Glyph × Glyph) => if ligCanAdd m p.1 p.2 then ligInsert m p.1 p.2 else m) [] = M at hmap
  have hg := hmap g
  simp only [buildSubtables]
  split
  · rename_i hempty
    have : M = [] := List.isEmpty_iff.mp hempty
    subst this
    simp only [List.lookup, Option.getD_none] at hg
    rw [← hg]
    simp [sortLigs]
  · simp only [List.findSome?_cons, List.findSome?_nil, OT.simpleSubtableStep, buildLig, lookup_map_lig]
    cases hq : M.lookup g with
    | none =>
      rw [hq] at hg
      simp only [Option.getD_none] at hg
      rw [← hg]
      simp [sortLigs]
    | some ligs =>
      rw [hq] at hg
      simp only [Option.getD_some] at hg
      subst hg
      simp only [Option.map_some]
      rw [List.findSome?_map]
      have : ((fun (x : Glyph × List Glyph) =>
          match x with
          | (lig, comps) => Option.map (fun ps => ligResult lig suf (0 :: ps)) (matchFwd ign (List.map (fun c y => c == y) comps) suf 1)) ∘
            fun (x : List Glyph × Glyph) => match x with | (comps, lig) => (lig, comps)) = candTry ign suf := by
        funext c
        obtain ⟨comps, lig⟩ := c
        rfl
      rw [this]
      generalize List.findSome? (candTry ign suf) (sortLigs (candsOf (List.flatMap ligPairs rs) g)) = o
      cases o <;> rfl

end Fontc.FeaCompile
