/-
  Lemmas about `NBox::overlay_onto` (model: FontcModel/FeatVars.lean).
-/
import FontcModel.FeatVars

namespace Fontc.FeatVars

/-! ### basic facts -/

theorem ratMax_le_iff (a b x : Rat) : ratMax a b ≤ x ↔ (a ≤ x ∧ b ≤ x) := by
  unfold ratMax; grind
theorem le_ratMin_iff (a b x : Rat) : x ≤ ratMin a b ↔ (x ≤ a ∧ x ≤ b) := by
  unfold ratMin; grind
theorem ratMax_cases (a b : Rat) : (ratMax a b = a ∧ b ≤ a) ∨ (ratMax a b = b ∧ a ≤ b) := by
  unfold ratMax; grind
theorem ratMin_cases (a b : Rat) : (ratMin a b = a ∧ a ≤ b) ∨ (ratMin a b = b ∧ b ≤ a) := by
  unfold ratMin; grind

theorem clampIns_id {lo hi : Rat} (h1 : -1 ≤ lo) (h2 : hi ≤ 1) : clampIns lo hi = (lo, hi) := by
  unfold clampIns ratMax ratMin
  ext <;> simp <;> grind

/-- Every stored range lies inside the normalized range: `-1 ≤ min` and `max ≤ 1`.  This is what
    `NBox::insert` establishes (it clamps), and what makes the clamping inside `overlay_onto` the identity. -/
def BoxOk (b : NBox) : Prop := ∀ lo hi, some (lo, hi) ∈ b → -1 ≤ lo ∧ hi ≤ 1

theorem BoxOk.nil : BoxOk [] := by intro lo hi h; simp at h
theorem BoxOk.tail {e : Option Range} {b : NBox} (h : BoxOk (e :: b)) : BoxOk b := by
  intro lo hi hm; exact h lo hi (List.mem_cons_of_mem _ hm)
theorem BoxOk.head {lo hi : Rat} {b : NBox} (h : BoxOk (some (lo, hi) :: b)) : -1 ≤ lo ∧ hi ≤ 1 :=
  h lo hi (List.mem_cons_self)
theorem BoxOk.cons_none {b : NBox} (h : BoxOk b) : BoxOk (none :: b) := by
  intro lo hi hm; simp at hm; exact h lo hi hm
theorem BoxOk.cons_some {lo hi : Rat} {b : NBox} (h1 : -1 ≤ lo) (h2 : hi ≤ 1) (h : BoxOk b) :
    BoxOk (some (lo, hi) :: b) := by
  intro lo' hi' hm
  simp at hm
  rcases hm with ⟨rfl, rfl⟩ | hm
  · exact ⟨h1, h2⟩
  · exact h _ _ hm

theorem clampIns_ok (lo hi : Rat) : -1 ≤ (clampIns lo hi).1 ∧ (clampIns lo hi).2 ≤ 1 := by
  unfold clampIns ratMax ratMin; simp; grind

theorem emptyBox_ok (n : Nat) : BoxOk (emptyBox n) := by
  intro lo hi h; simp [emptyBox] at h

theorem BoxOk.set {b : NBox} (h : BoxOk b) (i : Nat) (lo hi : Rat) :
    BoxOk (b.set i (some (clampIns lo hi))) := by
  intro lo' hi' hm
  rcases List.mem_or_eq_of_mem_set hm with hm | hm
  · exact h _ _ hm
  · have := clampIns_ok lo hi
    cases hc : clampIns lo hi with
    | mk x y => rw [hc] at hm this; cases hm; exact this

/-- boxes built through `NBox::insert` satisfy `BoxOk` -/
theorem boxOfRaw_ok (n : Nat) (raw : List (Nat × Option Rat × Option Rat)) : BoxOk (boxOfRaw n raw) := by
  unfold boxOfRaw
  suffices h : ∀ (b : NBox), BoxOk b → BoxOk (raw.foldl (fun b (x : Nat × Option Rat × Option Rat) => insertRaw b x.1 x.2.1 x.2.2) b) from
    h _ (emptyBox_ok n)
  induction raw with
  | nil => intro b hb; exact hb
  | cons x xs ih =>
    intro b hb
    simp only [List.foldl_cons]
    apply ih
    unfold insertRaw
    exact hb.set _ _ _

theorem length_boxOfRaw (n : Nat) (raw : List (Nat × Option Rat × Option Rat)) : (boxOfRaw n raw).length = n := by
  unfold boxOfRaw
  suffices h : ∀ (b : NBox), (raw.foldl (fun b (x : Nat × Option Rat × Option Rat) => insertRaw b x.1 x.2.1 x.2.2) b).length = b.length by
    rw [h]; simp [emptyBox]
  induction raw with
  | nil => intro b; rfl
  | cons x xs ih => intro b; simp only [List.foldl_cons]; rw [ih]; simp [insertRaw]

/-! ### the intersection -/

theorem interAxis_none_left (o : Option Range) : interAxis none o = o := by cases o <;> rfl
theorem interAxis_some_none (r : Range) : interAxis (some r) none = some r := rfl
theorem interAxis_some_some (a b c d : Rat) :
    interAxis (some (a, b)) (some (c, d)) = some (clampIns (ratMax a c) (ratMin b d)) := rfl

/-- the intersection box computed by `overlay_onto` -/
def interBox (s o : NBox) : NBox := (s.zip o).map fun x => interAxis x.1 x.2

theorem interBox_cons (se oe : Option Range) (s o : NBox) :
    interBox (se :: s) (oe :: o) = interAxis se oe :: interBox s o := rfl

theorem interAxis_ok_eq {a b c d : Rat} (h1 : -1 ≤ a ∧ b ≤ 1) (h2 : -1 ≤ c ∧ d ≤ 1) :
    interAxis (some (a, b)) (some (c, d)) = some (ratMax a c, ratMin b d) := by
  rw [interAxis_some_some, clampIns_id]
  · rcases ratMax_cases a c with ⟨h, _⟩ | ⟨h, _⟩ <;> rw [h] <;> grind
  · rcases ratMin_cases b d with ⟨h, _⟩ | ⟨h, _⟩ <;> rw [h] <;> grind

/-- the list of per-axis intersections contains exactly the points of both boxes -/
theorem contains_inter (s o : NBox) (p : Point) (hs : BoxOk s) (ho : BoxOk o)
    (hl : s.length = o.length) (hp : p.length = o.length) :
    contains (interBox s o) p = (contains s p && contains o p) := by
  induction s generalizing o p with
  | nil =>
    cases o with
    | nil => simp [interBox, contains]
    | cons _ _ => simp at hl
  | cons se s ih =>
    cases o with
    | nil => simp at hl
    | cons oe o =>
      cases p with
      | nil => simp at hp
      | cons x p =>
        have hl' : s.length = o.length := by simpa using hl
        have hp' : p.length = o.length := by simpa using hp
        have ih' := ih o p hs.tail ho.tail hl' hp'
        rw [interBox_cons]
        cases se with
        | none =>
          rw [interAxis_none_left]
          cases oe with
          | none => simp [contains, ih']
          | some r => obtain ⟨c, d⟩ := r; simp [contains, ih']; grind
        | some r =>
          obtain ⟨a, b⟩ := r
          cases oe with
          | none => rw [interAxis_some_none]; simp [contains, ih']; grind
          | some r' =>
            obtain ⟨c, d⟩ := r'
            rw [interAxis_ok_eq hs.head ho.head]
            simp only [contains, ih']
            have e1 := ratMax_le_iff a c x
            have e2 := le_ratMin_iff b d x
            grind

/-! ### goodness: a box that contains `p` robustly w.r.t. the bounds occurring in the input -/

/-- per-axis sets of bounds: `L k x` = "`x` is a lower bound of some input box on axis `k`" -/
abbrev Bnd := Nat → Rat → Prop
def shiftB (L : Bnd) : Bnd := fun k => L (k + 1)

/-- `b` contains `p`, and wherever `p` sits exactly on a face of `b`, that face is a lower bound taken from
    a lower bound of the input (resp. upper from upper). -/
def Good (L H : Bnd) : NBox → Point → Prop
  | [], _ => True
  | _ :: _, [] => False
  | none :: b, _ :: p => Good (shiftB L) (shiftB H) b p
  | some (lo, hi) :: b, x :: p =>
    lo ≤ x ∧ x ≤ hi ∧ (lo < x ∨ L 0 lo) ∧ (x < hi ∨ H 0 hi) ∧ Good (shiftB L) (shiftB H) b p

/-- all bounds of the box are in the bound sets -/
def InB (L H : Bnd) : NBox → Prop
  | [] => True
  | none :: b => InB (shiftB L) (shiftB H) b
  | some (lo, hi) :: b => L 0 lo ∧ H 0 hi ∧ InB (shiftB L) (shiftB H) b

/-- no coordinate of `p` is both a lower and an upper bound -/
def NoTouch (L H : Bnd) : Point → Prop
  | [] => True
  | x :: p => ¬ (L 0 x ∧ H 0 x) ∧ NoTouch (shiftB L) (shiftB H) p

theorem Good.contains {L H : Bnd} {b : NBox} {p : Point} (h : Good L H b p) : contains b p = true := by
  induction b generalizing L H p with
  | nil => simp [FeatVars.contains]
  | cons e b ih =>
    cases p with
    | nil => cases e <;> simp [Good] at h
    | cons x p =>
      cases e with
      | none => simp only [Good] at h; simp [FeatVars.contains, ih h]
      | some r =>
        obtain ⟨lo, hi⟩ := r
        simp only [Good] at h
        simp [FeatVars.contains, ih h.2.2.2.2, h.1, h.2.1]

/-- with trivial bound sets goodness is containment -/
theorem good_of_contains {b : NBox} {p : Point} (h : contains b p = true) :
    Good (fun _ _ => True) (fun _ _ => True) b p := by
  induction b generalizing p with
  | nil => simp [Good]
  | cons e b ih =>
    cases p with
    | nil => cases e <;> simp [FeatVars.contains] at h
    | cons x p =>
      cases e with
      | none => simp only [FeatVars.contains] at h; exact ih h
      | some r =>
        obtain ⟨lo, hi⟩ := r
        simp [FeatVars.contains] at h
        exact ⟨h.1.1, h.1.2, Or.inr trivial, Or.inr trivial, ih h.2⟩

theorem commonEmpty_some_some (a b c d : Rat) :
    commonEmpty (some (a, b)) (some (c, d)) = decide (ratMin b d ≤ ratMax a c) := rfl
theorem commonEmpty_none_left (o : Option Range) : commonEmpty none o = false := by cases o <;> rfl
theorem commonEmpty_none_right (s : Option Range) : commonEmpty s none = false := by cases s <;> rfl

/-- **Intersection step of the invariant.**  A good box `w` and an input box `c` that both contain `p`
    intersect (the code's `min >= max` test does not fire), and the intersection is good again. -/
theorem inter_good {L H : Bnd} (c w : NBox) (p : Point)
    (hg : Good L H w p) (hc : contains c p = true) (hin : InB L H c) (hnt : NoTouch L H p)
    (hcok : BoxOk c) (hwok : BoxOk w) (hl : c.length = w.length) (hp : p.length = w.length) :
    (c.zip w).any (fun x => commonEmpty x.1 x.2) = false ∧ Good L H (interBox c w) p := by
  induction c generalizing L H w p with
  | nil =>
    cases w with
    | nil => simp [interBox, Good]
    | cons _ _ => simp at hl
  | cons ce c ih =>
    cases w with
    | nil => simp at hl
    | cons we w =>
      cases p with
      | nil => simp at hp
      | cons x p =>
        have hl' : c.length = w.length := by simpa using hl
        have hp' : p.length = w.length := by simpa using hp
        rw [interBox_cons]
        simp only [List.zip_cons_cons, List.any_cons]
        cases ce with
        | none =>
          simp only [InB] at hin
          simp only [FeatVars.contains] at hc
          simp only [NoTouch] at hnt
          rw [interAxis_none_left, commonEmpty_none_left]
          cases we with
          | none =>
            simp only [Good] at hg ⊢
            have := ih w p hg hc hin hnt.2 hcok.tail hwok.tail hl' hp'
            simpa using this
          | some r =>
            obtain ⟨c', d⟩ := r
            simp only [Good] at hg ⊢
            have := ih w p hg.2.2.2.2 hc hin hnt.2 hcok.tail hwok.tail hl' hp'
            exact ⟨by simpa using this.1, hg.1, hg.2.1, hg.2.2.1, hg.2.2.2.1, this.2⟩
        | some r =>
          obtain ⟨a, b⟩ := r
          simp only [InB] at hin
          simp only [NoTouch] at hnt
          have hc1 : a ≤ x ∧ x ≤ b ∧ contains c p = true := by
            simp [FeatVars.contains] at hc; exact ⟨hc.1.1, hc.1.2, hc.2⟩
          cases we with
          | none =>
            rw [interAxis_some_none, commonEmpty_none_right]
            simp only [Good] at hg ⊢
            have := ih w p hg hc1.2.2 hin.2.2 hnt.2 hcok.tail hwok.tail hl' hp'
            exact ⟨by simpa using this.1, hc1.1, hc1.2.1, Or.inr hin.1, Or.inr hin.2.1, this.2⟩
          | some r' =>
            obtain ⟨c', d⟩ := r'
            rw [interAxis_ok_eq hcok.head hwok.head, commonEmpty_some_some]
            simp only [Good] at hg ⊢
            have := ih w p hg.2.2.2.2 hc1.2.2 hin.2.2 hnt.2 hcok.tail hwok.tail hl' hp'
            have hnt1 := hnt.1
            obtain ⟨g1, g2, g3, g4, _⟩ := hg
            obtain ⟨i1, i2, _⟩ := hin
            rcases ratMax_cases a c' with ⟨e1, o1⟩ | ⟨e1, o1⟩ <;>
            rcases ratMin_cases b d with ⟨e2, o2⟩ | ⟨e2, o2⟩ <;>
            rw [e1, e2] <;>
            refine ⟨?_, ?_, ?_, ?_, ?_, this.2⟩ <;>
            first
              | (simp only [Bool.or_eq_false_iff, decide_eq_false_iff_not]; refine ⟨?_, by simpa using this.1⟩; intro hle; grind)
              | grind

/-! ### the remainder loop -/

theorem remLoop_nil (ex : Bool) : remLoop [] ex = some ([], ex) := by simp [remLoop]
theorem remLoop_none_left (o : Option Range) (rest : List (Option Range × Option Range)) (ex : Bool) :
    remLoop ((none, o) :: rest) ex = (remLoop rest ex).map fun (r, e) => (o :: r, e) := by
  simp [remLoop]
theorem remLoop_none_right (s : Option Range) (rest : List (Option Range × Option Range)) (ex : Bool) :
    remLoop ((s, none) :: rest) ex = (remLoop rest ex).map fun (r, e) => (none :: r, e) := by
  cases s <;> simp [remLoop]
theorem remLoop_some_some (a b min2 max2 : Rat) (rest : List (Option Range × Option Range)) (ex : Bool) :
    remLoop ((some (a, b), some (min2, max2)) :: rest) ex =
      if (clampIns (ratMax a min2) (ratMin b max2)).1 ≤ min2 ∧ max2 ≤ (clampIns (ratMax a min2) (ratMin b max2)).2 then
        (remLoop rest ex).map fun (r, e) => (some (min2, max2) :: r, e)
      else if ex then none
      else if (clampIns (ratMax a min2) (ratMin b max2)).1 ≤ min2 then
        (remLoop rest true).map fun (r, e) => (some (clampIns (ratMax (clampIns (ratMax a min2) (ratMin b max2)).2 min2) max2) :: r, e)
      else if max2 ≤ (clampIns (ratMax a min2) (ratMin b max2)).2 then
        (remLoop rest true).map fun (r, e) => (some (clampIns min2 (ratMin (clampIns (ratMax a min2) (ratMin b max2)).1 max2)) :: r, e)
      else none := by
  simp [remLoop]

theorem remLoop_ss_ok {a b min2 max2 : Rat} (h1 : -1 ≤ a ∧ b ≤ 1) (h2 : -1 ≤ min2 ∧ max2 ≤ 1)
    (rest : List (Option Range × Option Range)) (ex : Bool) :
    remLoop ((some (a, b), some (min2, max2)) :: rest) ex =
      if a ≤ min2 ∧ max2 ≤ b then
        (remLoop rest ex).map fun (r, e) => (some (min2, max2) :: r, e)
      else if ex then none
      else if a ≤ min2 then
        (remLoop rest true).map fun (r, e) => (some (ratMax b min2, max2) :: r, e)
      else if max2 ≤ b then
        (remLoop rest true).map fun (r, e) => (some (min2, ratMin a max2) :: r, e)
      else none := by
  have hc : clampIns (ratMax a min2) (ratMin b max2) = (ratMax a min2, ratMin b max2) := by
    apply clampIns_id
    · rcases ratMax_cases a min2 with ⟨h, _⟩ | ⟨h, _⟩ <;> rw [h] <;> grind
    · rcases ratMin_cases b max2 with ⟨h, _⟩ | ⟨h, _⟩ <;> rw [h] <;> grind
  rw [remLoop_some_some, hc]
  simp only []
  have e1 : ratMax a min2 ≤ min2 ↔ a ≤ min2 := by have := ratMax_le_iff a min2 min2; grind
  have e2 : max2 ≤ ratMin b max2 ↔ max2 ≤ b := by have := le_ratMin_iff b max2 max2; grind
  simp only [e1, e2]
  by_cases c1 : a ≤ min2 ∧ max2 ≤ b
  · simp [c1]
  · rw [if_neg c1, if_neg c1]
    cases ex with
    | true => simp
    | false =>
      simp only [Bool.false_eq_true, if_false]
      by_cases c2 : a ≤ min2
      · have hb : ¬ max2 ≤ b := by grind
        have e3 : ratMin b max2 = b := by rcases ratMin_cases b max2 with ⟨h, _⟩ | ⟨h, _⟩ <;> grind
        have e4 : clampIns (ratMax b min2) max2 = (ratMax b min2, max2) := by
          apply clampIns_id
          · rcases ratMax_cases b min2 with ⟨h, _⟩ | ⟨h, _⟩ <;> rw [h] <;> grind
          · exact h2.2
        simp [c2, e3, e4]
      · have e3 : ratMax a min2 = a := by rcases ratMax_cases a min2 with ⟨h, _⟩ | ⟨h, _⟩ <;> grind
        have e4 : clampIns min2 (ratMin a max2) = (min2, ratMin a max2) := by
          apply clampIns_id
          · exact h2.1
          · rcases ratMin_cases a max2 with ⟨h, _⟩ | ⟨h, _⟩ <;> rw [h] <;> grind
        simp [c2, e3, e4]

end Fontc.FeatVars
