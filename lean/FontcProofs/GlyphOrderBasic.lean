/-
  C06 helper lemmas, part 1: the IndexSet operations, `firstOcc`, sorting, and the two source-side orderings
  (`ufoGlyphOrder`, `glyphsMakeOrder`).
-/
import FontcModel.GlyphOrder

namespace Fontc.GlyphOrder

/-! ### firstOcc -/

theorem mem_firstOcc {x : String} : ∀ {l : List String}, x ∈ firstOcc l ↔ x ∈ l
  | [] => by simp [firstOcc]
  | y :: ys => by
    have ih := @mem_firstOcc x ys
    by_cases h : x = y
    · simp [firstOcc, h]
    · simp [firstOcc, List.mem_filter, ih, h]

theorem firstOcc_filter (p : String → Bool) : ∀ l : List String, firstOcc (l.filter p) = (firstOcc l).filter p
  | [] => by simp [firstOcc]
  | y :: ys => by
    have ih := firstOcc_filter p ys
    by_cases h : p y = true
    · simp only [List.filter_cons_of_pos h, firstOcc, ih]
      congr 1
      simp only [List.filter_filter]
      apply List.filter_congr
      intro a _
      exact Bool.and_comm _ _
    · have h' : p y = false := by simpa using h
      simp only [List.filter_cons_of_neg h, firstOcc, ih]
      rw [List.filter_filter]
      apply List.filter_congr
      intro a _
      by_cases ha : a = y
      · subst ha; simp [h']
      · simp [ha]

theorem firstOcc_nodup : ∀ l : List String, (firstOcc l).Nodup
  | [] => by simp [firstOcc]
  | y :: ys => by
    have ih := firstOcc_nodup ys
    simp only [firstOcc, List.nodup_cons]
    constructor
    · simp [List.mem_filter]
    · exact ih.sublist List.filter_sublist

theorem firstOcc_of_nodup : ∀ {l : List String}, l.Nodup → firstOcc l = l
  | [], _ => by simp [firstOcc]
  | y :: ys, h => by
    have hy : y ∉ ys := (List.nodup_cons.mp h).1
    have ih := firstOcc_of_nodup (List.nodup_cons.mp h).2
    simp only [firstOcc, ih]
    congr 1
    apply List.filter_eq_self.mpr
    intro a ha
    have : a ≠ y := fun e => hy (e ▸ ha)
    simp [this]

theorem firstOcc_sublist : ∀ l : List String, (firstOcc l).Sublist l
  | [] => by simp [firstOcc]
  | y :: ys => by
    simp only [firstOcc]
    exact ((List.filter_sublist).trans (firstOcc_sublist ys)).cons_cons y

/-! ### IndexSet insert / extend -/

theorem ixExtend_nil (s : List String) : ixExtend s [] = s := rfl

theorem ixExtend_cons (s : List String) (x : String) (xs : List String) :
    ixExtend s (x :: xs) = ixExtend (ixInsert s x) xs := rfl

/-- `extend` appends the first occurrences of the new names. -/
theorem ixExtend_eq : ∀ (xs s : List String), ixExtend s xs = s ++ firstOcc (xs.filter (· ∉ s))
  | [], s => by simp [ixExtend_nil, firstOcc]
  | x :: xs, s => by
    rw [ixExtend_cons, ixExtend_eq xs]
    by_cases hx : x ∈ s
    · simp [ixInsert, hx]
    · have hf : (x :: xs).filter (· ∉ s) = x :: xs.filter (· ∉ s) := by simp [hx]
      rw [hf]
      simp only [ixInsert, hx, if_false, firstOcc, List.append_assoc, List.singleton_append]
      congr 2
      rw [← firstOcc_filter, List.filter_filter]
      congr 1
      apply List.filter_congr
      intro a _
      by_cases ha : a = x
      · subst ha; simp
      · simp [ha]

theorem filter_const_true (l : List String) : l.filter (fun _ => true) = l := by
  induction l <;> simp_all

theorem filter_const_false (l : List String) : l.filter (fun _ => false) = [] := by
  induction l <;> simp_all

theorem ixExtend_nil_left (xs : List String) : ixExtend [] xs = firstOcc xs := by
  rw [ixExtend_eq]; simp [filter_const_true]

theorem ixInsert_of_not_mem {s : List String} {x : String} (h : x ∉ s) : ixInsert s x = s ++ [x] := by
  simp [ixInsert, h]

theorem ixInsert_of_mem {s : List String} {x : String} (h : x ∈ s) : ixInsert s x = s := by
  simp [ixInsert, h]

/-! ### index / move to front -/

theorem ixIndexOf_eq_none {x : String} : ∀ {l : List String}, ixIndexOf x l = none ↔ x ∉ l
  | [] => by simp [ixIndexOf]
  | y :: ys => by
    have ih := @ixIndexOf_eq_none x ys
    by_cases h : y = x
    · simp [ixIndexOf, h]
    · have h' : ¬ x = y := fun e => h e.symm
      simp [ixIndexOf, h, h', ih]

theorem ixIndexOf_get {x : String} : ∀ {l : List String} {i : Nat}, ixIndexOf x l = some i → l[i]? = some x
  | [], i, h => by simp [ixIndexOf] at h
  | y :: ys, i, h => by
    by_cases hy : y = x
    · subst hy
      simp [ixIndexOf] at h
      subst h; simp
    · simp only [ixIndexOf, hy, if_false, Option.map_eq_some_iff] at h
      obtain ⟨j, hj, rfl⟩ := h
      simpa using ixIndexOf_get hj

theorem ixIndexOf_eraseIdx {x : String} : ∀ {l : List String} {i : Nat}, ixIndexOf x l = some i →
    l.eraseIdx i = l.erase x
  | [], i, h => by simp [ixIndexOf] at h
  | y :: ys, i, h => by
    by_cases hy : y = x
    · subst hy
      simp [ixIndexOf] at h
      subst h; simp
    · simp only [ixIndexOf, hy, if_false, Option.map_eq_some_iff] at h
      obtain ⟨j, hj, rfl⟩ := h
      have hne : (y == x) = false := by simpa using hy
      simp [List.erase_cons, hne, ixIndexOf_eraseIdx hj]

/-- what `move_index(i, 0)` does when `i` is the index of `x`: `x` first, the others keep their order. -/
theorem ixMoveToFront_indexOf {x : String} {l : List String} {i : Nat} (h : ixIndexOf x l = some i) :
    ixMoveToFront l i = x :: l.erase x := by
  unfold ixMoveToFront
  rw [ixIndexOf_get h]
  simp [ixIndexOf_eraseIdx h]

theorem ixIndexOf_append_singleton {x : String} {l : List String} (h : x ∉ l) :
    ixIndexOf x (l ++ [x]) = some l.length := by
  induction l with
  | nil => simp [ixIndexOf]
  | cons y ys ih =>
    have hy : y ≠ x := fun e => h (by simp [e])
    have hys : x ∉ ys := fun e => h (by simp [e])
    simp [ixIndexOf, hy, ih hys]

/-- `set_glyph_id(name, 0)`: the name ends up first, everything else keeps its relative order. -/
theorem setGlyphId0_eq (s : List String) (x : String) : setGlyphId0 s x = x :: s.erase x := by
  unfold setGlyphId0
  cases h : ixIndexOf x s with
  | some i =>
    cases i with
    | zero =>
      simp only
      cases s with
      | nil => simp [ixIndexOf] at h
      | cons y ys =>
        by_cases hy : y = x
        · subst hy; simp
        · simp [ixIndexOf, hy] at h
    | succ j => simpa using ixMoveToFront_indexOf h
  | none =>
    have hx : x ∉ s := ixIndexOf_eq_none.mp h
    simp only [ixInsert_of_not_mem hx, ixIndexOf_append_singleton hx]
    have hmv := ixMoveToFront_indexOf (ixIndexOf_append_singleton hx)
    have herase : (s ++ [x]).erase x = s := by
      rw [List.erase_append_right _ hx]; simp
    cases hl : s.length with
    | zero =>
      have : s = [] := List.length_eq_zero_iff.mp hl
      subst this; simp
    | succ n =>
      simp only
      rw [hl] at hmv
      rw [hmv, herase, List.erase_of_not_mem hx]

/-! ### sorting -/

theorem sortNames_perm (l : List String) : (sortNames l).Perm l := List.mergeSort_perm l _

theorem mem_sortNames {x : String} {l : List String} : x ∈ sortNames l ↔ x ∈ l :=
  (sortNames_perm l).mem_iff

theorem sortNames_nodup {l : List String} (h : l.Nodup) : (sortNames l).Nodup :=
  (sortNames_perm l).nodup_iff.mpr h

theorem sortNames_sorted_le (l : List String) : (sortNames l).Pairwise (· ≤ ·) := by
  have h := List.pairwise_mergeSort (le := fun (a b : String) => decide (a ≤ b))
    (fun a b c hab hbc => by simpa using String.le_trans (by simpa using hab) (by simpa using hbc))
    (fun a b => by
      rcases String.le_total a b with h | h
      · simp [h]
      · simp [h]) l
  exact h.imp (by intro a b hab; simpa using hab)

/-- a duplicate-free sorted list is strictly increasing -/
theorem sortNames_sorted_lt {l : List String} (hnd : l.Nodup) : (sortNames l).Pairwise (· < ·) := by
  have h1 := sortNames_sorted_le l
  have h2 : (sortNames l).Pairwise (· ≠ ·) := sortNames_nodup hnd
  have h3 := h1.and h2
  refine h3.imp ?_
  intro a b hab
  have hle : a ≤ b := hab.1
  have hne : a ≠ b := hab.2
  rcases Decidable.em (a < b) with h | h
  · exact h
  · exact absurd (String.le_antisymm hle (String.not_lt.mp h)) hne

/-! ### ufo2fontir `glyph_order` -/

/-- the names of a `public.glyphOrder` value that the code looks at -/
def declaredNames (declared : Option (List (Option String))) : List String := (declared.getD []).filterMap id

theorem ufoGlyphOrder_eq (declared : Option (List (Option String))) (names : List String) (hn : names.Nodup) :
    ufoGlyphOrder declared names =
      firstOcc ((declaredNames declared).filter (· ∈ names)) ++
      sortNames (names.filter (· ∉ declaredNames declared)) := by
  unfold ufoGlyphOrder declaredNames
  generalize hd : (declared.getD []).filterMap id = dn
  simp only
  -- the pending set is disjoint from what was inserted
  have hpend : names.filter (· ∉ dn.filter (· ∈ names)) = names.filter (· ∉ dn) := by
    apply List.filter_congr
    intro a ha
    simp [List.mem_filter, ha]
  rw [hpend, ixExtend_nil_left, ixExtend_eq]
  have hdisj : (sortNames (names.filter (· ∉ dn))).filter (· ∉ firstOcc (dn.filter (· ∈ names))) =
      sortNames (names.filter (· ∉ dn)) := by
    apply List.filter_eq_self.mpr
    intro a ha
    have ha' := mem_sortNames.mp ha
    simp only [List.mem_filter, decide_eq_true_eq] at ha'
    simp [mem_firstOcc, List.mem_filter, ha'.2]
  rw [hdisj, firstOcc_of_nodup (sortNames_nodup (hn.sublist List.filter_sublist))]
  -- the empty-order branch
  split
  · rename_i hempty
    have hnil : firstOcc (dn.filter (· ∈ names)) ++ sortNames (names.filter (· ∉ dn)) = [] := by
      simpa using hempty
    have h2 : sortNames (names.filter (· ∉ dn)) = [] := (List.append_eq_nil_iff.mp hnil).2
    have h1 : firstOcc (dn.filter (· ∈ names)) = [] := (List.append_eq_nil_iff.mp hnil).1
    have hnames : names = [] := by
      cases names with
      | nil => rfl
      | cons a rest =>
        exfalso
        by_cases ha : a ∈ dn
        · have : a ∈ firstOcc (dn.filter (· ∈ a :: rest)) := by
            simp [mem_firstOcc, List.mem_filter, ha]
          rw [h1] at this; simp at this
        · have : a ∈ sortNames ((a :: rest).filter (· ∉ dn)) := by
            simp [mem_sortNames, List.mem_filter, ha]
          rw [h2] at this; simp at this
    subst hnames
    rw [hnil]
    simp [ixExtend_nil]
  · rfl

/-- The branch at source.rs:565-576 (insert `.notdef`, then the rest in hash order) only runs for an empty glyph set,
    where it adds nothing: the hash iteration order never reaches the result. -/
theorem ufoGlyphOrder_empty_iff (declared : Option (List (Option String))) (names : List String) (hn : names.Nodup) :
    ufoGlyphOrder declared names = [] ↔ names = [] := by
  rw [ufoGlyphOrder_eq declared names hn]
  constructor
  · intro h
    have h2 := (List.append_eq_nil_iff.mp h).2
    have h1 := (List.append_eq_nil_iff.mp h).1
    cases names with
    | nil => rfl
    | cons a rest =>
      exfalso
      by_cases ha : a ∈ declaredNames declared
      · have : a ∈ firstOcc ((declaredNames declared).filter (· ∈ a :: rest)) := by
          simp [mem_firstOcc, List.mem_filter, ha]
        rw [h1] at this; simp at this
      · have : a ∈ sortNames ((a :: rest).filter (· ∉ declaredNames declared)) := by
          simp [mem_sortNames, List.mem_filter, ha]
        rw [h2] at this; simp at this
  · intro h; subst h; simp [firstOcc, sortNames, filter_const_false]

theorem ufoGlyphOrder_perm (declared : Option (List (Option String))) (names : List String) (hn : names.Nodup) :
    (ufoGlyphOrder declared names).Perm names := by
  rw [ufoGlyphOrder_eq declared names hn]
  generalize declaredNames declared = dn
  -- both sides are duplicate-free with the same members
  have hnd : (firstOcc (dn.filter (· ∈ names)) ++ sortNames (names.filter (· ∉ dn))).Nodup := by
    rw [List.nodup_append]
    refine ⟨firstOcc_nodup _, sortNames_nodup (hn.sublist List.filter_sublist), ?_⟩
    intro a ha b hb hab
    subst hab
    have h1 := mem_firstOcc.mp ha
    have h2 := mem_sortNames.mp hb
    simp only [List.mem_filter, decide_eq_true_eq] at h1 h2
    exact h2.2 h1.1
  apply (List.perm_ext_iff_of_nodup hnd hn).mpr
  intro a
  simp only [List.mem_append, mem_firstOcc, mem_sortNames, List.mem_filter, decide_eq_true_eq]
  constructor
  · rintro (h | h)
    · exact h.2
    · exact h.1
  · intro h
    by_cases hd : a ∈ dn
    · exact Or.inl ⟨hd, h⟩
    · exact Or.inr ⟨h, hd⟩

/-! ### glyphs-reader `make_glyph_order` -/

theorem takeValid_eq : ∀ (custom valid acc : List String),
    takeValid valid custom acc = acc ++ firstOcc (custom.filter (· ∈ valid))
  | [], valid, acc => by simp [takeValid, firstOcc]
  | n :: rest, valid, acc => by
    unfold takeValid
    by_cases hn : n ∈ valid
    · simp only [hn, if_true]
      rw [takeValid_eq rest]
      have hf : (n :: rest).filter (· ∈ valid) = n :: rest.filter (· ∈ valid) := by simp [hn]
      rw [hf]
      simp only [firstOcc, List.append_assoc, List.singleton_append]
      congr 2
      rw [← firstOcc_filter, List.filter_filter]
      congr 1
      apply List.filter_congr
      intro a _
      by_cases ha : a = n
      · subst ha; simp
      · simp [List.mem_filter, ha]
    · simp only [hn, if_false]
      rw [takeValid_eq rest]
      simp [hn]

theorem glyphsMakeOrder_eq (custom : Option (List String)) (file : List String) :
    glyphsMakeOrder custom file =
      firstOcc ((custom.getD []).filter (· ∈ file)) ++ file.filter (· ∉ custom.getD []) := by
  unfold glyphsMakeOrder
  simp only [takeValid_eq, List.nil_append]
  congr 1
  apply List.filter_congr
  intro a ha
  simp [mem_firstOcc, List.mem_filter, ha]

theorem glyphsMakeOrder_perm (custom : Option (List String)) (file : List String) (hn : file.Nodup) :
    (glyphsMakeOrder custom file).Perm file := by
  rw [glyphsMakeOrder_eq]
  generalize custom.getD [] = dn
  have hnd : (firstOcc (dn.filter (· ∈ file)) ++ file.filter (· ∉ dn)).Nodup := by
    rw [List.nodup_append]
    refine ⟨firstOcc_nodup _, hn.sublist List.filter_sublist, ?_⟩
    intro a ha b hb hab
    subst hab
    have h1 := mem_firstOcc.mp ha
    simp only [List.mem_filter, decide_eq_true_eq] at h1 hb
    exact hb.2 h1.1
  apply (List.perm_ext_iff_of_nodup hnd hn).mpr
  intro a
  simp only [List.mem_append, mem_firstOcc, List.mem_filter, decide_eq_true_eq]
  constructor
  · rintro (h | h)
    · exact h.2
    · exact h.1
  · intro h
    by_cases hd : a ∈ dn
    · exact Or.inl ⟨hd, h⟩
    · exact Or.inr ⟨h, hd⟩

/-- collecting into the IndexSet changes nothing when the file has no repeated glyph name -/
theorem glyphsGlyphOrder_eq (custom : Option (List String)) (file : List String) (hn : file.Nodup) :
    glyphsGlyphOrder custom file = glyphsMakeOrder custom file := by
  unfold glyphsGlyphOrder
  rw [ixExtend_nil_left]
  exact firstOcc_of_nodup ((glyphsMakeOrder_perm custom file hn).nodup_iff.mpr hn)

end Fontc.GlyphOrder
