/-
  `NBox::overlay_onto` as a whole: shape, soundness and the two steps of the overlay invariant.
-/
import FontcProofs.FeatVarsRem

namespace Fontc.FeatVars

theorem length_interBox (c w : NBox) (hl : c.length = w.length) : (interBox c w).length = w.length := by
  simp [interBox, hl]

theorem interBox_ok (c w : NBox) (hcok : BoxOk c) (hwok : BoxOk w) : BoxOk (interBox c w) := by
  induction c generalizing w with
  | nil => simp [interBox]; exact BoxOk.nil
  | cons ce c ih =>
    cases w with
    | nil => simp [interBox]; exact BoxOk.nil
    | cons we w =>
      rw [interBox_cons]
      have t := ih w hcok.tail hwok.tail
      cases ce with
      | none =>
        rw [interAxis_none_left]
        cases we with
        | none => exact t.cons_none
        | some r => obtain ⟨u, v⟩ := r; exact BoxOk.cons_some hwok.head.1 hwok.head.2 t
      | some r =>
        obtain ⟨a, b⟩ := r
        cases we with
        | none => rw [interAxis_some_none]; exact BoxOk.cons_some hcok.head.1 hcok.head.2 t
        | some r' =>
          obtain ⟨u, v⟩ := r'
          rw [interAxis_some_some]
          have := clampIns_ok (ratMax a u) (ratMin b v)
          exact BoxOk.cons_some this.1 this.2 t

theorem overlayOnto_fst (c w : NBox) :
    (overlayOnto c w).1 = if (c.zip w).any (fun x => commonEmpty x.1 x.2) then none else some (interBox c w) := by
  unfold overlayOnto interBox
  simp only []
  split
  · rfl
  · split
    · rfl
    · split <;> rfl

theorem overlayOnto_snd (c w : NBox) :
    (overlayOnto c w).2 =
      if (c.zip w).any (fun x => commonEmpty x.1 x.2) then some w
      else match remLoop (c.zip w) ((c.zip w).any fun x => selfOnly x.1 x.2) with
        | none => some w
        | some (r, ex) => if ex then some r else none := by
  unfold overlayOnto
  simp only []
  split
  · rfl
  · split
    · rename_i h; simp [h]
    · rename_i r ex h; simp only [h]; split <;> rfl

/-- shape of the intersection result -/
theorem overlayOnto_inter_shape {c w i : NBox} (hcok : BoxOk c) (hwok : BoxOk w) (hl : c.length = w.length)
    (h : (overlayOnto c w).1 = some i) : i.length = w.length ∧ BoxOk i ∧ i = interBox c w := by
  rw [overlayOnto_fst] at h
  split at h
  · cases h
  · cases h; exact ⟨length_interBox c w hl, interBox_ok c w hcok hwok, rfl⟩

/-- shape and soundness of the remainder result: a box inside `other` -/
theorem overlayOnto_rem_shape {c w r : NBox} (hcok : BoxOk c) (hwok : BoxOk w) (hl : c.length = w.length)
    (h : (overlayOnto c w).2 = some r) :
    r.length = w.length ∧ BoxOk r ∧ ∀ p : Point, contains r p = true → contains w p = true := by
  rw [overlayOnto_snd] at h
  split at h
  · cases h; exact ⟨rfl, hwok, fun _ h => h⟩
  · split at h
    · cases h; exact ⟨rfl, hwok, fun _ h => h⟩
    · rename_i r' ex hr
      split at h
      · cases h; exact remLoop_sub c w _ r ex hcok hwok hl hr
      · cases h

/-- **Intersection step**: a good `w` and an input box `c` both containing `p` yield a good intersection. -/
theorem step_inter {L H : Bnd} (c w : NBox) (p : Point)
    (hg : Good L H w p) (hc : contains c p = true) (hin : InB L H c) (hnt : NoTouch L H p)
    (hcok : BoxOk c) (hwok : BoxOk w) (hl : c.length = w.length) (hp : p.length = w.length) :
    (overlayOnto c w).1 = some (interBox c w) ∧ Good L H (interBox c w) p := by
  have := inter_good c w p hg hc hin hnt hcok hwok hl hp
  rw [overlayOnto_fst, this.1]
  exact ⟨by simp, this.2⟩

/-- **Remainder step**: a good `w` containing `p` and an input box `c` not containing `p` yield a good
    remainder. -/
theorem step_rem {L H : Bnd} (c w : NBox) (p : Point)
    (hg : Good L H w p) (hc : contains c p = false)
    (hcok : BoxOk c) (hwok : BoxOk w) (hl : c.length = w.length) (hp : p.length = w.length) :
    ∃ r, (overlayOnto c w).2 = some r ∧ Good L H r p := by
  rw [overlayOnto_snd]
  split
  · exact ⟨w, rfl, hg⟩
  · split
    · exact ⟨w, rfl, hg⟩
    · rename_i r ex hr
      cases hso : (c.zip w).any fun x => selfOnly x.1 x.2 with
      | true =>
        rw [hso] at hr
        obtain ⟨rfl, rfl⟩ := remLoop_true c w r ex hcok hwok hl hr
        exact ⟨r, by simp, hg⟩
      | false =>
        rw [hso] at hr
        have := remLoop_false c w r ex p hcok hwok hl hp hso hr hg
        cases ex with
        | false => have := this.1 rfl; rw [hc] at this; cases this
        | true =>
          rcases this.2 with h | h
          · rw [hc] at h; cases h
          · exact ⟨r, by simp, h⟩

/-- the "fully inside" answer (`remainder = None`) is only given when `self` covers `other` -/
theorem overlayOnto_rem_none {c w : NBox} (p : Point) (hcok : BoxOk c) (hwok : BoxOk w)
    (hl : c.length = w.length) (hp : p.length = w.length)
    (h : (overlayOnto c w).2 = none) (hw : contains w p = true) : contains c p = true := by
  cases hc : contains c p with
  | true => rfl
  | false =>
    obtain ⟨r, hr, _⟩ := step_rem (L := fun _ _ => True) (H := fun _ _ => True) c w p
      (good_of_contains hw) hc hcok hwok hl hp
    rw [h] at hr; cases hr

end Fontc.FeatVars
