import FontcProofs.SchedProgress
namespace Fontc.Sched

/-! ### static facts from `checkProgress` -/

structure ProgFacts (sc : Script) (c : ProgCert) : Prop where
  keys : (sc.onDeliver.map (·.1)).Nodup
  no_unknown_rewrite : ∀ p ∈ sc.rewrites, p.2.2 ≠ .unknown
  suffix : ∀ p ∈ sc.onDeliver, suffixOK sc p.1 p.2 = true
  also_not_job : ∀ o ∈ sc.jobs, ∀ x ∈ o.also, x ∉ sc.jobIds
  creator : ∀ p ∈ sc.onDeliver, ∀ k, Effect.add k ∈ p.2 →
    c.rkOf p.1 < c.rkOf k.id ∧ p.1 ∈ sc.jobIds ∧ sc.skippers p.1 = []
  below : ∀ j ∈ sc.jobs, ∀ a ∈ sc.versions j.id, accessBelow sc c j.id a = true
  resolver : ∀ j ∈ sc.jobs, Access.unknown ∈ sc.versions j.id →
    ∃ q, c.rkOf q < c.rkOf j.id ∧ q ∈ sc.jobIds ∧ sc.skippers q = [] ∧ sc.resolves q j.id = true

theorem progFacts {sc : Script} {c : ProgCert} (h : checkProgress sc c = true) : ProgFacts sc c := by
  simp only [checkProgress, Bool.and_eq_true, decide_eq_true_eq, List.all_eq_true] at h
  obtain ⟨⟨⟨⟨⟨⟨h1, h2⟩, h3⟩, h4⟩, h5⟩, h6⟩, h7⟩ := h
  constructor
  · exact h1
  · intro p hp; simpa using h2 p hp
  · exact h3
  · intro o ho x hx
    have := h4 o ho x hx
    simpa using this
  · intro p hp k hk
    have := h5 p hp (.add k) hk
    simp only [Bool.and_eq_true, decide_eq_true_eq, List.contains_iff_mem, List.isEmpty_iff] at this
    exact ⟨this.1.1, this.1.2, this.2⟩
  · exact h6
  · intro j hj hu
    have := h7 j hj
    simp only [Bool.or_eq_true, Bool.not_eq_true', List.contains_eq_mem, decide_eq_false_iff_not] at this
    rcases this with h | h
    · exact absurd hu h
    · cases hr : c.resOf j.id with
      | none => simp [hr] at h
      | some q =>
        simp only [hr, Bool.and_eq_true, decide_eq_true_eq, List.contains_iff_mem, List.isEmpty_iff] at h
        exact ⟨q, h.1.1.1, h.1.1.2, h.1.2, h.2⟩

theorem effects_of_mem {sc : Script} (hk : (sc.onDeliver.map (·.1)).Nodup) {p : Id × List Effect} (hp : p ∈ sc.onDeliver) :
    sc.effects p.1 = p.2 := by
  unfold Script.effects
  have : sc.onDeliver.find? (fun x => decide (x.1 = p.1)) = some p := by
    generalize sc.onDeliver = l at *
    induction l with
    | nil => simp at hp
    | cons x l ih =>
      simp only [List.map_cons, List.nodup_cons, List.mem_map, not_exists, not_and] at hk
      simp only [List.mem_cons] at hp
      rcases hp with rfl | hp
      · simp
      · have : ¬ x.1 = p.1 := fun e => hk.1 p hp e.symm
        simp [List.find?, this, ih hk.2 hp]
  rw [this]

/-- an effect list that does something comes from an `onDeliver` entry -/
theorem effects_any_entry {sc : Script} {q : Id} {f : Effect → Bool} (h : (sc.effects q).any f = true) :
    ∃ p ∈ sc.onDeliver, p.1 = q ∧ p.2.any f = true := by
  rcases effects_entry (sc := sc) q with he | ⟨p, hp, hpq, he⟩
  · rw [he] at h; simp at h
  · exact ⟨p, hp, hpq, by rw [← he]; exact h⟩

/-! ### `Unknown` accesses are resolved by the delivery of their resolver -/

/-- no pending job still has access `Unknown` although a delivery that resolves it has been handled -/
def Resolved (sc : Script) (s : State) : Prop :=
  ∀ e ∈ s.pending, e.kind ≠ .alsoComplete → e.reads = .unknown → ∀ q ∈ s.delivered, sc.resolves q e.id = false

/-- … while the effects of `Deliver(q0)` are being applied (`rest` still to come) -/
def ResolvedMid (sc : Script) (q0 : Id) (rest : List Effect) (s : State) : Prop :=
  ∀ e ∈ s.pending, e.kind ≠ .alsoComplete → e.reads = .unknown → ∀ q ∈ s.delivered, sc.resolves q e.id = true →
    q = q0 ∧ rest.any (resolvesEff e.id) = true

theorem resolvedMid_end {sc : Script} {q0 : Id} {s : State} (h : ResolvedMid sc q0 [] s) : Resolved sc s := by
  intro e he hk hu q hq
  cases hr : sc.resolves q e.id with
  | false => rfl
  | true => have := (h e he hk hu q hq hr).2; simp at this

theorem resolvedMid_start {sc : Script} {s s1 : State} {q0 : Id} (h : Resolved sc s) (hr : s.receive q0 = some s1) :
    ResolvedMid sc q0 (sc.effects q0) s1 := by
  obtain ⟨_, _, hc⟩ := receive_spec hr
  obtain ⟨rfl, _, _⟩ := complete_spec hc
  intro e he hk hu q hq hres
  have he' : e ∈ s.pending := (List.mem_filter.1 he).1
  simp only [List.mem_cons] at hq
  rcases hq with rfl | hq
  · exact ⟨rfl, hres⟩
  · have := h e he' hk hu q hq
    rw [this] at hres; simp at hres

theorem resolvedMid_step {sc : Script} {c : ProgCert} (pf : ProgFacts sc c) {q0 : Id} {eff : Effect} {rest : List Effect}
    {s s' : State} (h : ResolvedMid sc q0 (eff :: rest) s) (hsuf : suffixOK sc q0 (eff :: rest) = true)
    (hmem : eff ∈ sc.effects q0) (ha : s.applyEffect eff = some s') :
    ResolvedMid sc q0 rest s' ∧ suffixOK sc q0 rest = true := by
  simp only [suffixOK, Bool.and_eq_true] at hsuf
  refine ⟨?_, hsuf.2⟩
  have hdel := applyEffect_delivered ha
  cases eff with
  | add k =>
    obtain ⟨_, cs, rfl, _⟩ := insertJob_spec ha
    intro e he hk hu q hq hres
    simp only [List.mem_cons, List.mem_append, List.mem_reverse, List.mem_map] at he
    rcases he with rfl | ⟨b, _, rfl⟩ | he
    · -- the new job itself
      have hku : k.reads = .unknown := hu
      have h1 := hsuf.1
      simp only [hku, ne_eq, not_true_eq_false, decide_false, Bool.false_or, Bool.and_eq_true, List.all_eq_true,
        Bool.or_eq_true, decide_eq_true_eq, Bool.not_eq_true'] at h1
      obtain ⟨p', hp', hpq, hany⟩ := effects_any_entry hres
      rcases h1.2 p' hp' with h2 | h2
      · exact ⟨hpq.symm.trans h2, h1.1⟩
      · have : (jobEntry k).id = k.id := rfl
        rw [this] at hany; rw [hany] at h2; simp at h2
    · simp [placeholder] at hk
    · have := h e he hk hu q hq hres
      refine ⟨this.1, ?_⟩
      simpa [resolvesEff] using this.2
  | rewrite i a m =>
    have := rewrite_spec ha; subst this
    have hne : a ≠ .unknown := pf.no_unknown_rewrite _ (rewrite_mem_rewrites hmem)
    intro e he hk hu q hq hres
    simp only [List.mem_map] at he
    obtain ⟨y, hy, rfl⟩ := he
    have hid : (setReads i a y).id = y.id := by simp only [setReads]; split <;> rfl
    have hkind : (setReads i a y).kind = y.kind := by simp only [setReads]; split <;> rfl
    by_cases hyi : y.id = i
    · simp [setReads, hyi] at hu
      exact absurd hu hne
    · have hreads : (setReads i a y).reads = y.reads := by simp [setReads, hyi]
      rw [hid] at hres ⊢
      have := h y hy (hkind ▸ hk) (hreads ▸ hu) q hq hres
      refine ⟨this.1, ?_⟩
      have hh : resolvesEff y.id (.rewrite i a m) = false := by
        simp [resolvesEff]; exact fun e => hyi e.symm
      simpa [hh] using this.2
  | skip i =>
    rcases skip_spec ha with ⟨hnp, rfl⟩ | ⟨o, cs, ho, rfl, _, _, _, hc⟩
    · intro e he hk hu q hq hres
      have := h e he hk hu q hq hres
      refine ⟨this.1, ?_⟩
      have hne : e.id ≠ i := by
        intro heq
        have := isPending_iff.2 ⟨e, he, heq⟩
        rw [hnp] at this; simp at this
      have hh : resolvesEff e.id (.skip i) = false := by
        simp [resolvesEff]; exact fun e' => hne e'.symm
      simpa [hh] using this.2
    · obtain ⟨rfl, _, _⟩ := complete_spec hc
      intro e he hk hu q hq hres
      simp only [List.mem_filter, decide_eq_true_eq, List.mem_cons, not_or] at he
      have := h e he.1 hk hu q hq hres
      refine ⟨this.1, ?_⟩
      have hh : resolvesEff e.id (.skip o.id) = false := by
        simp [resolvesEff]; exact fun e' => he.2.1 e'.symm
      simpa [hh] using this.2
  | guard i st =>
    simp only [State.applyEffect] at ha
    split at ha
    · simp at ha; subst ha
      intro e he hk hu q hq hres
      have := h e he hk hu q hq hres
      exact ⟨this.1, by simpa [resolvesEff] using this.2⟩
    · simp at ha

theorem resolvedMid_effects {sc : Script} {c : ProgCert} (pf : ProgFacts sc c) {q0 : Id} {es : List Effect}
    {s s' : State} (h : ResolvedMid sc q0 es s) (hsuf : suffixOK sc q0 es = true)
    (hmem : ∀ e ∈ es, e ∈ sc.effects q0) (ha : s.applyEffects es = some s') : Resolved sc s' := by
  induction es generalizing s with
  | nil => simp [State.applyEffects] at ha; subst ha; exact resolvedMid_end h
  | cons e es ih =>
    simp only [State.applyEffects] at ha
    obtain ⟨s1, h1, h2⟩ := Option.bind_eq_some_iff.1 ha
    obtain ⟨hm, hs⟩ := resolvedMid_step pf h hsuf (hmem e (by simp)) h1
    exact ih hm hs (fun x hx => hmem x (by simp [hx])) h2

theorem ReachInit.resolved {sc : Script} {c : ProgCert} (pf : ProgFacts sc c) {s : State} (r : ReachInit sc s) :
    Resolved sc s := by
  induction r with
  | init h =>
    intro e _ _ _ q hq
    rw [initState] at h
    rw [insertAll_delivered h] at hq
    simp [State.empty] at hq
  | launch id _ h ih =>
    obtain ⟨e0, _, _, _, rfl⟩ := launch_spec h
    intro e he hk hu q hq
    simp only [List.mem_map] at he
    obtain ⟨y, hy, rfl⟩ := he
    have h1 : (setRunning id y).id = y.id ∧ (setRunning id y).kind = y.kind ∧ (setRunning id y).reads = y.reads := by
      simp only [setRunning]; split <;> simp
    rw [h1.1]
    exact ih y hy (h1.2.1 ▸ hk) (h1.2.2 ▸ hu) q hq
  | finish id _ h ih =>
    obtain ⟨e0, cs, _, _, _, _, _, rfl⟩ := finish_spec h
    exact ih
  | deliver id _ h ih =>
    unfold State.deliver at h
    obtain ⟨s1, h1, h2⟩ := Option.bind_eq_some_iff.1 h
    have hsuf : suffixOK sc id (sc.effects id) = true := by
      rcases effects_entry (sc := sc) id with he | ⟨p, hp, hpq, he⟩
      · rw [he]; rfl
      · rw [he, ← hpq]; exact pf.suffix p hp
    exact resolvedMid_effects pf (resolvedMid_start ih h1) hsuf (fun e he => he) h2


/-! ### where the `also_completes` map comes from -/

def AlsoOrigin (sc : Script) (s : State) : Prop :=
  ∀ p ∈ s.also, ∃ job ∈ sc.jobs, job.id = p.1 ∧ job.also = p.2

theorem alsoOrigin_of {sc : Script} {s : State} (ao : AlsoOrigin sc s) {o x : Id} (hx : x ∈ s.alsoOf o) :
    ∃ job ∈ sc.jobs, job.id = o ∧ x ∈ job.also := by
  unfold State.alsoOf at hx
  split at hx
  · rename_i p hp
    obtain ⟨job, hj, hid, hal⟩ := ao p (List.mem_of_find?_eq_some hp)
    have : p.1 = o := by simpa using List.find?_some hp
    exact ⟨job, hj, hid.trans this, hal ▸ hx⟩
  · simp at hx

theorem ao_insertJob {sc : Script} {s s' : State} {j : Job} (ao : AlsoOrigin sc s) (hj : j ∈ sc.jobs)
    (h : s.insertJob j = some s') : AlsoOrigin sc s' := by
  obtain ⟨_, cs, rfl, _⟩ := insertJob_spec h
  intro p hp
  by_cases he : j.also.isEmpty
  · simp [he] at hp; exact ao p hp
  · simp [he] at hp
    rcases hp with rfl | hp
    · exact ⟨j, hj, rfl, rfl⟩
    · exact ao p hp

theorem also_applyEffect {s s' : State} {e : Effect} (h : s.applyEffect e = some s') (hne : ∀ j, e ≠ .add j) :
    s'.also = s.also := by
  cases e with
  | add j => exact absurd rfl (hne j)
  | rewrite i a m => have := rewrite_spec h; subst this; rfl
  | skip i =>
    rcases skip_spec h with ⟨_, rfl⟩ | ⟨o, cs, _, _, _, _, _, hc⟩
    · rfl
    · obtain ⟨rfl, _, _⟩ := complete_spec hc; rfl
  | guard i st =>
    simp only [State.applyEffect] at h
    split at h
    · simp at h; subst h; rfl
    · simp at h

theorem ao_applyEffects {sc : Script} {q : Id} {es : List Effect} {s s' : State} (ao : AlsoOrigin sc s)
    (hes : ∀ e ∈ es, e ∈ sc.effects q) (h : s.applyEffects es = some s') : AlsoOrigin sc s' := by
  induction es generalizing s with
  | nil => simp [State.applyEffects] at h; subst h; exact ao
  | cons e es ih =>
    simp only [State.applyEffects] at h
    obtain ⟨s1, h1, h2⟩ := Option.bind_eq_some_iff.1 h
    have ao1 : AlsoOrigin sc s1 := by
      cases e with
      | add j => exact ao_insertJob ao (spawns_mem_jobs (add_mem_spawns (hes _ (by simp)))) h1
      | rewrite i a m => intro p hp; rw [also_applyEffect h1 (by simp)] at hp; exact ao p hp
      | skip i => intro p hp; rw [also_applyEffect h1 (by simp)] at hp; exact ao p hp
      | guard i st => intro p hp; rw [also_applyEffect h1 (by simp)] at hp; exact ao p hp
    exact ih ao1 (fun x hx => hes x (by simp [hx])) h2

theorem ReachInit.alsoOrigin {sc : Script} {s : State} (r : ReachInit sc s) : AlsoOrigin sc s := by
  induction r with
  | init h =>
    rw [initState] at h
    have : ∀ (js : List Job) (a b : State), (∀ j ∈ js, j ∈ sc.init) → AlsoOrigin sc a → a.insertAll js = some b → AlsoOrigin sc b := by
      intro js
      induction js with
      | nil => intro a b _ ao hab; simp [State.insertAll] at hab; subst hab; exact ao
      | cons j js ihj =>
        intro a b hjs ao hab
        simp only [State.insertAll] at hab
        obtain ⟨a1, h1, h2⟩ := Option.bind_eq_some_iff.1 hab
        exact ihj a1 b (fun x hx => hjs x (by simp [hx])) (ao_insertJob ao (init_mem_jobs (hjs j (by simp))) h1) h2
    exact this _ _ _ (fun j hj => hj) (by intro p hp; simp [State.empty] at hp) h
  | launch id _ h ih => obtain ⟨e0, _, _, _, rfl⟩ := launch_spec h; exact ih
  | finish id _ h ih => obtain ⟨e0, cs, _, _, _, _, _, rfl⟩ := finish_spec h; exact ih
  | deliver id _ h ih =>
    unfold State.deliver at h
    obtain ⟨s1, h1, h2⟩ := Option.bind_eq_some_iff.1 h
    have ao1 : AlsoOrigin sc s1 := by
      obtain ⟨_, _, hc⟩ := receive_spec h1
      obtain ⟨rfl, _, _⟩ := complete_spec hc
      exact ih
    exact ao_applyEffects ao1 (fun e he => he) h2

/-! ### a job that has not been delivered keeps some job of at most its rank pending -/

theorem mem_jobIds {sc : Script} {q : Id} (h : q ∈ sc.jobIds) : ∃ job ∈ sc.jobs, job.id = q := by
  simpa [Script.jobIds] using h

theorem alive {sc : Script} {c : ProgCert} (pf : ProgFacts sc c) {s : State} (r : ReachInit sc s) (fresh : s.inserted.Nodup) :
    ∀ n q, c.rkOf q ≤ n → q ∈ sc.jobIds → sc.skippers q = [] → q ∉ s.delivered →
      ∃ p ∈ s.pending, p.kind ≠ .alsoComplete ∧ c.rkOf p.id ≤ c.rkOf q := by
  have w := r.reach.wf fresh
  have hh := r.reach.hist fresh
  have hs := r.scr fresh
  have ao := r.alsoOrigin
  -- an id that is a job id is never an also-completes id
  have not_also : ∀ q ∈ sc.jobIds, ∀ o, q ∉ s.alsoOf o := by
    intro q hq o hin
    obtain ⟨job, hj, _, hal⟩ := alsoOrigin_of ao hin
    exact pf.also_not_job job hj q hal hq
  intro n
  induction n with
  | zero =>
    intro q hrk hq hsk hnd
    exact alive_aux pf r fresh w hh hs not_also q hq hsk hnd (fun c' hc' _ _ _ => by omega)
  | succ n ih =>
    intro q hrk hq hsk hnd
    exact alive_aux pf r fresh w hh hs not_also q hq hsk hnd
      (fun c' hc' hcj hcs hcd => ih c' (by omega) hcj hcs hcd)
where
  alive_aux {sc : Script} {c : ProgCert} (pf : ProgFacts sc c) {s : State} (r : ReachInit sc s) (fresh : s.inserted.Nodup)
      (w : WF s) (hh : Hist s) (hs : Scr sc s) (not_also : ∀ q ∈ sc.jobIds, ∀ o, q ∉ s.alsoOf o)
      (q : Id) (hq : q ∈ sc.jobIds) (hsk : sc.skippers q = []) (hnd : q ∉ s.delivered)
      (ih : ∀ c', c.rkOf c' < c.rkOf q → c' ∈ sc.jobIds → sc.skippers c' = [] → c' ∉ s.delivered →
        ∃ p ∈ s.pending, p.kind ≠ .alsoComplete ∧ c.rkOf p.id ≤ c.rkOf c') :
      ∃ p ∈ s.pending, p.kind ≠ .alsoComplete ∧ c.rkOf p.id ≤ c.rkOf q := by
    by_cases hins : q ∈ s.inserted
    · rcases w.inserted_cases q hins with hp | hsucc
      · obtain ⟨y, hy, rfl⟩ := isPending_iff.1 hp
        by_cases hk : y.kind = .alsoComplete
        · obtain ⟨p, _, _, _, hin⟩ := w.owner_also y hy hk
          exact absurd hin (not_also y.id hq _)
        · exact ⟨y, hy, hk, Nat.le_refl _⟩
      · obtain ⟨o, ho, hqo⟩ := hh.succ_char q hsucc
        rcases hqo with rfl | hqo
        · rcases ho with ho | ho
          · exact absurd ho hnd
          · obtain ⟨q', _, hq'⟩ := hs.skipped_origin _ ho
            rw [hsk] at hq'; simp at hq'
        · exact absurd hqo (not_also q hq o)
    · -- not inserted yet: its creator has not been delivered
      obtain ⟨job, hjob, rfl⟩ := mem_jobIds hq
      have hninit : job ∉ sc.init := by
        intro hi
        apply hins
        apply r.init_inserted
        simp only [Script.initIds, List.mem_flatMap]
        exact ⟨job, hi, by simp [Job.ids]⟩
      simp only [Script.jobs, List.mem_append, List.mem_map] at hjob
      rcases hjob with hjob | ⟨⟨c', k⟩, hck, rfl⟩
      · exact absurd hjob hninit
      · simp only [Script.spawns, List.mem_flatMap, List.mem_filterMap] at hck
        obtain ⟨p, hp, eff, heff, hadd⟩ := hck
        cases eff with
        | add k' =>
          simp only [Effect.addJob?, Option.map_some, Option.some.injEq, Prod.mk.injEq] at hadd
          obtain ⟨rfl, rfl⟩ := hadd
          obtain ⟨hrk, hcj, hcs⟩ := pf.creator p hp k' heff
          have hcd : p.1 ∉ s.delivered := by
            intro hd
            apply hins
            apply r.added_inserted p.1 hd
            simp only [Script.addedIds, List.mem_flatMap]
            rw [effects_of_mem pf.keys hp]
            exact ⟨.add k', heff, by simp [Job.ids]⟩
          obtain ⟨p', hp', hpk, hprk⟩ := ih p.1 hrk hcj hcs hcd
          exact ⟨p', hp', hpk, by show c.rkOf p'.id ≤ c.rkOf k'.id; omega⟩
        | rewrite _ _ _ => simp [Effect.addJob?] at hadd
        | skip _ => simp [Effect.addJob?] at hadd
        | guard _ _ => simp [Effect.addJob?] at hadd


/-! ### the progress theorem -/

theorem exists_min {α : Type} (f : α → Nat) : ∀ (l : List α), l ≠ [] → ∃ a ∈ l, ∀ b ∈ l, f a ≤ f b
  | [], h => absurd rfl h
  | [a], _ => ⟨a, by simp, by simp⟩
  | a :: b :: l, _ => by
    obtain ⟨m, hm, hmin⟩ := exists_min f (b :: l) (by simp)
    by_cases h : f a ≤ f m
    · refine ⟨a, by simp, ?_⟩
      intro x hx
      simp only [List.mem_cons] at hx
      rcases hx with rfl | hx
      · exact Nat.le_refl _
      · exact Nat.le_trans h (hmin x (by simpa using hx))
    · refine ⟨m, by simp [List.mem_cons] at hm ⊢; exact Or.inr hm, ?_⟩
      intro x hx
      simp only [List.mem_cons] at hx
      rcases hx with rfl | hx
      · omega
      · exact hmin x (by simpa using hx)

theorem mem_allIds_of_owner {sc : Script} {o x : Id} (h : o ∈ sc.owners x) : x ∈ sc.allIds := by
  simp only [Script.owners, List.mem_map, List.mem_filter] at h
  obtain ⟨job, ⟨hj, hc⟩, _⟩ := h
  simp only [Script.allIds, List.mem_flatMap]
  exact ⟨job, hj, by simpa using hc⟩

/-- the job `p` that `e` waits for has a lower rank -/
theorem waitsFor_lower {sc : Script} {c : ProgCert} (pf : ProgFacts sc c) {s : State} (hs : Scr sc s)
    {e p : Entry} (he : e ∈ s.pending) (hreal : e.kind ≠ .alsoComplete) (hp : p ∈ s.pending) (hpk : p.kind ≠ .alsoComplete)
    (hw : WaitsFor s e p) : c.rkOf p.id < c.rkOf e.id := by
  -- the static record of `e`
  have hjob : ∃ job ∈ sc.jobs, job.id = e.id := by
    have := hs.entry_isjob e he hreal
    simp only [Script.owners, List.mem_map, List.mem_filter] at this
    obtain ⟨job, ⟨hj, _⟩, hid⟩ := this
    exact ⟨job, hj, hid⟩
  obtain ⟨job, hj, hjid⟩ := hjob
  have hver := (hs.entry_acc e he hreal).version
  have hb := pf.below job hj e.reads (hjid ▸ hver)
  rw [hjid] at hb
  unfold WaitsFor at hw
  cases hr : e.reads with
  | none => simp [hr] at hw
  | unknown => simp [hr] at hw
  | all =>
    simp only [hr] at hw hb
    obtain ⟨y, hy, hne, hyo⟩ := hw
    have hown := hs.owner_static y hy
    simp only [accessBelow, List.all_eq_true, Bool.or_eq_true, decide_eq_true_eq] at hb
    rcases hb y.id (mem_allIds_of_owner hown) with h | h
    · exact absurd h hne
    · simp only [ownersBelow, List.all_eq_true, decide_eq_true_eq] at h
      exact h p.id (hyo ▸ hown)
  | set ds =>
    simp only [hr] at hw hb
    simp only [accessBelow, List.all_eq_true] at hb
    rcases hw with ⟨x, hx, y, hy, hyx, hyo⟩ | ⟨d, hd, hdp, _⟩
    · have hown := hs.owner_static y hy
      have := hb _ hx
      simp only [depBelow, ownersBelow, List.all_eq_true, decide_eq_true_eq] at this
      exact this p.id (by rw [← hyx, ← hyo]; exact hown)
    · have := hb _ hd
      simp only [depBelow, List.all_eq_true, Bool.or_eq_true, decide_eq_true_eq, ne_eq, decide_not,
        Bool.not_eq_true', decide_eq_false_iff_not] at this
      -- the slot of discriminant `d` that `p` still holds
      have hslot : ∃ x, x.disc = d ∧ p.id ∈ sc.owners x := by
        simp only [State.counterDiscs, List.mem_cons, List.mem_map] at hdp
        rcases hdp with h | ⟨a, ha, had⟩
        · exact ⟨p.id, h.symm, hs.entry_isjob p hp hpk⟩
        · exact ⟨a, had, hs.also_static p.id a ha⟩
      obtain ⟨x, hxd, hxo⟩ := hslot
      rcases this x (mem_allIds_of_owner hxo) with h | h
      · exact absurd hxd h
      · simp only [ownersBelow, List.all_eq_true, decide_eq_true_eq] at h
        exact h p.id hxo

/-- **no_unable_to_proceed.**  If `checkProgress` accepts the script (with any certificate) and its ids are distinct, then
    in every interleaving the scheduler never gives up: whenever nothing is running and nothing is in flight, either all
    jobs are done or something is launchable. -/
theorem no_unable_to_proceed_aux {sc : Script} {c : ProgCert} (hc : checkProgress sc c = true) (hf : freshIds sc = true)
    {s : State} (r : ReachInit sc s) : s.unableToProceed = false := by
  have pf := progFacts hc
  have fresh := (fresh_sound hf r).1
  have w := r.reach.wf fresh
  have hs := r.scr fresh
  cases hst : s.unableToProceed with
  | false => rfl
  | true =>
    exfalso
    obtain ⟨⟨e0, he0, hk0⟩, hall⟩ := unable_to_proceed_cases r.reach fresh hst
    -- the pending jobs, and one of minimal rank
    let jobs := s.pending.filter (fun e => decide (e.kind ≠ .alsoComplete))
    have hne : jobs ≠ [] := by
      intro h
      have : e0 ∈ jobs := by simp [jobs, he0, hk0]
      rw [h] at this; simp at this
    obtain ⟨e, he, hmin⟩ := exists_min (fun e => c.rkOf e.id) jobs hne
    have hep : e ∈ s.pending := (List.mem_filter.1 he).1
    have hek : e.kind ≠ .alsoComplete := by simpa using (List.mem_filter.1 he).2
    have hmin' : ∀ p ∈ s.pending, p.kind ≠ .alsoComplete → c.rkOf e.id ≤ c.rkOf p.id := by
      intro p hp hpk
      exact hmin p (by simp [jobs, hp, hpk])
    rcases hall e hep hek with hu | ⟨p, hp, hpk, hw⟩
    · -- `Unknown`: its resolver has not been delivered, so a job of lower rank is pending
      have hjob : ∃ job ∈ sc.jobs, job.id = e.id := by
        have := hs.entry_isjob e hep hek
        simp only [Script.owners, List.mem_map, List.mem_filter] at this
        obtain ⟨job, ⟨hj, _⟩, hid⟩ := this
        exact ⟨job, hj, hid⟩
      obtain ⟨job, hj, hjid⟩ := hjob
      have hver := (hs.entry_acc e hep hek).version
      rw [hu] at hver
      obtain ⟨q, hqrk, hqj, hqs, hqres⟩ := pf.resolver job hj (hjid ▸ hver)
      rw [hjid] at hqrk hqres
      have hqd : q ∉ s.delivered := by
        intro hd
        have := r.resolved pf e hep hek hu q hd
        rw [this] at hqres; simp at hqres
      obtain ⟨p, hp, hpk, hprk⟩ := alive pf r fresh (c.rkOf q) q (Nat.le_refl _) hqj hqs hqd
      have := hmin' p hp hpk
      omega
    · have := waitsFor_lower pf hs hep hek hp hpk hw
      have := hmin' p hp hpk
      omega

end Fontc.Sched
