/-
  Helper lemmas for C14: the two `target_file` tables send distinct ids to distinct paths
  (except kerning instances whose locations agree to two decimals).
  Core Lean only.
-/
import FontcModel.Paths
import FontcProofs.PathsStf
import FontcProofs.PathsKern

namespace Fontc.Paths

/-! ### `string_to_filename` -/

theorem stf_fold_inj (n1 n2 s : List Nat)
    (h : asciiFold (stringToFilename n1 s) = asciiFold (stringToFilename n2 s)) : n1 = n2 := by
  rw [stf_eq_append, stf_eq_append, asciiFold_append (escBody n1 ++ caseSuffix n1),
    asciiFold_append (escBody n2 ++ caseSuffix n2)] at h
  exact stf_core n1 n2 (List.append_cancel_right h)

theorem stf_inj (n1 n2 s : List Nat) (h : stringToFilename n1 s = stringToFilename n2 s) : n1 = n2 :=
  stf_fold_inj n1 n2 s (by rw [h])

/-- two suffixes of one length: equal results ⇒ equal names and equal suffixes -/
theorem stf_inj_suffix (n1 n2 s1 s2 : List Nat) (hl : s1.length = s2.length)
    (h : stringToFilename n1 s1 = stringToFilename n2 s2) : n1 = n2 ∧ s1 = s2 := by
  rw [stf_eq_append, stf_eq_append] at h
  obtain ⟨h1, h2⟩ := List.append_inj' h hl
  subst h2
  exact ⟨stf_core n1 n2 (by rw [h1]), rfl⟩

/-! ### FE ids -/

def FeId.printable : FeId → Prop
  | .kernInstance l => l.printable
  | _ => True

theorem stf_kern_prefix (t s : List Nat) :
    stringToFilename (107 :: 101 :: 114 :: 110 :: 95 :: t) s
      = 107 :: 101 :: 114 :: 110 :: 95 ::
        (t.flatMap (escChar false) ++ caseSuffix (107 :: 101 :: 114 :: 110 :: 95 :: t) ++ s) := by
  simp [stringToFilename, escBody, escChar, isReservedChar]

theorem kernFileName_head (pr : Rat → List Nat) (l : Loc) :
    ∃ t, kernFileName pr l = 107 :: 101 :: 114 :: 110 :: 95 :: t := by
  have h : ∃ t, kernName pr l = 107 :: 101 :: 114 :: 110 :: 95 :: t :=
    ⟨joinUnderscore (l.map (kernEntry pr)), by simp [kernName, lit]⟩
  obtain ⟨t, ht⟩ := h
  exact ⟨_, by rw [kernFileName, ht, stf_kern_prefix]⟩

theorem kern_locations_as_stf :
    lit "kern_locations.yml" = stringToFilename (lit "kern_locations") (lit ".yml") := by decide

theorem kernFileName_ne_locations (pr : Rat → List Nat) (l : Loc) (p : l.printable) :
    kernFileName pr l ≠ lit "kern_locations.yml" := by
  intro h
  rw [kern_locations_as_stf, kernFileName] at h
  exact kernName_ne_locations pr l p (stf_inj _ _ _ h)

/-- distinct FE ids, distinct files — at full strength for the current code, given what is assumed
    of the float printer -/
theorem fe_target_inj (pr : Rat → List Nat) (hi : PrintInjective pr) (hu : PrintNoUnderscore pr)
    (a b : FeId) (pa : a.printable) (pb : b.printable)
    (h : feTarget pr a = feTarget pr b) : a = b := by
  cases a <;> cases b <;>
    first
    | rfl
    | (exfalso; revert h; simp [feTarget, lit]; done)
    | skip
  case glyph.glyph n1 n2 =>
    simp only [feTarget] at h
    rw [stf_inj n1 n2 _ (List.append_cancel_left h)]
  case anchor.anchor n1 n2 =>
    simp only [feTarget] at h
    rw [stf_inj n1 n2 _ (List.append_cancel_left h)]
  case kerningLocations.kernInstance l =>
    exact absurd h.symm (kernFileName_ne_locations pr l pb)
  case kernInstance.kerningLocations l =>
    exact absurd h (kernFileName_ne_locations pr l pa)
  case kernInstance.kernInstance l1 l2 =>
    simp only [feTarget, kernFileName] at h
    rw [kernName_inj pr hi hu l1 l2 pa pb (stf_inj _ _ _ h)]
  all_goals
    exfalso
    simp only [feTarget] at h
    first
    | (rename_i l; obtain ⟨t, ht⟩ := kernFileName_head pr l; rw [ht] at h; revert h; simp [lit]; done)
    | (rename_i l _; obtain ⟨t, ht⟩ := kernFileName_head pr l; rw [ht] at h; revert h; simp [lit]; done)
    | (rename_i _ l; obtain ⟨t, ht⟩ := kernFileName_head pr l; rw [ht] at h; revert h; simp [lit]; done)

/-! ### BE ids -/

theorem stf_kernFragment (ds s : List Nat) :
    stringToFilename (107 :: 101 :: 114 :: 110 :: 95 :: 102 :: 114 :: 97 :: 103 :: 109 :: 101 :: 110 :: 116 :: 95 :: ds) s
      = 107 :: 101 :: 114 :: 110 :: 95 :: 102 :: 114 :: 97 :: 103 :: 109 :: 101 :: 110 :: 116 :: 95 ::
        (ds.flatMap (escChar false) ++
          caseSuffix (107 :: 101 :: 114 :: 110 :: 95 :: 102 :: 114 :: 97 :: 103 :: 109 :: 101 :: 110 :: 116 :: 95 :: ds) ++ s) := by
  simp [stringToFilename, escBody, escChar, isReservedChar]

theorem inj_of_nodup_map {α β : Type} (f : α → β) (l : List α) (h : (l.map f).Nodup) :
    ∀ a ∈ l, ∀ b ∈ l, f a = f b → a = b := by
  induction l with
  | nil => intro a ha; simp at ha
  | cons x xs ih =>
    rw [List.map_cons, List.nodup_cons] at h
    intro a ha b hb hab
    rw [List.mem_cons] at ha hb
    rcases ha with ha | ha <;> rcases hb with hb | hb
    · rw [ha, hb]
    · subst ha
      exact absurd (List.mem_map.mpr ⟨b, hb, hab.symm⟩) h.1
    · subst hb
      exact absurd (List.mem_map.mpr ⟨a, ha, hab⟩) h.1
    · exact ih h.2 a ha b hb hab

/-- the ids without a parameter -/
def beFixedAll : List BeId := [.features, .featuresAst, .avar, .cmap, .colr, .cpal, .font, .fvar, .gasp, .glyf, .gpos, .gsub, .gdef, .gvar, .head, .hhea, .hmtx, .hvar, .metaTable, .vhea, .vmtx, .vvar, .gatherIrKerning, .gatherBeKerning, .loca, .locaFormat, .marks, .maxp, .mvar, .name, .os2, .post, .stat, .extraFeaTables]

def BeId.isParam : BeId → Bool
  | .glyfFragment _ | .gvarFragment _ | .kernFragment _ => true
  | _ => false

theorem beFixedAll_nodup : (beFixedAll.map beTarget).Nodup := by decide

theorem mem_beFixedAll (a : BeId) (h : a.isParam = false) : a ∈ beFixedAll := by
  cases a <;> first | (simp [BeId.isParam] at h; done) | simp [beFixedAll]

theorem be_param_ne_fixed (a b : BeId) (ha : a.isParam = true) (hb : b.isParam = false) :
    beTarget a ≠ beTarget b := by
  intro h
  cases a <;> first | (simp [BeId.isParam] at ha; done) | skip
  all_goals
    cases b <;>
      first
      | (simp [BeId.isParam] at hb; done)
      | (revert h; simp [beTarget, lit]; done)
      | (revert h; simp [beTarget, lit, stf_kernFragment]; done)

theorem be_target_inj (a b : BeId) (h : beTarget a = beTarget b) : a = b := by
  cases ha : a.isParam <;> cases hb : b.isParam
  · exact inj_of_nodup_map beTarget beFixedAll beFixedAll_nodup a (mem_beFixedAll a ha) b (mem_beFixedAll b hb) h
  · exact absurd h.symm (be_param_ne_fixed b a hb ha)
  · exact absurd h (be_param_ne_fixed a b ha hb)
  · cases a <;> first | (simp [BeId.isParam] at ha; done) | skip
    all_goals (cases b <;> first | (simp [BeId.isParam] at hb; done) | skip)
    case glyfFragment.glyfFragment n1 n2 =>
      simp only [beTarget] at h
      rw [stf_inj n1 n2 _ (List.append_cancel_left h)]
    case gvarFragment.gvarFragment n1 n2 =>
      simp only [beTarget] at h
      rw [stf_inj n1 n2 _ (List.append_cancel_left h)]
    case glyfFragment.gvarFragment n1 n2 =>
      simp only [beTarget] at h
      exact absurd (stf_inj_suffix n1 n2 _ _ (by decide) (List.append_cancel_left h)).2 (by decide)
    case gvarFragment.glyfFragment n1 n2 =>
      simp only [beTarget] at h
      exact absurd (stf_inj_suffix n1 n2 _ _ (by decide) (List.append_cancel_left h)).2 (by decide)
    case kernFragment.kernFragment k1 k2 =>
      simp only [beTarget] at h
      have := List.append_cancel_left (stf_inj _ _ _ h)
      rw [decDigits_inj k1 k2 this]
    all_goals (exfalso; revert h; simp [beTarget, lit, stf_kernFragment])

/-! ### FE and BE files share the build directory -/

theorem last4_append (p s : List Nat) (hs : 4 ≤ s.length) : (p ++ s).reverse.take 4 = s.reverse.take 4 := by
  rw [List.reverse_append, List.take_append_of_le_length (by simp [hs])]

theorem fe_ends_yml (pr : Rat → List Nat) (a : FeId) : ∃ p, feTarget pr a = p ++ lit ".yml" := by
  cases a
  case glyph n => exact ⟨lit "glyph_ir/" ++ (escBody n ++ caseSuffix n), by simp [feTarget, stringToFilename]⟩
  case anchor n => exact ⟨lit "anchor_ir/" ++ (escBody n ++ caseSuffix n), by simp [feTarget, stringToFilename]⟩
  case kernInstance l => exact ⟨escBody (kernName pr l) ++ caseSuffix (kernName pr l), by simp [kernFileName, feTarget, stringToFilename]⟩
  case staticMetadata => exact ⟨lit "static_metadata", by simp only [feTarget]; decide⟩
  case globalMetrics => exact ⟨lit "global_metrics", by simp only [feTarget]; decide⟩
  case preliminaryGlyphOrder => exact ⟨lit "glyph_order.preliminary", by simp only [feTarget]; decide⟩
  case glyphOrder => exact ⟨lit "glyph_order", by simp only [feTarget]; decide⟩
  case preliminaryGdefCategories => exact ⟨lit "gdef_categories.preliminary", by simp only [feTarget]; decide⟩
  case gdefCategories => exact ⟨lit "gdef_categories", by simp only [feTarget]; decide⟩
  case features => exact ⟨lit "features", by simp only [feTarget]; decide⟩
  case kerningLocations => exact ⟨lit "kern_locations", by simp only [feTarget]; decide⟩
  case colorPalettes => exact ⟨lit "colors", by simp only [feTarget]; decide⟩
  case paintGraph => exact ⟨lit "paint_graph", by simp only [feTarget]; decide⟩

theorem beFixedAll_no_yml : ∀ b ∈ beFixedAll, (beTarget b).reverse.take 4 ≠ (lit ".yml").reverse.take 4 := by decide

theorem be_not_ends_yml (b : BeId) : (beTarget b).reverse.take 4 ≠ (lit ".yml").reverse.take 4 := by
  cases hb : b.isParam
  · exact beFixedAll_no_yml b (mem_beFixedAll b hb)
  · cases b <;> first | (simp [BeId.isParam] at hb; done) | skip
    all_goals
      simp only [beTarget, stringToFilename, ← List.append_assoc]
      rw [last4_append _ _ (by decide)]
      decide

theorem fe_be_disjoint (pr : Rat → List Nat) (a : FeId) (b : BeId) : feTarget pr a ≠ beTarget b := by
  intro h
  obtain ⟨p, hp⟩ := fe_ends_yml pr a
  apply be_not_ends_yml b
  rw [← h, hp, last4_append _ _ (by decide)]

/-! ### no path separator inside a file name -/

theorem hexDigitUpper_not_reserved' : ∀ d, d < 16 → isReservedChar (hexDigitUpper d) = false := by decide
theorem base32Char_ne_slash' : ∀ d, d < 32 → base32Char d ≠ 0x2F := by decide

theorem mem_escChar (f : Bool) (c x : Nat) (h : x ∈ escChar f c) : x = 0x25 ∨ isReservedChar x = false := by
  rcases escChar_cases f c with ⟨e, _⟩ | ⟨e, hr⟩ | ⟨e, hr⟩
  · rw [e] at h
    simp at h
    rcases h with h | h | h <;> subst h <;> decide
  · rw [e] at h
    simp at h
    subst h
    exact Or.inr hr
  · rw [e] at h
    have := isReservedChar_lt c hr
    simp at h
    rcases h with h | h | h
    · exact Or.inl h
    · subst h; exact Or.inr (hexDigitUpper_not_reserved' _ (by omega))
    · subst h; exact Or.inr (hexDigitUpper_not_reserved' _ (by omega))

theorem mem_escBody (n : List Nat) (x : Nat) (h : x ∈ escBody n) : x = 0x25 ∨ isReservedChar x = false := by
  cases n with
  | nil => simp [escBody] at h
  | cons c r =>
    rw [escBody, List.mem_append] at h
    rcases h with h | h
    · exact mem_escChar true c x h
    · rw [List.mem_flatMap] at h
      obtain ⟨y, _, hy⟩ := h
      exact mem_escChar false y x hy

theorem stf_no_slash (n s : List Nat) (hs : 0x2F ∉ s) : 0x2F ∉ stringToFilename n s := by
  intro h
  simp only [stringToFilename, List.mem_append] at h
  rcases h with (h | h) | h
  · rcases mem_escBody n _ h with h | h
    · omega
    · revert h; decide
  · rcases caseSuffix_cases n with ⟨e, _⟩ | ⟨e, _⟩
    · rw [e] at h; simp at h
    · rw [e] at h
      simp only [List.mem_cons, List.mem_map] at h
      rcases h with h | ⟨d, hd, h⟩
      · omega
      · exact base32Char_ne_slash' d (codeDigits_lt n d hd) h
  · exact hs h

theorem mem_joinUnderscore (xs : List (List Nat)) (x : Nat) (h : x ∈ joinUnderscore xs) :
    x = 0x5F ∨ ∃ y ∈ xs, x ∈ y := by
  induction xs with
  | nil => simp [joinUnderscore] at h
  | cons a r ih =>
    cases r with
    | nil =>
      simp only [joinUnderscore] at h
      exact Or.inr ⟨a, by simp, h⟩
    | cons b r' =>
      simp only [joinUnderscore, List.mem_append, List.mem_cons] at h
      rcases h with h | h | h
      · exact Or.inr ⟨a, by simp, h⟩
      · exact Or.inl h
      · rcases ih h with h | ⟨y, hy, hxy⟩
        · exact Or.inl h
        · exact Or.inr ⟨y, by simp [hy], hxy⟩

theorem fmt2_no_slash (q : Rat) : 0x2F ∉ fmt2 q := by
  intro h
  simp only [fmt2, fmtRound2, List.mem_append, List.mem_cons, List.not_mem_nil, or_false] at h
  rcases h with (h | h) | h
  · split at h <;> simp at h
  · have := decDigits_digits _ _ h
    omega
  · omega

def Tag.noSlash (t : Tag) : Prop := t.b0 ≠ 0x2F ∧ t.b1 ≠ 0x2F ∧ t.b2 ≠ 0x2F ∧ t.b3 ≠ 0x2F

theorem kernFileNameOld_no_slash (l : Loc) (p : l.printable) (hn : ∀ e ∈ l, e.1.noSlash) :
    0x2F ∉ kernFileNameOld l := by
  intro h
  simp only [kernFileNameOld, List.mem_append] at h
  rcases h with (h | h) | h
  · revert h; decide
  · rcases mem_joinUnderscore _ _ h with h | ⟨y, hy, hxy⟩
    · omega
    · rw [List.mem_map] at hy
      obtain ⟨e, he, rfl⟩ := hy
      simp only [kernEntryOld, List.mem_append, List.mem_cons] at hxy
      rcases hxy with hxy | hxy | hxy
      · rw [render_printable _ (p e he)] at hxy
        obtain ⟨h0, h1, h2, h3⟩ := hn e he
        simp at hxy
        omega
      · omega
      · exact fmt2_no_slash _ hxy
  · revert h; decide

theorem kernFileName_no_slash (pr : Rat → List Nat) (l : Loc) : 0x2F ∉ kernFileName pr l :=
  stf_no_slash _ _ (by decide)

end Fontc.Paths
