/-
  C11 simulation, part 3: a rule statement.  The source walk (`Src.walkStmt`) collects runs of rules
  of one type under one flag; the compilation context keeps a current lookup builder.  The relation
  `RunRel` ties the two; a rule statement preserves it, and when it ends a run both sides emit the
  same lookup.
-/
import FontcProofs.FeaSimFlags

namespace Fontc.FeaCompile
open Cmp
set_option linter.unusedSimpArgs false

def headKind (rules : List Rule) : Kind := (rules.head?.map Rule.kind).getD .single

/-- run being collected by the source walk ↔ current lookup of the compilation context -/
def RunRel (fx : Fixes) (wcur : Option (Src.Reg × Flag × List Rule)) (wflag : Flag) (s : St) : Prop :=
  FlagCode s.attachIds s.filterIds s.flag wflag ∧
  match wcur with
  | none => s.cur = none
  | some (_, f, rules) =>
    rules ≠ [] ∧ (∀ r ∈ rules, r.kind = headKind rules) ∧
    ∃ cf, s.cur = some (cf, rules.foldl (Builder.add fx s.gsub.length s.namedId) (Builder.new (headKind rules))) ∧
      FlagCode s.attachIds s.filterIds cf f

def Cmp.LookupId.isGpos : LookupId → Bool
  | .gpos _ => true
  | _ => false

/-- the lookup a finished run is written to -/
def CompiledRun (fx : Fixes) (aIds fIds : List (List Glyph)) (f : Flag) (rules : List Rule) (id : LookupId)
    (ls : List OT.Lookup) : Prop :=
  rules ≠ [] ∧ (∀ r ∈ rules, r.kind = headKind rules) ∧ id.isGpos = (headKind rules).isPos ∧
  ∃ cf named root, FlagCode aIds fIds cf f ∧ ((headKind rules).isPos = false → root = id.gsubIdx) ∧
    ls = builtLookups cf (rules.foldl (Builder.add fx root named) (Builder.new (headKind rules)))

/-- what one statement emits: nothing, or the lookup of the run it ended -/
def Emits (fx : Fixes) (s s' : St) : Option (Flag × List Rule) → Prop
  | none => s'.gsub = s.gsub ∧ s'.gpos = s.gpos ∧ s'.active = s.active
  | some (f, rules) =>
    if (headKind rules).isPos then
      s'.gsub = s.gsub ∧ s'.active = addIdToActive s.active (.gpos s.gpos.length) ∧
      ∃ ls, s'.gpos = s.gpos ++ ls ∧ CompiledRun fx s.attachIds s.filterIds f rules (.gpos s.gpos.length) ls
    else
      s'.gpos = s.gpos ∧ s'.active = addIdToActive s.active (.gsub s.gsub.length) ∧
      ∃ ls, s'.gsub = s.gsub ++ ls ∧ CompiledRun fx s.attachIds s.filterIds f rules (.gsub s.gsub.length) ls

theorem headKind_append (rules : List Rule) (r : Rule) (h : rules ≠ []) : headKind (rules ++ [r]) = headKind rules := by
  cases rules with
  | nil => exact absurd rfl h
  | cons a as => rfl

theorem namedId_congr {s s' : St} (h : s'.named = s.named) : s'.namedId = s.namedId := by
  funext n; simp [St.namedId, h]

/-- a rule that starts a new lookup (none current, or the current one does not fit) -/
theorem addRule_new (fx : Fixes) (s : St) (r : Rule) (hnm : NoMerge s r)
    (hne : ∀ cf b, s.cur = some (cf, b) → ¬ (b.kind = r.kind ∧ cf = s.flag)) :
    SameCtx s (s.addRule fx r) ∧ Flushed s (s.addRule fx r) ∧
    (s.addRule fx r).cur = some (s.flag, (Builder.new r.kind).add fx (s.addRule fx r).gsub.length s.namedId r) := by
  obtain ⟨hctx, hc', hfl⟩ := ensure_new_spec s r.kind hne
  have hs' : s.addRule fx r = (s.ensure r.kind).setBuilder
      ((Builder.new r.kind).add fx (s.ensure r.kind).gsub.length (s.ensure r.kind).namedId r) := by
    simp only [St.addRule, prepare_eq_ensure s r hnm, hc']
  have hn := namedId_congr hctx.2.1
  rw [hs']
  simp only [St.setBuilder, hc', hn]
  refine ⟨hctx, ?_, trivial⟩
  unfold Flushed at hfl ⊢
  cases hc : s.cur with
  | none => simpa [hc] using hfl
  | some p =>
    obtain ⟨cf, b⟩ := p
    simp only [hc] at hfl ⊢
    split <;> simp_all

/-- a rule that joins the current lookup -/
theorem addRule_join (fx : Fixes) (s : St) (r : Rule) (cf : CFlag) (b : Builder)
    (hc : s.cur = some (cf, b)) (hk : b.kind = r.kind) (hf : cf = s.flag) :
    SameCtx s (s.addRule fx r) ∧ (s.addRule fx r).gsub = s.gsub ∧ (s.addRule fx r).gpos = s.gpos ∧
    (s.addRule fx r).active = s.active ∧
    (s.addRule fx r).cur = some (cf, b.add fx s.gsub.length s.namedId r) := by
  have hnm : NoMerge s r := by
    simp only [NoMerge, hc]
    intro _
    rw [hk]
    cases r.kind <;> rfl
  have hkeep : s.ensure r.kind = s := by
    apply ensure_keep
    · simp [St.hasCurrentKind, hc, hk]
    · simp [St.hasSameFlags, hc, hf]
  have hs' : s.addRule fx r = s.setBuilder (b.add fx s.gsub.length s.namedId r) := by
    simp only [St.addRule, prepare_eq_ensure s r hnm, hkeep, hc]
  rw [hs']
  simp only [St.setBuilder, hc]
  exact ⟨⟨rfl, rfl, rfl, rfl, rfl, rfl, rfl, rfl⟩, trivial, trivial, trivial, trivial⟩

/-- The rule statement. `hmix`: the rule does not mix with the run in progress (no single rule next
    to a multiple / ligature rule under one flag). -/
theorem rule_step (fx : Fixes) (w : Src.Walk) (s : St) (r : Rule)
    (hrel : RunRel fx w.cur w.flag s) (hids : IdsInv s)
    (hnf : FlagNorm w.flag) (hnc : ∀ reg f rules, w.cur = some (reg, f, rules) → FlagNorm f)
    (hmix : ∀ reg f rules, w.cur = some (reg, f, rules) → f = w.flag → Wf.mixes (headKind rules) r.kind = false) :
    RunRel fx (Src.walkStmt w (.rule r)).cur (Src.walkStmt w (.rule r)).flag (s.addRule fx r) ∧
    SameCtx s (s.addRule fx r) ∧ (Src.walkStmt w (.rule r)).reg = w.reg ∧ (Src.walkStmt w (.rule r)).flag = w.flag ∧
    (((Src.walkStmt w (.rule r)).out = w.out ∧ Emits fx s (s.addRule fx r) none) ∨
     (∃ reg f rules, w.cur = some (reg, f, rules) ∧
        (Src.walkStmt w (.rule r)).out = w.out ++ [(reg, .defn ⟨none, f, rules⟩)] ∧
        Emits fx s (s.addRule fx r) (some (f, rules)))) := by
  obtain ⟨hflag, hcur⟩ := hrel
  obtain ⟨hA, hF⟩ := hids
  cases hw : w.cur with
  | none =>
    rw [hw] at hcur
    simp only at hcur
    have hnm : NoMerge s r := by simp [NoMerge, hcur]
    obtain ⟨hctx, hfl, hc'⟩ := addRule_new fx s r hnm (by intro cf b h; rw [hcur] at h; cases h)
    simp only [Flushed, hcur] at hfl
    have hwalk : Src.walkStmt w (.rule r) = { w with cur := some (w.reg, w.flag, [r]) } := by
      simp [Src.walkStmt, hw]
    rw [hwalk]
    refine ⟨⟨?_, ?_⟩, hctx, rfl, rfl, Or.inl ⟨rfl, hfl⟩⟩
    · rw [hctx.2.2.2.1, hctx.2.2.2.2.1, hctx.2.2.1]; exact hflag
    · refine ⟨by simp, by simp [headKind], s.flag, ?_, ?_⟩
      · rw [hc']; simp [headKind, namedId_congr hctx.2.1]
      · rw [hctx.2.2.2.1, hctx.2.2.2.2.1]; exact hflag
  | some p =>
    obtain ⟨reg, f, rules⟩ := p
    rw [hw] at hcur
    simp only at hcur
    obtain ⟨hne, hkinds, cf, hscur, hcf⟩ := hcur
    have hbk : (rules.foldl (Builder.add fx s.gsub.length s.namedId) (Builder.new (headKind rules))).kind = headKind rules := by
      rw [Builder.foldl_add_kind, Builder.new_kind]
    have hheadsome : rules.head?.map Rule.kind = some (headKind rules) := by
      cases rules with
      | nil => exact absurd rfl hne
      | cons a as => rfl
    by_cases hsame : f = w.flag ∧ headKind rules = r.kind
    · obtain ⟨hf, hk⟩ := hsame
      have hcfeq : cf = s.flag := FlagCode.functional hA hF hcf (hf ▸ hflag)
      obtain ⟨hctx, hg, hp, hact, hc'⟩ := addRule_join fx s r cf _ hscur (hbk.trans hk) hcfeq
      have hwalk : Src.walkStmt w (.rule r) = { w with cur := some (reg, f, rules ++ [r]) } := by
        simp [Src.walkStmt, hw, hf, hheadsome, hk]
      rw [hwalk]
      refine ⟨⟨?_, ?_⟩, hctx, rfl, rfl, Or.inl ⟨rfl, hg, hp, hact⟩⟩
      · rw [hctx.2.2.2.1, hctx.2.2.2.2.1, hctx.2.2.1]; exact hflag
      · refine ⟨by simp, ?_, cf, ?_, ?_⟩
        · intro r' hr'
          rw [headKind_append _ _ hne]
          rcases List.mem_append.mp hr' with h | h
          · exact hkinds r' h
          · simp at h; subst h; exact hk.symm
        · rw [hc']; simp [headKind_append _ _ hne, List.foldl_append, hg, namedId_congr hctx.2.1]
        · rw [hctx.2.2.2.1, hctx.2.2.2.2.1]; exact hcf
    · have hne' : ∀ cf' b, s.cur = some (cf', b) → ¬ (b.kind = r.kind ∧ cf' = s.flag) := by
        intro cf' b h
        rw [hscur] at h
        cases h
        rintro ⟨hk, hfl⟩
        apply hsame
        refine ⟨?_, by rw [← hbk]; exact hk⟩
        exact FlagCode.injective (hnc reg f rules hw) hnf hcf (hfl ▸ hflag)
      have hnm : NoMerge s r := by
        simp only [NoMerge, hscur]
        intro hfl
        rw [hbk]
        have hf : f = w.flag := FlagCode.injective (hnc reg f rules hw) hnf hcf (hfl ▸ hflag)
        exact hmix reg f rules hw hf
      obtain ⟨hctx, hfl, hc'⟩ := addRule_new fx s r hnm hne'
      simp only [Flushed, hscur, hbk] at hfl
      have hwalk : Src.walkStmt w (.rule r) =
          { w with cur := some (w.reg, w.flag, [r]), out := w.out ++ [(reg, .defn ⟨none, f, rules⟩)] } := by
        simp only [Src.walkStmt, hw, hheadsome]
        rw [if_neg (by
          rintro ⟨h1, h2⟩
          exact hsame ⟨h1, by simpa using h2⟩)]
        simp [Src.Walk.flush, hw]
      rw [hwalk]
      refine ⟨⟨?_, ?_⟩, hctx, rfl, rfl, Or.inr ⟨reg, f, rules, rfl, rfl, ?_⟩⟩
      · rw [hctx.2.2.2.1, hctx.2.2.2.2.1, hctx.2.2.1]; exact hflag
      · refine ⟨by simp, by simp [headKind], s.flag, ?_, ?_⟩
        · rw [hc']; simp [headKind, namedId_congr hctx.2.1]
        · rw [hctx.2.2.2.1, hctx.2.2.2.2.1]; exact hflag
      · simp only [Emits]
        by_cases hpos : (headKind rules).isPos = true
        · simp only [hpos, ↓reduceIte] at hfl ⊢
          exact ⟨hfl.2.1, hfl.2.2, _, hfl.1, hne, hkinds, by simp [Cmp.LookupId.isGpos, hpos], cf, s.namedId, s.gsub.length, hcf, by simp [hpos], rfl⟩
        · simp only [hpos, Bool.false_eq_true, ↓reduceIte] at hfl ⊢
          exact ⟨hfl.2.1, hfl.2.2, _, hfl.1, hne, hkinds, by simp [Cmp.LookupId.isGpos, hpos], cf, s.namedId, s.gsub.length, hcf, by simp [LookupId.gsubIdx], rfl⟩

end Fontc.FeaCompile
