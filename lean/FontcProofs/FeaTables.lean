/-
  C11: from the feature map of the compilation context to the feature / script lists of a table
  (`PosSubBuilder`, lookups.rs:1359) and back through the OpenType language-system selection:
  which lookup indices are active for a request.
-/
import FontcModel.FeaCompile
import FontcProofs.FeaFlags

namespace Fontc.FeaCompile
open Cmp
set_option linter.unusedSimpArgs false

/-! ### `upsert` -/

theorem lookup_insertBefore {κ β : Type} [BEq κ] [LawfulBEq κ] (lt : κ → κ → Bool) (k k' : κ) (v : β)
    (m : List (κ × β)) (hk : m.lookup k = none) :
    (insertBefore lt k v m).lookup k' = if k' == k then some v else m.lookup k' := by
  induction m with
  | nil => simp [insertBefore, List.lookup]; split <;> simp_all
  | cons p m ih =>
    obtain ⟨a, b⟩ := p
    have hka : (k == a) = false := by
      simp only [List.lookup] at hk
      split at hk <;> simp_all
    have hk' : m.lookup k = none := by
      simp only [List.lookup, hka] at hk
      exact hk
    simp only [insertBefore]
    split
    · simp only [List.lookup]
      by_cases h : k' == k <;> simp [h]
    · simp only [List.lookup, ih hk']
      by_cases h : k' == a
      · have : (k' == k) = false := by
          rw [beq_iff_eq] at h; subst h
          rw [Bool.eq_false_iff]; intro e; rw [beq_iff_eq] at e; subst e; simp at hka
        simp [h, this]
      · simp [h]

theorem lookup_map_update {κ β : Type} [BEq κ] [LawfulBEq κ] (k k' : κ) (f : β → β) (m : List (κ × β)) :
    (m.map fun p => if p.1 == k then (p.1, f p.2) else p).lookup k'
      = if k' == k then (m.lookup k).map f else m.lookup k' := by
  induction m with
  | nil => simp [List.lookup]
  | cons p m ih =>
    obtain ⟨a, b⟩ := p
    simp only [List.map_cons, List.lookup]
    by_cases hak : a == k
    · have hak' := beq_iff_eq.mp hak
      subst hak'
      simp only [beq_self_eq_true, ↓reduceIte, List.lookup]
      by_cases h : k' == a
      · simp [h]
      · simp [h, ih]
    · simp only [hak, Bool.false_eq_true, ↓reduceIte, List.lookup]
      by_cases h : k' == a
      · have h' := beq_iff_eq.mp h
        subst h'
        simp [hak]
      · have hka : (k == a) = false := by
          rw [Bool.eq_false_iff]; intro e; rw [beq_iff_eq] at e; subst e; simp at hak
        simp [h, ih, hka]

theorem lookup_isSome_of_any {κ β : Type} [BEq κ] [LawfulBEq κ] (k : κ) (m : List (κ × β))
    (h : m.any (·.1 == k) = true) : ∃ v, m.lookup k = some v := by
  induction m with
  | nil => simp at h
  | cons p m ih =>
    obtain ⟨a, b⟩ := p
    simp only [List.any_cons, Bool.or_eq_true] at h
    by_cases hak : a == k
    · have := beq_iff_eq.mp hak; subst this
      exact ⟨b, by simp [List.lookup]⟩
    · rcases h with h | h
      · exact absurd h hak
      · obtain ⟨v, hv⟩ := ih h
        have hka : (k == a) = false := by
          rw [Bool.eq_false_iff]; intro e; rw [beq_iff_eq] at e; subst e; simp at hak
        exact ⟨v, by simp [List.lookup, hka, hv]⟩

theorem lookup_none_of_any_false' {κ β : Type} [BEq κ] [LawfulBEq κ] (k : κ) (m : List (κ × β))
    (h : ¬ (m.any (·.1 == k) = true)) : m.lookup k = none := by
  induction m with
  | nil => rfl
  | cons p m ih =>
    obtain ⟨a, b⟩ := p
    simp only [List.any_cons, Bool.or_eq_true, not_or] at h
    have : (k == a) = false := by
      rw [Bool.eq_false_iff]; intro e; rw [beq_iff_eq] at e; subst e; exact h.1 (by simp)
    simp [List.lookup, this, ih h.2]

theorem lookup_upsert {κ β : Type} [BEq κ] [LawfulBEq κ] (lt : κ → κ → Bool) (k k' : κ) (init : β) (f : β → β)
    (m : List (κ × β)) :
    (upsert lt k init f m).lookup k' = if k' == k then some (f ((m.lookup k).getD init)) else m.lookup k' := by
  unfold upsert
  split
  · rename_i hany
    obtain ⟨v, hv⟩ := lookup_isSome_of_any k m hany
    rw [lookup_map_update, hv]
    rfl
  · rename_i hany
    have hnone := lookup_none_of_any_false' k m hany
    rw [lookup_insertBefore lt k k' _ m hnone, hnone]
    rfl

/-! ### `sortDedup` -/

theorem mem_sortDedup (xs : List Nat) (a : Nat) : a ∈ OT.sortDedup xs ↔ a ∈ xs := mem_sortedSet xs a

theorem insertSorted_sorted (x : Nat) (ys : List Nat) (h : ys.Pairwise (· < ·)) :
    (OT.insertSorted x ys).Pairwise (· < ·) := by
  induction ys with
  | nil => simp [OT.insertSorted]
  | cons y ys ih =>
    have hy := List.pairwise_cons.mp h
    simp only [OT.insertSorted]
    split
    · rename_i hxy
      refine List.pairwise_cons.mpr ⟨?_, h⟩
      intro a ha
      rcases List.mem_cons.mp ha with rfl | ha
      · exact hxy
      · exact Nat.lt_trans hxy (hy.1 a ha)
    · split
      · exact h
      · rename_i h1 h2
        refine List.pairwise_cons.mpr ⟨?_, ih hy.2⟩
        intro a ha
        have hins : ∀ (ys : List Nat), a ∈ OT.insertSorted x ys → a = x ∨ a ∈ ys := by
          intro ys
          induction ys with
          | nil => simp [OT.insertSorted]
          | cons z zs ihz =>
            simp only [OT.insertSorted]
            split
            · simp
            · split
              · intro h; exact Or.inr h
              · intro h
                rcases List.mem_cons.mp h with rfl | h
                · simp
                · rcases ihz h with h | h <;> simp [h]
        rcases hins ys ha with rfl | ha
        · omega
        · exact hy.1 a ha

theorem sortDedup_sorted (xs : List Nat) : (OT.sortDedup xs).Pairwise (· < ·) := by
  unfold OT.sortDedup
  induction xs with
  | nil => simp
  | cons x xs ih => simp only [List.foldr_cons]; exact insertSorted_sorted x _ ih

theorem sorted_ext (l1 l2 : List Nat) (h1 : l1.Pairwise (· < ·)) (h2 : l2.Pairwise (· < ·))
    (h : ∀ a, a ∈ l1 ↔ a ∈ l2) : l1 = l2 := by
  induction l1 generalizing l2 with
  | nil =>
    cases l2 with
    | nil => rfl
    | cons b l2 => exact absurd ((h b).mpr (by simp)) (by simp)
  | cons a l1 ih =>
    cases l2 with
    | nil => exact absurd ((h a).mp (by simp)) (by simp)
    | cons b l2 =>
      have ha := List.pairwise_cons.mp h1
      have hb := List.pairwise_cons.mp h2
      have hab : a = b := by
        have h1' := (h a).mp (by simp)
        have h2' := (h b).mpr (by simp)
        rcases List.mem_cons.mp h1' with e | e
        · exact e
        · rcases List.mem_cons.mp h2' with e' | e'
          · exact e'.symm
          · have := hb.1 a e
            have := ha.1 b e'
            omega
      subst hab
      congr 1
      apply ih l2 ha.2 hb.2
      intro x
      constructor
      · intro hx
        have := (h x).mp (by simp [hx])
        rcases List.mem_cons.mp this with e | e
        · subst e; exact absurd (ha.1 x hx) (by omega)
        · exact e
      · intro hx
        have := (h x).mpr (by simp [hx])
        rcases List.mem_cons.mp this with e | e
        · subst e; exact absurd (hb.1 x hx) (by omega)
        · exact e

/-- a strictly increasing list with the members of `xs` is `sortDedup xs` -/
theorem sortDedup_eq_of_sorted (xs l : List Nat) (hl : l.Pairwise (· < ·)) (h : ∀ a, a ∈ l ↔ a ∈ xs) :
    OT.sortDedup xs = l :=
  sorted_ext _ _ (sortDedup_sorted xs) hl (fun a => by rw [mem_sortDedup, h])

/-! ### `PosSubBuilder` -/

/-- feature indices of a language system in the script map under construction -/
def getFis (m : List (Tag × List (Tag × List Nat))) (script lang : Tag) : List Nat :=
  (((m.lookup script).getD []).lookup lang).getD []

def hasLang (m : List (Tag × List (Tag × List Nat))) (script lang : Tag) : Bool :=
  ((m.lookup script).bind (·.lookup lang)).isSome

theorem getFis_scriptInsert (m : List (Tag × List (Tag × List Nat))) (script lang : Tag) (fi : Nat) (s l : Tag) :
    getFis (scriptInsert script lang fi m) s l
      = if s == script && l == lang then getFis m s l ++ [fi] else getFis m s l := by
  unfold getFis scriptInsert
  rw [lookup_upsert]
  by_cases hs : s == script
  · have := beq_iff_eq.mp hs; subst this
    simp only [beq_self_eq_true, ↓reduceIte, Option.getD_some, Bool.true_and]
    rw [lookup_upsert]
    by_cases hl : l == lang
    · have := beq_iff_eq.mp hl; subst this
      simp
    · simp [hl]
  · simp [hs]

theorem hasLang_scriptInsert (m : List (Tag × List (Tag × List Nat))) (script lang : Tag) (fi : Nat) (s l : Tag) :
    hasLang (scriptInsert script lang fi m) s l = ((s == script && l == lang) || hasLang m s l) := by
  unfold hasLang scriptInsert
  rw [lookup_upsert]
  by_cases hs : s == script
  · have := beq_iff_eq.mp hs; subst this
    simp only [beq_self_eq_true, ↓reduceIte, Option.bind_some, Bool.true_and]
    rw [lookup_upsert]
    by_cases hl : l == lang
    · simp [hl]
    · simp only [hl, Bool.false_eq_true, ↓reduceIte, Bool.false_or]
      cases m.lookup s <;> simp [List.lookup]
  · simp [hs]

/-- the `(key, lookups)` pairs that make it into the table: those with a lookup of the table -/
def Counts (isPos : Bool) (x : (Tag × Tag × Tag) × List LookupId) : Prop := lookupIdxs isPos x.2 ≠ []

structure PInv (isPos : Bool) (done : List ((Tag × Tag × Tag) × List LookupId)) (b : PSB) : Prop where
  sound : ∀ s l fi, fi ∈ getFis b.scripts s l →
    ∃ x ∈ done, x.1.2.1 = l ∧ x.1.2.2 = s ∧ Counts isPos x ∧ b.features[fi]? = some (x.1.1, lookupIdxs isPos x.2)
  complete : ∀ x ∈ done, Counts isPos x →
    ∃ fi ∈ getFis b.scripts x.1.2.2 x.1.2.1, b.features[fi]? = some (x.1.1, lookupIdxs isPos x.2)
  langs : ∀ s l, hasLang b.scripts s l = true ↔ ∃ x ∈ done, x.1.2.1 = l ∧ x.1.2.2 = s ∧ Counts isPos x

theorem psb_add_features (b : PSB) (key : Tag × Tag × Tag) (ls : List Nat) :
    (∀ (i : Nat) (x : Tag × List Nat), b.features[i]? = some x → (b.add key ls).features[i]? = some x) ∧
    ∃ fi, (b.add key ls).features[fi]? = some (key.1, ls) ∧
      (b.add key ls).scripts = scriptInsert key.2.2 key.2.1 fi b.scripts := by
  unfold PSB.add
  cases hq : b.features.idxOf? (key.1, ls) with
  | some i =>
    simp only [hq]
    refine ⟨fun i x h => h, i, ?_, rfl⟩
    unfold List.idxOf? at hq
    obtain ⟨hlt, hp, _⟩ := List.findIdx?_eq_some_iff_getElem.mp hq
    rw [List.getElem?_eq_getElem hlt]
    simp at hp
    rw [hp]
  | none =>
    simp only [hq]
    refine ⟨?_, b.features.length, by simp, rfl⟩
    intro i x h
    rw [List.getElem?_append_left]
    · exact h
    · exact (List.getElem?_eq_some_iff.mp h).1

theorem pinv_step (isPos : Bool) (done : List ((Tag × Tag × Tag) × List LookupId)) (b : PSB)
    (x : (Tag × Tag × Tag) × List LookupId) (h : PInv isPos done b) :
    PInv isPos (done ++ [x])
      (if (lookupIdxs isPos x.2).isEmpty then b else b.add x.1 (lookupIdxs isPos x.2)) := by
  by_cases he : (lookupIdxs isPos x.2).isEmpty = true
  · simp only [he, ↓reduceIte]
    have hnc : ¬ Counts isPos x := by simp [Counts, List.isEmpty_iff.mp he]
    exact {
      sound := fun s l fi hfi => by
        obtain ⟨y, hy, h1⟩ := h.sound s l fi hfi
        exact ⟨y, by simp [hy], h1⟩
      complete := fun y hy hc => by
        rcases List.mem_append.mp hy with hy | hy
        · exact h.complete y hy hc
        · simp at hy; subst hy; exact absurd hc hnc
      langs := fun s l => by
        rw [h.langs]
        constructor
        · rintro ⟨y, hy, h1⟩; exact ⟨y, by simp [hy], h1⟩
        · rintro ⟨y, hy, h1⟩
          rcases List.mem_append.mp hy with hy | hy
          · exact ⟨y, hy, h1⟩
          · simp at hy; subst hy; exact absurd h1.2.2 hnc }
  · simp only [he, Bool.false_eq_true, ↓reduceIte]
    have hc : Counts isPos x := by
      simp only [Counts]; intro e; rw [e] at he; simp at he
    obtain ⟨hpres, fi0, hfi0, hscr⟩ := psb_add_features b x.1 (lookupIdxs isPos x.2)
    exact {
      sound := fun s l fi hfi => by
        rw [hscr, getFis_scriptInsert] at hfi
        split at hfi
        · rename_i hcond
          simp only [Bool.and_eq_true, beq_iff_eq] at hcond
          rcases List.mem_append.mp hfi with hfi | hfi
          · obtain ⟨y, hy, h1, h2, h3, h4⟩ := h.sound s l fi hfi
            exact ⟨y, by simp [hy], h1, h2, h3, hpres _ _ h4⟩
          · simp at hfi; subst hfi
            exact ⟨x, by simp, hcond.2.symm, hcond.1.symm, hc, hfi0⟩
        · obtain ⟨y, hy, h1, h2, h3, h4⟩ := h.sound s l fi hfi
          exact ⟨y, by simp [hy], h1, h2, h3, hpres _ _ h4⟩
      complete := fun y hy hcy => by
        rcases List.mem_append.mp hy with hy | hy
        · obtain ⟨fi, hfi, h4⟩ := h.complete y hy hcy
          refine ⟨fi, ?_, hpres _ _ h4⟩
          rw [hscr, getFis_scriptInsert]
          split
          · exact List.mem_append_left _ hfi
          · exact hfi
        · simp at hy; subst hy
          refine ⟨fi0, ?_, hfi0⟩
          rw [hscr, getFis_scriptInsert]
          simp
      langs := fun s l => by
        rw [hscr, hasLang_scriptInsert, Bool.or_eq_true, h.langs]
        constructor
        · rintro (hcond | ⟨y, hy, h1⟩)
          · simp only [Bool.and_eq_true, beq_iff_eq] at hcond
            exact ⟨x, by simp, hcond.2.symm, hcond.1.symm, hc⟩
          · exact ⟨y, by simp [hy], h1⟩
        · rintro ⟨y, hy, h1⟩
          rcases List.mem_append.mp hy with hy | hy
          · exact Or.inr ⟨y, hy, h1⟩
          · simp at hy; subst hy
            left; simp [h1.1, h1.2.1] }

theorem pinv_fold (isPos : Bool) (fm done : List ((Tag × Tag × Tag) × List LookupId)) (b : PSB)
    (h : PInv isPos done b) :
    PInv isPos (done ++ fm) (fm.foldl (fun b (x : (Tag × Tag × Tag) × List LookupId) =>
      if (lookupIdxs isPos x.2).isEmpty then b else b.add x.1 (lookupIdxs isPos x.2)) b) := by
  induction fm generalizing done b with
  | nil => simpa using h
  | cons x fm ih =>
    simp only [List.foldl_cons]
    have := ih (done ++ [x]) _ (pinv_step isPos done b x h)
    simpa using this

theorem pinv_empty (isPos : Bool) : PInv isPos [] {} :=
  { sound := fun s l fi h => by simp [getFis, List.lookup] at h
    complete := fun x hx => by simp at hx
    langs := fun s l => by simp [hasLang, List.lookup] }

/-! ### the table and the language-system selection -/

def mkLangSys (fs : List Nat) : OT.LangSys := ⟨0xFFFF, fs⟩

def mkScript (s : Tag) (langs : List (Tag × List Nat)) : OT.Script :=
  { tag := s, dflt := (langs.lookup "dflt").map mkLangSys,
    langs := (langs.filter (·.1 != "dflt")).map fun (l, fs) => (l, mkLangSys fs) }

theorem find_mkScript (m : List (Tag × List (Tag × List Nat))) (k : Tag) :
    (m.map fun (s, langs) => mkScript s langs).find? (fun (r : OT.Script) => r.tag == k)
      = (m.lookup k).map (mkScript k) := by
  induction m with
  | nil => rfl
  | cons p m ih =>
    obtain ⟨a, langs⟩ := p
    simp only [List.map_cons, List.find?_cons, List.lookup]
    by_cases h : a == k
    · have := beq_iff_eq.mp h; subst this
      simp [mkScript]
    · have h' : (k == a) = false := by
        rw [Bool.eq_false_iff]; intro e; rw [beq_iff_eq] at e; subst e; simp at h
      have h'' : ((mkScript a langs).tag == k) = false := by simpa [mkScript] using h
      simp only [h'', h']
      exact ih

theorem lookup_filter_ne {β : Type} (m : List (Tag × β)) (d k : Tag) (h : k ≠ d) :
    (m.filter (·.1 != d)).lookup k = m.lookup k := by
  induction m with
  | nil => rfl
  | cons p m ih =>
    obtain ⟨a, b⟩ := p
    simp only [List.filter_cons]
    by_cases had : a = d
    · subst had
      have : (k == a) = false := by simp [h]
      simp [List.lookup, this, ih]
    · simp only [bne_iff_ne, ne_eq, had, not_false_eq_true, decide_true, ↓reduceIte, List.lookup, ih]

theorem lookup_map_mk {β γ : Type} (f : β → γ) (m : List (Tag × β)) (k : Tag) :
    (m.map fun (l, fs) => (l, f fs)).lookup k = (m.lookup k).map f := by
  induction m with
  | nil => rfl
  | cons p m ih =>
    obtain ⟨a, b⟩ := p
    simp only [List.map_cons, List.lookup]
    split <;> simp_all

def psbOf (isPos : Bool) (fm : List ((Tag × Tag × Tag) × List LookupId)) : PSB :=
  fm.foldl (fun b (x : (Tag × Tag × Tag) × List LookupId) =>
    if (lookupIdxs isPos x.2).isEmpty then b else b.add x.1 (lookupIdxs isPos x.2)) {}

theorem buildTable_eq (lookups : List OT.Lookup) (isPos : Bool) (fm : List ((Tag × Tag × Tag) × List LookupId)) :
    buildTable lookups isPos fm =
      { lookups := lookups, features := (psbOf isPos fm).features,
        scripts := (psbOf isPos fm).scripts.map fun (s, langs) => mkScript s langs } := rfl

theorem langSys_buildTable (lookups : List OT.Lookup) (isPos : Bool) (fm : List ((Tag × Tag × Tag) × List LookupId))
    (script lang : Tag) (h : hasLang (psbOf isPos fm).scripts script lang = true) :
    OT.langSys (buildTable lookups isPos fm) script lang = some (mkLangSys (getFis (psbOf isPos fm).scripts script lang)) := by
  rw [buildTable_eq]
  unfold OT.langSys
  simp only [find_mkScript]
  unfold hasLang at h
  unfold getFis
  cases hs : (psbOf isPos fm).scripts.lookup script with
  | none => simp [hs] at h
  | some langs =>
    simp only [hs, Option.bind_some] at h
    simp only [Option.map_some, Option.getD_some]
    obtain ⟨fs, hfs⟩ := Option.isSome_iff_exists.mp h
    by_cases hl : lang = "dflt"
    · subst hl
      simp [mkScript, hfs]
    · have : (lang == "dflt") = false := by simp [hl]
      simp only [this, Bool.false_eq_true, ↓reduceIte, mkScript]
      rw [lookup_map_mk, lookup_filter_ne _ _ _ hl, hfs]
      rfl

theorem langSys_buildTable_dflt_none (lookups : List OT.Lookup) (isPos : Bool) (fm : List ((Tag × Tag × Tag) × List LookupId))
    (script : Tag) (h : hasLang (psbOf isPos fm).scripts script "dflt" = false) :
    OT.langSys (buildTable lookups isPos fm) script "dflt" = none := by
  rw [buildTable_eq]
  unfold OT.langSys
  simp only [find_mkScript]
  unfold hasLang at h
  cases hs : (psbOf isPos fm).scripts.lookup script with
  | none => simp
  | some langs =>
    simp only [hs, Option.bind_some] at h
    simp only [Option.map_some, mkScript]
    cases hq : langs.lookup "dflt" with
    | none => simp
    | some fs => simp [hq] at h

/-- **Active lookups of a compiled table.**  `hreg`: the request is for the default language of a
    script, or for a language for which the feature map registers a lookup of this table (otherwise
    there is no LangSys record and the selection falls back to the script default). -/
theorem mem_activeLookups_buildTable (lookups : List OT.Lookup) (isPos : Bool)
    (fm : List ((Tag × Tag × Tag) × List LookupId)) (script lang : Tag) (feats : List Tag) (a : Nat)
    (hreg : lang = "dflt" ∨ ∃ x ∈ fm, x.1.2.1 = lang ∧ x.1.2.2 = script ∧ Counts isPos x) :
    a ∈ OT.activeLookups (buildTable lookups isPos fm) script lang feats ↔
      ∃ x ∈ fm, x.1.2.1 = lang ∧ x.1.2.2 = script ∧ feats.contains x.1.1 = true ∧ a ∈ lookupIdxs isPos x.2 := by
  have hinv : PInv isPos fm (psbOf isPos fm) := by
    have := pinv_fold isPos fm [] {} (pinv_empty isPos)
    simpa [psbOf] using this
  by_cases hl : hasLang (psbOf isPos fm).scripts script lang = true
  · unfold OT.activeLookups
    rw [langSys_buildTable lookups isPos fm script lang hl]
    simp only [mkLangSys, ↓reduceIte, List.nil_append, mem_sortDedup, List.mem_flatMap]
    constructor
    · rintro ⟨fi, hfi, ha⟩
      obtain ⟨x, hx, h1, h2, h3, h4⟩ := hinv.sound script lang fi hfi
      rw [buildTable_eq] at ha
      simp only [h4] at ha
      split at ha
      · exact ⟨x, hx, h1, h2, by assumption, ha⟩
      · simp at ha
    · rintro ⟨x, hx, h1, h2, h3, h4⟩
      have hc : Counts isPos x := by
        intro e; rw [e] at h4; simp at h4
      obtain ⟨fi, hfi, h5⟩ := hinv.complete x hx hc
      rw [h1, h2] at hfi
      refine ⟨fi, hfi, ?_⟩
      rw [buildTable_eq]
      simp only [h5, h3, ↓reduceIte]
      exact h4
  · have hl' : hasLang (psbOf isPos fm).scripts script lang = false := by simpa using hl
    have hnone : ¬ ∃ x ∈ fm, x.1.2.1 = lang ∧ x.1.2.2 = script ∧ Counts isPos x := by
      intro h; exact hl ((hinv.langs script lang).mpr h)
    have hdflt : lang = "dflt" := by
      rcases hreg with h | h
      · exact h
      · exact absurd h hnone
    subst hdflt
    unfold OT.activeLookups
    rw [langSys_buildTable_dflt_none lookups isPos fm script hl']
    constructor
    · intro h; simp at h
    · rintro ⟨x, hx, h1, h2, h3, h4⟩
      exfalso
      apply hnone
      refine ⟨x, hx, h1, h2, ?_⟩
      intro e; rw [e] at h4; simp at h4

theorem activeLookups_sorted (t : OT.Table) (script lang : Tag) (feats : List Tag) :
    (OT.activeLookups t script lang feats).Pairwise (· < ·) := by
  unfold OT.activeLookups
  split
  · simp
  · exact sortDedup_sorted _

/-- no record for the language and none for the script default: nothing is active -/
theorem activeLookups_buildTable_nil (lookups : List OT.Lookup) (isPos : Bool)
    (fm : List ((Tag × Tag × Tag) × List LookupId)) (script lang : Tag) (feats : List Tag)
    (h1 : ¬ ∃ x ∈ fm, x.1.2.1 = lang ∧ x.1.2.2 = script ∧ Counts isPos x)
    (h2 : ¬ ∃ x ∈ fm, x.1.2.1 = "dflt" ∧ x.1.2.2 = script ∧ Counts isPos x) :
    OT.activeLookups (buildTable lookups isPos fm) script lang feats = [] := by
  have hinv : PInv isPos fm (psbOf isPos fm) := by
    have := pinv_fold isPos fm [] {} (pinv_empty isPos)
    simpa [psbOf] using this
  have hl1 : hasLang (psbOf isPos fm).scripts script lang = false := by
    rw [Bool.eq_false_iff]; intro h; exact h1 ((hinv.langs script lang).mp h)
  have hl2 : hasLang (psbOf isPos fm).scripts script "dflt" = false := by
    rw [Bool.eq_false_iff]; intro h; exact h2 ((hinv.langs script "dflt").mp h)
  have : OT.langSys (buildTable lookups isPos fm) script lang = none := by
    rw [buildTable_eq]
    unfold OT.langSys
    simp only [find_mkScript]
    unfold hasLang at hl1 hl2
    cases hs : (psbOf isPos fm).scripts.lookup script with
    | none => simp
    | some langs =>
      simp only [hs, Option.bind_some] at hl1 hl2
      have hd : langs.lookup "dflt" = none := by
        cases hq : langs.lookup "dflt" <;> simp_all
      have hq : langs.lookup lang = none := by
        cases hq : langs.lookup lang <;> simp_all
      simp only [Option.map_some, mkScript, hd, Option.map_none]
      by_cases hl : lang = "dflt"
      · subst hl; simp
      · have : (lang == "dflt") = false := by simp [hl]
        simp only [this, Bool.false_eq_true, ↓reduceIte]
        rw [lookup_map_mk, lookup_filter_ne _ _ _ hl, hq]
        rfl
  unfold OT.activeLookups
  rw [this]

end Fontc.FeaCompile
