import FontcProofs.SchedBasic
namespace Fontc.Sched

/-- jobs (non-placeholder entries) whose worker has not finished -/
def State.active (s : State) : List Entry :=
  s.pending.filter fun p => p.kind ≠ .alsoComplete ∧ p.id ∉ s.inflight

/-- the multiset of discriminants still counted: one slot per id (own or also-completes) of every active job -/
def State.slots (s : State) : List String := s.active.flatMap fun p => s.counterDiscs p.id

structure WF (s : State) : Prop where
  nodup : (s.pending.map (·.id)).Nodup
  inflight_nodup : s.inflight.Nodup
  inflight_running : ∀ id ∈ s.inflight, ∃ e ∈ s.pending, e.id = id ∧ e.running = true
  running_real : ∀ e ∈ s.pending, e.running = true → e.kind ≠ .alsoComplete
  owner_real : ∀ e ∈ s.pending, e.kind ≠ .alsoComplete → e.owner = e.id
  owner_also : ∀ e ∈ s.pending, e.kind = .alsoComplete →
    ∃ p ∈ s.pending, p.id = e.owner ∧ p.kind ≠ .alsoComplete ∧ e.id ∈ s.alsoOf e.owner
  also_pending : ∀ p ∈ s.pending, p.kind ≠ .alsoComplete → ∀ a ∈ s.alsoOf p.id,
    ∃ e ∈ s.pending, e.id = a ∧ e.kind = .alsoComplete ∧ e.owner = p.id
  also_nodup : ∀ p ∈ s.pending, p.kind ≠ .alsoComplete → (p.id :: s.alsoOf p.id).Nodup
  counters : ∀ d, ctrGet s.counters d = s.slots.count d
  pending_inserted : ∀ e ∈ s.pending, e.id ∈ s.inserted
  success_inserted : ∀ x ∈ s.success, x ∈ s.inserted
  inserted_cases : ∀ x ∈ s.inserted, s.isPending x = true ∨ x ∈ s.success
  disjoint : ∀ e ∈ s.pending, e.id ∉ s.success
  also_keys : ∀ p ∈ s.also, p.1 ∈ s.inserted

theorem wf_empty : WF State.empty := by
  constructor <;> simp [State.empty, State.slots, State.active, ctrGet]

/-- two pending entries with the same id are the same entry -/
theorem WF.unique {s : State} (w : WF s) {e e' : Entry} (h : e ∈ s.pending) (h' : e' ∈ s.pending) (hid : e.id = e'.id) :
    e = e' := by
  have := w.nodup
  generalize s.pending = l at *
  induction l with
  | nil => simp at h
  | cons x l ih =>
    simp only [List.map_cons, List.nodup_cons, List.mem_map, not_exists, not_and] at this
    simp at h h'
    rcases h with rfl | h <;> rcases h' with rfl | h'
    · rfl
    · exact absurd hid.symm (this.1 e' h')
    · exact absurd hid (this.1 e h)
    · exact ih h h' this.2

theorem alsoOf_cons_self {s : State} {k : Id} {l : List Id} : ({ s with also := (k, l) :: s.also } : State).alsoOf k = l := by
  simp [State.alsoOf]

theorem alsoOf_cons_ne {s : State} {k x : Id} {l : List Id} (h : x ≠ k) :
    ({ s with also := (k, l) :: s.also } : State).alsoOf x = s.alsoOf x := by
  have : ¬ k = x := fun e => h e.symm
  simp [State.alsoOf, List.find?, this]

theorem alsoOf_nil_of_not_key {s : State} {x : Id} (h : ∀ p ∈ s.also, p.1 ≠ x) : s.alsoOf x = [] := by
  unfold State.alsoOf
  have : s.also.find? (fun p => p.1 = x) = none := by simpa using h
  simp [this]


theorem active_map (f : Entry → Entry) (hid : ∀ e, (f e).id = e.id) (hk : ∀ e, (f e).kind = e.kind)
    (l : List Entry) (infl : List Id) :
    (l.map f).filter (fun p => p.kind ≠ .alsoComplete ∧ p.id ∉ infl) =
      (l.filter (fun p => p.kind ≠ .alsoComplete ∧ p.id ∉ infl)).map f := by
  rw [List.filter_map]
  congr 2
  funext p
  simp [hid, hk]

/-- an update of the pending entries that keeps id, kind and owner, and only sets `running` on real entries -/
theorem wf_map {s s' : State} (w : WF s) (f : Entry → Entry)
    (hid : ∀ e, (f e).id = e.id) (hk : ∀ e, (f e).kind = e.kind) (ho : ∀ e, (f e).owner = e.owner)
    (hr : ∀ e ∈ s.pending, (f e).running = true → e.running = true ∨ e.kind ≠ .alsoComplete)
    (hr2 : ∀ e, e.running = true → (f e).running = true)
    (hp : s'.pending = s.pending.map f) (h1 : s'.also = s.also) (h2 : s'.counters = s.counters)
    (h3 : s'.success = s.success) (h4 : s'.inflight = s.inflight) (h5 : s'.inserted = s.inserted) : WF s' := by
  have hal : ∀ x, s'.alsoOf x = s.alsoOf x := by intro x; simp [State.alsoOf, h1]
  have hmem : ∀ e', e' ∈ s'.pending ↔ ∃ e ∈ s.pending, f e = e' := by intro e'; simp [hp]
  constructor
  · rw [hp, List.map_map]
    have : ((fun x => x.id) ∘ f) = fun x => x.id := by funext e; simp [hid]
    rw [this]; exact w.nodup
  · rw [h4]; exact w.inflight_nodup
  · intro id hi
    rw [h4] at hi
    obtain ⟨e, he, rfl, hrun⟩ := w.inflight_running id hi
    exact ⟨f e, (hmem _).2 ⟨e, he, rfl⟩, hid e, hr2 e hrun⟩
  · intro e' he' hrun
    obtain ⟨e, he, rfl⟩ := (hmem _).1 he'
    rw [hk]
    rcases hr e he hrun with h | h
    · exact w.running_real e he h
    · exact h
  · intro e' he' hkind
    obtain ⟨e, he, rfl⟩ := (hmem _).1 he'
    rw [ho, hid]; rw [hk] at hkind
    exact w.owner_real e he hkind
  · intro e' he' hkind
    obtain ⟨e, he, rfl⟩ := (hmem _).1 he'
    rw [hk] at hkind
    obtain ⟨p, hp', hpid, hpk, hin⟩ := w.owner_also e he hkind
    refine ⟨f p, (hmem _).2 ⟨p, hp', rfl⟩, ?_, ?_, ?_⟩
    · rw [hid, ho]; exact hpid
    · rw [hk]; exact hpk
    · rw [hid, ho, hal]; exact hin
  · intro p' hp' hkind a ha
    obtain ⟨p, hpm, rfl⟩ := (hmem _).1 hp'
    rw [hk] at hkind; rw [hid, hal] at ha
    obtain ⟨e, he, heid, hek, heo⟩ := w.also_pending p hpm hkind a ha
    exact ⟨f e, (hmem _).2 ⟨e, he, rfl⟩, by rw [hid]; exact heid, by rw [hk]; exact hek, by rw [ho, hid]; exact heo⟩
  · intro p' hp' hkind
    obtain ⟨p, hpm, rfl⟩ := (hmem _).1 hp'
    rw [hk] at hkind; rw [hid, hal]
    exact w.also_nodup p hpm hkind
  · intro d
    rw [h2, w.counters d]
    unfold State.slots State.active
    rw [hp, h4, active_map f hid hk, List.flatMap_map]
    congr 2
    funext p
    simp [State.counterDiscs, hal, hid]
  · intro e' he'
    obtain ⟨e, he, rfl⟩ := (hmem _).1 he'
    rw [hid, h5]; exact w.pending_inserted e he
  · rw [h3, h5]; exact w.success_inserted
  · intro x hx
    rw [h5] at hx
    rcases w.inserted_cases x hx with h | h
    · left
      obtain ⟨e, he, rfl⟩ := isPending_iff.1 h
      exact isPending_iff.2 ⟨f e, (hmem _).2 ⟨e, he, rfl⟩, hid e⟩
    · right; rw [h3]; exact h
  · intro e' he'
    obtain ⟨e, he, rfl⟩ := (hmem _).1 he'
    rw [hid, h3]; exact w.disjoint e he
  · rw [h1, h5]; exact w.also_keys

theorem wf_launch {s s' : State} {id : Id} (w : WF s) (h : s.launch id = some s') : WF s' := by
  obtain ⟨e, he, hid, hl, rfl⟩ := launch_spec h
  refine wf_map w (setRunning id) ?_ ?_ ?_ ?_ ?_ rfl rfl rfl rfl rfl rfl
  · intro x; simp [setRunning]; split <;> rfl
  · intro x; simp [setRunning]; split <;> rfl
  · intro x; simp [setRunning]; split <;> rfl
  · intro x hx hr
    simp only [setRunning] at hr
    split at hr
    · rename_i hxid
      right
      have : x = e := w.unique hx he (hxid.trans hid.symm)
      subst this
      simp [State.launchable] at hl
      exact hl.1.1
    · left; exact hr
  · intro x hr; simp only [setRunning]; split <;> simp [hr]

theorem wf_rewrite {s s' : State} {id : Id} {a : Access} {m : Bool} (w : WF s) (h : s.rewrite id a m = some s') : WF s' := by
  have := rewrite_spec h
  subst this
  refine wf_map w (setReads id a) ?_ ?_ ?_ ?_ ?_ rfl rfl rfl rfl rfl rfl
  · intro x; simp [setReads]; split <;> rfl
  · intro x; simp [setReads]; split <;> rfl
  · intro x; simp [setReads]; split <;> rfl
  · intro x _ hr; left; simp only [setReads] at hr; split at hr <;> exact hr
  · intro x hr; simp only [setReads]; split <;> simp [hr]


theorem count_flatMap_remove {l : List Entry} (g : Entry → List String) {e : Entry} (he : e ∈ l)
    (hnd : (l.map (·.id)).Nodup) (d : String) :
    (l.flatMap g).count d = (g e).count d + ((l.filter (fun x => !decide (x.id = e.id))).flatMap g).count d := by
  induction l with
  | nil => simp at he
  | cons x l ih =>
    simp only [List.map_cons, List.nodup_cons, List.mem_map, not_exists, not_and] at hnd
    simp only [List.mem_cons] at he
    rcases he with rfl | he
    · have : l.filter (fun x => !decide (x.id = e.id)) = l := by
        apply List.filter_eq_self.2
        intro y hy
        have := hnd.1 y hy
        simpa using this
      simp [List.filter_cons, this, List.count_append]
    · have hne : x.id ≠ e.id := fun h => hnd.1 e he h.symm
      simp [List.filter_cons, hne, List.count_append, ih he hnd.2]
      omega

theorem nodup_filter_ids {l : List Entry} (p : Entry → Bool) (h : (l.map (·.id)).Nodup) :
    ((l.filter p).map (·.id)).Nodup :=
  (List.Sublist.map _ List.filter_sublist).nodup h

theorem wf_finish {s s' : State} {id : Id} (w : WF s) (h : s.finish id = some s') : WF s' := by
  obtain ⟨e, cs, he, hid, hrun, hni, hdec, rfl⟩ := finish_spec h
  subst hid
  have hreal := w.running_real e he hrun
  have hact : e ∈ s.active := by
    simp [State.active]; exact ⟨he, hreal, hni⟩
  have hactive' : ({ s with counters := cs, inflight := e.id :: s.inflight, finished := e.id :: s.finished } : State).active
      = s.active.filter (fun x => !decide (x.id = e.id)) := by
    simp only [State.active, List.filter_filter]
    apply List.filter_congr
    intro x _
    by_cases h1 : x.id = e.id <;> simp [h1]
  constructor
  · exact w.nodup
  · simp; exact ⟨hni, w.inflight_nodup⟩
  · intro x hx
    simp at hx
    rcases hx with rfl | hx
    · exact ⟨e, he, rfl, hrun⟩
    · exact w.inflight_running x hx
  · exact w.running_real
  · exact w.owner_real
  · exact w.owner_also
  · exact w.also_pending
  · exact w.also_nodup
  · intro d
    have h1 := ctrDecAll_some hdec d
    have h2 := w.counters d
    have h3 := count_flatMap_remove (fun p => s.counterDiscs p.id) hact (nodup_filter_ids _ w.nodup) d
    show ctrGet cs d = (({ s with counters := cs, inflight := e.id :: s.inflight, finished := e.id :: s.finished } : State).active.flatMap
      (fun p => s.counterDiscs p.id)).count d
    rw [hactive']
    change ctrGet s.counters d = (s.active.flatMap (fun p => s.counterDiscs p.id)).count d at h2
    omega
  · exact w.pending_inserted
  · exact w.success_inserted
  · exact w.inserted_cases
  · exact w.disjoint
  · exact w.also_keys


/-- completing job `o` and its also-completes placeholders (delivery or BE-glyph skip) -/
theorem wf_remove {s s' : State} (w : WF s) {o : Entry} (ho : o ∈ s.pending) (hreal : o.kind ≠ .alsoComplete)
    (hp : s'.pending = s.pending.filter (fun e => decide (e.id ∉ o.id :: s.alsoOf o.id)))
    (hs : s'.success = (o.id :: s.alsoOf o.id).reverse ++ s.success)
    (ha : s'.also = s.also) (hi : s'.inserted = s.inserted)
    (H1 : s'.inflight.Nodup) (H2 : ∀ x, x ∈ s'.inflight ↔ x ∈ s.inflight ∧ x ≠ o.id)
    (H3 : ∀ d, ctrGet s'.counters d =
      ((s.active.filter (fun x => !decide (x.id = o.id))).flatMap (fun p => s.counterDiscs p.id)).count d) :
    WF s' := by
  have hal : ∀ x, s'.alsoOf x = s.alsoOf x := by intro x; simp [State.alsoOf, ha]
  have F1 : ∀ e ∈ s.pending, e.kind ≠ .alsoComplete → e.id ∉ s.alsoOf o.id := by
    intro e he hk hin
    obtain ⟨e', he', hid', hk', _⟩ := w.also_pending o ho hreal e.id hin
    have := w.unique he he' hid'.symm
    subst this
    exact hk hk'
  have F2 : ∀ e ∈ s.pending, e.kind = .alsoComplete → e.id ≠ o.id := by
    intro e he hk hid
    have := w.unique he ho hid
    subst this
    exact hreal hk
  have hmem : ∀ e, e ∈ s'.pending ↔ e ∈ s.pending ∧ e.id ≠ o.id ∧ e.id ∉ s.alsoOf o.id := by
    intro e; rw [hp]; simp
  constructor
  · rw [hp]; exact nodup_filter_ids _ w.nodup
  · exact H1
  · intro x hx
    obtain ⟨hx1, hx2⟩ := (H2 x).1 hx
    obtain ⟨e, he, rfl, hrun⟩ := w.inflight_running x hx1
    exact ⟨e, (hmem e).2 ⟨he, hx2, F1 e he (w.running_real e he hrun)⟩, rfl, hrun⟩
  · intro e he; exact w.running_real e ((hmem e).1 he).1
  · intro e he; exact w.owner_real e ((hmem e).1 he).1
  · intro e he hk
    obtain ⟨he1, he2, he3⟩ := (hmem e).1 he
    obtain ⟨p, hpm, hpid, hpk, hin⟩ := w.owner_also e he1 hk
    have hpo : p.id ≠ o.id := by
      intro h
      rw [← hpid, h] at hin
      exact he3 hin
    refine ⟨p, (hmem p).2 ⟨hpm, hpo, F1 p hpm hpk⟩, hpid, hpk, ?_⟩
    rw [hal]; exact hin
  · intro p hpm hk a hain
    obtain ⟨hp1, hp2, hp3⟩ := (hmem p).1 hpm
    rw [hal] at hain
    obtain ⟨e, he, heid, hek, heo⟩ := w.also_pending p hp1 hk a hain
    refine ⟨e, (hmem e).2 ⟨he, F2 e he hek, ?_⟩, heid, hek, heo⟩
    intro hin
    obtain ⟨e', he', hid', _, ho'⟩ := w.also_pending o ho hreal e.id hin
    have := w.unique he he' hid'.symm
    subst this
    exact hp2 (heo.symm.trans ho')
  · intro p hpm hk
    rw [hal]; exact w.also_nodup p ((hmem p).1 hpm).1 hk
  · intro d
    rw [H3 d]
    unfold State.slots State.active
    rw [hp]
    simp only [List.filter_filter]
    have : ∀ p, s'.counterDiscs p = s.counterDiscs p := by intro p; simp [State.counterDiscs, hal]
    simp only [this]
    congr 2
    apply List.filter_congr
    intro e he
    by_cases hk : e.kind = .alsoComplete
    · simp [hk]
    · have h1 := F1 e he hk
      by_cases hid : e.id = o.id
      · simp [hid]
      · have := (H2 e.id)
        simp [hk, h1, hid, this]
  · intro e he; rw [hi]; exact w.pending_inserted e ((hmem e).1 he).1
  · intro x hx
    rw [hs] at hx; rw [hi]
    simp only [List.mem_append, List.mem_reverse, List.mem_cons] at hx
    rcases hx with (hx | hx) | hx
    · rw [hx]; exact w.pending_inserted o ho
    · obtain ⟨e, he, heid, _⟩ := w.also_pending o ho hreal x hx
      rw [← heid]; exact w.pending_inserted e he
    · exact w.success_inserted x hx
  · intro x hx
    rw [hi] at hx
    rcases w.inserted_cases x hx with h | h
    · obtain ⟨e, he, rfl⟩ := isPending_iff.1 h
      by_cases h1 : e.id = o.id
      · right; rw [hs]; simp [h1]
      · by_cases h2 : e.id ∈ s.alsoOf o.id
        · right; rw [hs]; simp [h2]
        · left; exact isPending_iff.2 ⟨e, (hmem e).2 ⟨he, h1, h2⟩, rfl⟩
    · right; rw [hs]; simp [h]
  · intro e he
    obtain ⟨he1, he2, he3⟩ := (hmem e).1 he
    rw [hs]
    simp only [List.mem_append, List.mem_reverse, List.mem_cons, not_or]
    exact ⟨⟨he2, he3⟩, w.disjoint e he1⟩
  · rw [ha, hi]; exact w.also_keys


theorem wf_receive {s s' : State} {id : Id} (w : WF s) (h : s.receive id = some s') : WF s' := by
  obtain ⟨hin, _, hc⟩ := receive_spec h
  obtain ⟨rfl, _, _⟩ := complete_spec hc
  obtain ⟨o, ho, rfl, hrun⟩ := w.inflight_running id hin
  have hreal := w.running_real o ho hrun
  refine wf_remove w ho hreal rfl rfl rfl rfl ?_ ?_ ?_
  · exact w.inflight_nodup.erase _
  · intro x
    show x ∈ s.inflight.erase o.id ↔ _
    rw [w.inflight_nodup.mem_erase_iff]
    exact And.comm
  · intro d
    show ctrGet s.counters d = _
    rw [w.counters d]
    unfold State.slots
    congr 2
    symm
    apply List.filter_eq_self.2
    intro x hx
    simp [State.active] at hx
    have : x.id ≠ o.id := by
      intro e
      rw [e] at hx
      exact hx.2.2 hin
    simpa using this

theorem wf_skip {s s' : State} {id : Id} (w : WF s) (h : s.skip id = some s') : WF s' := by
  rcases skip_spec h with ⟨_, rfl⟩ | ⟨o, cs, ho, rfl, hrun, hreal, hdec, hc⟩
  · exact w
  · obtain ⟨rfl, _, _⟩ := complete_spec hc
    have hni : o.id ∉ s.inflight := by
      intro hin
      obtain ⟨e, he, heid, her⟩ := w.inflight_running o.id hin
      have := w.unique he ho heid
      subst this
      simp [hrun] at her
    refine wf_remove w ho hreal rfl rfl rfl rfl w.inflight_nodup ?_ ?_
    · intro x
      show x ∈ s.inflight ↔ _
      constructor
      · intro hx
        exact ⟨hx, fun e => hni (e ▸ hx)⟩
      · exact fun hx => hx.1
    · intro d
      show ctrGet cs d = _
      have h1 := ctrDecAll_some hdec d
      have h2 := w.counters d
      have hact : o ∈ s.active := by simp [State.active]; exact ⟨ho, hreal, hni⟩
      have h3 := count_flatMap_remove (fun p => s.counterDiscs p.id) hact (nodup_filter_ids _ w.nodup) d
      change ctrGet s.counters d = (s.active.flatMap (fun p => s.counterDiscs p.id)).count d at h2
      omega


theorem flatMap_congr' {α β : Type} {l : List α} {f g : α → List β} (h : ∀ x ∈ l, f x = g x) :
    l.flatMap f = l.flatMap g := by
  induction l with
  | nil => rfl
  | cons x l ih =>
    simp only [List.flatMap_cons]
    rw [h x (by simp), ih (fun y hy => h y (by simp [hy]))]

theorem wf_insertJob {s s' : State} {j : Job} (w : WF s) (h : s.insertJob j = some s')
    (hfresh : ∀ a ∈ j.ids, a ∉ s.inserted) : WF s' := by
  obtain ⟨hkind, cs, rfl, hcs, hnd, hnp⟩ := insertJob_spec h
  have hjid : ∀ e ∈ s.pending, e.id ≠ j.id := by
    intro e he heq
    have := hnp j.id (by simp [Job.ids])
    simp [State.isPending] at this
    exact this e he heq
  have hjalso : ∀ e ∈ s.pending, e.id ∉ j.also := by
    intro e he hin
    have := hnp e.id (by simp [Job.ids, hin])
    simp [State.isPending] at this
    exact this e he rfl
  -- the also map after the insertion
  have hal_self : ∀ t : State, t.also = (if j.also.isEmpty then s.also else (j.id, j.also) :: s.also) → t.alsoOf j.id = j.also := by
    intro t ht
    by_cases he : j.also.isEmpty
    · have he' : j.also = [] := by simpa using he
      rw [he']
      apply alsoOf_nil_of_not_key
      intro p hp hpk
      rw [ht] at hp; simp [he] at hp
      exact hfresh j.id (by simp [Job.ids]) (hpk ▸ w.also_keys p hp)
    · simp [State.alsoOf, ht, he]
  have hal_ne : ∀ t : State, t.also = (if j.also.isEmpty then s.also else (j.id, j.also) :: s.also) → ∀ x, x ≠ j.id → t.alsoOf x = s.alsoOf x := by
    intro t ht x hx
    by_cases he : j.also.isEmpty
    · simp [State.alsoOf, ht, he]
    · have : ¬ j.id = x := fun e => hx e.symm
      simp [State.alsoOf, ht, he, this]
  generalize hs' : ({ s with jobCount := s.jobCount + j.also.length + 1, counters := cs, pending := jobEntry j :: ((j.also.map (placeholder j.id j.reads)).reverse ++ s.pending), inserted := j.id :: (j.also.reverse ++ s.inserted), also := if j.also.isEmpty then s.also else (j.id, j.also) :: s.also } : State) = t
  have tp : t.pending = jobEntry j :: ((j.also.map (placeholder j.id j.reads)).reverse ++ s.pending) := by rw [← hs']
  have ta : t.also = (if j.also.isEmpty then s.also else (j.id, j.also) :: s.also) := by rw [← hs']
  have tc : t.counters = cs := by rw [← hs']
  have ts : t.success = s.success := by rw [← hs']
  have ti : t.inflight = s.inflight := by rw [← hs']
  have tn : t.inserted = j.id :: (j.also.reverse ++ s.inserted) := by rw [← hs']
  have hself := hal_self t ta
  have hne := hal_ne t ta
  have hmem : ∀ e, e ∈ t.pending ↔ e = jobEntry j ∨ (∃ a ∈ j.also, e = placeholder j.id j.reads a) ∨ e ∈ s.pending := by
    intro e; rw [tp]; simp; grind
  have hnd' : j.id ∉ j.also ∧ j.also.Nodup := by simpa [Job.ids] using hnd
  constructor
  · rw [tp]
    simp only [List.map_cons, List.map_append, List.map_reverse, List.map_map]
    have hm : (j.also.map ((fun x => x.id) ∘ placeholder j.id j.reads)) = j.also := by
      conv => rhs; rw [← List.map_id j.also]
      apply List.map_congr_left; intro a _; rfl
    rw [hm]
    simp only [jobEntry, List.nodup_cons, List.mem_append, List.mem_reverse, List.mem_map, not_or, not_exists, not_and]
    refine ⟨⟨hnd'.1, fun e he => hjid e he⟩, ?_⟩
    rw [List.nodup_append]
    refine ⟨(List.reverse_perm _).nodup_iff.2 hnd'.2, w.nodup, ?_⟩
    intro a ha b hb hab
    simp at ha hb
    obtain ⟨e, he, rfl⟩ := hb
    exact hjalso e he (hab ▸ ha)
  · rw [ti]; exact w.inflight_nodup
  · intro x hx
    rw [ti] at hx
    obtain ⟨e, he, heid, her⟩ := w.inflight_running x hx
    exact ⟨e, (hmem e).2 (Or.inr (Or.inr he)), heid, her⟩
  · intro e he hrun
    rcases (hmem e).1 he with rfl | ⟨a, _, rfl⟩ | he
    · simp [jobEntry] at hrun
    · simp [placeholder] at hrun
    · exact w.running_real e he hrun
  · intro e he hk
    rcases (hmem e).1 he with rfl | ⟨a, _, rfl⟩ | he
    · rfl
    · simp [placeholder] at hk
    · exact w.owner_real e he hk
  · intro e he hk
    rcases (hmem e).1 he with rfl | ⟨a, ha, rfl⟩ | he
    · exact absurd hk hkind
    · refine ⟨jobEntry j, (hmem _).2 (Or.inl rfl), rfl, hkind, ?_⟩
      show a ∈ t.alsoOf j.id
      rw [hself]; exact ha
    · obtain ⟨p, hp, hpid, hpk, hin⟩ := w.owner_also e he hk
      refine ⟨p, (hmem p).2 (Or.inr (Or.inr hp)), hpid, hpk, ?_⟩
      rw [hne _ (by rw [← hpid]; exact hjid p hp)]; exact hin
  · intro p hp hk a ha
    rcases (hmem p).1 hp with rfl | ⟨b, _, rfl⟩ | hp
    · have : a ∈ j.also := by
        have : (jobEntry j).id = j.id := rfl
        rw [this, hself] at ha; exact ha
      exact ⟨placeholder j.id j.reads a, (hmem _).2 (Or.inr (Or.inl ⟨a, this, rfl⟩)), rfl, rfl, rfl⟩
    · simp [placeholder] at hk
    · rw [hne _ (hjid p hp)] at ha
      obtain ⟨e, he, heid, hek, heo⟩ := w.also_pending p hp hk a ha
      exact ⟨e, (hmem e).2 (Or.inr (Or.inr he)), heid, hek, heo⟩
  · intro p hp hk
    rcases (hmem p).1 hp with rfl | ⟨b, _, rfl⟩ | hp
    · have : (jobEntry j).id = j.id := rfl
      rw [this, hself]; exact hnd
    · simp [placeholder] at hk
    · rw [hne _ (hjid p hp)]; exact w.also_nodup p hp hk
  · intro d
    rw [tc, hcs d, w.counters d]
    have hjni : j.id ∉ s.inflight := by
      intro hin
      obtain ⟨e, he, heid, _⟩ := w.inflight_running j.id hin
      exact hjid e he heid
    have hact : t.active = jobEntry j :: s.active := by
      unfold State.active
      rw [tp, ti]
      simp only [List.filter_cons, List.filter_append]
      have h1 : (List.filter (fun p => decide (p.kind ≠ Kind.alsoComplete ∧ p.id ∉ s.inflight)) (j.also.map (placeholder j.id j.reads)).reverse) = [] := by
        apply List.filter_eq_nil_iff.2
        intro e he
        simp at he
        obtain ⟨a, _, rfl⟩ := he
        simp [placeholder]
      have h2 : decide ((jobEntry j).kind ≠ Kind.alsoComplete ∧ (jobEntry j).id ∉ s.inflight) = true := by
        simp [jobEntry, hkind, hjni]
      rw [h1, h2]; simp
    unfold State.slots
    rw [hact]
    simp only [List.flatMap_cons, List.count_append]
    have h3 : t.counterDiscs (jobEntry j).id = j.ids.map (·.disc) := by
      have : (jobEntry j).id = j.id := rfl
      simp [State.counterDiscs, this, hself, Job.ids]
    have h4 : s.active.flatMap (fun p => t.counterDiscs p.id) = s.active.flatMap (fun p => s.counterDiscs p.id) := by
      apply flatMap_congr'
      intro p hp
      have hp' : p ∈ s.pending := (List.mem_filter.1 hp).1
      simp [State.counterDiscs, hne _ (hjid p hp')]
    rw [h3, h4]; omega
  · intro e he
    rw [tn]
    rcases (hmem e).1 he with rfl | ⟨a, ha, rfl⟩ | he
    · simp [jobEntry]
    · simp [placeholder, ha]
    · simp [w.pending_inserted e he]
  · intro x hx
    rw [ts] at hx; rw [tn]
    simp [w.success_inserted x hx]
  · intro x hx
    rw [tn] at hx
    simp only [List.mem_cons, List.mem_append, List.mem_reverse] at hx
    rcases hx with rfl | hx | hx
    · left; exact isPending_iff.2 ⟨jobEntry j, (hmem _).2 (Or.inl rfl), rfl⟩
    · left; exact isPending_iff.2 ⟨placeholder j.id j.reads x, (hmem _).2 (Or.inr (Or.inl ⟨x, hx, rfl⟩)), rfl⟩
    · rcases w.inserted_cases x hx with h | h
      · left
        obtain ⟨e, he, rfl⟩ := isPending_iff.1 h
        exact isPending_iff.2 ⟨e, (hmem e).2 (Or.inr (Or.inr he)), rfl⟩
      · right; rw [ts]; exact h
  · intro e he
    rw [ts]
    rcases (hmem e).1 he with rfl | ⟨a, ha, rfl⟩ | he
    · intro hs; exact hfresh j.id (by simp [Job.ids]) (w.success_inserted _ hs)
    · intro hs; exact hfresh a (by simp [Job.ids, ha]) (w.success_inserted _ hs)
    · exact w.disjoint e he
  · intro p hp
    rw [ta] at hp; rw [tn]
    by_cases he : j.also.isEmpty
    · simp [he] at hp; simp [w.also_keys p hp]
    · simp [he] at hp
      rcases hp with rfl | hp
      · simp
      · simp [w.also_keys p hp]

/-- history only grows -/
structure Mono (s s' : State) : Prop where
  inserted : ∃ l, s'.inserted = l ++ s.inserted
  success : ∀ x ∈ s.success, x ∈ s'.success
  delivered : ∀ x ∈ s.delivered, x ∈ s'.delivered
  finished : ∀ x ∈ s.finished, x ∈ s'.finished
  skipped : ∀ x ∈ s.skipped, x ∈ s'.skipped
  launched : ∀ x ∈ s.launched, x ∈ s'.launched

theorem Mono.refl (s : State) : Mono s s := ⟨⟨[], rfl⟩, fun _ h => h, fun _ h => h, fun _ h => h, fun _ h => h, fun _ h => h⟩

theorem Mono.trans {a b c : State} (h1 : Mono a b) (h2 : Mono b c) : Mono a c := by
  obtain ⟨l1, e1⟩ := h1.inserted
  obtain ⟨l2, e2⟩ := h2.inserted
  exact ⟨⟨l2 ++ l1, by rw [e2, e1, List.append_assoc]⟩, fun x h => h2.success x (h1.success x h),
    fun x h => h2.delivered x (h1.delivered x h), fun x h => h2.finished x (h1.finished x h),
    fun x h => h2.skipped x (h1.skipped x h), fun x h => h2.launched x (h1.launched x h)⟩

theorem Mono.nodup {s s' : State} (m : Mono s s') (h : s'.inserted.Nodup) : s.inserted.Nodup := by
  obtain ⟨l, e⟩ := m.inserted
  rw [e] at h
  exact (List.nodup_append.1 h).2.1

theorem mono_insertJob {s s' : State} {j : Job} (h : s.insertJob j = some s') : Mono s s' := by
  obtain ⟨_, cs, rfl, _⟩ := insertJob_spec h
  exact ⟨⟨j.id :: j.also.reverse, by simp⟩, fun _ h => h, fun _ h => h, fun _ h => h, fun _ h => h, fun _ h => h⟩

theorem mono_launch {s s' : State} {id : Id} (h : s.launch id = some s') : Mono s s' := by
  obtain ⟨e, _, _, _, rfl⟩ := launch_spec h
  exact ⟨⟨[], rfl⟩, fun _ h => h, fun _ h => h, fun _ h => h, fun _ h => h, fun x h => by simp [h]⟩

theorem mono_finish {s s' : State} {id : Id} (h : s.finish id = some s') : Mono s s' := by
  obtain ⟨e, cs, _, _, _, _, _, rfl⟩ := finish_spec h
  exact ⟨⟨[], rfl⟩, fun _ h => h, fun _ h => h, fun x h => by simp [h], fun _ h => h, fun _ h => h⟩

theorem mono_complete {s s' : State} {id : Id} (h : s.complete id = some s') : Mono s s' := by
  obtain ⟨rfl, _, _⟩ := complete_spec h
  exact ⟨⟨[], rfl⟩, fun x h => by simp [h], fun _ h => h, fun _ h => h, fun _ h => h, fun _ h => h⟩

theorem mono_receive {s s' : State} {id : Id} (h : s.receive id = some s') : Mono s s' := by
  obtain ⟨_, _, hc⟩ := receive_spec h
  have := mono_complete hc
  exact ⟨this.inserted, this.success, fun x h => this.delivered x (by simp [h]), this.finished, this.skipped, this.launched⟩

theorem mono_rewrite {s s' : State} {id : Id} {a : Access} {m : Bool} (h : s.rewrite id a m = some s') : Mono s s' := by
  have := rewrite_spec h
  subst this
  exact ⟨⟨[], rfl⟩, fun _ h => h, fun _ h => h, fun _ h => h, fun _ h => h, fun _ h => h⟩

theorem mono_skip {s s' : State} {id : Id} (h : s.skip id = some s') : Mono s s' := by
  rcases skip_spec h with ⟨_, rfl⟩ | ⟨o, cs, _, _, _, _, _, hc⟩
  · exact Mono.refl _
  · have := mono_complete hc
    exact ⟨this.inserted, this.success, this.delivered, this.finished, fun x h => this.skipped x (by simp [h]), this.launched⟩

theorem mono_applyEffect {s s' : State} {e : Effect} (h : s.applyEffect e = some s') : Mono s s' := by
  cases e with
  | add j => exact mono_insertJob h
  | rewrite id a m => exact mono_rewrite h
  | skip id => exact mono_skip h
  | guard id st =>
    simp only [State.applyEffect] at h
    split at h
    · simp at h; subst h; exact Mono.refl _
    · simp at h

theorem mono_applyEffects {es : List Effect} {s s' : State} (h : s.applyEffects es = some s') : Mono s s' := by
  induction es generalizing s with
  | nil => simp [State.applyEffects] at h; subst h; exact Mono.refl _
  | cons e es ih =>
    simp only [State.applyEffects] at h
    cases h1 : s.applyEffect e with
    | none => simp [h1] at h
    | some s1 =>
      simp [h1] at h
      exact (mono_applyEffect h1).trans (ih h)

theorem mono_deliver {sc : Script} {s s' : State} {id : Id} (h : s.deliver sc id = some s') : Mono s s' := by
  unfold State.deliver at h
  cases h1 : s.receive id with
  | none => simp [h1] at h
  | some s1 =>
    simp [h1] at h
    exact (mono_receive h1).trans (mono_applyEffects h)

theorem mono_step {sc : Script} {s s' : State} {e : Event} (h : step sc s e = some s') : Mono s s' := by
  cases e with
  | insert j => exact mono_insertJob h
  | launch id => exact mono_launch h
  | finish id => exact mono_finish h
  | deliver id => exact mono_deliver h

theorem fresh_of_insertJob {s s' : State} {j : Job} (h : s.insertJob j = some s') (hn : s'.inserted.Nodup) :
    ∀ a ∈ j.ids, a ∉ s.inserted := by
  obtain ⟨_, cs, rfl, _⟩ := insertJob_spec h
  intro a ha hin
  simp only [List.nodup_cons, List.mem_append, List.mem_reverse, not_or] at hn
  simp [Job.ids] at ha
  rcases ha with rfl | ha
  · exact hn.1.2 hin
  · have := (List.nodup_append.1 hn.2).2.2 a (by simpa using ha) a hin
    exact this rfl

theorem wf_applyEffect {s s' : State} {e : Effect} (w : WF s) (h : s.applyEffect e = some s') (hn : s'.inserted.Nodup) : WF s' := by
  cases e with
  | add j => exact wf_insertJob w h (fresh_of_insertJob h hn)
  | rewrite id a m => exact wf_rewrite w h
  | skip id => exact wf_skip w h
  | guard id st =>
    simp only [State.applyEffect] at h
    split at h
    · simp at h; subst h; exact w
    · simp at h

theorem wf_applyEffects {es : List Effect} {s s' : State} (w : WF s) (h : s.applyEffects es = some s') (hn : s'.inserted.Nodup) : WF s' := by
  induction es generalizing s with
  | nil => simp [State.applyEffects] at h; subst h; exact w
  | cons e es ih =>
    simp only [State.applyEffects] at h
    cases h1 : s.applyEffect e with
    | none => simp [h1] at h
    | some s1 =>
      simp [h1] at h
      exact ih (wf_applyEffect w h1 ((mono_applyEffects h).nodup hn)) h

theorem wf_step {sc : Script} {s s' : State} {e : Event} (w : WF s) (h : step sc s e = some s') (hn : s'.inserted.Nodup) : WF s' := by
  cases e with
  | insert j => exact wf_insertJob w h (fresh_of_insertJob h hn)
  | launch id => exact wf_launch w h
  | finish id => exact wf_finish w h
  | deliver id =>
    simp only [step, State.deliver] at h
    cases h1 : s.receive id with
    | none => simp [h1] at h
    | some s1 =>
      simp [h1] at h
      exact wf_applyEffects (wf_receive w h1) h hn

/-- states the scheduler can be in: any sequence of admitted events from the empty workload -/
inductive Reach (sc : Script) : State → Prop where
  | empty : Reach sc State.empty
  | step {s s' : State} (e : Event) : Reach sc s → step sc s e = some s' → Reach sc s'

theorem Reach.wf {sc : Script} {s : State} (r : Reach sc s) (hn : s.inserted.Nodup) : WF s := by
  induction r with
  | empty => exact wf_empty
  | step e _ h ih => exact wf_step (ih ((mono_step h).nodup hn)) h hn

/-- invariants that tie the history variables to the state -/
structure Hist (s : State) : Prop where
  succ_char : ∀ x ∈ s.success, ∃ o, (o ∈ s.delivered ∨ o ∈ s.skipped) ∧ (x = o ∨ x ∈ s.alsoOf o)
  delivered_fin : ∀ x ∈ s.delivered, x ∈ s.finished
  inflight_fin : ∀ x ∈ s.inflight, x ∈ s.finished
  fin_launched : ∀ x ∈ s.finished, ∃ a, (x, a) ∈ s.launched
  launched_inserted : ∀ p ∈ s.launched, p.1 ∈ s.inserted
  idle_not_launched : ∀ e ∈ s.pending, e.running = false → ∀ a, (e.id, a) ∉ s.launched
  running_launched : ∀ e ∈ s.pending, e.running = true → ∃ a, (e.id, a) ∈ s.launched
  skipped_not_launched : ∀ x ∈ s.skipped, ∀ a, (x, a) ∉ s.launched
  skipped_success : ∀ x ∈ s.skipped, x ∈ s.success
  delivered_success : ∀ x ∈ s.delivered, x ∈ s.success

theorem hist_empty : Hist State.empty := by
  constructor <;> simp [State.empty]

theorem hist_insertJob {s s' : State} {j : Job} (w : WF s) (hh : Hist s) (h : s.insertJob j = some s')
    (hfresh : ∀ a ∈ j.ids, a ∉ s.inserted) : Hist s' := by
  obtain ⟨hkind, cs, rfl, hcs, hnd, hnp⟩ := insertJob_spec h
  have hne : ∀ x, x ∈ s.inserted → ({ s with jobCount := s.jobCount + j.also.length + 1, counters := cs, pending := jobEntry j :: ((j.also.map (placeholder j.id j.reads)).reverse ++ s.pending), inserted := j.id :: (j.also.reverse ++ s.inserted), also := if j.also.isEmpty then s.also else (j.id, j.also) :: s.also } : State).alsoOf x = s.alsoOf x := by
    intro x hx
    have hxj : x ≠ j.id := fun e => hfresh j.id (by simp [Job.ids]) (e ▸ hx)
    by_cases he : j.also.isEmpty
    · simp [State.alsoOf, he]
    · have : ¬ j.id = x := fun e => hxj e.symm
      simp [State.alsoOf, he, this]
  constructor
  · intro x hx
    obtain ⟨o, ho, hxo⟩ := hh.succ_char x hx
    refine ⟨o, ho, ?_⟩
    have : o ∈ s.inserted := by
      rcases ho with ho | ho
      · exact w.success_inserted o (hh.delivered_success o ho)
      · exact w.success_inserted o (hh.skipped_success o ho)
    rw [hne o this]; exact hxo
  · exact hh.delivered_fin
  · exact hh.inflight_fin
  · exact hh.fin_launched
  · intro p hp
    have := hh.launched_inserted p hp
    simp [this]
  · intro e he hrun a hl
    have hins := hh.launched_inserted _ hl
    simp only [List.mem_cons, List.mem_append, List.mem_reverse, List.mem_map] at he
    rcases he with rfl | ⟨b, hb, rfl⟩ | he
    · exact hfresh j.id (by simp [Job.ids]) hins
    · exact hfresh b (by simp [Job.ids, hb]) hins
    · exact hh.idle_not_launched e he hrun a hl
  · intro e he hrun
    simp only [List.mem_cons, List.mem_append, List.mem_reverse, List.mem_map] at he
    rcases he with rfl | ⟨b, hb, rfl⟩ | he
    · simp [jobEntry] at hrun
    · simp [placeholder] at hrun
    · exact hh.running_launched e he hrun
  · exact hh.skipped_not_launched
  · exact hh.skipped_success
  · exact hh.delivered_success

theorem hist_launch {s s' : State} {id : Id} (w : WF s) (hh : Hist s) (h : s.launch id = some s') : Hist s' := by
  obtain ⟨e, he, hid, hl, rfl⟩ := launch_spec h
  subst hid
  constructor
  · exact hh.succ_char
  · exact hh.delivered_fin
  · exact hh.inflight_fin
  · intro x hx
    obtain ⟨a, ha⟩ := hh.fin_launched x hx
    exact ⟨a, by simp [ha]⟩
  · intro p hp
    simp at hp
    rcases hp with rfl | hp
    · exact w.pending_inserted e he
    · exact hh.launched_inserted p hp
  · intro x hx hrun a hl'
    simp only [List.mem_map] at hx
    obtain ⟨y, hy, rfl⟩ := hx
    simp only [setRunning] at hrun hl'
    split at hrun
    · simp at hrun
    · rename_i hne
      simp [hne] at hl'
      exact hh.idle_not_launched y hy hrun a hl'
  · intro x hx hrun
    simp only [List.mem_map] at hx
    obtain ⟨y, hy, rfl⟩ := hx
    simp only [setRunning] at hrun ⊢
    split at hrun
    · rename_i heq
      simp [heq]
    · rename_i hne
      obtain ⟨a, ha⟩ := hh.running_launched y hy hrun
      exact ⟨a, by simp [hne, ha]⟩
  · intro x hx a hl'
    simp at hl'
    rcases hl' with ⟨rfl, _⟩ | hl'
    · exact w.disjoint e he (hh.skipped_success _ hx)
    · exact hh.skipped_not_launched x hx a hl'
  · exact hh.skipped_success
  · exact hh.delivered_success

theorem hist_finish {s s' : State} {id : Id} (hh : Hist s) (h : s.finish id = some s') : Hist s' := by
  obtain ⟨e, cs, he, hid, hrun, hni, hdec, rfl⟩ := finish_spec h
  subst hid
  constructor
  · exact hh.succ_char
  · intro x hx; simp [hh.delivered_fin x hx]
  · intro x hx
    simp at hx ⊢
    rcases hx with rfl | hx
    · exact Or.inl rfl
    · exact Or.inr (hh.inflight_fin x hx)
  · intro x hx
    simp at hx
    rcases hx with rfl | hx
    · exact hh.running_launched e he hrun
    · exact hh.fin_launched x hx
  · exact hh.launched_inserted
  · exact hh.idle_not_launched
  · exact hh.running_launched
  · exact hh.skipped_not_launched
  · exact hh.skipped_success
  · exact hh.delivered_success

theorem hist_rewrite {s s' : State} {id : Id} {a : Access} {m : Bool} (hh : Hist s) (h : s.rewrite id a m = some s') : Hist s' := by
  have := rewrite_spec h
  subst this
  have hrun : ∀ y, (setReads id a y).running = y.running := by intro y; simp [setReads]; split <;> rfl
  have hid : ∀ y, (setReads id a y).id = y.id := by intro y; simp [setReads]; split <;> rfl
  constructor
  · exact hh.succ_char
  · exact hh.delivered_fin
  · exact hh.inflight_fin
  · exact hh.fin_launched
  · exact hh.launched_inserted
  · intro x hx hr b
    simp only [List.mem_map] at hx
    obtain ⟨y, hy, rfl⟩ := hx
    rw [hrun] at hr; rw [hid]
    exact hh.idle_not_launched y hy hr b
  · intro x hx hr
    simp only [List.mem_map] at hx
    obtain ⟨y, hy, rfl⟩ := hx
    rw [hrun] at hr; rw [hid]
    exact hh.running_launched y hy hr
  · exact hh.skipped_not_launched
  · exact hh.skipped_success
  · exact hh.delivered_success

theorem hist_receive {s s' : State} {id : Id} (hh : Hist s) (h : s.receive id = some s') : Hist s' := by
  obtain ⟨hin, _, hc⟩ := receive_spec h
  obtain ⟨rfl, _, _⟩ := complete_spec hc
  have hal : ∀ x, ({ s with inflight := s.inflight.erase id, delivered := id :: s.delivered } : State).alsoOf x = s.alsoOf x := fun _ => rfl
  constructor
  · intro x hx
    simp only [List.mem_append, List.mem_reverse, List.mem_cons] at hx
    rcases hx with (rfl | hx) | hx
    · exact ⟨x, Or.inl (by simp), Or.inl rfl⟩
    · exact ⟨id, Or.inl (by simp), Or.inr hx⟩
    · obtain ⟨o, ho, hxo⟩ := hh.succ_char x hx
      refine ⟨o, ?_, hxo⟩
      rcases ho with ho | ho
      · exact Or.inl (by simp [ho])
      · exact Or.inr ho
  · intro x hx
    simp at hx
    rcases hx with rfl | hx
    · exact hh.inflight_fin x hin
    · exact hh.delivered_fin x hx
  · intro x hx
    exact hh.inflight_fin x (List.mem_of_mem_erase hx)
  · exact hh.fin_launched
  · exact hh.launched_inserted
  · intro e he
    exact hh.idle_not_launched e (List.mem_filter.1 he).1
  · intro e he
    exact hh.running_launched e (List.mem_filter.1 he).1
  · exact hh.skipped_not_launched
  · intro x hx
    simp [hh.skipped_success x hx]
  · intro x hx
    simp at hx ⊢
    rcases hx with rfl | hx
    · simp
    · simp [hh.delivered_success x hx]

theorem hist_skip {s s' : State} {id : Id} (hh : Hist s) (h : s.skip id = some s') : Hist s' := by
  rcases skip_spec h with ⟨_, rfl⟩ | ⟨o, cs, ho, rfl, hrun, hreal, hdec, hc⟩
  · exact hh
  · obtain ⟨rfl, _, _⟩ := complete_spec hc
    constructor
    · intro x hx
      simp only [List.mem_append, List.mem_reverse, List.mem_cons] at hx
      rcases hx with (rfl | hx) | hx
      · exact ⟨_, Or.inr (by simp), Or.inl rfl⟩
      · exact ⟨o.id, Or.inr (by simp), Or.inr hx⟩
      · obtain ⟨o', ho', hxo⟩ := hh.succ_char x hx
        refine ⟨o', ?_, hxo⟩
        rcases ho' with ho' | ho'
        · exact Or.inl ho'
        · exact Or.inr (by simp [ho'])
    · exact hh.delivered_fin
    · exact hh.inflight_fin
    · exact hh.fin_launched
    · exact hh.launched_inserted
    · intro e he
      exact hh.idle_not_launched e (List.mem_filter.1 he).1
    · intro e he
      exact hh.running_launched e (List.mem_filter.1 he).1
    · intro x hx a
      simp at hx
      rcases hx with rfl | hx
      · exact hh.idle_not_launched o ho hrun a
      · exact hh.skipped_not_launched x hx a
    · intro x hx
      simp at hx ⊢
      rcases hx with rfl | hx
      · simp
      · simp [hh.skipped_success x hx]
    · intro x hx
      simp [hh.delivered_success x hx]

theorem wf_hist_applyEffect {s s' : State} {e : Effect} (w : WF s) (hh : Hist s) (h : s.applyEffect e = some s')
    (hn : s'.inserted.Nodup) : WF s' ∧ Hist s' := by
  refine ⟨wf_applyEffect w h hn, ?_⟩
  cases e with
  | add j => exact hist_insertJob w hh h (fresh_of_insertJob h hn)
  | rewrite id a m => exact hist_rewrite hh h
  | skip id => exact hist_skip hh h
  | guard id st =>
    simp only [State.applyEffect] at h
    split at h
    · simp at h; subst h; exact hh
    · simp at h

theorem wf_hist_applyEffects {es : List Effect} {s s' : State} (w : WF s) (hh : Hist s) (h : s.applyEffects es = some s')
    (hn : s'.inserted.Nodup) : WF s' ∧ Hist s' := by
  induction es generalizing s with
  | nil => simp [State.applyEffects] at h; subst h; exact ⟨w, hh⟩
  | cons e es ih =>
    simp only [State.applyEffects] at h
    cases h1 : s.applyEffect e with
    | none => simp [h1] at h
    | some s1 =>
      simp [h1] at h
      obtain ⟨w1, hh1⟩ := wf_hist_applyEffect w hh h1 ((mono_applyEffects h).nodup hn)
      exact ih w1 hh1 h

theorem hist_step {sc : Script} {s s' : State} {e : Event} (w : WF s) (hh : Hist s) (h : step sc s e = some s')
    (hn : s'.inserted.Nodup) : Hist s' := by
  cases e with
  | insert j => exact hist_insertJob w hh h (fresh_of_insertJob h hn)
  | launch id => exact hist_launch w hh h
  | finish id => exact hist_finish hh h
  | deliver id =>
    simp only [step, State.deliver] at h
    cases h1 : s.receive id with
    | none => simp [h1] at h
    | some s1 =>
      simp [h1] at h
      exact (wf_hist_applyEffects (wf_receive w h1) (hist_receive hh h1) h hn).2

theorem Reach.hist {sc : Script} {s : State} (r : Reach sc s) (hn : s.inserted.Nodup) : Hist s := by
  induction r with
  | empty => exact hist_empty
  | step e r h ih =>
    have hn' := (mono_step h).nodup hn
    exact hist_step (r.wf hn') (ih hn') h hn

end Fontc.Sched
