/-
  Lemmas for C03/C04: perturbing deltas (IUP-inferred instead of explicit) moves an interpolated value by at most
  ε · Σ (scalars of the active regions).
-/
import FontcModel.VarModel
import FontcProofs.Rounding
import FontcProofs.VarModelAlg
import FontcProofs.VarModelGeom

namespace Fontc.VarModel
open Fontc

/-- Sum of the scalars at `loc` of the regions that carry a delta. -/
def scalarSum : List Region → List (Option Rat) → Loc → Rat
  | r :: rs, some _ :: ds, loc => scalarAt r loc + scalarSum rs ds loc
  | _ :: rs, none :: ds, loc => scalarSum rs ds loc
  | [], _, _ => 0
  | _ :: _, [], _ => 0

/-- Two delta lists have the same shape and differ by at most `ε` entrywise. -/
def Close (ε : Rat) : List (Option Rat) → List (Option Rat) → Prop
  | [], [] => True
  | some a :: as, some b :: bs => ratAbs (b - a) ≤ ε ∧ Close ε as bs
  | none :: as, none :: bs => Close ε as bs
  | _, _ => False

theorem scalarSum_nonneg (infl : List Region) (D : List (Option Rat)) (loc : Loc) :
    0 ≤ scalarSum infl D loc := by
  induction infl generalizing D with
  | nil => simp [scalarSum]
  | cons r rs ih =>
    cases D with
    | nil => simp [scalarSum]
    | cons d ds =>
      cases d with
      | none => simpa [scalarSum] using ih ds
      | some a =>
        have h1 := (Geom.scalarAt_bounds r loc).1
        have h2 := ih ds
        simp only [scalarSum]
        grind

theorem dot_perturb (ε : Rat) (infl : List Region) (D D' : List (Option Rat)) (loc : Loc)
    (hclose : Close ε D D') :
    ratAbs (dot infl D' loc - dot infl D loc) ≤ ε * scalarSum infl D loc := by
  induction infl generalizing D D' with
  | nil => simp [scalarSum]; apply (ratAbs_le_iff _ _).2; grind
  | cons r rs ih =>
    cases D with
    | nil =>
      cases D' with
      | nil => simp [scalarSum]; apply (ratAbs_le_iff _ _).2; grind
      | cons _ _ => simp [Close] at hclose
    | cons d ds =>
      cases D' with
      | nil => cases d <;> simp [Close] at hclose
      | cons d' ds' =>
        cases d with
        | none =>
          cases d' with
          | none =>
            simp only [Close] at hclose
            have := ih ds ds' hclose
            simp only [dot_cons, term, scalarSum]
            have e : (0 + dot rs ds' loc - (0 + dot rs ds loc)) = dot rs ds' loc - dot rs ds loc := by grind
            rw [e]; exact this
          | some _ => simp [Close] at hclose
        | some a =>
          cases d' with
          | none => simp [Close] at hclose
          | some b =>
            simp only [Close] at hclose
            have h := ih ds ds' hclose.2
            have hs := Geom.scalarAt_bounds r loc
            have hab := (ratAbs_le_iff _ _).1 hclose.1
            have hh := (ratAbs_le_iff _ _).1 h
            simp only [dot_cons, term, scalarSum]
            apply (ratAbs_le_iff _ _).2
            have e1 : scalarAt r loc * (b - a) ≤ scalarAt r loc * ε := Rat.mul_le_mul_of_nonneg_left hab.2 hs.1
            have e2 : scalarAt r loc * (-ε) ≤ scalarAt r loc * (b - a) := Rat.mul_le_mul_of_nonneg_left hab.1 hs.1
            constructor <;> grind

end Fontc.VarModel
