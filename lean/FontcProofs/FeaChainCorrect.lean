/-
  C11, contextual lookups, part 6: the compiled contextual lookup (format 3 subtables + anonymous
  lookups) against "first matching rule, its inline replacement at the marked glyph".
-/
import FontcProofs.FeaChainInline
import FontcProofs.FeaChainStep
import FontcProofs.FeaLookupSem

namespace Fontc.FeaCompile
open Cmp
set_option linter.unusedSimpArgs false

/-- one contextual rule of the source tried at the current position -/
def srcTry (gdefSrc : List (Glyph × Nat)) (alt : Nat) (env : String → Option Src.Lookup) (flag : Flag)
    (rev : List Glyph) (g : Glyph) (suf : List Glyph) (r : Src.CtxRule) : Option (List Glyph × List Glyph) :=
  (Src.ctxMatch (Src.ignored gdefSrc flag) r rev g suf).map
    fun ps => ctxResult (Src.actionStep gdefSrc alt env flag) rev g suf ps r.actions

theorem chainStep_eq (gdefSrc : List (Glyph × Nat)) (alt : Nat) (env : String → Option Src.Lookup) (l : Src.Lookup)
    (rev : List Glyph) (g : Glyph) (suf : List Glyph) :
    Src.chainStep gdefSrc alt env l rev g suf
      = (l.rules.flatMap Src.ctxRules).findSome? (srcTry gdefSrc alt env l.flag rev g suf) := by
  simp only [Src.chainStep]
  generalize l.rules.flatMap Src.ctxRules = crs
  induction crs with
  | nil => rfl
  | cons r crs ih =>
    simp only [List.findSome?_cons, srcTry]
    cases hq : Src.ctxMatch (Src.ignored gdefSrc l.flag) r rev g suf with
    | none => exact ih
    | some ps => simp

theorem matchCtx_head (ign : Glyph → Bool) (back input look : List (Glyph → Bool)) (rev : List Glyph) (g : Glyph)
    (suf : List Glyph) (ps : List Nat) (h : matchCtx ign back input look rev g suf = some ps) :
    ps[0]? = some 0 ∧ ∃ p, input.head? = some p ∧ p g = true := by
  simp only [matchCtx] at h
  cases hi : matchInput ign input g suf with
  | none => simp [hi] at h
  | some ps' =>
    simp only [hi] at h
    split at h
    · cases h
      cases input with
      | nil => simp [matchInput] at hi
      | cons p rest =>
        simp only [matchInput] at hi
        split at hi
        · rename_i hp
          cases hm : matchFwd ign rest suf 1 with
          | none => simp [hm] at hi
          | some q => simp [hm] at hi; subst hi; exact ⟨rfl, p, rfl, hp⟩
        · simp at hi
    · simp at h

theorem anon_single_step (gdef : OT.Gdef) (alt : Nat) (lookups : List OT.Lookup) (d : Nat) (cf : CFlag)
    (m : List (Glyph × Glyph)) (rev : List Glyph) (g : Glyph) (suf : List Glyph) :
    OT.lookupStep gdef alt lookups d (buildAnonLookup cf (.single m)) rev g suf = (m.lookup g).map fun x => ([x], suf) := by
  rw [lookupStep_simple]
  · simp [buildAnonLookup, buildAnon, OT.simpleSubtableStep]
  · intro st hst; simp [buildAnonLookup, buildAnon] at hst; subst hst; intros; rfl

theorem anon_multi_step (gdef : OT.Gdef) (alt : Nat) (lookups : List OT.Lookup) (d : Nat) (cf : CFlag)
    (m : List (Glyph × List Glyph)) (rev : List Glyph) (g : Glyph) (suf : List Glyph) :
    OT.lookupStep gdef alt lookups d (buildAnonLookup cf (.multiple m)) rev g suf = (m.lookup g).map fun x => (x, suf) := by
  rw [lookupStep_simple]
  · simp [buildAnonLookup, buildAnon, OT.simpleSubtableStep]
  · intro st hst; simp [buildAnonLookup, buildAnon] at hst; subst hst; intros; rfl

theorem zipIdx_map_fst_has (input : List (GC × List String)) (f : (GC × List String) × Nat → GC × List LookupId)
    (hf : ∀ x, (f x).1 = x.1.1) :
    (input.zipIdx.map f).map (·.1.has) = (input.map (·.1)).map GC.has := by
  rw [List.map_map, List.map_map]
  have : ∀ (k : Nat), List.map ((fun (x : GC × List LookupId) => x.1.has) ∘ f) (input.zipIdx k)
      = List.map (GC.has ∘ fun (x : GC × List String) => x.1) input := by
    induction input with
    | nil => intro k; rfl
    | cons x xs ih =>
      intro k
      simp only [List.zipIdx_cons, List.map_cons, Function.comp, hf, ih (k + 1)]
  exact this 0

theorem recs_of_empty (back look : List GC) (items : List (GC × List LookupId)) (h : ∀ x ∈ items, x.2 = []) :
    CRule.recs ⟨back, items, look⟩ = [] := by
  simp only [CRule.recs]
  apply List.flatMap_eq_nil_iff.mpr
  intro x hx
  obtain ⟨⟨gc, ls⟩, i⟩ := x
  have hmem : (gc, ls) ∈ items := List.mem_of_getElem? (List.mem_zipIdx_iff_getElem?.mp hx)
  have := h _ hmem
  simp only at this
  subst this
  rfl

theorem refActions_of_empty (input : List (GC × List String)) (h : ∀ x ∈ input, x.2 = []) (i : Nat) :
    Src.refActions input i = [] := by
  induction input generalizing i with
  | nil => rfl
  | cons x xs ih =>
    obtain ⟨gc, refs⟩ := x
    have : refs = [] := h (gc, refs) (by simp)
    subst this
    simp [Src.refActions, ih (fun y hy => h y (by simp [hy]))]

section
variable (fx : Fixes) (root : Nat) (named : String → LookupId)
  (gdefSrc : List (Glyph × Nat)) (gdef : OT.Gdef) (cf : CFlag) (f : Flag) (alt : Nat) (env : String → Option Src.Lookup)
  (lookups : List OT.Lookup) (d : Nat) (A : List Anon)

/-- a contextual rule: the raw rule and the source rule do the same -/
theorem try_chain_rule
    (hign : ∀ y, OT.ignored gdef cf.1 cf.2 y = Src.ignored gdefSrc f y)
    (hplaced : ∀ j a, A[j]? = some a → lookups[root + j + 1]? = some (buildAnonLookup cf a))
    (an : List Anon) (back : List GC) (input : List (GC × List String)) (look : List GC) (inl : Inline)
    (hshape : inlineShapeOk (.chain back input look inl))
    (hfun : ∀ x, inlineSinglePairs (.chain back input look inl) = some x → PairsFunctional x.2)
    (hholds : InlineHolds A input inl (anonInline fx an input inl).2)
    (rev : List Glyph) (g : Glyph) (suf : List Glyph) :
    (rawOf fx root named an (.chain back input look inl)).findSome?
        (otTry (OT.ignored gdef cf.1 cf.2) (fun i => (lookups[i]?).map (OT.lookupStep gdef alt lookups d)) rev g suf)
      = (Src.ctxRules (.chain back input look inl)).findSome? (srcTry gdefSrc alt env f rev g suf) := by
  have hignf : OT.ignored gdef cf.1 cf.2 = Src.ignored gdefSrc f := funext hign
  simp only [rawOf, Src.ctxRules, List.findSome?_cons, List.findSome?_nil, otTry, srcTry, Src.ctxMatch, hignf]
  rw [zipIdx_map_fst_has input _ (by intro x; rfl)]
  cases hm : matchCtx (Src.ignored gdefSrc f) (back.reverse.map GC.has) ((input.map (·.1)).map GC.has) (look.map GC.has) rev g suf with
  | none => simp
  | some ps =>
    obtain ⟨hps0, p, hp, hpg⟩ := matchCtx_head _ _ _ _ _ _ _ _ hm
    simp only [Option.map_some]
    cases inl with
    | none =>
      obtain ⟨_, hrefs⟩ := hshape
      rw [recs_of_empty]
      · simp only [refActions_of_empty input hrefs 0]
        rfl
      · intro x hx
        obtain ⟨⟨⟨gc, refs⟩, i⟩, hy, rfl⟩ := List.mem_map.mp hx
        have hmem : (gc, refs) ∈ input := List.mem_of_getElem? (List.mem_zipIdx_iff_getElem?.mp hy)
        have := hrefs _ hmem
        simp only at this
        subst this
        simp [anonInline]
    | single by_ =>
      obtain ⟨t, rfl, hcov⟩ := hshape
      have hidx : (anonInline fx an [(t, [])] (.single by_)).2
          = some (anonAddSingle fx an (normSingle t by_).1 (normSingle t by_).2).2 := by simp [anonInline]
      rw [hidx] at hholds ⊢
      simp only [InlineHolds] at hholds
      obtain ⟨m, hAm, hall⟩ := hholds
      have hlk := hplaced _ _ hAm
      have hpf := hfun _ rfl
      simp only at hpf
      -- the marked glyph is in the target class
      have htg : t.has g = true := by
        simp only [List.map_cons, List.map_nil, List.head?_cons, Option.some.injEq] at hp
        rw [← hp] at hpg; exact hpg
      obtain ⟨b, hb⟩ := hcov g (by simpa [GC.has] using htg)
      have hmg : m.lookup g = some b := hall (g, b) hb
      have hsrc : Src.subst1 (.single t by_) g = some [b] := by
        rw [← lookup_singlePairs]
        cases hq : (singlePairs (normSingle t by_).1 (normSingle t by_).2).lookup g with
        | none =>
          have := List.lookup_eq_none_iff.mp hq (g, b) hb
          simp at this
        | some b' =>
          have hmem : (g, b') ∈ singlePairs (normSingle t by_).1 (normSingle t by_).2 := by
            obtain ⟨l1, l2, he, _⟩ := List.lookup_eq_some_iff.mp hq
            rw [he]; simp
          have := hpf (g, b') hmem (g, b) hb rfl
          simp only at this
          rw [this]; rfl
      simp only [CRule.recs, List.zipIdx, List.map_cons, List.map_nil, List.zipIdx_cons, List.zipIdx_nil, beq_self_eq_true,
        ↓reduceIte, Option.map_some, Option.toList_some, List.append_nil, List.flatMap_cons, List.flatMap_nil,
        LookupId.gsubIdx, List.singleton_append]
      rw [ctxResult_single _ rev g suf ps (root + _ + 1) (OT.lookupStep gdef alt lookups d (buildAnonLookup cf (.single m)))
        (by simp [hlk]) hps0]
      rw [ctxResult_single (Src.actionStep gdefSrc alt env f) rev g suf ps (Src.Action.inline (.single by_) [t])
        (Src.substStep [.single t by_]) (by simp [Src.actionStep]) hps0]
      rw [anon_single_step, hmg]
      simp [Src.substStep, hsrc]
    | lig r => exact absurd hshape (by simp [inlineShapeOk])
    | multi rs =>
      obtain ⟨a, rfl⟩ := hshape
      have hidx : (anonInline fx an [(.g a, [])] (.multi rs)).2 = some (anonAddMultiple an a rs).2 := by
        simp [anonInline, GC.glyphs]
      rw [hidx] at hholds ⊢
      simp only [InlineHolds] at hholds
      obtain ⟨m, hAm, hma⟩ := hholds
      have hlk := hplaced _ _ hAm
      have hga : g = a := by
        simp only [List.map_cons, List.map_nil, List.head?_cons, Option.some.injEq] at hp
        rw [← hp] at hpg
        simpa [GC.has, GC.glyphs] using hpg
      subst hga
      simp only [CRule.recs, List.zipIdx, List.map_cons, List.map_nil, List.zipIdx_cons, List.zipIdx_nil, beq_self_eq_true,
        ↓reduceIte, Option.map_some, Option.toList_some, List.append_nil, List.flatMap_cons, List.flatMap_nil,
        LookupId.gsubIdx, List.singleton_append]
      rw [ctxResult_single _ rev g suf ps (root + _ + 1) (OT.lookupStep gdef alt lookups d (buildAnonLookup cf (.multiple m)))
        (by simp [hlk]) hps0]
      rw [ctxResult_single (Src.actionStep gdefSrc alt env f) rev g suf ps (Src.Action.inline (.multi rs) [.g g])
        (fun _ g' suf' => if (GC.g g).has g' then some (rs, suf') else none) (by simp [Src.actionStep]) hps0]
      rw [anon_multi_step, hma]
      simp [GC.has, GC.glyphs]

end

theorem singleOk_functional : ∀ (rs : List Rule) (earlier : List (Glyph × Glyph)), SingleOk rs earlier →
    ∀ r ∈ rs, ∀ x, inlineSinglePairs r = some x → PairsFunctional x.2 := by
  intro rs
  induction rs with
  | nil => intro _ _ r hr; simp at hr
  | cons r0 rs ih =>
    intro earlier hok r hr x hx
    simp only [SingleOk] at hok
    rcases List.mem_cons.mp hr with rfl | hr'
    · rw [hx] at hok; exact hok.1
    · cases hq : inlineSinglePairs r0 with
      | none => rw [hq] at hok; exact ih earlier hok r hr' x hx
      | some y => rw [hq] at hok; exact ih _ hok.2.2 r hr' x hx

section
variable (fx : Fixes) (root : Nat) (named : String → LookupId)
  (gdefSrc : List (Glyph × Nat)) (gdef : OT.Gdef) (cf : CFlag) (f : Flag) (alt : Nat) (env : String → Option Src.Lookup)
  (lookups : List OT.Lookup) (d : Nat) (A : List Anon)

theorem try_ignore_rule (hign : ∀ y, OT.ignored gdef cf.1 cf.2 y = Src.ignored gdefSrc f y)
    (an : List Anon) (alts : List (List GC × List GC × List GC))
    (rev : List Glyph) (g : Glyph) (suf : List Glyph) :
    (rawOf fx root named an (.ignore alts)).findSome?
        (otTry (OT.ignored gdef cf.1 cf.2) (fun i => (lookups[i]?).map (OT.lookupStep gdef alt lookups d)) rev g suf)
      = (Src.ctxRules (.ignore alts)).findSome? (srcTry gdefSrc alt env f rev g suf) := by
  have hignf : OT.ignored gdef cf.1 cf.2 = Src.ignored gdefSrc f := funext hign
  simp only [rawOf, Src.ctxRules]
  induction alts with
  | nil => rfl
  | cons x alts ih =>
    obtain ⟨b, i, l⟩ := x
    simp only [List.map_cons, List.findSome?_cons, ih]
    have : otTry (OT.ignored gdef cf.1 cf.2) (fun i => (lookups[i]?).map (OT.lookupStep gdef alt lookups d)) rev g suf
        ⟨b.reverse, i.map (·, []), l⟩ = srcTry gdefSrc alt env f rev g suf ⟨b, i, l, []⟩ := by
      simp only [otTry, srcTry, Src.ctxMatch, hignf, List.map_map]
      rw [recs_of_empty _ _ _ (by intro x hx; obtain ⟨y, _, rfl⟩ := List.mem_map.mp hx; rfl)]
      rfl
    rw [this]

/-- raw rules against source rules, all rules of the lookup -/
theorem raws_findSome (hign : ∀ y, OT.ignored gdef cf.1 cf.2 y = Src.ignored gdefSrc f y)
    (hplaced : ∀ j a, A[j]? = some a → lookups[root + j + 1]? = some (buildAnonLookup cf a))
    (rev : List Glyph) (g : Glyph) (suf : List Glyph) (rs : List Rule) :
    ∀ (an : List Anon), (∀ r ∈ rs, r.kind = .chain) → (∀ r ∈ rs, inlineShapeOk r) →
    (∀ r ∈ rs, ∀ x, inlineSinglePairs r = some x → PairsFunctional x.2) → AllHold fx A an rs →
    (rawsOf fx root named an rs).findSome?
        (otTry (OT.ignored gdef cf.1 cf.2) (fun i => (lookups[i]?).map (OT.lookupStep gdef alt lookups d)) rev g suf)
      = (rs.flatMap Src.ctxRules).findSome? (srcTry gdefSrc alt env f rev g suf) := by
  induction rs with
  | nil => intro _ _ _ _ _; rfl
  | cons r rs ih =>
    intro an hk hshape hfun hall
    simp only [rawsOf, List.flatMap_cons, List.findSome?_append]
    simp only [AllHold] at hall
    rw [ih _ (fun r' h => hk r' (by simp [h])) (fun r' h => hshape r' (by simp [h])) (fun r' h => hfun r' (by simp [h])) hall.2]
    have hkr := hk r (by simp)
    cases r with
    | chain back input look inl =>
      rw [try_chain_rule fx root named gdefSrc gdef cf f alt env lookups d A hign hplaced an back input look inl
        (hshape _ (by simp)) (hfun _ (by simp)) hall.1 rev g suf]
    | ignore alts =>
      rw [try_ignore_rule fx root named gdefSrc gdef cf f alt env lookups d hign an alts rev g suf]
    | _ => simp [Rule.kind] at hkr

/-- **Contextual lookups** (`sub x a' y by b;`, `sub x a' by b c;`, `ignore sub …`, rules without
    replacement): the compiled lookup — one format 3 subtable per (merged) rule, inline replacements
    pooled in anonymous lookups placed after it — does at every position what the first matching
    source rule says. -/
theorem chain_lookup_correct (rs : List Rule) (hne : rs ≠ []) (hk : ∀ r ∈ rs, r.kind = .chain)
    (hshape : ∀ r ∈ rs, inlineShapeOk r) (hok : SingleOk rs [])
    (hign : ∀ y, OT.ignored gdef cf.1 cf.2 y = Src.ignored gdefSrc f y)
    (hplaced : ∀ j a, (anonOf fx [] rs)[j]? = some a → lookups[root + j + 1]? = some (buildAnonLookup cf a))
    (name : Option String) (rev : List Glyph) (g : Glyph) (suf : List Glyph) :
    OT.lookupStep gdef alt lookups (d + 1) (buildLookup cf (rs.foldl (Builder.add fx root named) (Builder.new .chain))) rev g suf
      = Src.lookupStep gdefSrc alt env ⟨name, f, rs⟩ rev g suf := by
  have hchain : Src.Lookup.isChain ⟨name, f, rs⟩ = true := by
    simp only [Src.Lookup.isChain, any_kind_of_homogeneous rs .chain .chain hne hk]; rfl
  simp only [Src.lookupStep, hchain, ↓reduceIte, chainStep_eq]
  simp only [Builder.new, foldl_add_chain fx root named rs hk, lookupStep_chain, findSome_foldl_addCRule, List.nil_append]
  exact raws_findSome fx root named gdefSrc gdef cf f alt env lookups d (anonOf fx [] rs) hign hplaced rev g suf rs []
    hk hshape (singleOk_functional rs [] hok) (allHold_final fx rs hshape [] [] hok)

end

end Fontc.FeaCompile
