/-
  C09 helper lemmas, part 4: what `evalPairs` (the PairPos precedence) returns on the emitted pairs, and the main
  reconciliation theorem under the compatibility of the emitted classes.
-/
import FontcProofs.KernPartition

namespace Fontc.Kern
open Fontc

/-! ### the sort puts glyph-first pairs before class-first pairs -/

def rank (p : EPair) : Nat := if p.e₁.isCls then 1 else 0

theorem le_of_rank_lt (p q : EPair) (h : rank p < rank q) : EPair.le p q = true := by
  unfold rank at h
  unfold EPair.le
  cases h₁ : p.e₁ <;> cases h₂ : q.e₁ <;> simp [h₁, h₂, Emit.isCls, Emit.le] at h ⊢

theorem rank_le_of_le (p q : EPair) (h : EPair.le p q = true) : rank p ≤ rank q := by
  unfold rank
  unfold EPair.le at h
  cases h₁ : p.e₁ <;> cases h₂ : q.e₁ <;> simp [h₁, h₂, Emit.isCls, Emit.le] at h ⊢

theorem mem_ordered (ps : List EPair) (p : EPair) :
    p ∈ ordered ps ↔ p ∈ ps ∧ (p.isCC && p.allZero) = false := by
  unfold ordered
  rw [List.mem_filter, mem_insertSort]
  constructor
  · rintro ⟨h1, h2⟩
    refine ⟨h1, ?_⟩
    cases hx : (p.isCC && p.allZero)
    · rfl
    · rw [hx] at h2; cases h2
  · rintro ⟨h1, h2⟩
    exact ⟨h1, by rw [h2]; rfl⟩

theorem ordered_pairwise (ps : List EPair) : (ordered ps).Pairwise (fun a b => rank a ≤ rank b) :=
  List.Pairwise.filter _ (insertSort_pairwise_rank EPair.le rank le_of_rank_lt rank_le_of_le ps)

/-! ### the class stage -/

def stepCls (subs : List ClassSub) (p : EPair) : List ClassSub :=
  match p.e₁, p.e₂ with
  | .cls c₁, .cls c₂ => insertClasses subs c₁ c₂ p
  | _, _ => subs

theorem classSubs_eq (ccs : List EPair) : classSubs ccs = (ccs.foldl stepCls []).reverse := rfl

/-- set-level content of a subtable built from the pairs `seen` -/
def Inv (t : ClassSub) (seen : List EPair) : Prop :=
  (∀ c, c ∈ t.classes1 ↔ ∃ p ∈ seen, p.e₁ = .cls c) ∧
  (∀ c, c ∈ t.classes2 ↔ ∃ p ∈ seen, p.e₂ = .cls c) ∧
  (∀ a b q, ((a, b), q) ∈ t.items ↔ q ∈ seen ∧ q.e₁ = .cls a ∧ q.e₂ = .cls b)

def AllCC (l : List EPair) : Prop := ∀ p ∈ l, ∃ c₁ c₂, p.e₁ = .cls c₁ ∧ p.e₂ = .cls c₂

theorem canAdd_of_compat (classes : List (List Nat)) (c : List Nat)
    (h : ∀ c' ∈ classes, ∀ g, g ∈ c → g ∈ c' → c' = c) : canAdd classes c = true := by
  unfold canAdd
  cases hc : classes.contains c with
  | true => rfl
  | false =>
    have hc' : c ∉ classes := fun hm => by rw [List.contains_iff_mem.mpr hm] at hc; cases hc
    rw [Bool.false_or, List.all_eq_true]
    intro g hg
    simp only [Bool.not_eq_true', List.any_eq_false]
    intro c' hc'm hcont
    have hg' : g ∈ c' := List.contains_iff_mem.mp hcont
    exact hc' (h c' hc'm g hg hg' ▸ hc'm)

theorem inv_insert (t : ClassSub) (seen : List EPair) (p : EPair) (c₁ c₂ : List Nat)
    (h₁ : p.e₁ = .cls c₁) (h₂ : p.e₂ = .cls c₂) (hinv : Inv t seen) :
    Inv { classes1 := if t.classes1.contains c₁ then t.classes1 else c₁ :: t.classes1
          classes2 := if t.classes2.contains c₂ then t.classes2 else c₂ :: t.classes2
          items := ((c₁, c₂), p) :: t.items } (seen ++ [p]) := by
  obtain ⟨i1, i2, i3⟩ := hinv
  refine ⟨?_, ?_, ?_⟩
  · intro c
    simp only [List.mem_append, List.mem_singleton]
    by_cases hc : t.classes1.contains c₁ = true
    · simp only [hc, if_true]
      rw [i1]
      constructor
      · rintro ⟨q, hq, hqe⟩; exact ⟨q, Or.inl hq, hqe⟩
      · rintro ⟨q, hq | rfl, hqe⟩
        · exact ⟨q, hq, hqe⟩
        · rw [h₁] at hqe; cases hqe
          exact (i1 _).mp (List.contains_iff_mem.mp hc)
    · simp only [hc, Bool.false_eq_true, if_false, List.mem_cons]
      rw [i1]
      constructor
      · rintro (rfl | ⟨q, hq, hqe⟩)
        · exact ⟨p, Or.inr rfl, h₁⟩
        · exact ⟨q, Or.inl hq, hqe⟩
      · rintro ⟨q, hq | rfl, hqe⟩
        · exact Or.inr ⟨q, hq, hqe⟩
        · rw [h₁] at hqe; cases hqe; exact Or.inl rfl
  · intro c
    simp only [List.mem_append, List.mem_singleton]
    by_cases hc : t.classes2.contains c₂ = true
    · simp only [hc, if_true]
      rw [i2]
      constructor
      · rintro ⟨q, hq, hqe⟩; exact ⟨q, Or.inl hq, hqe⟩
      · rintro ⟨q, hq | rfl, hqe⟩
        · exact ⟨q, hq, hqe⟩
        · rw [h₂] at hqe; cases hqe
          exact (i2 _).mp (List.contains_iff_mem.mp hc)
    · simp only [hc, Bool.false_eq_true, if_false, List.mem_cons]
      rw [i2]
      constructor
      · rintro (rfl | ⟨q, hq, hqe⟩)
        · exact ⟨p, Or.inr rfl, h₂⟩
        · exact ⟨q, Or.inl hq, hqe⟩
      · rintro ⟨q, hq | rfl, hqe⟩
        · exact Or.inr ⟨q, hq, hqe⟩
        · rw [h₂] at hqe; cases hqe; exact Or.inl rfl
  · intro a b q
    rw [List.mem_cons, i3, List.mem_append, List.mem_singleton]
    constructor
    · rintro (heq | ⟨hq, ha, hb⟩)
      · cases heq; exact ⟨Or.inr rfl, h₁, h₂⟩
      · exact ⟨Or.inl hq, ha, hb⟩
    · rintro ⟨hq | rfl, ha, hb⟩
      · exact Or.inr ⟨hq, ha, hb⟩
      · rw [h₁] at ha; rw [h₂] at hb; cases ha; cases hb; exact Or.inl rfl

theorem fold_single (rest : List EPair) : ∀ (seen : List EPair) (t : ClassSub),
    AllCC (seen ++ rest) → Compat (seen ++ rest) → Inv t seen →
    ∃ t', rest.foldl stepCls [t] = [t'] ∧ Inv t' (seen ++ rest) := by
  induction rest with
  | nil => intro seen t _ _ hinv; exact ⟨t, rfl, by simpa using hinv⟩
  | cons p rest ih =>
    intro seen t hall hcompat hinv
    obtain ⟨c₁, c₂, h₁, h₂⟩ := hall p (by simp)
    have hp : p ∈ seen ++ p :: rest := by simp
    have hadd₁ : canAdd t.classes1 c₁ = true := by
      apply canAdd_of_compat
      intro c' hc' g hg hg'
      obtain ⟨q, hq, hqe⟩ := (hinv.1 c').mp hc'
      exact hcompat.1 q (List.mem_append_left _ hq) p hp c' c₁ hqe h₁ g hg' hg
    have hadd₂ : canAdd t.classes2 c₂ = true := by
      apply canAdd_of_compat
      intro c' hc' g hg hg'
      obtain ⟨q, hq, hqe⟩ := (hinv.2.1 c').mp hc'
      exact hcompat.2 q (List.mem_append_left _ hq) p hp c' c₂ hqe h₂ g hg' hg
    have hstep : stepCls [t] p =
        [{ classes1 := if t.classes1.contains c₁ then t.classes1 else c₁ :: t.classes1
           classes2 := if t.classes2.contains c₂ then t.classes2 else c₂ :: t.classes2
           items := ((c₁, c₂), p) :: t.items }] := by
      unfold stepCls
      rw [h₁, h₂]
      simp only [insertClasses, hadd₁, hadd₂, Bool.and_self, if_true]
    rw [List.foldl_cons, hstep]
    have hassoc : seen ++ p :: rest = (seen ++ [p]) ++ rest := by simp
    rw [hassoc] at hall hcompat ⊢
    exact ih (seen ++ [p]) _ hall hcompat (inv_insert t seen p c₁ c₂ h₁ h₂ hinv)

theorem classSubs_single (ccs : List EPair) (hall : AllCC ccs) (hcompat : Compat ccs) :
    (ccs = [] ∧ classSubs ccs = []) ∨ ∃ t, classSubs ccs = [t] ∧ Inv t ccs := by
  cases ccs with
  | nil => exact Or.inl ⟨rfl, rfl⟩
  | cons p rest =>
    right
    obtain ⟨c₁, c₂, h₁, h₂⟩ := hall p (by simp)
    let t₀ : ClassSub := { classes1 := [c₁], classes2 := [c₂], items := [((c₁, c₂), p)] }
    have hstep : stepCls [] p = [t₀] := by
      unfold stepCls
      rw [h₁, h₂]
      rfl
    have hinv₀ : Inv t₀ [p] := by
      refine ⟨?_, ?_, ?_⟩
      · intro c
        simp only [t₀, List.mem_singleton]
        constructor
        · rintro rfl; exact ⟨p, rfl, h₁⟩
        · rintro ⟨q, rfl, hq⟩; rw [h₁] at hq; cases hq; rfl
      · intro c
        simp only [t₀, List.mem_singleton]
        constructor
        · rintro rfl; exact ⟨p, rfl, h₂⟩
        · rintro ⟨q, rfl, hq⟩; rw [h₂] at hq; cases hq; rfl
      · intro a b q
        simp only [t₀, List.mem_singleton]
        constructor
        · intro heq; cases heq; exact ⟨rfl, h₁, h₂⟩
        · rintro ⟨rfl, ha, hb⟩; rw [h₁] at ha; rw [h₂] at hb; cases ha; cases hb; rfl
    obtain ⟨t', hfold, hinv'⟩ := fold_single rest [p] t₀ (by simpa using hall) (by simpa using hcompat) hinv₀
    refine ⟨t', ?_, by simpa using hinv'⟩
    rw [classSubs_eq, List.foldl_cons, hstep, hfold]
    rfl

theorem covers_cls (c : List Nat) (g : Nat) : (Emit.cls c).covers g = true ↔ g ∈ c := by
  simp [Emit.covers]

theorem covers_glyph (a g : Nat) : (Emit.glyph a).covers g = true ↔ a = g := by
  simp [Emit.covers]

/-- What the class subtables return on compatible classes: the value of a pair whose classes contain both glyphs,
    or nothing/zero when there is no such pair. -/
theorem classStage_spec (ccs : List EPair) (hall : AllCC ccs) (hcompat : Compat ccs) (i g₁ g₂ : Nat) :
    (((classSubs ccs).findSome? (fun t => t.eval i g₁ g₂) = none ∨
      (classSubs ccs).findSome? (fun t => t.eval i g₁ g₂) = some 0) ∧
      ∀ p ∈ ccs, ¬ (p.e₁.covers g₁ = true ∧ p.e₂.covers g₂ = true)) ∨
    (∃ p ∈ ccs, p.e₁.covers g₁ = true ∧ p.e₂.covers g₂ = true ∧
      (classSubs ccs).findSome? (fun t => t.eval i g₁ g₂) = some (p.roundedAt i)) := by
  rcases classSubs_single ccs hall hcompat with ⟨rfl, hnil⟩ | ⟨t, ht, i1, i2, i3⟩
  · left
    rw [hnil]
    exact ⟨Or.inl rfl, by simp⟩
  · rw [ht]
    have hone : [t].findSome? (fun t => t.eval i g₁ g₂) = t.eval i g₁ g₂ := by
      cases h : t.eval i g₁ g₂ <;> simp [List.findSome?, h]
    rw [hone]
    unfold ClassSub.eval
    cases hf₁ : t.classes1.find? (·.contains g₁) with
    | none =>
      left
      refine ⟨Or.inl rfl, ?_⟩
      rintro p hp ⟨hc₁, _⟩
      obtain ⟨c₁, c₂, h₁, h₂⟩ := hall p hp
      rw [h₁, covers_cls] at hc₁
      have hm : c₁ ∈ t.classes1 := (i1 c₁).mpr ⟨p, hp, h₁⟩
      have := (List.find?_eq_none.mp hf₁) c₁ hm
      exact this (List.contains_iff_mem.mpr hc₁)
    | some c₁ =>
      have hc₁m : c₁ ∈ t.classes1 := List.mem_of_find?_eq_some hf₁
      have hg₁c : c₁.contains g₁ = true := @List.find?_some _ (fun x : List Nat => x.contains g₁) c₁ t.classes1 hf₁
      have hg₁ : g₁ ∈ c₁ := List.contains_iff_mem.mp hg₁c
      obtain ⟨q₁, hq₁, hq₁e⟩ := (i1 c₁).mp hc₁m
      simp only
      cases hf₂ : t.classes2.find? (·.contains g₂) with
      | none =>
        left
        refine ⟨Or.inr rfl, ?_⟩
        rintro p hp ⟨_, hc₂⟩
        obtain ⟨a, b, h₁, h₂⟩ := hall p hp
        rw [h₂, covers_cls] at hc₂
        have hm : b ∈ t.classes2 := (i2 b).mpr ⟨p, hp, h₂⟩
        have := (List.find?_eq_none.mp hf₂) b hm
        exact this (List.contains_iff_mem.mpr hc₂)
      | some c₂ =>
        have hc₂m : c₂ ∈ t.classes2 := List.mem_of_find?_eq_some hf₂
        have hg₂c : c₂.contains g₂ = true := @List.find?_some _ (fun x : List Nat => x.contains g₂) c₂ t.classes2 hf₂
        have hg₂ : g₂ ∈ c₂ := List.contains_iff_mem.mp hg₂c
        obtain ⟨q₂, hq₂, hq₂e⟩ := (i2 c₂).mp hc₂m
        simp only
        cases hl : t.items.lookup (c₁, c₂) with
        | some p =>
          right
          obtain ⟨hp, hp₁, hp₂⟩ := (i3 c₁ c₂ p).mp (lookup_mem _ _ _ hl)
          exact ⟨p, hp, by rw [hp₁, covers_cls]; exact hg₁, by rw [hp₂, covers_cls]; exact hg₂, rfl⟩
        | none =>
          left
          refine ⟨Or.inr rfl, ?_⟩
          rintro p hp ⟨hc₁, hc₂⟩
          obtain ⟨a, b, h₁, h₂⟩ := hall p hp
          rw [h₁, covers_cls] at hc₁
          rw [h₂, covers_cls] at hc₂
          have ha : a = c₁ := hcompat.1 p hp q₁ hq₁ a c₁ h₁ hq₁e g₁ hc₁ hg₁
          have hb : b = c₂ := hcompat.2 p hp q₂ hq₂ b c₂ h₂ hq₂e g₂ hc₂ hg₂
          subst ha hb
          have hm : ((a, b), p) ∈ t.items := (i3 a b p).mpr ⟨hp, h₁, h₂⟩
          exact lookup_none _ _ hl p hm

/-! ### decomposition of the UFO cascade -/

theorem ufoLookup_eq (s : Source) (hv : s.valid = true) (g₁ g₂ : Nat) :
    ufoLookup s g₁ g₂ = firstHit s.kerns
      [ some (.glyph g₁, .glyph g₂), optPair (some (.glyph g₁)) (G2of s g₂),
        optPair (G1of s g₁) (some (.glyph g₂)), optPair (G1of s g₁) (G2of s g₂) ] := by
  simp only [Source.valid, Bool.and_eq_true] at hv
  unfold ufoLookup G1of G2of Source.groupOf Source.groups
  rw [groupOfLast_eq_first s.groups1 hv.1 g₁, groupOfLast_eq_first s.groups2 hv.2 g₂]

theorem ufoLookup_eq_ufoCG (s : Source) (hv : s.valid = true) (g₁ g₂ : Nat)
    (h₁ : s.kerns.lookup (.glyph g₁, .glyph g₂) = none)
    (h₂ : ∀ H, s.groupOf .second g₂ = some H → s.kerns.lookup (.glyph g₁, .group H) = none) :
    ufoLookup s g₁ g₂ = ufoCG s g₁ g₂ := by
  rw [ufoLookup_eq s hv]
  unfold ufoCG
  simp only [firstHit, h₁]
  unfold G2of
  cases hg : s.groupOf .second g₂ with
  | none => simp [optPair, firstHit]
  | some H => simp [optPair, firstHit, h₂ H hg]

theorem ufoCG_eq_ufoCC (s : Source) (g₁ g₂ : Nat)
    (h : ∀ G, s.groupOf .first g₁ = some G → s.kerns.lookup (.group G, .glyph g₂) = none) :
    ufoCG s g₁ g₂ = ufoCC s g₁ g₂ := by
  unfold ufoCG ufoCC G1of
  cases hg : s.groupOf .first g₁ with
  | none => simp [optPair, firstHit]
  | some G => simp [optPair, firstHit, h G hg]

theorem otRound_zero : otRound 0 = 0 := by decide +kernel

theorem roundedAt_of_getElem? (p : EPair) (i : Nat) (v : Rat) (h : p.vals[i]? = some v) :
    p.roundedAt i = otRound v := by
  unfold EPair.roundedAt
  rw [List.getD_eq_getElem?_getD, h]
  rfl

/-! ### the main theorem, from compatibility of the emitted classes -/

theorem evalPairs_correct_of_compat (srcs : List Source) (hvalid : ∀ s ∈ srcs, s.valid = true)
    (hC : Compat (build srcs)) (i : Nat) (s : Source) (hs : srcs[i]? = some s) (g₁ g₂ : Nat) :
    evalPairs (build srcs) i g₁ g₂ = otRound (ufoLookup s g₁ g₂) := by
  have hsm : s ∈ srcs := List.mem_of_getElem? hs
  have hv := hvalid s hsm
  -- consequences of "no emitted glyph/glyph pair for (g₁, g₂)"
  have noGG : (∀ p ∈ build srcs, ¬ (p.e₁ = .glyph g₁ ∧ p.e₂ = .glyph g₂)) →
      ufoLookup s g₁ g₂ = ufoCG s g₁ g₂ := by
    intro h
    apply ufoLookup_eq_ufoCG s hv
    · cases hl : s.kerns.lookup (KSide.glyph g₁, KSide.glyph g₂) with
      | none => rfl
      | some v =>
        obtain ⟨p, hp, h₁, h₂⟩ := complete_gg srcs s hsm g₁ g₂ v (lookup_mem _ _ _ hl)
        exact absurd ⟨h₁, h₂⟩ (h p hp)
    · intro H hH
      cases hl : s.kerns.lookup (KSide.glyph g₁, KSide.group H) with
      | none => rfl
      | some v =>
        obtain ⟨p, hp, h₁, h₂⟩ := complete_gG srcs s hsm g₁ g₂ H v (lookup_mem _ _ _ hl)
          (mem_allMembers_of_groupOf srcs s hsm .second g₂ H hH)
        exact absurd ⟨h₁, h₂⟩ (h p hp)
  have noCG : (∀ p ∈ build srcs, ∀ c, ¬ (p.e₁ = .cls c ∧ g₁ ∈ c ∧ p.e₂ = .glyph g₂)) →
      ufoCG s g₁ g₂ = ufoCC s g₁ g₂ := by
    intro h
    apply ufoCG_eq_ufoCC
    intro G hG
    cases hl : s.kerns.lookup (KSide.group G, KSide.glyph g₂) with
    | none => rfl
    | some v =>
      obtain ⟨p, hp, c, h₁, hgc, h₂⟩ := complete_Gg srcs s hsm G g₁ g₂ v (lookup_mem _ _ _ hl)
        (mem_allMembers_of_groupOf srcs s hsm .first g₁ G hG)
      exact absurd ⟨h₁, hgc, h₂⟩ (h p hp c)
  unfold evalPairs
  simp only
  generalize hP : (fun p : EPair => !p.isCC && p.e₁.covers g₁ && p.e₂.covers g₂) = P
  have hPdef : ∀ p, P p = (!p.isCC && p.e₁.covers g₁ && p.e₂.covers g₂) := by intro p; rw [← hP]
  cases hf : (ordered (build srcs)).find? P with
  | some p =>
    simp only
    have hpo : p ∈ ordered (build srcs) := List.mem_of_find?_eq_some hf
    have hpb : p ∈ build srcs := ((mem_ordered _ p).mp hpo).1
    have hPp : P p = true := List.find?_some hf
    rw [hPdef] at hPp
    simp only [Bool.and_eq_true, Bool.not_eq_true'] at hPp
    obtain ⟨⟨hncc, hc₁⟩, hc₂⟩ := hPp
    cases he₁ : p.e₁ with
    | glyph a =>
      rw [he₁, covers_glyph] at hc₁
      subst hc₁
      obtain ⟨b, he₂⟩ := e₂_glyph_of_e₁_glyph srcs p hpb a he₁
      rw [he₂, covers_glyph] at hc₂
      subst hc₂
      rw [roundedAt_of_getElem? p i _ (val_gg srcs p hpb a b he₁ he₂ i s hs), lookup_eq_ufoLookup s hv]
    | cls c =>
      rw [he₁, covers_cls] at hc₁
      have he₂ : ∃ b, p.e₂ = .glyph b := by
        cases h : p.e₂ with
        | glyph b => exact ⟨b, rfl⟩
        | cls c' => simp [EPair.isCC, he₁, h, Emit.isCls] at hncc
      obtain ⟨b, he₂⟩ := he₂
      rw [he₂, covers_glyph] at hc₂
      subst hc₂
      -- no glyph/glyph pair can exist: it would sort before `p`
      have hnogg : ∀ q ∈ build srcs, ¬ (q.e₁ = .glyph g₁ ∧ q.e₂ = .glyph b) := by
        rintro q hq ⟨hq₁, hq₂⟩
        have hqo : q ∈ ordered (build srcs) := by
          rw [mem_ordered]
          exact ⟨hq, by simp [EPair.isCC, hq₁, Emit.isCls]⟩
        have hPq : P q = true := by
          rw [hPdef]
          simp [EPair.isCC, hq₁, hq₂, Emit.isCls, Emit.covers]
        rcases find?_pairwise_min _ P _ (ordered_pairwise (build srcs)) p hf q hqo hPq with rfl | hr
        · rw [hq₁] at he₁; cases he₁
        · simp [rank, he₁, hq₁, Emit.isCls] at hr
      rw [roundedAt_of_getElem? p i _ (val_cg_of_mem srcs p hpb c g₁ b he₁ hc₁ he₂ i s hs), noGG hnogg]
  | none =>
    simp only
    have hnone : ∀ q ∈ build srcs, q.isCC = false → ¬ (q.e₁.covers g₁ = true ∧ q.e₂.covers g₂ = true) := by
      rintro q hq hqcc ⟨h₁, h₂⟩
      have hqo : q ∈ ordered (build srcs) := by
        rw [mem_ordered]; exact ⟨hq, by simp [hqcc]⟩
      have := (List.find?_eq_none.mp hf) q hqo
      rw [hPdef] at this
      simp [hqcc, h₁, h₂] at this
    have hnogg : ∀ p ∈ build srcs, ¬ (p.e₁ = .glyph g₁ ∧ p.e₂ = .glyph g₂) := by
      rintro q hq ⟨hq₁, hq₂⟩
      exact hnone q hq (by simp [EPair.isCC, hq₁, Emit.isCls]) ⟨by simp [hq₁, Emit.covers], by simp [hq₂, Emit.covers]⟩
    have hnocg : ∀ p ∈ build srcs, ∀ c, ¬ (p.e₁ = .cls c ∧ g₁ ∈ c ∧ p.e₂ = .glyph g₂) := by
      rintro q hq c ⟨hq₁, hgc, hq₂⟩
      exact hnone q hq (by simp [EPair.isCC, hq₂, Emit.isCls])
        ⟨by rw [hq₁, covers_cls]; exact hgc, by simp [hq₂, Emit.covers]⟩
    rw [noGG hnogg, noCG hnocg]
    -- the class stage
    have hccmem : ∀ p, p ∈ (ordered (build srcs)).filter (·.isCC) ↔
        p ∈ build srcs ∧ (p.isCC && p.allZero) = false ∧ p.isCC = true := by
      intro p
      rw [List.mem_filter, mem_ordered]
      exact ⟨fun ⟨⟨a, b⟩, c⟩ => ⟨a, b, c⟩, fun ⟨a, b, c⟩ => ⟨⟨a, b⟩, c⟩⟩
    have hall : AllCC ((ordered (build srcs)).filter (·.isCC)) := by
      intro p hp
      have hcc := ((hccmem p).mp hp).2.2
      unfold EPair.isCC at hcc
      cases h₁ : p.e₁ <;> cases h₂ : p.e₂ <;> simp [h₁, h₂, Emit.isCls] at hcc
      exact ⟨_, _, rfl, rfl⟩
    have hcompat : Compat ((ordered (build srcs)).filter (·.isCC)) :=
      hC.sublist (fun p hp => ((hccmem p).mp hp).1)
    rcases classStage_spec _ hall hcompat i g₁ g₂ with ⟨hr, hno⟩ | ⟨p, hp, hc₁, hc₂, hr⟩
    · -- nothing covers both glyphs: the value is 0, and so is the rounded class/class value of the source
      have hzero : otRound (ufoCC s g₁ g₂) = 0 := by
        unfold ufoCC G1of G2of
        cases hG : s.groupOf .first g₁ with
        | none => simp [optPair, firstHit, otRound_zero]
        | some G =>
          cases hH : s.groupOf .second g₂ with
          | none => simp [optPair, firstHit, otRound_zero]
          | some H =>
            simp only [Option.map, optPair, firstHit]
            cases hl : s.kerns.lookup (KSide.group G, KSide.group H) with
            | none => exact otRound_zero
            | some v =>
              simp only
              obtain ⟨u₁, hu₁, u₂, hu₂, c₁, c₂, he₁, he₂, hg₁, hg₂, hor⟩ :=
                complete_GG srcs s hsm G H g₁ g₂ v (lookup_mem _ _ _ hl)
                  (mem_allMembers_of_groupOf srcs s hsm .first g₁ G hG)
                  (mem_allMembers_of_groupOf srcs s hsm .second g₂ H hH)
              have hval := unit_pair_val srcs G H u₁ u₂ hu₁ hu₂ c₁ c₂ he₁ he₂ g₁ g₂ hg₁ hg₂ i s hs
              have hcc : ufoCC s g₁ g₂ = v := by
                unfold ufoCC G1of G2of
                rw [hG, hH]
                simp [optPair, firstHit, hl]
              rw [hcc] at hval
              have hvmem : v ∈ resolveUnits srcs u₁ u₂ := List.mem_of_getElem? hval
              rcases hor with hin | hz
              · by_cases hdrop : ((⟨.cls c₁, .cls c₂, resolveUnits srcs u₁ u₂⟩ : EPair).isCC &&
                    (⟨.cls c₁, .cls c₂, resolveUnits srcs u₁ u₂⟩ : EPair).allZero) = true
                · simp only [EPair.isCC, Emit.isCls, Bool.and_self, Bool.true_and, EPair.allZero,
                    List.all_eq_true] at hdrop
                  have := hdrop v hvmem
                  exact of_decide_eq_true (by simpa using this)
                · exfalso
                  apply hno ⟨.cls c₁, .cls c₂, resolveUnits srcs u₁ u₂⟩
                  · rw [hccmem]
                    exact ⟨hin, by simpa using hdrop, by simp [EPair.isCC, Emit.isCls]⟩
                  · exact ⟨by rw [covers_cls]; exact hg₁, by rw [covers_cls]; exact hg₂⟩
              · have := (List.all_eq_true.mp hz) v hvmem
                have hv0 : v = 0 := by simpa using this
                rw [hv0]; exact otRound_zero
      rw [hzero]
      rcases hr with hr | hr <;> rw [hr]
    · rw [hr]
      simp only
      have hpb := ((hccmem p).mp hp).1
      obtain ⟨c₁, c₂, h₁, h₂⟩ := hall p hp
      rw [h₁, covers_cls] at hc₁
      rw [h₂, covers_cls] at hc₂
      rw [roundedAt_of_getElem? p i _ (val_cc_of_mem srcs p hpb c₁ c₂ g₁ g₂ h₁ hc₁ h₂ hc₂ i s hs)]

theorem evalPairs_correct (srcs : List Source) (hvalid : ∀ s ∈ srcs, s.valid = true)
    (hK : KernedWhereDivergent srcs) (i : Nat) (s : Source) (hs : srcs[i]? = some s) (g₁ g₂ : Nat) :
    evalPairs (build srcs) i g₁ g₂ = otRound (ufoLookup s g₁ g₂) :=
  evalPairs_correct_of_compat srcs hvalid (compat_build srcs hK) i s hs g₁ g₂

/-! ### colliding insertions carry equal values -/

theorem vals_eq_of_same_emits (srcs : List Source) (p q : EPair) (hp : p ∈ build srcs) (hq : q ∈ build srcs)
    (h₁ : p.e₁ = q.e₁) (h₂ : p.e₂ = q.e₂) : p.vals = q.vals := by
  apply List.ext_getElem?
  intro i
  cases hs : srcs[i]? with
  | none =>
    have hlen : srcs.length ≤ i := by
      rcases Nat.lt_or_ge i srcs.length with h | h
      · rw [List.getElem?_eq_getElem h] at hs; cases hs
      · exact h
    rw [List.getElem?_eq_none (by rw [vals_length_of_mem_build srcs p hp]; exact hlen),
        List.getElem?_eq_none (by rw [vals_length_of_mem_build srcs q hq]; exact hlen)]
  | some s =>
    cases he₁ : p.e₁ with
    | glyph a =>
      obtain ⟨b, he₂⟩ := e₂_glyph_of_e₁_glyph srcs p hp a he₁
      rw [val_gg srcs p hp a b he₁ he₂ i s hs, val_gg srcs q hq a b (by rw [← h₁, he₁]) (by rw [← h₂, he₂]) i s hs]
    | cls c =>
      obtain ⟨G, u, hu, hue⟩ := e₁_cls_unit srcs p hp c he₁
      obtain ⟨c', hc', hne, _, _⟩ := unitsFor_group_spec srcs .first G u hu
      rw [hue] at hc'; cases hc'
      obtain ⟨g₁, hg₁⟩ := List.exists_mem_of_ne_nil c hne
      cases he₂ : p.e₂ with
      | glyph b =>
        rw [val_cg_of_mem srcs p hp c g₁ b he₁ hg₁ he₂ i s hs,
            val_cg_of_mem srcs q hq c g₁ b (by rw [← h₁, he₁]) hg₁ (by rw [← h₂, he₂]) i s hs]
      | cls d =>
        obtain ⟨H, u₂, hu₂, hue₂⟩ := e₂_cls_unit srcs p hp d he₂
        obtain ⟨d', hd', hne₂, _, _⟩ := unitsFor_group_spec srcs .second H u₂ hu₂
        rw [hue₂] at hd'; cases hd'
        obtain ⟨g₂, hg₂⟩ := List.exists_mem_of_ne_nil d hne₂
        rw [val_cc_of_mem srcs p hp c d g₁ g₂ he₁ hg₁ he₂ hg₂ i s hs,
            val_cc_of_mem srcs q hq c d g₁ g₂ (by rw [← h₁, he₁]) hg₁ (by rw [← h₂, he₂]) hg₂ i s hs]

end Fontc.Kern
