/-
  C20 — a `.glyphspackage` reassembles to the single-file value (value level).
-/
import FontcModel.Plist
import FontcProofs.PlistCanon
namespace Fontc.Plist
set_option linter.unusedSimpArgs false
set_option linter.unusedVariables false

theorem lookup_eraseKV (k : Key) (m : List (Key × PVal)) (j : Key) :
    lookupKV j (eraseKV k m) = if j == k then none else lookupKV j m := by
  induction m with
  | nil => simp [eraseKV, lookupKV]
  | cons kv m ih =>
    obtain ⟨k', v'⟩ := kv
    simp only [eraseKV]
    split
    · next h =>
      simp at h; subst h
      simp only [lookupKV, ih]
      split <;> rfl
    · next h =>
      simp only [lookupKV, ih]
      by_cases hj : (j == k') = true
      · have : (j == k) = false := by
          simp at hj; subst hj; simp at h ⊢; exact fun e => h e.symm
        simp [hj, this]
      · simp [hj]

theorem mem_eraseKV {k : Key} {m : List (Key × PVal)} {kv : Key × PVal} (h : kv ∈ eraseKV k m) : kv ∈ m := by
  induction m with
  | nil => simp [eraseKV] at h
  | cons kv' m ih =>
    obtain ⟨k', v'⟩ := kv'
    simp only [eraseKV] at h
    split at h
    · exact List.mem_cons_of_mem _ (ih h)
    · simp at h
      rcases h with h | h
      · simp [h]
      · exact List.mem_cons_of_mem _ (ih h)

theorem sorted_eraseKV (k : Key) (m : List (Key × PVal)) (hm : sortedKeys m = true) :
    sortedKeys (eraseKV k m) = true := by
  induction m with
  | nil => rfl
  | cons kv m ih =>
    obtain ⟨k', v'⟩ := kv
    obtain ⟨hgt, hs⟩ := sortedKeys_cons.1 hm
    simp only [eraseKV]
    split
    · exact ih hs
    · exact sortedKeys_cons.2 ⟨fun kv hkv => hgt kv (mem_eraseKV hkv), ih hs⟩

/-- putting the `glyphs` entry back into the dictionary it was cut out of -/
theorem insert_erase (k : Key) (v : PVal) (m : List (Key × PVal)) (hm : sortedKeys m = true)
    (hk : lookupKV k m = some v) : insertKV k v (eraseKV k m) = m := by
  apply sorted_ext (sorted_insertKV _ _ _ (sorted_eraseKV k m hm)) hm
  intro j
  rw [lookup_insertKV, lookup_eraseKV]
  by_cases hj : (j == k) = true
  · simp at hj; subst hj; simp [hk]
  · simp [hj]

/-! ### the glyph files -/

theorem namesOf_cons {g : PVal} {gs : List PVal} {names : List Key} (h : namesOf (g :: gs) = some names) :
    ∃ n ns, glyphName? g = some n ∧ namesOf gs = some ns ∧ names = n :: ns := by
  simp only [namesOf] at h
  split at h
  · next n ns h1 h2 => simp at h; exact ⟨n, ns, h1, h2, h.symm⟩
  · cases h

theorem namesOf_mem {gs : List PVal} {names : List Key} (h : namesOf gs = some names) :
    ∀ g ∈ gs, ∃ n, glyphName? g = some n ∧ n ∈ names := by
  induction gs generalizing names with
  | nil => intro g hg; simp at hg
  | cons g0 gs ih =>
    obtain ⟨n, ns, h1, h2, rfl⟩ := namesOf_cons h
    intro g hg
    simp at hg
    rcases hg with rfl | hg
    · exact ⟨n, h1, by simp⟩
    · obtain ⟨n', e, hm⟩ := ih h2 g hg
      exact ⟨n', e, by simp [hm]⟩

/-- distinct names: the name determines the glyph -/
theorem namesOf_inj {gs : List PVal} {names : List Key} (h : namesOf gs = some names) (hnd : names.Nodup) :
    ∀ g ∈ gs, ∀ g' ∈ gs, glyphName? g = glyphName? g' → g = g' := by
  induction gs generalizing names with
  | nil => intro g hg; simp at hg
  | cons g0 gs ih =>
    obtain ⟨n, ns, h1, h2, rfl⟩ := namesOf_cons h
    simp at hnd
    intro g hg g' hg' he
    simp at hg hg'
    rcases hg with rfl | hg <;> rcases hg' with rfl | hg'
    · rfl
    · obtain ⟨n', e, hm⟩ := namesOf_mem h2 g' hg'
      rw [h1, e] at he; simp at he; subst he; exact absurd hm hnd.1
    · obtain ⟨n', e, hm⟩ := namesOf_mem h2 g hg
      rw [h1, e] at he; simp at he; subst he; exact absurd hm hnd.1
    · exact ih h2 hnd.2 g hg g' hg' he

/-- what `collectGlyphs` builds: the glyph of each name that occurs, else what was there -/
theorem collectGlyphs_lookup (f : List PVal) (hname : ∀ g ∈ f, (glyphName? g).isSome)
    (hinj : ∀ g ∈ f, ∀ g' ∈ f, glyphName? g = glyphName? g' → g = g') :
    ∀ m, ∃ m', collectGlyphs f m = some m' ∧
      ∀ n, lookupKV n m' = (match f.find? (fun g => glyphName? g == some n) with
                           | some g => some g
                           | none => lookupKV n m) := by
  induction f with
  | nil => intro m; exact ⟨m, rfl, fun n => rfl⟩
  | cons g f ih =>
    intro m
    have hg := hname g (by simp)
    cases hn : glyphName? g with
    | none => simp [hn] at hg
    | some ng =>
      obtain ⟨m', hc, hl⟩ := ih (fun x hx => hname x (by simp [hx]))
        (fun x hx y hy => hinj x (by simp [hx]) y (by simp [hy])) (insertKV ng g m)
      refine ⟨m', by simp [collectGlyphs, hn, hc], ?_⟩
      intro n
      rw [hl n]
      simp only [List.find?, hn]
      by_cases hnn : (ng == n) = true
      · simp at hnn; subst hnn
        simp only [beq_self_eq_true]
        cases hf : f.find? (fun g => glyphName? g == some ng) with
        | none => simp [lookup_insertKV]
        | some g' =>
          have hmem := List.mem_of_find?_eq_some hf
          have hp := List.find?_some hf
          simp at hp
          have := hinj g (by simp) g' (by simp [hmem]) (by rw [hn, hp])
          simp [this]
      · have : (some ng == some n) = false := by simpa using hnn
        simp only [this]
        cases hf : f.find? (fun g => glyphName? g == some n) with
        | none =>
          simp only [lookup_insertKV]
          have : (n == ng) = false := by simp at hnn ⊢; exact fun e => hnn e.symm
          simp [this]
        | some g' => rfl

/-- taking the glyphs in `order.plist` order empties the map -/
theorem takeOrdered_all (gs : List PVal) (names : List Key) (hn : namesOf gs = some names) (hnd : names.Nodup) :
    ∀ m, (∀ g ∈ gs, ∀ n, glyphName? g = some n → lookupKV n m = some g) →
      (∀ k, lookupKV k m ≠ none → k ∈ names) →
      takeOrdered (names.map .str) m = some (gs, []) := by
  induction gs generalizing names with
  | nil =>
    intro m _ hk
    simp [namesOf] at hn; subst hn
    cases m with
    | nil => rfl
    | cons kv m =>
      obtain ⟨k, v⟩ := kv
      have := hk k (by simp [lookupKV])
      simp at this
  | cons g gs ih =>
    obtain ⟨n, ns, h1, h2, rfl⟩ := namesOf_cons hn
    simp at hnd
    intro m hl hk
    simp only [List.map_cons, takeOrdered, hl g (by simp) n h1]
    rw [ih ns h2 hnd.2 (eraseKV n m)]
    · intro g' hg' n' hn'
      rw [lookup_eraseKV]
      have hne : (n' == n) = false := by
        obtain ⟨n'', e, hm⟩ := namesOf_mem h2 g' hg'
        rw [hn'] at e; simp at e; subst e
        simp; intro e; subst e; exact hnd.1 hm
      simp [hne, hl g' (by simp [hg']) n' hn']
    · intro k hk'
      rw [lookup_eraseKV] at hk'
      by_cases hkn : (k == n) = true
      · simp [hkn] at hk'
      · simp [hkn] at hk'
        have := hk k hk'
        simp at this hkn
        rcases this with rfl | h
        · exact absurd rfl hkn
        · exact h

/-- **a package reassembles to the single file** (value level): cut the `glyphs` array out of the top-level
    dictionary, put every glyph into its own file, list the names in `order.plist`; whatever order the
    directory listing returns the files in, `load_package` rebuilds the same value -/
theorem package_reassembly (kvs : List (Key × PVal)) (gs : List PVal) (names : List Key) (files : List PVal)
    (hsorted : sortedKeys kvs = true) (hglyphs : lookupKV kGlyphs kvs = some (.arr gs))
    (hnames : namesOf gs = some names) (hnd : names.Nodup) (hfiles : files.Perm gs) :
    split (.dict kvs) = some ⟨.dict (eraseKV kGlyphs kvs), some (.arr (names.map .str)), gs⟩ ∧
    reassemble ⟨.dict (eraseKV kGlyphs kvs), some (.arr (names.map .str)), files⟩ = some (.dict kvs) := by
  refine ⟨by simp [split, hglyphs, hnames], ?_⟩
  have hinj := namesOf_inj hnames hnd
  have hmem := namesOf_mem hnames
  obtain ⟨m, hc, hl⟩ := collectGlyphs_lookup files
    (fun g hg => by obtain ⟨n, e, _⟩ := hmem g (hfiles.mem_iff.1 hg); simp [e])
    (fun g hg g' hg' => hinj g (hfiles.mem_iff.1 hg) g' (hfiles.mem_iff.1 hg')) []
  have hto := takeOrdered_all gs names hnames hnd m
    (by
      intro g hg n hn
      rw [hl n]
      have hgf : g ∈ files := hfiles.mem_iff.2 hg
      cases hf : files.find? (fun g => glyphName? g == some n) with
      | none =>
        have := List.find?_eq_none.1 hf g hgf
        simp [hn] at this
      | some g' =>
        have hp := List.find?_some hf
        simp at hp
        have := hinj g' (hfiles.mem_iff.1 (List.mem_of_find?_eq_some hf)) g hg (by rw [hp, hn])
        simp [this])
    (by
      intro k hk
      rw [hl k] at hk
      cases hf : files.find? (fun g => glyphName? g == some k) with
      | none => simp [hf, lookupKV] at hk
      | some g' =>
        have hp := List.find?_some hf
        simp at hp
        obtain ⟨n, e, hm⟩ := hmem g' (hfiles.mem_iff.1 (List.mem_of_find?_eq_some hf))
        rw [hp] at e; simp at e; subst e; exact hm)
  simp only [reassemble, hc, hto, List.map_nil, List.append_nil]
  rw [insert_erase kGlyphs (.arr gs) kvs hsorted hglyphs]

end Fontc.Plist
