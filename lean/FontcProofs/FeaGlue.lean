/-
  C11 glue: if the lookups of the tables correspond, in order, to the lookups of the source and act
  alike on every string, and the same ones are active, then `shape` and `interp` agree.
  Also: the two left-to-right passes are the same function.
-/
import FontcModel.FeaCompile

namespace Fontc.FeaCompile

theorem OT.pass_eq_src (ign : Glyph → Bool) (st : Step) (rev suf : List Glyph) :
    OT.pass ign st rev suf = Src.pass ign st rev suf := by
  fun_induction OT.pass ign st rev suf <;> rw [Src.pass] <;> simp_all <;> (intro h; omega)

theorem OT.ppass_eq_src (ign : Glyph → Bool) (st : PStep) (rev suf : List PGlyph) :
    OT.ppass ign st rev suf = Src.ppass ign st rev suf := by
  fun_induction OT.ppass ign st rev suf <;> rw [Src.ppass] <;> simp_all <;> (intro h; omega)

/-- a pass only depends on the values of the ignore predicate and of the step -/
theorem Src.pass_congr (ign ign' : Glyph → Bool) (st st' : Step) (hi : ∀ g, ign g = ign' g)
    (hs : ∀ rev g suf, st rev g suf = st' rev g suf) (rev suf : List Glyph) :
    Src.pass ign st rev suf = Src.pass ign' st' rev suf := by
  have h1 : ign = ign' := funext hi
  have h2 : st = st' := by funext rev g suf; exact hs rev g suf
  rw [h1, h2]

theorem Src.ppass_congr (ign ign' : Glyph → Bool) (st st' : PStep) (hi : ∀ g, ign g = ign' g)
    (hs : ∀ rev g suf, st rev g suf = st' rev g suf) (rev suf : List PGlyph) :
    Src.ppass ign st rev suf = Src.ppass ign' st' rev suf := by
  have h1 : ign = ign' := funext hi
  have h2 : st = st' := by funext rev g suf; exact hs rev g suf
  rw [h1, h2]

/-- folding over table indices = folding over the corresponding source lookups -/
theorem foldl_lookups_eq {α β L : Type} (lookups : List L) (applyT : L → β → β) (applyS : α → β → β)
    (pairs : List (α × Nat))
    (h : ∀ x ∈ pairs, ∃ l, lookups[x.2]? = some l ∧ ∀ s, applyT l s = applyS x.1 s) (s : β) :
    (pairs.map (·.2)).foldl (OT.applyAtIdx lookups applyT) s
      = (pairs.map (·.1)).foldl (fun s e => applyS e s) s := by
  induction pairs generalizing s with
  | nil => rfl
  | cons x xs ih =>
    obtain ⟨l, hl, hs⟩ := h x (by simp)
    simp only [List.map_cons, List.foldl_cons, OT.applyAtIdx, hl, hs]
    exact ih (fun y hy => h y (by simp [hy])) _

/-- **Glue.**  `gs` / `ps` pair every substitution / positioning lookup of the source that is active
    for the request with the index of its image in the GSUB / GPOS lookup list. -/
theorem shape_eq_interp_of (p : Program) (t : OT.Tables) (script lang : Tag) (feats : List Tag) (alt : Nat)
    (gs ps : List (Src.Entry × Nat))
    (hgs : gs.map (·.1) = ((Src.entries p).filter (·.active script lang feats)).filter (!·.lookup.isPos))
    (hps : ps.map (·.1) = ((Src.entries p).filter (·.active script lang feats)).filter (·.lookup.isPos))
    (hga : OT.activeLookups t.gsub script lang feats = gs.map (·.2))
    (hpa : OT.activeLookups t.gpos script lang feats = ps.map (·.2))
    (hg : ∀ x ∈ gs, ∃ l, t.gsub.lookups[x.2]? = some l ∧
      ∀ s, OT.applyGsub t alt l s = Src.applyGsub p.gdef alt (Src.envOf (Src.entries p)) x.1.lookup s)
    (hp : ∀ x ∈ ps, ∃ l, t.gpos.lookups[x.2]? = some l ∧
      ∀ s, OT.applyGpos t l s = Src.applyGpos p.gdef x.1.lookup s)
    (s : List Glyph) :
    shape t script lang feats alt s = interp p script lang feats alt s := by
  simp only [shape, interp, hga, hpa]
  rw [foldl_lookups_eq t.gsub.lookups (OT.applyGsub t alt)
      (fun (e : Src.Entry) s => Src.applyGsub p.gdef alt (Src.envOf (Src.entries p)) e.lookup s) gs hg,
    foldl_lookups_eq t.gpos.lookups (OT.applyGpos t)
      (fun (e : Src.Entry) s => Src.applyGpos p.gdef e.lookup s) ps hp, hgs, hps]

end Fontc.FeaCompile
