/-
  C11 simulation, general part 5: the invariant of the walk through a feature block with lookup
  blocks, lookup references and `script` / `language` statements, and the statement steps.
-/
import FontcProofs.FeaGenOut
import FontcProofs.FeaActive

namespace Fontc.FeaCompile
open Cmp
set_option linter.unusedSimpArgs false

def regScript : Src.Reg → Tag
  | .root => "DFLT"
  | .script s => s
  | .lang s _ => s

structure GenInv (fx : Fixes) (U : List (List Glyph)) (tag : Tag) (dls : List Sys) (s0 : St)
    (w : Src.Walk) (s : St) (evs : List Ev) (ids : List LookupId) (used : List String) : Prop where
  rel : RunRel fx w.cur w.flag s
  normFlag : FlagNorm w.flag
  normCur : ∀ reg f rules, w.cur = some (reg, f, rules) → FlagNorm f
  reg : w.reg = regAfter .root evs
  curReg : ∀ reg f rules, w.cur = some (reg, f, rules) → reg = w.reg
  script : s.script.getD "DFLT" = regScript w.reg
  o : OutInv fx U tag dls s0 w.out s evs ids used

/-- the language systems a statement enters -/
def stmtSys1 (cur : Tag) : Stmt → List (Sys × Bool)
  | .script t => [((t, "dflt"), false)]
  | .language l ex => [((cur, l), ex)]
  | _ => []

def scriptAfterStmt (cur : Tag) : Stmt → Tag
  | .script t => t
  | _ => cur

def stmtSys (cur : Tag) : List Stmt → List (Sys × Bool)
  | [] => []
  | st :: rest => stmtSys1 cur st ++ stmtSys (scriptAfterStmt cur st) rest

theorem sysEvs_snoc_item (evs : List Ev) (id : LookupId) : sysEvs (evs ++ [.item id]) = sysEvs evs := by
  simp [sysEvs_append, sysEvs]

theorem sysEvs_snoc_sys (evs : List Ev) (s : Sys) (ex : Bool) : sysEvs (evs ++ [.sys s ex]) = sysEvs evs ++ [(s, ex)] := by
  simp [sysEvs_append, sysEvs]

/-- flushing the run in progress -/
theorem gen_flush (fx : Fixes) (U : List (List Glyph)) (tag : Tag) (dls : List Sys) (s0 : St)
    (w : Src.Walk) (s : St) (evs : List Ev) (ids : List LookupId) (used : List String)
    (h : GenInv fx U tag dls s0 w s evs ids used) :
    ∃ evs' ids', GenInv fx U tag dls s0 w.flush s.finishAndAdd evs' ids' used ∧ sysEvs evs' = sysEvs evs ∧
      s.finishAndAdd.cur = none ∧ w.flush.cur = none ∧ SameCtx s s.finishAndAdd ∧
      w.flush.reg = w.reg ∧ w.flush.flag = w.flag := by
  obtain ⟨hctx, hcur, hfl⟩ := finishAndAdd_spec s h.o.ctx.1
  obtain ⟨c1, c2, c3, c4, c5, c6, c7, c8⟩ := hctx
  have hflagcode : FlagCode s.finishAndAdd.attachIds s.finishAndAdd.filterIds s.finishAndAdd.flag w.flag := by
    rw [c3, c4, c5]; exact h.rel.1
  cases hwc : w.cur with
  | none =>
    have hsc : s.cur = none := by have := h.rel.2; rw [hwc] at this; exact this
    simp only [Flushed, hsc] at hfl
    have hg : Grew s s.finishAndAdd := ⟨⟨[], by simp [hfl.1]⟩, ⟨[], by simp [hfl.2.1]⟩, ⟨[], by simp [c4]⟩, ⟨[], by simp [c5]⟩⟩
    have hwf : w.flush = w := by simp [Src.Walk.flush, hwc]
    refine ⟨evs, ids, ?_, rfl, hcur, by rw [hwf]; exact hwc, ⟨c1, c2, c3, c4, c5, c6, c7, c8⟩, by rw [hwf], by rw [hwf]⟩
    rw [hwf]
    exact {
      rel := ⟨hflagcode, by rw [hwc]; exact hcur⟩
      normFlag := h.normFlag
      normCur := h.normCur
      reg := h.reg
      curReg := h.curReg
      script := by rw [c7]; exact h.script
      o := h.o.same hg c2 hfl.2.2 c1 c6 c8 (by unfold IdsInv; rw [c4, c5]; exact h.o.idsInv) (by rw [c4]; exact h.o.attachU) }
  | some p =>
    obtain ⟨reg, f, rules⟩ := p
    have hreg : reg = w.reg := h.curReg reg f rules hwc
    subst hreg
    have hem := flush_emits fx w.reg f rules w.flag s s.finishAndAdd (by have := h.rel; rw [hwc] at this; exact this) hfl
    obtain ⟨id, ho⟩ := h.o.emit f rules hem ⟨c1, c2, c3, c4, c5, c6, c7, c8⟩
    have hwf : w.flush = { w with cur := none, out := w.out ++ [(w.reg, .defn ⟨none, f, rules⟩)] } := by
      simp [Src.Walk.flush, hwc]
    refine ⟨evs ++ [.item id], ids ++ [id], ?_, sysEvs_snoc_item evs id, hcur, by rw [hwf], ⟨c1, c2, c3, c4, c5, c6, c7, c8⟩,
      by rw [hwf], by rw [hwf]⟩
    rw [hwf]
    exact {
      rel := ⟨hflagcode, hcur⟩
      normFlag := h.normFlag
      normCur := by simp
      reg := by
        simp only [regAfter_append, regAfter]
        exact h.reg
      curReg := by simp
      script := by rw [c7]; exact h.script
      o := by rw [h.reg]; exact ho }


/-- `lookupflag` -/
theorem gen_flag (fx : Fixes) (U : List (List Glyph)) (tag : Tag) (dls : List Sys) (s0 : St)
    (w : Src.Walk) (s : St) (evs : List Ev) (ids : List LookupId) (used : List String) (f : Flag)
    (h : GenInv fx U tag dls s0 w s evs ids used) (hnf : FlagNorm f) (hU : ∀ c, f.attach = some c → sortedSet c ∈ U) :
    GenInv fx U tag dls s0 (Src.walkStmt w (.flag f)) (s.stmt fx (.flag f)) evs ids used := by
  obtain ⟨hrel, hids, ⟨a', ha', hall⟩, ⟨f', hf'⟩, hg, hp, hcn, hn, hl, hact, hsc, hfe⟩ := flag_step fx w s f h.rel h.o.idsInv
  have hgrew : Grew s (s.setLookupFlag f) := ⟨⟨[], by simp [hg]⟩, ⟨[], by simp [hp]⟩, ⟨a', ha'⟩, ⟨f', hf'⟩⟩
  simp only [Src.walkStmt, St.stmt]
  exact {
    rel := hrel
    normFlag := hnf
    normCur := h.normCur
    reg := h.reg
    curReg := h.curReg
    script := by rw [hsc]; exact h.script
    o := h.o.same hgrew hn hact hcn hl hfe hids (by
      intro c hc
      rw [ha'] at hc
      rcases List.mem_append.mp hc with h1 | h1
      · exact h.o.attachU c h1
      · have := hall c h1
        cases hfa : f.attach with
        | none => simp [hfa] at this
        | some c0 => simp [hfa] at this; subst this; exact hU c0 hfa) }

/-- a rule statement -/
theorem gen_rule (fx : Fixes) (U : List (List Glyph)) (tag : Tag) (dls : List Sys) (s0 : St)
    (w : Src.Walk) (s : St) (evs : List Ev) (ids : List LookupId) (used : List String) (r : Rule)
    (h : GenInv fx U tag dls s0 w s evs ids used)
    (hmix : ∀ reg f rules, w.cur = some (reg, f, rules) → f = w.flag → Wf.mixes (headKind rules) r.kind = false) :
    ∃ evs' ids', GenInv fx U tag dls s0 (Src.walkStmt w (.rule r)) (s.stmt fx (.rule r)) evs' ids' used ∧
      sysEvs evs' = sysEvs evs := by
  obtain ⟨hrel, hctx, hreg, hflag, hout⟩ := rule_step fx w s r h.rel h.o.idsInv h.normFlag h.normCur hmix
  simp only [St.stmt]
  obtain ⟨c1, c2, c3, c4, c5, c6, c7, c8⟩ := hctx
  have hnormCur : ∀ reg f rules, (Src.walkStmt w (.rule r)).cur = some (reg, f, rules) → FlagNorm f := by
    intro reg f rules hh
    simp only [Src.walkStmt] at hh
    cases hw : w.cur with
    | none => simp [hw] at hh; rw [← hh.2.1]; exact h.normFlag
    | some p =>
      obtain ⟨reg0, f0, rules0⟩ := p
      simp only [hw] at hh
      split at hh
      · simp at hh; rw [← hh.2.1]; exact h.normCur reg0 f0 rules0 hw
      · simp [Src.Walk.flush, hw] at hh; rw [← hh.2.1]; exact h.normFlag
  have hcurReg : ∀ reg f rules, (Src.walkStmt w (.rule r)).cur = some (reg, f, rules) → reg = (Src.walkStmt w (.rule r)).reg := by
    intro reg f rules hh
    rw [hreg]
    simp only [Src.walkStmt] at hh
    cases hw : w.cur with
    | none => simp [hw] at hh; rw [← hh.1]
    | some p =>
      obtain ⟨reg0, f0, rules0⟩ := p
      simp only [hw] at hh
      split at hh
      · simp at hh; rw [← hh.1]; exact h.curReg reg0 f0 rules0 hw
      · simp [Src.Walk.flush, hw] at hh; rw [← hh.1]
  rcases hout with ⟨hout, hg, hp, hact⟩ | ⟨reg, f, rules, hw, hout, hem⟩
  · have hgrew : Grew s (s.addRule fx r) := ⟨⟨[], by simp [hg]⟩, ⟨[], by simp [hp]⟩, ⟨[], by simp [c4]⟩, ⟨[], by simp [c5]⟩⟩
    refine ⟨evs, ids, ?_, rfl⟩
    exact {
      rel := hrel
      normFlag := by rw [hflag]; exact h.normFlag
      normCur := hnormCur
      reg := hreg.trans h.reg
      curReg := hcurReg
      script := by rw [c7, hreg]; exact h.script
      o := by
        rw [hout]
        exact h.o.same hgrew c2 hact c1 c6 c8 (by unfold IdsInv; rw [c4, c5]; exact h.o.idsInv) (by rw [c4]; exact h.o.attachU) }
  · have hregw : reg = w.reg := h.curReg reg f rules hw
    subst hregw
    obtain ⟨id, ho⟩ := h.o.emit f rules hem ⟨c1, c2, c3, c4, c5, c6, c7, c8⟩
    refine ⟨evs ++ [.item id], ids ++ [id], ?_, sysEvs_snoc_item evs id⟩
    exact {
      rel := hrel
      normFlag := by rw [hflag]; exact h.normFlag
      normCur := hnormCur
      reg := by
        rw [hreg]
        simp only [regAfter_append, regAfter]
        exact h.reg
      curReg := hcurReg
      script := by rw [c7, hreg]; exact h.script
      o := by rw [hout, h.reg]; exact ho }

/-- a reference to a named lookup -/
theorem gen_ref (fx : Fixes) (U : List (List Glyph)) (tag : Tag) (dls : List Sys) (s0 : St)
    (w : Src.Walk) (s : St) (evs : List Ev) (ids : List LookupId) (used : List String) (n : String)
    (h : GenInv fx U tag dls s0 w s evs ids used) (hn : n ∈ used) :
    ∃ evs' ids', GenInv fx U tag dls s0 (Src.walkStmt w (.ref n)) (s.stmt fx (.ref n)) evs' ids' used ∧
      sysEvs evs' = sysEvs evs := by
  obtain ⟨id, hs', ho⟩ := h.o.ref n hn
  simp only [St.stmt, Src.walkStmt, hs']
  refine ⟨evs ++ [.item id], ids ++ [id], ?_, sysEvs_snoc_item evs id⟩
  exact {
    rel := h.rel
    normFlag := h.normFlag
    normCur := h.normCur
    reg := by
      simp only [regAfter_append, regAfter]
      exact h.reg
    curReg := h.curReg
    script := h.script
    o := by rw [h.reg]; exact ho }


theorem curSys_fold (evs : List Ev) (a : Active) :
    (evs.foldl evStep a).curSys = match (sysEvs evs).getLast? with | none => a.curSys | some x => some x.1 := by
  induction evs generalizing a with
  | nil => rfl
  | cons e evs ih =>
    cases e with
    | item id =>
      simp only [List.foldl_cons, evStep, sysEvs]
      rw [ih]
      have : (a.addLookup id).curSys = a.curSys := by
        simp only [Active.addLookup]
        split
        · split <;> rfl
        · rfl
      rw [this]
    | sys s ex =>
      simp only [List.foldl_cons, evStep, sysEvs]
      rw [ih]
      have : (a.setSystem s ex).curSys = some s := by simp [Active.setSystem]
      rw [this]
      cases hq : sysEvs evs with
      | nil => simp
      | cons y ys =>
        rw [List.getLast?_cons_cons]
        cases hq2 : (y :: ys).getLast? with
        | none => simp at hq2
        | some z => rfl

theorem curSys_a0 (evs : List Ev) (tag : Tag) (dls : List Sys) : (evs.foldl evStep (a0 tag dls)).curSys = curOf evs := by
  rw [curSys_fold, curOf]
  cases (sysEvs evs).getLast? <;> rfl

/-- `finish_current` does not look at the script or the flag in force -/
theorem finishAndAdd_script_flag (s : St) (sc : Option Tag) (fl : CFlag) :
    ({ s with script := sc, flag := fl } : St).finishAndAdd = { s.finishAndAdd with script := sc, flag := fl } := by
  obtain ⟨gsub, gpos, cur, curName, named, flag, aIds, fIds, ls, active, script, features⟩ := s
  cases cur with
  | none => cases curName <;> cases active <;> simp [St.finishAndAdd, St.finishCurrent, St.addToFeature]
  | some p =>
    obtain ⟨cf, b⟩ := p
    by_cases hpos : b.kind.isPos = true
    · cases curName <;> cases active <;> simp [St.finishAndAdd, St.finishCurrent, push_eq, hpos, St.addToFeature]
    · cases curName <;> cases active <;> simp [St.finishAndAdd, St.finishCurrent, push_eq, hpos, St.addToFeature]

theorem flagCode_empty (A F : List (List Glyph)) : FlagCode A F (0, none) {} :=
  ⟨0, 0, by simp [flagBits], by simp, by simp⟩

/-- `script t;` -/
theorem gen_script (fx : Fixes) (U : List (List Glyph)) (tag : Tag) (dls : List Sys) (s0 : St)
    (w : Src.Walk) (s : St) (evs : List Ev) (ids : List LookupId) (used : List String) (t : Tag)
    (h : GenInv fx U tag dls s0 w s evs ids used) (hnot : w.reg ≠ .script t) :
    ∃ evs' ids', GenInv fx U tag dls s0 (Src.walkStmt w (.script t)) (s.stmt fx (.script t)) evs' ids' used ∧
      sysEvs evs' = sysEvs evs ++ [((t, "dflt"), false)] := by
  have hcond : ((s.active.bind (·.curSys)) == some (t, "dflt")) = false := by
    rw [h.o.active]
    simp only [Option.bind_some, curSys_a0]
    rw [Bool.eq_false_iff]
    intro e
    have e' := beq_iff_eq.mp e
    apply hnot
    rw [h.reg, regAfter_root, e']
    simp [regOfCur, regOfSys]
  obtain ⟨evs1, ids1, h1, hsys1, hcur1, hwcur1, hctx1, hwreg1, hwflag1⟩ := gen_flush fx U tag dls s0 w s evs ids used h
  have hstate : s.stmt fx (.script t) =
      { s.finishAndAdd with script := some t, flag := (0, none),
                            active := s.finishAndAdd.active.map (·.setSystem (t, "dflt") false) } := by
    simp only [St.stmt, hcond, Bool.false_eq_true, ↓reduceIte, St.setScriptLanguage, St.clearFlags]
    rw [finishAndAdd_script_flag]
  have hwalk : Src.walkStmt w (.script t) = { w.flush with reg := .script t, flag := {} } := rfl
  rw [hstate, hwalk]
  refine ⟨evs1 ++ [.sys (t, "dflt") false], ids1, ?_, by rw [sysEvs_snoc_sys, hsys1]⟩
  have ho := h1.o.sys (t, "dflt") false
  exact {
    rel := ⟨flagCode_empty _ _, by rw [hwcur1]; exact hcur1⟩
    normFlag := ⟨by simp, by simp⟩
    normCur := by intro reg f rules hh; rw [hwcur1] at hh; cases hh
    reg := by simp [regAfter_append, regAfter, regOfSys]
    curReg := by intro reg f rules hh; rw [hwcur1] at hh; cases hh
    script := rfl
    o := ho.same (Grew.refl _) rfl rfl rfl rfl rfl ho.idsInv ho.attachU }

/-- `language l;` -/
theorem gen_language (fx : Fixes) (U : List (List Glyph)) (tag : Tag) (dls : List Sys) (s0 : St)
    (w : Src.Walk) (s : St) (evs : List Ev) (ids : List LookupId) (used : List String) (l : Tag) (ex : Bool)
    (h : GenInv fx U tag dls s0 w s evs ids used) :
    ∃ evs' ids', GenInv fx U tag dls s0 (Src.walkStmt w (.language l ex)) (s.stmt fx (.language l ex)) evs' ids' used ∧
      sysEvs evs' = sysEvs evs ++ [((regScript w.reg, l), ex)] := by
  obtain ⟨evs1, ids1, h1, hsys1, hcur1, hwcur1, hctx1, hwreg1, hwflag1⟩ := gen_flush fx U tag dls s0 w s evs ids used h
  have hstate : s.stmt fx (.language l ex) =
      { s.finishAndAdd with active := s.finishAndAdd.active.map (·.setSystem (regScript w.reg, l) ex) } := by
    simp only [St.stmt, St.setScriptLanguage, h.script]
  have hwalk : Src.walkStmt w (.language l ex) = { w.flush with reg := regOfSys (regScript w.reg, l) } := by
    simp only [Src.walkStmt, regOfSys, hwreg1]
    cases w.reg <;> rfl
  rw [hstate, hwalk]
  refine ⟨evs1 ++ [.sys (regScript w.reg, l) ex], ids1, ?_, by rw [sysEvs_snoc_sys, hsys1]⟩
  have ho := h1.o.sys (regScript w.reg, l) ex
  exact {
    rel := ⟨by have := h1.rel.1; rw [hwflag1] at this ⊢; exact this, by rw [hwcur1]; exact hcur1⟩
    normFlag := by rw [hwflag1]; exact h.normFlag
    normCur := by intro reg f rules hh; rw [hwcur1] at hh; cases hh
    reg := by simp [regAfter_append, regAfter]
    curReg := by intro reg f rules hh; rw [hwcur1] at hh; cases hh
    script := by
      show s.finishAndAdd.script.getD "DFLT" = regScript (regOfSys (regScript w.reg, l))
      rw [hctx1.2.2.2.2.2.2.1, h.script]
      simp only [regOfSys]
      split <;> rfl
    o := ho }


theorem getLast_cons_getD {α : Type} (f f0 : α) (fl : List α) : (f :: fl).getLast?.getD f0 = fl.getLast?.getD f := by
  cases fl with
  | nil => rfl
  | cons x xs =>
    rw [List.getLast?_cons_cons]
    cases hq : (x :: xs).getLast? with
    | none => simp at hq
    | some y => rfl

theorem blockFlag_shape (f : Flag) (fl : List Flag) (rs : List Rule) :
    Src.blockFlag f (fl.map BStmt.flag ++ rs.map BStmt.rule) = fl.getLast?.getD f := by
  induction fl generalizing f with
  | nil => cases rs <;> simp [Src.blockFlag]
  | cons f' fl ih => simp only [List.map_cons, List.cons_append, Src.blockFlag, ih, getLast_cons_getD]

theorem blockFlagAfter_rules (f : Flag) (rs : List Rule) : Src.blockFlagAfter f (rs.map BStmt.rule) = f := by
  induction rs with
  | nil => rfl
  | cons r rs ih => simpa [Src.blockFlagAfter] using ih

theorem blockFlagAfter_shape (f : Flag) (fl : List Flag) (rs : List Rule) :
    Src.blockFlagAfter f (fl.map BStmt.flag ++ rs.map BStmt.rule) = fl.getLast?.getD f := by
  induction fl generalizing f with
  | nil => simpa using blockFlagAfter_rules f rs
  | cons f' fl ih => simp only [List.map_cons, List.cons_append, Src.blockFlagAfter, ih, getLast_cons_getD]

theorem blockRules_shape (fl : List Flag) (rs : List Rule) :
    Src.blockRules (fl.map BStmt.flag ++ rs.map BStmt.rule) = rs := by
  induction fl with
  | nil =>
    induction rs with
    | nil => rfl
    | cons r rs ih => simpa [Src.blockRules] using ih
  | cons f' fl ih => simpa [Src.blockRules] using ih

theorem getLast_getD_mem {α : Type} (P : α → Prop) (f0 : α) (fl : List α) (h0 : P f0) (h : ∀ f ∈ fl, P f) :
    P (fl.getLast?.getD f0) := by
  cases hq : fl.getLast? with
  | none => exact h0
  | some y => exact h y (List.mem_of_getLast? hq)

/-- `resolve_lookup_block` inside a feature block, in terms of its parts -/
theorem lookupBlock_in_feature (fx : Fixes) (s : St) (n : String) (body : List BStmt) (a a4 : Active) (s4 : St) (id : LookupId)
    (ha : s.finishAndAdd.active = some a)
    (hfin : (body.foldl (St.blockStmt fx) { s.finishAndAdd with curName := some n }).finishCurrent = (s4, some id))
    (hact4 : s4.active = some a4) (hid : id ≠ .empty) :
    s.lookupBlock fx n body = { s4 with active := some (a4.addLookup id) } := by
  have e1 : (if s.finishAndAdd.active.isNone then s.finishAndAdd.clearFlags else s.finishAndAdd) = s.finishAndAdd := by
    rw [ha]; rfl
  unfold St.lookupBlock
  simp only []
  rw [e1, hfin]
  simp only [hact4, Option.isSome_some, ↓reduceIte, St.addToFeature]

/-- a lookup block inside a feature block -/
theorem gen_lookup (fx : Fixes) (U : List (List Glyph)) (tag : Tag) (dls : List Sys) (s0 : St)
    (w : Src.Walk) (s : St) (evs : List Ev) (ids : List LookupId) (used : List String)
    (n : String) (fl : List Flag) (rs : List Rule) (k : Kind)
    (h : GenInv fx U tag dls s0 w s evs ids used)
    (hfl : ∀ f ∈ fl, FlagNorm f ∧ ∀ c, f.attach = some c → sortedSet c ∈ U)
    (hk : ∀ r ∈ rs, r.kind = k) (hne : rs ≠ []) (hname : n ∉ used) :
    ∃ evs' ids', GenInv fx U tag dls s0 (Src.walkStmt w (.lookup n (fl.map .flag ++ rs.map .rule)))
        (s.stmt fx (.lookup n (fl.map .flag ++ rs.map .rule))) evs' ids' (n :: used) ∧
      sysEvs evs' = sysEvs evs := by
  obtain ⟨evs1, ids1, h1, hsys1, hcur1, hwcur1, hctx1, hwreg1, hwflag1⟩ := gen_flush fx U tag dls s0 w s evs ids used h
  obtain ⟨c1, c2, c3, c4, c5, c6, c7, c8⟩ := hctx1
  have hact1 := h1.o.active
  have hfc : FlagCode s.finishAndAdd.attachIds s.finishAndAdd.filterIds s.finishAndAdd.flag w.flag := by
    have := h1.rel.1; rwa [hwflag1] at this
  obtain ⟨s4, id, ls, hfin, hid, hcomp, hplace, hnamed, hcur4, hcn4, hfc4, hidsInv4, hattU4, ⟨a, ha⟩, ⟨ff, hff⟩, hls4, hact4, hsc4, hfe4⟩ :=
    block_core fx U n fl rs k hfl hk hne { s.finishAndAdd with curName := some n } w.flag hcur1 rfl h1.o.idsInv h1.o.attachU hfc
  simp only at hid hplace hnamed ha hff hls4 hact4 hsc4 hfe4
  have hidne : id ≠ .empty := by rw [hid]; split <;> simp
  have hstate : s.stmt fx (.lookup n (fl.map .flag ++ rs.map .rule)) = { s4 with active := addIdToActive s4.active id } := by
    simp only [St.stmt]
    rw [lookupBlock_in_feature fx s n _ _ _ s4 id hact1 hfin (hact4.trans hact1) hidne]
    simp only [addIdToActive, hact4, hact1, Option.map_some]
  have hwalk : Src.walkStmt w (.lookup n (fl.map .flag ++ rs.map .rule)) =
      { w.flush with out := w.flush.out ++ [(w.flush.reg, .defn ⟨some n, fl.getLast?.getD w.flag, rs⟩)],
                     flag := fl.getLast?.getD w.flag } := by
    simp only [Src.walkStmt, blockFlag_shape, blockFlagAfter_shape, blockRules_shape, hwflag1]
  rw [hstate, hwalk]
  refine ⟨evs1 ++ [.item id], ids1 ++ [id], ?_, by rw [sysEvs_snoc_item, hsys1]⟩
  have hposlen : 0 < ls.length := List.length_pos_iff.mpr (compiledRun_ls_ne hcomp)
  have hgrew : Grew s.finishAndAdd { s4 with active := addIdToActive s4.active id } := by
    by_cases hpos : k.isPos = true
    · simp only [hpos, ↓reduceIte] at hplace
      exact ⟨⟨[], by simp [hplace.2]⟩, ⟨ls, hplace.1⟩, ⟨a, ha⟩, ⟨ff, hff⟩⟩
    · simp only [hpos, Bool.false_eq_true, ↓reduceIte] at hplace
      exact ⟨⟨ls, hplace.1⟩, ⟨[], by simp [hplace.2]⟩, ⟨a, ha⟩, ⟨ff, hff⟩⟩
  have ho := h1.o.named (s' := { s4 with active := addIdToActive s4.active id }) n (fl.getLast?.getD w.flag) rs id ls hname hgrew
    hnamed (by simp only [hact4]) hcomp
    (by
      by_cases hpos : k.isPos = true
      · simp only [hpos, ↓reduceIte] at hplace hid
        rw [hid]; exact ⟨s.finishAndAdd.gpos, [], by simp [hplace.1], rfl⟩
      · simp only [hpos, Bool.false_eq_true, ↓reduceIte] at hplace hid
        rw [hid]; exact ⟨s.finishAndAdd.gsub, [], by simp [hplace.1], rfl⟩)
    (by
      by_cases hpos : k.isPos = true
      · simp only [hpos, ↓reduceIte] at hplace hid
        rw [hid]; simp only [idBelow, hplace.1, List.length_append]; omega
      · simp only [hpos, Bool.false_eq_true, ↓reduceIte] at hplace hid
        rw [hid]; simp only [idBelow, hplace.1, List.length_append]; omega)
    (by rw [hid]; split <;> simp [idBelow])
    (by
      intro x hx
      rw [hid]
      split <;> cases x <;> simp_all [idLt, idBelow])
    hcn4 hls4 hfe4 hidsInv4 hattU4
  exact {
    rel := by
      refine ⟨hfc4, ?_⟩
      simp only [hwcur1]
      exact hcur4
    normFlag := getLast_getD_mem FlagNorm w.flag fl h.normFlag (fun f hf => (hfl f hf).1)
    normCur := by intro reg f rules hh; rw [hwcur1] at hh; cases hh
    reg := by
      simp only [regAfter_append, regAfter]
      exact h1.reg
    curReg := by intro reg f rules hh; rw [hwcur1] at hh; cases hh
    script := by
      show s4.script.getD "DFLT" = regScript w.flush.reg
      rw [hsc4]; exact h1.script
    o := by
      show OutInv fx U tag dls s0 (w.flush.out ++ [(w.flush.reg, .defn ⟨some n, fl.getLast?.getD w.flag, rs⟩)]) _ _ _ _
      rw [h1.reg]; exact ho }

end Fontc.FeaCompile
