/-
  C10, coverage: every source pair (attaching anchor × mark glyph with the matching `_name`) is carried by exactly
  one emitted lookup, with exactly these two anchors.
-/
import FontcModel.Marks
import FontcProofs.VarModelSort

namespace Fontc.Marks
open Fontc

variable {α : Type}

/-! ### list lemmas -/

/-- In a list with pairwise distinct keys, filtering a `flatMap` by the key of a member leaves that member's part. -/
theorem filter_flatMap_key {β γ : Type} (key : β → Nat) (P : List β) (hP : (P.map key).Pairwise (· ≠ ·))
    (f : β → List (Nat × γ)) (hf : ∀ g, ∀ x ∈ f g, x.1 = key g) (m : β) (hm : m ∈ P) :
    (P.flatMap f).filter (fun x => x.1 == key m) = f m := by
  induction P with
  | nil => cases hm
  | cons g rest ih =>
    simp only [List.map_cons, List.pairwise_cons] at hP
    simp only [List.flatMap_cons, List.filter_append]
    have hrest_none : ∀ k, (∀ g' ∈ rest, key g' ≠ k) → (rest.flatMap f).filter (fun x => x.1 == k) = [] := by
      intro k hk
      rw [List.filter_eq_nil_iff]
      intro x hx
      obtain ⟨g', hg', hx'⟩ := List.mem_flatMap.mp hx
      have := hf g' x hx'
      simp only [beq_iff_eq]
      rw [this]; exact hk g' hg'
    rcases List.mem_cons.mp hm with rfl | hmem
    · have h1 : (f m).filter (fun x => x.1 == key m) = f m := by
        rw [List.filter_eq_self]; intro x hx; simp [hf m x hx]
      rw [h1, hrest_none (key m) (fun g' hg' h => hP.1 (key g') (List.mem_map.mpr ⟨g', hg', rfl⟩) h.symm)]
      simp
    · have hne : key g ≠ key m := hP.1 (key m) (List.mem_map.mpr ⟨m, hmem, rfl⟩)
      have h1 : (f g).filter (fun x => x.1 == key m) = [] := by
        rw [List.filter_eq_nil_iff]; intro x hx; simp [hf g x hx, hne]
      rw [h1, ih hP.2 hmem]; simp

/-- With pairwise distinct keys, filtering by the key of a member returns exactly that member. -/
theorem filter_key_singleton {β κ : Type} [DecidableEq κ] (key : β → κ) (l : List β)
    (hl : (l.map key).Pairwise (· ≠ ·)) (a : β) (ha : a ∈ l) :
    l.filter (fun b => key b == key a) = [a] := by
  induction l with
  | nil => cases ha
  | cons b rest ih =>
    simp only [List.map_cons, List.pairwise_cons] at hl
    rcases List.mem_cons.mp ha with rfl | hmem
    · have : rest.filter (fun b => key b == key a) = [] := by
        rw [List.filter_eq_nil_iff]; intro x hx
        simp only [beq_iff_eq]
        exact fun h => hl.1 (key x) (List.mem_map.mpr ⟨x, hx, rfl⟩) h.symm
      simp [this]
    · have hne : key b ≠ key a := hl.1 (key a) (List.mem_map.mpr ⟨a, hmem, rfl⟩)
      simp [hne, ih hl.2 hmem]

/-- Exactly one element of a `filterMap` over a duplicate-free list satisfies `q`, if exactly one source does. -/
theorem filter_filterMap_length_one {β γ : Type} (L : List β) (hL : L.Nodup) (f : β → Option γ) (q : γ → Bool)
    (a : β) (ha : a ∈ L) (b : γ) (hfa : f a = some b) (hq : q b = true)
    (hother : ∀ a' ∈ L, a' ≠ a → ∀ b', f a' = some b' → q b' = false) :
    ((L.filterMap f).filter q).length = 1 := by
  induction L with
  | nil => cases ha
  | cons x xs ih =>
    rw [List.nodup_cons] at hL
    rcases List.mem_cons.mp ha with rfl | hmem
    · have hrest : (xs.filterMap f).filter q = [] := by
        rw [List.filter_eq_nil_iff]
        intro y hy
        obtain ⟨a', ha', hfa'⟩ := List.mem_filterMap.mp hy
        have hne : a' ≠ a := fun h => hL.1 (h ▸ ha')
        simp [hother a' (List.mem_cons_of_mem _ ha') hne y hfa']
      simp [hfa, hq, hrest]
    · have hne : x ≠ a := fun h => hL.1 (h ▸ hmem)
      have ih' := ih hL.2 hmem (fun a' ha' => hother a' (List.mem_cons_of_mem _ ha'))
      cases hfx : f x with
      | none => simpa [List.filterMap_cons, hfx] using ih'
      | some y =>
        have := hother x List.mem_cons_self hne y hfx
        simpa [List.filterMap_cons, hfx, List.filter_cons, this] using ih'

theorem filter_filterMap_nil {β γ : Type} (L : List β) (f : β → Option γ) (q : γ → Bool)
    (h : ∀ a ∈ L, ∀ b, f a = some b → q b = false) : (L.filterMap f).filter q = [] := by
  rw [List.filter_eq_nil_iff]
  intro y hy
  obtain ⟨a, ha, hfa⟩ := List.mem_filterMap.mp hy
  simp [h a ha y hfa]

/-- the running maximum of `maxLigIndex` -/
theorem foldl_max_some (xs : List Nat) (init : Option Nat) :
    (∀ j, init = some j → ∃ mx, xs.foldl (fun m i => some (match m with | none => i | some j => max i j)) init = some mx ∧
        j ≤ mx ∧ ∀ x ∈ xs, x ≤ mx) ∧
    (init = none → ∀ x ∈ xs, ∃ mx, xs.foldl (fun m i => some (match m with | none => i | some j => max i j)) init = some mx ∧
        ∀ x ∈ xs, x ≤ mx) := by
  induction xs generalizing init with
  | nil =>
    constructor
    · intro j hj; exact ⟨j, by simp [hj], Nat.le_refl _, by simp⟩
    · intro _ x hx; cases hx
  | cons y ys ih =>
    constructor
    · intro j hj
      subst hj
      simp only [List.foldl_cons]
      obtain ⟨mx, h1, h2, h3⟩ := (ih (some (max y j))).1 (max y j) rfl
      refine ⟨mx, h1, by omega, ?_⟩
      intro x hx
      rcases List.mem_cons.mp hx with rfl | hx
      · omega
      · exact h3 x hx
    · intro hn x _
      subst hn
      simp only [List.foldl_cons]
      obtain ⟨mx, h1, h2, h3⟩ := (ih (some y)).1 y rfl
      refine ⟨mx, h1, ?_⟩
      intro x hx
      rcases List.mem_cons.mp hx with rfl | hx
      · exact h2
      · exact h3 x hx

theorem maxLigIndex_ge (g : Glyph α) (a : Anchor α) (ha : a ∈ g.anchors) (i : Nat) (hi : a.kind.ligatureIndex? = some i) :
    ∃ mx, maxLigIndex g = some mx ∧ i ≤ mx := by
  have hmem : i ∈ g.anchors.filterMap (·.kind.ligatureIndex?) := List.mem_filterMap.mpr ⟨a, ha, hi⟩
  obtain ⟨mx, h1, h2⟩ := (foldl_max_some (g.anchors.filterMap (·.kind.ligatureIndex?)) none).2 rfl i hmem
  exact ⟨mx, h1, h2 i hmem⟩

/-! ### facts about the pruned glyph list -/

theorem pruned_gids (gs : List (Glyph α)) (h : (gs.map (·.gid)).Pairwise (· ≠ ·)) :
    ((pruned gs).map (·.gid)).Pairwise (· ≠ ·) := by
  unfold pruned
  refine List.Pairwise.sublist ?_ h
  refine List.Sublist.trans (List.Sublist.map _ List.filter_sublist) ?_
  rw [List.map_map]
  have : ((fun (g : Glyph α) => g.gid) ∘ fun (g : Glyph α) =>
      { g with anchors := g.anchors.filter (fun a => keepAnchor gs a.kind) }) = fun g => g.gid := rfl
  rw [this]
  exact List.Sublist.map _ List.filter_sublist

theorem mem_pruned (gs : List (Glyph α)) (g : Glyph α) (hg : g ∈ pruned gs) :
    ∃ g0 ∈ gs, g.gid = g0.gid ∧ g.cls = g0.cls ∧ g.anchors = g0.anchors.filter (fun a => keepAnchor gs a.kind) := by
  unfold pruned at hg
  obtain ⟨hg1, _⟩ := List.mem_filter.mp hg
  obtain ⟨g0, hg0, rfl⟩ := List.mem_map.mp hg1
  exact ⟨g0, (List.mem_filter.mp hg0).1, rfl, rfl, rfl⟩

theorem pruned_kinds (gs : List (Glyph α)) (h : ∀ g ∈ gs, (g.anchors.map (·.kind)).Pairwise (· ≠ ·))
    (g : Glyph α) (hg : g ∈ pruned gs) : (g.anchors.map (·.kind)).Pairwise (· ≠ ·) := by
  obtain ⟨g0, hg0, _, _, ha⟩ := mem_pruned gs g hg
  rw [ha]
  exact List.Pairwise.sublist (List.Sublist.map _ List.filter_sublist) (h g0 hg0)

theorem pruned_anchor_mem (gs : List (Glyph α)) (g : Glyph α) (hg : g ∈ pruned gs) (a : Anchor α) (ha : a ∈ g.anchors) :
    ∃ g0 ∈ gs, a ∈ g0.anchors := by
  obtain ⟨g0, hg0, _, _, hanch⟩ := mem_pruned gs g hg
  rw [hanch] at ha
  exact ⟨g0, hg0, (List.mem_filter.mp ha).1⟩

/-- a glyph with pairwise distinct anchor kinds has exactly one anchor of each kind it has -/
theorem anchorsOfKind_eq (g : Glyph α) (hk : (g.anchors.map (·.kind)).Pairwise (· ≠ ·)) (a : Anchor α) (ha : a ∈ g.anchors) :
    anchorsOfKind g a.kind = [a.val] := by
  unfold anchorsOfKind
  rw [filter_key_singleton (fun (x : Anchor α) => x.kind) g.anchors hk a ha]
  rfl

theorem lastFor_singleton {β : Type} (g : Nat) (v : β) (xs : List (Nat × β))
    (h : xs.filter (fun p => p.1 == g) = [(g, v)]) : lastFor xs g = some v := by
  simp [lastFor, h]

/-! ### group names -/

theorem groupNames_nodup (gs : List (Glyph α)) : (groupNames gs).Nodup := by
  unfold groupNames
  exact (List.Perm.nodup_iff (List.mergeSort_perm _ _)).mpr (VarModel.nodup_eraseDups _)

theorem mem_groupNames (gs : List (Glyph α)) (g : Glyph α) (hg : g ∈ pruned gs) (a : Anchor α) (ha : a ∈ g.anchors)
    (n : Name) (hn : a.kind.groupName? = some n) : n ∈ groupNames gs := by
  unfold groupNames
  rw [List.mem_mergeSort, List.mem_eraseDups, List.mem_filterMap]
  exact ⟨a, List.mem_flatMap.mpr ⟨g, hg, ha⟩, hn⟩

/-! ### what a source pair is -/

theorem mem_sourcePairs (gs : List (Glyph α)) (p : Pair α) (hp : p ∈ sourcePairs gs) :
    ∃ m ∈ pruned gs, isMarkGlyph gs m = true ∧ ∃ am ∈ m.anchors, am.kind = .mark p.name ∧ p.mark = m.gid ∧ p.markVal = am.val ∧
    ∃ g ∈ pruned gs, ∃ ag ∈ g.anchors, p.base = g.gid ∧ p.baseVal = ag.val ∧
      ((p.kind = .mkmk ∧ ag.kind = .base p.name ∧ isMarkGlyph gs g = true ∧ p.comp = 1) ∨
       (p.kind = .base ∧ ag.kind = .base p.name ∧ isMarkGlyph gs g = false ∧ treatAsBase gs g = true ∧ p.comp = 1) ∨
       (p.kind = .lig ∧ ag.kind = .ligature p.name p.comp ∧ mightBeLiga gs g = true)) := by
  unfold sourcePairs at hp
  simp only [List.mem_flatMap] at hp
  obtain ⟨m, hm, hp⟩ := hp
  split at hp
  · cases hp
  · rename_i hmark
    simp only [Bool.not_eq_true, Bool.not_eq_false'] at hmark
    simp only [List.mem_flatMap] at hp
    obtain ⟨am, ham, hp⟩ := hp
    split at hp
    · rename_i n hkm
      simp only [List.mem_flatMap, List.mem_filterMap] at hp
      obtain ⟨g, hg, ag, hag, hp⟩ := hp
      split at hp
      · rename_i n' hkg
        split at hp
        · cases hp
        · rename_i hnn
          have hnn' : n' = n := by simpa using hnn
          subst hnn'
          split at hp
          · rename_i hgm
            simp only [Option.some.injEq] at hp
            subst hp
            exact ⟨m, hm, hmark, am, ham, hkm, rfl, rfl, g, hg, ag, hag, rfl, rfl, Or.inl ⟨rfl, hkg, hgm, rfl⟩⟩
          · rename_i hgm
            split at hp
            · rename_i htb
              simp only [Option.some.injEq] at hp
              subst hp
              exact ⟨m, hm, hmark, am, ham, hkm, rfl, rfl, g, hg, ag, hag, rfl, rfl,
                Or.inr (Or.inl ⟨rfl, hkg, by simpa using hgm, htb, rfl⟩)⟩
            · cases hp
      · rename_i n' i hkg
        split at hp
        · rename_i hc
          simp only [Bool.and_eq_true, beq_iff_eq] at hc
          obtain ⟨rfl, hml⟩ := hc
          simp only [Option.some.injEq] at hp
          subst hp
          exact ⟨m, hm, hmark, am, ham, hkm, rfl, rfl, g, hg, ag, hag, rfl, rfl, Or.inr (Or.inr ⟨rfl, hkg, hml⟩)⟩
        · cases hp
      · cases hp
    · cases hp

/-! ### the emitted lookups, by (kind, name) -/

def msOf (gs : List (Glyph α)) : LKind → Name → List (Nat × α)
  | .base, n => marksFor gs n
  | .lig, n => ligMarks gs n
  | .mkmk, n => mkMarks gs n

def bsOf (gs : List (Glyph α)) : LKind → Name → List (Nat × List (Option α))
  | .base, n => mbBases gs n
  | .lig, n => ligBases gs n
  | .mkmk, n => mkBases gs n

def mkLookup (gs : List (Glyph α)) (k : LKind) (n : Name) : Lookup α :=
  { kind := k, name := n, marks := msOf gs k n, bases := bsOf gs k n,
    filter := if k == .mkmk then some (mkFilter (msOf gs k n) (bsOf gs k n)) else none }

def emit (gs : List (Glyph α)) (k : LKind) (n : Name) : Option (Lookup α) :=
  if (bsOf gs k n).isEmpty || (msOf gs k n).isEmpty then none else some (mkLookup gs k n)

theorem lookupsOf_eq (gs : List (Glyph α)) (k : LKind) : lookupsOf gs k = (groupNames gs).filterMap (emit gs k) := by
  cases k <;> rfl

theorem emit_kind_name (gs : List (Glyph α)) (k : LKind) (n : Name) (l : Lookup α) (h : emit gs k n = some l) :
    l = mkLookup gs k n := by
  unfold emit at h
  split at h
  · cases h
  · exact (Option.some.inj h).symm

variable [DecidableEq α]

theorem carries_false_of_kind (l : Lookup α) (p : Pair α) (h : l.kind ≠ p.kind) : l.carries p = false := by
  simp [Lookup.carries, h]

theorem carries_false_of_name (l : Lookup α) (p : Pair α) (h : l.name ≠ p.name) : l.carries p = false := by
  simp [Lookup.carries, h]

theorem filter_lookupsOf_other (gs : List (Glyph α)) (k : LKind) (p : Pair α) (hk : k ≠ p.kind) :
    (lookupsOf gs k).filter (·.carries p) = [] := by
  rw [lookupsOf_eq]
  apply filter_filterMap_nil
  intro n _ l hl
  rw [emit_kind_name gs k n l hl]
  exact carries_false_of_kind _ _ hk

theorem filter_lookupsOf_same (gs : List (Glyph α)) (p : Pair α)
    (hn : p.name ∈ groupNames gs) (hb : bsOf gs p.kind p.name ≠ []) (hm : msOf gs p.kind p.name ≠ [])
    (hc : (mkLookup gs p.kind p.name).carries p = true) :
    ((lookupsOf gs p.kind).filter (·.carries p)).length = 1 := by
  rw [lookupsOf_eq]
  refine filter_filterMap_length_one (groupNames gs) (groupNames_nodup gs) (emit gs p.kind) _ p.name hn
    (mkLookup gs p.kind p.name) ?_ hc ?_
  · unfold emit
    have h1 : (bsOf gs p.kind p.name).isEmpty = false := by cases h : bsOf gs p.kind p.name <;> simp_all
    have h2 : (msOf gs p.kind p.name).isEmpty = false := by cases h : msOf gs p.kind p.name <;> simp_all
    simp [h1, h2]
  · intro n' _ hne l hl
    rw [emit_kind_name gs p.kind n' l hl]
    exact carries_false_of_name _ _ hne

/-- the counting core: the lookup for (kind, name) of the pair is emitted and carries it ⇒ exactly one rule -/
theorem count_one (gs : List (Glyph α)) (p : Pair α)
    (hn : p.name ∈ groupNames gs) (hb : bsOf gs p.kind p.name ≠ []) (hm : msOf gs p.kind p.name ≠ [])
    (hc : (mkLookup gs p.kind p.name).carries p = true) :
    ((allLookups gs).filter (·.carries p)).length = 1 ∧ mkLookup gs p.kind p.name ∈ allLookups gs := by
  have hmem : mkLookup gs p.kind p.name ∈ lookupsOf gs p.kind := by
    rw [lookupsOf_eq, List.mem_filterMap]
    refine ⟨p.name, hn, ?_⟩
    unfold emit
    have h1 : (bsOf gs p.kind p.name).isEmpty = false := by cases h : bsOf gs p.kind p.name <;> simp_all
    have h2 : (msOf gs p.kind p.name).isEmpty = false := by cases h : msOf gs p.kind p.name <;> simp_all
    simp [h1, h2]
  have hsame := filter_lookupsOf_same gs p hn hb hm hc
  unfold allLookups
  simp only [List.filter_append, List.length_append, List.mem_append]
  cases hk : p.kind with
  | base =>
    rw [hk] at hsame hmem
    rw [filter_lookupsOf_other gs .lig p (by rw [hk]; decide), filter_lookupsOf_other gs .mkmk p (by rw [hk]; decide)]
    exact ⟨by simp [hsame], Or.inl (Or.inl hmem)⟩
  | lig =>
    rw [hk] at hsame hmem
    rw [filter_lookupsOf_other gs .base p (by rw [hk]; decide), filter_lookupsOf_other gs .mkmk p (by rw [hk]; decide)]
    exact ⟨by simp [hsame], Or.inl (Or.inr hmem)⟩
  | mkmk =>
    rw [hk] at hsame hmem
    rw [filter_lookupsOf_other gs .base p (by rw [hk]; decide), filter_lookupsOf_other gs .lig p (by rw [hk]; decide)]
    exact ⟨by simp [hsame], Or.inr hmem⟩

omit [DecidableEq α] in
/-- the mark side, shared by the three lookup types -/
theorem marksFor_last (gs : List (Glyph α)) (hgid : (gs.map (·.gid)).Pairwise (· ≠ ·))
    (hkind : ∀ g ∈ gs, (g.anchors.map (·.kind)).Pairwise (· ≠ ·))
    (m : Glyph α) (hm : m ∈ pruned gs) (hmark : isMarkGlyph gs m = true)
    (am : Anchor α) (ham : am ∈ m.anchors) (n : Name) (hk : am.kind = .mark n) :
    lastFor (marksFor gs n) m.gid = some am.val ∧ marksFor gs n ≠ [] := by
  have hfilter : (marksFor gs n).filter (fun x => x.1 == m.gid) = [(m.gid, am.val)] := by
    unfold marksFor
    rw [filter_flatMap_key (fun (g : Glyph α) => g.gid) (pruned gs) (pruned_gids gs hgid) _ ?_ m hm]
    · have := anchorsOfKind_eq m (pruned_kinds gs hkind m hm) am ham
      rw [hk] at this
      simp [hmark, this]
    · intro g x hx
      split at hx
      · obtain ⟨v, _, rfl⟩ := List.mem_map.mp hx; rfl
      · cases hx
  refine ⟨lastFor_singleton _ _ _ hfilter, ?_⟩
  intro he; rw [he] at hfilter; simp at hfilter

omit [DecidableEq α] in
theorem mbBases_filter (gs : List (Glyph α)) (hgid : (gs.map (·.gid)).Pairwise (· ≠ ·))
    (hkind : ∀ g ∈ gs, (g.anchors.map (·.kind)).Pairwise (· ≠ ·))
    (g : Glyph α) (hg : g ∈ pruned gs) (htb : treatAsBase gs g = true)
    (ag : Anchor α) (hag : ag ∈ g.anchors) (n : Name) (hk : ag.kind = .base n) :
    (mbBases gs n).filter (fun x => x.1 == g.gid) = [(g.gid, [some ag.val])] := by
  unfold mbBases
  rw [filter_flatMap_key (fun (g : Glyph α) => g.gid) (pruned gs) (pruned_gids gs hgid) _ ?_ g hg]
  · have := anchorsOfKind_eq g (pruned_kinds gs hkind g hg) ag hag
    rw [hk] at this
    simp [htb, this]
  · intro g x hx
    split at hx
    · obtain ⟨v, _, rfl⟩ := List.mem_map.mp hx; rfl
    · cases hx

omit [DecidableEq α] in
theorem mkBases_filter (gs : List (Glyph α)) (hgid : (gs.map (·.gid)).Pairwise (· ≠ ·))
    (hkind : ∀ g ∈ gs, (g.anchors.map (·.kind)).Pairwise (· ≠ ·))
    (m : Glyph α) (hm : m ∈ pruned gs) (hmark : isMarkGlyph gs m = true)
    (am : Anchor α) (ham : am ∈ m.anchors) (n : Name) (hkm : am.kind = .mark n)
    (g : Glyph α) (hg : g ∈ pruned gs) (hgm : isMarkGlyph gs g = true)
    (ag : Anchor α) (hag : ag ∈ g.anchors) (hk : ag.kind = .base n) :
    (mkBases gs n).filter (fun x => x.1 == g.gid) = [(g.gid, [some ag.val])] := by
  have hcont : (markAnchorNames gs).contains n = true := by
    rw [List.contains_iff_mem]
    unfold markAnchorNames
    rw [List.mem_flatMap]
    refine ⟨m, List.mem_filter.mpr ⟨hm, hmark⟩, List.mem_filterMap.mpr ⟨am, ham, ?_⟩⟩
    rw [hkm]; rfl
  unfold mkBases
  rw [if_pos hcont]
  rw [filter_flatMap_key (fun (g : Glyph α) => g.gid) (pruned gs) (pruned_gids gs hgid) _ ?_ g hg]
  · have := anchorsOfKind_eq g (pruned_kinds gs hkind g hg) ag hag
    rw [hk] at this
    simp [hgm, this]
  · intro g x hx
    split at hx
    · obtain ⟨v, _, rfl⟩ := List.mem_map.mp hx; rfl
    · cases hx

omit [DecidableEq α] in
theorem ligBases_filter (gs : List (Glyph α)) (hgid : (gs.map (·.gid)).Pairwise (· ≠ ·))
    (g : Glyph α) (hg : g ∈ pruned gs) (hml : mightBeLiga gs g = true)
    (ag : Anchor α) (hag : ag ∈ g.anchors) (n : Name) (i : Nat) (hk : ag.kind = .ligature n i) :
    ∃ mx, i ≤ mx ∧ (ligBases gs n).filter (fun x => x.1 == g.gid) = [(g.gid, ligComponents g n mx)] := by
  obtain ⟨mx, hmx, hle⟩ := maxLigIndex_ge g ag hag i (by rw [hk]; rfl)
  refine ⟨mx, hle, ?_⟩
  have hhas : hasLigAnchor g n = true := by
    unfold hasLigAnchor
    rw [List.any_eq_true]
    exact ⟨ag, hag, by rw [hk]; simp⟩
  unfold ligBases
  rw [filter_flatMap_key (fun (g : Glyph α) => g.gid) (pruned gs) (pruned_gids gs hgid) _ ?_ g hg]
  · simp [hml, hhas, hmx]
  · intro g x hx
    split at hx
    · split at hx
      · simp only [List.mem_singleton] at hx; rw [hx]
      · cases hx
    · cases hx

omit [DecidableEq α] in
theorem ne_nil_of_filter_eq_singleton {β : Type} (xs : List β) (q : β → Bool) (b : β) (h : xs.filter q = [b]) : xs ≠ [] := by
  intro he; rw [he] at h; simp at h

/-- **Coverage, counting form.** -/
theorem pair_covered_once (gs : List (Glyph α))
    (hgid : (gs.map (·.gid)).Pairwise (· ≠ ·))
    (hkind : ∀ g ∈ gs, (g.anchors.map (·.kind)).Pairwise (· ≠ ·))
    (hlig : ∀ g ∈ gs, ∀ a ∈ g.anchors, ∀ n i, a.kind = .ligature n i → 1 ≤ i)
    (p : Pair α) (hp : p ∈ sourcePairs gs) :
    ((allLookups gs).filter (·.carries p)).length = 1 ∧
    ∃ l ∈ allLookups gs, l.kind = p.kind ∧ l.name = p.name ∧
      l.markAnchor p.mark = some p.markVal ∧ l.baseAnchor p.base (p.comp - 1) = some p.baseVal := by
  obtain ⟨m, hm, hmark, am, ham, hkm, hpm, hpmv, g, hg, ag, hag, hpb, hpbv, hcase⟩ := mem_sourcePairs gs p hp
  obtain ⟨hlast, hmne⟩ := marksFor_last gs hgid hkind m hm hmark am ham p.name hkm
  have hn : p.name ∈ groupNames gs := mem_groupNames gs m hm am ham p.name (by rw [hkm]; rfl)
  -- it suffices to show that the lookup for (kind, name) has non-empty sides and the two anchors
  suffices h : bsOf gs p.kind p.name ≠ [] ∧ msOf gs p.kind p.name ≠ [] ∧
      (mkLookup gs p.kind p.name).markAnchor p.mark = some p.markVal ∧
      (mkLookup gs p.kind p.name).baseAnchor p.base (p.comp - 1) = some p.baseVal by
    obtain ⟨hb, hms, hma, hba⟩ := h
    have hc : (mkLookup gs p.kind p.name).carries p = true := by
      unfold Lookup.carries
      rw [hma, hba]
      simp [mkLookup]
    obtain ⟨hcount, hmem⟩ := count_one gs p hn hb hms hc
    exact ⟨hcount, mkLookup gs p.kind p.name, hmem, rfl, rfl, hma, hba⟩
  rcases hcase with ⟨hk, hkg, hgm, hcomp⟩ | ⟨hk, hkg, hgm, htb, hcomp⟩ | ⟨hk, hkg, hml⟩
  · -- mark-to-mark
    have hf := mkBases_filter gs hgid hkind m hm hmark am ham p.name hkm g hg hgm ag hag hkg
    have hbne := ne_nil_of_filter_eq_singleton _ _ _ hf
    have hms : mkMarks gs p.name = marksFor gs p.name := by
      unfold mkMarks
      have : (mkBases gs p.name).isEmpty = false := by cases h : mkBases gs p.name <;> simp_all
      simp [this]
    rw [hk]
    refine ⟨by simpa [bsOf] using hbne, by simpa [msOf, hms] using hmne, ?_, ?_⟩
    · simp only [Lookup.markAnchor, mkLookup, msOf, hms, hpm, hpmv]; exact hlast
    · simp only [Lookup.baseAnchor, mkLookup, bsOf, hpb, hpbv]
      rw [hf]; simp
  · -- mark-to-base
    have hf := mbBases_filter gs hgid hkind g hg htb ag hag p.name hkg
    have hbne := ne_nil_of_filter_eq_singleton _ _ _ hf
    rw [hk]
    refine ⟨by simpa [bsOf] using hbne, by simpa [msOf] using hmne, ?_, ?_⟩
    · simp only [Lookup.markAnchor, mkLookup, msOf, hpm, hpmv]; exact hlast
    · simp only [Lookup.baseAnchor, mkLookup, bsOf, hpb, hpbv]
      rw [hf]; simp
  · -- mark-to-ligature
    obtain ⟨mx, hle, hf⟩ := ligBases_filter gs hgid g hg hml ag hag p.name p.comp hkg
    have hbne := ne_nil_of_filter_eq_singleton _ _ _ hf
    have hms : ligMarks gs p.name = marksFor gs p.name := by
      unfold ligMarks
      have : (ligBases gs p.name).isEmpty = false := by cases h : ligBases gs p.name <;> simp_all
      simp [this]
    obtain ⟨g0, hg0, hag0⟩ := pruned_anchor_mem gs g hg ag hag
    have hpos : 1 ≤ p.comp := hlig g0 hg0 ag hag0 p.name p.comp hkg
    rw [hk]
    refine ⟨by simpa [bsOf] using hbne, by simpa [msOf, hms] using hmne, ?_, ?_⟩
    · simp only [Lookup.markAnchor, mkLookup, msOf, hms, hpm, hpmv]; exact hlast
    · simp only [Lookup.baseAnchor, mkLookup, bsOf, hpb, hpbv, lastFor]
      rw [hf]
      have hlt : p.comp - 1 < mx := by omega
      have hidx : p.comp - 1 + 1 = p.comp := by omega
      have hone := anchorsOfKind_eq g (pruned_kinds gs hkind g hg) ag hag
      rw [hkg] at hone
      simp [ligComponents, hlt, hidx, hone]

omit [DecidableEq α] in
theorem mem_marksFor (gs : List (Glyph α)) (n : Name) (x : Nat × α) (hx : x ∈ marksFor gs n) :
    ∃ g ∈ pruned gs, g.gid = x.1 ∧ isMarkGlyph gs g = true := by
  unfold marksFor at hx
  obtain ⟨g, hg, hx⟩ := List.mem_flatMap.mp hx
  split at hx
  · rename_i hmk
    obtain ⟨v, _, rfl⟩ := List.mem_map.mp hx
    exact ⟨g, hg, rfl, hmk⟩
  · cases hx

omit [DecidableEq α] in
/-- every glyph a lookup treats as an attaching mark is a mark glyph of the source -/
theorem lookup_marks_are_mark_glyphs (gs : List (Glyph α)) (l : Lookup α) (hl : l ∈ allLookups gs)
    (x : Nat × α) (hx : x ∈ l.marks) :
    ∃ g0 ∈ gs, g0.gid = x.1 ∧ (classesEmpty gs = true ∨ g0.cls = some .mark) := by
  have hmk : ∃ k n, l = mkLookup gs k n := by
    unfold allLookups at hl
    simp only [List.mem_append] at hl
    rcases hl with (hl | hl) | hl
    all_goals
      rw [lookupsOf_eq, List.mem_filterMap] at hl
      obtain ⟨n, _, hn⟩ := hl
      exact ⟨_, n, emit_kind_name gs _ n l hn⟩
  obtain ⟨k, n, rfl⟩ := hmk
  have hx' : x ∈ marksFor gs n := by
    cases k
    · exact hx
    · simp only [mkLookup, msOf, ligMarks] at hx
      split at hx
      · cases hx
      · exact hx
    · simp only [mkLookup, msOf, mkMarks] at hx
      split at hx
      · cases hx
      · exact hx
  obtain ⟨g, hg, hgid, hmark⟩ := mem_marksFor gs n x hx'
  obtain ⟨g0, hg0, h1, h2, _⟩ := mem_pruned gs g hg
  refine ⟨g0, hg0, by rw [← h1, hgid], ?_⟩
  unfold isMarkGlyph at hmark
  simp only [Bool.and_eq_true, Bool.or_eq_true, beq_iff_eq] at hmark
  rcases hmark.1 with h | h
  · exact Or.inl h
  · exact Or.inr (by rw [← h2, h])

end Fontc.Marks
