/-
  C09 helper lemmas, part 1: list utilities, the per-source group maps, `lookup_kerning_value` = UFO lookup.
-/
import FontcModel.Kern

namespace Fontc.Kern
open Fontc

/-! ### insertion sort -/

theorem mem_insertBy {α} (le : α → α → Bool) (x y : α) (l : List α) :
    y ∈ insertBy le x l ↔ y = x ∨ y ∈ l := by
  induction l with
  | nil => simp [insertBy]
  | cons z zs ih =>
    unfold insertBy
    split
    · simp
    · simp [ih]; grind

theorem mem_insertSort {α} (le : α → α → Bool) (y : α) (l : List α) :
    y ∈ insertSort le l ↔ y ∈ l := by
  induction l with
  | nil => simp [insertSort]
  | cons z zs ih => simp [insertSort, mem_insertBy, ih]

theorem insertBy_pairwise_rank {α} (le : α → α → Bool) (r : α → Nat)
    (h1 : ∀ a b, r a < r b → le a b = true) (h2 : ∀ a b, le a b = true → r a ≤ r b)
    (x : α) (l : List α) (hl : l.Pairwise (fun a b => r a ≤ r b)) :
    (insertBy le x l).Pairwise (fun a b => r a ≤ r b) := by
  induction l with
  | nil => simp [insertBy]
  | cons y ys ih =>
    unfold insertBy
    have hy := List.pairwise_cons.mp hl
    split
    · rename_i hle
      have hxy := h2 x y hle
      refine List.pairwise_cons.mpr ⟨?_, hl⟩
      intro z hz
      rcases List.mem_cons.mp hz with rfl | hz
      · exact hxy
      · exact Nat.le_trans hxy (hy.1 z hz)
    · rename_i hle
      have hyx : r y ≤ r x := by
        apply Nat.le_of_not_lt
        intro hlt
        exact hle (h1 x y hlt)
      refine List.pairwise_cons.mpr ⟨?_, ih hy.2⟩
      intro z hz
      rcases (mem_insertBy le x z ys).mp hz with rfl | hz
      · exact hyx
      · exact hy.1 z hz

/-- If `le` respects a rank (`rank a < rank b → le a b`, `le a b → rank a ≤ rank b`), insertion sort orders by rank. -/
theorem insertSort_pairwise_rank {α} (le : α → α → Bool) (r : α → Nat)
    (h1 : ∀ a b, r a < r b → le a b = true) (h2 : ∀ a b, le a b = true → r a ≤ r b) (l : List α) :
    (insertSort le l).Pairwise (fun a b => r a ≤ r b) := by
  induction l with
  | nil => simp [insertSort]
  | cons x xs ih => exact insertBy_pairwise_rank le r h1 h2 x _ ih

/-- In a list ordered by `R`, the element `find?` returns is `R`-below every other element satisfying the predicate. -/
theorem find?_pairwise_min {α} (R : α → α → Prop) (P : α → Bool) (l : List α) (hl : l.Pairwise R)
    (p : α) (hp : l.find? P = some p) : ∀ q ∈ l, P q = true → q = p ∨ R p q := by
  induction l with
  | nil => simp at hp
  | cons x xs ih =>
    have hx := List.pairwise_cons.mp hl
    intro q hq hPq
    by_cases hPx : P x = true
    · have : p = x := by simpa [List.find?, hPx] using hp.symm
      subst this
      rcases List.mem_cons.mp hq with rfl | hq
      · exact Or.inl rfl
      · exact Or.inr (hx.1 q hq)
    · have hp' : xs.find? P = some p := by simpa [List.find?, hPx] using hp
      rcases List.mem_cons.mp hq with rfl | hq
      · exact absurd hPq hPx
      · exact ih hx.2 hp' q hq hPq

/-! ### association lists -/

theorem lookup_mem {α β} [BEq α] [LawfulBEq α] (k : α) (v : β) (l : List (α × β))
    (h : l.lookup k = some v) : (k, v) ∈ l := by
  induction l with
  | nil => simp [List.lookup] at h
  | cons p ps ih =>
    obtain ⟨a, b⟩ := p
    by_cases hk : k == a
    · have : k = a := eq_of_beq hk
      subst this
      simp [List.lookup] at h
      subst h
      simp
    · simp [List.lookup, hk] at h
      exact List.mem_cons_of_mem _ (ih h)

theorem lookup_none {α β} [BEq α] [LawfulBEq α] (k : α) (l : List (α × β))
    (h : l.lookup k = none) : ∀ v, (k, v) ∉ l := by
  induction l with
  | nil => simp
  | cons p ps ih =>
    obtain ⟨a, b⟩ := p
    rw [List.lookup_cons] at h
    cases hk : k == a with
    | true => rw [hk] at h; cases h
    | false =>
      rw [hk] at h
      intro v hv
      rcases List.mem_cons.mp hv with heq | hv
      · have : k = a := by cases heq; rfl
        subst this
        simp at hk
      · exact ih h v hv

theorem lookup_isSome_of_mem {α β} [BEq α] [LawfulBEq α] (k : α) (v : β) (l : List (α × β))
    (h : (k, v) ∈ l) : ∃ w, l.lookup k = some w := by
  cases hl : l.lookup k with
  | some w => exact ⟨w, rfl⟩
  | none => exact absurd h (lookup_none k l hl v)

/-! ### group maps -/

theorem groupOfFirst_some_mem (gs : Groups) (g G : Nat) (h : groupOfFirst gs g = some G) :
    ∃ ms, (G, ms) ∈ gs ∧ g ∈ ms := by
  unfold groupOfFirst at h
  cases hf : gs.find? (fun p => p.2.contains g) with
  | none => rw [hf] at h; cases h
  | some p =>
    rw [hf] at h
    have hG : p.1 = G := by cases h; rfl
    refine ⟨p.2, ?_, ?_⟩
    · have := List.mem_of_find?_eq_some hf
      rw [← hG]; exact this
    · have := List.find?_some hf
      exact List.contains_iff_mem.mp this

theorem groupOfLast_some_mem (gs : Groups) (g G : Nat) (h : groupOfLast gs g = some G) :
    ∃ ms, (G, ms) ∈ gs ∧ g ∈ ms := by
  obtain ⟨ms, hm, hg⟩ := groupOfFirst_some_mem gs.reverse g G h
  exact ⟨ms, List.mem_reverse.mp hm, hg⟩

/-- Under UFO3 validity (a glyph in at most one group per side) "first" and "last" containing group coincide. -/
theorem groupOfLast_eq_first (gs : Groups) (hv : validGroups gs = true) (g : Nat) :
    groupOfLast gs g = groupOfFirst gs g := by
  induction gs with
  | nil => rfl
  | cons p rest ih =>
    simp only [validGroups, Bool.and_eq_true, List.all_eq_true] at hv
    obtain ⟨hdisj, hrest⟩ := hv
    have ih := ih hrest
    unfold groupOfLast groupOfFirst at *
    generalize hP : (fun q : Nat × List Nat => q.2.contains g) = P at *
    rw [List.reverse_cons, List.find?_append, List.find?_cons, List.find?_cons]
    cases hp : P p with
    | true =>
      have hnone : rest.reverse.find? P = none := by
        rw [List.find?_eq_none]
        intro q hq hqg
        have hq' : q ∈ rest := List.mem_reverse.mp hq
        have hpg : g ∈ p.2 := by
          have : p.2.contains g = true := by rw [← hP] at hp; exact hp
          exact List.contains_iff_mem.mp this
        have h1 := hdisj q hq' g hpg
        have h2 : q.2.contains g = true := by rw [← hP] at hqg; exact hqg
        rw [h2] at h1
        cases h1
      rw [hnone]
      rfl
    | false =>
      simp only [List.find?_nil]
      rw [← ih]
      cases rest.reverse.find? P <;> rfl

/-! ### `lookup_kerning_value` on a glyph pair is the UFO lookup -/

theorem lookup_eq_ufoLookup (s : Source) (hv : s.valid = true) (g₁ g₂ : Nat) :
    s.lookup (.glyph g₁, .glyph g₂) = ufoLookup s g₁ g₂ := by
  simp only [Source.valid, Bool.and_eq_true] at hv
  have h1 := groupOfLast_eq_first s.groups1 hv.1 g₁
  have h2 := groupOfLast_eq_first s.groups2 hv.2 g₂
  unfold Source.lookup lookupKerningValue ufoLookup
  simp only [getGroupIfGlyph, KSide.isGlyph, Source.groupOf, Source.groups, h1, h2, if_true]
  cases hl : s.kerns.lookup (KSide.glyph g₁, KSide.glyph g₂) with
  | some v => simp [firstHit, hl]
  | none =>
    simp only [firstHit, hl]

end Fontc.Kern
