/-
  C15 helper lemmas (1/3): the round loop of `depth_sorted_composite_glyphs` terminates (progress measure:
  the length of `indeterminate_depth`), fuel monotonicity, association-list facts, `maxCompDepth`.
-/
import FontcModel.CompGraph
namespace Fontc.CompGraph
variable {α : Type} [DecidableEq α]

/-! ### the loop -/

theorem round_length_le (ds : Depths α) (ind : Graph α) : (round ds ind).2.length ≤ ind.length := by
  induction ind generalizing ds with
  | nil => simp [round]
  | cons e rest ih =>
    obtain ⟨n, cs⟩ := e
    simp only [round]
    split
    · rename_i m _; have := ih ((n, m + 1) :: ds); simp only [List.length_cons]; omega
    · simp only [List.length_cons]; have := ih ds; omega

theorem loop_zero (fuel : Nat) (ds : Depths α) (ind : Graph α) : loop fuel 0 ds ind = some (ds, ind) := by
  cases fuel <;> simp [loop]

theorem loop_isSome : ∀ (fuel p : Nat) (ds : Depths α) (ind : Graph α), ind.length < fuel → (loop fuel p ds ind).isSome := by
  intro fuel
  induction fuel with
  | zero => intro p ds ind h; omega
  | succ fuel ih =>
    intro p ds ind h
    cases p with
    | zero => simp [loop_zero]
    | succ p =>
      simp only [loop]
      by_cases hz : ind.length - (round ds ind).2.length = 0
      · rw [hz, loop_zero]; rfl
      · apply ih; have := round_length_le ds ind; omega

theorem loop_mono : ∀ (fuel p : Nat) (ds : Depths α) (ind : Graph α) r, loop fuel p ds ind = some r → loop (fuel + 1) p ds ind = some r := by
  intro fuel
  induction fuel with
  | zero =>
    intro p ds ind r h
    cases p with
    | zero => simpa [loop_zero] using h
    | succ p => simp [loop] at h
  | succ fuel ih =>
    intro p ds ind r h
    cases p with
    | zero => simpa [loop_zero] using h
    | succ p =>
      simp only [loop] at h ⊢
      exact ih _ _ _ _ h

theorem loop_mono_le (fuel fuel' p : Nat) (ds : Depths α) (ind : Graph α) r (hle : fuel ≤ fuel')
    (h : loop fuel p ds ind = some r) : loop fuel' p ds ind = some r := by
  induction hle with
  | refl => exact h
  | step _ ih => exact loop_mono _ _ _ _ _ ih


/-! ### association-list facts -/

theorem depthOf_cons (m : α) (d : Nat) (ds : Depths α) (n : α) :
    depthOf ((m, d) :: ds) n = if m = n then some d else depthOf ds n := rfl

theorem depthOf_none_iff (ds : Depths α) (n : α) : depthOf ds n = none ↔ n ∉ ds.map (·.1) := by
  induction ds with
  | nil => simp [depthOf]
  | cons e ds ih =>
    obtain ⟨m, d⟩ := e
    rw [depthOf_cons]
    by_cases h : m = n
    · simp [h]
    · simp only [h, if_false, ih, List.map_cons, List.mem_cons, not_or]
      constructor
      · intro h2; exact ⟨fun e => h e.symm, h2⟩
      · intro h2; exact h2.2

theorem depthOf_mem (ds : Depths α) (n : α) (d : Nat) (h : depthOf ds n = some d) : (n, d) ∈ ds := by
  induction ds with
  | nil => simp [depthOf] at h
  | cons e ds ih =>
    obtain ⟨m, d'⟩ := e
    rw [depthOf_cons] at h
    by_cases hm : m = n
    · simp [hm] at h; simp [hm, h]
    · simp [hm] at h; exact List.mem_cons_of_mem _ (ih h)

theorem depthOf_of_mem_nodup (ds : Depths α) (hnd : (ds.map (·.1)).Nodup) (n : α) (d : Nat) (h : (n, d) ∈ ds) :
    depthOf ds n = some d := by
  induction ds with
  | nil => simp at h
  | cons e ds ih =>
    obtain ⟨m, d'⟩ := e
    rw [depthOf_cons]
    simp only [List.map_cons, List.nodup_cons] at hnd
    rcases List.mem_cons.mp h with h | h
    · cases h; simp
    · have hn : n ∈ ds.map (·.1) := List.mem_map.mpr ⟨(n, d), h, rfl⟩
      have : m ≠ n := fun e => hnd.1 (e ▸ hn)
      simp [this, ih hnd.2 h]

theorem compsOf_cons (m : α) (cs : List α) (g : Graph α) (n : α) :
    compsOf ((m, cs) :: g) n = if m = n then cs else compsOf g n := rfl

theorem compsOf_of_mem (g : Graph α) (hnd : (names g).Nodup) (n : α) (cs : List α) (h : (n, cs) ∈ g) :
    compsOf g n = cs := by
  induction g with
  | nil => simp at h
  | cons e g ih =>
    obtain ⟨m, cs'⟩ := e
    rw [compsOf_cons]
    simp only [names, List.map_cons, List.nodup_cons] at hnd
    rcases List.mem_cons.mp h with h | h
    · cases h; simp
    · have hn : n ∈ g.map (·.1) := List.mem_map.mpr ⟨(n, cs), h, rfl⟩
      have : m ≠ n := fun e => hnd.1 (e ▸ hn)
      simp [this]; exact ih hnd.2 h

/-- a glyph that has components is an entry of the graph -/
theorem mem_of_mem_compsOf (g : Graph α) (n c : α) (h : c ∈ compsOf g n) : (n, compsOf g n) ∈ g := by
  induction g with
  | nil => simp [compsOf] at h
  | cons e g ih =>
    obtain ⟨m, cs⟩ := e
    rw [compsOf_cons] at h ⊢
    by_cases hm : m = n
    · simp [hm]
    · simp only [hm, if_false] at h ⊢; exact List.mem_cons_of_mem _ (ih h)

theorem compsOf_eq_nil_of_not_mem (g : Graph α) (n : α) (h : n ∉ names g) : compsOf g n = [] := by
  induction g with
  | nil => rfl
  | cons e g ih =>
    obtain ⟨m, cs⟩ := e
    simp only [names, List.map_cons, List.mem_cons, not_or] at h
    rw [compsOf_cons]
    have : m ≠ n := fun e => h.1 e.symm
    simp [this]; exact ih h.2

/-! ### maxCompDepth -/

theorem maxCompDepth_some (ds : Depths α) (cs : List α) (m : Nat) (h : maxCompDepth ds cs = some m) :
    ∀ c ∈ cs, ∃ dc, depthOf ds c = some dc ∧ dc ≤ m := by
  induction cs generalizing m with
  | nil => intro c hc; simp at hc
  | cons x cs ih =>
    simp only [maxCompDepth] at h
    split at h
    · simp at h
    · rename_i d hd
      split at h
      · simp at h
      · rename_i m' hm'
        simp only [Option.some.injEq] at h
        intro c hc
        rcases List.mem_cons.mp hc with hc | hc
        · subst hc; exact ⟨d, hd, by omega⟩
        · obtain ⟨dc, h1, h2⟩ := ih m' hm' c hc
          exact ⟨dc, h1, by omega⟩

theorem maxCompDepth_isSome (ds : Depths α) (cs : List α) (h : ∀ c ∈ cs, (depthOf ds c).isSome) :
    (maxCompDepth ds cs).isSome := by
  induction cs with
  | nil => rfl
  | cons x cs ih =>
    have hx := h x (List.mem_cons_self ..)
    have hr := ih (fun c hc => h c (List.mem_cons_of_mem _ hc))
    obtain ⟨d, hd⟩ := Option.isSome_iff_exists.mp hx
    obtain ⟨m, hm⟩ := Option.isSome_iff_exists.mp hr
    simp [maxCompDepth, hd, hm]

end Fontc.CompGraph
