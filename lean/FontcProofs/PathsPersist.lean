/-
  Helper lemmas for C14: the store with an on-disk copy refines the store without one.
  Core Lean only.
-/
import FontcModel.Persist

set_option linter.unusedSectionVars false

namespace Fontc.Persist

variable {Id V Path Bytes : Type} [DecidableEq Id] [DecidableEq V] [DecidableEq Path]

/-- the same configuration without `--emit-ir` -/
def Cfg.off (c : Cfg Id V Path Bytes) : Cfg Id V Path Bytes := { c with active := false }

/-- memory and build directory mirror each other: every value in memory is in its file, and every
    file belongs to an id that is in memory -/
def Inv (c : Cfg Id V Path Bytes) (s : Store Id V Path Bytes) : Prop :=
  (∀ id v, s.mem id = some v → s.disk (c.path id) = some (c.enc v)) ∧
  (∀ p b, s.disk p = some b → ∃ id v, p = c.path id ∧ s.mem id = some v)

theorem inv_empty (c : Cfg Id V Path Bytes) : Inv c (empty : Store Id V Path Bytes) := by
  constructor
  · intro id v h; simp [empty] at h
  · intro p b h; simp [empty] at h

theorem upd_same {K W : Type} [DecidableEq K] (f : K → Option W) (k : K) (w : W) : upd f k w k = some w := by
  simp [upd]

theorem upd_other {K W : Type} [DecidableEq K] (f : K → Option W) (k x : K) (w : W) (h : x ≠ k) :
    upd f k w x = f x := by
  simp [upd, h]

theorem inv_write (c : Cfg Id V Path Bytes) (hinj : ∀ a b, c.path a = c.path b → a = b)
    (hact : c.active = true) (s : Store Id V Path Bytes) (hI : Inv c s) (id : Id) (v : V) :
    Inv c (write c s id v) := by
  obtain ⟨hA, hB⟩ := hI
  constructor
  · intro id' v' h
    simp only [write, hact, if_true] at h ⊢
    by_cases e : id' = id
    · subst e
      rw [upd_same] at h
      rw [upd_same]
      simp at h
      rw [h]
    · rw [upd_other _ _ _ _ e] at h
      have hp : c.path id' ≠ c.path id := fun hh => e (hinj _ _ hh)
      rw [upd_other _ _ _ _ hp]
      exact hA id' v' h
  · intro p b h
    simp only [write, hact, if_true] at h ⊢
    by_cases e : p = c.path id
    · exact ⟨id, v, e, upd_same _ _ _⟩
    · rw [upd_other _ _ _ _ e] at h
      obtain ⟨id', v', hp, hm⟩ := hB p b h
      have : id' ≠ id := by
        intro hh; subst hh; exact e hp
      exact ⟨id', v', hp, by rw [upd_other _ _ _ _ this]; exact hm⟩

/-- with the mirror invariant, a value missing from memory is missing from the directory too -/
theorem disk_none_of_mem_none (c : Cfg Id V Path Bytes) (hinj : ∀ a b, c.path a = c.path b → a = b)
    (s : Store Id V Path Bytes) (hI : Inv c s) (id : Id) (h : s.mem id = none) : s.disk (c.path id) = none := by
  cases hd : s.disk (c.path id) with
  | none => rfl
  | some b =>
    obtain ⟨id', v', hp, hm⟩ := hI.2 _ _ hd
    have := hinj _ _ hp
    subst this
    rw [h] at hm
    cases hm

theorem inv_step (c : Cfg Id V Path Bytes) (hinj : ∀ a b, c.path a = c.path b → a = b)
    (hact : c.active = true) (s : Store Id V Path Bytes) (hI : Inv c s) (op : Op Id V) :
    Inv c (step c s op).1 := by
  cases op with
  | set id v =>
    simp only [step]
    split
    · exact hI
    · exact inv_write c hinj hact s hI id v
  | setUnconditionally id v => exact inv_write c hinj hact s hI id v
  | tryGet id =>
    simp only [step]
    split <;> exact hI
  | get id =>
    simp only [step]
    cases hm : s.mem id with
    | some v => exact hI
    | none =>
      simp only [hact, if_true]
      rw [disk_none_of_mem_none c hinj s hI id hm]
      exact hI

/-- one step: same answer and same memory with and without the on-disk copy -/
theorem step_refines (c : Cfg Id V Path Bytes) (hinj : ∀ a b, c.path a = c.path b → a = b)
    (s s' : Store Id V Path Bytes) (hI : Inv c s) (hm : s'.mem = s.mem) (op : Op Id V) :
    (step c s op).2 = (step c.off s' op).2 ∧ (step c.off s' op).1.mem = (step c s op).1.mem := by
  cases op with
  | set id v =>
    simp only [step, hm]
    split
    · exact ⟨rfl, hm⟩
    · exact ⟨rfl, by simp [write, hm]⟩
  | setUnconditionally id v => exact ⟨rfl, by simp [step, write, hm]⟩
  | tryGet id =>
    simp only [step, hm]
    cases s.mem id <;> exact ⟨rfl, hm⟩
  | get id =>
    simp only [step, hm]
    cases hq : s.mem id with
    | some v => exact ⟨rfl, hm⟩
    | none =>
      simp only [Cfg.off]
      cases c.active with
      | false => exact ⟨rfl, hm⟩
      | true =>
        simp only [if_true]
        rw [disk_none_of_mem_none c hinj s hI id hq]
        exact ⟨rfl, hm⟩

theorem run_refines (c : Cfg Id V Path Bytes) (hinj : ∀ a b, c.path a = c.path b → a = b)
    (hact : c.active = true) (ops : List (Op Id V)) :
    ∀ s s' : Store Id V Path Bytes, Inv c s → s'.mem = s.mem →
      (run c s ops).2 = (run c.off s' ops).2 ∧ (run c.off s' ops).1.mem = (run c s ops).1.mem ∧
      Inv c (run c s ops).1 := by
  induction ops with
  | nil => intro s s' hI hm; exact ⟨rfl, hm, hI⟩
  | cons op rest ih =>
    intro s s' hI hm
    obtain ⟨hr, hm'⟩ := step_refines c hinj s s' hI hm op
    have hI' := inv_step c hinj hact s hI op
    obtain ⟨h1, h2, h3⟩ := ih (step c s op).1 (step c.off s' op).1 hI' hm'
    simp only [run]
    exact ⟨by rw [hr, h1], h2, h3⟩

/-! ### what survives a path collision: answers, as long as nothing is read before it is written -/

/-- every `get` of the list finds its value in memory (what the job graph guarantees, C02) -/
def AllHit (c : Cfg Id V Path Bytes) : Store Id V Path Bytes → List (Op Id V) → Prop
  | _, [] => True
  | s, op :: rest =>
    (match op with
     | .get id => s.mem id ≠ none
     | _ => True) ∧ AllHit c (step c s op).1 rest

theorem step_same_of_hit (c : Cfg Id V Path Bytes) (s s' : Store Id V Path Bytes) (hm : s'.mem = s.mem)
    (op : Op Id V) (hh : match op with | .get id => s.mem id ≠ none | _ => True) :
    (step c s' op).2 = (step c.off s op).2 ∧ (step c s' op).1.mem = (step c.off s op).1.mem := by
  cases op with
  | set id v =>
    simp only [step, hm]
    split
    · exact ⟨rfl, hm⟩
    · exact ⟨rfl, by simp [write, hm]⟩
  | setUnconditionally id v => exact ⟨rfl, by simp [step, write, hm]⟩
  | tryGet id =>
    simp only [step, hm]
    cases s.mem id <;> exact ⟨rfl, hm⟩
  | get id =>
    simp only at hh
    simp only [step, hm]
    cases hq : s.mem id with
    | some v => exact ⟨rfl, hm⟩
    | none => exact absurd hq hh

theorem run_same_of_allHit (c : Cfg Id V Path Bytes) (ops : List (Op Id V)) :
    ∀ s s' : Store Id V Path Bytes, s'.mem = s.mem → AllHit c.off s ops →
      (run c s' ops).2 = (run c.off s ops).2 := by
  induction ops with
  | nil => intro s s' _ _; rfl
  | cons op rest ih =>
    intro s s' hm hh
    obtain ⟨h1, h2⟩ := hh
    obtain ⟨hr, hm'⟩ := step_same_of_hit c s s' hm op h1
    simp only [run]
    rw [hr, ih (step c.off s op).1 (step c s' op).1 hm' h2]

end Fontc.Persist
