/-
  Helper lemmas for C05 (3/3): the whole-file checksum, and the assembly of the conjuncts of
  `wellFormedSfnt (build ts)` and of the round trip.
-/
import FontcProofs.SfntLayout

namespace Fontc.SfntProofs
open Fontc.Bytes Fontc.Sfnt

/-! ## pairwiseB -/

theorem pairwiseB_iff {α} (R : α → α → Bool) (l : List α) :
    pairwiseB R l = true ↔ List.Pairwise (fun a b => R a b = true) l := by
  induction l with
  | nil => simp [pairwiseB]
  | cons a l ih => simp [pairwiseB, List.pairwise_cons, List.all_eq_true, ih]

/-! ## checksum of the body -/

def zsum (l : List Table) : Nat := (l.map fun t => rawSum (zeroed t)).sum

def headCount (l : List Table) : Nat := (l.filter fun t => decide (isHeadAdj t)).length

theorem rawSum_setAdj (d : Bytes) (v : Nat) (h : 12 ≤ d.length) (hv : v < 4294967296) :
    rawSum (setAdj d v) = rawSum (zeroAdj d) + v := by
  have h8 : (List.take 8 d).length % 4 = 0 := by simp; omega
  unfold setAdj zeroAdj
  rw [List.append_assoc, List.append_assoc, rawSum_append _ _ h8, rawSum_append _ _ h8,
    rawSum_append (be32 v) _ (by simp), rawSum_append [0, 0, 0, 0] _ (by simp), rawSum_be32 v hv]
  have : rawSum [0, 0, 0, 0] = 0 := rfl
  omega

theorem rawSum_final (adj : Nat) (t : Table) (hv : adj < 4294967296) :
    rawSum (final adj t) = rawSum (zeroed t) + (if isHeadAdj t then adj else 0) := by
  unfold final zeroed zeroedRaw
  by_cases h : isHeadAdj t
  · have h' : t.tag = headTag ∧ 12 ≤ t.data.length := h
    simp only [h, h', and_self, if_true]
    exact rawSum_setAdj _ _ h'.2 hv
  · have h' : ¬ (t.tag = headTag ∧ 12 ≤ t.data.length) := h
    simp only [h, h', if_false, Nat.add_zero]

theorem rawSum_padded (d : Bytes) : rawSum (padded d) = rawSum d := by
  unfold padded
  apply rawSum_pad
  unfold pad4
  omega

theorem rawSum_body (adj : Nat) (hv : adj < 4294967296) :
    ∀ l : List Table, rawSum (body adj l) = zsum l + adj * headCount l
  | [] => by simp [body, zsum, headCount, rawSum_nil]
  | t :: l => by
    have hlen : (padded (final adj t)).length % 4 = 0 := by rw [length_padded]; exact pad4_mod _
    rw [body_cons, rawSum_append _ _ hlen, rawSum_padded, rawSum_final adj t hv, rawSum_body adj hv l]
    simp only [zsum, headCount, List.map_cons, List.sum_cons, List.filter_cons]
    by_cases h : isHeadAdj t
    · simp only [h, if_true, decide_true, List.length_cons, Nat.mul_add, Nat.mul_one]; omega
    · simp only [h, if_false, decide_false]; simp; omega

theorem headCount_one : ∀ (l : List Table), (l.map (·.tag)).Nodup → (∃ t ∈ l, isHeadAdj t) → headCount l = 1
  | [], _, ⟨t, ht, _⟩ => by simp at ht
  | u :: l, hnd, ⟨t, ht, hh⟩ => by
    simp only [List.map_cons, List.nodup_cons] at hnd
    simp only [headCount, List.filter_cons]
    by_cases hu : isHeadAdj u
    · simp only [hu, decide_true, if_true, List.length_cons]
      have : l.filter (fun t => decide (isHeadAdj t)) = [] := by
        rw [List.filter_eq_nil_iff]
        intro v hv hdv
        have hdv' : isHeadAdj v := of_decide_eq_true hdv
        apply hnd.1
        rw [hu.1, ← hdv'.1]
        exact List.mem_map_of_mem hv
      rw [this]; rfl
    · have hne : t ≠ u := fun e => hu (e ▸ hh)
      have htl : t ∈ l := by
        rcases List.mem_cons.1 ht with h | h
        · exact absurd h hne
        · exact h
      simp only [hu, decide_false]
      exact headCount_one l hnd.2 ⟨t, htl, hh⟩

theorem wrappingSum_aux : ∀ (cs : List Nat) (init : Nat),
    cs.foldl (fun a c => (a + c) % 4294967296) init % 4294967296 = (init + cs.sum) % 4294967296
  | [], init => by simp
  | c :: cs, init => by
    simp only [List.foldl_cons, List.sum_cons]
    rw [wrappingSum_aux cs]; omega

theorem wrappingSum_lt : ∀ (cs : List Nat) (init : Nat), init < 4294967296 →
    cs.foldl (fun a c => (a + c) % 4294967296) init < 4294967296
  | [], init, h => by simpa using h
  | c :: cs, init, _ => by
    simp only [List.foldl_cons]
    exact wrappingSum_lt cs _ (Nat.mod_lt _ (by decide))

theorem wrappingSum_eq (cs : List Nat) : wrappingSum cs = cs.sum % 4294967296 := by
  have h1 := wrappingSum_aux cs 0
  have h2 := wrappingSum_lt cs 0 (by decide)
  unfold wrappingSum
  omega

theorem sum_checksums_mod : ∀ l : List Table,
    (l.map fun t => checksum (zeroed t)).sum % 4294967296 = zsum l % 4294967296
  | [] => rfl
  | t :: l => by
    have ih := sum_checksums_mod l
    simp only [zsum, List.map_cons, List.sum_cons, checksum] at ih ⊢
    omega

theorem adjustment_lt (ts : List Table) : adjustment ts < 4294967296 := by
  unfold adjustment; exact Nat.mod_lt _ (by decide)

/-! ## the built file -/

theorem physOrder_perm (ts : List Table) : (physOrder ts).Perm ts := sortBy_perm _ _

theorem bodyLen_perm {l₁ l₂ : List Table} (h : l₁.Perm l₂) : bodyLen l₁ = bodyLen l₂ :=
  (h.map _).sum_nat

theorem length_records (ts : List Table) : (records ts).length = ts.length := by
  unfold records
  rw [(sortBy_perm _ _).length_eq, length_assign, (physOrder_perm ts).length_eq]

theorem length_build (ts : List Table) : (build ts).length = headerLen ts.length + bodyLen ts := by
  unfold build
  rw [List.length_append, length_directory, length_body, length_records, bodyLen_perm (physOrder_perm ts)]

/-- facts about every record of the built directory -/
theorem records_facts (ts : List Table) (r : Rec) (hr : r ∈ records ts) :
    ∃ t ∈ ts, RecFacts (adjustment ts) (build ts) (headerLen ts.length) r t := by
  have hmem : r ∈ assign (headerLen ts.length) (physOrder ts) := (sortBy_perm _ _).mem_iff.1 hr
  have hlen : (directory (records ts)).length = headerLen ts.length := by
    rw [length_directory, length_records]
  rw [← hlen] at hmem
  obtain ⟨t, ht, ft⟩ := assign_facts (adjustment ts) (physOrder ts) (directory (records ts)) r hmem
  rw [hlen] at ft
  exact ⟨t, (physOrder_perm ts).mem_iff.1 ht, ft⟩

theorem records_fit (ts : List Table) (hf : fits ts) : ∀ r ∈ records ts, recFits r := by
  intro r hr
  obtain ⟨t, _, ft⟩ := records_facts ts r hr
  have hu := ft.upper
  rw [length_build] at hu
  have := pad4_ge r.length
  have hc : r.checksum < 4294967296 := by rw [ft.cks]; exact Nat.mod_lt _ (by decide)
  exact ⟨hc, by have := hf.2; omega, by have := hf.2; omega⟩

theorem parseDir_build (ts : List Table) (hf : fits ts) :
    parseDir (build ts) =
      some ⟨sfntVersion (records ts), ts.length, (searchParams ts.length).2.1, (searchParams ts.length).1,
            (searchParams ts.length).2.2, records ts⟩ := by
  have h := parseDir_directory (records ts) (body (adjustment ts) (physOrder ts))
    (by rw [length_records]; exact hf.1) (records_fit ts hf)
  rw [length_records] at h
  exact h

theorem nodup_recKey (ts : List Table) (hnd : (ts.map (·.tag)).Nodup) :
    ((assign (headerLen ts.length) (physOrder ts)).map recKey).Nodup := by
  have h1 : ((assign (headerLen ts.length) (physOrder ts)).map (·.tag)).Nodup := by
    rw [assign_map_tag]
    exact ((physOrder_perm ts).map _).nodup_iff.2 hnd
  unfold List.Nodup at h1 ⊢
  rw [List.pairwise_map] at h1 ⊢
  exact h1.imp (fun hne he => hne (UInt32.toNat.inj he))

theorem records_sorted (ts : List Table) (hnd : (ts.map (·.tag)).Nodup) :
    List.Pairwise (fun a b => recKey a < recKey b) (records ts) :=
  sortBy_strict recKey _ (nodup_recKey ts hnd)

theorem records_disjoint (ts : List Table) : List.Pairwise disjointP (records ts) :=
  (sortBy_perm recKey _).symm.pairwise (assign_disjoint _ _) (fun h => h.symm)

theorem records_compact (ts : List Table) :
    headerLen ts.length + ((records ts).map fun r => pad4 r.length).sum = (build ts).length := by
  rw [length_build]
  congr 1
  have h1 : ((records ts).map fun r => pad4 r.length).Perm
      ((assign (headerLen ts.length) (physOrder ts)).map fun r => pad4 r.length) :=
    (sortBy_perm recKey _).map _
  rw [h1.sum_nat, assign_map_len]
  exact bodyLen_perm (physOrder_perm ts)

theorem recOk_build (ts : List Table) (r : Rec) (hr : r ∈ records ts) :
    recOk (build ts) ts.length r = true := by
  obtain ⟨t, _, ft⟩ := records_facts ts r hr
  have hal := ft.aligned
  have hlo := ft.lower
  have hck : r.checksum = checksum (zeroedRaw r.tag (recData (build ts) r)) := by
    rw [ft.cks, ft.data, ft.tag, zeroedRaw_final]
  have hdr : headerLen ts.length % 4 = 0 := by unfold headerLen; omega
  unfold recOk
  simp only [Bool.and_eq_true, decide_eq_true_eq, List.all_eq_true]
  refine ⟨⟨⟨⟨by omega, hlo⟩, ft.upper⟩, hck⟩, ?_⟩
  intro b hb
  rw [ft.padz] at hb
  rw [(List.mem_replicate.1 hb).2]
  rfl

/-- whole-file checksum -/
theorem checksum_build (ts : List Table) (hnd : (ts.map (·.tag)).Nodup)
    (hh : ∃ t ∈ ts, isHeadAdj t) : checksum (build ts) = magic := by
  have hadj := adjustment_lt ts
  have hdl : (directory (records ts)).length % 4 = 0 := by
    rw [length_directory]; unfold headerLen; omega
  have hcount : headCount (physOrder ts) = 1 := by
    apply headCount_one
    · exact ((physOrder_perm ts).map _).nodup_iff.2 hnd
    · obtain ⟨t, ht, h⟩ := hh
      exact ⟨t, (physOrder_perm ts).mem_iff.2 ht, h⟩
  unfold checksum build
  rw [rawSum_append _ _ hdl, rawSum_body _ hadj, hcount]
  have hA := sum_checksums_mod (physOrder ts)
  have hT : adjustment ts =
      (magic + 4294967296 -
        ((((physOrder ts).map fun t => checksum (zeroed t)).sum + checksum (directory (records ts))) % 4294967296))
        % 4294967296 := by
    unfold adjustment
    simp only [wrappingSum_eq, List.sum_append_nat, List.sum_cons, List.sum_nil, Nat.add_zero]
  have hD : checksum (directory (records ts)) = rawSum (directory (records ts)) % 4294967296 := rfl
  rw [hT, hD]
  unfold magic at *
  omega

theorem headOk_build (ts : List Table) (hnd : (ts.map (·.tag)).Nodup)
    (hhead : ∀ t ∈ ts, t.tag = headTag → 12 ≤ t.data.length) :
    headOk (build ts) (records ts) = true := by
  unfold headOk
  split
  · rfl
  · rename_i r hfind
    have hr := List.mem_of_find?_eq_some hfind
    have htag : r.tag = headTag := by simpa using List.find?_some hfind
    obtain ⟨t, ht, ft⟩ := records_facts ts r hr
    have htt : t.tag = headTag := by rw [← ft.tag]; exact htag
    have hlen := hhead t ht htt
    simp only [Bool.and_eq_true, decide_eq_true_eq]
    exact ⟨by rw [ft.len]; exact hlen, checksum_build ts hnd ⟨t, ht, htt, hlen⟩⟩

/-! ## addRaw / selectTables keep tags distinct -/

theorem addRaw_nodup (ts : List Table) (t : Table) (h : (ts.map (·.tag)).Nodup) :
    ((addRaw ts t).map (·.tag)).Nodup := by
  unfold addRaw
  rw [List.map_append, List.nodup_append]
  refine ⟨List.Nodup.sublist (List.Sublist.map _ List.filter_sublist) h, by simp, ?_⟩
  intro a ha b hb
  simp only [List.map_cons, List.map_nil, List.mem_singleton] at hb
  obtain ⟨u, hu, rfl⟩ := List.mem_map.1 ha
  have := (List.mem_filter.1 hu).2
  subst hb
  simpa using this

theorem foldl_addRaw_nodup (ps : List (UInt32 × Slot)) : ∀ (acc : List Table), (acc.map (·.tag)).Nodup →
    ((ps.foldl (fun acc p => match p.2 with | .bytes b => addRaw acc ⟨p.1, b⟩ | _ => acc) acc).map (·.tag)).Nodup := by
  induction ps with
  | nil => intro acc h; exact h
  | cons p ps ih =>
    intro acc h
    simp only [List.foldl_cons]
    apply ih
    split
    · exact addRaw_nodup _ _ h
    · exact h

theorem selectTables_nodup (base debg : Option Bytes) (slots : List Slot) :
    ((selectTables base debg slots).map (·.tag)).Nodup := by
  unfold selectTables
  apply foldl_addRaw_nodup
  have h0 : ((match base with | some b => addRaw [] ⟨baseTag, b⟩ | none => ([] : List Table)).map
      (fun t : Table => t.tag)).Nodup := by
    cases base with
    | none => simp
    | some b => exact addRaw_nodup _ _ (by simp)
  cases debg with
  | none => exact h0
  | some b => exact addRaw_nodup _ _ h0

end Fontc.SfntProofs
