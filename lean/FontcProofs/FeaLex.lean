/-
  Helper lemmas for C13: where tokens of the fea-rs lexer model can end.

  `EndOK inp p` — position `p` is the end of the input, or the byte at `p` is ASCII, or the byte before `p`
  is ASCII.  Every token of the lexer ends at such a position (`nextTokenWith_endOK`): a sub-lexer either
  stops *in front of* a specific ASCII byte (comment, string, ident, path) or it has only consumed ASCII
  bytes (whitespace, digits, one-byte punctuation).  In valid UTF-8 such a position is a character boundary
  (FontcProofs/FeaLexUtf8.lean).
-/
import FontcModel.FeaLex

namespace Fontc.FeaLex

set_option linter.unusedVariables false

/-- every statement about all 256 byte values is checked by evaluation -/
theorem forall_uint8 (P : UInt8 → Prop) (h : ∀ i : Fin 256, P (UInt8.ofNat i.val)) : ∀ b, P b := by
  intro b
  have := h ⟨b.toNat, b.toNat_lt⟩
  simpa using this

set_option maxRecDepth 100000 in
theorem stop_ascii : ∀ b : UInt8,
    (commentCont b = false → b < 0x80) ∧ (stringCont b = false → b < 0x80) ∧
    (identCont b = false → b < 0x80) ∧ (pathCont b = false → b < 0x80) := by
  apply forall_uint8
  decide

set_option maxRecDepth 100000 in
theorem consumed_ascii : ∀ b : UInt8,
    (isAsciiWhitespace b = true → b < 0x80) ∧ (isDigit b = true → b < 0x80) ∧
    (isHexDigit b = true → b < 0x80) ∧ (isOctDigit b = true → b < 0x80) := by
  apply forall_uint8
  decide

set_option maxRecDepth 100000 in
theorem punct_ascii : ∀ b : UInt8, (punct b).isSome = true → b < 0x80 := by
  apply forall_uint8
  decide

/-- where a token may end -/
def EndOK (inp : Bytes) (p : Nat) : Prop :=
  p = inp.size ∨ (p < inp.size ∧ nth inp p 0 < 0x80) ∨ (0 < p ∧ p ≤ inp.size ∧ nth inp (p - 1) 0 < 0x80)

theorem eof_lt : EOF < 0x80 := by decide

/-- the loop ends in front of a byte (or the sentinel) that fails the condition -/
theorem eatWhile_stop (p : UInt8 → Bool) (hp : p EOF = false) (inp : Bytes) (pos : Nat) :
    p (nth inp (eatWhile p hp inp pos) 0) = false := by
  fun_induction eatWhile p hp inp pos with
  | case1 pos h ih => exact ih
  | case2 pos h => simpa using h

/-- if the loop moved at all, the last byte it consumed satisfies the condition -/
theorem eatWhile_last (p : UInt8 → Bool) (hp : p EOF = false) (inp : Bytes) (pos : Nat) :
    eatWhile p hp inp pos = pos ∨
      (pos < eatWhile p hp inp pos ∧ p (nth inp (eatWhile p hp inp pos - 1) 0) = true) := by
  fun_induction eatWhile p hp inp pos with
  | case1 pos h ih =>
    right
    have hlt : pos < inp.size := by
      apply Classical.byContradiction
      intro hge
      rw [nth_eof_of_ge (by omega), hp] at h
      exact Bool.false_ne_true h
    have hb : bump inp pos = pos + 1 := by simp [bump, hlt]
    rw [hb] at ih ⊢
    rcases ih with ih | ih
    · rw [ih]
      exact ⟨by omega, by simpa using h⟩
    · exact ⟨by omega, ih.2⟩
  | case2 pos h => left; rfl

/-- a loop whose condition only fails on ASCII bytes ends at an `EndOK` position -/
theorem eatWhile_endOK_stop (p : UInt8 → Bool) (hp : p EOF = false) (hstop : ∀ b, p b = false → b < 0x80)
    (inp : Bytes) (pos : Nat) (hle : pos ≤ inp.size) : EndOK inp (eatWhile p hp inp pos) := by
  have h1 := eatWhile_stop p hp inp pos
  have h2 := eatWhile_le_size p hp inp pos hle
  unfold EndOK
  by_cases heq : eatWhile p hp inp pos = inp.size
  · left; exact heq
  · right; left; exact ⟨by omega, hstop _ h1⟩

/-- a loop that only consumes ASCII bytes, started just after an ASCII byte, ends at an `EndOK` position -/
theorem eatWhile_endOK_consumed (p : UInt8 → Bool) (hp : p EOF = false) (hcons : ∀ b, p b = true → b < 0x80)
    (inp : Bytes) (pos : Nat) (hle : pos ≤ inp.size) (h0 : 0 < pos) (hprev : nth inp (pos - 1) 0 < 0x80) :
    EndOK inp (eatWhile p hp inp pos) := by
  have h2 := eatWhile_le_size p hp inp pos hle
  unfold EndOK
  right; right
  rcases eatWhile_last p hp inp pos with h | h
  · rw [h]; exact ⟨h0, hle, hprev⟩
  · exact ⟨by omega, h2, hcons _ h.2⟩

theorem endOK_after_ascii (inp : Bytes) (pos : Nat) (hle : pos ≤ inp.size) (h0 : 0 < pos)
    (hprev : nth inp (pos - 1) 0 < 0x80) : EndOK inp pos :=
  Or.inr (Or.inr ⟨h0, hle, hprev⟩)

theorem bump_after (inp : Bytes) (pos : Nat) (hlt : pos < inp.size) : bump inp pos = pos + 1 := by
  simp [bump, hlt]

/-- `bump` over an ASCII byte lands on an `EndOK` position -/
theorem endOK_bump_ascii (inp : Bytes) (pos : Nat) (hle : pos ≤ inp.size) (h : nth inp pos 0 < 0x80)
    (hne : nth inp pos 0 ≠ EOF) : EndOK inp (bump inp pos) ∧ 0 < bump inp pos ∧
      nth inp (bump inp pos - 1) 0 < 0x80 := by
  have hlt : pos < inp.size := by
    apply Classical.byContradiction
    intro hge
    exact hne (nth_eof_of_ge (by omega))
  rw [bump_after inp pos hlt]
  have : pos + 1 - 1 = pos := by omega
  refine ⟨endOK_after_ascii inp (pos + 1) (by omega) (by omega) (by rw [this]; exact h), by omega, by rw [this]; exact h⟩

theorem ne_eof_of_beq {b c : UInt8} (h : (b == c) = true) (hc : c ≠ EOF) : b ≠ EOF := by
  have : b = c := by simpa using h
  rw [this]; exact hc

set_option maxRecDepth 100000 in
theorem digit_dot_x_facts : ∀ b : UInt8,
    ((b == 0x2E) = true → b < 0x80 ∧ b ≠ EOF) ∧ ((b == 0x78 || b == 0x58) = true → b < 0x80 ∧ b ≠ EOF) ∧
    ((b == 0x22) = true → b < 0x80 ∧ b ≠ EOF) := by
  apply forall_uint8
  decide

theorem number_endOK (inp : Bytes) (pos : Nat) (lz : Bool) (hle : pos ≤ inp.size) (h0 : 0 < pos)
    (hprev : nth inp (pos - 1) 0 < 0x80) : EndOK inp (number inp pos lz).2 := by
  unfold number
  split
  · split
    · rename_i hx
      dsimp only
      have hxf := ((digit_dot_x_facts (nth inp pos 0)).2.1 hx)
      have hb := endOK_bump_ascii inp pos hle hxf.1 hxf.2
      split
      · exact eatWhile_endOK_consumed _ _ (fun b hb' => (consumed_ascii b).2.2.1 hb') inp _
          (bump_le_size hle) hb.2.1 hb.2.2
      · exact hb.1
    · split
      · exact eatWhile_endOK_consumed _ _ (fun b hb' => (consumed_ascii b).2.2.2 hb') inp _ hle h0 hprev
      · exact endOK_after_ascii inp pos hle h0 hprev
  · dsimp only
    have e2 := eatWhile_le_size isDigit isDigit_eof inp pos hle
    have e1 := eatWhile_ge isDigit isDigit_eof inp pos
    split
    · rename_i hdot
      have hdf := ((digit_dot_x_facts _).1 hdot)
      have hb := endOK_bump_ascii inp _ e2 hdf.1 hdf.2
      exact eatWhile_endOK_consumed _ _ (fun b hb' => (consumed_ascii b).2.1 hb') inp _
        (bump_le_size e2) hb.2.1 hb.2.2
    · exact eatWhile_endOK_consumed _ _ (fun b hb' => (consumed_ascii b).2.1 hb') inp _ hle h0 hprev

set_option maxRecDepth 100000 in
theorem first_ascii_facts : ∀ b : UInt8,
    (isAsciiWhitespace b = true → b < 0x80) ∧ ((b == 0x23) = true → b < 0x80) ∧ ((b == 0x22) = true → b < 0x80) ∧
    (isDigit b = true → b < 0x80) ∧ ((b == 0x30) = true → b < 0x80) ∧ ((b == 0x40) = true → b < 0x80) ∧
    ((b == 0x2D) = true → b < 0x80) ∧ ((b == 0x6E || b == 0x75 || b == 0x64) = true → b < 0x80) := by
  apply forall_uint8
  decide

/-- every arm of `next_token`'s dispatch ends at an `EndOK` position; `first` is the byte just before `pos` -/
theorem dispatch_endOK (inp : Bytes) (st : LexState) (first : UInt8) (pos : Nat) (hle : pos ≤ inp.size)
    (h0 : 0 < pos) (hfirst : nth inp (pos - 1) 0 = first) : EndOK inp (dispatch inp st first pos).2 := by
  have fa := first_ascii_facts first
  have stopOK := fun p hp hs => eatWhile_endOK_stop p hp hs inp pos hle
  have consOK := fun p hp hc (ha : first < 0x80) =>
    eatWhile_endOK_consumed p hp hc inp pos hle h0 (by rw [hfirst]; exact ha)
  unfold dispatch
  split; · exact stopOK _ _ (fun b h => (stop_ascii b).2.2.2 h)
  split
  · rename_i _ hws
    exact consOK _ _ (fun b h => (consumed_ascii b).1 h) (fa.1 hws)
  split; · exact stopOK _ _ (fun b h => (stop_ascii b).1 h)
  split
  · unfold string
    dsimp only
    have e2 := eatWhile_le_size stringCont stringCont_eof inp pos hle
    split
    · rename_i hq
      have hqf := (digit_dot_x_facts _).2.2 hq
      exact (endOK_bump_ascii inp _ e2 hqf.1 hqf.2).1
    · exact stopOK _ _ (fun b h => (stop_ascii b).2.1 h)
  split
  · rename_i _ _ _ _ hd
    have hd' : isDigit first = true := by
      simp only [Bool.and_eq_true] at hd
      exact hd.1
    exact consOK _ _ (fun b h => (consumed_ascii b).2.1 h) (fa.2.2.2.1 hd')
  split
  · rename_i h30
    exact number_endOK inp pos true hle h0 (by rw [hfirst]; exact fa.2.2.2.2.1 h30)
  split
  · rename_i hd
    exact number_endOK inp pos false hle h0 (by rw [hfirst]; exact fa.2.2.2.1 hd)
  split; · exact stopOK _ _ (fun b h => (stop_ascii b).2.2.1 h)
  split
  · rename_i hm
    have hprev : nth inp (pos - 1) 0 < 0x80 := by rw [hfirst]; exact fa.2.2.2.2.2.2.1 hm
    unfold hyphenOrMinus
    split; · exact endOK_after_ascii inp pos hle h0 hprev
    split; · exact number_endOK inp pos false hle h0 hprev
    exact endOK_after_ascii inp pos hle h0 hprev
  split
  · rename_i k hk
    exact endOK_after_ascii inp pos hle h0 (by rw [hfirst]; exact punct_ascii first (by rw [hk]; rfl))
  · split
    · rename_i hs
      have hs' : (first == 0x6E || first == 0x75 || first == 0x64) = true := by
        simp only [Bool.and_eq_true] at hs
        exact hs.1
      exact endOK_after_ascii inp pos hle h0 (by rw [hfirst]; exact fa.2.2.2.2.2.2.2 hs')
    · unfold ident
      dsimp only
      split <;> exact stopOK _ _ (fun b h => (stop_ascii b).2.2.1 h)

/-- every token of the lexer (with or without the fix) ends at an `EndOK` position -/
theorem nextTokenWith_endOK (e : Bool) (inp : Bytes) (st : LexState) (hle : st.pos ≤ inp.size)
    (hk : (nextTokenWith e inp st).1 ≠ .eof) : EndOK inp (nextTokenWith e inp st).2.pos := by
  unfold nextTokenWith at hk ⊢
  dsimp only at hk ⊢
  split
  · rename_i hc
    rw [if_pos hc] at hk
    exact absurd rfl hk
  · rename_i hne
    have hlt : st.pos < inp.size := by
      simp only [Bool.or_eq_true, decide_eq_true_eq, not_or, Nat.not_le] at hne
      exact hne.1
    have hb : bump inp st.pos = st.pos + 1 := bump_after inp st.pos hlt
    rw [hb]
    exact dispatch_endOK inp st (nth inp st.pos 0) (st.pos + 1) (by omega) (by omega) (by simp)

theorem fromKeyword_ne_eof (w : List UInt8) : (fromKeyword w).getD .ident ≠ .eof := by
  unfold fromKeyword
  split <;> simp

theorem number_ne_eof (inp : Bytes) (pos : Nat) (lz : Bool) : (number inp pos lz).1 ≠ .eof := by
  unfold number
  dsimp only
  repeat' split
  all_goals simp

set_option maxRecDepth 100000 in
theorem punct_ne_eof : ∀ b : UInt8, punct b ≠ some .eof := by
  apply forall_uint8
  decide

theorem dispatch_ne_eof (inp : Bytes) (st : LexState) (first : UInt8) (pos : Nat) :
    (dispatch inp st first pos).1 ≠ .eof := by
  unfold dispatch
  split; · simp [path]
  split; · simp [whitespace]
  split; · simp [comment]
  split
  · unfold string; dsimp only; split <;> simp
  split; · simp [cid]
  split; · exact number_ne_eof _ _ _
  split; · exact number_ne_eof _ _ _
  split; · simp [glyphClassName]
  split
  · unfold hyphenOrMinus
    split; · simp
    split; · exact number_ne_eof _ _ _
    simp
  split
  · rename_i k hk
    intro h
    dsimp only at h
    rw [h] at hk
    exact punct_ne_eof first hk
  · split
    · simp
    · unfold ident
      dsimp only
      split
      · simp
      · exact fromKeyword_ne_eof _

/-- when does the lexer report `Eof`: at the end of the input, or (unchanged tree only) on a NUL byte -/
theorem nextTokenWith_eof (e : Bool) (inp : Bytes) (st : LexState) (hle : st.pos ≤ inp.size)
    (hk : (nextTokenWith e inp st).1 = .eof) :
    st.pos = inp.size ∨ (e = true ∧ st.pos < inp.size ∧ nth inp st.pos 0 = EOF) := by
  unfold nextTokenWith at hk
  dsimp only at hk
  split at hk
  · rename_i hc
    simp only [Bool.or_eq_true, decide_eq_true_eq, Bool.and_eq_true, beq_iff_eq] at hc
    rcases hc with hc | hc
    · left; omega
    · by_cases hlt : st.pos < inp.size
      · right; exact ⟨hc.1, hlt, hc.2⟩
      · left; omega
  · exact absurd hk (dispatch_ne_eof _ _ _ _)

end Fontc.FeaLex
