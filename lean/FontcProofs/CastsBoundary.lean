/-
  C19 helper lemmas, part 4: boundary maps of the fields narrowed by ot_round.
-/
import FontcProofs.CastsProfile
import FontcProofs.Rounding
namespace Fontc.Casts
open Fontc

theorem i16Round_pipeline_old (f : Field) (h : isI16Round f = true) (v : Rat) (p : Profile) :
    fieldPipelineOld f v p = .ok (otRoundI16 v : Int) ∧ ideal f v = (otRound v : Int) ∧
    (Representable f v ↔ inI16 (otRound v)) := by
  cases f <;> simp [isI16Round] at h <;> exact ⟨rfl, rfl, Iff.rfl⟩

theorem u16Round_pipeline_old (f : Field) (h : isU16Round f = true) (v : Rat) (p : Profile) :
    fieldPipelineOld f v p = .ok (otRoundU16 v : Int) ∧ ideal f v = (otRound v : Int) ∧
    (Representable f v ↔ inU16 (otRound v)) := by
  cases f <;> simp [isU16Round] at h <;> exact ⟨rfl, rfl, Iff.rfl⟩

/-- Boundary map of an i16-rounded field. -/
theorem boundary_i16Round_old (f : Field) (h : isI16Round f = true) (v : Rat) (p : Profile) :
    (Representable f v ↔ (-32768 - 1/2 : Rat) ≤ v ∧ v < 32767 + 1/2) ∧
    fieldPipelineOld f 32767 p = .ok 32767 ∧ fieldPipelineOld f (-32768) p = .ok (-32768) ∧
    ((32767 + 1/2 : Rat) ≤ v → fieldPipelineOld f v p = .ok 32767) ∧
    (v < (-32768 - 1/2 : Rat) → fieldPipelineOld f v p = .ok (-32768)) := by
  have hp := fun w => (i16Round_pipeline_old f h w p)
  refine ⟨?_, ?_, ?_, ?_, ?_⟩
  · rw [(hp v).2.2, inI16_otRound_iff]
  · rw [(hp 32767).1]
    have : otRound (32767 : Rat) = 32767 := otRound_intCast 32767
    simp [otRoundI16, this, satI16]
  · rw [(hp (-32768)).1]
    have : otRound (-32768 : Rat) = -32768 := otRound_intCast (-32768)
    simp [otRoundI16, this, satI16]
  · intro hv
    rw [(hp v).1]
    have : 32767 < otRound v := by
      have := (otRound_ge_iff v 32768).2 (by simp; grind)
      omega
    simp [otRoundI16, satI16_above this]
  · intro hv
    rw [(hp v).1]
    have : otRound v < -32768 := by
      have := (otRound_le_iff v (-32769)).2 (by simp; grind)
      omega
    simp [otRoundI16, satI16_below this]

theorem boundary_u16Round_old (f : Field) (h : isU16Round f = true) (v : Rat) (p : Profile) :
    (Representable f v ↔ (-1/2 : Rat) ≤ v ∧ v < 65535 + 1/2) ∧
    fieldPipelineOld f 65535 p = .ok 65535 ∧ fieldPipelineOld f 0 p = .ok 0 ∧
    ((65535 + 1/2 : Rat) ≤ v → fieldPipelineOld f v p = .ok 65535) ∧
    (v < (-1/2 : Rat) → fieldPipelineOld f v p = .ok 0) := by
  have hp := fun w => (u16Round_pipeline_old f h w p)
  refine ⟨?_, ?_, ?_, ?_, ?_⟩
  · rw [(hp v).2.2, inU16_otRound_iff]
  · rw [(hp 65535).1]
    have : otRound (65535 : Rat) = 65535 := otRound_intCast 65535
    simp [otRoundU16, this, satU16]
  · rw [(hp 0).1]
    have : otRound (0 : Rat) = 0 := otRound_intCast 0
    simp [otRoundU16, this, satU16]
  · intro hv
    rw [(hp v).1]
    have : 65535 < otRound v := by
      have := (otRound_ge_iff v 65536).2 (by simp; grind)
      omega
    simp [otRoundU16, satU16_above this]
  · intro hv
    rw [(hp v).1]
    have : otRound v < 0 := by
      have := (otRound_le_iff v (-1)).2 (by simp; grind)
      omega
    simp [otRoundU16, satU16_below this]

end Fontc.Casts
