/-
  Helper lemmas for C13: running the lexer model to the end (`lexAllWith`).
    * all token lengths are positive, all token ends are `EndOK` positions inside the input
    * the lengths add up to the position at which `Eof` was reported: the end of the input — or, for the
      lexer of the unchanged tree, the first NUL byte (`lexAll_total_le_nul`)
-/
import FontcProofs.FeaLex

namespace Fontc.FeaLex

set_option linter.unusedVariables false

theorem nth_eq_getElem (inp : Bytes) (i : Nat) (h : i < inp.size) : nth inp i 0 = inp[i] := by
  unfold nth
  simp only [Nat.add_zero]
  rw [dif_pos h]

theorem totalLen_cons (k : Kind) (n : Nat) (rest : List (Kind × Nat)) :
    totalLen ((k, n) :: rest) = n + totalLen rest := by
  simp [totalLen]

theorem totalLen_nil : totalLen [] = 0 := by simp [totalLen]

/-- token lengths are positive -/
theorem lexAllWith_pos (e : Bool) (inp : Bytes) (st : LexState) :
    ∀ t ∈ lexAllWith e inp st, 0 < t.2 := by
  fun_induction lexAllWith e inp st with
  | case1 st hle r hk => intro t ht; cases ht
  | case2 st hle r hk ih =>
    intro t ht
    rcases List.mem_cons.1 ht with h | h
    · rw [h]
      have hlt : st.pos < r.2.pos := (nextTokenWith_progress e inp st hle).2.2 hk
      show 0 < r.2.pos - st.pos
      omega
    · exact ih t h
  | case3 st hle => intro t ht; cases ht

/-- every token end is an `EndOK` position inside the input -/
theorem lexAllWith_boundaries (e : Bool) (inp : Bytes) (st : LexState) :
    ∀ p ∈ boundaries st.pos (lexAllWith e inp st), EndOK inp p ∧ st.pos < p ∧ p ≤ inp.size := by
  fun_induction lexAllWith e inp st with
  | case1 st hle r hk => intro p hp; simp [boundaries] at hp
  | case2 st hle r hk ih =>
    intro p hp
    have hprog := nextTokenWith_progress e inp st hle
    have hlt : st.pos < r.2.pos := hprog.2.2 hk
    have hsz : r.2.pos ≤ inp.size := hprog.2.1
    have hend : st.pos + (r.2.pos - st.pos) = r.2.pos := by omega
    simp only [boundaries, hend, List.mem_cons] at hp
    rcases hp with h | h
    · rw [h]
      exact ⟨nextTokenWith_endOK e inp st hle hk, hlt, hsz⟩
    · have := ih p h
      exact ⟨this.1, by omega, this.2.2⟩
  | case3 st hle => intro p hp; simp [boundaries] at hp

/-- the lengths add up to a position at which `next_token` reports `Eof` -/
theorem lexAllWith_total (e : Bool) (inp : Bytes) (st : LexState) (hle : st.pos ≤ inp.size) :
    st.pos + totalLen (lexAllWith e inp st) = inp.size ∨
    (e = true ∧ st.pos + totalLen (lexAllWith e inp st) < inp.size ∧
      nth inp (st.pos + totalLen (lexAllWith e inp st)) 0 = EOF) := by
  fun_induction lexAllWith e inp st with
  | case1 st hle' r hk =>
    rw [totalLen_nil, Nat.add_zero]
    rcases nextTokenWith_eof e inp st hle' hk with h | h
    · left; exact h
    · right; exact h
  | case2 st hle' r hk ih =>
    have hprog := nextTokenWith_progress e inp st hle'
    have hlt : st.pos < r.2.pos := hprog.2.2 hk
    have hsz : r.2.pos ≤ inp.size := hprog.2.1
    rw [totalLen_cons]
    have hend : st.pos + (r.2.pos - st.pos + totalLen (lexAllWith e inp r.2)) =
        r.2.pos + totalLen (lexAllWith e inp r.2) := by omega
    rw [hend]
    exact ih hsz
  | case3 st hle' => exact absurd hle hle'

/-- without a NUL byte (or with the fix) the lengths add up to the whole input -/
theorem lexAllWith_total_eq (e : Bool) (inp : Bytes) (st : LexState) (hle : st.pos ≤ inp.size)
    (h : e = false ∨ ∀ i, i < inp.size → nth inp i 0 ≠ EOF) :
    st.pos + totalLen (lexAllWith e inp st) = inp.size := by
  rcases lexAllWith_total e inp st hle with h1 | ⟨he, hlt, hz⟩
  · exact h1
  · rcases h with h | h
    · rw [h] at he; cases he
    · exact absurd hz (h _ hlt)

-- ------------------------------------------------------------------------------------------------
-- The NUL defect, in general: no token of the unchanged lexer crosses a NUL byte, and lexing stops there.

theorem eatWhile_le_nul (p : UInt8 → Bool) (hp : p EOF = false) (inp : Bytes) (pos k : Nat)
    (hk : nth inp k 0 = EOF) (hle : pos ≤ k) : eatWhile p hp inp pos ≤ k := by
  fun_induction eatWhile p hp inp pos with
  | case1 pos h ih =>
    have hne : pos ≠ k := by
      intro heq
      rw [heq, hk, hp] at h
      exact Bool.false_ne_true h
    apply ih
    unfold bump
    split <;> omega
  | case2 pos h => exact hle

theorem bump_le_nul (inp : Bytes) (pos k : Nat) (hk : nth inp k 0 = EOF) (hle : pos ≤ k)
    (hne : nth inp pos 0 ≠ EOF) : bump inp pos ≤ k := by
  have : pos ≠ k := by
    intro heq
    rw [heq] at hne
    exact hne hk
  unfold bump
  split <;> omega

theorem number_le_nul (inp : Bytes) (pos k : Nat) (lz : Bool) (hk : nth inp k 0 = EOF) (hle : pos ≤ k) :
    (number inp pos lz).2 ≤ k := by
  unfold number
  split
  · split
    · rename_i hx
      dsimp only
      have hb := bump_le_nul inp pos k hk hle ((digit_dot_x_facts _).2.1 hx).2
      split
      · exact eatWhile_le_nul _ _ _ _ _ hk hb
      · exact hb
    · split
      · exact eatWhile_le_nul _ _ _ _ _ hk hle
      · exact hle
  · dsimp only
    have e1 := eatWhile_le_nul isDigit isDigit_eof inp pos k hk hle
    split
    · rename_i hdot
      exact eatWhile_le_nul _ _ _ _ _ hk (bump_le_nul inp _ k hk e1 ((digit_dot_x_facts _).1 hdot).2)
    · exact e1

theorem dispatch_le_nul (inp : Bytes) (st : LexState) (first : UInt8) (pos k : Nat)
    (hk : nth inp k 0 = EOF) (hle : pos ≤ k) : (dispatch inp st first pos).2 ≤ k := by
  have ew := fun p hp => eatWhile_le_nul p hp inp pos k hk hle
  unfold dispatch
  split; · exact ew _ _
  split; · exact ew _ _
  split; · exact ew _ _
  split
  · unfold string
    dsimp only
    split
    · rename_i hq
      exact bump_le_nul inp _ k hk (ew _ _) ((digit_dot_x_facts _).2.2 hq).2
    · exact ew _ _
  split; · exact ew _ _
  split; · exact number_le_nul inp pos k true hk hle
  split; · exact number_le_nul inp pos k false hk hle
  split; · exact ew _ _
  split
  · unfold hyphenOrMinus
    split; · exact hle
    split; · exact number_le_nul inp pos k false hk hle
    exact hle
  split
  · exact hle
  · split
    · exact hle
    · unfold ident
      dsimp only
      split <;> exact ew _ _

/-- a token that starts before a NUL byte ends at or before it; at the NUL byte the unchanged lexer reports `Eof` -/
theorem nextToken_le_nul (inp : Bytes) (st : LexState) (k : Nat) (hk : nth inp k 0 = EOF) (hks : k < inp.size)
    (hle : st.pos ≤ k) :
    (st.pos = k → (nextTokenWith true inp st).1 = .eof) ∧
    (st.pos < k → (nextTokenWith true inp st).2.pos ≤ k) := by
  constructor
  · intro heq
    unfold nextTokenWith
    dsimp only
    rw [heq, hk]
    simp
  · intro hlt
    unfold nextTokenWith
    dsimp only
    have hb : bump inp st.pos = st.pos + 1 := bump_after inp st.pos (by omega)
    split
    · rw [hb]; omega
    · rw [hb]; exact dispatch_le_nul inp st _ (st.pos + 1) k hk (by omega)

theorem lexAllWith_total_le_nul (inp : Bytes) (st : LexState) (k : Nat) (hk : nth inp k 0 = EOF)
    (hks : k < inp.size) (hle : st.pos ≤ k) : st.pos + totalLen (lexAllWith true inp st) ≤ k := by
  fun_induction lexAllWith true inp st with
  | case1 st hle' r hkind => rw [totalLen_nil]; omega
  | case2 st hle' r hkind ih =>
    have h := nextToken_le_nul inp st k hk hks hle
    have h1 : st.pos = k → r.1 = .eof := h.1
    have h2 : st.pos < k → r.2.pos ≤ k := h.2
    have hlt : st.pos < k := by
      rcases Nat.lt_or_ge st.pos k with h3 | h3
      · exact h3
      · exact absurd (h1 (by omega)) hkind
    have hr : r.2.pos ≤ k := h2 hlt
    have hprog : st.pos < r.2.pos := (nextTokenWith_progress true inp st hle').2.2 hkind
    rw [totalLen_cons]
    have := ih hr
    omega
  | case3 st hle' => rw [totalLen_nil]; omega

/-- the tokens of the unchanged lexer cover at most the text in front of the first NUL byte -/
theorem lexAll_total_le_nul (inp : Bytes) (k : Nat) (hk : nth inp k 0 = EOF) (hks : k < inp.size) :
    totalLen (lexAll inp) ≤ k := by
  have := lexAllWith_total_le_nul inp {} k hk hks (Nat.zero_le _)
  simpa [lexAll] using this

end Fontc.FeaLex
