import FontcProofs.SchedCheckSound
namespace Fontc.Sched

/-- ids inserted by a list of effects -/
def effIds (es : List Effect) : List Id :=
  es.flatMap fun e => match e with
    | .add j => j.ids
    | _ => []

theorem addedIds_eq (sc : Script) (q : Id) : sc.addedIds q = effIds (sc.effects q) := rfl

theorem insertJob_inserted_eq {s s' : State} {j : Job} (h : s.insertJob j = some s') :
    s'.inserted = j.id :: (j.also.reverse ++ s.inserted) ∧ j.ids.Nodup := by
  obtain ⟨_, cs, rfl, _, hnd, _⟩ := insertJob_spec h
  exact ⟨rfl, hnd⟩

theorem insertJob_nodup {s s' : State} {j : Job} (h : s.insertJob j = some s') (hn : s.inserted.Nodup)
    (hd : ∀ x ∈ j.ids, x ∉ s.inserted) : s'.inserted.Nodup := by
  obtain ⟨e, hnd⟩ := insertJob_inserted_eq h
  rw [e]
  simp only [Job.ids, List.nodup_cons, List.mem_cons, forall_eq_or_imp] at hnd hd
  simp only [List.nodup_cons, List.mem_append, List.mem_reverse, not_or]
  refine ⟨⟨hnd.1, hd.1⟩, ?_⟩
  rw [List.nodup_append]
  refine ⟨(List.reverse_perm _).nodup_iff.2 hnd.2, hn, ?_⟩
  intro a ha b hb hab
  simp only [List.mem_reverse] at ha
  exact hd.2 a ha (hab ▸ hb)

theorem insertJob_mem_inserted {s s' : State} {j : Job} (h : s.insertJob j = some s') :
    ∀ x, x ∈ s'.inserted ↔ x ∈ j.ids ∨ x ∈ s.inserted := by
  obtain ⟨e, _⟩ := insertJob_inserted_eq h
  intro x
  rw [e]
  simp [Job.ids, or_assoc]

theorem applyEffect_mem_inserted {s s' : State} {e : Effect} (h : s.applyEffect e = some s') :
    ∀ x, x ∈ s'.inserted ↔ x ∈ effIds [e] ∨ x ∈ s.inserted := by
  intro x
  cases e with
  | add j => simpa [effIds] using insertJob_mem_inserted h x
  | rewrite i a m => have := rewrite_spec h; subst this; simp [effIds]
  | skip i =>
    rcases skip_spec h with ⟨_, rfl⟩ | ⟨o, cs, _, _, _, _, _, hc⟩
    · simp [effIds]
    · obtain ⟨rfl, _, _⟩ := complete_spec hc; simp [effIds]
  | guard i st =>
    simp only [State.applyEffect] at h
    split at h
    · simp at h; subst h; simp [effIds]
    · simp at h

theorem effIds_cons (e : Effect) (es : List Effect) : effIds (e :: es) = effIds [e] ++ effIds es := by
  simp [effIds]

theorem mem_effIds_cons (e : Effect) (es : List Effect) (x : Id) :
    x ∈ effIds (e :: es) ↔ x ∈ effIds [e] ∨ x ∈ effIds es := by
  rw [effIds_cons, List.mem_append]

theorem applyEffects_mem_inserted {es : List Effect} {s s' : State} (h : s.applyEffects es = some s') :
    ∀ x, x ∈ s'.inserted ↔ x ∈ effIds es ∨ x ∈ s.inserted := by
  induction es generalizing s with
  | nil => simp [State.applyEffects] at h; subst h; simp [effIds]
  | cons e es ih =>
    simp only [State.applyEffects] at h
    obtain ⟨s1, h1, h2⟩ := Option.bind_eq_some_iff.1 h
    intro x
    rw [ih h2 x, applyEffect_mem_inserted h1 x, mem_effIds_cons e es x]
    constructor
    · rintro (h | h | h)
      · exact Or.inl (Or.inr h)
      · exact Or.inl (Or.inl h)
      · exact Or.inr h
    · rintro ((h | h) | h)
      · exact Or.inr (Or.inl h)
      · exact Or.inl h
      · exact Or.inr (Or.inr h)

theorem applyEffects_nodup {es : List Effect} {s s' : State} (h : s.applyEffects es = some s') (hn : s.inserted.Nodup)
    (hes : (effIds es).Nodup) (hd : ∀ x ∈ effIds es, x ∉ s.inserted) : s'.inserted.Nodup := by
  induction es generalizing s with
  | nil => simp [State.applyEffects] at h; subst h; exact hn
  | cons e es ih =>
    simp only [State.applyEffects] at h
    obtain ⟨s1, h1, h2⟩ := Option.bind_eq_some_iff.1 h
    rw [effIds_cons, List.nodup_append] at hes
    have hd1 : ∀ x ∈ effIds [e], x ∉ s.inserted := fun x hx => hd x ((mem_effIds_cons e es x).2 (Or.inl hx))
    have hn1 : s1.inserted.Nodup := by
      cases e with
      | add j => exact insertJob_nodup h1 hn (by simpa [effIds] using hd1)
      | rewrite i a m => have := rewrite_spec h1; subst this; exact hn
      | skip i =>
        rcases skip_spec h1 with ⟨_, rfl⟩ | ⟨o, cs, _, _, _, _, _, hc⟩
        · exact hn
        · obtain ⟨rfl, _, _⟩ := complete_spec hc; exact hn
      | guard i st =>
        simp only [State.applyEffect] at h1
        split at h1
        · simp at h1; subst h1; exact hn
        · simp at h1
    apply ih h2 hn1 hes.2.1
    intro x hx hin
    rcases (applyEffect_mem_inserted h1 x).1 hin with h3 | h3
    · exact hes.2.2 x h3 x hx rfl
    · exact hd x ((mem_effIds_cons e es x).2 (Or.inr hx)) h3

theorem insertAll_mem_inserted {js : List Job} {s s' : State} (h : s.insertAll js = some s') :
    ∀ x, x ∈ s'.inserted ↔ x ∈ js.flatMap Job.ids ∨ x ∈ s.inserted := by
  induction js generalizing s with
  | nil => simp [State.insertAll] at h; subst h; simp
  | cons j js ih =>
    simp only [State.insertAll] at h
    obtain ⟨s1, h1, h2⟩ := Option.bind_eq_some_iff.1 h
    intro x
    rw [ih h2 x, insertJob_mem_inserted h1 x]
    simp only [List.flatMap_cons, List.mem_append]
    constructor
    · rintro (h | h | h)
      · exact Or.inl (Or.inr h)
      · exact Or.inl (Or.inl h)
      · exact Or.inr h
    · rintro ((h | h) | h)
      · exact Or.inr (Or.inl h)
      · exact Or.inl h
      · exact Or.inr (Or.inr h)

theorem insertAll_nodup {js : List Job} {s s' : State} (h : s.insertAll js = some s') (hn : s.inserted.Nodup)
    (hjs : (js.flatMap Job.ids).Nodup) (hd : ∀ x ∈ js.flatMap Job.ids, x ∉ s.inserted) : s'.inserted.Nodup := by
  induction js generalizing s with
  | nil => simp [State.insertAll] at h; subst h; exact hn
  | cons j js ih =>
    simp only [State.insertAll] at h
    obtain ⟨s1, h1, h2⟩ := Option.bind_eq_some_iff.1 h
    simp only [List.flatMap_cons] at hjs hd
    rw [List.nodup_append] at hjs
    have hn1 := insertJob_nodup h1 hn (fun x hx => hd x (by simp [hx]))
    apply ih h2 hn1 hjs.2.1
    intro x hx hin
    rcases (insertJob_mem_inserted h1 x).1 hin with h3 | h3
    · exact hjs.2.2 x h3 x hx rfl
    · exact hd x (by simp [hx]) h3

/-! ### what `freshIds` gives -/

theorem effects_entry {sc : Script} (q : Id) :
    sc.effects q = [] ∨ ∃ p ∈ sc.onDeliver, p.1 = q ∧ sc.effects q = p.2 := by
  unfold Script.effects
  split
  · rename_i p hp
    right
    exact ⟨p, List.mem_of_find?_eq_some hp, by simpa using List.find?_some hp, rfl⟩
  · left; rfl

theorem addedIds_entry {sc : Script} (q : Id) :
    sc.addedIds q = [] ∨ ∃ p ∈ sc.onDeliver, p.1 = q ∧ sc.addedIds q = entryIds p := by
  rcases effects_entry (sc := sc) q with h | ⟨p, hp, hq, he⟩
  · left; simp [Script.addedIds, h]
  · right; exact ⟨p, hp, hq, by simp [Script.addedIds, he, entryIds]⟩

structure FreshFacts (sc : Script) : Prop where
  init_nodup : sc.initIds.Nodup
  added_nodup : ∀ q, (sc.addedIds q).Nodup
  added_not_init : ∀ q, ∀ x ∈ sc.addedIds q, x ∉ sc.initIds
  added_disjoint : ∀ q q', q ≠ q' → ∀ x ∈ sc.addedIds q, x ∉ sc.addedIds q'

theorem freshFacts {sc : Script} (h : freshIds sc = true) : FreshFacts sc := by
  simp only [freshIds, Bool.and_eq_true, decide_eq_true_eq, List.all_eq_true, Bool.or_eq_true, Bool.not_eq_true',
    List.contains_eq_mem, decide_eq_false_iff_not] at h
  obtain ⟨hinit, hall⟩ := h
  constructor
  · exact hinit
  · intro q
    rcases addedIds_entry (sc := sc) q with h | ⟨p, hp, _, he⟩
    · rw [h]; exact List.nodup_nil
    · rw [he]; exact (hall p hp).1.1
  · intro q x hx
    rcases addedIds_entry (sc := sc) q with h | ⟨p, hp, _, he⟩
    · rw [h] at hx; simp at hx
    · rw [he] at hx; exact (hall p hp).1.2 x hx
  · intro q q' hne x hx hx'
    rcases addedIds_entry (sc := sc) q with h | ⟨p, hp, hpq, he⟩
    · rw [h] at hx; simp at hx
    · rcases addedIds_entry (sc := sc) q' with h' | ⟨p', hp', hpq', he'⟩
      · rw [h'] at hx'; simp at hx'
      · rw [he] at hx; rw [he'] at hx'
        rcases (hall p hp).2 p' hp' with heq | hdis
        · exact hne (hpq.symm.trans (heq.symm.trans hpq'))
        · exact hdis x hx hx'

/-- Under `freshIds`, no id is ever inserted twice, in any schedule. -/
theorem fresh_sound {sc : Script} (hf : freshIds sc = true) {s : State} (r : ReachInit sc s) :
    s.inserted.Nodup ∧ ∀ q, q ∉ s.delivered → ∀ x ∈ sc.addedIds q, x ∉ s.inserted := by
  have ff := freshFacts hf
  induction r with
  | init h =>
    rw [initState] at h
    have hmem := insertAll_mem_inserted h
    refine ⟨insertAll_nodup h (by simp [State.empty]) ff.init_nodup (by simp [State.empty]), ?_⟩
    intro q _ x hx hin
    rcases (hmem x).1 hin with h1 | h1
    · exact ff.added_not_init q x hx h1
    · simp [State.empty] at h1
  | launch id _ h ih =>
    obtain ⟨e, _, _, _, rfl⟩ := launch_spec h
    exact ih
  | finish id _ h ih =>
    obtain ⟨e, cs, _, _, _, _, _, rfl⟩ := finish_spec h
    exact ih
  | deliver id r h ih =>
    rename_i s0 s1
    obtain ⟨hn0, hd0⟩ := ih
    have w := r.reach.wf hn0
    have hh := r.reach.hist hn0
    unfold State.deliver at h
    obtain ⟨sr, h1, h2⟩ := Option.bind_eq_some_iff.1 h
    -- `id` has not been delivered before
    have hnd : id ∉ s0.delivered := by
      intro hdel
      obtain ⟨hin, _, _⟩ := receive_spec h1
      obtain ⟨o, ho, rfl, _⟩ := w.inflight_running id hin
      exact w.disjoint o ho (hh.delivered_success _ hdel)
    have hsr : sr.inserted = s0.inserted := by
      obtain ⟨_, _, hc⟩ := receive_spec h1
      obtain ⟨rfl, _, _⟩ := complete_spec hc
      rfl
    have hmem := applyEffects_mem_inserted h2
    rw [hsr] at hmem
    refine ⟨applyEffects_nodup h2 (by rw [hsr]; exact hn0) (ff.added_nodup id) (by rw [hsr]; exact hd0 id hnd), ?_⟩
    intro q hq x hx hin
    rw [applyEffects_delivered h2, receive_delivered h1] at hq
    simp only [List.mem_cons, not_or] at hq
    rcases (hmem x).1 hin with h3 | h3
    · exact ff.added_disjoint q id hq.1 x hx h3
    · exact hd0 q hq.2 x hx h3

end Fontc.Sched
