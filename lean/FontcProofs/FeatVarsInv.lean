/-
  The invariant of the overlay loop of `overlay_feature_variations`, for any lawful rank representation.
-/
import FontcProofs.FeatVarsOnto

namespace Fontc.FeatVars

/-- What the overlay needs from a rank representation, for rule lists of length `N`:
    a bit-set reading `bits` under which the operations are set operations, on the ranks that can occur (`Inv`). -/
structure LawfulRank {ρ : Type} (ops : RankOps ρ) (N : Nat) where
  Inv : ρ → Prop
  bits : ρ → Nat → Bool
  inv_zero : Inv ops.zero
  inv_single : ∀ i, i < N → Inv (ops.single i)
  inv_or : ∀ a b, Inv a → Inv b → Inv (ops.or a b)
  inv_orAssign : ∀ a b, Inv a → Inv b → Inv (ops.orAssign a b)
  inv_shift : ∀ a, Inv a → Inv (ops.shift a)
  bits_lt : ∀ a j, Inv a → bits a j = true → j < N
  bits_zero : ∀ j, bits ops.zero j = false
  bits_single : ∀ i j, i < N → bits (ops.single i) j = decide (j = i)
  bits_or : ∀ a b j, Inv a → Inv b → bits (ops.or a b) j = (bits a j || bits b j)
  bits_orAssign : ∀ a b j, Inv a → Inv b → bits (ops.orAssign a b) j = (bits a j || bits b j)
  /-- the comparison used for sorting is `≤` on some key … -/
  key : ρ → Nat
  le_iff : ∀ a b, Inv a → Inv b → (ops.le a b = true ↔ key a ≤ key b)
  /-- … which, among the non-zero ranks, orders by number of set bits, most first -/
  key_card : ∀ a b, Inv a → Inv b → ops.isZero a = false → ops.isZero b = false →
    (key a ≤ key b ↔ ((List.range N).filter (bits b)).length ≤ ((List.range N).filter (bits a)).length)
  isZero_iff : ∀ a, Inv a → (ops.isZero a = true ↔ ∀ j, bits a j = false)
  firstBit_eq : ∀ a, Inv a → ops.firstBit a = bits a 0
  bits_shift : ∀ a j, Inv a → bits (ops.shift a) j = bits a (j + 1)
  /-- the fuel given to the extraction loop suffices -/
  bound_spec : ∀ a j, Inv a → bits a j = true → j < ops.bound a

section
variable {κ ν : Type} [BEq κ] [LawfulBEq κ]

theorem mem_imUpsert {k : κ} {ins : ν} {upd : ν → ν} {m : List (κ × ν)} {e : κ × ν}
    (h : e ∈ imUpsert k ins upd m) :
    e ∈ m ∨ (e.1 = k ∧ (e.2 = ins ∨ ∃ old, (k, old) ∈ m ∧ e.2 = upd old)) := by
  induction m with
  | nil => simp [imUpsert] at h; subst h; exact Or.inr ⟨rfl, Or.inl rfl⟩
  | cons x m ih =>
    obtain ⟨k', v⟩ := x
    simp only [imUpsert] at h
    split at h
    · rename_i hk
      have hk' : k' = k := by simpa using hk
      subst hk'
      rcases List.mem_cons.1 h with h | h
      · subst h; exact Or.inr ⟨rfl, Or.inr ⟨v, by simp, rfl⟩⟩
      · exact Or.inl (List.mem_cons_of_mem _ h)
    · rcases List.mem_cons.1 h with h | h
      · subst h; exact Or.inl (by simp)
      · rcases ih h with h | ⟨h1, h2⟩
        · exact Or.inl (List.mem_cons_of_mem _ h)
        · refine Or.inr ⟨h1, ?_⟩
          rcases h2 with h2 | ⟨old, ho, h2⟩
          · exact Or.inl h2
          · exact Or.inr ⟨old, List.mem_cons_of_mem _ ho, h2⟩

/-- an entry survives an upsert, or it was the one updated -/
theorem imUpsert_keeps {k : κ} {ins : ν} {upd : ν → ν} {m : List (κ × ν)} {e : κ × ν} (h : e ∈ m) :
    e ∈ imUpsert k ins upd m ∨ (e.1 = k ∧ (k, upd e.2) ∈ imUpsert k ins upd m) := by
  induction m with
  | nil => simp at h
  | cons x m ih =>
    obtain ⟨k', v⟩ := x
    simp only [imUpsert]
    split
    · rename_i hk
      have hk' : k' = k := by simpa using hk
      subst hk'
      rcases List.mem_cons.1 h with h | h
      · subst h; exact Or.inr ⟨rfl, by simp⟩
      · exact Or.inl (List.mem_cons_of_mem _ h)
    · rcases List.mem_cons.1 h with h | h
      · subst h; exact Or.inl (by simp)
      · rcases ih h with h | ⟨h1, h2⟩
        · exact Or.inl (List.mem_cons_of_mem _ h)
        · exact Or.inr ⟨h1, List.mem_cons_of_mem _ h2⟩

/-- after an upsert the key is present, with the inserted or an updated value -/
theorem imUpsert_has {k : κ} {ins : ν} {upd : ν → ν} {m : List (κ × ν)} :
    ∃ v, (k, v) ∈ imUpsert k ins upd m ∧ (v = ins ∨ ∃ old, (k, old) ∈ m ∧ v = upd old) := by
  induction m with
  | nil => exact ⟨ins, by simp [imUpsert], Or.inl rfl⟩
  | cons x m ih =>
    obtain ⟨k', v⟩ := x
    simp only [imUpsert]
    split
    · rename_i hk
      have hk' : k' = k := by simpa using hk
      subst hk'
      exact ⟨upd v, by simp, Or.inr ⟨v, by simp, rfl⟩⟩
    · obtain ⟨v', h1, h2⟩ := ih
      refine ⟨v', List.mem_cons_of_mem _ h1, ?_⟩
      rcases h2 with h2 | ⟨old, ho, h2⟩
      · exact Or.inl h2
      · exact Or.inr ⟨old, List.mem_cons_of_mem _ ho, h2⟩
end

theorem foldl_preserve {α β : Type} {f : β → α → β} {l : List α} {P : β → Prop}
    (hP : ∀ b a, a ∈ l → P b → P (f b a)) : ∀ b, P b → P (l.foldl f b) := by
  induction l with
  | nil => intro b h; exact h
  | cons a l ih =>
    intro b h
    simp only [List.foldl_cons]
    exact ih (fun b a' ha => hP b a' (List.mem_cons_of_mem _ ha)) _ (hP b a (by simp) h)

theorem foldl_establish {α β : Type} {f : β → α → β} {l : List α} {P Q : β → Prop} {x : α} (hx : x ∈ l)
    (hP : ∀ b a, a ∈ l → P b → P (f b a)) (hQ : ∀ b a, a ∈ l → P b → Q b → Q (f b a))
    (hE : ∀ b, P b → Q (f b x)) : ∀ b, P b → Q (l.foldl f b) := by
  induction l with
  | nil => simp at hx
  | cons a l ih =>
    intro b h
    simp only [List.foldl_cons]
    rcases List.mem_cons.1 hx with hx | hx
    · subst hx
      have hq : Q (f b x) := hE b h
      have hp : P (f b x) := hP b x (by simp) h
      have : ∀ b, P b ∧ Q b → (P (l.foldl f b) ∧ Q (l.foldl f b)) := by
        intro b hb
        exact foldl_preserve (P := fun b => P b ∧ Q b)
          (fun b a ha hb => ⟨hP b a (List.mem_cons_of_mem _ ha) hb.1, hQ b a (List.mem_cons_of_mem _ ha) hb.1 hb.2⟩) b hb
      exact (this _ ⟨hp, hq⟩).2
    · exact ih hx (fun b a' ha => hP b a' (List.mem_cons_of_mem _ ha))
        (fun b a' ha => hQ b a' (List.mem_cons_of_mem _ ha)) _ (hP b a (by simp) h)

section
variable {ρ : Type} {ops : RankOps ρ} {N : Nat} (law : LawfulRank ops N)

/-- every entry is a well-shaped box over `n` axes with an admissible rank -/
def Shape (n : Nat) (m : BoxMap ρ) : Prop := ∀ e ∈ m, e.1.length = n ∧ BoxOk e.1 ∧ law.Inv e.2

/-- every box containing `p` only carries rules of the set `A` -/
def SoundAt (p : Point) (A : Nat → Prop) (m : BoxMap ρ) : Prop :=
  ∀ e ∈ m, contains e.1 p = true → ∀ j, law.bits e.2 j = true → A j

/-- some box good for `p` carries exactly the set `A` -/
def HasWit (L H : Bnd) (p : Point) (A : Nat → Prop) (m : BoxMap ρ) : Prop :=
  ∃ e ∈ m, Good L H e.1 p ∧ ∀ j, law.bits e.2 j = true ↔ A j

theorem shape_add {n : Nat} {m : BoxMap ρ} {b : NBox} {r : ρ} (hm : Shape law n m)
    (hb : b.length = n ∧ BoxOk b) (hr : law.Inv r) : Shape law n (boxmapAdd ops m b r) := by
  intro e he
  rcases mem_imUpsert he with he | ⟨h1, h2⟩
  · exact hm e he
  · rw [h1]
    refine ⟨hb.1, hb.2, ?_⟩
    rcases h2 with h2 | ⟨old, ho, h2⟩
    · rw [h2]; exact law.inv_orAssign _ _ law.inv_zero hr
    · rw [h2]; exact law.inv_orAssign _ _ (hm _ ho).2.2 hr

theorem sound_add {n : Nat} {p : Point} {A : Nat → Prop} {m : BoxMap ρ} {b : NBox} {r : ρ}
    (hs : Shape law n m) (hm : SoundAt law p A m) (hr : law.Inv r)
    (hbr : contains b p = true → ∀ j, law.bits r j = true → A j) : SoundAt law p A (boxmapAdd ops m b r) := by
  intro e he hc j hj
  rcases mem_imUpsert he with he | ⟨h1, h2⟩
  · exact hm e he hc j hj
  · rw [h1] at hc
    rcases h2 with h2 | ⟨old, ho, h2⟩
    · rw [h2, law.bits_orAssign _ _ _ law.inv_zero hr, law.bits_zero] at hj
      exact hbr hc j (by simpa using hj)
    · rw [h2, law.bits_orAssign _ _ _ (hs _ ho).2.2 hr] at hj
      rcases Bool.or_eq_true_iff.1 hj with hj | hj
      · exact hm _ ho hc j hj
      · exact hbr hc j hj

theorem wit_add_keep {n : Nat} {L H : Bnd} {p : Point} {A : Nat → Prop} {m : BoxMap ρ} {b : NBox} {r : ρ}
    (hs : Shape law n m) (hw : HasWit law L H p A m) (hr : law.Inv r)
    (hbr : contains b p = true → ∀ j, law.bits r j = true → A j) : HasWit law L H p A (boxmapAdd ops m b r) := by
  obtain ⟨e, he, hg, hb⟩ := hw
  rcases imUpsert_keeps (k := b) (ins := ops.orAssign ops.zero r) (upd := fun old => ops.orAssign old r) he with h | ⟨h1, h2⟩
  · exact ⟨e, h, hg, hb⟩
  · refine ⟨_, h2, ?_, ?_⟩
    · simpa [← h1] using hg
    · intro j
      simp only [law.bits_orAssign _ _ _ (hs _ he).2.2 hr, Bool.or_eq_true_iff]
      constructor
      · rintro (hj | hj)
        · exact (hb j).1 hj
        · exact hbr (by rw [← h1]; exact hg.contains) j hj
      · intro hj; exact Or.inl ((hb j).2 hj)

theorem wit_add_new {n : Nat} {L H : Bnd} {p : Point} {A : Nat → Prop} {m : BoxMap ρ} {b : NBox} {r : ρ}
    (hs : Shape law n m) (hm : SoundAt law p A m) (hr : law.Inv r)
    (hg : Good L H b p) (hb : ∀ j, law.bits r j = true ↔ A j) : HasWit law L H p A (boxmapAdd ops m b r) := by
  obtain ⟨v, hv, h2⟩ := imUpsert_has (k := b) (ins := ops.orAssign ops.zero r) (upd := fun old => ops.orAssign old r) (m := m)
  refine ⟨_, hv, hg, ?_⟩
  intro j
  rcases h2 with h2 | ⟨old, ho, h2⟩
  · simp only [h2, law.bits_orAssign _ _ _ law.inv_zero hr, law.bits_zero, Bool.false_or]
    exact hb j
  · simp only [h2, law.bits_orAssign _ _ _ (hs _ ho).2.2 hr, Bool.or_eq_true_iff]
    constructor
    · rintro (hj | hj)
      · exact hm _ ho hg.contains j hj
      · exact (hb j).1 hj
    · intro hj; exact Or.inr ((hb j).2 hj)
end


end Fontc.FeatVars
