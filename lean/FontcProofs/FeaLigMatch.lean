/-
  C11, ligature lookups, part 1: facts about `matchFwd` (matching a sequence against the buffer while
  skipping ignored glyphs): the matched positions only depend on how many glyphs are matched; the
  matched glyphs determine a literal sequence; a sequence of classes matches iff one of its
  enumerated literal sequences does.
-/
import FontcModel.FeaCompile

namespace Fontc.FeaCompile
open Cmp
set_option linter.unusedSimpArgs false

def eqPreds (seq : List Glyph) : List (Glyph → Bool) := seq.map fun a y => a == y

/-- two successful matches of equally many glyphs find the same positions -/
theorem matchFwd_positions (ign : Glyph → Bool) :
    ∀ (buf : List Glyph) (p1 p2 : List (Glyph → Bool)) (off : Nat) (ps1 ps2 : List Nat),
    p1.length = p2.length → matchFwd ign p1 buf off = some ps1 → matchFwd ign p2 buf off = some ps2 → ps1 = ps2 := by
  intro buf
  induction buf with
  | nil =>
    intro p1 p2 off ps1 ps2 hl h1 h2
    cases p1 <;> cases p2 <;> simp_all [matchFwd]
  | cons g buf ih =>
    intro p1 p2 off ps1 ps2 hl h1 h2
    cases p1 with
    | nil =>
      cases p2 with
      | nil => simp_all [matchFwd]
      | cons _ _ => simp at hl
    | cons a p1 =>
      cases p2 with
      | nil => simp at hl
      | cons b p2 =>
        simp only [matchFwd] at h1 h2
        by_cases hi : ign g = true
        · simp only [hi, ↓reduceIte] at h1 h2
          exact ih (a :: p1) (b :: p2) (off + 1) ps1 ps2 hl h1 h2
        · simp only [hi, Bool.false_eq_true, ↓reduceIte] at h1 h2
          split at h1
          · split at h2
            · cases hq1 : matchFwd ign p1 buf (off + 1) with
              | none => simp [hq1] at h1
              | some r1 =>
                cases hq2 : matchFwd ign p2 buf (off + 1) with
                | none => simp [hq2] at h2
                | some r2 =>
                  simp [hq1] at h1; simp [hq2] at h2
                  have := ih p1 p2 (off + 1) r1 r2 (by simpa using hl) hq1 hq2
                  rw [← h1, ← h2, this]
            · simp at h2
          · simp at h1

/-- two literal sequences of the same length that match at the same place are equal -/
theorem matchFwd_literal_unique (ign : Glyph → Bool) :
    ∀ (buf : List Glyph) (r1 r2 : List Glyph) (off : Nat) (ps1 ps2 : List Nat),
    r1.length = r2.length → matchFwd ign (eqPreds r1) buf off = some ps1 →
    matchFwd ign (eqPreds r2) buf off = some ps2 → r1 = r2 := by
  intro buf
  induction buf with
  | nil =>
    intro r1 r2 off ps1 ps2 hl h1 h2
    cases r1 <;> cases r2 <;> simp_all [matchFwd, eqPreds]
  | cons g buf ih =>
    intro r1 r2 off ps1 ps2 hl h1 h2
    cases r1 with
    | nil =>
      cases r2 with
      | nil => rfl
      | cons _ _ => simp at hl
    | cons a r1 =>
      cases r2 with
      | nil => simp at hl
      | cons b r2 =>
        simp only [eqPreds, List.map_cons, matchFwd] at h1 h2
        by_cases hi : ign g = true
        · simp only [hi, ↓reduceIte] at h1 h2
          exact ih (a :: r1) (b :: r2) (off + 1) ps1 ps2 hl (by simpa [eqPreds] using h1) (by simpa [eqPreds] using h2)
        · simp only [hi, Bool.false_eq_true, ↓reduceIte] at h1 h2
          split at h1
          · rename_i ha
            split at h2
            · rename_i hb
              cases hq1 : matchFwd ign (r1.map fun a y => a == y) buf (off + 1) with
              | none => simp [hq1] at h1
              | some q1 =>
                cases hq2 : matchFwd ign (r2.map fun a y => a == y) buf (off + 1) with
                | none => simp [hq2] at h2
                | some q2 =>
                  have := ih r1 r2 (off + 1) q1 q2 (by simpa using hl) hq1 hq2
                  have hab : a = b := by
                    have e1 : a = g := by simpa using ha
                    have e2 : b = g := by simpa using hb
                    rw [e1, e2]
                  rw [hab, this]
            · simp at h2
          · simp at h1

theorem mem_enumerate_cons (t : GC) (ts : List GC) (seq : List Glyph) :
    seq ∈ enumerate (t :: ts) ↔ ∃ a rest, seq = a :: rest ∧ a ∈ t.glyphs ∧ rest ∈ enumerate ts := by
  simp only [enumerate, List.mem_flatMap, List.mem_map]
  constructor
  · rintro ⟨a, ha, rest, hr, rfl⟩; exact ⟨a, rest, rfl, ha, hr⟩
  · rintro ⟨a, rest, rfl, ha, hr⟩; exact ⟨a, ha, rest, hr, rfl⟩

/-- a sequence of classes matches iff one of its enumerated literal sequences does (same positions) -/
theorem matchFwd_enum (ign : Glyph → Bool) :
    ∀ (buf : List Glyph) (ts : List GC) (off : Nat) (ps : List Nat),
    matchFwd ign (ts.map GC.has) buf off = some ps ↔
      ∃ rest ∈ enumerate ts, matchFwd ign (eqPreds rest) buf off = some ps := by
  intro buf
  induction buf with
  | nil =>
    intro ts off ps
    cases ts with
    | nil => simp [matchFwd, enumerate, eqPreds]
    | cons t ts =>
      simp only [List.map_cons, matchFwd]
      constructor
      · intro h; simp at h
      rintro ⟨rest, hr, hm⟩
      obtain ⟨a, rest', rfl, _, _⟩ := (mem_enumerate_cons t ts rest).mp hr
      simp [eqPreds, matchFwd] at hm
  | cons g buf ih =>
    intro ts off ps
    cases ts with
    | nil => simp [matchFwd, enumerate, eqPreds]
    | cons t ts =>
      by_cases hi : ign g = true
      · have h1 : matchFwd ign ((t :: ts).map GC.has) (g :: buf) off = matchFwd ign ((t :: ts).map GC.has) buf (off + 1) := by
          simp [matchFwd, hi]
        rw [h1, ih (t :: ts) (off + 1) ps]
        constructor
        · rintro ⟨rest, hr, hm⟩
          refine ⟨rest, hr, ?_⟩
          obtain ⟨a, rest', rfl, _, _⟩ := (mem_enumerate_cons t ts rest).mp hr
          simpa [eqPreds, matchFwd, hi] using hm
        · rintro ⟨rest, hr, hm⟩
          refine ⟨rest, hr, ?_⟩
          obtain ⟨a, rest', rfl, _, _⟩ := (mem_enumerate_cons t ts rest).mp hr
          simpa [eqPreds, matchFwd, hi] using hm
      · simp only [List.map_cons, matchFwd, hi, Bool.false_eq_true, ↓reduceIte]
        constructor
        · intro h
          split at h
          · rename_i hg
            cases hq : matchFwd ign (ts.map GC.has) buf (off + 1) with
            | none => simp [hq] at h
            | some ps' =>
              simp [hq] at h
              obtain ⟨rest', hr', hm'⟩ := (ih ts (off + 1) ps').mp hq
              refine ⟨g :: rest', (mem_enumerate_cons t ts _).mpr ⟨g, rest', rfl, by simpa [GC.has] using hg, hr'⟩, ?_⟩
              simp only [eqPreds, List.map_cons, matchFwd, hi, Bool.false_eq_true, ↓reduceIte, beq_self_eq_true]
              simp only [eqPreds] at hm'
              rw [hm']; simp [h]
          · simp at h
        · rintro ⟨rest, hr, hm⟩
          obtain ⟨a, rest', rfl, ha, hr'⟩ := (mem_enumerate_cons t ts rest).mp hr
          simp only [eqPreds, List.map_cons, matchFwd, hi, Bool.false_eq_true, ↓reduceIte] at hm
          split at hm
          · rename_i hag
            have hag' : a = g := by simpa using hag
            subst hag'
            have hg : t.has a = true := by simpa [GC.has] using ha
            simp only [hg, ↓reduceIte]
            cases hq : matchFwd ign (rest'.map fun a y => a == y) buf (off + 1) with
            | none => simp [hq] at hm
            | some ps' =>
              simp [hq] at hm
              have := (ih ts (off + 1) ps').mpr ⟨rest', hr', by simpa [eqPreds] using hq⟩
              rw [this]; simp [hm]
          · simp at hm

end Fontc.FeaCompile
