/-
  Helper lemmas for C18: what the final name table says about every string fvar / STAT refer to
  (model of the code after the three C18 fixes). Core Lean only.
-/
import FontcProofs.NamesAlloc

namespace Fontc.Names

/-- every entry of the final reusable map is what the final table says under its key -/
theorem alloc_lookup_of_mem {x : Input} (order : List NameKey)
    {s : Str} {k : NameKey} (h : (s, k) ∈ (allocState order x).reusable) : alookup k (alloc order x) = some s :=
  alookup_extend_mem (allocState_inv order x).inj h

/-- a registered string has a record with a font-specific id -/
theorem alloc_of_request {x : Input} (order : List NameKey)
    {s : Str} (h : s ∈ requests order x) : ∃ k, (k, s) ∈ alloc order x ∧ 255 < k.id := by
  have hs := alookup_foldl_register_mem (requests order x) ⟨initReusable order x.names, maxId x.names⟩ h
  rw [← allocState_eq] at hs
  cases hk : alookup s (allocState order x).reusable with
  | none => simp [hk] at hs
  | some k =>
    have hm := mem_of_alookup hk
    exact ⟨k, mem_of_alookup (alloc_lookup_of_mem order hm), allocState_idGt order x _ hm⟩

/-- source records survive the allocation -/
theorem alloc_source_survives {x : Input} (order : List NameKey)
    {k : NameKey} {v : Str} (h : alookup k x.names = some v) : alookup k (alloc order x) = some v := by
  by_cases hex : ∃ p ∈ (allocState order x).reusable, p.2 = k
  · obtain ⟨p, hp, hpk⟩ := hex
    have hinv := allocState_inv order x
    rcases hinv.kind p hp with hsrc | ⟨_, hfresh, _⟩
    · rw [hpk, h] at hsrc
      have : p = (v, k) := by
        cases p; simp at hsrc hpk; simp [hsrc, hpk]
      rw [this] at hp
      exact alloc_lookup_of_mem order hp
    · rw [hpk] at hfresh
      have := le_maxId (mem_of_alookup h)
      simp at this; omega
  · have : ∀ p ∈ (allocState order x).reusable, p.2 ≠ k := fun p hp e => hex ⟨p, hp, e⟩
    unfold alloc
    rw [alookup_extend_notin this]; exact h

/-- records with a reserved id are exactly the source's -/
theorem alloc_reserved_from_source {x : Input} (order : List NameKey) {k : NameKey} {s : Str}
    (h : (k, s) ∈ alloc order x) (hid : k.id ≤ 255) : (k, s) ∈ x.names := by
  rcases mem_extend h with h | h
  · exact h
  · have := allocState_idGt order x _ h
    simp at this; omega

theorem alloc_reserved_lookup {x : Input} (order : List NameKey) {k : NameKey} (hid : k.id ≤ 255) :
    alookup k (alloc order x) = alookup k x.names := by
  unfold alloc
  apply alookup_extend_notin
  intro p hp e
  have := allocState_idGt order x p hp
  rw [e] at this; omega

/-- the second hash order (`reusable_names.into_iter()` in the final `extend`) does not matter: inserting the entries
    in any other order gives the same map -/
theorem extend_perm_lookup {t : Table} {r r' : List (Str × NameKey)}
    (hinj : ∀ p ∈ r, ∀ q ∈ r, p.2 = q.2 → p.1 = q.1) (hp : r'.Perm r) (k : NameKey) :
    alookup k (extend t r') = alookup k (extend t r) := by
  have hinj' : ∀ p ∈ r', ∀ q ∈ r', p.2 = q.2 → p.1 = q.1 :=
    fun p hp' q hq' => hinj p (hp.mem_iff.mp hp') q (hp.mem_iff.mp hq')
  by_cases hex : ∃ p ∈ r, p.2 = k
  · obtain ⟨p, hpr, hpk⟩ := hex
    have h1 : (p.1, k) ∈ r := by rw [← hpk]; exact hpr
    rw [alookup_extend_mem hinj h1, alookup_extend_mem hinj' (hp.mem_iff.mpr h1)]
  · have h1 : ∀ p ∈ r, p.2 ≠ k := fun p hp' e => hex ⟨p, hp', e⟩
    have h2 : ∀ p ∈ r', p.2 ≠ k := fun p hp' => h1 p (hp.mem_iff.mp hp')
    rw [alookup_extend_notin h1, alookup_extend_notin h2]

/-! ### what fvar / STAT look up -/

theorem exist_label {x : Input} (order : List NameKey) {l : Str} (hl : l ∈ x.labels) :
    ∃ id k, reusableNameId (alloc order x) l false = some id ∧ statAxisId (alloc order x) l = some id ∧
      (k, l) ∈ alloc order x ∧ k.id = id ∧ 256 ≤ id := by
  obtain ⟨k, hk, hid⟩ := alloc_of_request order (mem_requests_label (order := order) hl)
  obtain ⟨id, k', h1, h2, h3⟩ := reusableNameId_of_mem (allow := false) hk (by omega)
  refine ⟨id, k', h1, by rw [statAxisId_eq]; exact h1, h2, h3, ?_⟩
  rcases (reusableNameId_some h1).2 with h | ⟨h, _⟩
  · exact h
  · cases h

theorem exist_ps {x : Input} (order : List NameKey) {ni : Inst} {p : Str}
    (hni : ni ∈ effInsts x) (hp : ni.ps = some p) :
    ∃ id k, reusableNameId (alloc order x) p false = some id ∧ (k, p) ∈ alloc order x ∧ k.id = id ∧ 256 ≤ id := by
  obtain ⟨k, hk, hid⟩ := alloc_of_request order (mem_requests_ps (order := order) hni hp)
  obtain ⟨id, k', h1, h2, h3⟩ := reusableNameId_of_mem (allow := false) hk (by omega)
  refine ⟨id, k', h1, h2, h3, ?_⟩
  rcases (reusableNameId_some h1).2 with h | ⟨h, _⟩
  · exact h
  · cases h

/-- `hn`, `hcover`: `names` is a `HashMap` (unique keys) and `order` visits every key. -/
theorem exist_inst {x : Input} (order : List NameKey) (hn : (akeys x.names).Nodup)
    (hcover : ∀ k ∈ akeys x.names, k ∈ order) {ni : Inst} (hni : ni ∈ effInsts x) :
    ∃ id k, reusableNameId (alloc order x) ni.name ni.atDefault = some id ∧ (k, ni.name) ∈ alloc order x ∧ k.id = id := by
  cases hr : reuseSubfamily order x.names ni with
  | false =>
    obtain ⟨k, hk, hid⟩ := alloc_of_request order (mem_requests_name hni hr)
    exact reusableNameId_of_mem hk (by omega)
  | true =>
    -- the instance is at the default location and the smallest source id carrying its name is 2 or 17:
    -- it is also the smallest id in the final table, so fvar reuses it
    unfold reuseSubfamily at hr
    simp only [Bool.and_eq_true] at hr
    obtain ⟨hdef, hm⟩ := hr
    split at hm
    · next m hf =>
      obtain ⟨⟨k, _, hk, hkid⟩, hmin⟩ := smallestMatch_some hf
      have hm17 : m ≤ 17 := by simp [isSub] at hm; omega
      have hkT : (k, ni.name) ∈ alloc order x := by
        apply mem_of_alookup
        rw [alloc_reserved_lookup order (by omega)]; exact hk
      have hhead : (reverseIds (alloc order x) ni.name).head? = some m := by
        apply head_sortAsc_unique
        · exact mem_idsOf.mpr ⟨k, hkT, hkid⟩
        · intro id hid
          obtain ⟨k', hk', e⟩ := mem_idsOf.mp hid
          by_cases hres : k'.id ≤ 255
          · have hsrc := alloc_reserved_from_source order hk' hres
            have hl := alookup_of_mem_nodup hn hsrc
            have ho := hcover k' (List.mem_map.mpr ⟨(k', ni.name), hsrc, rfl⟩)
            rw [← e]; exact hmin k' ho hl
          · omega
      rw [hdef]
      exact ⟨m, k, reusableNameId_of_head_sub hhead hm, hkT, hkid⟩
    · cases hm

/-! ### one id per string -/

theorem fresh_same_string {x : Input} (order : List NameKey) {k₁ k₂ : NameKey} {s : Str}
    (h₁ : (k₁, s) ∈ alloc order x) (h₂ : (k₂, s) ∈ alloc order x)
    (n₁ : k₁ ∉ akeys x.names) (n₂ : k₂ ∉ akeys x.names) : k₁ = k₂ := by
  have m₁ : (s, k₁) ∈ (allocState order x).reusable := by
    rcases mem_extend h₁ with h | h
    · exact absurd (List.mem_map.mpr ⟨(k₁, s), h, rfl⟩) n₁
    · exact h
  have m₂ : (s, k₂) ∈ (allocState order x).reusable := by
    rcases mem_extend h₂ with h | h
    · exact absurd (List.mem_map.mpr ⟨(k₂, s), h, rfl⟩) n₂
    · exact h
  have hn := allocState_nodup order x
  have e₁ := alookup_of_mem_nodup hn m₁
  have e₂ := alookup_of_mem_nodup hn m₂
  rw [e₁] at e₂
  exact Option.some.inj e₂

theorem fresh_not_in_source {x : Input} (order : List NameKey) (hn : (akeys x.names).Nodup)
    (hcover : ∀ k ∈ akeys x.names, k ∈ order) {k k' : NameKey} {s : Str}
    (h : (k, s) ∈ alloc order x) (nk : k ∉ akeys x.names) (hs : (k', s) ∈ x.names) : k'.id ≤ 255 := by
  apply Nat.le_of_not_lt
  intro hid
  have m : (s, k) ∈ (allocState order x).reusable := by
    rcases mem_extend h with h | h
    · exact absurd (List.mem_map.mpr ⟨(k, s), h, rfl⟩) nk
    · exact h
  have hk' : k' ∈ order := hcover k' (List.mem_map.mpr ⟨(k', s), hs, rfl⟩)
  have hinit := (isSome_initReusable (names := x.names) s order).mpr ⟨k', hk', alookup_of_mem_nodup hn hs, hid⟩
  cases hi : alookup s (initReusable order x.names) with
  | none => simp [hi] at hinit
  | some k'' =>
    have hfin := alookup_foldl_register_mono (requests order x) ⟨initReusable order x.names, maxId x.names⟩ hi
    rw [← allocState_eq] at hfin
    have := alookup_of_mem_nodup (allocState_nodup order x) m
    rw [hfin] at this
    have hkk : k'' = k := Option.some.inj this
    have hsrc := (mem_initReusable _ (mem_of_alookup hi)).1
    simp only at hsrc
    rw [hkk] at hsrc
    exact nk (List.mem_map.mpr ⟨(k, s), mem_of_alookup hsrc, rfl⟩)

end Fontc.Names
