/-
  Helper lemmas for C18: what the final name table says about every string fvar / STAT refer to.
  Core Lean only. Hypotheses are spelled out; FontcProps/C18.lean names them.
-/
import FontcProofs.NamesAlloc

namespace Fontc.Names

/-- the bound on allocated ids used by `SourceIdsClear` -/
def allocTop (x : Input) : Nat := 255 + x.labels.length + 2 * x.insts.length

theorem clear_of_mem {x : Input}
    (h : ∀ k v, (k, v) ∈ x.names → k.id ≤ 255 ∨ 256 + x.labels.length + 2 * x.insts.length ≤ k.id) :
    Clear x.names (allocTop x) := by
  intro k v hk
  rcases h k v (mem_of_alookup hk) with h | h
  · exact Or.inl h
  · right; unfold allocTop; omega

theorem allocState_inv {x : Input} (order : List NameKey) (hc : Clear x.names (allocTop x)) :
    Inv x.names (allocState order x) ∧ (allocState order x).gen ≤ allocTop x := by
  rw [allocState_eq]
  apply inv_foldl_register hc _ _ (inv_init order x.names)
  have := requests_length order x
  simp only [allocTop]; omega

/-- every entry of the final reusable map is what the final table says under its key -/
theorem alloc_lookup_of_mem {x : Input} (order : List NameKey) (hc : Clear x.names (allocTop x))
    {s : Str} {k : NameKey} (h : (s, k) ∈ (allocState order x).reusable) : alookup k (alloc order x) = some s :=
  alookup_extend_mem (allocState_inv order hc).1.inj h

/-- a registered string has a record with a font-specific id -/
theorem alloc_of_request {x : Input} (order : List NameKey) (hc : Clear x.names (allocTop x))
    {s : Str} (h : s ∈ requests order x) : ∃ k, (k, s) ∈ alloc order x ∧ 255 < k.id := by
  have hs := alookup_foldl_register_mem (requests order x) ⟨initReusable order x.names, 255⟩ h
  rw [← allocState_eq] at hs
  cases hk : alookup s (allocState order x).reusable with
  | none => simp [hk] at hs
  | some k =>
    have hm := mem_of_alookup hk
    exact ⟨k, mem_of_alookup (alloc_lookup_of_mem order hc hm), allocState_idGt order x _ hm⟩

/-- source records survive the allocation -/
theorem alloc_source_survives {x : Input} (order : List NameKey) (hc : Clear x.names (allocTop x))
    {k : NameKey} {v : Str} (h : alookup k x.names = some v) : alookup k (alloc order x) = some v := by
  by_cases hex : ∃ p ∈ (allocState order x).reusable, p.2 = k
  · obtain ⟨p, hp, hpk⟩ := hex
    obtain ⟨hinv, hgen⟩ := allocState_inv order hc
    rcases hinv.kind p hp with hsrc | ⟨_, hfresh⟩
    · rw [hpk, h] at hsrc
      have : p = (v, k) := by
        cases p; simp at hsrc hpk; simp [hsrc, hpk]
      rw [this] at hp
      exact alloc_lookup_of_mem order hc hp
    · have hid := hinv.idGt p hp
      rw [hpk] at hfresh hid
      rcases hc k v h with h' | h' <;> omega
  · have : ∀ p ∈ (allocState order x).reusable, p.2 ≠ k := fun p hp e => hex ⟨p, hp, e⟩
    unfold alloc
    rw [alookup_extend_notin this]; exact h

/-- records with a reserved id are exactly the source's (no hypothesis needed) -/
theorem alloc_reserved_from_source {x : Input} (order : List NameKey) {k : NameKey} {s : Str}
    (h : (k, s) ∈ alloc order x) (hid : k.id ≤ 255) : (k, s) ∈ x.names := by
  rcases mem_extend h with h | h
  · exact h
  · have := allocState_idGt order x _ h
    simp at this; omega

theorem alloc_reserved_lookup {x : Input} (order : List NameKey) {k : NameKey} (hid : k.id ≤ 255) :
    alookup k (alloc order x) = alookup k x.names := by
  unfold alloc
  apply alookup_extend_notin
  intro p hp e
  have := allocState_idGt order x p hp
  rw [e] at this; omega

/-! ### what fvar / STAT look up -/

theorem exist_label {x : Input} (order : List NameKey) (hc : Clear x.names (allocTop x)) {l : Str} (hl : l ∈ x.labels) :
    ∃ id k, reusableNameId (alloc order x) l false = some id ∧ statAxisId (alloc order x) l = some id ∧
      (k, l) ∈ alloc order x ∧ k.id = id ∧ 256 ≤ id := by
  obtain ⟨k, hk, hid⟩ := alloc_of_request order hc (mem_requests_label (order := order) hl)
  obtain ⟨id, k', h1, h2, h3⟩ := reusableNameId_of_mem (allow := false) hk (by simp; omega)
  refine ⟨id, k', h1, by rw [statAxisId_eq]; exact h1, h2, h3, ?_⟩
  rcases (reusableNameId_some h1).2 with h | h
  · cases h
  · exact h

theorem exist_ps {x : Input} (order : List NameKey) (hc : Clear x.names (allocTop x)) {ni : Inst} {p : Str}
    (hni : ni ∈ effInsts x) (hp : ni.ps = some p) :
    ∃ id k, reusableNameId (alloc order x) p false = some id ∧ (k, p) ∈ alloc order x ∧ k.id = id ∧ 256 ≤ id := by
  obtain ⟨k, hk, hid⟩ := alloc_of_request order hc (mem_requests_ps (order := order) hni hp)
  obtain ⟨id, k', h1, h2, h3⟩ := reusableNameId_of_mem (allow := false) hk (by simp; omega)
  refine ⟨id, k', h1, h2, h3, ?_⟩
  rcases (reusableNameId_some h1).2 with h | h
  · cases h
  · exact h

theorem exist_inst {x : Input} (order : List NameKey) (hc : Clear x.names (allocTop x)) {ni : Inst}
    (hni : ni ∈ effInsts x) :
    ∃ id k, reusableNameId (alloc order x) ni.name ni.atDefault = some id ∧ (k, ni.name) ∈ alloc order x ∧ k.id = id := by
  cases hr : reuseSubfamily order x.names ni with
  | false =>
    obtain ⟨k, hk, hid⟩ := alloc_of_request order hc (mem_requests_name hni hr)
    exact reusableNameId_of_mem hk (by simp; omega)
  | true =>
    -- the instance is at the default location and a source record with id 2 or 17 carries its name
    unfold reuseSubfamily at hr
    simp only [Bool.and_eq_true] at hr
    obtain ⟨hdef, hm⟩ := hr
    split at hm
    · next id hf =>
      obtain ⟨k, _, hk, hkid⟩ := firstMatch_some hf
      have hsub : k.id ≤ 255 := by
        simp [isSub] at hm; omega
      have : (k, ni.name) ∈ alloc order x := by
        apply mem_of_alookup
        rw [alloc_reserved_lookup order hsub]; exact hk
      exact reusableNameId_of_mem this (by simp [hdef])
    · cases hm

/-! ### reserved ids -/

theorem inst_id_allowed {x : Input} (order : List NameKey) {ni : Inst}
    (hclean : ni.atDefault = true → ∀ k, (k, ni.name) ∈ x.names → k.id ≤ 255 → isSub k.id = true)
    {id : Nat} (h : reusableNameId (alloc order x) ni.name ni.atDefault = some id) :
    256 ≤ id ∨ (ni.atDefault = true ∧ isSub id = true) := by
  obtain ⟨⟨k, hk, hkid⟩, hallow⟩ := reusableNameId_some h
  by_cases hge : 256 ≤ id
  · exact Or.inl hge
  · right
    rcases hallow with hd | hd
    · refine ⟨hd, ?_⟩
      have hle : k.id ≤ 255 := by omega
      rw [← hkid]
      exact hclean hd k (alloc_reserved_from_source order hk hle) hle
    · exact absurd hd hge

/-! ### one id per string -/

theorem fresh_same_string {x : Input} (order : List NameKey) {k₁ k₂ : NameKey} {s : Str}
    (h₁ : (k₁, s) ∈ alloc order x) (h₂ : (k₂, s) ∈ alloc order x)
    (n₁ : k₁ ∉ akeys x.names) (n₂ : k₂ ∉ akeys x.names) : k₁ = k₂ := by
  have m₁ : (s, k₁) ∈ (allocState order x).reusable := by
    rcases mem_extend h₁ with h | h
    · exact absurd (List.mem_map.mpr ⟨(k₁, s), h, rfl⟩) n₁
    · exact h
  have m₂ : (s, k₂) ∈ (allocState order x).reusable := by
    rcases mem_extend h₂ with h | h
    · exact absurd (List.mem_map.mpr ⟨(k₂, s), h, rfl⟩) n₂
    · exact h
  have hn := allocState_nodup order x
  have e₁ := alookup_of_mem_nodup hn m₁
  have e₂ := alookup_of_mem_nodup hn m₂
  rw [e₁] at e₂
  exact Option.some.inj e₂

theorem fresh_not_in_source {x : Input} (order : List NameKey) (hn : (akeys x.names).Nodup)
    (hcover : ∀ k ∈ akeys x.names, k ∈ order) {k k' : NameKey} {s : Str}
    (h : (k, s) ∈ alloc order x) (nk : k ∉ akeys x.names) (hs : (k', s) ∈ x.names) : k'.id ≤ 255 := by
  apply Nat.le_of_not_lt
  intro hid
  have m : (s, k) ∈ (allocState order x).reusable := by
    rcases mem_extend h with h | h
    · exact absurd (List.mem_map.mpr ⟨(k, s), h, rfl⟩) nk
    · exact h
  -- the initial map already knows `s`, under a source key
  have hk' : k' ∈ order := hcover k' (List.mem_map.mpr ⟨(k', s), hs, rfl⟩)
  have hinit := (isSome_initReusable (names := x.names) s order).mpr ⟨k', hk', alookup_of_mem_nodup hn hs, hid⟩
  cases hi : alookup s (initReusable order x.names) with
  | none => simp [hi] at hinit
  | some k'' =>
    have hfin := alookup_foldl_register_mono (requests order x) ⟨initReusable order x.names, 255⟩ hi
    rw [← allocState_eq] at hfin
    have := alookup_of_mem_nodup (allocState_nodup order x) m
    rw [hfin] at this
    have hkk : k'' = k := Option.some.inj this
    have hsrc := (mem_initReusable _ (mem_of_alookup hi)).1
    simp only at hsrc
    rw [hkk] at hsrc
    exact nk (List.mem_map.mpr ⟨(k, s), mem_of_alookup hsrc, rfl⟩)

end Fontc.Names
