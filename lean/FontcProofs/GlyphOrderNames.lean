/-
  C06 helper lemmas, part 2: fresh-name search (`suffixed`, `firstFree`, `nameForDerivative`) and post names.
-/
import FontcModel.GlyphOrder
import FontcProofs.GlyphOrderBasic
import Std.Data.String.ToNat

namespace Fontc.GlyphOrder

/-! ### `format!("{name}.{n}")` is injective in `n` -/

theorem suffixed_inj {name : String} {a b : Nat} (h : suffixed name a = suffixed name b) : a = b := by
  unfold suffixed at h
  have h1 := (String.append_right_inj (name ++ ".")).mp h
  exact Nat.repr_inj.mp h1

/-- Pigeonhole: an injective sequence of names has a member outside any list `used` among its first
    `used.length + 1` terms. -/
theorem exists_free : ∀ (used : List String) (f : Nat → String), (∀ a b, f a = f b → a = b) →
    ∃ j, j ≤ used.length ∧ f j ∉ used
  | [], f, _ => ⟨0, by simp, by simp⟩
  | k :: ks, f, hf => by
    obtain ⟨j, hj, hjn⟩ := exists_free ks f hf
    by_cases hk : f j = k
    · -- skip index j
      let f' : Nat → String := fun i => if i < j then f i else f (i + 1)
      have hf' : ∀ a b, f' a = f' b → a = b := by
        intro a b hab
        simp only [f'] at hab
        by_cases ha : a < j <;> by_cases hb : b < j <;> simp only [ha, hb, if_true, if_false] at hab
        · exact hf _ _ hab
        · have := hf _ _ hab; omega
        · have := hf _ _ hab; omega
        · have := hf _ _ hab; omega
      obtain ⟨j', hj', hjn'⟩ := exists_free ks f' hf'
      by_cases hlt : j' < j
      · refine ⟨j', by simp; omega, ?_⟩
        have e : f' j' = f j' := by simp [f', hlt]
        rw [e] at hjn'
        intro hmem
        rcases List.mem_cons.mp hmem with h | h
        · have := hf _ _ (h.trans hk.symm); omega
        · exact hjn' h
      · refine ⟨j' + 1, by simp; omega, ?_⟩
        have e : f' j' = f (j' + 1) := by simp [f', hlt]
        rw [e] at hjn'
        intro hmem
        rcases List.mem_cons.mp hmem with h | h
        · have := hf _ _ (h.trans hk.symm); omega
        · exact hjn' h
    · refine ⟨j, by simp; omega, ?_⟩
      intro hmem
      rcases List.mem_cons.mp hmem with h | h
      · exact hk h
      · exact hjn h

/-- The bounded search always succeeds: the `none` arm of `firstFree` is dead and the result is a free name. -/
theorem firstFree_not_mem (used : List String) (name : String) (n : Nat) :
    suffixed name (firstFree used name n) ∉ used := by
  unfold firstFree
  cases hfind : (List.range (used.length + 1)).find? (fun j => suffixed name (n + j) ∉ used) with
  | some j =>
    have := List.find?_some hfind
    simpa using this
  | none =>
    exfalso
    obtain ⟨j, hj, hjn⟩ := exists_free used (fun j => suffixed name (n + j))
      (by intro a b hab; have := suffixed_inj hab; omega)
    have := List.find?_eq_none.mp hfind j (List.mem_range.mpr (by omega))
    simp [hjn] at this

theorem firstFree_ge (used : List String) (name : String) (n : Nat) : n ≤ firstFree used name n := by
  unfold firstFree
  split <;> omega

/-- … and it is the *first* free one, as in the Rust `loop`/`while`: every smaller candidate is taken. -/
theorem firstFree_min (used : List String) (name : String) (n k : Nat) (h1 : n ≤ k)
    (h2 : k < firstFree used name n) : suffixed name k ∈ used := by
  unfold firstFree at h2
  cases hfind : (List.range (used.length + 1)).find? (fun j => suffixed name (n + j) ∉ used) with
  | some j =>
    rw [hfind] at h2
    simp only at h2
    -- k - n is an earlier element of the range, so the predicate failed there
    have hlt : k - n < j := by omega
    have hj : j < used.length + 1 := List.mem_range.mp (List.mem_of_find?_eq_some hfind)
    have hnot := List.not_of_lt_findIdx (p := fun j => decide (suffixed name (n + j) ∉ used))
      (xs := List.range (used.length + 1)) (i := k - n) (by
        have hidx : (List.range (used.length + 1)).findIdx (fun j => decide (suffixed name (n + j) ∉ used)) = j := by
          have := List.find?_eq_some_iff_getElem.mp hfind
          obtain ⟨_, i, hi, hget, hbefore⟩ := this
          have hij : i = j := by simpa using hget
          subst hij
          apply (List.findIdx_eq (by simpa using hi)).mpr
          refine ⟨by simpa using List.find?_some hfind, ?_⟩
          intro m hm
          have := hbefore m hm
          simpa using this
        rw [hidx]; exact hlt)
    have hkn : n + (k - n) = k := by omega
    simpa [hkn] using hnot
  | none =>
    exfalso
    obtain ⟨j, hj, hjn⟩ := exists_free used (fun j => suffixed name (n + j))
      (by intro a b hab; have := suffixed_inj hab; omega)
    have := List.find?_eq_none.mp hfind j (List.mem_range.mpr (by omega))
    simp [hjn] at this

theorem nameForDerivative_not_mem (base : String) (inUse : List String) :
    nameForDerivative base inUse ∉ inUse := firstFree_not_mem inUse base 0

/-- a derived name never is `.notdef`: it ends in a decimal digit -/
theorem suffixed_ne_notdef (name : String) (n : Nat) : suffixed name n ≠ notdef := by
  intro h
  have hl := congrArg String.toList h
  unfold suffixed notdef at hl
  have ht : (toString n).toList = Nat.toDigits 10 n := Nat.toList_repr
  simp only [String.toList_append, ht] at hl
  have hd : ∀ c ∈ Nat.toDigits 10 n, c.isDigit = true := fun c hc =>
    Nat.isDigit_of_mem_toDigits (by omega) (by omega) hc
  have hne : Nat.toDigits 10 n ≠ [] := by
    intro e
    have hpos : 0 < (Nat.toDigits 10 n).length := Nat.length_toDigits_pos
    rw [e] at hpos
    simp at hpos
  -- compare last characters
  have hlast := congrArg List.getLast? hl
  obtain ⟨c, hc, hcm⟩ : ∃ c, (Nat.toDigits 10 n).getLast? = some c ∧ c ∈ Nat.toDigits 10 n := by
    cases hg : (Nat.toDigits 10 n).getLast? with
    | none => exact absurd (List.getLast?_eq_none_iff.mp hg) hne
    | some c => exact ⟨c, rfl, List.mem_of_getLast? hg⟩
  rw [List.getLast?_append, hc] at hlast
  have hcf : c = 'f' := by
    have : (".notdef" : String).toList.getLast? = some 'f' := by decide
    rw [this] at hlast
    simpa using hlast
  have := hd c hcm
  rw [hcf] at this
  exact absurd this (by decide)

/-! ### post names (post.rs:50-82) -/

/-- every emitted name is recorded as a key of `seen` -/
def PostInv (st : PostState) : Prop :=
  st.out.Nodup ∧ ∀ x ∈ st.out, x ∈ st.seen.map (·.1)

theorem lookup_none_not_mem {k : String} : ∀ {l : List (String × Nat)}, l.lookup k = none → k ∉ l.map (·.1)
  | [], _ => by simp
  | (a, b) :: rest, h => by
    simp only [List.lookup] at h
    split at h
    · simp at h
    · rename_i hne
      have ih := lookup_none_not_mem h
      have : k ≠ a := by simpa using hne
      simp only [List.map_cons, List.mem_cons, not_or]
      exact ⟨this, ih⟩

theorem postStep_inv (rename : List (String × String)) (st : PostState) (g : String) (h : PostInv st) :
    PostInv (postStep rename st g) := by
  obtain ⟨hnd, hkeys⟩ := h
  simp only [postStep]
  generalize sanitize ((rename.lookup g).getD g) = name
  split
  · rename_i n hl
    have hfresh := firstFree_not_mem (st.seen.map (·.1)) name n
    refine ⟨?_, ?_⟩
    · show (st.out ++ [_]).Nodup
      rw [List.nodup_append]
      refine ⟨hnd, by simp, ?_⟩
      intro a ha b hb hab
      simp only [List.mem_singleton] at hb
      subst hab; subst hb
      exact hfresh (hkeys _ ha)
    · intro x hx
      have hx' : x ∈ st.out ++ [suffixed name (firstFree (st.seen.map (·.1)) name n)] := hx
      show x ∈ List.map (·.1) (_ :: _ :: st.seen)
      rcases List.mem_append.mp hx' with h | h
      · simp only [List.map_cons, List.mem_cons]
        exact Or.inr (Or.inr (hkeys x h))
      · simp only [List.mem_singleton] at h
        simp [h]
  · rename_i hl
    have hfresh := lookup_none_not_mem hl
    refine ⟨?_, ?_⟩
    · show (st.out ++ [_]).Nodup
      rw [List.nodup_append]
      refine ⟨hnd, by simp, ?_⟩
      intro a ha b hb hab
      simp only [List.mem_singleton] at hb
      subst hab; subst hb
      exact hfresh (hkeys _ ha)
    · intro x hx
      have hx' : x ∈ st.out ++ [name] := hx
      show x ∈ List.map (·.1) (_ :: st.seen)
      rcases List.mem_append.mp hx' with h | h
      · simp only [List.map_cons, List.mem_cons]
        exact Or.inr (hkeys x h)
      · simp only [List.mem_singleton] at h
        simp [h]

theorem postStep_length (rename : List (String × String)) (st : PostState) (g : String) :
    (postStep rename st g).out.length = st.out.length + 1 := by
  simp only [postStep]
  split <;> simp

theorem foldl_postStep_inv (rename : List (String × String)) : ∀ (order : List String) (st : PostState),
    PostInv st → PostInv (order.foldl (postStep rename) st)
  | [], _, h => h
  | g :: rest, st, h => foldl_postStep_inv rename rest _ (postStep_inv rename st g h)

theorem foldl_postStep_length (rename : List (String × String)) : ∀ (order : List String) (st : PostState),
    (order.foldl (postStep rename) st).out.length = st.out.length + order.length
  | [], _ => by simp
  | g :: rest, st => by
    simp only [List.foldl_cons, List.length_cons]
    rw [foldl_postStep_length rename rest, postStep_length]; omega

end Fontc.GlyphOrder
