/-
  Helper lemmas for the scheduler model (FontcModel/Sched.lean): counters, list facts.
-/
import FontcModel.Sched
import FontcModel.SchedCheck

namespace Fontc.Sched

/-! ### counters -/

theorem ctrGet_ctrInc (cs : Counters) (d d' : String) :
    ctrGet (ctrInc cs d) d' = ctrGet cs d' + (if d = d' then 1 else 0) := by
  induction cs with
  | nil => simp [ctrInc, ctrGet]
  | cons p r ih =>
    obtain ⟨k, n⟩ := p
    by_cases h : k = d
    · subst h
      by_cases h2 : k = d' <;> simp [ctrInc, ctrGet, h2]
    · by_cases h2 : k = d'
      · subst h2
        have : ¬ d = k := fun e => h e.symm
        simp [ctrInc, ctrGet, h, this]
      · simp [ctrInc, ctrGet, h, h2, ih]

theorem ctrDec_some {cs cs' : Counters} {d : String} (h : ctrDec cs d = some cs') (d' : String) :
    ctrGet cs' d' + (if d = d' then 1 else 0) = ctrGet cs d' := by
  induction cs generalizing cs' with
  | nil => simp [ctrDec] at h
  | cons p r ih =>
    obtain ⟨k, n⟩ := p
    by_cases hk : k = d
    · subst hk
      by_cases hn : n = 0
      · simp [ctrDec, hn] at h
      · simp [ctrDec, hn] at h
        subst h
        by_cases h2 : k = d' <;> simp [ctrGet, h2] <;> omega
    · simp only [ctrDec, hk, if_false] at h
      cases hr : ctrDec r d with
      | none => simp [hr] at h
      | some r' =>
        simp [hr] at h
        subst h
        have := ih hr
        by_cases h2 : k = d'
        · subst h2
          have : ¬ d = k := fun e => hk e.symm
          simp [ctrGet, this]
        · simp [ctrGet, h2, this]

theorem ctrDec_isSome {cs : Counters} {d : String} (h : 1 ≤ ctrGet cs d) : ∃ cs', ctrDec cs d = some cs' := by
  induction cs with
  | nil => simp [ctrGet] at h
  | cons p r ih =>
    obtain ⟨k, n⟩ := p
    by_cases hk : k = d
    · subst hk
      simp [ctrGet] at h
      have : n ≠ 0 := by omega
      simp [ctrDec, this]
    · simp [ctrGet, hk] at h
      obtain ⟨r', hr⟩ := ih h
      simp [ctrDec, hk, hr]

theorem ctrDecAll_some {ds : List String} {cs cs' : Counters} (h : ctrDecAll cs ds = some cs') (d' : String) :
    ctrGet cs' d' + ds.count d' = ctrGet cs d' := by
  induction ds generalizing cs with
  | nil => simp [ctrDecAll] at h; subst h; simp
  | cons d ds ih =>
    simp only [ctrDecAll] at h
    cases hd : ctrDec cs d with
    | none => simp [hd] at h
    | some c1 =>
      simp [hd] at h
      have h1 := ih h
      have h2 := ctrDec_some hd d'
      by_cases e : d = d'
      · subst e; simp at h2 ⊢; omega
      · have : ¬ (d == d') = true := by simpa using e
        simp [e] at h2
        rw [List.count_cons]
        simp [this]; omega

theorem ctrDecAll_isSome {ds : List String} {cs : Counters} (h : ∀ d', ds.count d' ≤ ctrGet cs d') :
    ∃ cs', ctrDecAll cs ds = some cs' := by
  induction ds generalizing cs with
  | nil => exact ⟨cs, rfl⟩
  | cons d ds ih =>
    have h1 : 1 ≤ ctrGet cs d := by
      have := h d
      simp at this; omega
    obtain ⟨c1, hc1⟩ := ctrDec_isSome h1
    have : ∀ d', ds.count d' ≤ ctrGet c1 d' := by
      intro d'
      have a := ctrDec_some hc1 d'
      have b := h d'
      rw [List.count_cons] at b
      by_cases e : d = d'
      · subst e; simp at a b; omega
      · have : ¬ (d == d') = true := by simpa using e
        simp [e] at a; simp [this] at b; omega
    obtain ⟨c2, hc2⟩ := ih this
    exact ⟨c2, by simp [ctrDecAll, hc1, hc2]⟩

/-! ### what each operation does to the state -/

theorem isPending_iff {s : State} {id : Id} : s.isPending id = true ↔ ∃ e ∈ s.pending, e.id = id := by
  simp [State.isPending]

theorem entry?_some {s : State} {id : Id} {e : Entry} (h : s.entry? id = some e) : e ∈ s.pending ∧ e.id = id := by
  unfold State.entry? at h
  have := List.find?_some h
  have := List.mem_of_find?_eq_some h
  simp_all

theorem entry?_none {s : State} {id : Id} (h : s.entry? id = none) : ∀ e ∈ s.pending, e.id ≠ id := by
  unfold State.entry? at h
  simpa using h

def placeholder (parent : Id) (reads : Access) (a : Id) : Entry :=
  { id := a, kind := .alsoComplete, reads := reads, writes := .none, running := false, owner := parent }

theorem book_spec {s s' : State} {e : Entry} (h : s.book e = some s') :
    s.isPending e.id = false ∧
    s' = { s with jobCount := s.jobCount + 1, counters := ctrInc s.counters e.id.disc, pending := e :: s.pending, inserted := e.id :: s.inserted } := by
  unfold State.book at h
  split at h <;> simp_all

theorem bookAlso_spec {al : List Id} {s s' : State} {p : Id} {r : Access} (h : s.bookAlso p r al = some s') :
    ∃ cs, s' = { s with jobCount := s.jobCount + al.length, counters := cs, pending := (al.map (placeholder p r)).reverse ++ s.pending, inserted := al.reverse ++ s.inserted } ∧
      (∀ d, ctrGet cs d = ctrGet s.counters d + (al.map (·.disc)).count d) ∧
      al.Nodup ∧ (∀ a ∈ al, s.isPending a = false) := by
  induction al generalizing s with
  | nil => simp [State.bookAlso] at h; subst h; exact ⟨s.counters, by simp⟩
  | cons a al ih =>
    simp only [State.bookAlso] at h
    cases hb : s.book { id := a, kind := .alsoComplete, reads := r, writes := .none, running := false, owner := p } with
    | none => simp [hb] at h
    | some s1 =>
      simp [hb] at h
      obtain ⟨hp, rfl⟩ := book_spec hb
      obtain ⟨cs, rfl, hc, hnd, hnp⟩ := ih h
      refine ⟨cs, ?_, ?_, ?_, ?_⟩
      · simp [placeholder, Nat.add_assoc, Nat.add_comm 1]
      · intro d
        rw [hc d, ctrGet_ctrInc]
        simp [List.count_cons]
        by_cases e : a.disc = d <;> simp [e] <;> omega
      · simp only [List.nodup_cons]
        refine ⟨?_, hnd⟩
        intro hmem
        have := hnp a hmem
        simp [State.isPending] at this
      · intro x hx
        simp at hx
        rcases hx with rfl | hx
        · exact hp
        · have := hnp x hx
          simp [State.isPending] at this ⊢
          exact this.2


def jobEntry (j : Job) : Entry :=
  { id := j.id, kind := j.kind, reads := j.reads, writes := j.writes, running := false, owner := j.id }

theorem insertJob_spec {s s' : State} {j : Job} (h : s.insertJob j = some s') :
    j.kind ≠ .alsoComplete ∧
    ∃ cs, s' = { s with jobCount := s.jobCount + j.also.length + 1, counters := cs, pending := jobEntry j :: ((j.also.map (placeholder j.id j.reads)).reverse ++ s.pending), inserted := j.id :: (j.also.reverse ++ s.inserted), also := if j.also.isEmpty then s.also else (j.id, j.also) :: s.also } ∧
      (∀ d, ctrGet cs d = ctrGet s.counters d + (j.ids.map (·.disc)).count d) ∧
      j.ids.Nodup ∧ (∀ a ∈ j.ids, s.isPending a = false) := by
  unfold State.insertJob at h
  split at h
  · simp at h
  · rename_i hk
    refine ⟨hk, ?_⟩
    cases hb : s.bookAlso j.id j.reads j.also with
    | none => simp [hb] at h
    | some s1 =>
      simp only [hb, Option.bind_some] at h
      obtain ⟨cs, rfl, hc, hnd, hnp⟩ := bookAlso_spec hb
      by_cases he : j.also.isEmpty
      · simp only [he, if_true] at h
        obtain ⟨hp, rfl⟩ := book_spec h
        have he' : j.also = [] := by simpa using he
        refine ⟨ctrInc cs j.id.disc, ?_, ?_, ?_, ?_⟩
        · simp [he', jobEntry]
        · intro d
          rw [ctrGet_ctrInc, hc d]
          simp [he', Job.ids, List.count_cons]
        · simp [Job.ids, he']
        · intro a ha
          simp [Job.ids, he'] at ha
          subst ha
          simpa [State.isPending, he'] using hp
      · simp only [he] at h
        obtain ⟨hp, rfl⟩ := book_spec h
        refine ⟨ctrInc cs j.id.disc, ?_, ?_, ?_, ?_⟩
        · simp [he, jobEntry]
        · intro d
          rw [ctrGet_ctrInc, hc d]
          simp [Job.ids, List.count_cons]
          by_cases e : j.id.disc = d <;> simp [e] <;> omega
        · simp only [Job.ids, List.nodup_cons]
          refine ⟨?_, hnd⟩
          intro hmem
          simp [State.isPending, placeholder] at hp
          simpa using hp.1 j.id hmem
        · intro a ha
          simp [Job.ids] at ha
          rcases ha with rfl | ha
          · simp [State.isPending] at hp ⊢
            exact hp.2
          · exact hnp a ha

theorem launch_spec {s s' : State} {id : Id} (h : s.launch id = some s') :
    ∃ e, e ∈ s.pending ∧ e.id = id ∧ s.launchable e = true ∧
      s' = { s with pending := s.pending.map (setRunning id), launched := (id, e.reads) :: s.launched } := by
  unfold State.launch at h
  split at h
  · simp at h
  · rename_i e he
    obtain ⟨hm, hid⟩ := entry?_some he
    split at h
    · rename_i hl
      simp at h
      exact ⟨e, hm, hid, hl, h.symm⟩
    · simp at h

theorem finish_spec {s s' : State} {id : Id} (h : s.finish id = some s') :
    ∃ e cs, e ∈ s.pending ∧ e.id = id ∧ e.running = true ∧ id ∉ s.inflight ∧
      ctrDecAll s.counters (s.counterDiscs id) = some cs ∧
      s' = { s with counters := cs, inflight := id :: s.inflight, finished := id :: s.finished } := by
  unfold State.finish at h
  split at h
  · simp at h
  · rename_i e he
    obtain ⟨hm, hid⟩ := entry?_some he
    split at h
    · rename_i hc
      simp at hc
      cases hd : ctrDecAll s.counters (s.counterDiscs id) with
      | none => simp [hd] at h
      | some cs =>
        simp [hd] at h
        exact ⟨e, cs, hm, hid, hc.1, hc.2, rfl, h.symm⟩
    · simp at h

theorem completeOne_spec {s s' : State} {id : Id} (h : s.completeOne id = some s') :
    s.isPending id = true ∧ id ∉ s.success ∧
      s' = { s with pending := s.pending.filter (·.id ≠ id), success := id :: s.success } := by
  unfold State.completeOne at h
  split at h
  · rename_i hp
    split at h
    · simp at h
    · rename_i hs
      simp at hs
      exact ⟨hp, hs, (Option.some.inj h).symm⟩
  · simp at h

theorem completeAll_spec {l : List Id} {s s' : State} (h : s.completeAll l = some s') :
    s' = { s with pending := s.pending.filter (fun e => e.id ∉ l), success := l.reverse ++ s.success } ∧
      l.Nodup ∧ (∀ a ∈ l, s.isPending a = true ∧ a ∉ s.success) := by
  induction l generalizing s with
  | nil =>
    simp [State.completeAll] at h; subst h
    have : s.pending.filter (fun e => true) = s.pending := by
      apply List.filter_eq_self.2; simp
    simp [this]
  | cons a l ih =>
    simp only [State.completeAll] at h
    cases hc : s.completeOne a with
    | none => simp [hc] at h
    | some s1 =>
      simp [hc] at h
      obtain ⟨hp, hs, rfl⟩ := completeOne_spec hc
      obtain ⟨rfl, hnd, hall⟩ := ih h
      refine ⟨?_, ?_, ?_⟩
      · simp only [List.filter_filter]
        congr 1
        · apply List.filter_congr
          intro e _
          by_cases h1 : e.id = a <;> simp [h1]
        · simp
      · simp only [List.nodup_cons]
        refine ⟨?_, hnd⟩
        intro hm
        have := (hall a hm).1
        simp [State.isPending] at this
      · intro x hx
        simp at hx
        rcases hx with rfl | hx
        · exact ⟨hp, hs⟩
        · have := hall x hx
          simp [State.isPending] at this ⊢
          grind

theorem complete_spec {s s' : State} {id : Id} (h : s.complete id = some s') :
    s' = { s with pending := s.pending.filter (fun e => e.id ∉ id :: s.alsoOf id), success := (id :: s.alsoOf id).reverse ++ s.success } ∧
      (id :: s.alsoOf id).Nodup ∧ (∀ a ∈ id :: s.alsoOf id, s.isPending a = true ∧ a ∉ s.success) := by
  have := @completeAll_spec (id :: s.alsoOf id) s s' (by simpa [State.completeAll, State.complete] using h)
  exact this

theorem rewrite_spec {s s' : State} {id : Id} {a : Access} {must : Bool} (h : s.rewrite id a must = some s') :
    s' = { s with pending := s.pending.map (setReads id a) } := by
  unfold State.rewrite at h
  split at h
  · simp at h; exact h.symm
  · rename_i hp
    split at h
    · simp at h
    · simp at h
      subst h
      have : s.pending.map (setReads id a) = s.pending := by
        simp [State.isPending] at hp
        conv => rhs; rw [← List.map_id s.pending]
        apply List.map_congr_left
        intro e he
        simp [setReads, hp e he]
      simp [this]

theorem skip_spec {s s' : State} {id : Id} (h : s.skip id = some s') :
    (s.isPending id = false ∧ s' = s) ∨
    (∃ e cs, e ∈ s.pending ∧ e.id = id ∧ e.running = false ∧ e.kind ≠ .alsoComplete ∧
      ctrDecAll s.counters (s.counterDiscs id) = some cs ∧
      ({ s with counters := cs, skipped := id :: s.skipped } : State).complete id = some s') := by
  unfold State.skip at h
  split at h
  · rename_i he
    left
    simp at h
    refine ⟨?_, h.symm⟩
    have := entry?_none he
    simp [State.isPending]
    exact this
  · rename_i e he
    obtain ⟨hm, hid⟩ := entry?_some he
    right
    split at h
    · simp at h
    · rename_i hc
      simp at hc
      cases hd : ctrDecAll s.counters (s.counterDiscs id) with
      | none => simp [hd] at h
      | some cs =>
        simp [hd] at h
        exact ⟨e, cs, hm, hid, hc.1, hc.2, rfl, h⟩

theorem receive_spec {s s' : State} {id : Id} (h : s.receive id = some s') :
    id ∈ s.inflight ∧ id ∉ s.success ∧
    ({ s with inflight := s.inflight.erase id, delivered := id :: s.delivered } : State).complete id = some s' := by
  unfold State.receive at h
  split at h
  · rename_i hc
    simp at hc
    exact ⟨hc.1, hc.2, h⟩
  · simp at h

end Fontc.Sched
