/-
  C08 helper lemmas, part 7: the quantised segment map, instance coordinates.
-/
import FontcProofs.PlmStruct
import FontcProofs.PlmQuant

namespace Fontc.PlmProofs
open Fontc Fontc.Plm Fontc.Avar

/-- value of an F2Dot14-rounded rational -/
def qv (x : Rat) : Rat := f2dot14Val (f2dot14 x)
/-- the emitted (quantised) segment map, as rationals -/
def qpts (m : List (Int × Int)) : List Pt := m.map fun p => (f2dot14Val p.1, f2dot14Val p.2)

theorem qpts_segmentMap (ax : Axis) : qpts (segmentMap ax) = (segmentMapExact ax).map fun p => (qv p.1, qv p.2) := by
  simp [qpts, segmentMap, qv, List.map_map, Function.comp]

theorem qv_neg_one : qv (-1) = -1 := by
  have := f2dot14_exact (-16384) (by norm_num) (by norm_num)
  have e : (((-16384 : Int) : Rat) / 16384) = -1 := by norm_num
  rw [e] at this
  simp only [qv, this, f2dot14Val]; norm_num
theorem qv_zero : qv 0 = 0 := by
  have := f2dot14_exact 0 (by norm_num) (by norm_num)
  have e : (((0 : Int) : Rat) / 16384) = 0 := by norm_num
  rw [e] at this
  simp only [qv, this, f2dot14Val]; norm_num
theorem qv_one : qv 1 = 1 := by
  have := f2dot14_exact 16384 (by norm_num) (by norm_num)
  have e : (((16384 : Int) : Rat) / 16384) = 1 := by norm_num
  rw [e] at this
  simp only [qv, this, f2dot14Val]; norm_num

theorem qv_mono (x y : Rat) (h : x ≤ y) : qv x ≤ qv y := by
  unfold qv f2dot14Val
  have := f2dot14_mono x y h
  have : ((f2dot14 x : Int) : Rat) ≤ ((f2dot14 y : Int) : Rat) := by exact_mod_cast this
  exact div_le_div_of_nonneg_right this (by norm_num)

theorem qv_err (x : Rat) (h1 : -1 ≤ x) (h2 : x ≤ 1) : qv x - x ≤ 1 / 32768 ∧ x - qv x ≤ 1 / 32768 :=
  f2dot14_err x (by linarith) (by linarith [show (1 : Rat) ≤ 32767 / 16384 by norm_num])

theorem strictFrom_sound (l : List Pt) (h : strictFrom l = true) : StrictFrom l := by
  induction l with
  | nil => exact List.Pairwise.nil
  | cons a t ih =>
    cases t with
    | nil => exact List.pairwise_singleton _ _
    | cons b t =>
      simp only [strictFrom, Bool.and_eq_true, decide_eq_true_eq] at h
      have ht := ih h.2
      refine List.pairwise_cons.mpr ⟨?_, ht⟩
      intro x hx
      rcases List.mem_cons.mp hx with rfl | hx
      · exact h.1
      · have := (List.pairwise_cons.mp ht).1 x hx
        linarith [h.1]

theorem avarGo_vertex (p : Pt) : ∀ (t : List Pt) (prev : Pt), StrictFrom (prev :: t) → p ∈ t →
    avarGo p.1 prev t = p.2 := by
  intro t
  induction t with
  | nil => intro prev _ hp; simp at hp
  | cons q t ih =>
    intro prev hs hp
    have hpq : prev.1 < q.1 := (List.pairwise_cons.mp hs).1 q (by simp)
    have hs' : StrictFrom (q :: t) := (List.pairwise_cons.mp hs).2
    simp only [avarGo]
    rcases List.mem_cons.mp hp with rfl | hp
    · simp only [lt_irrefl, if_false]
      have hne : p.1 - prev.1 ≠ 0 := by intro h0; linarith
      field_simp; ring
    · have : q.1 < p.1 := (List.pairwise_cons.mp hs').1 p hp
      simp only [this, if_true]
      exact ih q hs' hp

/-- on a map with strictly increasing `fromCoordinate`s a coordinate equal to a `fromCoordinate`
    maps to its `toCoordinate` -/
theorem avarApply_vertex (l : List Pt) (hs : StrictFrom l) (p : Pt) (hp : p ∈ l) : avarApply l p.1 = p.2 := by
  cases l with
  | nil => simp at hp
  | cons x t =>
    simp only [avarApply]
    rcases List.mem_cons.mp hp with rfl | hp
    · simp
    · have : x.1 < p.1 := (List.pairwise_cons.mp hs).1 p hp
      simp only [this, if_true]
      exact avarGo_vertex p t x hs hp

/-! ### design → user stays inside the axis range -/

theorem mapGo_range (v lo hi : Rat) : ∀ (rest : List Pt) (prev : Pt), prev.1 < v → (∃ e ∈ rest, v ≤ e.1) →
    (∀ p ∈ prev :: rest, lo ≤ p.2 ∧ p.2 ≤ hi) → lo ≤ mapGo v prev rest ∧ mapGo v prev rest ≤ hi := by
  intro rest
  induction rest with
  | nil => intro prev _ he; obtain ⟨e, he, _⟩ := he; simp at he
  | cons q rest ih =>
    intro prev hprev he hb
    simp only [mapGo]
    by_cases c1 : q.1 < v
    · simp only [c1, if_true]
      apply ih q c1
      · obtain ⟨e, he, hve⟩ := he
        rcases List.mem_cons.mp he with rfl | he
        · exact absurd c1 (not_lt.mpr hve)
        · exact ⟨e, he, hve⟩
      · intro p hp; exact hb p (List.mem_cons_of_mem _ hp)
    · simp only [c1, if_false]
      by_cases c2 : q.1 = v
      · simp only [c2, beq_self_eq_true, if_true]; exact hb q (by simp)
      · have : (q.1 == v) = false := by simpa using c2
        simp only [this, Bool.false_eq_true, if_false]
        have hvq : v < q.1 := lt_of_le_of_ne (not_lt.mp c1) (Ne.symm c2)
        have hpos : 0 < q.1 - prev.1 := by linarith
        have t0 : 0 ≤ (v - prev.1) / (q.1 - prev.1) := div_nonneg (by linarith) (le_of_lt hpos)
        have t1 : (v - prev.1) / (q.1 - prev.1) ≤ 1 := (div_le_one hpos).mpr (by linarith)
        have bp := hb prev (by simp)
        have bq := hb q (by simp)
        unfold lerp
        generalize (v - prev.1) / (q.1 - prev.1) = t at t0 t1
        constructor
        · have : prev.2 + t * (q.2 - prev.2) = (1 - t) * prev.2 + t * q.2 := by ring
          rw [this]
          have a := mul_le_mul_of_nonneg_left bp.1 (by linarith : (0 : Rat) ≤ 1 - t)
          have b := mul_le_mul_of_nonneg_left bq.1 t0
          linarith
        · have : prev.2 + t * (q.2 - prev.2) = (1 - t) * prev.2 + t * q.2 := by ring
          rw [this]
          have a := mul_le_mul_of_nonneg_left bp.2 (by linarith : (0 : Rat) ≤ 1 - t)
          have b := mul_le_mul_of_nonneg_left bq.2 t0
          linarith

theorem map_range (l : List Pt) (v lo hi : Rat) (hlo : ∃ f, l.head? = some f ∧ f.1 ≤ v) (hhi : ∃ e ∈ l, v ≤ e.1)
    (hb : ∀ p ∈ l, lo ≤ p.2 ∧ p.2 ≤ hi) : lo ≤ Plm.map ⟨l⟩ v ∧ Plm.map ⟨l⟩ v ≤ hi := by
  cases l with
  | nil => obtain ⟨e, he, _⟩ := hhi; simp at he
  | cons x t =>
    obtain ⟨f, hf, hfv⟩ := hlo
    have : x = f := by simpa using hf
    subst this
    simp only [Plm.map]
    by_cases c1 : x.1 < v
    · simp only [c1, if_true]
      apply mapGo_range v lo hi t x c1 _ hb
      obtain ⟨e, he, hve⟩ := hhi
      rcases List.mem_cons.mp he with rfl | he
      · exact absurd c1 (not_lt.mpr hve)
      · exact ⟨e, he, hve⟩
    · have : x.1 = v := le_antisymm hfv (not_lt.mp c1)
      rw [this] at c1
      simp only [this, c1, if_false, beq_self_eq_true, if_true]
      exact hb x (by simp)

theorem conv_new_reverse (ms : List Pt) (idx : Nat) (c : Conv) (h : Conv.new ms idx = .ok c) :
    c.designToUser = c.userToDesign.reverse := by
  unfold Conv.new at h
  simp only [] at h
  split at h
  · cases h
  · split at h
    · cases h
    · injection h with h; subst h; rfl

theorem ratAbs_le_and (x c : Rat) (h : -c ≤ x ∧ x ≤ c) : ratAbs x ≤ c := by
  unfold ratAbs; split <;> linarith [h.1, h.2]

variable (a : AxisDef)

/-- required entries of the exact and of the emitted map -/
theorem wf_required (h : a.WellFormed) (ax : Axis) (hax : a.axis? = some ax)
    (hleft : a.min < a.default → a.designMin < a.designDefault) :
    hasRequired (segmentMapExact ax) = true ∧
    ((-16384 : Int), (-16384 : Int)) ∈ segmentMap ax ∧ ((0 : Int), (0 : Int)) ∈ segmentMap ax ∧
    ((16384 : Int), (16384 : Int)) ∈ segmentMap ax := by
  have hS := wf_sorted a h
  have hreq : ((-1 : Rat), (-1 : Rat)) ∈ segmentMapExact ax ∧ ((0 : Rat), (0 : Rat)) ∈ segmentMapExact ax ∧
      ((1 : Rat), (1 : Rat)) ∈ segmentMapExact ax := by
    unfold segmentMapExact
    simp only []
    rw [wf_rawMappings a h ax hax]
    split_ifs
    · simp [defaultSegmentMap]
    · exact hS.padded_required hleft
  refine ⟨?_, ?_, ?_, ?_⟩
  · simp only [hasRequired, Bool.and_eq_true, List.contains_iff_mem]
    exact ⟨⟨hreq.1, hreq.2.1⟩, hreq.2.2⟩
  · have := List.mem_map_of_mem (f := fun p : Pt => (f2dot14 p.1, f2dot14 p.2)) hreq.1
    have e : f2dot14 (-1) = -16384 := by
      have := f2dot14_exact (-16384) (by norm_num) (by norm_num)
      have e : (((-16384 : Int) : Rat) / 16384) = -1 := by norm_num
      rwa [e] at this
    simpa [segmentMap, e] using this
  · have := List.mem_map_of_mem (f := fun p : Pt => (f2dot14 p.1, f2dot14 p.2)) hreq.2.1
    have e : f2dot14 0 = 0 := by
      have := f2dot14_exact 0 (by norm_num) (by norm_num)
      have e : (((0 : Int) : Rat) / 16384) = 0 := by norm_num
      rwa [e] at this
    simpa [segmentMap, e] using this
  · have := List.mem_map_of_mem (f := fun p : Pt => (f2dot14 p.1, f2dot14 p.2)) hreq.2.2
    have e : f2dot14 1 = 16384 := by
      have := f2dot14_exact 16384 (by norm_num) (by norm_num)
      have e : (((16384 : Int) : Rat) / 16384) = 1 := by norm_num
      rwa [e] at this
    simpa [segmentMap, e] using this

theorem wf_exact_pairwise (h : a.WellFormed) (ax : Axis) (hax : a.axis? = some ax) :
    (segmentMapExact ax).Pairwise (fun p q => p.1 ≤ q.1 ∧ p.2 ≤ q.2) := by
  have hS := wf_sorted a h
  unfold segmentMapExact
  simp only []
  rw [wf_rawMappings a h ax hax]
  split_ifs
  · simp [defaultSegmentMap]
  · exact hS.padded_pairwise

/-- from- and to-coordinates never decrease, before and after quantisation -/
theorem wf_monotone (h : a.WellFormed) (ax : Axis) (hax : a.axis? = some ax) :
    monotone (segmentMapExact ax) = true ∧ monotone (qpts (segmentMap ax)) = true := by
  have hp := wf_exact_pairwise a h ax hax
  refine ⟨monotone_of_pairwise _ hp, ?_⟩
  apply monotone_of_pairwise
  rw [qpts_segmentMap, List.pairwise_map]
  exact hp.imp (fun hab => ⟨qv_mono _ _ hab.1, qv_mono _ _ hab.2⟩)

/-- **`avar_quantised_bound` at the vertices.** -/
theorem wf_quantised_nodes (h : a.WellFormed) (ax : Axis) (hax : a.axis? = some ax)
    (hstrict : strictFrom (qpts (segmentMap ax)) = true) (n : Pt) (hn : n ∈ a.nodes) :
    ratAbs (avarApply (qpts (segmentMap ax)) (qv (defaultNormalize a.min a.default a.max n.1)) -
            designNormalize a.designMin a.designDefault a.designMax n.2) ≤ 1 / 32768 := by
  have hS := wf_sorted a h
  obtain ⟨o1, o2, o3, o4⟩ := hS.order
  have bn := hS.bounds n hn
  have rpsi := designNormalize_range a.designMin a.designDefault a.designMax n.2 o3 o4 bn.2.2.1 bn.2.2.2
  have rphi := defaultNormalize_range a.min a.default a.max n.1 o1 o2 bn.1 bn.2.1
  have rphi' : -1 ≤ defaultNormalize a.min a.default a.max n.1 ∧ defaultNormalize a.min a.default a.max n.1 ≤ 1 := by
    constructor
    · have : (-1 : Rat) ≤ (if a.min < a.default then (-1 : Rat) else 0) := by split_ifs <;> norm_num
      linarith [rphi.1]
    · have : (if a.default < a.max then (1 : Rat) else 0) ≤ 1 := by split_ifs <;> norm_num
      linarith [rphi.2]
  have hmemraw : (defaultNormalize a.min a.default a.max n.1, designNormalize a.designMin a.designDefault a.designMax n.2) ∈
      rawOf a.nodes a.min a.default a.max a.designMin a.designDefault a.designMax := by
    simp only [rawOf, List.mem_map]
    refine ⟨n, hn, ?_⟩
    rw [hS.psi_vertex n hn]
  have hmemP := mem_padded_of_mem _ _ hmemraw
  have hstrict' := strictFrom_sound _ hstrict
  rw [qpts_segmentMap] at hstrict' ⊢
  unfold segmentMapExact at hstrict' ⊢
  simp only [] at hstrict' ⊢
  rw [wf_rawMappings a h ax hax] at hstrict' ⊢
  apply ratAbs_le_and
  split_ifs at hstrict' ⊢ with c
  · -- elided: every padded pair is k:k, so the vertex' two normalisations coincide
    have hall : ∀ q ∈ padded (rawOf a.nodes a.min a.default a.max a.designMin a.designDefault a.designMax), q.1 = q.2 := by
      intro q hq
      have := List.all_eq_true.mp c q hq
      simpa using this
    have heq := hall _ hmemP
    simp only [] at heq
    rw [avarApply_ident]
    · rw [← heq]
      have := qv_err _ rphi'.1 rphi'.2
      constructor <;> linarith [this.1, this.2]
    · intro q hq
      simp only [defaultSegmentMap, List.map_cons, List.map_nil, List.mem_cons, List.mem_nil_iff, or_false] at hq
      rcases hq with rfl | rfl | rfl <;> simp [qv_neg_one, qv_zero, qv_one]
  · have hmemQ := List.mem_map_of_mem (f := fun p : Pt => (qv p.1, qv p.2)) hmemP
    have := avarApply_vertex _ hstrict' _ hmemQ
    simp only [] at this
    rw [this]
    have := qv_err _ rpsi.1 rpsi.2
    constructor <;> linarith [this.1, this.2]

/-- design locations inside the design range map to user coordinates inside `[min, max]`, and so do
    the 16.16 instance coordinates relative to the fvar record -/
theorem wf_instances_in_range (h : a.WellFormed) (ax : Axis) (hax : a.axis? = some ax) (d : Rat)
    (hd1 : a.designMin ≤ d) (hd2 : d ≤ a.designMax) :
    a.min ≤ ax.conv.designToUserMap d ∧ ax.conv.designToUserMap d ≤ a.max ∧
    (fvarRecord ax).1 ≤ fvarInstanceCoord ax (some (ax.conv.designToUserMap d)) ∧
    fvarInstanceCoord ax (some (ax.conv.designToUserMap d)) ≤ (fvarRecord ax).2.2 := by
  have hS := wf_sorted a h
  obtain ⟨ax', hax', e1, e2, e3, hu2d, _⟩ := wf_axis a h
  have : ax = ax' := by rw [hax] at hax'; exact Option.some.inj hax'
  subst this
  have hrev : ax.conv.designToUser = ⟨a.nodes.map fun q => (q.2, q.1)⟩ := by
    have hc : ∃ c, Conv.new a.mappings a.defaultIdx = .ok c ∧ ax.conv = c := by
      unfold AxisDef.axis? at hax
      split at hax
      · rename_i c hc; exact ⟨c, hc, by injection hax with hax; rw [← hax]⟩
      · cases hax
    obtain ⟨c, hc, hcc⟩ := hc
    rw [hcc, conv_new_reverse _ _ c hc, ← hcc, hu2d]
    unfold Plm.reverse
    apply plm_new_sorted
    rw [List.pairwise_map]
    refine hS.pw.imp ?_
    intro p q ⟨h1, h2⟩
    simp only [ptLe, Bool.or_eq_true, decide_eq_true_eq, Bool.and_eq_true, beq_iff_eq]
    rcases eq_or_lt_of_le h2 with e | l
    · right; exact ⟨e, le_of_lt h1⟩
    · left; exact l
  have hr : a.min ≤ ax.conv.designToUserMap d ∧ ax.conv.designToUserMap d ≤ a.max := by
    unfold Conv.designToUserMap
    rw [hrev]
    apply map_range
    · refine ⟨(a.designMin, a.min), ?_, hd1⟩
      have := hS.hhead
      simp only [List.head?_map, this, Option.map_some]
    · refine ⟨(a.designMax, a.max), ?_, hd2⟩
      simp only [List.mem_map]
      exact ⟨(a.max, a.designMax), hS.last_mem, rfl⟩
    · intro p hp
      simp only [List.mem_map] at hp
      obtain ⟨q, hq, rfl⟩ := hp
      have := hS.bounds q hq
      exact ⟨this.1, this.2.1⟩
  refine ⟨hr.1, hr.2, ?_, ?_⟩
  · simp only [fvarRecord, fvarInstanceCoord, Option.getD_some, e1]
    exact fixed16_mono _ _ hr.1
  · simp only [fvarRecord, fvarInstanceCoord, Option.getD_some, e3]
    exact fixed16_mono _ _ hr.2

end Fontc.PlmProofs
