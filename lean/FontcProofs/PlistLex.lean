/-
  C20 — lexer-level lemmas for the plist model: whitespace, bare words, quoted strings with every
  escape form, data, decimal integers.
-/
import FontcModel.Plist
namespace Fontc.Plist
set_option linter.unusedSimpArgs false

/-- the text continues with something that is not part of a bare word -/
def Stop (r : List Char) : Prop := ∀ c, r.head? = some c → isAlnum c = false
/-- the text does not continue with whitespace -/
def NoWs (r : List Char) : Prop := ∀ c, r.head? = some c → isWs c = false

theorem stop_nil : Stop [] := by intro c h; simp at h
theorem stop_cons {c : Char} (r : List Char) (h : isAlnum c = false) : Stop (c :: r) := by
  intro d hd; simp at hd; subst hd; exact h
theorem noWs_cons {c : Char} (r : List Char) (h : isWs c = false) : NoWs (c :: r) := by
  intro d hd; simp at hd; subst hd; exact h

theorem ws_all (l : List Char) : ∀ c ∈ ws l, isWs c = true := by
  intro c hc; simp [ws] at hc; exact hc.2

theorem skipWs_ws_append (l r : List Char) (h : NoWs r) : skipWs (ws l ++ r) = r := by
  unfold skipWs
  have : ∀ (w : List Char), (∀ c ∈ w, isWs c = true) → (w ++ r).dropWhile isWs = r := by
    intro w hw
    induction w with
    | nil =>
      cases r with
      | nil => rfl
      | cons c r => simp [List.dropWhile, h c rfl]
    | cons a w ih =>
      simp [List.dropWhile, hw a (by simp)]
      exact ih (fun c hc => hw c (by simp [hc]))
  exact this _ (ws_all l)

theorem isAlnum_not_ws {c : Char} (h : isAlnum c = true) : isWs c = false := by
  cases hw : isWs c with
  | false => rfl
  | true =>
    simp [isWs] at hw
    rcases hw with ((rfl | rfl) | rfl) | rfl <;> revert h <;> decide

theorem stop_ws_cons (l : List Char) (c : Char) (r : List Char) (hc : isAlnum c = false) :
    Stop (ws l ++ c :: r) := by
  intro d hd
  cases hl : ws l with
  | nil => simp [hl] at hd; subst hd; exact hc
  | cons a w =>
    simp [hl] at hd; subst hd
    have := ws_all l a (by simp [hl])
    cases h : isAlnum a with
    | false => rfl
    | true => rw [isAlnum_not_ws h] at this; cases this

theorem stop_ws (l : List Char) : Stop (ws l) := by
  intro d hd
  cases hl : ws l with
  | nil => simp [hl] at hd
  | cons a w =>
    simp [hl] at hd; subst hd
    have := ws_all l a (by simp [hl])
    cases h : isAlnum a with
    | false => rfl
    | true => rw [isAlnum_not_ws h] at this; cases this

theorem takeWhile_alnum (a r : List Char) (ha : a.all isAlnum = true) (hr : Stop r) :
    (a ++ r).takeWhile isAlnum = a ∧ (a ++ r).dropWhile isAlnum = r := by
  induction a with
  | nil =>
    cases r with
    | nil => simp
    | cons c r => simp [List.takeWhile, List.dropWhile, hr c rfl]
  | cons x a ih =>
    simp at ha
    simp [List.takeWhile, List.dropWhile, ha.1]
    exact ih (by simpa using ha.2)

/-! ### `expect` -/

theorem expect_hit (l : List Char) (c : Char) (r : List Char) (hc : isWs c = false) :
    expect (ws l ++ c :: r) c = some r := by
  unfold expect
  rw [skipWs_ws_append l (c :: r) (noWs_cons r hc)]
  simp

theorem expect_miss (l : List Char) (c d : Char) (r : List Char) (hd : isWs d = false) (hne : (d == c) = false) :
    expect (ws l ++ d :: r) c = none := by
  unfold expect
  rw [skipWs_ws_append l (d :: r) (noWs_cons r hd)]
  simp [hne]

/-! ### hex digits, `\U` escapes -/

theorem hexVal_hexDigitCh : ∀ n, n < 16 → ∀ u, hexVal (hexDigitCh n u) = some n := by decide
theorem hexDigitCh_ne_gt : ∀ n, n < 16 → ∀ u, (hexDigitCh n u != '>') = true := by decide

theorem hexRun4 (v : Nat) (hv : v < 65536) (u : Bool) (tail : List Char) :
    hexRun 4 (hex4Digits v u ++ tail) 0 = (v, tail) := by
  have h3 := hexVal_hexDigitCh (v / 4096 % 16) (by omega) u
  have h2 := hexVal_hexDigitCh (v / 256 % 16) (by omega) u
  have h1 := hexVal_hexDigitCh (v / 16 % 16) (by omega) u
  have h0 := hexVal_hexDigitCh (v % 16) (by omega) u
  simp [hex4Digits, hexRun, h3, h2, h1, h0]
  omega

theorem hex4_digits (v : Nat) (hv : v < 65536) (u : Bool) (tail : List Char) :
    hex4 (hex4Digits v u ++ tail) = some (v, tail) := by
  have := hexRun4 v hv u tail
  have h3 := hexVal_hexDigitCh (v / 4096 % 16) (by omega) u
  unfold hex4
  simp only [hex4Digits, List.cons_append] at this ⊢
  simp [h3]
  simpa [hex4Digits] using this

theorem char_valid (c : Char) : c.toNat < 0xD800 ∨ (0xE000 ≤ c.toNat ∧ c.toNat < 0x110000) := by
  have := c.valid
  unfold UInt32.isValidChar Nat.isValidChar at this
  unfold Char.toNat
  omega

theorem scalar_toNat (c : Char) : scalar? c.toNat = some c := by
  have := char_valid c
  unfold scalar?
  have h : (c.toNat < 0xD800 || (0xE000 ≤ c.toNat && c.toNat < 0x110000)) = true := by
    simp; omega
  rw [if_pos h, Char.ofNat_toNat]

theorem parseEscape_uni_bmp (c : Char) (hc : c.toNat < 0x10000) (u : Bool) (t : List Char) :
    parseEscape ('U' :: hex4Digits c.toNat u ++ t) = some (c, t) := by
  have hv := char_valid c
  have hns : isSurrogate c.toNat = false := by simp [isSurrogate]; omega
  have h4 := hex4_digits c.toNat hc u t
  have hne : (hex4Digits c.toNat u ++ t).isEmpty = false := by simp [hex4Digits]
  simp [parseEscape, hne, h4, hns, scalar_toNat]

theorem pair_surr (c : Char) (hc : 0x10000 ≤ c.toNat) :
    isSurrogate (0xD800 + (c.toNat - 0x10000) / 1024) = true := by
  have hv := char_valid c
  simp [isSurrogate]; omega

theorem pair_decode (c : Char) (hc : 0x10000 ≤ c.toNat) :
    decodePair (0xD800 + (c.toNat - 0x10000) / 1024) (0xDC00 + (c.toNat - 0x10000) % 1024) = some c := by
  have hv := char_valid c
  unfold decodePair
  have : (0x10000 + (0xD800 + (c.toNat - 0x10000) / 1024 - 0xD800) * 1024 +
      (0xDC00 + (c.toNat - 0x10000) % 1024 - 0xDC00)) = c.toNat := by omega
  rw [this, scalar_toNat]
  have h : (decide (0xD800 ≤ 0xD800 + (c.toNat - 0x10000) / 1024) && decide (0xD800 + (c.toNat - 0x10000) / 1024 ≤ 0xDBFF) &&
      decide (0xDC00 ≤ 0xDC00 + (c.toNat - 0x10000) % 1024) && decide (0xDC00 + (c.toNat - 0x10000) % 1024 ≤ 0xDFFF)) = true := by
    simp only [Bool.and_eq_true, decide_eq_true_eq]; omega
  rw [if_pos h]

theorem parseEscape_uni_pair (c : Char) (hc : 0x10000 ≤ c.toNat) (u : Bool) (t : List Char) :
    parseEscape ('U' :: hex4Digits (0xD800 + (c.toNat - 0x10000) / 1024) u ++ '\\' :: 'U' ::
      hex4Digits (0xDC00 + (c.toNat - 0x10000) % 1024) u ++ t) = some (c, t) := by
  have hv := char_valid c
  have hs := pair_surr c hc
  have h4 := hex4_digits (0xD800 + (c.toNat - 0x10000) / 1024) (by omega) u
    ('\\' :: 'U' :: hex4Digits (0xDC00 + (c.toNat - 0x10000) % 1024) u ++ t)
  have h4' := hex4_digits (0xDC00 + (c.toNat - 0x10000) % 1024) (by omega) u t
  have hne : ∀ x y, (hex4Digits x u ++ y).isEmpty = false := by intros; simp [hex4Digits]
  have hd := pair_decode c hc
  generalize (0xD800 + (c.toNat - 0x10000) / 1024) = hi at *
  generalize (0xDC00 + (c.toNat - 0x10000) % 1024) = lo at *
  simp only [List.cons_append, List.append_assoc] at h4 ⊢
  simp [parseEscape, hne, h4, hs, h4', hd]

/-! ### octal escapes -/

theorem oct_head : ∀ n, n < 4 → (digitCh n == '"') = false ∧ (digitCh n == '\\') = false ∧ (digitCh n == 'n') = false ∧
    (digitCh n == 'r') = false ∧ (digitCh n == 't') = false ∧ (digitCh n == 'U') = false ∧
    (decide (48 ≤ (digitCh n).toNat) && decide ((digitCh n).toNat ≤ 51)) = true ∧ (digitCh n).toNat - 48 = n := by decide
theorem oct_tail : ∀ m, m < 8 → isOct (digitCh m) = true ∧ (digitCh m).toNat - 48 = m := by decide

theorem parseEscape_octal (n m k : Nat) (hn : n < 4) (hm : m < 8) (hk : k < 8) (t : List Char) :
    parseEscape (digitCh n :: digitCh m :: digitCh k :: t) = some (Char.ofNat (n * 64 + m * 8 + k), t) := by
  obtain ⟨a1, a2, a3, a4, a5, a6, a7, a8⟩ := oct_head n hn
  obtain ⟨b1, b2⟩ := oct_tail m hm
  obtain ⟨c1, c2⟩ := oct_tail k hk
  simp [parseEscape, a1, a2, a3, a4, a5, a6, a7, a8, b1, b2, c1, c2]

/-! ### one character of a quoted string, in any of its renderings, is one iteration of the loop -/

theorem lexQuoted_raw (c : Char) (h1 : (c == '"') = false) (h2 : (c == '\\') = false) (f : Nat)
    (acc t : List Char) : lexQuoted (f + 1) acc (c :: t) = lexQuoted f (c :: acc) t := by
  simp [lexQuoted, h1, h2]

theorem lexQuoted_esc (r : List Char) (c : Char) (t : List Char) (h : parseEscape r = some (c, t)) (f : Nat)
    (acc : List Char) : lexQuoted (f + 1) acc ('\\' :: r) = lexQuoted f (c :: acc) t := by
  simp [lexQuoted, h]

theorem lexQuoted_short (c : Char) (f : Nat) (acc t : List Char) :
    lexQuoted (f + 1) acc (shortEsc c ++ t) = lexQuoted f (c :: acc) t := by
  unfold shortEsc
  split
  · next h => simp at h; subst h; exact lexQuoted_esc _ _ _ (by simp [parseEscape]) f acc
  split
  · next h => simp at h; subst h; exact lexQuoted_esc _ _ _ (by simp [parseEscape]) f acc
  split
  · next h => simp at h; subst h; exact lexQuoted_esc _ _ _ (by simp [parseEscape]) f acc
  split
  · next h => simp at h; subst h; exact lexQuoted_esc _ _ _ (by simp [parseEscape]) f acc
  split
  · next h => simp at h; subst h; exact lexQuoted_esc _ _ _ (by simp [parseEscape]) f acc
  · next h1 h2 _ _ _ =>
    exact lexQuoted_raw c (by simpa using h1) (by simpa using h2) f acc t

theorem lexQuoted_rawEsc (c : Char) (f : Nat) (acc t : List Char) :
    lexQuoted (f + 1) acc (rawEsc c ++ t) = lexQuoted f (c :: acc) t := by
  unfold rawEsc
  split
  · exact lexQuoted_short c f acc t
  · next h =>
    simp at h
    exact lexQuoted_raw c (by simpa using h.1) (by simpa using h.2) f acc t

theorem lexQuoted_step (c : Char) (e : Esc) (f : Nat) (acc t : List Char) :
    lexQuoted (f + 1) acc (escChar c e ++ t) = lexQuoted f (c :: acc) t := by
  cases e with
  | raw => exact lexQuoted_rawEsc c f acc t
  | short => exact lexQuoted_short c f acc t
  | octal =>
    simp only [escChar]
    split
    · next h =>
      have := parseEscape_octal (c.toNat / 64) (c.toNat / 8 % 8) (c.toNat % 8) (by omega) (by omega) (by omega) t
      have hv : c.toNat / 64 * 64 + c.toNat / 8 % 8 * 8 + c.toNat % 8 = c.toNat := by omega
      rw [hv, Char.ofNat_toNat] at this
      exact lexQuoted_esc _ _ _ this f acc
    · exact lexQuoted_rawEsc c f acc t
  | uni u =>
    simp only [escChar]
    split
    · next h => exact lexQuoted_esc _ _ _ (parseEscape_uni_bmp c h u t) f acc
    · next h =>
      have := parseEscape_uni_pair c (by omega) u t
      simp only [List.cons_append, List.append_assoc] at this ⊢
      exact lexQuoted_esc _ _ _ this f acc

theorem escChar_ne_nil (c : Char) (e : Esc) : escChar c e ≠ [] := by
  cases e <;> simp [escChar, rawEsc, shortEsc, hex4Digits] <;> (repeat' split) <;> simp

theorem quotedBody_length (s : List Char) (es : List Esc) : s.length ≤ (quotedBody s es).length := by
  induction s generalizing es with
  | nil => simp [quotedBody]
  | cons c cs ih =>
    simp only [quotedBody, List.length_append, List.length_cons]
    have := ih es.tail
    have h := escChar_ne_nil c (es.headD .raw)
    have : 0 < (escChar c (es.headD .raw)).length := List.length_pos_iff.2 h
    omega

/-- a quoted string body in any style reads back as the string -/
theorem lexQuoted_body (s : List Char) (es : List Esc) (f : Nat) (hf : s.length < f) (acc r : List Char) :
    lexQuoted f acc (quotedBody s es ++ '"' :: r) = some (acc.reverse ++ s, r) := by
  induction s generalizing es f acc with
  | nil =>
    cases f with
    | zero => simp at hf
    | succ f => simp [quotedBody, lexQuoted]
  | cons c cs ih =>
    cases f with
    | zero => simp at hf
    | succ f =>
      simp only [quotedBody, List.append_assoc]
      rw [lexQuoted_step, ih es.tail f (by simpa using hf)]
      simp

/-! ### data -/


theorem takeWhile_append_stop {p : Char → Bool} (l : List Char) (x : Char) (r : List Char)
    (hl : ∀ c ∈ l, p c = true) (hx : p x = false) :
    (l ++ x :: r).takeWhile p = l ∧ (l ++ x :: r).dropWhile p = x :: r := by
  induction l with
  | nil => simp [List.takeWhile, List.dropWhile, hx]
  | cons a l ih =>
    have ha := hl a (by simp)
    simp [List.takeWhile, List.dropWhile, ha]
    exact ih (fun c hc => hl c (by simp [hc]))

theorem hexBytes_ne_gt (bs : List UInt8) (us : List Bool) : ∀ c ∈ hexBytes bs us, (c != '>') = true := by
  induction bs generalizing us with
  | nil => simp [hexBytes]
  | cons b bs ih =>
    intro c hc
    simp only [hexBytes, List.mem_cons] at hc
    have hb := b.toNat_lt
    rcases hc with rfl | rfl | hc
    · exact hexDigitCh_ne_gt _ (by omega) _
    · exact hexDigitCh_ne_gt _ (by omega) _
    · exact ih _ c hc

theorem hexPairs_hexBytes (bs : List UInt8) (us : List Bool) : hexPairs (hexBytes bs us) = some bs := by
  induction bs generalizing us with
  | nil => simp [hexBytes, hexPairs]
  | cons b bs ih =>
    have hb := b.toNat_lt
    have h1 := hexVal_hexDigitCh (b.toNat / 16) (by omega) (us.headD false)
    have h2 := hexVal_hexDigitCh (b.toNat % 16) (by omega) (us.tail.headD false)
    simp only [hexBytes, hexPairs, h1, h2, ih]
    have : b.toNat / 16 * 16 + b.toNat % 16 = b.toNat := by omega
    rw [this, UInt8.ofNat_toNat]

theorem lexData_hex (bs : List UInt8) (us : List Bool) (r : List Char) :
    lexData (hexBytes bs us ++ '>' :: r) = some (bs, r) := by
  obtain ⟨h1, h2⟩ := takeWhile_append_stop (p := (· != '>')) (hexBytes bs us) '>' r (hexBytes_ne_gt bs us) (by decide)
  unfold lexData
  rw [h2, h1, hexPairs_hexBytes]
  rfl

/-! ### decimal integers -/

theorem isDigit_digitCh : ∀ n, n < 10 → isDigit (digitCh n) = true ∧ (digitCh n).toNat - 48 = n := by decide

theorem natDigitsAux_spec (f n : Nat) (hf : n ≤ f) :
    (natDigitsAux f n).all isDigit = true ∧ natDigitsAux f n ≠ [] ∧ digitsVal (natDigitsAux f n) = n ∧
    (10 ≤ n → (natDigitsAux f n).head? ≠ some '0') ∧ ((natDigitsAux f n).length > 1 → 10 ≤ n) := by
  induction f generalizing n with
  | zero =>
    have : n = 0 := by omega
    subst this
    refine ⟨by decide, by decide, by decide, by omega, by decide⟩
  | succ f ih =>
    rw [natDigitsAux]
    split
    · next h =>
      obtain ⟨d1, d2⟩ := isDigit_digitCh n h
      refine ⟨by simp [d1], by simp, by simp [digitsVal, d2], by omega, by simp⟩
    · next h =>
      obtain ⟨i1, i2, i3, i4, i5⟩ := ih (n / 10) (by omega)
      obtain ⟨d1, d2⟩ := isDigit_digitCh (n % 10) (by omega)
      refine ⟨by simp [i1, d1] , by simp, ?_, ?_, by omega⟩
      · simp only [digitsVal] at i3 ⊢
        rw [List.foldl_append, i3]
        simp [d2]; omega
      · intro _
        cases hd : natDigitsAux f (n / 10) with
        | nil => exact absurd hd i2
        | cons a l =>
          simp
          rw [hd] at i4 i3 i5
          by_cases h10 : 10 ≤ n / 10
          · have := i4 h10; simpa using this
          · -- single digit n/10 ≥ 1
            intro ha; subst ha
            have hl : l = [] := by
              cases l with
              | nil => rfl
              | cons b l => exact absurd (i5 (by simp)) h10
            subst hl
            simp [digitsVal] at i3
            omega

theorem natDigits_spec (n : Nat) :
    (natDigits n).all isDigit = true ∧ natDigits n ≠ [] ∧ digitsVal (natDigits n) = n ∧
    (10 ≤ n → (natDigits n).head? ≠ some '0') ∧ ((natDigits n).length > 1 → 10 ≤ n) :=
  natDigitsAux_spec n n (Nat.le_refl n)

theorem isDigit_facts {c : Char} (h : isDigit c = true) :
    isAlnum c = true ∧ isUpper c = false ∧ (c == '"') = false ∧ (c == '-') = false ∧ (c == '+') = false ∧
    (c == 'i') = false ∧ (c == 'n') = false := by
  simp only [isDigit, Bool.and_eq_true, decide_eq_true_eq] at h
  refine ⟨?_, ?_, ?_, ?_, ?_, ?_, ?_⟩
  · simp [isAlnum, isNumericCh, isDigit, h]
  · simp [isUpper]; omega
  all_goals (cases hc : (c == _) with
    | false => rfl
    | true => simp at hc; subst hc; revert h; decide)

theorem isInfNan_cons_false (c : Char) (t : List Char) (hu : isUpper c = false) (hi : (c == 'i') = false)
    (hn : (c == 'n') = false) : isInfNan (c :: t) = false := by
  simp [isInfNan, eqIgnoreCase, asciiLower, hu]
  simp at hi hn
  simp [hi, hn]

theorem numericOk_digits (ds : List Char) (hd : ds.all isDigit = true) (hne : ds ≠ [])
    (h0 : ds.length > 1 → ds.head? ≠ some '0') : numericOk ds = true := by
  cases ds with
  | nil => exact absurd rfl hne
  | cons c t =>
    have hc : isDigit c = true := by simp at hd; exact hd.1
    obtain ⟨_, f2, f3, _, _, f6, f7⟩ := isDigit_facts hc
    have hq : ((c :: t).length > 1 && (c :: t).head? == some '"' && (c :: t).getLast? == some '"') = false := by
      simp at f3; simp [f3]
    have hz : ((c :: t).length > 1 && (c :: t).head? == some '0') = false := by
      by_cases hl : (c :: t).length > 1
      · have := h0 hl; simp at this; simp [this]
      · simp at hl; simp [hl]
    unfold numericOk
    simp only [List.isEmpty_cons, Bool.false_eq_true, if_false, hq, hd, Bool.not_true, Bool.and_false, hz,
      isInfNan_cons_false c t f2 f6 f7]

theorem numericOk_neg (ds : List Char) (hd : ds.all isDigit = true) : numericOk ('-' :: ds) = true := by
  have hq : (('-' :: ds).length > 1 && ('-' :: ds).head? == some '"' && ('-' :: ds).getLast? == some '"') = false := by
    simp
  have hh : (('-' :: ds).all isHexUpper) = false := by simp [isHexUpper, isDigit]
  have hz : (('-' :: ds).length > 1 && ('-' :: ds).head? == some '0') = false := by simp
  unfold numericOk
  simp only [List.isEmpty_cons, Bool.false_eq_true, if_false, hq, hh, Bool.false_and, hz,
    isInfNan_cons_false '-' ds (by decide) (by decide) (by decide)]

theorem stripSign_digit (c : Char) (t : List Char) (hc : isDigit c = true) : stripSign (c :: t) = c :: t := by
  obtain ⟨_, _, _, f4, f5, _, _⟩ := isDigit_facts hc
  simp at f4 f5
  unfold stripSign
  split
  · next h => simp at h; exact absurd h.1 f4
  · next h => simp at h; exact absurd h.1 f5
  · rfl

theorem parseI64_natDigits (n : Nat) (hn : n ≤ 9223372036854775807) : parseI64 (natDigits n) = some (n : Int) := by
  obtain ⟨h1, h2, h3, _, _⟩ := natDigits_spec n
  cases hd : natDigits n with
  | nil => exact absurd hd h2
  | cons c t =>
    rw [hd] at h1 h3
    have hc : isDigit c = true := by simp at h1; exact h1.1
    obtain ⟨_, _, _, f4, _, _, _⟩ := isDigit_facts hc
    simp at f4
    unfold parseI64
    simp only [stripSign_digit c t hc, h1, h3]
    simp [f4]
    omega

theorem parseI64_neg (n : Nat) (hn : n ≤ 9223372036854775808) : parseI64 ('-' :: natDigits n) = some (-(n : Int)) := by
  obtain ⟨h1, h2, h3, _, _⟩ := natDigits_spec n
  unfold parseI64
  simp only [stripSign, h1, h3]
  cases hd : natDigits n with
  | nil => exact absurd hd h2
  | cons c t => simp; omega

theorem intText_alnum (i : Int) : (intText i).all isAlnum = true ∧ intText i ≠ [] := by
  obtain ⟨h1, h2, _⟩ := natDigits_spec i.natAbs
  have hall : (natDigits i.natAbs).all isAlnum = true := by
    rw [List.all_eq_true] at h1 ⊢
    intro c hc; exact (isDigit_facts (h1 c hc)).1
  unfold intText
  split
  · refine ⟨?_, by simp⟩
    simp only [List.all_cons, hall, Bool.and_true]; decide
  · exact ⟨hall, h2⟩

theorem parseAtom_intText (i : Int) (hlo : -9223372036854775808 ≤ i) (hhi : i ≤ 9223372036854775807) :
    parseAtom (intText i) = .int i := by
  obtain ⟨h1, h2, h3, h4, h5⟩ := natDigits_spec i.natAbs
  unfold intText
  split
  · next hneg =>
    unfold parseAtom
    rw [numericOk_neg _ h1, if_pos rfl, parseI64_neg _ (by omega)]
    simp; omega
  · next hpos =>
    unfold parseAtom
    rw [numericOk_digits _ h1 h2 (fun hl => h4 (h5 hl)), if_pos rfl, parseI64_natDigits _ (by omega)]
    simp; omega


end Fontc.Plist
