/-
  Helper lemmas for C18: insertion-ordered association lists (`alookup` / `ainsert` / `aerase`).
  Core Lean only.
-/
import FontcModel.Names

namespace Fontc.Names

section
variable {α β : Type} [DecidableEq α]

@[simp] theorem alookup_nil (k : α) : alookup k ([] : List (α × β)) = none := rfl

theorem alookup_cons (k a : α) (b : β) (t : List (α × β)) :
    alookup k ((a, b) :: t) = if a = k then some b else alookup k t := rfl

theorem alookup_ainsert_self (k : α) (v : β) (l : List (α × β)) : alookup k (ainsert k v l) = some v := by
  induction l with
  | nil => simp [ainsert, alookup_cons]
  | cons p t ih =>
    obtain ⟨a, b⟩ := p
    by_cases h : a = k <;> simp [ainsert, alookup_cons, h, ih]

theorem alookup_ainsert_ne {k k' : α} (h : k ≠ k') (v : β) (l : List (α × β)) :
    alookup k' (ainsert k v l) = alookup k' l := by
  induction l with
  | nil => simp [ainsert, alookup_cons, h]
  | cons p t ih =>
    obtain ⟨a, b⟩ := p
    by_cases h1 : a = k
    · subst h1; simp [ainsert, alookup_cons, h]
    · by_cases h2 : a = k'
      · subst h2; simp [ainsert, alookup_cons, h1]
      · simp [ainsert, alookup_cons, h1, h2, ih]

theorem alookup_ainsert (k k' : α) (v : β) (l : List (α × β)) :
    alookup k' (ainsert k v l) = if k = k' then some v else alookup k' l := by
  by_cases h : k = k'
  · subst h; simp [alookup_ainsert_self]
  · simp [h, alookup_ainsert_ne h]

theorem mem_of_alookup {k : α} {v : β} {l : List (α × β)} (h : alookup k l = some v) : (k, v) ∈ l := by
  induction l with
  | nil => simp at h
  | cons p t ih =>
    obtain ⟨a, b⟩ := p
    rw [alookup_cons] at h
    split at h
    · next hk => cases h; subst hk; simp
    · simp [ih h]

theorem alookup_isSome_of_mem {k : α} {v : β} {l : List (α × β)} (h : (k, v) ∈ l) : (alookup k l).isSome := by
  induction l with
  | nil => simp at h
  | cons p t ih =>
    obtain ⟨a, b⟩ := p
    rw [alookup_cons]
    split
    · simp
    · next hne =>
      rcases List.mem_cons.mp h with h | h
      · cases h; exact absurd rfl hne
      · exact ih h

theorem alookup_eq_none_iff {k : α} {l : List (α × β)} : alookup k l = none ↔ ∀ v, (k, v) ∉ l := by
  constructor
  · intro h v hv
    have := alookup_isSome_of_mem hv
    simp [h] at this
  · intro h
    cases hl : alookup k l with
    | none => rfl
    | some v => exact absurd (mem_of_alookup hl) (h v)

/-- with unique keys, membership and lookup coincide -/
theorem alookup_of_mem_nodup {k : α} {v : β} {l : List (α × β)} (hn : (akeys l).Nodup) (h : (k, v) ∈ l) :
    alookup k l = some v := by
  induction l with
  | nil => simp at h
  | cons p t ih =>
    obtain ⟨a, b⟩ := p
    simp only [akeys, List.map_cons, List.nodup_cons] at hn
    rw [alookup_cons]
    rcases List.mem_cons.mp h with h | h
    · cases h; simp
    · have : a ≠ k := by
        intro hak; subst hak
        exact hn.1 (List.mem_map.mpr ⟨(a, v), h, rfl⟩)
      simp [this]; exact ih hn.2 h

theorem mem_ainsert {k : α} {v : β} {l : List (α × β)} {p : α × β} (h : p ∈ ainsert k v l) :
    p = (k, v) ∨ p ∈ l := by
  induction l with
  | nil => simp [ainsert] at h; exact Or.inl h
  | cons q t ih =>
    obtain ⟨a, b⟩ := q
    simp only [ainsert] at h
    split at h
    · next hk =>
      rcases List.mem_cons.mp h with h | h
      · left; rw [h, hk]
      · right; exact List.mem_cons_of_mem _ h
    · rcases List.mem_cons.mp h with h | h
      · right; rw [h]; exact List.mem_cons_self
      · rcases ih h with h | h
        · exact Or.inl h
        · right; exact List.mem_cons_of_mem _ h

/-- inserting the value a key already has changes nothing -/
theorem ainsert_same {k : α} {v : β} {l : List (α × β)} (h : alookup k l = some v) : ainsert k v l = l := by
  induction l with
  | nil => simp at h
  | cons p t ih =>
    obtain ⟨a, b⟩ := p
    rw [alookup_cons] at h
    simp only [ainsert]
    split
    · next hk => simp [hk] at h; rw [h]
    · next hk => simp [hk] at h; rw [ih h]

/-- inserting an absent key appends -/
theorem ainsert_of_none {k : α} {v : β} {l : List (α × β)} (h : alookup k l = none) : ainsert k v l = l ++ [(k, v)] := by
  induction l with
  | nil => rfl
  | cons p t ih =>
    obtain ⟨a, b⟩ := p
    rw [alookup_cons] at h
    simp only [ainsert]
    split
    · next hk => simp [hk] at h
    · next hk => simp [hk] at h; rw [ih h]; rfl

theorem alookup_append (k : α) (l₁ l₂ : List (α × β)) :
    alookup k (l₁ ++ l₂) = (alookup k l₁).or (alookup k l₂) := by
  induction l₁ with
  | nil => simp
  | cons p t ih =>
    obtain ⟨a, b⟩ := p
    simp only [List.cons_append, alookup_cons]
    split
    · simp
    · exact ih

theorem akeys_ainsert_nodup {k : α} {v : β} {l : List (α × β)} (h : (akeys l).Nodup) : (akeys (ainsert k v l)).Nodup := by
  induction l with
  | nil => simp [ainsert, akeys]
  | cons p t ih =>
    obtain ⟨a, b⟩ := p
    simp only [akeys, List.map_cons, List.nodup_cons] at h
    simp only [ainsert]
    split
    · simpa [akeys] using h
    · next hk =>
      simp only [akeys, List.map_cons, List.nodup_cons]
      refine ⟨?_, ih h.2⟩
      intro hm
      obtain ⟨q, hq, hqa⟩ := List.mem_map.mp hm
      rcases mem_ainsert hq with h1 | h1
      · rw [h1] at hqa; exact hk hqa.symm
      · exact h.1 (List.mem_map.mpr ⟨q, h1, hqa⟩)

theorem alookup_aerase (k k' : α) (l : List (α × β)) :
    alookup k' (aerase k l) = if k = k' then none else alookup k' l := by
  induction l with
  | nil => simp [aerase]
  | cons p t ih =>
    obtain ⟨a, b⟩ := p
    simp only [aerase]
    by_cases h1 : a = k
    · subst h1
      by_cases h2 : a = k'
      · subst h2; simpa using ih
      · simp [h2, ih, alookup_cons]
    · by_cases h2 : k = k'
      · subst h2; simp [h1, alookup_cons, ih]
      · simp [h1, h2, alookup_cons, ih]

theorem akeys_aerase_nodup {k : α} {l : List (α × β)} (h : (akeys l).Nodup) : (akeys (aerase k l)).Nodup := by
  induction l with
  | nil => simp [aerase, akeys]
  | cons p t ih =>
    obtain ⟨a, b⟩ := p
    simp only [akeys, List.map_cons, List.nodup_cons] at h
    simp only [aerase]
    split
    · exact ih h.2
    · simp only [akeys, List.map_cons, List.nodup_cons]
      refine ⟨?_, ih h.2⟩
      intro hm
      obtain ⟨q, hq, hqa⟩ := List.mem_map.mp hm
      have : (q.1, q.2) ∈ aerase k t := hq
      have hsome := alookup_isSome_of_mem this
      rw [alookup_aerase] at hsome
      split at hsome
      · simp at hsome
      · cases hl : alookup q.1 t with
        | none => simp [hl] at hsome
        | some v =>
          have := mem_of_alookup hl
          exact h.1 (List.mem_map.mpr ⟨(q.1, v), this, hqa⟩)

/-- filtering on values commutes with lookup when keys are unique -/
theorem alookup_filter_val (p : β → Bool) (k : α) {l : List (α × β)} (hn : (akeys l).Nodup) :
    alookup k (l.filter fun q => p q.2) = (alookup k l).filter p := by
  induction l with
  | nil => simp
  | cons q t ih =>
    obtain ⟨a, b⟩ := q
    simp only [akeys, List.map_cons, List.nodup_cons] at hn
    by_cases hk : a = k
    · subst hk
      by_cases hp : p b
      · simp [hp, alookup_cons, Option.filter]
      · have hnone : alookup a (t.filter fun q => p q.2) = none := by
          rw [alookup_eq_none_iff]
          intro v hv
          exact hn.1 (List.mem_map.mpr ⟨(a, v), (List.mem_filter.mp hv).1, rfl⟩)
        simp [hp, alookup_cons, Option.filter, hnone]
    · by_cases hp : p b
      · simp [hp, alookup_cons, hk, ih hn.2]
      · simp [hp, alookup_cons, hk, ih hn.2]

end

end Fontc.Names
