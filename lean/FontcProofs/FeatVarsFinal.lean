/-
  `first_match_is_T` for any lawful rank representation.
-/
import FontcProofs.FeatVarsSort

namespace Fontc.FeatVars

/-- what the overlay needs from the (merged) rule list: every region has at least one box, every box is a
    vector over the `n` axes with ranges inside [-1, 1] -/
structure RulesOk (n : Nat) (cs : List Rule) : Prop where
  nonempty : ∀ r ∈ cs, r.1 ≠ []
  shape : ∀ r ∈ cs, ∀ c ∈ r.1, c.length = n ∧ BoxOk c

/-- `x` is the lower bound of some box on axis `k` -/
def loSet (boxes : List NBox) : Bnd := fun k x => ∃ b ∈ boxes, ∃ hi, b[k]? = some (some (x, hi))
/-- `x` is the upper bound of some box on axis `k` -/
def hiSet (boxes : List NBox) : Bnd := fun k x => ∃ b ∈ boxes, ∃ lo, b[k]? = some (some (lo, x))

/-- **The degenerate touching boundary.**  Some coordinate of `p` is at the same time the lower bound of an
    input box and the upper bound of an input box on that axis (two boxes sharing a face through `p`, or one
    box of zero width through `p`). -/
def OnTouchingBoundary (boxes : List NBox) (p : Point) : Prop :=
  ∃ k x, p[k]? = some x ∧ loSet boxes k x ∧ hiSet boxes k x

theorem inB_of_forall {L H : Bnd} (c : NBox)
    (h : ∀ k lo hi, c[k]? = some (some (lo, hi)) → L k lo ∧ H k hi) : InB L H c := by
  induction c generalizing L H with
  | nil => simp [InB]
  | cons e c ih =>
    have hrec : InB (shiftB L) (shiftB H) c := ih fun k lo hi hk => h (k + 1) lo hi (by simpa using hk)
    cases e with
    | none => simpa [InB] using hrec
    | some r =>
      obtain ⟨lo, hi⟩ := r
      have := h 0 lo hi (by simp)
      exact ⟨this.1, this.2, hrec⟩

theorem noTouch_of_forall {L H : Bnd} (p : Point)
    (h : ∀ k x, p[k]? = some x → ¬ (L k x ∧ H k x)) : NoTouch L H p := by
  induction p generalizing L H with
  | nil => simp [NoTouch]
  | cons x p ih =>
    exact ⟨h 0 x (by simp), ih fun k y hk => h (k + 1) y (by simpa using hk)⟩

theorem activeSubs_eq_nil {cs : List Rule} {p : Point}
    (h : ∀ r ∈ cs, regionContains r.1 p = false) : activeSubs cs p = [] := by
  unfold activeSubs
  rw [List.map_eq_nil_iff, List.filter_eq_nil_iff]
  intro r hr; simp [h r hr]


section
variable {ρ : Type} {ops : RankOps ρ}

/-- number of set bits, as `le_iff` counts them -/
def cardBits {N : Nat} (law : LawfulRank ops N) (r : ρ) : Nat := ((List.range N).filter (law.bits r)).length

/-- **Generic form of `first_match_is_T`**, for any lawful rank representation. -/
theorem first_match_generic (n : Nat) (cs : List Rule) (law : LawfulRank ops cs.length) (hok : RulesOk n cs) :
    ∃ out, overlayCore ops n cs = some out ∧
      ∀ p : Point, p.length = n → ¬ OnTouchingBoundary (cs.flatMap (·.1)) p →
        (firstMatch out p).getD [] = activeSubs cs p := by
  let R := cs.map (·.1)
  let subs := cs.map (·.2)
  let boxmap := overlayLoop ops n R 0 (initMap ops n)
  let filtered := (sortedBoxes ops boxmap).filter (fun e => !ops.isZero e.2)
  let subsOf : ρ → List Subs := fun r =>
    ((List.range (ops.bound r)).filter (law.bits r)).filterMap fun t => subs[0 + t]?
  have hRlen : R.length = cs.length := by simp [R]
  have hshapeR : ∀ reg ∈ R, ∀ c ∈ reg, c.length = n ∧ BoxOk c := by
    intro reg hreg
    obtain ⟨r, hr, rfl⟩ := List.mem_map.1 hreg
    exact hok.shape r hr
  have hShape : Shape law n boxmap :=
    overlayLoop_shape law R hshapeR 0 _ (by simp [hRlen]) (initMap_shape law)
  have hmemF : ∀ e, e ∈ filtered ↔ e ∈ boxmap ∧ ops.isZero e.2 = false := by
    intro e
    simp only [filtered, sortedBoxes, List.mem_filter, mem_insSort]
    simp
  -- the result of the function
  have hout : overlayCore ops n cs = some (filtered.map fun e => (e.1, subsOf e.2)) := by
    unfold overlayCore
    apply mapM_option_eq_map
    intro e he
    have hinv := (hShape e ((hmemF e).1 he).1).2.2
    have := extract_spec law subs (ops.bound e.2) e.2 0 hinv (fun t ht => law.bound_spec _ _ hinv ht)
      (fun t ht => by have := law.bits_lt _ _ hinv ht; simp [subs]; omega)
    obtain ⟨b, r⟩ := e
    show Option.map (fun l => (b, l)) (extract ops subs (ops.bound r) r 0) = some (b, subsOf r)
    rw [this]
    rfl
  refine ⟨_, hout, ?_⟩
  intro p hp hnot
  -- the invariant at `p`
  let boxes := cs.flatMap (·.1)
  have hnt : NoTouch (loSet boxes) (hiSet boxes) p := noTouch_of_forall p fun k x hk hboth =>
    hnot ⟨k, x, hk, hboth.1, hboth.2⟩
  have hall : ∀ reg ∈ R, reg ≠ [] ∧ ∀ c ∈ reg, c.length = n ∧ BoxOk c ∧ InB (loSet boxes) (hiSet boxes) c := by
    intro reg hreg
    obtain ⟨r, hr, rfl⟩ := List.mem_map.1 hreg
    refine ⟨hok.nonempty r hr, fun c hc => ?_⟩
    obtain ⟨h1, h2⟩ := hok.shape r hr c hc
    have hcb : c ∈ boxes := List.mem_flatMap.2 ⟨r, hr, hc⟩
    exact ⟨h1, h2, inB_of_forall c fun k lo hi hk => ⟨⟨c, hcb, hi, hk⟩, ⟨c, hcb, lo, hk⟩⟩⟩
  obtain ⟨_, hSound, hWit⟩ := overlay_loop_final law (L := loSet boxes) (H := hiSet boxes) R (by simp [hRlen]) hp hnt hall
  obtain ⟨w, hwmem, hwgood, hwbits⟩ := hWit
  -- `Act` in terms of the rule list
  have hAct : ∀ j, Act R p R.length j ↔ ∃ h : j < cs.length, regionContains cs[j].1 p = true := by
    intro j
    unfold Act
    constructor
    · rintro ⟨hj, reg, h1, h2⟩
      have hj' : j < cs.length := by omega
      refine ⟨hj', ?_⟩
      have : R[j]? = some cs[j].1 := by simp [R, hj']
      rw [this] at h1; cases h1; exact h2
    · rintro ⟨hj, h2⟩
      exact ⟨by omega, cs[j].1, by simp [R, hj], h2⟩
  -- the substitution list of a box whose rank is exactly the active set
  have hsubsOf : ∀ r, law.Inv r → (∀ j, law.bits r j = true ↔ Act R p R.length j) → subsOf r = activeSubs cs p := by
    intro r hinv hb
    have hg : ∀ t (h : t < cs.length), law.bits r t = (fun (x : Rule) => regionContains x.1 p) cs[t] := by
      intro t ht
      show law.bits r t = regionContains cs[t].1 p
      cases hq : regionContains cs[t].1 p with
      | true => exact (hb t).2 ((hAct t).2 ⟨ht, hq⟩)
      | false =>
        cases hbt : law.bits r t with
        | false => rfl
        | true =>
          obtain ⟨_, h⟩ := (hAct t).1 ((hb t).1 hbt)
          rw [hq] at h; cases h
    have := filterMap_range_eq cs (fun x => regionContains x.1 p) (·.2) (law.bits r) hg
    simp only [subsOf, Nat.zero_add]
    rw [filter_range_eq (law.bits r) (ops.bound r) cs.length (fun t ht => law.bound_spec _ _ hinv ht)
      (fun t ht => law.bits_lt _ _ hinv ht)]
    exact this
  unfold firstMatch
  rw [List.find?_map]
  cases hfind : List.find? ((fun e => contains e.1 p) ∘ fun e => (e.1, subsOf e.2)) filtered with
  | none =>
    -- no box with a non-zero rank contains `p`: then no rule is active at `p`
    simp only [Option.map_none, Option.getD_none]
    have hwz : ops.isZero w.2 = true := by
      cases hz : ops.isZero w.2 with
      | true => rfl
      | false =>
        have := List.find?_eq_none.1 hfind w ((hmemF w).2 ⟨hwmem, hz⟩)
        simp [hwgood.contains] at this
    have hnobits := (law.isZero_iff w.2 (hShape w hwmem).2.2).1 hwz
    symm
    apply activeSubs_eq_nil
    intro r hr
    cases hq : regionContains r.1 p with
    | false => rfl
    | true =>
      obtain ⟨j, hj, rfl⟩ := List.getElem_of_mem hr
      have := (hwbits j).2 ((hAct j).2 ⟨hj, hq⟩)
      rw [hnobits j] at this; cases this
  | some x =>
    simp only [Option.map_some, Option.getD_some]
    obtain ⟨hxp, as, bs, hsplit, has⟩ := List.find?_eq_some_iff_append.1 hfind
    have hxp : contains x.1 p = true := by simpa using hxp
    have hxF : x ∈ filtered := by rw [hsplit]; simp
    obtain ⟨hxmem, hxnz⟩ := (hmemF x).1 hxF
    have hxinv := (hShape x hxmem).2.2
    have hwinv := (hShape w hwmem).2.2
    have hxsub : ∀ j, law.bits x.2 j = true → law.bits w.2 j = true := fun j hj =>
      (hwbits j).2 (hSound x hxmem hxp j hj)
    -- `x` is not zero, hence neither is the witness, which therefore is in the filtered list
    have hwnz : ops.isZero w.2 = false := by
      cases hz : ops.isZero w.2 with
      | false => rfl
      | true =>
        have hnobits := (law.isZero_iff w.2 hwinv).1 hz
        have : ops.isZero x.2 = true := (law.isZero_iff x.2 hxinv).2 fun j => by
          cases hb : law.bits x.2 j with
          | false => rfl
          | true => have := hxsub j hb; rw [hnobits j] at this; cases this
        rw [hxnz] at this; cases this
    have hwF : w ∈ filtered := (hmemF w).2 ⟨hwmem, hwnz⟩
    -- sortedness
    have hpw : filtered.Pairwise fun a b => cardBits law b.2 ≤ cardBits law a.2 := by
      have h1 : filtered.Pairwise fun a b => law.key a.2 ≤ law.key b.2 := by
        apply List.Pairwise.filter
        exact pairwise_insSort (fun (a b : NBox × ρ) => ops.le a.2 b.2) (fun (e : NBox × ρ) => law.key e.2) boxmap
          fun a ha b hb => law.le_iff a.2 b.2 (hShape a ha).2.2 (hShape b hb).2.2
      refine List.Pairwise.imp_of_mem ?_ h1
      intro a b ha hb hab
      obtain ⟨ha1, ha2⟩ := (hmemF a).1 ha
      obtain ⟨hb1, hb2⟩ := (hmemF b).1 hb
      exact (law.key_card a.2 b.2 (hShape a ha1).2.2 (hShape b hb1).2.2 ha2 hb2).1 hab
    have hcard : cardBits law w.2 ≤ cardBits law x.2 := by
      rw [hsplit] at hwF hpw
      rcases List.mem_append.1 hwF with h | h
      · have := has w h
        simp [hwgood.contains] at this
      · rcases List.mem_cons.1 h with rfl | h
        · exact Nat.le_refl _
        · have := (List.pairwise_append.1 hpw).2.1
          exact (List.pairwise_cons.1 this).1 w h
    have hxeq : ∀ j, law.bits x.2 j = true ↔ Act R p R.length j := by
      intro j
      constructor
      · exact hSound x hxmem hxp j
      · intro hA
        have hwj := (hwbits j).2 hA
        have hjN : j < cs.length := law.bits_lt _ _ hwinv hwj
        exact filter_subset_eq (List.range cs.length) (law.bits x.2) (law.bits w.2) hxsub hcard j
          (List.mem_range.2 hjN) hwj
    exact hsubsOf x.2 hxinv hxeq
end
end Fontc.FeatVars
