/-
  C19 helper lemmas, part 1: saturation / wrap arithmetic and the real-interval form of "otRound v fits".
  Core Lean only.
-/
import FontcModel.Casts
namespace Fontc.Casts
open Fontc

theorem satI16_of_in {v : Int} (h : inI16 v) : satI16 v = v := by
  unfold inI16 at h; unfold satI16; (repeat' split) <;> omega

theorem satU16_of_in {v : Int} (h : inU16 v) : satU16 v = v := by
  unfold inU16 at h; unfold satU16; (repeat' split) <;> omega

theorem satI16_above {v : Int} (h : 32767 < v) : satI16 v = 32767 := by
  unfold satI16; (repeat' split) <;> omega
theorem satI16_below {v : Int} (h : v < -32768) : satI16 v = -32768 := by
  unfold satI16; (repeat' split) <;> omega
theorem satU16_above {v : Int} (h : 65535 < v) : satU16 v = 65535 := by
  unfold satU16; (repeat' split) <;> omega
theorem satU16_below {v : Int} (h : v < 0) : satU16 v = 0 := by
  unfold satU16; (repeat' split) <;> omega

theorem wrapU16_of_in {v : Int} (h : inU16 v) : wrapU16 v = v := by
  unfold inU16 at h; unfold wrapU16; omega
theorem wrapI16_of_in {v : Int} (h : inI16 v) : wrapI16 v = v := by
  unfold inI16 at h; unfold wrapI16; omega
theorem wrapU16_range (v : Int) : inU16 (wrapU16 v) := by
  unfold inU16 wrapU16; omega
theorem wrapI16_range (v : Int) : inI16 (wrapI16 v) := by
  unfold inI16 wrapI16; omega

/-- `clamp_is_violation`, arithmetic core. -/
theorem satI16_ne {v : Int} (h : ¬ inI16 v) : satI16 v ≠ v := by
  unfold inI16 at h; unfold satI16; (repeat' split) <;> omega
theorem satU16_ne {v : Int} (h : ¬ inU16 v) : satU16 v ≠ v := by
  unfold inU16 at h; unfold satU16; (repeat' split) <;> omega
theorem wrapU16_ne {v : Int} (h : ¬ inU16 v) : wrapU16 v ≠ v := by
  unfold inU16 at h; unfold wrapU16; omega
theorem wrapI16_ne {v : Int} (h : ¬ inI16 v) : wrapI16 v ≠ v := by
  unfold inI16 at h; unfold wrapI16; omega

theorem otRound_ge_iff (v : Rat) (k : Int) : k ≤ otRound v ↔ (k : Rat) - 1/2 ≤ v := by
  unfold otRound; rw [Rat.le_floor_iff]; constructor <;> intro h <;> grind
theorem otRound_le_iff (v : Rat) (k : Int) : otRound v ≤ k ↔ v < (k : Rat) + 1/2 := by
  unfold otRound
  have : (v + 1/2).floor ≤ k ↔ (v + 1/2).floor < k + 1 := by omega
  rw [this, Rat.floor_lt_iff]; simp [Rat.intCast_add]; constructor <;> intro h <;> grind

theorem inI16_otRound_iff (v : Rat) : inI16 (otRound v) ↔ (-32768 - 1/2 : Rat) ≤ v ∧ v < 32767 + 1/2 := by
  unfold inI16; rw [otRound_ge_iff, otRound_le_iff]; simp
theorem inU16_otRound_iff (v : Rat) : inU16 (otRound v) ↔ (-1/2 : Rat) ≤ v ∧ v < 65535 + 1/2 := by
  unfold inU16; rw [otRound_ge_iff, otRound_le_iff]; simp; grind
end Fontc.Casts
