/-
  Helper lemmas for C05 (2/3): the directory parses back, and the layout facts of `assign`/`body`.
-/
import FontcProofs.SfntBasic

namespace Fontc.SfntProofs
open Fontc.Bytes Fontc.Sfnt

/-! ## directory round trip -/

def recFits (r : Rec) : Prop := r.checksum < 4294967296 ∧ r.offset < 4294967296 ∧ r.length < 4294967296

theorem parseRec_encode (r : Rec) (rest : Bytes) (h : recFits r) :
    parseRec (encodeRec r ++ rest) = some (r, rest) := by
  obtain ⟨hc, ho, hl⟩ := h
  have ht : r.tag.toNat < 4294967296 := r.tag.toNat_lt
  unfold parseRec encodeRec
  simp only [List.append_assoc]
  rw [take4_be32 _ _ ht]; simp only
  rw [take4_be32 _ _ hc]; simp only
  rw [take4_be32 _ _ ho]; simp only
  rw [take4_be32 _ _ hl]; simp only
  cases r; simp

theorem parseRecs_encode (recs : List Rec) (rest : Bytes) (h : ∀ r ∈ recs, recFits r) :
    parseRecs recs.length (recs.flatMap encodeRec ++ rest) = some recs := by
  induction recs with
  | nil => simp [parseRecs]
  | cons r recs ih =>
    simp only [List.length_cons, List.flatMap_cons, List.append_assoc, parseRecs]
    rw [parseRec_encode r _ (h r List.mem_cons_self)]
    simp only
    rw [ih (fun r hr => h r (List.mem_cons_of_mem _ hr))]

theorem length_encodeRec (r : Rec) : (encodeRec r).length = 16 := by simp [encodeRec]

theorem length_flatMap_encodeRec (recs : List Rec) : (recs.flatMap encodeRec).length = 16 * recs.length := by
  induction recs with
  | nil => rfl
  | cons r recs ih => simp [List.flatMap_cons, length_encodeRec, ih]; omega

theorem length_directory (recs : List Rec) : (directory recs).length = headerLen recs.length := by
  simp only [directory, List.length_append, length_be32, length_be16, length_flatMap_encodeRec, headerLen]

/-- searchRange fits u16 exactly when n < 4096 -/
theorem searchParams_fit (n : Nat) (h : n < 4096) :
    (searchParams n).1 < 65536 ∧ (searchParams n).2.1 < 65536 ∧ (searchParams n).2.2 < 65536 := by
  unfold searchParams
  simp only
  by_cases h0 : n = 0
  · subst h0; decide
  · have h1 : 2 ^ n.log2 ≤ n := Nat.log2_self_le h0
    have h2 : n.log2 < 12 := (Nat.log2_lt h0).2 (by omega)
    refine ⟨by omega, by omega, by omega⟩

theorem sfntVersion_lt (recs : List Rec) : sfntVersion recs < 4294967296 := by
  unfold sfntVersion; split <;> decide

theorem parseDir_directory (recs : List Rec) (rest : Bytes) (hn : recs.length < 4096)
    (h : ∀ r ∈ recs, recFits r) :
    parseDir (directory recs ++ rest) =
      some ⟨sfntVersion recs, recs.length, (searchParams recs.length).2.1, (searchParams recs.length).1,
            (searchParams recs.length).2.2, recs⟩ := by
  obtain ⟨h1, h2, h3⟩ := searchParams_fit recs.length hn
  unfold parseDir directory
  simp only [List.append_assoc]
  rw [take4_be32 _ _ (sfntVersion_lt recs)]; simp only
  rw [take2_be16 _ _ (by omega)]; simp only
  rw [take2_be16 _ _ h2]; simp only
  rw [take2_be16 _ _ h1]; simp only
  rw [take2_be16 _ _ h3]; simp only
  rw [parseRecs_encode recs rest h]

/-! ## layout -/

theorem length_setAdj (d : Bytes) (v : Nat) (h : 12 ≤ d.length) : (setAdj d v).length = d.length := by
  simp [setAdj]; omega

theorem length_zeroAdj (d : Bytes) (h : 12 ≤ d.length) : (zeroAdj d).length = d.length := by
  simp [zeroAdj]; omega

theorem length_final (adj : Nat) (t : Table) : (final adj t).length = t.data.length := by
  unfold final
  split
  · rename_i h; exact length_setAdj _ _ h.2
  · rfl

theorem length_padded (d : Bytes) : (padded d).length = pad4 d.length := by
  have := pad4_ge d.length
  simp [padded]; omega

theorem zeroAdj_setAdj (d : Bytes) (v : Nat) (h : 12 ≤ d.length) : zeroAdj (setAdj d v) = zeroAdj d := by
  have h8 : (List.take 8 d).length = 8 := by simp; omega
  unfold zeroAdj setAdj
  congr 1
  · congr 1
    rw [List.append_assoc, List.take_append_of_le_length (by omega)]
    exact List.take_of_length_le (by omega)
  · rw [List.append_assoc, List.drop_append, List.drop_append]
    simp only [h8, length_be32]
    rw [List.drop_eq_nil_of_le (by omega), List.drop_eq_nil_of_le (by simp)]
    simp

/-- what goes into the checksum is recoverable from what is written -/
theorem zeroedRaw_final (adj : Nat) (t : Table) : zeroedRaw t.tag (final adj t) = zeroed t := by
  unfold zeroed zeroedRaw
  rw [length_final]
  unfold final isHeadAdj
  split
  · rename_i h; simp only [h, and_self, if_true]; exact zeroAdj_setAdj _ _ h.2
  · rename_i h; simp only [h, if_false]

theorem length_body (adj : Nat) (l : List Table) : (body adj l).length = bodyLen l := by
  induction l with
  | nil => rfl
  | cons t l ih =>
    simp only [body, List.flatMap_cons, List.length_append, length_padded, length_final, bodyLen,
      List.map_cons, List.sum_cons] at ih ⊢
    rw [ih]

theorem body_cons (adj : Nat) (t : Table) (l : List Table) :
    body adj (t :: l) = padded (final adj t) ++ body adj l := by simp [body]

/-- Everything the checker looks at, for one record of `assign`, in a file `pre ++ body adj l`. -/
structure RecFacts (adj : Nat) (f : Bytes) (lo : Nat) (r : Rec) (t : Table) : Prop where
  tag : r.tag = t.tag
  len : r.length = t.data.length
  cks : r.checksum = checksum (zeroed t)
  lower : lo ≤ r.offset
  aligned : (r.offset - lo) % 4 = 0
  upper : r.offset + pad4 r.length ≤ f.length
  data : recData f r = final adj t
  padz : (f.drop (r.offset + r.length)).take (pad4 r.length - r.length) =
          List.replicate (pad4 r.length - r.length) 0

theorem assign_facts (adj : Nat) : ∀ (l : List Table) (pre : Bytes) (r : Rec),
    r ∈ assign pre.length l → ∃ t ∈ l, RecFacts adj (pre ++ body adj l) pre.length r t
  | [], _, _, h => by simp [assign] at h
  | t :: l, pre, r, h => by
    simp only [assign, List.mem_cons] at h
    rcases h with rfl | h
    · refine ⟨t, List.mem_cons_self, ?_⟩
      have hfl := length_final adj t
      have hge := pad4_ge t.data.length
      constructor
      · rfl
      · rfl
      · rfl
      · exact Nat.le_refl _
      · show (pre.length - pre.length) % 4 = 0
        omega
      · simp [body_cons, length_padded, hfl]
      · simp only [recData, body_cons]
        rw [List.drop_append, List.drop_eq_nil_of_le (Nat.le_refl _)]
        simp only [Nat.sub_self, List.drop_zero, List.nil_append, padded, List.append_assoc]
        rw [List.take_append_of_le_length (by omega), ← hfl, List.take_length]
      · simp only [body_cons, padded, List.append_assoc]
        rw [← List.append_assoc pre, List.drop_append,
          List.drop_eq_nil_of_le (by simp [hfl])]
        simp only [List.length_append, hfl, Nat.sub_self, List.drop_zero, List.nil_append]
        rw [List.take_append_of_le_length (by simp), List.take_of_length_le (by simp)]
    · have hp : (pre ++ padded (final adj t)).length = pre.length + pad4 t.data.length := by
        simp [length_padded, length_final]
      rw [← hp] at h
      obtain ⟨u, hu, fu⟩ := assign_facts adj l (pre ++ padded (final adj t)) r h
      refine ⟨u, List.mem_cons_of_mem _ hu, ?_⟩
      have hf : pre ++ body adj (t :: l) = (pre ++ padded (final adj t)) ++ body adj l := by
        simp [body_cons]
      rw [hf]
      have hm := pad4_mod t.data.length
      constructor
      · exact fu.tag
      · exact fu.len
      · exact fu.cks
      · have := fu.lower; omega
      · have := fu.aligned; have := fu.lower; omega
      · exact fu.upper
      · exact fu.data
      · exact fu.padz

theorem assign_lower : ∀ (l : List Table) (pos : Nat) (r : Rec), r ∈ assign pos l → pos ≤ r.offset
  | [], _, _, h => by simp [assign] at h
  | t :: l, pos, r, h => by
    simp only [assign, List.mem_cons] at h
    rcases h with rfl | h
    · exact Nat.le_refl _
    · have := assign_lower l _ r h; omega

def disjointP (a b : Rec) : Prop :=
  a.offset + pad4 a.length ≤ b.offset ∨ b.offset + pad4 b.length ≤ a.offset

theorem assign_disjoint : ∀ (l : List Table) (pos : Nat), List.Pairwise disjointP (assign pos l)
  | [], _ => by simp [assign]
  | t :: l, pos => by
    simp only [assign]
    refine List.pairwise_cons.2 ⟨?_, assign_disjoint l _⟩
    intro r hr
    exact Or.inl (assign_lower l _ r hr)

theorem assign_map_tag : ∀ (l : List Table) (pos : Nat), (assign pos l).map (·.tag) = l.map (·.tag)
  | [], _ => rfl
  | t :: l, pos => by simp [assign, assign_map_tag l]

theorem assign_map_len : ∀ (l : List Table) (pos : Nat),
    (assign pos l).map (fun r => pad4 r.length) = l.map (fun t => pad4 t.data.length)
  | [], _ => rfl
  | t :: l, pos => by simp [assign, assign_map_len l]

theorem length_assign : ∀ (l : List Table) (pos : Nat), (assign pos l).length = l.length
  | [], _ => rfl
  | t :: l, pos => by simp [assign, length_assign l]

/-- reading every record of `assign` back gives the written tables, in order -/
theorem assign_readback (adj : Nat) : ∀ (l : List Table) (pre : Bytes),
    (assign pre.length l).map (fun r => (⟨r.tag, recData (pre ++ body adj l) r⟩ : Table)) =
      l.map (fun t => ⟨t.tag, final adj t⟩)
  | [], _ => rfl
  | t :: l, pre => by
    have hp : (pre ++ padded (final adj t)).length = pre.length + pad4 t.data.length := by
      simp [length_padded, length_final]
    have hf : pre ++ body adj (t :: l) = (pre ++ padded (final adj t)) ++ body adj l := by
      simp [body_cons]
    have ih := assign_readback adj l (pre ++ padded (final adj t))
    rw [hp] at ih
    simp only [assign, List.map_cons]
    rw [hf, ih]
    congr 1
    have hfl := length_final adj t
    have hge := pad4_ge t.data.length
    simp only [recData, padded, List.append_assoc]
    rw [List.drop_append, List.drop_eq_nil_of_le (Nat.le_refl _)]
    simp only [Nat.sub_self, List.drop_zero, List.nil_append]
    rw [List.take_append_of_le_length (by omega), ← hfl, List.take_length]

end Fontc.SfntProofs
