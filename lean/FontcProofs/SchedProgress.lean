import FontcProofs.SchedFresh
namespace Fontc.Sched

/-! ### `job_count` = completed + pending -/

def CI (s : State) : Prop := s.jobCount = s.success.length + s.pending.length

theorem length_filter_ne {l : List Entry} {a : Id} (hnd : (l.map (·.id)).Nodup) (h : ∃ e ∈ l, e.id = a) :
    (l.filter (fun e => decide (e.id ≠ a))).length + 1 = l.length := by
  induction l with
  | nil => simp at h
  | cons x l ih =>
    simp only [List.map_cons, List.nodup_cons, List.mem_map, not_exists, not_and] at hnd
    by_cases hx : x.id = a
    · have h1 : l.filter (fun e => decide (e.id ≠ a)) = l := by
        apply List.filter_eq_self.2
        intro y hy
        have := hnd.1 y hy
        simp only [decide_eq_true_eq]
        intro hya; exact this (hya.trans hx.symm)
      have h2 : (x :: l).filter (fun e => decide (e.id ≠ a)) = l.filter (fun e => decide (e.id ≠ a)) :=
        List.filter_cons_of_neg (by simp [hx])
      rw [h2, h1]; rfl
    · obtain ⟨e, he, hea⟩ := h
      simp only [List.mem_cons] at he
      rcases he with rfl | he
      · exact absurd hea hx
      · have := ih hnd.2 ⟨e, he, hea⟩
        have h2 : (x :: l).filter (fun e => decide (e.id ≠ a)) = x :: l.filter (fun e => decide (e.id ≠ a)) :=
          List.filter_cons_of_pos (by simp [hx])
        rw [h2]
        simp only [List.length_cons]
        omega

theorem ci_completeOne {s s' : State} {a : Id} (hnd : (s.pending.map (·.id)).Nodup) (ci : CI s)
    (h : s.completeOne a = some s') : CI s' ∧ (s'.pending.map (·.id)).Nodup := by
  obtain ⟨hp, _, rfl⟩ := completeOne_spec h
  have := length_filter_ne hnd (isPending_iff.1 hp)
  refine ⟨?_, nodup_filter_ids _ hnd⟩
  unfold CI at *
  simp only [List.length_cons]
  omega

theorem ci_completeAll {l : List Id} {s s' : State} (hnd : (s.pending.map (·.id)).Nodup) (ci : CI s)
    (h : s.completeAll l = some s') : CI s' := by
  induction l generalizing s with
  | nil => simp [State.completeAll] at h; subst h; exact ci
  | cons a l ih =>
    simp only [State.completeAll] at h
    obtain ⟨s1, h1, h2⟩ := Option.bind_eq_some_iff.1 h
    obtain ⟨ci1, hnd1⟩ := ci_completeOne hnd ci h1
    exact ih hnd1 ci1 h2

theorem ci_complete {s s' : State} {id : Id} (hnd : (s.pending.map (·.id)).Nodup) (ci : CI s)
    (h : s.complete id = some s') : CI s' := by
  apply ci_completeAll (l := id :: s.alsoOf id) hnd ci
  simpa [State.completeAll, State.complete] using h

theorem ci_insertJob {s s' : State} {j : Job} (ci : CI s) (h : s.insertJob j = some s') : CI s' := by
  obtain ⟨_, cs, rfl, _⟩ := insertJob_spec h
  unfold CI at *
  simp
  omega

theorem ci_applyEffect {s s' : State} {e : Effect} (w : WF s) (ci : CI s) (h : s.applyEffect e = some s') : CI s' := by
  cases e with
  | add j => exact ci_insertJob ci h
  | rewrite i a m =>
    have := rewrite_spec h; subst this
    unfold CI at *; simpa using ci
  | skip i =>
    rcases skip_spec h with ⟨_, rfl⟩ | ⟨o, cs, _, rfl, _, _, _, hc⟩
    · exact ci
    · exact ci_complete (s := { s with counters := cs, skipped := o.id :: s.skipped }) w.nodup ci hc
  | guard i st =>
    simp only [State.applyEffect] at h
    split at h
    · simp at h; subst h; exact ci
    · simp at h

theorem ci_applyEffects {es : List Effect} {s s' : State} (w : WF s) (ci : CI s) (h : s.applyEffects es = some s')
    (hn : s'.inserted.Nodup) : CI s' := by
  induction es generalizing s with
  | nil => simp [State.applyEffects] at h; subst h; exact ci
  | cons e es ih =>
    simp only [State.applyEffects] at h
    obtain ⟨s1, h1, h2⟩ := Option.bind_eq_some_iff.1 h
    exact ih (wf_applyEffect w h1 ((mono_applyEffects h2).nodup hn)) (ci_applyEffect w ci h1) h2

theorem ci_step {sc : Script} {s s' : State} {e : Event} (w : WF s) (ci : CI s) (h : step sc s e = some s')
    (hn : s'.inserted.Nodup) : CI s' := by
  cases e with
  | insert j => exact ci_insertJob ci h
  | launch id =>
    obtain ⟨e, _, _, _, rfl⟩ := launch_spec h
    unfold CI at *; simpa using ci
  | finish id =>
    obtain ⟨e, cs, _, _, _, _, _, rfl⟩ := finish_spec h
    exact ci
  | deliver id =>
    simp only [step, State.deliver] at h
    obtain ⟨s1, h1, h2⟩ := Option.bind_eq_some_iff.1 h
    obtain ⟨_, _, hc⟩ := receive_spec h1
    have ci1 : CI s1 := ci_complete (s := { s with inflight := s.inflight.erase id, delivered := id :: s.delivered }) w.nodup ci hc
    exact ci_applyEffects (wf_receive w h1) ci1 h2 hn

theorem Reach.ci {sc : Script} {s : State} (r : Reach sc s) (hn : s.inserted.Nodup) : CI s := by
  induction r with
  | empty => simp [CI, State.empty]
  | step e r h ih =>
    have hn' := (mono_step h).nodup hn
    exact ci_step (r.wf hn') (ih hn') h hn

/-! ### what a stuck scheduler looks like -/

/-- `e` cannot be launched because of `p`: `p` is a pending job (not a placeholder) that `e`'s read access waits for -/
def WaitsFor (s : State) (e p : Entry) : Prop :=
  match e.reads with
  | .set ds =>
    (∃ x, Dep.specific x ∈ ds ∧ ∃ y ∈ s.pending, y.id = x ∧ y.owner = p.id) ∨
    (∃ d, Dep.variant d ∈ ds ∧ d ∈ s.counterDiscs p.id ∧ p.id ∉ s.inflight)
  | .all => ∃ y ∈ s.pending, y.id ≠ e.id ∧ y.owner = p.id
  | _ => False

/-- A pending job that is not running is launchable, or its access is `Unknown`, or it waits for a pending job. -/
theorem blocked_cases {s : State} (w : WF s) {e : Entry} (_he : e ∈ s.pending) (hreal : e.kind ≠ .alsoComplete)
    (hidle : e.running = false) :
    s.launchable e = true ∨ e.reads = .unknown ∨ ∃ p ∈ s.pending, p.kind ≠ .alsoComplete ∧ WaitsFor s e p := by
  by_cases hl : s.launchable e = true
  · exact Or.inl hl
  · right
    have hcan : s.canRun e = false := by
      simp [State.launchable, hreal, hidle] at hl
      exact hl
    have owner_of : ∀ y ∈ s.pending, ∃ p ∈ s.pending, p.kind ≠ .alsoComplete ∧ y.owner = p.id := by
      intro y hy
      by_cases hk : y.kind = .alsoComplete
      · obtain ⟨p, hp, hpid, hpk, _⟩ := w.owner_also y hy hk
        exact ⟨p, hp, hpk, hpid.symm⟩
      · exact ⟨y, hy, hk, w.owner_real y hy hk⟩
    cases hr : e.reads with
    | none => simp [State.canRun, hr] at hcan
    | unknown => exact Or.inl rfl
    | all =>
      right
      simp only [State.canRun, hr, Bool.and_eq_false_iff, decide_eq_false_iff_not, Nat.not_le] at hcan
      have : ∃ y ∈ s.pending, y.id ≠ e.id := by
        rcases hcan with hlen | hall
        · -- more than one entry, ids are distinct
          match hp : s.pending with
          | [] => simp [hp] at hlen
          | [_] => simp [hp] at hlen
          | a :: b :: rest =>
            have hnd := w.nodup
            rw [hp] at hnd
            simp only [List.map_cons, List.nodup_cons, List.mem_cons, not_or] at hnd
            by_cases ha : a.id = e.id
            · exact ⟨b, by simp, fun hb => hnd.1.1 (ha.trans hb.symm)⟩
            · exact ⟨a, by simp, ha⟩
        · simp only [List.all_eq_false, decide_eq_true_eq] at hall
          exact hall
      obtain ⟨y, hy, hne⟩ := this
      obtain ⟨p, hp, hpk, hpo⟩ := owner_of y hy
      exact ⟨p, hp, hpk, by simp only [WaitsFor, hr]; exact ⟨y, hy, hne, hpo⟩⟩
    | set ds =>
      right
      simp only [State.canRun, hr, List.all_eq_false] at hcan
      obtain ⟨d, hd, hnf⟩ := hcan
      cases d with
      | specific x =>
        simp only [State.depFulfilled, Bool.not_eq_true, Bool.not_eq_false'] at hnf
        obtain ⟨y, hy, hyx⟩ := isPending_iff.1 hnf
        obtain ⟨p, hp, hpk, hpo⟩ := owner_of y hy
        exact ⟨p, hp, hpk, by simp only [WaitsFor, hr]; exact Or.inl ⟨x, hd, y, hy, hyx, hpo⟩⟩
      | variant dd =>
        simp only [State.depFulfilled, decide_eq_true_eq] at hnf
        rw [w.counters dd] at hnf
        have hmem : dd ∈ s.slots := by
          apply Classical.byContradiction
          intro hn
          exact hnf (List.count_eq_zero.2 hn)
        simp only [State.slots, List.mem_flatMap] at hmem
        obtain ⟨p, hp, hdp⟩ := hmem
        simp only [State.active, List.mem_filter, decide_eq_true_eq] at hp
        exact ⟨p, hp.1, hp.2.1, by simp only [WaitsFor, hr]; exact Or.inr ⟨dd, hd, hdp, hp.2.2⟩⟩

/-- **What `Error::UnableToProceed` means.**  In a reachable state of a script with distinct ids: if the scheduler gives up
    (not done, nothing launchable, nothing running) then there is at least one pending job, and EVERY pending job either
    still has access `Unknown` (nobody resolved it) or waits for a pending job (possibly itself): the waits-for graph on the
    finitely many pending jobs has no sink, i.e. a dependency cycle — or an unresolved `Unknown`. -/
theorem unable_to_proceed_cases {sc : Script} {s : State} (r : Reach sc s) (fresh : s.inserted.Nodup)
    (hstuck : s.unableToProceed = true) :
    (∃ e ∈ s.pending, e.kind ≠ .alsoComplete) ∧
    ∀ e ∈ s.pending, e.kind ≠ .alsoComplete →
      e.reads = .unknown ∨ ∃ p ∈ s.pending, p.kind ≠ .alsoComplete ∧ WaitsFor s e p := by
  have w := r.wf fresh
  have ci := r.ci fresh
  simp only [State.unableToProceed, State.done, Bool.and_eq_true, Bool.not_eq_true', decide_eq_false_iff_not,
    Nat.not_le, List.any_eq_false] at hstuck
  obtain ⟨⟨hnd, hnl⟩, hnr⟩ := hstuck
  constructor
  · unfold CI at ci
    have hpos : 0 < s.pending.length := by omega
    match hp : s.pending with
    | [] => simp [hp] at hpos
    | y :: rest =>
      have hy : y ∈ s.pending := by simp [hp]
      by_cases hk : y.kind = .alsoComplete
      · obtain ⟨p, hpm, _, hpk, _⟩ := w.owner_also y hy hk
        exact ⟨p, by rw [← hp]; exact hpm, hpk⟩
      · exact ⟨y, by simp, hk⟩
  · intro e he hreal
    have hidle : e.running = false := by
      have := hnr e he
      simpa using this
    rcases blocked_cases w he hreal hidle with h | h | h
    · have := hnl e he
      rw [h] at this; simp at this
    · exact Or.inl h
    · exact Or.inr h

end Fontc.Sched
