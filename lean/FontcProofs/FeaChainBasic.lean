/-
  C11, contextual lookups, part 1: generic facts — a matched rule with one record at sequence index 0
  applies the nested step at the current glyph; coverage tables are the classes as sets; merging two
  adjacent one-glyph rules (`ContextRule::try_merge`) does not change the first match.
-/
import FontcModel.FeaCompile
import FontcProofs.FeaFlags

namespace Fontc.FeaCompile
open Cmp
set_option linter.unusedSimpArgs false

/-- a single record at sequence index 0: the nested step at the current glyph -/
theorem ctxResult_single {α : Type} (nested : α → Option Step) (rev : List Glyph) (g : Glyph) (suf : List Glyph)
    (ps : List Nat) (l : α) (st : Step) (hl : nested l = some st) (h0 : ps[0]? = some 0) :
    ctxResult nested rev g suf ps [(0, l)] =
      match st rev g suf with
      | some (out, rest) =>
        let e := fixEnd (matchEnd ps) (((out.length + rest.length : Nat) : Int) - ((1 + suf.length : Nat) : Int)) 0
        ((out ++ rest).take e, (out ++ rest).drop e)
      | none => ((g :: suf).take (matchEnd ps), (g :: suf).drop (matchEnd ps)) := by
  simp only [ctxResult, runRecords, h0, hl, applyAtIndex, List.drop_zero, List.take_zero, List.reverse_nil, List.nil_append]
  cases st rev g suf with
  | none => rfl
  | some r => obtain ⟨out, rest⟩ := r; rfl

/-- no record: the matched input is put out unchanged -/
theorem ctxResult_nil {α : Type} (nested : α → Option Step) (rev : List Glyph) (g : Glyph) (suf : List Glyph) (ps : List Nat) :
    ctxResult nested rev g suf ps [] = ((g :: suf).take (matchEnd ps), (g :: suf).drop (matchEnd ps)) := rfl

theorem has_sortedSet (c : GC) (y : Glyph) : (sortedSet c.glyphs).contains y = c.has y := by
  simp only [GC.has, contains_sortedSet]

theorem covPreds_eq (cs : List GC) :
    (cs.map fun c => sortedSet c.glyphs).map (fun c y => c.contains y) = cs.map GC.has := by
  rw [List.map_map]
  apply List.map_congr_left
  intro c _
  funext y
  exact has_sortedSet c y

end Fontc.FeaCompile
