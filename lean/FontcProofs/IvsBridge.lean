/-
  Bridge between the independent OpenType-spec evaluator (FontcModel/Ivs.lean, used by the end-to-end oracles)
  and the model of fontc's own scalar computation (VarModel.scalarAt): on the regions the variation model builds
  they are the same function.
-/
import FontcModel.Ivs
import FontcModel.VarModel
import FontcProofs.VarModelGeom

namespace Fontc.VarModel
open Fontc Fontc.VarModel.Geom

theorem rat_tri (a : Rat) : a < 0 ∨ a = 0 ∨ 0 < a := by grind

theorem axisScalar_eq_tentFactor (t : Tent) (h : TentOrd t) (v : Rat) :
    Ivs.axisScalar t.min t.peak t.max v = tentFactor t v := by
  obtain ⟨h0, hp, hn⟩ := h
  have hval : t.validate = true := by
    rw [validate_iff]
    rcases rat_tri t.peak with hlt | heq | hgt
    · have := hn hlt; grind
    · have := h0 heq; grind
    · have := hp hgt; grind
  unfold Ivs.axisScalar tentFactor
  simp only [hval]
  rcases rat_tri t.peak with hlt | heq | hgt
  · have := hn hlt
    by_cases hv : v = t.peak
    · simp [hv]; grind
    · have e1 : ¬ (t.min > t.peak ∨ t.peak > t.max) := by grind
      have e2 : ¬ (t.min < 0 ∧ t.max > 0 ∧ t.peak ≠ 0) := by grind
      have e3 : t.peak ≠ 0 := by grind
      have e4 : ¬ (t.min = 0 ∧ t.peak = 0 ∧ t.max = 0) := by grind
      simp only [e1, e2, e3, hv, e4, if_false, Bool.not_true, Bool.false_eq_true]
      by_cases ho : v < t.min ∨ v > t.max
      · have : v ≤ t.min ∨ t.max ≤ v := by grind
        simp [ho, this]
      · simp only [ho, if_false]
        by_cases hb : v ≤ t.min ∨ t.max ≤ v
        · simp only [hb, if_true]
          rcases hb with hb | hb
          · have : v = t.min := by grind
            have hlt' : v < t.peak := by grind
            subst this
            simp only [hlt', if_true]
            have : t.min - t.min = 0 := by grind
            rw [this]; grind
          · have : v = t.max := by grind
            have hnlt : ¬ v < t.peak := by grind
            subst this
            simp only [hnlt, if_false]
            have : t.max - t.max = 0 := by grind
            rw [this]; grind
        · simp only [hb, if_false]
          by_cases hl : v < t.peak
          · simp [hl]
          · simp only [hl, if_false]
            have hd : t.peak - t.max ≠ 0 := by grind
            have hd' : t.max - t.peak ≠ 0 := by grind
            grind
  · have := h0 heq
    simp [heq, this]
  · have := hp hgt
    by_cases hv : v = t.peak
    · simp [hv]; grind
    · have e1 : ¬ (t.min > t.peak ∨ t.peak > t.max) := by grind
      have e2 : ¬ (t.min < 0 ∧ t.max > 0 ∧ t.peak ≠ 0) := by grind
      have e3 : t.peak ≠ 0 := by grind
      have e4 : ¬ (t.min = 0 ∧ t.peak = 0 ∧ t.max = 0) := by grind
      simp only [e1, e2, e3, hv, e4, if_false, Bool.not_true, Bool.false_eq_true]
      by_cases ho : v < t.min ∨ v > t.max
      · have : v ≤ t.min ∨ t.max ≤ v := by grind
        simp [ho, this]
      · simp only [ho, if_false]
        by_cases hb : v ≤ t.min ∨ t.max ≤ v
        · simp only [hb, if_true]
          rcases hb with hb | hb
          · have : v = t.min := by grind
            have hlt' : v < t.peak := by grind
            subst this
            simp only [hlt', if_true]
            have : t.min - t.min = 0 := by grind
            rw [this]; grind
          · have : v = t.max := by grind
            have hnlt : ¬ v < t.peak := by grind
            subst this
            simp only [hnlt, if_false]
            have : t.max - t.max = 0 := by grind
            rw [this]; grind
        · simp only [hb, if_false]
          by_cases hl : v < t.peak
          · simp [hl]
          · simp only [hl, if_false]
            have hd : t.peak - t.max ≠ 0 := by grind
            have hd' : t.max - t.peak ≠ 0 := by grind
            grind

def tentTriple (t : Tent) : Rat × Rat × Rat := (t.min, t.peak, t.max)

theorem regionScalar_eq_scalarAt (r : Region) (h : ∀ t ∈ r, TentOrd t) (loc : Loc) :
    Ivs.regionScalar (r.map tentTriple) loc = scalarAt r loc := by
  induction r generalizing loc with
  | nil => simp [Ivs.regionScalar, scalarAt]
  | cons t ts ih =>
    have ht := h t (by simp)
    have hts : ∀ t' ∈ ts, TentOrd t' := fun t' ht' => h t' (by simp [ht'])
    cases loc with
    | nil => simp [Ivs.regionScalar, scalarAt, tentTriple, axisScalar_eq_tentFactor t ht, ih hts]
    | cons v vs => simp [Ivs.regionScalar, scalarAt, tentTriple, axisScalar_eq_tentFactor t ht, ih hts]

end Fontc.VarModel

namespace Fontc.VarModel
open Fontc Fontc.VarModel.Geom

theorem masterInfluence_tentOrd {n : Nat} {locs : List Loc} (H1 : ∀ l ∈ locs, l.length = n)
    (r : Region) (hr : r ∈ masterInfluence (regionsFor locs)) (t : Tent) (ht : t ∈ r) : TentOrd t := by
  have hg := masterInfluence_good H1
  obtain ⟨j, hj, rfl⟩ := List.mem_iff_getElem.1 hr
  obtain ⟨a, ha, rfl⟩ := List.mem_iff_getElem.1 ht
  have hj' : j < locs.length := by rw [← masterInfluence_length]; exact hj
  have hinv := (hg.2 j locs[j] _ (List.getElem?_eq_getElem hj') (List.getElem?_eq_getElem hj)).1
  have hlen : a < locs[j].length := by rw [← hinv.2.1]; exact ha
  exact (hinv.2.2 a _ locs[j][a] (List.getElem?_eq_getElem ha) (List.getElem?_eq_getElem hlen)).2.1

/-- On every region the variation model builds, the OpenType-spec region scalar (as implemented by the
    independent evaluator of the end-to-end oracles) equals the model of fontc's `scalar_at`, at every location. -/
theorem spec_scalar_eq_model {n : Nat} {locs : List Loc} (H1 : ∀ l ∈ locs, l.length = n)
    (r : Region) (hr : r ∈ masterInfluence (regionsFor locs)) (loc : Loc) :
    Ivs.regionScalar (r.map tentTriple) loc = scalarAt r loc :=
  regionScalar_eq_scalarAt r (fun t ht => masterInfluence_tentOrd H1 r hr t ht) loc

end Fontc.VarModel
