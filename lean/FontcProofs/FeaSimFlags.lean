/-
  C11 simulation, part 2: `set_lookup_flag` — the compiled flag is the code of the source flag under
  the (growing) id tables; codes are functional and injective.
-/
import FontcProofs.FeaSimBasic

namespace Fontc.FeaCompile
open Cmp
set_option linter.unusedSimpArgs false

theorem idxOf?_some_getElem? {α : Type} [BEq α] [LawfulBEq α] (l : List α) (c : α) (i : Nat)
    (h : l.idxOf? c = some i) : l[i]? = some c := by
  unfold List.idxOf? at h
  obtain ⟨hlt, hp, _⟩ := List.findIdx?_eq_some_iff_getElem.mp h
  rw [List.getElem?_eq_getElem hlt]
  simp at hp
  rw [hp]

theorem idxOf?_none_not_mem {α : Type} [BEq α] [LawfulBEq α] (l : List α) (c : α)
    (h : l.idxOf? c = none) : c ∉ l := by
  unfold List.idxOf? at h
  rw [List.findIdx?_eq_none_iff] at h
  intro hm
  have := h c hm
  simp at this

/-- id tables without repeats -/
def IdsInv (s : St) : Prop := s.attachIds.Nodup ∧ s.filterIds.Nodup

theorem nodup_snoc {α : Type} (l : List α) (c : α) (h : l.Nodup) (hc : c ∉ l) : (l ++ [c]).Nodup :=
  List.nodup_append.mpr ⟨h, by simp, by
    intro a ha b hb; simp at hb; subst hb; exact fun e => hc (e ▸ ha)⟩

theorem getElem?_snoc_length {α : Type} (l : List α) (c : α) : (l ++ [c])[l.length]? = some c := by simp

theorem setLookupFlag_spec (s : St) (f : Flag) (hi : IdsInv s) :
    FlagCode (s.setLookupFlag f).attachIds (s.setLookupFlag f).filterIds (s.setLookupFlag f).flag f ∧
    IdsInv (s.setLookupFlag f) ∧
    (∃ a', (s.setLookupFlag f).attachIds = s.attachIds ++ a' ∧ ∀ c ∈ a', f.attach.map sortedSet = some c) ∧
    (∃ f', (s.setLookupFlag f).filterIds = s.filterIds ++ f') ∧
    (s.setLookupFlag f).gsub = s.gsub ∧ (s.setLookupFlag f).gpos = s.gpos ∧ (s.setLookupFlag f).cur = s.cur ∧
    (s.setLookupFlag f).curName = s.curName ∧ (s.setLookupFlag f).named = s.named ∧
    (s.setLookupFlag f).langsys = s.langsys ∧ (s.setLookupFlag f).active = s.active ∧
    (s.setLookupFlag f).script = s.script ∧ (s.setLookupFlag f).features = s.features := by
  obtain ⟨gsub, gpos, cur, curName, named, flag, aIds, fIds, ls, active, script, features⟩ := s
  obtain ⟨ha, hf⟩ := hi
  simp only at ha hf
  obtain ⟨rtl, ib, il, im, att, fil⟩ := f
  cases att with
  | none =>
    cases fil with
    | none =>
      simp only [St.setLookupFlag, IdsInv]
      refine ⟨⟨0, 0, by simp [flagBits], by simp, by simp⟩, ⟨ha, hf⟩, ⟨[], by simp⟩, ⟨[], by simp⟩, ?_⟩
      simp
    | some c =>
      simp only [St.setLookupFlag, IdsInv]
      cases hq : fIds.idxOf? (sortedSet c) with
      | some i =>
        simp only
        refine ⟨⟨0, 1, by simp [flagBits], by simp, by simp [idxOf?_some_getElem? _ _ _ hq]⟩, ⟨ha, hf⟩, ⟨[], by simp⟩, ⟨[], by simp⟩, ?_⟩
        simp
      | none =>
        simp only
        refine ⟨⟨0, 1, by simp [flagBits], by simp, by simp⟩,
          ⟨ha, nodup_snoc _ _ hf (idxOf?_none_not_mem _ _ hq)⟩, ⟨[], by simp⟩, ⟨[sortedSet c], by simp⟩, ?_⟩
        simp
  | some ca =>
    cases hqa : aIds.idxOf? (sortedSet ca) with
    | some j =>
      have hja := idxOf?_some_getElem? _ _ _ hqa
      cases fil with
      | none =>
        simp only [St.setLookupFlag, IdsInv, hqa]
        refine ⟨⟨j + 1, 0, by simp [flagBits], ⟨j, rfl, hja⟩, by simp⟩, ⟨ha, hf⟩, ⟨[], by simp⟩, ⟨[], by simp⟩, ?_⟩
        simp
      | some c =>
        simp only [St.setLookupFlag, IdsInv, hqa]
        cases hq : fIds.idxOf? (sortedSet c) with
        | some i =>
          simp only
          refine ⟨⟨j + 1, 1, by simp [flagBits]; omega, ⟨j, rfl, hja⟩, by simp [idxOf?_some_getElem? _ _ _ hq]⟩,
            ⟨ha, hf⟩, ⟨[], by simp⟩, ⟨[], by simp⟩, ?_⟩
          simp
        | none =>
          simp only
          refine ⟨⟨j + 1, 1, by simp [flagBits]; omega, ⟨j, rfl, hja⟩, by simp⟩,
            ⟨ha, nodup_snoc _ _ hf (idxOf?_none_not_mem _ _ hq)⟩, ⟨[], by simp⟩, ⟨[sortedSet c], by simp⟩, ?_⟩
          simp
    | none =>
      have hna := idxOf?_none_not_mem _ _ hqa
      cases fil with
      | none =>
        simp only [St.setLookupFlag, IdsInv, hqa]
        refine ⟨⟨aIds.length + 1, 0, by simp [flagBits], ⟨aIds.length, rfl, by simp⟩, by simp⟩,
          ⟨nodup_snoc _ _ ha hna, hf⟩, ⟨[sortedSet ca], by simp⟩, ⟨[], by simp⟩, ?_⟩
        simp
      | some c =>
        simp only [St.setLookupFlag, IdsInv, hqa]
        cases hq : fIds.idxOf? (sortedSet c) with
        | some i =>
          simp only
          refine ⟨⟨aIds.length + 1, 1, by simp [flagBits]; omega, ⟨aIds.length, rfl, by simp⟩, by simp [idxOf?_some_getElem? _ _ _ hq]⟩,
            ⟨nodup_snoc _ _ ha hna, hf⟩, ⟨[sortedSet ca], by simp⟩, ⟨[], by simp⟩, ?_⟩
          simp
        | none =>
          simp only
          refine ⟨⟨aIds.length + 1, 1, by simp [flagBits]; omega, ⟨aIds.length, rfl, by simp⟩, by simp⟩,
            ⟨nodup_snoc _ _ ha hna, nodup_snoc _ _ hf (idxOf?_none_not_mem _ _ hq)⟩,
            ⟨[sortedSet ca], by simp⟩, ⟨[sortedSet c], by simp⟩, ?_⟩
          simp

theorem bits_rtl (f : Flag) (x k : Nat) : ((flagBits f + 16 * x + 256 * k) % 2 == 1) = f.rtl := by
  obtain ⟨rtl, ib, il, im, a, fl⟩ := f
  cases rtl <;> cases ib <;> cases il <;> cases im <;> simp [flagBits] <;> omega

theorem nodup_getElem?_inj {α : Type} (l : List α) (h : l.Nodup) (i j : Nat) (a : α)
    (hi : l[i]? = some a) (hj : l[j]? = some a) : i = j := by
  obtain ⟨hi', e1⟩ := List.getElem?_eq_some_iff.mp hi
  obtain ⟨hj', e2⟩ := List.getElem?_eq_some_iff.mp hj
  exact (List.getElem_inj h).mp (e1.trans e2.symm)

/-- attachment classes and filtering sets are written as sorted sets -/
def FlagNorm (f : Flag) : Prop :=
  (∀ c, f.attach = some c → sortedSet c = c) ∧ (∀ c, f.filter = some c → sortedSet c = c)

theorem FlagCode.functional {A F : List (List Glyph)} {cf cf' : CFlag} {f : Flag} (hA : A.Nodup) (hF : F.Nodup)
    (h : FlagCode A F cf f) (h' : FlagCode A F cf' f) : cf = cf' := by
  obtain ⟨ka, x, h1, h2, h3⟩ := h
  obtain ⟨ka', x', h1', h2', h3'⟩ := h'
  have hka : ka = ka' := by
    cases hfa : f.attach with
    | none => simp [hfa] at h2 h2'; omega
    | some c =>
      simp only [hfa] at h2 h2'
      obtain ⟨j, hj, hg⟩ := h2
      obtain ⟨j', hj', hg'⟩ := h2'
      have := nodup_getElem?_inj A hA j j' _ hg hg'
      omega
  cases hff : f.filter with
  | none =>
    simp only [hff] at h3 h3'
    apply Prod.ext
    · rw [h1, h1', hka, h3.1, h3'.1]
    · rw [h3.2, h3'.2]
  | some c =>
    simp only [hff] at h3 h3'
    obtain ⟨hx, i, hi, hg⟩ := h3
    obtain ⟨hx', i', hi', hg'⟩ := h3'
    have := nodup_getElem?_inj F hF i i' _ hg hg'
    apply Prod.ext
    · rw [h1, h1', hka, hx, hx']
    · rw [hi, hi', this]

theorem FlagCode.injective {A F : List (List Glyph)} {cf : CFlag} {f f' : Flag}
    (hn : FlagNorm f) (hn' : FlagNorm f')
    (h : FlagCode A F cf f) (h' : FlagCode A F cf f') : f = f' := by
  obtain ⟨ka, x, h1, h2, h3⟩ := h
  obtain ⟨ka', x', h1', h2', h3'⟩ := h'
  have hx : x ≤ 1 := by cases hff : f.filter <;> simp [hff] at h3 <;> omega
  have hx' : x' ≤ 1 := by cases hff : f'.filter <;> simp [hff] at h3' <;> omega
  obtain ⟨d2, d4, d8, d16, d256⟩ := bits_decode f x ka hx
  obtain ⟨e2, e4, e8, e16, e256⟩ := bits_decode f' x' ka' hx'
  have d1 := bits_rtl f x ka
  have e1 := bits_rtl f' x' ka'
  rw [← h1] at d1 d2 d4 d8 d16 d256
  rw [← h1'] at e1 e2 e4 e8 e16 e256
  have hka : ka = ka' := d256.symm.trans e256
  have hxx : x = x' := by
    have : (x == 1) = (x' == 1) := d16.symm.trans e16
    have a : x = 0 ∨ x = 1 := by omega
    have b : x' = 0 ∨ x' = 1 := by omega
    rcases a with rfl | rfl <;> rcases b with rfl | rfl <;> simp_all
  obtain ⟨rtl, ib, il, im, att, fil⟩ := f
  obtain ⟨rtl', ib', il', im', att', fil'⟩ := f'
  simp only at d1 d2 d4 d8 e1 e2 e4 e8 h2 h2' h3 h3'
  have hatt : att = att' := by
    cases att with
    | none =>
      cases att' with
      | none => rfl
      | some c' => simp at h2 h2'; omega
    | some c =>
      cases att' with
      | none => simp at h2 h2'; omega
      | some c' =>
        simp only at h2 h2'
        obtain ⟨j, hj, hg⟩ := h2
        obtain ⟨j', hj', hg'⟩ := h2'
        have : j = j' := by omega
        subst this
        rw [hg] at hg'
        have := Option.some.inj hg'
        rw [hn.1 c rfl, hn'.1 c' rfl] at this
        rw [this]
  have hfil : fil = fil' := by
    cases fil with
    | none =>
      cases fil' with
      | none => rfl
      | some c' => simp at h3 h3'; omega
    | some c =>
      cases fil' with
      | none => simp at h3 h3'; omega
      | some c' =>
        simp only at h3 h3'
        obtain ⟨_, i, hi, hg⟩ := h3
        obtain ⟨_, i', hi', hg'⟩ := h3'
        rw [hi] at hi'
        have : i = i' := Option.some.inj hi'
        subst this
        rw [hg] at hg'
        have := Option.some.inj hg'
        rw [hn.2 c rfl, hn'.2 c' rfl] at this
        rw [this]
  subst hatt hfil
  congr 1 <;> simp_all

end Fontc.FeaCompile
