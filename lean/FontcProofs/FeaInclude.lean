/-
  Helper lemmas for C13, include resolution (model: FontcModel/FeaInclude.lean).

  1. Both loops of context.rs terminate on every graph (`loadStep_wf`, `validateStep_wf`): a lexicographic
     measure (files not yet in the visited set, remaining work on the stack) decreases in every iteration.
  2. `IncludeGraph::validate` is a depth-first search with an explicit stack; an invariant over its run
     (`InvRun`) shows that when it ends, every file that was finished has all its *unreported* include
     statements pointing at files that were finished earlier (`FinOK`).  Hence the graph that
     `generate_recurse` follows (reported statements skipped) has no cycle reachable from the root
     (`validate_kept_acyclic`), and a reachable cycle always produces at least one error
     (`validate_reports_cycle`).
     Two peculiarities of the real code are covered: the root is not put into `seen`, so it can be entered a
     second time (the frame at the bottom of the stack is treated as a copy that is never "finished"), and
     the cycle test also fires for an edge back to the root after that second visit has ended (a spurious
     report only removes more edges).
-/
import FontcModel.FeaInclude

namespace Fontc.FeaInclude

set_option linter.unusedVariables false

-- ---------------------------------------------------------------------------------------------
-- 1. termination

theorem lexNat_wf : WellFounded (Prod.Lex (fun a b : Nat => a < b) (fun a b : Nat => a < b)) :=
  (Prod.lex Nat.lt_wfRel Nat.lt_wfRel).wf

theorem loadStep_wf (g : Graph) : WellFounded (fun s' s : LoadState => loadStep g s = some s') := by
  apply Subrelation.wf (r := InvImage (Prod.Lex (· < ·) (· < ·)) (loadMeasure g))
  · intro s' s h; exact loadStep_decreases g s s' h
  · exact InvImage.wf _ lexNat_wf

theorem validateStep_wf (g : Graph) : WellFounded (fun s' s : VState => validateStep g s = some s') := by
  apply Subrelation.wf (r := InvImage (Prod.Lex (· < ·) (· < ·)) (validateMeasure g))
  · intro s' s h; exact validateStep_decreases g s s' h
  · exact InvImage.wf _ lexNat_wf

-- ---------------------------------------------------------------------------------------------
-- 2. the depth-first search invariant

/-- nodes of all frames except the bottom one -/
def upperNodes (st : List Frame) : List Nat := (st.dropLast).map (·.node)

theorem upperNodes_cons_cons (a b : Frame) (l : List Frame) :
    upperNodes (a :: b :: l) = a.node :: upperNodes (b :: l) := by
  simp [upperNodes, List.dropLast]

theorem upperNodes_single (a : Frame) : upperNodes [a] = [] := rfl

theorem upperNodes_setcur (f : Frame) (c : Nat) (rest : List Frame) :
    upperNodes ({ f with cur := c } :: rest) = upperNodes (f :: rest) := by
  cases rest <;> simp [upperNodes, List.dropLast]

theorem upperNodes_sub (st : List Frame) (x : Nat) (hx : x ∈ upperNodes st) : ∃ f ∈ st, f.node = x := by
  unfold upperNodes at hx
  rcases List.mem_map.1 hx with ⟨f, hf, rfl⟩
  exact ⟨f, List.dropLast_subset st hf, rfl⟩

theorem isBad_append_left (bad : List IncludeError) (e : List IncludeError) (u i : Nat)
    (h : isBad bad u i = true) : isBad (bad ++ e) u i = true := by
  unfold isBad at h ⊢
  rw [List.any_append, h]; rfl

theorem isBad_append_self (bad : List IncludeError) (u i : Nat) (k : ErrKind) :
    isBad (bad ++ [⟨u, i, k⟩]) u i = true := by
  unfold isBad
  rw [List.any_append]
  simp

/-- every edge of frame `f` that has been looked at is reported, or leads to a finished file, or is the edge
    being explored right now (towards the frame directly above) -/
def FrameOK (g : Graph) (bad : List IncludeError) (fin : List Nat) (above : Option Nat) (f : Frame) : Prop :=
  ∀ i v, i < f.cur → (edgesOf g f.node)[i]? = some v →
    isBad bad f.node i = true ∨ v ∈ fin ∨ (i + 1 = f.cur ∧ above = some v)

def FramesOK (g : Graph) (bad : List IncludeError) (fin : List Nat) : Option Nat → List Frame → Prop
  | _, [] => True
  | above, f :: rest => FrameOK g bad fin above f ∧ FramesOK g bad fin (some f.node) rest

/-- the finished files, newest first: unreported edges of a finished file lead to files finished earlier -/
def FinOK (g : Graph) (bad : List IncludeError) : List Nat → Prop
  | [] => True
  | u :: older => (∀ i v, (edgesOf g u)[i]? = some v → isBad bad u i = true ∨ v ∈ older) ∧ FinOK g bad older

theorem FrameOK_mono {g : Graph} {bad bad' : List IncludeError} {fin fin' : List Nat} {above : Option Nat}
    {f : Frame} (hb : ∀ u i, isBad bad u i = true → isBad bad' u i = true) (hf : ∀ x ∈ fin, x ∈ fin')
    (h : FrameOK g bad fin above f) : FrameOK g bad' fin' above f := by
  intro i v hi hv
  rcases h i v hi hv with h1 | h1 | h1
  · exact Or.inl (hb _ _ h1)
  · exact Or.inr (Or.inl (hf _ h1))
  · exact Or.inr (Or.inr h1)

theorem FramesOK_mono {g : Graph} {bad bad' : List IncludeError} {fin fin' : List Nat}
    (hb : ∀ u i, isBad bad u i = true → isBad bad' u i = true) (hf : ∀ x ∈ fin, x ∈ fin')
    (st : List Frame) : ∀ above, FramesOK g bad fin above st → FramesOK g bad' fin' above st := by
  induction st with
  | nil => intro _ _; trivial
  | cons f rest ih =>
    intro above h
    exact ⟨FrameOK_mono hb hf h.1, ih _ h.2⟩

theorem FinOK_mono {g : Graph} {bad bad' : List IncludeError}
    (hb : ∀ u i, isBad bad u i = true → isBad bad' u i = true) (fin : List Nat) :
    FinOK g bad fin → FinOK g bad' fin := by
  induction fin with
  | nil => intro _; trivial
  | cons u older ih =>
    intro h
    refine ⟨?_, ih h.2⟩
    intro i v hv
    rcases h.1 i v hv with h1 | h1
    · exact Or.inl (hb _ _ h1)
    · exact Or.inr h1

/-- all edges of the root have been dealt with -/
def RootDone (g : Graph) (root : Nat) (bad : List IncludeError) (fin : List Nat) : Prop :=
  ∀ i v, (edgesOf g root)[i]? = some v → isBad bad root i = true ∨ v ∈ fin

/-- invariant while the search is running -/
structure InvRun (g : Graph) (root : Nat) (s : VState) (fin : List Nat) : Prop where
  bottom : (s.stack.getLast?).map (·.node) = some root
  frames : FramesOK g s.bad fin none s.stack
  upperNodup : (upperNodes s.stack).Nodup
  upperNotFin : ∀ x ∈ upperNodes s.stack, x ∉ fin
  finNodup : fin.Nodup
  seenIff : ∀ x, x ∈ s.seen ↔ (x ∈ fin ∨ x ∈ upperNodes s.stack)
  finOK : FinOK g s.bad fin

/-- what holds when the search has ended -/
structure InvDone (g : Graph) (root : Nat) (bad : List IncludeError) (fin : List Nat) : Prop where
  finNodup : fin.Nodup
  finOK : FinOK g bad fin
  rootDone : RootDone g root bad fin

theorem getLast?_cons_cons' {α} (a b : α) (l : List α) : (a :: b :: l).getLast? = (b :: l).getLast? := by
  simp [List.getLast?_cons_cons]

/-- one iteration preserves the invariant, or ends the search with `InvDone` -/
theorem step_inv (g : Graph) (root : Nat) (s s' : VState) (fin : List Nat) (hinv : InvRun g root s fin)
    (hstep : validateStep g s = some s') :
    ∃ fin', InvRun g root s' fin' ∨ (s'.stack = [] ∧ InvDone g root s'.bad fin') := by
  obtain ⟨hbot, hfr, hun, hunf, hfn, hseen, hfin⟩ := hinv
  unfold validateStep at hstep
  split at hstep
  · cases hstep
  · rename_i f rest hst
    rw [hst] at hbot hfr hun hunf hseen
    split at hstep
    · -- A. no edge left: the frame is dropped
      rename_i hnone
      cases hstep
      have hdeg : (edgesOf g f.node).length ≤ f.cur := by
        rcases Nat.lt_or_ge f.cur (edgesOf g f.node).length with h | h
        · rw [List.getElem?_eq_getElem h] at hnone; cases hnone
        · exact h
      have hall : ∀ i v, (edgesOf g f.node)[i]? = some v → isBad s.bad f.node i = true ∨ v ∈ fin := by
        intro i v hv
        have hi : i < (edgesOf g f.node).length := (List.getElem?_eq_some_iff.1 hv).1
        rcases hfr.1 i v (by omega) hv with h1 | h1 | h1
        · exact Or.inl h1
        · exact Or.inr h1
        · cases h1.2
      cases rest with
      | nil =>
        -- the bottom frame: the search ends
        refine ⟨fin, Or.inr ⟨rfl, ?_⟩⟩
        have hroot : f.node = root := by simpa using hbot
        exact ⟨hfn, hfin, by rw [← hroot]; exact hall⟩
      | cons f2 rest' =>
        refine ⟨f.node :: fin, Or.inl ?_⟩
        rw [upperNodes_cons_cons] at hun hunf hseen
        have hfnotfin : f.node ∉ fin := hunf f.node (List.mem_cons_self)
        have hsub : ∀ x ∈ fin, x ∈ f.node :: fin := fun x hx => List.mem_cons_of_mem _ hx
        refine ⟨?_, ?_, ?_, ?_, ?_, ?_, ?_⟩
        · rw [getLast?_cons_cons'] at hbot; exact hbot
        · -- frames below: the explored edge now leads to a finished file
          have h2 := hfr.2
          refine ⟨?_, FramesOK_mono (fun _ _ h => h) hsub rest' _ h2.2⟩
          intro i v hi hv
          rcases h2.1 i v hi hv with h1 | h1 | h1
          · exact Or.inl h1
          · exact Or.inr (Or.inl (hsub _ h1))
          · have : v = f.node := by
              have := h1.2
              simp at this
              exact this.symm
            exact Or.inr (Or.inl (by rw [this]; exact List.mem_cons_self))
        · exact (List.nodup_cons.1 hun).2
        · intro x hx hxf
          rcases List.mem_cons.1 hxf with h | h
          · rw [h] at hx
            exact (List.nodup_cons.1 hun).1 hx
          · exact hunf x (List.mem_cons_of_mem _ hx) h
        · exact List.nodup_cons.2 ⟨hfnotfin, hfn⟩
        · intro x
          rw [hseen x]
          simp only [List.mem_cons]
          constructor
          · rintro (h | h | h)
            · exact Or.inl (Or.inr h)
            · exact Or.inl (Or.inl h)
            · exact Or.inr h
          · rintro ((h | h) | h)
            · exact Or.inr (Or.inl h)
            · exact Or.inl h
            · exact Or.inr (Or.inr h)
        · exact ⟨hall, hfin⟩
    · rename_i child hchild
      have hcur : f.cur < (edgesOf g f.node).length := (List.getElem?_eq_some_iff.1 hchild).1
      -- facts shared by all four outcomes: the parent frame is put back with `cur + 1`
      have hbot1 : ((({ f with cur := f.cur + 1 } : Frame) :: rest).getLast?).map (·.node) = some root := by
        cases rest with
        | nil => simpa using hbot
        | cons f2 rest' => rw [getLast?_cons_cons'] at hbot ⊢; exact hbot
      have hup1 : upperNodes (({ f with cur := f.cur + 1 } : Frame) :: rest) = upperNodes (f :: rest) :=
        upperNodes_setcur f _ rest
      -- the parent frame after the step, given how edge `f.cur` was dealt with
      have hframe1 : ∀ (bad' : List IncludeError) (fin' : List Nat) (above : Option Nat),
          (∀ u i, isBad s.bad u i = true → isBad bad' u i = true) → (∀ x ∈ fin, x ∈ fin') →
          (isBad bad' f.node f.cur = true ∨ child ∈ fin' ∨ above = some child) →
          FramesOK g bad' fin' above (({ f with cur := f.cur + 1 } : Frame) :: rest) := by
        intro bad' fin' above hb hf hedge
        refine ⟨?_, FramesOK_mono hb hf rest _ hfr.2⟩
        intro i v hi hv
        by_cases hic : i = f.cur
        · subst hic
          have hv' : v = child := by
            have : (edgesOf g f.node)[f.cur]? = some v := hv
            rw [hchild] at this
            exact (Option.some.inj this).symm
          rw [hv']
          rcases hedge with h | h | h
          · exact Or.inl h
          · exact Or.inr (Or.inl h)
          · exact Or.inr (Or.inr ⟨rfl, h⟩)
        · have hi' : i < f.cur := by
            have : i < f.cur + 1 := hi
            omega
          rcases hfr.1 i v hi' hv with h1 | h1 | h1
          · exact Or.inl (hb _ _ h1)
          · exact Or.inr (Or.inl (hf _ h1))
          · cases h1.2
      dsimp only at hstep
      split at hstep
      · -- B. too deep: reported
        cases hstep
        refine ⟨fin, Or.inl ?_⟩
        have hb : ∀ u i, isBad s.bad u i = true → isBad (s.bad ++ [⟨f.node, f.cur, .tooDeep⟩]) u i = true :=
          fun u i h => isBad_append_left _ _ _ _ h
        refine ⟨hbot1, hframe1 _ fin none hb (fun _ h => h) (Or.inl (isBad_append_self _ _ _ _)), ?_, ?_, hfn, ?_,
          FinOK_mono hb fin hfin⟩
        · rw [hup1]; exact hun
        · rw [hup1]; exact hunf
        · intro x; rw [hup1]; exact hseen x
      · split at hstep
        · -- C. the child has not been seen
          rename_i hns
          have hns' : child ∉ s.seen := by
            intro hmem
            have : s.seen.contains child = true := by simpa using hmem
            rw [this] at hns
            exact absurd hns (by decide)
          have hcnf : child ∉ fin := fun h => hns' ((hseen child).2 (Or.inl h))
          have hcnu : child ∉ upperNodes (f :: rest) := fun h => hns' ((hseen child).2 (Or.inr h))
          cases hstep
          by_cases hemp : (edgesOf g child).isEmpty = true
          · -- C1. a file without includes is finished at once
            refine ⟨child :: fin, Or.inl ?_⟩
            have hsub : ∀ x ∈ fin, x ∈ child :: fin := fun x hx => List.mem_cons_of_mem _ hx
            rw [if_pos hemp]
            refine ⟨hbot1, hframe1 _ _ none (fun _ _ h => h) hsub (Or.inr (Or.inl List.mem_cons_self)), ?_, ?_, ?_, ?_, ?_⟩
            · rw [hup1]; exact hun
            · rw [hup1]
              intro x hx hxf
              rcases List.mem_cons.1 hxf with h | h
              · rw [h] at hx; exact hcnu hx
              · exact hunf x hx h
            · exact List.nodup_cons.2 ⟨hcnf, hfn⟩
            · intro x
              rw [hup1]
              simp only [List.mem_cons]
              rw [hseen x]
              constructor
              · rintro (h | h | h)
                · exact Or.inl (Or.inl h)
                · exact Or.inl (Or.inr h)
                · exact Or.inr h
              · rintro ((h | h) | h)
                · exact Or.inl h
                · exact Or.inr (Or.inl h)
                · exact Or.inr (Or.inr h)
            · refine ⟨?_, hfin⟩
              intro i v hv
              have : edgesOf g child = [] := by simpa using hemp
              rw [this] at hv
              cases hv
          · -- C2. a new frame is pushed
            refine ⟨fin, Or.inl ?_⟩
            rw [if_neg hemp]
            have hstack : upperNodes (⟨child, 0⟩ :: ({ f with cur := f.cur + 1 } : Frame) :: rest) =
                child :: upperNodes (f :: rest) := by
              rw [upperNodes_cons_cons, hup1]
            refine ⟨?_, ?_, ?_, ?_, hfn, ?_, hfin⟩
            · rw [getLast?_cons_cons']; exact hbot1
            · refine ⟨?_, hframe1 _ fin (some child) (fun _ _ h => h) (fun _ h => h) (Or.inr (Or.inr rfl))⟩
              intro i v hi _
              exact absurd hi (Nat.not_lt_zero _)
            · rw [hstack]; exact List.nodup_cons.2 ⟨hcnu, hun⟩
            · rw [hstack]
              intro x hx
              rcases List.mem_cons.1 hx with h | h
              · rw [h]; exact hcnf
              · exact hunf x h
            · intro x
              rw [hstack]
              simp only [List.mem_cons]
              rw [hseen x]
              constructor
              · rintro (h | h | h)
                · exact Or.inr (Or.inl h)
                · exact Or.inl h
                · exact Or.inr (Or.inr h)
              · rintro (h | h | h)
                · exact Or.inr (Or.inl h)
                · exact Or.inl h
                · exact Or.inr (Or.inr h)
        · rename_i hseenc
          have hcs : child ∈ s.seen := by
            have : s.seen.contains child = true := by
              cases h : s.seen.contains child
              · rw [h] at hseenc; exact absurd rfl hseenc
              · rfl
            simpa using this
          split at hstep
          · -- D. the child is on the stack: reported as a cycle
            cases hstep
            refine ⟨fin, Or.inl ?_⟩
            have hb : ∀ u i, isBad s.bad u i = true → isBad (s.bad ++ [⟨f.node, f.cur, .cycle⟩]) u i = true :=
              fun u i h => isBad_append_left _ _ _ _ h
            refine ⟨hbot1, hframe1 _ fin none hb (fun _ h => h) (Or.inl (isBad_append_self _ _ _ _)), ?_, ?_, hfn, ?_,
              FinOK_mono hb fin hfin⟩
            · rw [hup1]; exact hun
            · rw [hup1]; exact hunf
            · intro x; rw [hup1]; exact hseen x
          · -- E. the child was seen and is not on the stack: it is finished
            rename_i hnot
            cases hstep
            refine ⟨fin, Or.inl ?_⟩
            have hcfin : child ∈ fin := by
              rcases (hseen child).1 hcs with h | h
              · exact h
              · exfalso
                apply hnot
                rw [← hup1] at h
                obtain ⟨fr, hfr', hnode⟩ := upperNodes_sub _ _ h
                rw [List.any_eq_true]
                exact ⟨fr, hfr', by simp [hnode]⟩
            refine ⟨hbot1, hframe1 _ fin none (fun _ _ h => h) (fun _ h => h) (Or.inr (Or.inl hcfin)), ?_, ?_, hfn, ?_, hfin⟩
            · rw [hup1]; exact hun
            · rw [hup1]; exact hunf
            · intro x; rw [hup1]; exact hseen x

/-- the search ends with `InvDone` -/
theorem run_inv (g : Graph) (root : Nat) (s : VState) :
    ∀ fin, InvRun g root s fin → ∃ fin', InvDone g root (runValidate g s) fin' := by
  fun_induction runValidate g s with
  | case1 s hnone =>
    intro fin hinv
    exfalso
    unfold validateStep at hnone
    have hb := hinv.bottom
    split at hnone
    · rename_i hst
      rw [hst] at hb
      simp at hb
    · split at hnone
      · cases hnone
      · dsimp only at hnone
        repeat' split at hnone
        all_goals cases hnone
  | case2 s s' hstep ih =>
    intro fin hinv
    obtain ⟨fin', h | h⟩ := step_inv g root s s' fin hinv hstep
    · exact ih fin' h
    · refine ⟨fin', ?_⟩
      have : runValidate g s' = s'.bad := by
        rw [runValidate]
        have : validateStep g s' = none := by
          unfold validateStep
          rw [h.1]
        split
        · rfl
        · rename_i s'' hs''
          rw [this] at hs''
          cases hs''
      rw [this]
      exact h.2

-- ---------------------------------------------------------------------------------------------
-- consequences for the kept graph

theorem kept_in_fin {g : Graph} {bad : List IncludeError} :
    ∀ (fin : List Nat), FinOK g bad fin → ∀ u ∈ fin, ∀ v, keptEdge g bad u v → v ∈ fin := by
  intro fin
  induction fin with
  | nil => intro _ u hu; cases hu
  | cons w older ih =>
    intro h u hu v hk
    obtain ⟨i, hv, hnb⟩ := hk
    rcases List.mem_cons.1 hu with h1 | h1
    · subst h1
      rcases h.1 i v hv with h2 | h2
      · rw [hnb] at h2; cases h2
      · exact List.mem_cons_of_mem _ h2
    · exact List.mem_cons_of_mem _ (ih h.2 u h1 v ⟨i, hv, hnb⟩)

/-- from a finished file, unreported edges only lead to files finished strictly earlier -/
theorem kept_plus_older {g : Graph} {bad : List IncludeError} :
    ∀ (fin : List Nat), FinOK g bad fin → ∀ (pre older : List Nat) (u : Nat), fin = pre ++ u :: older →
      ∀ v, ReachPlus (keptEdge g bad) u v → v ∈ older := by
  intro fin hfin pre older u hsplit v hreach
  -- FinOK of the suffix `u :: older`
  have hsuf : ∀ (pre : List Nat) (l : List Nat), FinOK g bad (pre ++ l) → FinOK g bad l := by
    intro pre
    induction pre with
    | nil => intro l h; exact h
    | cons a pre ih => intro l h; exact ih l h.2
  rw [hsplit] at hfin
  have hu := hsuf pre (u :: older) hfin
  induction hreach with
  | single hk =>
    obtain ⟨i, hv, hnb⟩ := hk
    rcases hu.1 i _ hv with h2 | h2
    · rw [hnb] at h2; cases h2
    · exact h2
  | step hab hk ih =>
    exact kept_in_fin older hu.2 _ ih _ hk

theorem no_cycle_in_fin {g : Graph} {bad : List IncludeError} (fin : List Nat) (hfin : FinOK g bad fin)
    (hnd : fin.Nodup) (u : Nat) (hu : u ∈ fin) : ¬ ReachPlus (keptEdge g bad) u u := by
  intro hcyc
  obtain ⟨pre, older, hsplit⟩ := List.append_of_mem hu
  have hmem := kept_plus_older fin hfin pre older u hsplit u hcyc
  rw [hsplit] at hnd
  have := (List.nodup_append.1 hnd).2.1
  exact (List.nodup_cons.1 this).1 hmem

theorem reach_root_or_fin {g : Graph} {root : Nat} {bad : List IncludeError} {fin : List Nat}
    (hd : InvDone g root bad fin) (v : Nat) (h : Reach (keptEdge g bad) root v) : v = root ∨ v ∈ fin := by
  induction h with
  | refl => exact Or.inl rfl
  | step hab hk ih =>
    rename_i b c
    rcases ih with h1 | h1
    · subst h1
      obtain ⟨i, hv, hnb⟩ := hk
      rcases hd.rootDone i _ hv with h2 | h2
      · rw [hnb] at h2; cases h2
      · exact Or.inr h2
    · exact Or.inr (kept_in_fin fin hd.finOK b h1 c hk)

theorem reachPlus_last {r : Nat → Nat → Prop} {a c : Nat} (h : ReachPlus r a c) :
    ∃ b, Reach r a b ∧ r b c := by
  induction h with
  | single hk => exact ⟨_, Reach.refl _, hk⟩
  | step hab hk ih =>
    obtain ⟨b', hr, hk'⟩ := ih
    exact ⟨_, Reach.step hr hk', hk⟩

theorem done_acyclic {g : Graph} {root : Nat} {bad : List IncludeError} {fin : List Nat}
    (hd : InvDone g root bad fin) (v : Nat) (hv : Reach (keptEdge g bad) root v) :
    ¬ ReachPlus (keptEdge g bad) v v := by
  rcases reach_root_or_fin hd v hv with h | h
  · subst h
    by_cases hrf : v ∈ fin
    · exact no_cycle_in_fin fin hd.finOK hd.finNodup v hrf
    · intro hcyc
      obtain ⟨y, hry, hk⟩ := reachPlus_last hcyc
      rcases reach_root_or_fin hd y hry with h1 | h1
      · subst h1
        obtain ⟨i, hvv, hnb⟩ := hk
        rcases hd.rootDone i _ hvv with h2 | h2
        · rw [hnb] at h2; cases h2
        · exact hrf h2
      · exact hrf (kept_in_fin fin hd.finOK y h1 v hk)
  · exact no_cycle_in_fin fin hd.finOK hd.finNodup v h

theorem init_inv (g : Graph) (root : Nat) : InvRun g root { stack := [⟨root, 0⟩], seen := [], bad := [] } [] := by
  refine ⟨rfl, ⟨?_, trivial⟩, ?_, ?_, List.nodup_nil, ?_, trivial⟩
  · intro i v hi _; exact absurd hi (Nat.not_lt_zero _)
  · simp [upperNodes]
  · intro x hx; simp [upperNodes] at hx
  · intro x; simp [upperNodes]

/-- `include_cycle_reported`, first half: skipping the reported statements leaves no cycle reachable from the root -/
theorem validate_kept_acyclic (g : Graph) (root : Nat) :
    ∀ v, Reach (keptEdge g (validate g root)) root v → ¬ ReachPlus (keptEdge g (validate g root)) v v := by
  unfold validate
  split
  · -- the root has no resolvable include: nothing is reachable
    rename_i hemp
    have hnil : edgesOf g root = [] := by simpa using hemp
    have hd : InvDone g root [] [] := by
      refine ⟨List.nodup_nil, trivial, ?_⟩
      intro i v hv
      rw [hnil] at hv
      cases hv
    exact fun v hv => done_acyclic hd v hv
  · obtain ⟨fin', hd⟩ := run_inv g root _ [] (init_inv g root)
    exact fun v hv => done_acyclic hd v hv

theorem isBad_nil (u i : Nat) : isBad [] u i = false := rfl

theorem reach_kept_of_nil {g : Graph} {a b : Nat} (h : Reach (edge g) a b) : Reach (keptEdge g []) a b := by
  induction h with
  | refl => exact Reach.refl _
  | step hab hk ih =>
    obtain ⟨i, hv⟩ := hk
    exact Reach.step ih ⟨i, hv, isBad_nil _ _⟩

theorem reachPlus_kept_of_nil {g : Graph} {a b : Nat} (h : ReachPlus (edge g) a b) : ReachPlus (keptEdge g []) a b := by
  induction h with
  | single hk =>
    obtain ⟨i, hv⟩ := hk
    exact ReachPlus.single ⟨i, hv, isBad_nil _ _⟩
  | step hab hk ih =>
    obtain ⟨i, hv⟩ := hk
    exact ReachPlus.step ih ⟨i, hv, isBad_nil _ _⟩

/-- `include_cycle_reported`, second half: a cycle that the root can reach always produces an error -/
theorem validate_reports_cycle (g : Graph) (root : Nat)
    (h : ∃ v, Reach (edge g) root v ∧ ReachPlus (edge g) v v) : validate g root ≠ [] := by
  intro hnil
  obtain ⟨v, hr, hc⟩ := h
  have := validate_kept_acyclic g root v
  rw [hnil] at this
  exact this (reach_kept_of_nil hr) (reachPlus_kept_of_nil hc)

end Fontc.FeaInclude
