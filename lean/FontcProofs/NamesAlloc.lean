/-
  Helper lemmas for C18: the name-id allocation of `StaticMetadata::new` as a sequence of `register` requests,
  its invariants, and what the final table says. Core Lean only.
-/
import FontcProofs.NamesAssoc

namespace Fontc.Names

/-! ### `maxId` -/

theorem foldl_max_ge (t : Table) (m : Nat) : m ≤ t.foldl (fun m p => max m p.1.id) m ∧
    ∀ p ∈ t, p.1.id ≤ t.foldl (fun m p => max m p.1.id) m := by
  induction t generalizing m with
  | nil => simp
  | cons q t ih =>
    obtain ⟨h1, h2⟩ := ih (max m q.1.id)
    refine ⟨by simp only [List.foldl_cons]; omega, ?_⟩
    intro p hp
    simp only [List.foldl_cons]
    rcases List.mem_cons.mp hp with e | hp
    · subst e; omega
    · exact h2 p hp

theorem le_maxId {t : Table} {p : NameKey × Str} (h : p ∈ t) : p.1.id ≤ maxId t := (foldl_max_ge t 255).2 p h
theorem maxId_ge (t : Table) : 255 ≤ maxId t := (foldl_max_ge t 255).1

/-! ### the allocation is a fold of `register` over a request list -/

/-- the strings one instance asks to register (static_metadata.rs:431-449) -/
def reqOf (order : List NameKey) (names : Table) (ni : Inst) : List Str :=
  (if reuseSubfamily order names ni then [] else [ni.name]) ++ ni.ps.toList

/-- every `register_if_new` call, in program order -/
def requests (order : List NameKey) (x : Input) : List Str :=
  x.labels ++ (effInsts x).flatMap (reqOf order x.names)

theorem regInst_eq (order : List NameKey) (names : Table) (st : St) (ni : Inst) :
    regInst order names st ni = (reqOf order names ni).foldl register st := by
  unfold regInst reqOf
  cases hps : ni.ps <;> by_cases hr : reuseSubfamily order names ni = true <;> simp [hr]

theorem foldl_regInst (order : List NameKey) (names : Table) (l : List Inst) (st : St) :
    l.foldl (regInst order names) st = (l.flatMap (reqOf order names)).foldl register st := by
  induction l generalizing st with
  | nil => rfl
  | cons ni t ih => simp [List.foldl_cons, List.flatMap_cons, List.foldl_append, regInst_eq, ih]

theorem allocState_eq (order : List NameKey) (x : Input) :
    allocState order x = (requests order x).foldl register ⟨initReusable order x.names, maxId x.names⟩ := by
  simp [allocState, requests, List.foldl_append, foldl_regInst]

theorem reqOf_length (order : List NameKey) (names : Table) (ni : Inst) : (reqOf order names ni).length ≤ 2 := by
  unfold reqOf
  cases ni.ps <;> split <;> simp

theorem flatMap_reqOf_length (order : List NameKey) (names : Table) (l : List Inst) :
    (l.flatMap (reqOf order names)).length ≤ 2 * l.length := by
  induction l with
  | nil => simp
  | cons ni t ih =>
    have := reqOf_length order names ni
    rw [List.flatMap_cons, List.length_append, List.length_cons]; omega

theorem effInsts_length (x : Input) : (effInsts x).length ≤ x.insts.length := by
  unfold effInsts; split <;> simp

theorem requests_length (order : List NameKey) (x : Input) :
    (requests order x).length ≤ x.labels.length + 2 * x.insts.length := by
  have h1 := flatMap_reqOf_length order x.names (effInsts x)
  have h2 := effInsts_length x
  simp only [requests, List.length_append]; omega

theorem mem_requests_label {order : List NameKey} {x : Input} {l : Str} (h : l ∈ x.labels) : l ∈ requests order x := by
  simp [requests, h]

theorem mem_requests_name {order : List NameKey} {x : Input} {ni : Inst} (h : ni ∈ effInsts x)
    (hr : reuseSubfamily order x.names ni = false) : ni.name ∈ requests order x := by
  simp only [requests, List.mem_append, List.mem_flatMap]
  right; exact ⟨ni, h, by simp [reqOf, hr]⟩

theorem mem_requests_ps {order : List NameKey} {x : Input} {ni : Inst} {p : Str} (h : ni ∈ effInsts x)
    (hp : ni.ps = some p) : p ∈ requests order x := by
  simp only [requests, List.mem_append, List.mem_flatMap]
  right; exact ⟨ni, h, by simp [reqOf, hp]⟩

/-! ### `register` -/

theorem register_of_some {st : St} {n : Str} {k : NameKey} (h : alookup n st.reusable = some k) : register st n = st := by
  simp [register, h]

theorem register_of_none {st : St} {n : Str} (h : alookup n st.reusable = none) :
    register st n = ⟨st.reusable ++ [(n, NameKey.new (st.gen + 1) n)], st.gen + 1⟩ := by
  simp [register, h, ainsert_of_none h]

theorem register_gen_le (st : St) (n : Str) : st.gen ≤ (register st n).gen ∧ (register st n).gen ≤ st.gen + 1 := by
  cases h : alookup n st.reusable with
  | some k => simp [register_of_some h]
  | none => simp [register_of_none h]

theorem alookup_register_self (st : St) (n : Str) : (alookup n (register st n).reusable).isSome := by
  cases h : alookup n st.reusable with
  | some k => simp [register_of_some h, h]
  | none => simp [register, h, alookup_ainsert_self]

theorem alookup_register_mono {st : St} {s : Str} {k : NameKey} (n : Str) (h : alookup s st.reusable = some k) :
    alookup s (register st n).reusable = some k := by
  cases hn : alookup n st.reusable with
  | some k' => simp [register_of_some hn, h]
  | none =>
    have hne : n ≠ s := by intro e; subst e; simp [h] at hn
    simp [register, hn, alookup_ainsert_ne hne, h]

theorem alookup_foldl_register_mono {s : Str} {k : NameKey} (reqs : List Str) (st : St)
    (h : alookup s st.reusable = some k) : alookup s (reqs.foldl register st).reusable = some k := by
  induction reqs generalizing st with
  | nil => exact h
  | cons n t ih => exact ih _ (alookup_register_mono n h)

theorem alookup_foldl_register_mem {n : Str} (reqs : List Str) (st : St) (h : n ∈ reqs) :
    (alookup n (reqs.foldl register st).reusable).isSome := by
  induction reqs generalizing st with
  | nil => simp at h
  | cons m t ih =>
    rcases List.mem_cons.mp h with h | h
    · subst h
      have := alookup_register_self st n
      cases hk : alookup n (register st n).reusable with
      | none => simp [hk] at this
      | some k => simp [List.foldl_cons, alookup_foldl_register_mono t _ hk]
    · exact ih _ h

theorem akeys_register_nodup {st : St} (n : Str) (h : (akeys st.reusable).Nodup) : (akeys (register st n).reusable).Nodup := by
  cases hn : alookup n st.reusable with
  | some k => simpa [register_of_some hn] using h
  | none => simp only [register, hn]; exact akeys_ainsert_nodup h

theorem akeys_foldl_register_nodup (reqs : List Str) (st : St) (h : (akeys st.reusable).Nodup) :
    (akeys (reqs.foldl register st).reusable).Nodup := by
  induction reqs generalizing st with
  | nil => exact h
  | cons n t ih => exact ih _ (akeys_register_nodup n h)

/-! ### the initial reusable map -/

/-- one step of the `collect()` at static_metadata.rs:409-413 -/
def initStep (names : Table) (r : List (Str × NameKey)) (k : NameKey) : List (Str × NameKey) :=
  match alookup k names with
  | some v => if 255 < k.id then ainsert v k r else r
  | none => r

theorem initReusable_eq (order : List NameKey) (names : Table) :
    initReusable order names = order.foldl (initStep names) [] := rfl

theorem mem_foldl_initStep {names : Table} (order : List NameKey) (r : List (Str × NameKey))
    (hr : ∀ p ∈ r, alookup p.2 names = some p.1 ∧ 255 < p.2.id) :
    ∀ p ∈ order.foldl (initStep names) r, alookup p.2 names = some p.1 ∧ 255 < p.2.id := by
  induction order generalizing r with
  | nil => exact hr
  | cons k t ih =>
    apply ih
    intro p hp
    unfold initStep at hp
    split at hp
    · next v hv =>
      split at hp
      · next hid =>
        rcases mem_ainsert hp with h | h
        · rw [h]; exact ⟨hv, hid⟩
        · exact hr p h
      · exact hr p hp
    · exact hr p hp

theorem mem_initReusable {order : List NameKey} {names : Table} :
    ∀ p ∈ initReusable order names, alookup p.2 names = some p.1 ∧ 255 < p.2.id :=
  mem_foldl_initStep order [] (by simp)

theorem akeys_foldl_initStep_nodup {names : Table} (order : List NameKey) (r : List (Str × NameKey))
    (hr : (akeys r).Nodup) : (akeys (order.foldl (initStep names) r)).Nodup := by
  induction order generalizing r with
  | nil => exact hr
  | cons k t ih =>
    apply ih
    unfold initStep
    split
    · split
      · exact akeys_ainsert_nodup hr
      · exact hr
    · exact hr

theorem akeys_initReusable_nodup (order : List NameKey) (names : Table) : (akeys (initReusable order names)).Nodup :=
  akeys_foldl_initStep_nodup order [] (by simp [akeys])

/-- which strings the initial map knows: exactly those of source records with a font-specific id -/
theorem isSome_foldl_initStep {names : Table} (s : Str) (order : List NameKey) (r : List (Str × NameKey)) :
    (alookup s (order.foldl (initStep names) r)).isSome = true ↔
      (alookup s r).isSome = true ∨ ∃ k ∈ order, alookup k names = some s ∧ 255 < k.id := by
  induction order generalizing r with
  | nil => simp
  | cons k t ih =>
    rw [List.foldl_cons, ih]
    constructor
    · rintro (h | ⟨k', hk', h⟩)
      · unfold initStep at h
        split at h
        · next v hv =>
          split at h
          · next hid =>
            rw [alookup_ainsert] at h
            split at h
            · next hvs => subst hvs; right; exact ⟨k, by simp, hv, hid⟩
            · left; exact h
          · left; exact h
        · left; exact h
      · right; exact ⟨k', List.mem_cons_of_mem _ hk', h⟩
    · rintro (h | ⟨k', hk', h1, h2⟩)
      · left
        unfold initStep
        split
        · split
          · rw [alookup_ainsert]; split <;> simp [h]
          · exact h
        · exact h
      · rcases List.mem_cons.mp hk' with e | hk'
        · subst e
          left
          simp [initStep, h1, h2, alookup_ainsert_self]
        · right; exact ⟨k', hk', h1, h2⟩

theorem isSome_initReusable {names : Table} (s : Str) (order : List NameKey) :
    (alookup s (initReusable order names)).isSome = true ↔ ∃ k ∈ order, alookup k names = some s ∧ 255 < k.id := by
  rw [initReusable_eq, isSome_foldl_initStep]; simp

/-! ### ids of everything in the reusable map are font-specific (no hypothesis on the source) -/

theorem idGt_register {st : St} (n : Str) (hlo : 255 ≤ st.gen) (h : ∀ p ∈ st.reusable, 255 < p.2.id) :
    ∀ p ∈ (register st n).reusable, 255 < p.2.id := by
  cases hn : alookup n st.reusable with
  | some k => simpa [register_of_some hn] using h
  | none =>
    intro p hp
    simp only [register, hn] at hp
    rcases mem_ainsert hp with e | hp
    · rw [e]; simp [NameKey.new]; omega
    · exact h p hp

theorem idGt_foldl_register (reqs : List Str) (st : St) (hlo : 255 ≤ st.gen) (h : ∀ p ∈ st.reusable, 255 < p.2.id) :
    ∀ p ∈ (reqs.foldl register st).reusable, 255 < p.2.id := by
  induction reqs generalizing st with
  | nil => exact h
  | cons n t ih =>
    exact ih _ (Nat.le_trans hlo (register_gen_le st n).1) (idGt_register n hlo h)

theorem allocState_idGt (order : List NameKey) (x : Input) : ∀ p ∈ (allocState order x).reusable, 255 < p.2.id := by
  rw [allocState_eq]
  exact idGt_foldl_register _ _ (maxId_ge _) (fun p hp => (mem_initReusable p hp).2)

theorem allocState_nodup (order : List NameKey) (x : Input) : (akeys (allocState order x).reusable).Nodup := by
  rw [allocState_eq]
  exact akeys_foldl_register_nodup _ _ (akeys_initReusable_nodup _ _)

/-! ### the invariant: no two strings share a key (allocation starts after the largest source id) -/

structure Inv (names : Table) (st : St) : Prop where
  idGt : ∀ p ∈ st.reusable, 255 < p.2.id
  kind : ∀ p ∈ st.reusable, alookup p.2 names = some p.1 ∨
    (p.2 = NameKey.new p.2.id p.1 ∧ maxId names < p.2.id ∧ p.2.id ≤ st.gen)
  inj : ∀ p ∈ st.reusable, ∀ q ∈ st.reusable, p.2 = q.2 → p.1 = q.1
  genLo : maxId names ≤ st.gen

theorem inv_init (order : List NameKey) (names : Table) : Inv names ⟨initReusable order names, maxId names⟩ where
  idGt := fun p hp => (mem_initReusable p hp).2
  kind := fun p hp => Or.inl (mem_initReusable p hp).1
  inj := by
    intro p hp q hq e
    have h1 := (mem_initReusable p hp).1
    have h2 := (mem_initReusable q hq).1
    rw [e, h2] at h1
    exact (Option.some.inj h1).symm
  genLo := Nat.le_refl _

theorem inv_register {names : Table} {st : St} (n : Str) (hi : Inv names st) : Inv names (register st n) := by
  cases hn : alookup n st.reusable with
  | some k => simpa [register_of_some hn] using hi
  | none =>
    have hmem : ∀ p ∈ (register st n).reusable, p = (n, NameKey.new (st.gen + 1) n) ∨ p ∈ st.reusable := by
      intro p hp
      simp only [register, hn] at hp
      exact mem_ainsert hp
    have hgen : (register st n).gen = st.gen + 1 := by simp [register, hn]
    have h255 : 255 ≤ st.gen := Nat.le_trans (maxId_ge names) hi.genLo
    -- an old entry never has the new key
    have hold : ∀ q ∈ st.reusable, q.2 ≠ NameKey.new (st.gen + 1) n := by
      intro q hq e
      rcases hi.kind q hq with h | ⟨_, _, h⟩
      · rw [e] at h
        have := le_maxId (mem_of_alookup h)
        have := hi.genLo
        simp [NameKey.new] at *; omega
      · rw [e] at h; simp [NameKey.new] at h; omega
    refine ⟨idGt_register n h255 hi.idGt, ?_, ?_, by rw [hgen]; have := hi.genLo; omega⟩
    · intro p hp
      rcases hmem p hp with e | hp
      · right; rw [e, hgen]; have := hi.genLo; simp [NameKey.new]; omega
      · rcases hi.kind p hp with h | ⟨h1, h2, h3⟩
        · exact Or.inl h
        · right; rw [hgen]; exact ⟨h1, h2, by omega⟩
    · intro p hp q hq e
      rcases hmem p hp with ep | hp <;> rcases hmem q hq with eq | hq
      · rw [ep, eq]
      · rw [ep] at e; exact absurd e.symm (hold q hq)
      · rw [eq] at e; exact absurd e (hold p hp)
      · exact hi.inj p hp q hq e

theorem inv_foldl_register {names : Table} (reqs : List Str) (st : St) (hi : Inv names st) :
    Inv names (reqs.foldl register st) := by
  induction reqs generalizing st with
  | nil => exact hi
  | cons n t ih => exact ih _ (inv_register n hi)

theorem allocState_inv (order : List NameKey) (x : Input) : Inv x.names (allocState order x) := by
  rw [allocState_eq]
  exact inv_foldl_register _ _ (inv_init order x.names)

/-! ### `extend` -/

theorem extend_nil (t : Table) : extend t [] = t := rfl
theorem extend_cons (t : Table) (p : Str × NameKey) (r : List (Str × NameKey)) :
    extend t (p :: r) = extend (ainsert p.2 p.1 t) r := rfl

theorem extend_append (t : Table) (r₁ r₂ : List (Str × NameKey)) : extend t (r₁ ++ r₂) = extend (extend t r₁) r₂ := by
  simp [extend, List.foldl_append]

theorem mem_extend {t : Table} {r : List (Str × NameKey)} {p : NameKey × Str} (h : p ∈ extend t r) :
    p ∈ t ∨ (p.2, p.1) ∈ r := by
  induction r generalizing t with
  | nil => exact Or.inl h
  | cons q r ih =>
    rw [extend_cons] at h
    rcases ih h with h | h
    · rcases mem_ainsert h with e | h
      · right; rw [e]; simp
      · exact Or.inl h
    · right; exact List.mem_cons_of_mem _ h

theorem alookup_extend_notin {t : Table} {r : List (Str × NameKey)} {k : NameKey} (h : ∀ p ∈ r, p.2 ≠ k) :
    alookup k (extend t r) = alookup k t := by
  induction r generalizing t with
  | nil => rfl
  | cons q r ih =>
    rw [extend_cons, ih (fun p hp => h p (List.mem_cons_of_mem _ hp))]
    exact alookup_ainsert_ne (h q List.mem_cons_self) _ _

theorem alookup_extend_keep {t : Table} {r : List (Str × NameKey)} {k : NameKey} {s : Str}
    (h : ∀ p ∈ r, p.2 = k → p.1 = s) (ht : alookup k t = some s) : alookup k (extend t r) = some s := by
  induction r generalizing t with
  | nil => exact ht
  | cons q r ih =>
    rw [extend_cons]
    apply ih (fun p hp => h p (List.mem_cons_of_mem _ hp))
    rw [alookup_ainsert]
    split
    · next e => rw [h q List.mem_cons_self e]
    · exact ht

theorem alookup_extend_mem {t : Table} {r : List (Str × NameKey)} {k : NameKey} {s : Str}
    (hinj : ∀ p ∈ r, ∀ q ∈ r, p.2 = q.2 → p.1 = q.1) (h : (s, k) ∈ r) : alookup k (extend t r) = some s := by
  induction r generalizing t with
  | nil => simp at h
  | cons q r ih =>
    rw [extend_cons]
    rcases List.mem_cons.mp h with e | h'
    · subst e
      apply alookup_extend_keep
      · intro p hp e
        exact hinj p (List.mem_cons_of_mem _ hp) (s, k) List.mem_cons_self e
      · exact alookup_ainsert_self _ _ _
    · exact ih (fun p hp q' hq => hinj p (List.mem_cons_of_mem _ hp) q' (List.mem_cons_of_mem _ hq)) h'

/-- re-inserting records the table already has changes nothing -/
theorem extend_noop {t : Table} {r : List (Str × NameKey)} (h : ∀ p ∈ r, alookup p.2 t = some p.1) : extend t r = t := by
  induction r with
  | nil => rfl
  | cons q r ih =>
    rw [extend_cons, ainsert_same (h q List.mem_cons_self)]
    exact ih (fun p hp => h p (List.mem_cons_of_mem _ hp))

/-! ### the reverse lookup -/

theorem mem_idsOf {t : Table} {s : Str} {id : Nat} : id ∈ idsOf t s ↔ ∃ k, (k, s) ∈ t ∧ k.id = id := by
  simp only [idsOf, List.mem_map, List.mem_filter, decide_eq_true_eq]
  constructor
  · rintro ⟨p, ⟨hp, hs⟩, hid⟩
    exact ⟨p.1, by rw [← hs]; exact hp, hid⟩
  · rintro ⟨k, hk, hid⟩
    exact ⟨(k, s), ⟨hk, rfl⟩, hid⟩

theorem mem_insertAsc {a b : Nat} {l : List Nat} : b ∈ insertAsc a l ↔ b = a ∨ b ∈ l := by
  induction l with
  | nil => simp [insertAsc]
  | cons c t ih =>
    simp only [insertAsc]
    split
    · simp
    · simp only [List.mem_cons, ih]
      constructor
      · rintro (h | h | h)
        · exact Or.inr (Or.inl h)
        · exact Or.inl h
        · exact Or.inr (Or.inr h)
      · rintro (h | h | h)
        · exact Or.inr (Or.inl h)
        · exact Or.inl h
        · exact Or.inr (Or.inr h)

theorem mem_sortAsc {b : Nat} {l : List Nat} : b ∈ sortAsc l ↔ b ∈ l := by
  induction l with
  | nil => simp [sortAsc]
  | cons a t ih =>
    have : sortAsc (a :: t) = insertAsc a (sortAsc t) := rfl
    rw [this, mem_insertAsc, ih]; simp

/-- the head of an ascending insertion is a lower bound -/
theorem insertAsc_head_le {a : Nat} {l : List Nat} (hl : ∀ h ∈ l.head?, ∀ x ∈ l, h ≤ x) :
    ∀ h ∈ (insertAsc a l).head?, ∀ x ∈ insertAsc a l, h ≤ x := by
  cases l with
  | nil => simp [insertAsc]
  | cons c t =>
    simp only [insertAsc]
    have hc : ∀ x ∈ c :: t, c ≤ x := hl c (by simp)
    split
    · next hac =>
      intro h hh x hx
      simp at hh; subst hh
      rcases List.mem_cons.mp hx with e | hx
      · omega
      · exact Nat.le_trans hac (hc x hx)
    · next hac =>
      intro h hh x hx
      simp at hh; subst hh
      rcases List.mem_cons.mp hx with e | hx
      · omega
      · rcases mem_insertAsc.mp hx with e | hx
        · omega
        · exact hc x (List.mem_cons_of_mem _ hx)

theorem sortAsc_head_le (l : List Nat) : ∀ h ∈ (sortAsc l).head?, ∀ x ∈ sortAsc l, h ≤ x := by
  induction l with
  | nil => simp [sortAsc]
  | cons a t ih =>
    have : sortAsc (a :: t) = insertAsc a (sortAsc t) := rfl
    rw [this]; exact insertAsc_head_le ih

theorem mem_reverseIds {t : Table} {s : Str} {id : Nat} : id ∈ reverseIds t s ↔ ∃ k, (k, s) ∈ t ∧ k.id = id := by
  simp [reverseIds, mem_sortAsc, mem_idsOf]

/-- the head of an ascending sort is determined by the set of members -/
theorem head_sortAsc_unique {l : List Nat} {m : Nat} (hm : m ∈ l) (hle : ∀ x ∈ l, m ≤ x) : (sortAsc l).head? = some m := by
  cases h : sortAsc l with
  | nil =>
    have : m ∈ sortAsc l := mem_sortAsc.mpr hm
    rw [h] at this; simp at this
  | cons a t =>
    have ha : a ∈ l := mem_sortAsc.mp (by rw [h]; simp)
    have h1 : a ≤ m := sortAsc_head_le l a (by rw [h]; rfl) m (mem_sortAsc.mpr hm)
    have h2 := hle a ha
    simp; omega

theorem head_sortAsc_some {l : List Nat} {m : Nat} (h : (sortAsc l).head? = some m) : m ∈ l ∧ ∀ x ∈ l, m ≤ x := by
  refine ⟨mem_sortAsc.mp ?_, fun x hx => sortAsc_head_le l m h x (mem_sortAsc.mpr hx)⟩
  cases hs : sortAsc l with
  | nil => rw [hs] at h; simp at h
  | cons a t => rw [hs] at h; simp at h; subst h; simp

theorem head_sortAsc_congr {l₁ l₂ : List Nat} (h : ∀ x, x ∈ l₁ ↔ x ∈ l₂) : (sortAsc l₁).head? = (sortAsc l₂).head? := by
  cases h₁ : (sortAsc l₁).head? with
  | some m =>
    obtain ⟨hm, hle⟩ := head_sortAsc_some h₁
    exact (head_sortAsc_unique ((h m).mp hm) (fun x hx => hle x ((h x).mpr hx))).symm
  | none =>
    cases h₂ : (sortAsc l₂).head? with
    | none => rfl
    | some m =>
      obtain ⟨hm, hle⟩ := head_sortAsc_some h₂
      rw [head_sortAsc_unique ((h m).mpr hm) (fun x hx => hle x ((h x).mp hx))] at h₁
      cases h₁

/-- a record with a font-specific id guarantees a result, and any result is the id of a record carrying `s` -/
theorem reusableNameId_of_mem {t : Table} {s : Str} {allow : Bool} {k : NameKey} (hk : (k, s) ∈ t)
    (hp : 256 ≤ k.id) : ∃ id k', reusableNameId t s allow = some id ∧ (k', s) ∈ t ∧ k'.id = id := by
  unfold reusableNameId
  split
  · next id hid =>
    have hh : (reverseIds t s).head? = some id := by
      cases hd : (reverseIds t s).head? with
      | none => simp [hd] at hid
      | some a => simp [hd, Option.filter] at hid; simp [hid.2]
    have : id ∈ reverseIds t s := by
      cases hl : reverseIds t s with
      | nil => simp [hl] at hh
      | cons a l => simp [hl] at hh; simp [hh]
    obtain ⟨k', hk', e⟩ := mem_reverseIds.mp this
    exact ⟨id, k', rfl, hk', e⟩
  · cases hf : (reverseIds t s).find? (fun id => decide (256 ≤ id)) with
    | none =>
      rw [List.find?_eq_none] at hf
      have := hf k.id (mem_reverseIds.mpr ⟨k, hk, rfl⟩)
      simp at this; omega
    | some id =>
      obtain ⟨k', hk', hid⟩ := mem_reverseIds.mp (List.mem_of_find?_eq_some hf)
      exact ⟨id, k', rfl, hk', hid⟩

theorem reusableNameId_some {t : Table} {s : Str} {allow : Bool} {id : Nat} (h : reusableNameId t s allow = some id) :
    (∃ k, (k, s) ∈ t ∧ k.id = id) ∧ (256 ≤ id ∨ (allow = true ∧ isSub id = true)) := by
  unfold reusableNameId at h
  split at h
  · next id' hid =>
    cases h
    cases hd : (reverseIds t s).head? with
    | none => simp [hd] at hid
    | some a =>
      simp [hd, Option.filter] at hid
      obtain ⟨⟨h1, h2⟩, h3⟩ := hid
      subst h3
      have : a ∈ reverseIds t s := by
        cases hl : reverseIds t s with
        | nil => simp [hl] at hd
        | cons b l => simp [hl] at hd; simp [hd]
      exact ⟨mem_reverseIds.mp this, Or.inr ⟨h1, h2⟩⟩
  · refine ⟨mem_reverseIds.mp (List.mem_of_find?_eq_some h), Or.inl ?_⟩
    have := List.find?_some h
    simpa using this

/-- when the smallest id carrying the string is 2 or 17 and the caller allows it, that id is returned -/
theorem reusableNameId_of_head_sub {t : Table} {s : Str} {m : Nat} (hh : (reverseIds t s).head? = some m)
    (hs : isSub m = true) : reusableNameId t s true = some m := by
  unfold reusableNameId
  simp [hh, Option.filter, hs]

theorem statAxisId_eq (t : Table) (l : Str) : statAxisId t l = reusableNameId t l false := by
  simp [statAxisId, reusableNameId, Option.filter]
  cases (reverseIds t l).head? <;> simp

/-! ### `smallestMatch` -/

theorem mem_matchIds {order : List NameKey} {names : Table} {s : Str} {m : Nat} :
    m ∈ (order.filterMap fun k => if alookup k names = some s then some k.id else none) ↔
      ∃ k ∈ order, alookup k names = some s ∧ k.id = m := by
  simp only [List.mem_filterMap]
  constructor
  · rintro ⟨k, hk, h⟩
    split at h
    · next hs => exact ⟨k, hk, hs, by simpa using h⟩
    · cases h
  · rintro ⟨k, hk, hs, e⟩
    exact ⟨k, hk, by simp [hs, e]⟩

theorem smallestMatch_some {order : List NameKey} {names : Table} {s : Str} {m : Nat}
    (h : smallestMatch order names s = some m) :
    (∃ k ∈ order, alookup k names = some s ∧ k.id = m) ∧ ∀ k ∈ order, alookup k names = some s → m ≤ k.id := by
  obtain ⟨hm, hle⟩ := head_sortAsc_some h
  exact ⟨mem_matchIds.mp hm, fun k hk hs => hle k.id (mem_matchIds.mpr ⟨k, hk, hs, rfl⟩)⟩

theorem smallestMatch_perm {names : Table} {o₁ o₂ : List NameKey} (hp : o₁.Perm o₂) (s : Str) :
    smallestMatch o₁ names s = smallestMatch o₂ names s := by
  apply head_sortAsc_congr
  intro x
  rw [mem_matchIds, mem_matchIds]
  constructor
  · rintro ⟨k, hk, h⟩; exact ⟨k, hp.mem_iff.mp hk, h⟩
  · rintro ⟨k, hk, h⟩; exact ⟨k, hp.mem_iff.mpr hk, h⟩

theorem reuseSubfamily_perm {names : Table} {o₁ o₂ : List NameKey} (hp : o₁.Perm o₂) (ni : Inst) :
    reuseSubfamily o₁ names ni = reuseSubfamily o₂ names ni := by
  unfold reuseSubfamily; rw [smallestMatch_perm hp]

end Fontc.Names
