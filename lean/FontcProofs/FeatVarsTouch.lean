/-
  Touching boundaries, and boolean checkers for the hypotheses of the C16 theorems (used for the concrete
  witnesses and the non-vacuity examples).
-/
import FontcProofs.FeatVarsFinal

namespace Fontc.FeatVars

/-- when `overlay_onto` reports "no intersection", a common point can only lie on a face where the two boxes
    touch (or one of them has zero width) -/
theorem commonEmpty_touch (c w : NBox) (p : Point)
    (h : (c.zip w).any (fun x => commonEmpty x.1 x.2) = true)
    (hc : contains c p = true) (hw : contains w p = true) :
    ∃ (k : Nat) (x lo hi lo' hi' : Rat), p[k]? = some x ∧ c[k]? = some (some (lo, hi)) ∧ w[k]? = some (some (lo', hi')) ∧
      x = ratMax lo lo' ∧ x = ratMin hi hi' := by
  induction c generalizing w p with
  | nil => simp at h
  | cons ce c ih =>
    cases w with
    | nil => simp at h
    | cons we w =>
      cases p with
      | nil => cases ce <;> simp [contains] at hc
      | cons x p =>
        simp only [List.zip_cons_cons, List.any_cons, Bool.or_eq_true] at h
        have tail : contains c p = true ∧ contains w p = true := by
          cases ce with
          | none => cases we with
            | none => exact ⟨by simpa [contains] using hc, by simpa [contains] using hw⟩
            | some r => obtain ⟨u, v⟩ := r; simp [contains] at hc hw; exact ⟨hc, hw.2⟩
          | some r =>
            obtain ⟨a, b⟩ := r
            cases we with
            | none => simp [contains] at hc hw; exact ⟨hc.2, hw⟩
            | some r' => obtain ⟨u, v⟩ := r'; simp [contains] at hc hw; exact ⟨hc.2, hw.2⟩
        rcases h with h | h
        · cases ce with
          | none => rw [commonEmpty_none_left] at h; cases h
          | some r =>
            obtain ⟨a, b⟩ := r
            cases we with
            | none => rw [commonEmpty_none_right] at h; cases h
            | some r' =>
              obtain ⟨u, v⟩ := r'
              rw [commonEmpty_some_some] at h
              simp [contains] at hc hw
              have h' : ratMin b v ≤ ratMax a u := by simpa using h
              have e1 := ratMax_le_iff a u x
              have e2 := le_ratMin_iff b v x
              refine ⟨0, x, a, b, u, v, by simp, by simp, by simp, ?_, ?_⟩ <;> grind
        · obtain ⟨k, y, lo, hi, lo', hi', h1, h2, h3, h4⟩ := ih w p h tail.1 tail.2
          exact ⟨k + 1, y, lo, hi, lo', hi', by simpa using h1, by simpa using h2, by simpa using h3, h4⟩

/-! ### boolean checkers -/

def boxOkB (b : NBox) : Bool :=
  b.all fun e => match e with
    | some (lo, hi) => decide (-1 ≤ lo) && decide (hi ≤ 1)
    | none => true

theorem boxOkB_sound {b : NBox} (h : boxOkB b = true) : BoxOk b := by
  intro lo hi hm
  have := List.all_eq_true.1 h _ hm
  simpa using this

def rulesOkB (n : Nat) (cs : List Rule) : Bool :=
  cs.all fun r => !r.1.isEmpty && r.1.all fun c => c.length == n && boxOkB c

theorem rulesOkB_sound {n : Nat} {cs : List Rule} (h : rulesOkB n cs = true) : RulesOk n cs := by
  constructor
  · intro r hr hempty
    have := List.all_eq_true.1 h r hr
    simp [hempty] at this
  · intro r hr c hc
    have := List.all_eq_true.1 h r hr
    simp only [Bool.and_eq_true] at this
    have := List.all_eq_true.1 this.2 c hc
    simp only [Bool.and_eq_true, beq_iff_eq] at this
    exact ⟨this.1, boxOkB_sound this.2⟩

/-- no coordinate of `p` is a lower bound of any box (more than enough to be off every touching boundary) -/
def offLowerBoundsB (boxes : List NBox) (p : Point) : Bool :=
  p.zipIdx.all fun (x, k) => boxes.all fun b =>
    match b[k]? with
    | some (some (lo, _)) => !(lo == x)
    | _ => true

theorem offLowerBoundsB_sound {boxes : List NBox} {p : Point} (h : offLowerBoundsB boxes p = true) :
    ¬ OnTouchingBoundary boxes p := by
  rintro ⟨k, x, hk, ⟨b, hb, hi, hbk⟩, _⟩
  have hmem : (x, k) ∈ p.zipIdx := by
    rw [List.mem_zipIdx_iff_getElem?]; simpa using hk
  have := List.all_eq_true.1 h _ hmem
  have := List.all_eq_true.1 this b hb
  simp [hbk] at this

/-- some coordinate of `p` is both a lower and an upper bound -/
def onTouchB (boxes : List NBox) (p : Point) : Bool :=
  p.zipIdx.any fun (x, k) =>
    (boxes.any fun b => match b[k]? with | some (some (lo, _)) => lo == x | _ => false) &&
    (boxes.any fun b => match b[k]? with | some (some (_, hi)) => hi == x | _ => false)

theorem onTouchB_sound {boxes : List NBox} {p : Point} (h : onTouchB boxes p = true) :
    OnTouchingBoundary boxes p := by
  obtain ⟨⟨x, k⟩, hmem, hx⟩ := List.any_eq_true.1 h
  simp only [Bool.and_eq_true] at hx
  obtain ⟨b1, hb1, h1⟩ := List.any_eq_true.1 hx.1
  obtain ⟨b2, hb2, h2⟩ := List.any_eq_true.1 hx.2
  have hk : p[k]? = some x := by
    rw [List.mem_zipIdx_iff_getElem?] at hmem; simpa using hmem
  refine ⟨k, x, hk, ⟨b1, hb1, ?_⟩, ⟨b2, hb2, ?_⟩⟩
  · split at h1
    · rename_i lo hi heq; have : lo = x := by simpa using h1
      subst this; exact ⟨hi, heq⟩
    · cases h1
  · split at h2
    · rename_i lo hi heq; have : hi = x := by simpa using h2
      subst this; exact ⟨lo, heq⟩
    · cases h2

end Fontc.FeatVars
