/-
  Helper lemmas for C12, part 2: each operation of FontcModel/Components.lean preserves the resolved outline.
-/
import FontcProofs.Components

namespace Fontc.Components
open Fontc

/-- No glyph reachable from `b` (including `b`) has both components and contours. flatten_glyph assumes this
    ("Assumed to run after component consistency is checked/fixed", glyph.rs:615). -/
def NoMixedFrom (G : Env) (b : String) : Prop :=
  ∀ m r, Reach G b m → G m = some r → r.comps ≠ [] → r.contours = []

theorem NoMixedFrom.step {G : Env} {b : String} {r : Inst} {rc : Comp} (h : NoMixedFrom G b)
    (hG : G b = some r) (hrc : rc ∈ r.comps) : NoMixedFrom G rc.base :=
  fun m r' hreach => h m r' (Reach.step hG hrc hreach)

/-! ### flatten -/

/-- The components that replace `c` draw exactly what `c` drew (same contours, same order). -/
theorem flattenComp_resolve (tr : Affine → Contour → Contour)
    (htr : ∀ s t c, tr (s.comp t) c = tr s (tr t c))
    (G : Env) (rk : String → Nat) (hfit : Fits G rk) (f : Nat) :
    ∀ (F : Nat) (c : Comp), rk c.base < F → rk c.base < f → NoMixedFrom G c.base →
      (flattenComp G F c).flatMap (fun c' => (resolveWith tr G f c'.base).map (tr c'.t)) =
        (resolveWith tr G f c.base).map (tr c.t) := by
  intro F
  induction F with
  | zero => intro c h; omega
  | succ F ih =>
    intro c hF hf hmix
    simp only [flattenComp]
    cases hG : G c.base with
    | none => simp
    | some r =>
      simp only
      by_cases he : r.comps.isEmpty
      · simp [he]
      · simp only [he, Bool.false_eq_true, if_false]
        have hne : r.comps ≠ [] := by simpa using he
        have hcont : r.contours = [] := hmix c.base r (Reach.refl _) hG hne
        rw [List.flatMap_assoc]
        -- right-hand side: unfold one level
        obtain ⟨f0, rfl⟩ : ∃ f0, f = f0 + 1 := ⟨f - 1, by omega⟩
        conv => rhs; rw [resolveWith_succ tr G f0 c.base r hG]
        simp only [resolveInst, hcont, List.nil_append, List.map_flatMap]
        apply flatMap_congr'
        intro rc hrc
        have hlt := hfit c.base r hG rc hrc
        rw [ih ⟨rc.base, c.t.comp rc.t⟩ (by simp; omega) (by simp; omega) (show NoMixedFrom G rc.base from hmix.step hG hrc)]
        simp only [List.map_map]
        rw [resolveWith_stable tr G rk hfit (f0 + 1) f0 rc.base (by omega) (by omega)]
        apply List.map_congr_left
        intro ct _
        simp [htr]

theorem flattenInst_resolve (tr : Affine → Contour → Contour)
    (htr : ∀ s t c, tr (s.comp t) c = tr s (tr t c))
    (G : Env) (rk : String → Nat) (hfit : Fits G rk) (f F : Nat) (i : Inst)
    (hF : ∀ c ∈ i.comps, rk c.base < F) (hf : ∀ c ∈ i.comps, rk c.base < f)
    (hmix : ∀ c ∈ i.comps, NoMixedFrom G c.base) :
    resolveInst tr G f (flattenInst G F i) = resolveInst tr G f i := by
  simp only [resolveInst, flattenInst]
  congr 1
  rw [List.flatMap_assoc]
  apply flatMap_congr'
  intro c hc
  exact flattenComp_resolve tr htr G rk hfit f F c (hF c hc) (hf c hc) (hmix c hc)

/-- Flattening only ever references glyphs strictly below the bases it replaces: ranks still fit. -/
theorem flattenComp_rank (G : Env) (rk : String → Nat) (hfit : Fits G rk) :
    ∀ (F : Nat) (c : Comp), ∀ c' ∈ flattenComp G F c, rk c'.base ≤ rk c.base := by
  intro F
  induction F with
  | zero => intro c c' h; simp [flattenComp] at h; subst h; exact Nat.le_refl _
  | succ F ih =>
    intro c c' h
    simp only [flattenComp] at h
    cases hG : G c.base with
    | none => simp [hG] at h; subst h; exact Nat.le_refl _
    | some r =>
      simp only [hG] at h
      by_cases he : r.comps.isEmpty
      · simp [he] at h; subst h; exact Nat.le_refl _
      · simp only [he, Bool.false_eq_true, if_false, List.mem_flatMap] at h
        obtain ⟨rc, hrc, hc'⟩ := h
        have := ih ⟨rc.base, c.t.comp rc.t⟩ c' hc'
        have hlt := hfit c.base r hG rc hrc
        simp at this
        omega

/-! ### decompose -/

theorem resolveAcc_unfold (tr : Affine → Contour → Contour) (G : Env) (rk : String → Nat) (hfit : Fits G rk)
    (f : Nat) (c : Comp) (hf : rk c.base < f) :
    resolveAcc tr G f c.t c.base =
      (match G c.base with | none => [] | some r => r.contours.map (tr c.t)) ++
      (childComps G c).flatMap fun c' => resolveAcc tr G f c'.t c'.base := by
  obtain ⟨f0, rfl⟩ : ∃ f0, f = f0 + 1 := ⟨f - 1, by omega⟩
  simp only [resolveAcc, childComps]
  cases hG : G c.base with
  | none => simp
  | some r =>
    simp only [List.flatMap_map]
    congr 1
    apply flatMap_congr'
    intro rc hrc
    have := hfit c.base r hG rc hrc
    exact resolveAcc_stable tr G rk hfit f0 (f0 + 1) _ rc.base (by omega) (by omega)

theorem childComps_rank (G : Env) (rk : String → Nat) (hfit : Fits G rk) (c : Comp) :
    ∀ c' ∈ childComps G c, rk c'.base < rk c.base := by
  intro c' h
  simp only [childComps] at h
  cases hG : G c.base with
  | none => simp [hG] at h
  | some r =>
    simp only [hG, List.mem_map] at h
    obtain ⟨rc, hrc, rfl⟩ := h
    exact hfit c.base r hG rc hrc

/-- The breadth-first queue emits, up to order, the orientation-corrected outline of every frontier entry. -/
theorem decomposeLevels_perm (G : Env) (rk : String → Nat) (hfit : Fits G rk) (f : Nat) :
    ∀ (F : Nat) (cs : List Comp), (∀ c ∈ cs, rk c.base < F) → (∀ c ∈ cs, rk c.base < f) →
      List.Perm (decomposeLevels G F cs) (cs.flatMap fun c => resolveAcc orient G f c.t c.base) := by
  intro F
  induction F with
  | zero =>
    intro cs hF _
    cases cs with
    | nil => simp [decomposeLevels]
    | cons c _ => have := hF c (by simp); omega
  | succ F ih =>
    intro cs hF hf
    simp only [decomposeLevels]
    have hrhs : (cs.flatMap fun c => resolveAcc orient G f c.t c.base) =
        cs.flatMap fun c => childContours G c ++ (childComps G c).flatMap fun c' => resolveAcc orient G f c'.t c'.base := by
      apply flatMap_congr'
      intro c hc
      rw [resolveAcc_unfold orient G rk hfit f c (hf c hc)]
      rfl
    rw [hrhs]
    refine List.Perm.trans ?_ (flatMap_append_perm cs _ _).symm
    apply List.Perm.append_left
    rw [← List.flatMap_assoc]
    apply ih
    · intro c' hc'
      simp only [List.mem_flatMap] at hc'
      obtain ⟨c, hc, hc'⟩ := hc'
      have := childComps_rank G rk hfit c c' hc'
      have := hF c hc
      omega
    · intro c' hc'
      simp only [List.mem_flatMap] at hc'
      obtain ⟨c, hc, hc'⟩ := hc'
      have := childComps_rank G rk hfit c c' hc'
      have := hf c hc
      omega

/-! ### inline non-export -/

theorem inline_unfold (G : Env) (rk : String → Nat) (hfit : Fits G rk) (exported : String → Bool)
    (f : Nat) (c : Comp) (hf : rk c.base < f) :
    SameDrawing
      (inlineContours G exported c ++
        (inlineComps G exported c).flatMap fun c' => (resolve G f c'.base).map (applyC c'.t))
      ((resolve G f c.base).map (applyC c.t)) := by
  simp only [inlineContours, inlineComps]
  cases hG : G c.base with
  | none => simp [childContours, hG]; exact SameDrawing.refl _
  | some r =>
    by_cases he : exported c.base
    · simp [he]; exact SameDrawing.refl _
    · simp only [he, Bool.false_eq_true, if_false]
      obtain ⟨f0, rfl⟩ : ∃ f0, f = f0 + 1 := ⟨f - 1, by omega⟩
      have hres : resolve G (f0 + 1) c.base = resolveInst applyC G f0 r := resolveWith_succ applyC G f0 c.base r hG
      rw [hres]
      simp only [resolveInst, List.map_append, childContours, childComps, hG, List.flatMap_map, List.map_flatMap]
      apply SameDrawing.append
      · exact SameDrawing.of_revEq ((RevEq.refl r.contours).map _ _ (orient_eq_or c.t) (applyC_reverse c.t))
      · apply SameDrawing.of_eq
        apply flatMap_congr'
        intro rc hrc
        have := hfit c.base r hG rc hrc
        have hst : resolve G (f0 + 1) rc.base = resolve G f0 rc.base :=
          resolveWith_stable applyC G rk hfit (f0 + 1) f0 rc.base (by omega) (by omega)
        rw [hst, List.map_map]
        apply List.map_congr_left
        intro ct _
        simp [applyC_comp]

theorem inlineInst_resolve (G : Env) (rk : String → Nat) (hfit : Fits G rk) (exported : String → Bool)
    (f : Nat) (i : Inst) (hf : ∀ c ∈ i.comps, rk c.base < f) :
    SameDrawing (resolveInst applyC G f (inlineInst G exported i)) (resolveInst applyC G f i) := by
  simp only [resolveInst, inlineInst, List.append_assoc]
  apply SameDrawing.append (SameDrawing.refl _)
  rw [List.flatMap_assoc]
  refine SameDrawing.trans (SameDrawing.of_perm (flatMap_append_perm i.comps _ _).symm) ?_
  apply SameDrawing.flatMap
  intro c hc
  exact inline_unfold G rk hfit exported f c (hf c hc)

theorem inlineComps_rank (G : Env) (rk : String → Nat) (hfit : Fits G rk) (exported : String → Bool) (c : Comp) :
    ∀ c' ∈ inlineComps G exported c, rk c'.base ≤ rk c.base := by
  intro c' h
  simp only [inlineComps] at h
  cases hG : G c.base with
  | none => simp [hG] at h; subst h; exact Nat.le_refl _
  | some r =>
    simp only [hG] at h
    by_cases he : exported c.base
    · simp [he] at h; subst h; exact Nat.le_refl _
    · simp only [he, Bool.false_eq_true, if_false] at h
      exact Nat.le_of_lt (childComps_rank G rk hfit c c' h)

end Fontc.Components
