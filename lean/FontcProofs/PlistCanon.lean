/-
  C20 — what the reader makes of dictionaries: key order (`keyLt` is a strict total order), `insertKV`
  as a finite map, `canon` of an already canonical value, independence of the written key order.
-/
import FontcModel.Plist
import FontcProofs.PlistParse
namespace Fontc.Plist
set_option linter.unusedSimpArgs false
set_option linter.unusedVariables false

/-! ### `keyLt` -/

theorem keyLt_irrefl (a : Key) : keyLt a a = false := by
  induction a with
  | nil => rfl
  | cons c t ih => simp [keyLt, ih]

theorem keyLt_trans {a b c : Key} (h1 : keyLt a b = true) (h2 : keyLt b c = true) : keyLt a c = true := by
  induction a generalizing b c with
  | nil =>
    cases b with
    | nil => simp [keyLt] at h1
    | cons y b => cases c with
      | nil => simp [keyLt] at h2
      | cons z c => rfl
  | cons x a ih =>
    cases b with
    | nil => simp [keyLt] at h1
    | cons y b =>
      cases c with
      | nil => simp [keyLt] at h2
      | cons z c =>
        simp only [keyLt, Bool.or_eq_true, Bool.and_eq_true, decide_eq_true_eq, beq_iff_eq] at h1 h2 ⊢
        rcases h1 with h1 | ⟨e1, h1⟩ <;> rcases h2 with h2 | ⟨e2, h2⟩
        · left; omega
        · left; omega
        · left; omega
        · right; exact ⟨by omega, ih h1 h2⟩

theorem keyLt_connex {a b : Key} (hne : a ≠ b) (h : keyLt a b = false) : keyLt b a = true := by
  induction a generalizing b with
  | nil =>
    cases b with
    | nil => exact absurd rfl hne
    | cons y b => simp [keyLt] at h
  | cons x a ih =>
    cases b with
    | nil => rfl
    | cons y b =>
      simp only [keyLt, Bool.or_eq_false_iff, Bool.and_eq_false_imp, decide_eq_false_iff_not, beq_iff_eq] at h
      simp only [keyLt, Bool.or_eq_true, Bool.and_eq_true, decide_eq_true_eq, beq_iff_eq]
      by_cases hxy : x.toNat = y.toNat
      · right
        have : x = y := Char.toNat_inj.mp hxy
        subst this
        exact ⟨rfl, ih (by intro hab; exact hne (by rw [hab])) (h.2 rfl)⟩
      · left; omega

theorem keyLt_asymm {a b : Key} (h : keyLt a b = true) : keyLt b a = false := by
  cases hb : keyLt b a with
  | false => rfl
  | true => have := keyLt_trans h hb; rw [keyLt_irrefl] at this; cases this

theorem keyLt_ne {a b : Key} (h : keyLt a b = true) : a ≠ b := by
  intro hab; subst hab; rw [keyLt_irrefl] at h; cases h

/-! ### `insertKV` as a map -/

theorem lookup_insertKV (k : Key) (v : PVal) (m : List (Key × PVal)) (j : Key) :
    lookupKV j (insertKV k v m) = if j == k then some v else lookupKV j m := by
  induction m with
  | nil => simp [insertKV, lookupKV]
  | cons kv m ih =>
    obtain ⟨k', v'⟩ := kv
    simp only [insertKV]
    split
    · simp [lookupKV]
    · split
      · next _ h =>
        simp at h; subst h
        simp only [lookupKV]
        split <;> rfl
      · next _ h =>
        simp only [lookupKV, ih]
        by_cases hjk' : (j == k') = true
        · have : (j == k) = false := by
            simp at hjk'; subst hjk'
            simp at h ⊢; exact fun e => h e.symm
          simp [hjk', this]
        · simp [hjk']

/-- all keys of `m` are greater than `k` -/
def AllGt (k : Key) (m : List (Key × PVal)) : Prop := ∀ kv ∈ m, keyLt k kv.1 = true

theorem sortedKeys_cons {k : Key} {v : PVal} {m : List (Key × PVal)} :
    sortedKeys ((k, v) :: m) = true ↔ (AllGt k m ∧ sortedKeys m = true) := by
  induction m generalizing k v with
  | nil => simp [sortedKeys, AllGt]
  | cons kv m ih =>
    obtain ⟨k', v'⟩ := kv
    simp only [sortedKeys, Bool.and_eq_true]
    constructor
    · rintro ⟨h1, h2⟩
      refine ⟨?_, h2⟩
      intro kv hkv
      simp at hkv
      rcases hkv with rfl | hkv
      · exact h1
      · exact keyLt_trans h1 ((ih.1 h2).1 kv hkv)
    · rintro ⟨h1, h2⟩
      exact ⟨h1 (k', v') (by simp), h2⟩

theorem mem_insertKV {k : Key} {v : PVal} {m : List (Key × PVal)} {kv : Key × PVal} (h : kv ∈ insertKV k v m) :
    kv = (k, v) ∨ kv ∈ m := by
  induction m with
  | nil => simp [insertKV] at h; exact Or.inl h
  | cons kv' m ih =>
    obtain ⟨k', v'⟩ := kv'
    simp only [insertKV] at h
    split at h
    · simp at h; rcases h with h | h | h
      · exact Or.inl h
      · exact Or.inr (by simp [h])
      · exact Or.inr (by simp [h])
    · split at h
      · simp at h; rcases h with h | h
        · exact Or.inl h
        · exact Or.inr (by simp [h])
      · simp at h; rcases h with h | h
        · exact Or.inr (by simp [h])
        · rcases ih h with h | h
          · exact Or.inl h
          · exact Or.inr (by simp [h])

theorem sorted_insertKV (k : Key) (v : PVal) (m : List (Key × PVal)) (hm : sortedKeys m = true) :
    sortedKeys (insertKV k v m) = true := by
  induction m with
  | nil => simp [insertKV, sortedKeys]
  | cons kv m ih =>
    obtain ⟨k', v'⟩ := kv
    obtain ⟨hgt, hs⟩ := sortedKeys_cons.1 hm
    simp only [insertKV]
    split
    · next h =>
      refine sortedKeys_cons.2 ⟨?_, hm⟩
      intro kv hkv
      simp at hkv
      rcases hkv with rfl | hkv
      · exact h
      · exact keyLt_trans h (hgt kv hkv)
    · split
      · next _ h =>
        simp at h; subst h
        exact sortedKeys_cons.2 ⟨hgt, hs⟩
      · next h1 h2 =>
        have hk'k : keyLt k' k = true := keyLt_connex (by simpa using h2) (by simpa using h1)
        refine sortedKeys_cons.2 ⟨?_, ih hs⟩
        intro kv hkv
        rcases mem_insertKV hkv with rfl | hkv
        · exact hk'k
        · exact hgt kv hkv

theorem lookupKV_none_of_allGt {k : Key} {m : List (Key × PVal)} (h : AllGt k m) : lookupKV k m = none := by
  induction m with
  | nil => rfl
  | cons kv m ih =>
    obtain ⟨k', v'⟩ := kv
    have := keyLt_ne (h (k', v') (by simp))
    simp only [lookupKV]
    rw [if_neg (by simpa using this)]
    exact ih (fun kv hkv => h kv (by simp [hkv]))

/-- two key-sorted association lists with the same lookups are the same list -/
theorem sorted_ext {m₁ m₂ : List (Key × PVal)} (h₁ : sortedKeys m₁ = true) (h₂ : sortedKeys m₂ = true)
    (h : ∀ k, lookupKV k m₁ = lookupKV k m₂) : m₁ = m₂ := by
  induction m₁ generalizing m₂ with
  | nil =>
    cases m₂ with
    | nil => rfl
    | cons kv m₂ =>
      obtain ⟨k, v⟩ := kv
      have := h k
      simp [lookupKV] at this
  | cons kv₁ m₁ ih =>
    obtain ⟨k₁, v₁⟩ := kv₁
    cases m₂ with
    | nil => have := h k₁; simp [lookupKV] at this
    | cons kv₂ m₂ =>
      obtain ⟨k₂, v₂⟩ := kv₂
      obtain ⟨g₁, s₁⟩ := sortedKeys_cons.1 h₁
      obtain ⟨g₂, s₂⟩ := sortedKeys_cons.1 h₂
      have hk : k₁ = k₂ := by
        apply Classical.byContradiction
        intro hne
        by_cases hlt : keyLt k₁ k₂ = true
        · -- k₁ is below every key of the second list
          have a : lookupKV k₁ ((k₂, v₂) :: m₂) = none :=
            lookupKV_none_of_allGt (fun kv hkv => by
              simp at hkv
              rcases hkv with rfl | hkv
              · exact hlt
              · exact keyLt_trans hlt (g₂ kv hkv))
          have := h k₁
          rw [a] at this
          simp [lookupKV] at this
        · have hgt : keyLt k₂ k₁ = true := keyLt_connex hne (by simpa using hlt)
          have a : lookupKV k₂ ((k₁, v₁) :: m₁) = none :=
            lookupKV_none_of_allGt (fun kv hkv => by
              simp at hkv
              rcases hkv with rfl | hkv
              · exact hgt
              · exact keyLt_trans hgt (g₁ kv hkv))
          have := h k₂
          rw [a] at this
          simp [lookupKV] at this
      subst hk
      have hv : v₁ = v₂ := by
        have := h k₁
        simpa [lookupKV] using this
      subst hv
      congr 1
      apply ih s₁ s₂
      intro k
      have := h k
      simp only [lookupKV] at this
      by_cases hk : (k == k₁) = true
      · simp at hk; subst hk
        rw [lookupKV_none_of_allGt g₁, lookupKV_none_of_allGt g₂]
      · simpa [hk] using this

/-! ### `canon` -/

theorem sorted_canonE (kvs m : List (Key × PVal)) (hm : sortedKeys m = true) : sortedKeys (canonE kvs m) = true := by
  induction kvs generalizing m with
  | nil => simpa [canonE] using hm
  | cons kv kvs ih =>
    obtain ⟨k, v⟩ := kv
    simp only [canonE]
    exact ih _ (sorted_insertKV k _ m hm)

/-- lookups in the accumulator determine lookups in the result -/
theorem lookup_canonE_congr (kvs m m' : List (Key × PVal)) (h : ∀ k, lookupKV k m = lookupKV k m') :
    ∀ k, lookupKV k (canonE kvs m) = lookupKV k (canonE kvs m') := by
  induction kvs generalizing m m' with
  | nil => simpa [canonE] using h
  | cons kv kvs ih =>
    obtain ⟨k, v⟩ := kv
    simp only [canonE]
    apply ih
    intro j
    rw [lookup_insertKV, lookup_insertKV, h j]

/-- **reading a dictionary**: a key that is written (last) with value `v` reads back as `canon v`;
    in particular, of a repeated key the last value wins -/
theorem lookup_canonE_last (pre post : List (Key × PVal)) (k : Key) (v : PVal) (m : List (Key × PVal))
    (hlast : ∀ kv ∈ post, kv.1 ≠ k) :
    lookupKV k (canonE (pre ++ (k, v) :: post) m) = some (canon v) := by
  induction pre generalizing m with
  | cons kv pre ih => obtain ⟨k', v'⟩ := kv; simp only [List.cons_append, canonE]; exact ih _
  | nil =>
    simp only [List.nil_append, canonE]
    have : ∀ (post : List (Key × PVal)) (m : List (Key × PVal)), (∀ kv ∈ post, kv.1 ≠ k) →
        lookupKV k m = some (canon v) → lookupKV k (canonE post m) = some (canon v) := by
      intro post
      induction post with
      | nil => intro m _ h; simpa [canonE] using h
      | cons kv post ihp =>
        obtain ⟨k', v'⟩ := kv
        intro m hl h
        simp only [canonE]
        apply ihp _ (fun kv hkv => hl kv (by simp [hkv]))
        rw [lookup_insertKV]
        have : (k == k') = false := by
          have := hl (k', v') (by simp)
          simp at this ⊢; exact fun e => this e.symm
        simp [this, h]
    exact this post _ hlast (by rw [lookup_insertKV]; simp)

mutual
/-- keys are pairwise distinct in every dictionary at every depth -/
def distinctKeys : PVal → Bool
  | .dict kvs => (kvs.map Prod.fst).Nodup && distinctKeysE kvs
  | .arr xs => distinctKeysL xs
  | _ => true
def distinctKeysL : List PVal → Bool
  | [] => true
  | x :: xs => distinctKeys x && distinctKeysL xs
def distinctKeysE : List (Key × PVal) → Bool
  | [] => true
  | (_, v) :: kvs => distinctKeys v && distinctKeysE kvs
end

/-- the written order of distinct keys does not matter (one dictionary) -/
theorem canonE_perm {l₁ l₂ : List (Key × PVal)} (hp : l₁.Perm l₂) (hnd : (l₁.map Prod.fst).Nodup) :
    ∀ m, sortedKeys m = true → canonE l₁ m = canonE l₂ m := by
  have key : ∀ m k, lookupKV k (canonE l₁ m) = lookupKV k (canonE l₂ m) := by
    induction hp with
    | nil => intro m k; rfl
    | cons x hp ih =>
      obtain ⟨k', v'⟩ := x
      intro m k
      simp only [canonE]
      exact ih (by simp at hnd; exact hnd.2) _ k
    | swap x y l =>
      obtain ⟨kx, vx⟩ := x
      obtain ⟨ky, vy⟩ := y
      intro m k
      simp only [canonE]
      apply lookup_canonE_congr
      intro j
      have hne : ky ≠ kx := by simp at hnd; exact hnd.1.1
      simp only [lookup_insertKV]
      by_cases h1 : (j == kx) = true
      · have : (j == ky) = false := by simp at h1 ⊢; subst h1; exact fun e => hne e.symm
        simp [h1, this]
      · simp [h1]
    | trans hp₁ hp₂ ih₁ ih₂ =>
      intro m k
      have hnd₂ := (hp₁.map Prod.fst).nodup_iff.1 hnd
      rw [ih₁ hnd m k, ih₂ hnd₂ m k]
  intro m hm
  exact sorted_ext (sorted_canonE _ _ hm) (sorted_canonE _ _ hm) (key m)

theorem canonE_append (a b m : List (Key × PVal)) : canonE (a ++ b) m = canonE b (canonE a m) := by
  induction a generalizing m with
  | nil => rfl
  | cons kv a ih => obtain ⟨k, v⟩ := kv; simp only [List.cons_append, canonE]; exact ih _

theorem canonL_append (a b : List PVal) : canonL (a ++ b) = canonL a ++ canonL b := by
  induction a with
  | nil => rfl
  | cons x a ih => simp only [List.cons_append, canonL, ih]

/-- `KeyPerm v w`: `w` is `v` with the entries of dictionaries, at any depth, reordered -/
inductive KeyPerm : PVal → PVal → Prop
  | refl (v) : KeyPerm v v
  | trans {a b c} : KeyPerm a b → KeyPerm b c → KeyPerm a c
  /-- reorder the entries of this dictionary -/
  | reorder {kvs kws} : kvs.Perm kws → KeyPerm (.dict kvs) (.dict kws)
  /-- … or do so inside the value of one entry -/
  | inEntry {pre post k x y} : KeyPerm x y → KeyPerm (.dict (pre ++ (k, x) :: post)) (.dict (pre ++ (k, y) :: post))
  /-- … or inside one element of an array -/
  | inItem {pre post x y} : KeyPerm x y → KeyPerm (.arr (pre ++ x :: post)) (.arr (pre ++ y :: post))

theorem distinctKeysE_iff (kvs : List (Key × PVal)) : distinctKeysE kvs = true ↔ ∀ kv ∈ kvs, distinctKeys kv.2 = true := by
  induction kvs with
  | nil => simp [distinctKeysE]
  | cons kv kvs ih => obtain ⟨k, v⟩ := kv; simp [distinctKeysE, ih]

theorem distinctKeysL_iff (xs : List PVal) : distinctKeysL xs = true ↔ ∀ x ∈ xs, distinctKeys x = true := by
  induction xs with
  | nil => simp [distinctKeysL]
  | cons x xs ih => simp [distinctKeysL, ih]

/-- reordering keys (distinct ones) anywhere does not change what is read -/
theorem canon_keyPerm {v w : PVal} (h : KeyPerm v w) (hd : distinctKeys v = true) :
    canon v = canon w ∧ distinctKeys w = true := by
  induction h with
  | refl v => exact ⟨rfl, hd⟩
  | trans _ _ ih₁ ih₂ =>
    obtain ⟨e₁, d₁⟩ := ih₁ hd
    obtain ⟨e₂, d₂⟩ := ih₂ d₁
    exact ⟨e₁.trans e₂, d₂⟩
  | @reorder kvs kws hp =>
    simp only [distinctKeys, Bool.and_eq_true, decide_eq_true_eq] at hd ⊢
    refine ⟨?_, (hp.map Prod.fst).nodup_iff.1 hd.1, ?_⟩
    · simp only [canon]; rw [canonE_perm hp hd.1 [] rfl]
    · rw [distinctKeysE_iff] at hd ⊢
      exact fun kv hkv => hd.2 kv (hp.mem_iff.2 hkv)
  | @inEntry pre post k x y _ ih =>
    simp only [distinctKeys, Bool.and_eq_true, decide_eq_true_eq] at hd ⊢
    have hx : distinctKeys x = true := (distinctKeysE_iff _).1 hd.2 (k, x) (by simp)
    obtain ⟨e, d⟩ := ih hx
    refine ⟨?_, by simpa using hd.1, ?_⟩
    · simp only [canon, canonE_append, canonE, e]
    · rw [distinctKeysE_iff] at hd ⊢
      intro kv hkv
      simp at hkv
      rcases hkv with hkv | rfl | hkv
      · exact hd.2 kv (by simp [hkv])
      · exact d
      · exact hd.2 kv (by simp [hkv])
  | @inItem pre post x y _ ih =>
    simp only [distinctKeys] at hd ⊢
    have hx : distinctKeys x = true := (distinctKeysL_iff _).1 hd x (by simp)
    obtain ⟨e, d⟩ := ih hx
    refine ⟨?_, ?_⟩
    · simp only [canon, canonL_append, canonL, e]
    · rw [distinctKeysL_iff] at hd ⊢
      intro z hz
      simp at hz
      rcases hz with hz | rfl | hz
      · exact hd z (by simp [hz])
      · exact d
      · exact hd z (by simp [hz])

/-! ### a canonical value is its own canonical form -/

theorem insertKV_last (k : Key) (v : PVal) (m : List (Key × PVal)) (h : ∀ kv ∈ m, keyLt kv.1 k = true) :
    insertKV k v m = m ++ [(k, v)] := by
  induction m with
  | nil => rfl
  | cons kv m ih =>
    obtain ⟨k', v'⟩ := kv
    have hk := h (k', v') (by simp)
    simp only [insertKV, keyLt_asymm hk, Bool.false_eq_true, if_false]
    rw [if_neg (by simpa using (keyLt_ne hk).symm), ih (fun kv hkv => h kv (by simp [hkv]))]
    rfl

theorem canonicalE_iff (kvs : List (Key × PVal)) : canonicalE kvs = true ↔ ∀ kv ∈ kvs, canonical kv.2 = true := by
  induction kvs with
  | nil => simp [canonicalE]
  | cons kv kvs ih => obtain ⟨k, v⟩ := kv; simp [canonicalE, ih]

theorem canonicalL_iff (xs : List PVal) : canonicalL xs = true ↔ ∀ x ∈ xs, canonical x = true := by
  induction xs with
  | nil => simp [canonicalL]
  | cons x xs ih => simp [canonicalL, ih]

theorem canonE_sorted_id (kvs : List (Key × PVal)) (hs : sortedKeys kvs = true)
    (hc : ∀ kv ∈ kvs, canon kv.2 = kv.2) :
    ∀ m, (∀ a ∈ m, ∀ b ∈ kvs, keyLt a.1 b.1 = true) → canonE kvs m = m ++ kvs := by
  induction kvs with
  | nil => intro m _; simp [canonE]
  | cons kv kvs ih =>
    obtain ⟨k, v⟩ := kv
    obtain ⟨hgt, hs'⟩ := sortedKeys_cons.1 hs
    intro m hm
    simp only [canonE]
    rw [hc (k, v) (by simp), insertKV_last k v m (fun a ha => hm a ha (k, v) (by simp)),
      ih hs' (fun kv hkv => hc kv (by simp [hkv]))]
    · simp
    · intro a ha b hb
      simp at ha
      rcases ha with ha | rfl
      · exact hm a ha b (by simp [hb])
      · exact hgt b hb

theorem canon_of_canonical (v : PVal) : canonical v = true → canon v = v := by
  induction v using PVal.induct with
  | hstr s => intro _; rfl
  | hint i => intro _; rfl
  | hflt t => intro _; rfl
  | hdata b => intro _; rfl
  | harr xs ih =>
    intro h
    simp only [canonical] at h
    rw [canonicalL_iff] at h
    simp only [canon]
    congr 1
    have : ∀ (l : List PVal), (∀ x ∈ l, canon x = x) → canonL l = l := by
      intro l hl
      induction l with
      | nil => rfl
      | cons x l ihl => simp only [canonL, hl x (by simp), ihl (fun y hy => hl y (by simp [hy]))]
    exact this xs (fun x hx => ih x hx (h x hx))
  | hdict kvs ih =>
    intro h
    simp only [canonical, Bool.and_eq_true] at h
    rw [canonicalE_iff] at h
    simp only [canon]
    congr 1
    have := canonE_sorted_id kvs h.1 (fun kv hkv => ih kv hkv (h.2 kv hkv)) [] (by simp)
    simpa using this

end Fontc.Plist
