/-
  C11: the hypotheses of `compile_correct_gen` as a decidable predicate on programs
  (`Fragment.ok`), with the proof that it implies them.
-/
import FontcProofs.FeaCorrectGen

namespace Fontc.FeaCompile
open Cmp
set_option linter.unusedSimpArgs false

namespace Fragment

def blockFlags : List BStmt → List Flag
  | .flag f :: rest => f :: blockFlags rest
  | _ => []

def blockRest : List BStmt → List BStmt
  | .flag _ :: rest => blockRest rest
  | l => l

def rulesOf : List BStmt → Option (List Rule)
  | [] => some []
  | .rule r :: rest => (rulesOf rest).map (r :: ·)
  | .flag _ :: _ => none

theorem block_split (body : List BStmt) : body = (blockFlags body).map BStmt.flag ++ blockRest body := by
  induction body with
  | nil => rfl
  | cons st body ih =>
    cases st with
    | flag f => simp only [blockFlags, blockRest, List.map_cons, List.cons_append]; rw [← ih]
    | rule r => rfl

theorem rulesOf_eq (l : List BStmt) (rs : List Rule) (h : rulesOf l = some rs) : l = rs.map BStmt.rule := by
  induction l generalizing rs with
  | nil => simp [rulesOf] at h; subst h; rfl
  | cons st l ih =>
    cases st with
    | flag f => simp [rulesOf] at h
    | rule r =>
      simp only [rulesOf, Option.map_eq_some_iff] at h
      obtain ⟨rs', h1, rfl⟩ := h
      simp [ih rs' h1]

def flagOkB (U : List (List Glyph)) (f : Flag) : Bool :=
  (match f.attach with | none => true | some c => sortedSet c == c && U.contains (sortedSet c)) &&
  (match f.filter with | none => true | some c => sortedSet c == c)

theorem flagOk_of_B (U : List (List Glyph)) (f : Flag) (h : flagOkB U f = true) :
    FlagNorm f ∧ ∀ c, f.attach = some c → sortedSet c ∈ U := by
  simp only [flagOkB, Bool.and_eq_true] at h
  obtain ⟨h1, h2⟩ := h
  refine ⟨⟨?_, ?_⟩, ?_⟩
  · intro c hc; rw [hc] at h1; simp at h1; exact h1.1
  · intro c hc; rw [hc] at h2; simpa using h2
  · intro c hc; rw [hc] at h1; simp at h1; exact h1.2

def blockOkB (U : List (List Glyph)) (body : List BStmt) : Bool :=
  match rulesOf (blockRest body) with
  | none => false
  | some rs => !rs.isEmpty && (blockFlags body).all (flagOkB U) && rs.all (fun r => r.kind == headKind rs)

theorem blockOk_of_B (U : List (List Glyph)) (body : List BStmt) (h : blockOkB U body = true) : BlockOk U body := by
  simp only [blockOkB] at h
  cases hq : rulesOf (blockRest body) with
  | none => rw [hq] at h; cases h
  | some rs =>
    rw [hq] at h
    simp only [Bool.and_eq_true, Bool.not_eq_true', List.all_eq_true, beq_iff_eq] at h
    obtain ⟨⟨h1, h2⟩, h3⟩ := h
    refine ⟨blockFlags body, rs, headKind rs, ?_, fun f hf => flagOk_of_B U f (h2 f hf), h3, ?_⟩
    · have := block_split body
      rw [rulesOf_eq _ rs hq] at this
      exact this
    · intro e; rw [e] at h1; simp at h1

def stmtOkB (U : List (List Glyph)) (w : Src.Walk) (used : List String) : Stmt → Bool
  | .flag f => flagOkB U f
  | .rule r =>
    match w.cur with
    | none => true
    | some (_, f, rules) => !(decide (f = w.flag)) || !(Wf.mixes (headKind rules) r.kind)
  | .ref n => used.contains n
  | .lookup n body => !used.contains n && blockOkB U body
  | .script t => !(decide (w.reg = .script t))
  | .language _ _ => true

theorem stmtOk_of_B (U : List (List Glyph)) (w : Src.Walk) (used : List String) (st : Stmt)
    (h : stmtOkB U w used st = true) : StmtOk U w used st := by
  cases st with
  | flag f => exact flagOk_of_B U f h
  | rule r =>
    simp only [StmtOk]
    intro reg f rules hw hf
    simp only [stmtOkB, hw, Bool.or_eq_true, Bool.not_eq_true', decide_eq_false_iff_not] at h
    rcases h with h | h
    · exact absurd hf h
    · exact h
  | ref n => simpa [stmtOkB, StmtOk] using h
  | lookup n body =>
    simp only [stmtOkB, Bool.and_eq_true, Bool.not_eq_true', List.contains_eq_mem, decide_eq_false_iff_not] at h
    exact ⟨h.1, blockOk_of_B U body h.2⟩
  | script t => simpa [stmtOkB, StmtOk] using h
  | language l ex => trivial

def bodyOkB (U : List (List Glyph)) : Src.Walk → List String → List Stmt → Bool
  | _, _, [] => true
  | w, used, st :: rest => stmtOkB U w used st && bodyOkB U (Src.walkStmt w st) (namesAfter used [st]) rest

theorem bodyOk_of_B (U : List (List Glyph)) (body : List Stmt) :
    ∀ (w : Src.Walk) (used : List String), bodyOkB U w used body = true → BodyOk U w used body := by
  induction body with
  | nil => intro _ _ _; trivial
  | cons st body ih =>
    intro w used h
    simp only [bodyOkB, Bool.and_eq_true] at h
    exact ⟨stmtOk_of_B U w used st h.1, ih _ _ h.2⟩

def noLangDfltB (body : List Stmt) : Bool :=
  body.all fun | .language l _ => l != "dflt" | _ => true

theorem noLangDflt_of_B (body : List Stmt) (h : noLangDfltB body = true) : NoLangDflt body := by
  intro l ex hm
  simp only [noLangDfltB, List.all_eq_true] at h
  have := h _ hm
  simpa using this

def topsOkB (U : List (List Glyph)) (dls : List Sys) : List String → List Top → Bool
  | _, [] => true
  | _, .langsys .. :: _ => false
  | used, .lookup n body :: rest => !used.contains n && blockOkB U body && topsOkB U dls (n :: used) rest
  | used, .feature _ body :: rest =>
    bodyOkB U {} used body && sysOk dls none [] (stmtSys "DFLT" body) && noLangDfltB body &&
    topsOkB U dls (namesAfter used body) rest

theorem topsOk_of_B (U : List (List Glyph)) (dls : List Sys) (rest : List Top) :
    ∀ used, topsOkB U dls used rest = true → TopsOk U dls used rest := by
  induction rest with
  | nil => intro _ _; trivial
  | cons t rest ih =>
    intro used h
    cases t with
    | langsys a b => simp [topsOkB] at h
    | lookup n body =>
      simp only [topsOkB, Bool.and_eq_true, Bool.not_eq_true', List.contains_eq_mem, decide_eq_false_iff_not] at h
      exact ⟨h.1.1, blockOk_of_B U body h.1.2, ih _ h.2⟩
    | feature tag body =>
      simp only [topsOkB, Bool.and_eq_true] at h
      exact ⟨bodyOk_of_B U body _ _ h.1.1.1, h.1.1.2, noLangDflt_of_B body h.1.2, ih _ h.2⟩

/-! ### the whole program -/

def isLangsys : Top → Bool
  | .langsys .. => true
  | _ => false

def leadLangsys : List Top → List (Tag × Tag)
  | .langsys s l :: rest => (s, l) :: leadLangsys rest
  | _ => []

theorem tops_split (tops : List Top) : tops = lsTops (leadLangsys tops) ++ tops.dropWhile isLangsys := by
  induction tops with
  | nil => rfl
  | cons t tops ih =>
    cases t with
    | langsys s l =>
      simp only [leadLangsys, lsTops, List.map_cons, List.cons_append, List.dropWhile_cons, isLangsys, ↓reduceIte]
      rw [← lsTops, ← ih]
    | lookup n b => rfl
    | feature tag b => rfl

/-- the attachment classes named by the `lookupflag` statements of the program -/
def attachClasses (p : Program) : List (List Glyph) :=
  (((Wf.flagsOf p.tops).filterMap (·.attach)).map sortedSet).eraseDups

def disjointB (U : List (List Glyph)) : Bool :=
  U.all fun c => U.all fun c' => c == c' || c.all fun g => !c'.contains g

/-- the lookup-flag-independent part of `LangOkFor`, as a computation -/
def langOkB (es : List Src.Entry) (script lang : Tag) : Bool :=
  lang == "dflt" ||
  [false, true].all fun isPos =>
    es.any (fun e => e.lookup.isPos == isPos && e.regs.any fun r => r.2.1 == script && r.2.2 == lang) ||
    es.all (fun e => !(e.lookup.isPos == isPos) || !(e.regs.any fun r => r.2.1 == script && r.2.2 == "dflt"))

theorem langOk_of_B (es : List Src.Entry) (script lang : Tag) (h : langOkB es script lang = true) (isPos : Bool) :
    LangOkFor es isPos script lang := by
  simp only [langOkB, Bool.or_eq_true, beq_iff_eq] at h
  rcases h with h | h
  · exact Or.inl h
  · simp only [List.all_cons, List.all_nil, Bool.and_true, Bool.and_eq_true, Bool.or_eq_true] at h
    have hb : ∀ b : Bool, (es.any (fun e => e.lookup.isPos == b && e.regs.any fun r => r.2.1 == script && r.2.2 == lang) = true ∨
        es.all (fun e => !(e.lookup.isPos == b) || !(e.regs.any fun r => r.2.1 == script && r.2.2 == "dflt")) = true) →
        LangOkFor es b script lang := by
      intro b hh
      rcases hh with hh | hh
      · simp only [List.any_eq_true, Bool.and_eq_true, beq_iff_eq] at hh
        obtain ⟨e, he, hp, ⟨tag, sc, lg⟩, hr, rfl, rfl⟩ := hh
        exact Or.inr (Or.inl ⟨e, he, hp, tag, hr⟩)
      · refine Or.inr (Or.inr ?_)
        intro e he hp tag hk
        simp only [List.all_eq_true, Bool.or_eq_true, Bool.not_eq_true', beq_eq_false_iff_ne, ne_eq] at hh
        rcases hh e he with h1 | h1
        · exact h1 hp
        · have : (e.regs.any fun r => r.2.1 == script && r.2.2 == "dflt") = true :=
            List.any_eq_true.mpr ⟨_, hk, by simp⟩
          rw [h1] at this; cases this
    cases isPos
    · exact hb false h.1
    · exact hb true h.2

/-- **The fragment of the feature-file language for which `compile_correct` is proved**, as a
    computation on programs. -/
def ok (p : Program) : Bool :=
  let U := attachClasses p
  topsOkB U (Src.langsysOf p.tops) [] (p.tops.dropWhile isLangsys) &&
  (Src.entries p).all (fun e => runOkB e.lookup.rules) &&
  decide (p.gdef.map (·.1)).Nodup &&
  U.all (fun c => decide c.Nodup) && disjointB U

end Fragment

/-- `compile_correct_gen` with its hypotheses in decidable form -/
theorem compile_correct_of_fragment (fx : Fixes) (p : Program) (hok : Fragment.ok p = true)
    (script lang : Tag) (hlang : Fragment.langOkB (Src.entries p) script lang = true)
    (feats : List Tag) (alt : Nat) (str : List Glyph) :
    shape (compileWith fx p) script lang feats alt str = interp p script lang feats alt str := by
  simp only [Fragment.ok, Bool.and_eq_true, List.all_eq_true, decide_eq_true_eq] at hok
  obtain ⟨⟨⟨⟨h1, h2⟩, h3⟩, h4⟩, h5⟩ := hok
  refine compile_correct_gen fx p (Fragment.leadLangsys p.tops) (p.tops.dropWhile Fragment.isLangsys) (Fragment.attachClasses p)
    (Fragment.tops_split p.tops) (Fragment.topsOk_of_B _ _ _ [] h1) (fun e he => runOk_of_runOkB _ (h2 e he)) h3 h4 ?_
    script lang (Fragment.langOk_of_B _ script lang hlang) feats alt str
  intro c hc c' hc' hne g hg hg'
  simp only [Fragment.disjointB, List.all_eq_true, Bool.or_eq_true, beq_iff_eq, Bool.not_eq_true',
    List.contains_eq_mem, decide_eq_false_iff_not] at h5
  rcases h5 c hc c' hc' with h | h
  · exact hne h
  · exact h g hg hg'

end Fontc.FeaCompile
