/-
  Helper lemmas for C17: the binary32 arithmetic of `x_avg_char_width`
  (`(total as f32 / count as f32).ot_round()`) agrees with exact arithmetic when total < 2^22.
-/
import FontcModel.Limits
import Mathlib.Tactic.Linarith
import Mathlib.Tactic.FieldSimp
import Mathlib.Tactic.Ring
import Mathlib.Algebra.Order.Field.Basic
import Mathlib.Algebra.Order.Field.Rat

namespace Fontc.Limits

/-! ### roundTiesEven -/

theorem rte_cases (z : Rat) :
    (roundTiesEven z = z.floor ∧ z - z.floor ≤ 1/2) ∨ (roundTiesEven z = z.floor + 1 ∧ 1/2 ≤ z - z.floor) := by
  unfold roundTiesEven
  simp only
  split_ifs with h1 h2 h3
  · left; exact ⟨rfl, le_of_lt h1⟩
  · right; exact ⟨rfl, le_of_lt h2⟩
  · left; exact ⟨rfl, by linarith⟩
  · right; exact ⟨rfl, by linarith⟩

theorem rte_le_int (z : Rat) (m : Int) (h : z ≤ m) : roundTiesEven z ≤ m := by
  have hf : z.floor ≤ m := by
    have := Rat.floor_le z
    exact_mod_cast (le_trans this h)
  rcases rte_cases z with ⟨h1, _⟩ | ⟨h1, h2⟩
  · rw [h1]; exact hf
  · rw [h1]
    by_contra hc
    have hm : z.floor = m := by omega
    have : (z.floor : Rat) = (m : Rat) := by exact_mod_cast hm
    linarith

theorem int_le_rte (z : Rat) (m : Int) (h : (m : Rat) ≤ z) : m ≤ roundTiesEven z := by
  have hf : m ≤ z.floor := Rat.le_floor_iff.2 h
  rcases rte_cases z with ⟨h1, _⟩ | ⟨h1, _⟩ <;> rw [h1] <;> omega

theorem rte_int (m : Int) : roundTiesEven (m : Rat) = m :=
  le_antisymm (rte_le_int _ _ le_rfl) (int_le_rte _ _ le_rfl)

theorem rte_err (z : Rat) : (roundTiesEven z : Rat) ≤ z + 1/2 ∧ z - 1/2 ≤ (roundTiesEven z : Rat) := by
  have h1 := Rat.floor_le z
  have h2 := Rat.lt_floor_add_one z
  push_cast at h2
  rcases rte_cases z with ⟨e, h⟩ | ⟨e, h⟩
  · rw [e]; constructor <;> linarith
  · rw [e]; push_cast; constructor <;> linarith

/-! ### rounding onto a grid -/

theorem grid_err (g x : Rat) (hg : 0 < g) : roundToGrid g x ≤ x + g/2 ∧ x - g/2 ≤ roundToGrid g x := by
  unfold roundToGrid
  obtain ⟨h1, h2⟩ := rte_err (x / g)
  have hx : g * (x / g) = x := by field_simp
  constructor
  · have := mul_le_mul_of_nonneg_left h1 (le_of_lt hg)
    rw [mul_add, hx] at this; linarith
  · have := mul_le_mul_of_nonneg_left h2 (le_of_lt hg)
    rw [mul_sub, hx] at this; linarith

theorem grid_le_mul (g x : Rat) (hg : 0 < g) (n : Int) (h : x ≤ n * g) : roundToGrid g x ≤ n * g := by
  unfold roundToGrid
  have : x / g ≤ n := (div_le_iff₀ hg).2 h
  have hr : ((roundTiesEven (x / g) : Int) : Rat) ≤ (n : Rat) := by exact_mod_cast rte_le_int _ _ this
  have := mul_le_mul_of_nonneg_left hr (le_of_lt hg)
  linarith

theorem mul_le_grid (g x : Rat) (hg : 0 < g) (n : Int) (h : n * g ≤ x) : n * g ≤ roundToGrid g x := by
  unfold roundToGrid
  have : (n : Rat) ≤ x / g := (le_div_iff₀ hg).2 h
  have hr : (n : Rat) ≤ ((roundTiesEven (x / g) : Int) : Rat) := by exact_mod_cast int_le_rte _ _ this
  have := mul_le_mul_of_nonneg_left hr (le_of_lt hg)
  linarith

theorem grid_fix (g : Rat) (hg : 0 < g) (n : Int) : roundToGrid g (n * g) = n * g := by
  unfold roundToGrid
  have : (n : Rat) * g / g = n := by field_simp
  rw [this, rte_int]; ring

/-! ### ulp / f32 in the binades below 2^23 -/

theorem ulp32_eq (x : Rat) (h : Nat.log2 x.floor.toNat < 23) :
    ulp32 x = 1 / ((2 ^ (23 - Nat.log2 x.floor.toNat) : Nat) : Rat) := by
  unfold ulp32
  simp only
  rw [if_neg (by omega)]

theorem pow_split (k : Nat) (hk : 1 ≤ k) : (2 ^ k : Nat) = 2 * 2 ^ (k - 1) := by
  obtain ⟨j, rfl⟩ : ∃ j, k = j + 1 := ⟨k - 1, by omega⟩
  simp [Nat.pow_succ, Nat.mul_comm]

theorem floor_natCast' (n : Nat) : ((n : Rat)).floor = (n : Int) := by
  have : ((n : Rat)) = ((n : Int) : Rat) := by push_cast; rfl
  rw [this, Rat.floor_intCast]

/-- integers below 2^23 are binary32 numbers -/
theorem f32_nat (n : Nat) (h1 : 1 ≤ n) (h2 : n < 2 ^ 23) : f32 (n : Rat) = n := by
  have hlog : Nat.log2 n < 23 := (Nat.log2_lt (by omega)).2 h2
  unfold f32
  have hfl : ((n : Rat)).floor.toNat = n := by rw [floor_natCast']; simp
  rw [ulp32_eq _ (by rw [hfl]; exact hlog), hfl]
  set P : Nat := 2 ^ (23 - Nat.log2 n) with hP
  have hPpos : (0 : Rat) < (P : Rat) := by
    have : 0 < P := Nat.pow_pos (by omega)
    exact_mod_cast this
  have hn : (n : Rat) = (((n * P : Nat) : Int) : Rat) * (1 / (P : Rat)) := by
    push_cast; field_simp
  rw [hn, grid_fix _ (by positivity)]

/-- `(T as f32 / C as f32).ot_round()` is exact for T < 2^22 -/
theorem avgOfF32_exact (C T : Nat) (hC : 1 ≤ C) (hCT : C ≤ T) (hT : T < 2 ^ 22) :
    avgOfF32 C T = satI16 (otRound ((T : Rat) / (C : Rat))) := by
  have hC0 : C ≠ 0 := by omega
  have hT0 : T ≠ 0 := by omega
  have hCpos : (0 : Rat) < (C : Rat) := by exact_mod_cast (show 0 < C by omega)
  unfold avgOfF32
  rw [if_neg hC0, if_neg hT0]
  rw [f32_nat T (by omega) (by omega), f32_nat C hC (by omega)]
  -- the exact quotient
  set q0 : Rat := (T : Rat) / (C : Rat) with hq0
  have hCq : (C : Rat) * q0 = T := by rw [hq0]; field_simp
  have hq1 : 1 ≤ q0 := by
    rw [hq0, le_div_iff₀ hCpos]; simp; exact_mod_cast hCT
  have hq2 : q0 ≤ T := by
    rw [hq0, div_le_iff₀ hCpos]
    have : (1 : Rat) ≤ C := by exact_mod_cast hC
    have hT' : (0 : Rat) ≤ T := by positivity
    nlinarith
  have hTr : (T : Rat) < 2 ^ 22 := by exact_mod_cast hT
  -- m = otRound q0
  unfold otRound
  set m : Int := (q0 + 1/2).floor with hm
  have hm1 : (m : Rat) ≤ q0 + 1/2 := Rat.floor_le _
  have hm2 : q0 + 1/2 < m + 1 := by have := Rat.lt_floor_add_one (q0 + 1/2); push_cast at this; exact this
  have hmge : 1 ≤ m := Rat.le_floor_iff.2 (by push_cast; linarith)
  have hmle : m ≤ 2 ^ 22 := by
    have : (m : Rat) < 2 ^ 22 + 1 := by linarith
    have : m < 2 ^ 22 + 1 := by exact_mod_cast this
    omega
  -- floor of q0 and its binade
  set fq : Int := q0.floor with hfq
  have hfq1 : (fq : Rat) ≤ q0 := Rat.floor_le _
  have hfq2 : q0 < fq + 1 := by have := Rat.lt_floor_add_one q0; push_cast at this; exact this
  have hfqge : 1 ≤ fq := Rat.le_floor_iff.2 (by push_cast; exact hq1)
  set a : Nat := fq.toNat with ha
  have haq : (a : Int) = fq := Int.toNat_of_nonneg (by omega)
  have ha1 : 1 ≤ a := by omega
  have halt : a < 2 ^ 22 := by
    have : (fq : Rat) < 2 ^ 22 := by linarith
    have : fq < 2 ^ 22 := by exact_mod_cast this
    omega
  set e : Nat := Nat.log2 a with he
  have he22 : e < 22 := (Nat.log2_lt (by omega)).2 halt
  have hpe : 2 ^ e ≤ a := Nat.log2_self_le (by omega)
  set k : Nat := 23 - e with hk
  set P : Nat := 2 ^ k with hP
  have hPpos : (0 : Rat) < (P : Rat) := by
    have : 0 < P := Nat.pow_pos (by omega)
    exact_mod_cast this
  set u : Rat := 1 / (P : Rat) with hu
  have hupos : 0 < u := by positivity
  have hPu : (P : Rat) * u = 1 := by rw [hu]; field_simp
  have hf32q : f32 q0 = roundToGrid u q0 := by
    unfold f32
    rw [ulp32_eq q0 (by rw [← hfq, ← ha, ← he]; omega)]
  rw [hf32q]
  set Q : Rat := roundToGrid u q0 with hQ
  -- P = 2 * P2
  set P2 : Nat := 2 ^ (k - 1) with hP2
  have hPP2 : P = 2 * P2 := pow_split k (by omega)
  have hP2pos : (0 : Rat) < (P2 : Rat) := by
    have : 0 < P2 := Nat.pow_pos (by omega)
    exact_mod_cast this
  have hPP2r : (P : Rat) = 2 * (P2 : Rat) := by exact_mod_cast hPP2
  have hhalf : (P2 : Rat) * u = 1/2 := by rw [hu, hPP2r]; field_simp
  -- u ≤ q0 / 2^23
  have hu_le : u * 2 ^ 23 ≤ q0 := by
    have h223 : P * 2 ^ e = 2 ^ 23 := by
      rw [hP, hk, ← Nat.pow_add]; congr 1; omega
    have h223r : (P : Rat) * (2 ^ e : Nat) = 2 ^ 23 := by exact_mod_cast h223
    have hper : ((2 ^ e : Nat) : Rat) ≤ q0 := by
      have : ((2 ^ e : Nat) : Rat) ≤ (a : Rat) := by exact_mod_cast hpe
      have haq' : (a : Rat) = (fq : Rat) := by exact_mod_cast haq
      linarith
    have : u * 2 ^ 23 = ((2 ^ e : Nat) : Rat) := by
      rw [← h223r, hu]; field_simp
    linarith
  -- (a) Q ≥ 1 and Q ≥ m - 1/2
  have hQ1 : 1 ≤ Q := by
    have := mul_le_grid u q0 hupos (P : Int) (by push_cast; rw [hPu]; exact hq1)
    push_cast at this; rw [hPu] at this; exact this
  have hQlo : (m : Rat) - 1/2 ≤ Q := by
    have hn : (((2 * m - 1) * (P2 : Int) : Int) : Rat) * u = (m : Rat) - 1/2 := by
      push_cast
      have : (2 * (m : Rat) - 1) * (P2 : Rat) * u = (2 * (m : Rat) - 1) * ((P2 : Rat) * u) := by ring
      rw [this, hhalf]; ring
    have := mul_le_grid u q0 hupos ((2 * m - 1) * (P2 : Int)) (by rw [hn]; linarith)
    rw [hn] at this; exact this
  -- (b) Q < m + 1/2
  have hQhi : Q < (m : Rat) + 1/2 := by
    by_contra hcon
    have hcon : (m : Rat) + 1/2 ≤ Q := not_lt.1 hcon
    have herr := (grid_err u q0 hupos).1
    -- integer gap
    have hlt : 2 * (T : Rat) < (2 * (m : Rat) + 1) * C := by
      have : q0 < (m : Rat) + 1/2 := by linarith
      have h2 : (C : Rat) * q0 < (C : Rat) * ((m : Rat) + 1/2) := mul_lt_mul_of_pos_left this hCpos
      rw [hCq] at h2; linarith
    have hlti : 2 * (T : Int) < (2 * m + 1) * (C : Int) := by exact_mod_cast hlt
    have hgap : 2 * (T : Int) + 1 ≤ (2 * m + 1) * (C : Int) := by omega
    have hgapr : 2 * (T : Rat) + 1 ≤ (2 * (m : Rat) + 1) * C := by exact_mod_cast hgap
    -- (m + 1/2 - q0) * 2C ≥ 1 but ≤ u * C
    have h1 : (m : Rat) + 1/2 - q0 ≤ u / 2 := by linarith
    have h2 : ((m : Rat) + 1/2 - q0) * (2 * (C : Rat)) ≤ u / 2 * (2 * (C : Rat)) :=
      mul_le_mul_of_nonneg_right h1 (by positivity)
    have h3 : ((m : Rat) + 1/2 - q0) * (2 * (C : Rat)) = (2 * (m : Rat) + 1) * C - 2 * T := by
      have : q0 * (C : Rat) = T := by rw [mul_comm]; exact hCq
      ring_nf; ring_nf at this; linarith
    have h4 : (1 : Rat) ≤ u * C := by linarith
    have h5 : u * (C : Rat) * 2 ^ 23 ≤ T := by
      have : u * (C : Rat) * 2 ^ 23 = (C : Rat) * (u * 2 ^ 23) := by ring
      rw [this, ← hCq]
      exact mul_le_mul_of_nonneg_left hu_le (le_of_lt hCpos)
    have h6 : (2 : Rat) ^ 23 ≤ u * (C : Rat) * 2 ^ 23 := by
      have := mul_le_mul_of_nonneg_right h4 (show (0 : Rat) ≤ 2 ^ 23 by positivity)
      linarith
    have : (2 : Rat) ^ 23 ≤ 2 ^ 22 := by linarith
    norm_num at this
  rw [if_neg (not_lt.2 hQ1)]
  -- second rounding
  set x : Rat := Q + 1/2 with hx
  have hx1 : (m : Rat) ≤ x := by linarith
  have hx2 : x < (m : Rat) + 1 := by linarith
  have hfx : x.floor = m := by
    apply le_antisymm
    · have : x.floor < m + 1 := Rat.floor_lt_iff.2 (by push_cast; exact hx2)
      omega
    · exact Rat.le_floor_iff.2 hx1
  set a' : Nat := m.toNat with ha'
  have ha'm : (a' : Int) = m := Int.toNat_of_nonneg (by omega)
  have ha'1 : 1 ≤ a' := by omega
  have ha'lt : a' < 2 ^ 23 := by
    have : m < 2 ^ 23 := by omega
    omega
  set e' : Nat := Nat.log2 a' with he'
  have he'23 : e' < 23 := (Nat.log2_lt (by omega)).2 ha'lt
  have hpe' : 2 ^ e' ≤ a' := Nat.log2_self_le (by omega)
  set k' : Nat := 23 - e' with hk'
  set P' : Nat := 2 ^ k' with hP'
  have hP'pos : (0 : Rat) < (P' : Rat) := by
    have : 0 < P' := Nat.pow_pos (by omega)
    exact_mod_cast this
  set u' : Rat := 1 / (P' : Rat) with hu'
  have hu'pos : 0 < u' := by positivity
  have hP'u' : (P' : Rat) * u' = 1 := by rw [hu']; field_simp
  have hf32x : f32 x = roundToGrid u' x := by
    unfold f32
    rw [ulp32_eq x (by rw [hfx, ← ha', ← he']; exact he'23), hfx]
  rw [hf32x]
  set S : Rat := roundToGrid u' x with hS
  have hS1 : (m : Rat) ≤ S := by
    have hn : (((m * (P' : Int)) : Int) : Rat) * u' = m := by
      push_cast; rw [mul_assoc, hP'u']; ring
    have := mul_le_grid u' x hu'pos (m * (P' : Int)) (by rw [hn]; exact hx1)
    rw [hn] at this; exact this
  have hS2 : S < (m : Rat) + 1 := by
    by_cases hee : e' ≤ e
    · -- x is on the finer grid: S = x
      have hkk : k ≤ k' := by omega
      set J : Nat := 2 ^ (k' - k) with hJ
      have hPJ : P' = P * J := by rw [hP', hP, hJ, ← Nat.pow_add]; congr 1; omega
      have hPJr : (P' : Rat) = (P : Rat) * (J : Rat) := by exact_mod_cast hPJ
      have hJpos : (0 : Rat) < (J : Rat) := by
        have : 0 < J := Nat.pow_pos (by omega)
        exact_mod_cast this
      have huu' : u = (J : Rat) * u' := by rw [hu, hu', hPJr]; field_simp
      have hxm : x = (((roundTiesEven (q0 / u) + (P2 : Int)) * (J : Int) : Int) : Rat) * u' := by
        rw [hx, hQ]; unfold roundToGrid
        push_cast
        have : (1 : Rat) / 2 = (P2 : Rat) * u := hhalf.symm
        rw [this, huu']; ring
      have : S = x := by rw [hS, hxm, grid_fix _ hu'pos]
      rw [this]; exact hx2
    · -- the sum crossed a power of two: q0 < m, so Q ≤ m and x ≤ m + 1/2
      have hlt : a < a' := by
        have : a < 2 ^ e' := (Nat.log2_lt (by omega)).1 (by rw [← he]; omega)
        omega
      have hfm : fq + 1 ≤ m := by omega
      have hq0m : q0 ≤ m := by
        have : ((fq + 1 : Int) : Rat) ≤ (m : Rat) := by exact_mod_cast hfm
        push_cast at this; linarith
      have hQm : Q ≤ m := by
        have hn : (((m * (P : Int)) : Int) : Rat) * u = m := by
          push_cast; rw [mul_assoc, hPu]; ring
        have := grid_le_mul u q0 hupos (m * (P : Int)) (by rw [hn]; exact hq0m)
        rw [hn] at this; exact this
      have hk'1 : 1 ≤ k' := by omega
      set P2' : Nat := 2 ^ (k' - 1) with hP2'
      have hPP2' : P' = 2 * P2' := pow_split k' hk'1
      have hPP2r' : (P' : Rat) = 2 * (P2' : Rat) := by exact_mod_cast hPP2'
      have hP2'pos : (0 : Rat) < (P2' : Rat) := by
        have : 0 < P2' := Nat.pow_pos (by omega)
        exact_mod_cast this
      have hhalf' : (P2' : Rat) * u' = 1/2 := by rw [hu', hPP2r']; field_simp
      have hn : (((2 * m + 1) * (P2' : Int) : Int) : Rat) * u' = (m : Rat) + 1/2 := by
        push_cast
        have : (2 * (m : Rat) + 1) * (P2' : Rat) * u' = (2 * (m : Rat) + 1) * ((P2' : Rat) * u') := by ring
        rw [this, hhalf']; ring
      have := grid_le_mul u' x hu'pos ((2 * m + 1) * (P2' : Int)) (by rw [hn]; linarith)
      rw [hn] at this
      linarith
  have hfS : S.floor = m := by
    apply le_antisymm
    · have : S.floor < m + 1 := Rat.floor_lt_iff.2 (by push_cast; exact hS2)
      omega
    · exact Rat.le_floor_iff.2 hS1
  rw [hfS]

/-- the integer formula of the proposed fix is the OpenType rounding of the exact mean, for all inputs -/
theorem otRound_div_eq (C T : Nat) (hC : 1 ≤ C) :
    otRound ((T : Rat) / (C : Rat)) = (((2 * T + C) / (2 * C) : Nat) : Int) := by
  have hCpos : (0 : Rat) < (C : Rat) := by exact_mod_cast (show 0 < C by omega)
  set m : Nat := (2 * T + C) / (2 * C) with hm
  have h2C : 0 < 2 * C := by omega
  have h1 : m * (2 * C) ≤ 2 * T + C := Nat.div_mul_le_self _ _
  have h2 : 2 * T + C < (m + 1) * (2 * C) := by
    have := Nat.lt_div_mul_add (a := 2 * T + C) h2C
    rw [← hm] at this
    calc 2 * T + C < m * (2 * C) + 2 * C := this
      _ = (m + 1) * (2 * C) := by ring
  have h1r : (m : Rat) * (2 * (C : Rat)) ≤ 2 * (T : Rat) + C := by exact_mod_cast h1
  have h2r : 2 * (T : Rat) + C < ((m : Rat) + 1) * (2 * (C : Rat)) := by exact_mod_cast h2
  have hq : (T : Rat) / (C : Rat) + 1 / 2 = (2 * (T : Rat) + C) / (2 * (C : Rat)) := by field_simp
  unfold otRound
  rw [hq]
  have h2Cr : (0 : Rat) < 2 * (C : Rat) := by positivity
  apply le_antisymm
  · have : ((2 * (T : Rat) + C) / (2 * (C : Rat))).floor < (m : Int) + 1 := by
      apply Rat.floor_lt_iff.2
      push_cast
      rw [div_lt_iff₀ h2Cr]; exact h2r
    omega
  · apply Rat.le_floor_iff.2
    push_cast
    rw [le_div_iff₀ h2Cr]; exact h1r

end Fontc.Limits
