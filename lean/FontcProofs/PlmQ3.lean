/-
  C08 helper lemmas, part 8: error bound of the quantised segment map at every coordinate.
-/
import FontcProofs.PlmQ2

namespace Fontc.PlmProofs
open Fontc Fontc.Plm Fontc.Avar

/-- inside the records of a map with strictly increasing from-coordinates the spec-side evaluator and
    `PiecewiseLinearMap::map` coincide -/
theorem avarGo_eq_mapGo (x : Rat) : ∀ (rest : List Pt) (p : Pt), StrictFrom (p :: rest) → p.1 < x →
    (∃ e ∈ rest, x ≤ e.1) → avarGo x p rest = mapGo x p rest := by
  intro rest
  induction rest with
  | nil => intro p _ _ he; obtain ⟨e, he, _⟩ := he; simp at he
  | cons q rest ih =>
    intro p hs hp he
    have hpq : p.1 < q.1 := (List.pairwise_cons.mp hs).1 q (by simp)
    simp only [avarGo, mapGo]
    by_cases c : q.1 < x
    · simp only [c, if_true]
      apply ih q (List.pairwise_cons.mp hs).2 c
      obtain ⟨e, he, hxe⟩ := he
      rcases List.mem_cons.mp he with rfl | he
      · exact absurd c (not_lt.mpr hxe)
      · exact ⟨e, he, hxe⟩
    · simp only [c, if_false]
      by_cases c2 : q.1 = x
      · simp only [c2, beq_self_eq_true, if_true]
        have hne : x - p.1 ≠ 0 := by intro h0; linarith
        rw [← c2] at hne ⊢
        field_simp; ring
      · have : (q.1 == x) = false := by simpa using c2
        simp only [this, Bool.false_eq_true, if_false]
        have := lerp_eq_interp p q x hpq
        rw [this]; rfl

theorem avarApply_eq_map (l : List Pt) (hs : StrictFrom l) (x : Rat) (hlo : ∃ f, l.head? = some f ∧ f.1 ≤ x)
    (hhi : ∃ e ∈ l, x ≤ e.1) : avarApply l x = Plm.map ⟨l⟩ x := by
  cases l with
  | nil => obtain ⟨e, he, _⟩ := hhi; simp at he
  | cons p rest =>
    obtain ⟨f, hf, hfx⟩ := hlo
    have : p = f := by simpa using hf
    subst this
    simp only [avarApply, Plm.map]
    by_cases c : p.1 < x
    · simp only [c, if_true]
      apply avarGo_eq_mapGo x rest p hs c
      obtain ⟨e, he, hxe⟩ := hhi
      rcases List.mem_cons.mp he with rfl | he
      · exact absurd c (not_lt.mpr hxe)
      · exact ⟨e, he, hxe⟩
    · have : p.1 = x := le_antisymm hfx (not_lt.mp c)
      simp [this]

/-- value of the evaluator on a strictly sorted map: a vertex value or the interpolation on a segment -/
theorem avarApply_cases (l : List Pt) (hs : StrictFrom l) (x : Rat) (f z : Pt) (hf : l.head? = some f)
    (hz : l.getLast? = some z) (h1 : f.1 ≤ x) (h2 : x ≤ z.1) :
    (∃ n ∈ l, n.1 = x ∧ avarApply l x = n.2) ∨
    (∃ p q, Consec p q l ∧ p.1 ≤ x ∧ x ≤ q.1 ∧ avarApply l x = interp p q x) := by
  have hzmem : z ∈ l := by
    rw [List.getLast?_eq_some_iff] at hz
    obtain ⟨ys, rfl⟩ := hz; simp
  rw [avarApply_eq_map l hs x ⟨f, hf, h1⟩ ⟨z, hzmem, h2⟩]
  rcases exists_segment x l f z hf hz h1 h2 with ⟨n, hn, e⟩ | ⟨p, q, hc, hp, hq⟩
  · left; exact ⟨n, hn, e, by rw [← e]; exact map_vertex l hs n hn⟩
  · right; exact ⟨p, q, hc, hp, hq, map_consec l hs p q hc x hp hq⟩

theorem consec_map (g : Pt → Pt) (l : List Pt) (P Q : Pt) (h : Consec P Q (l.map g)) :
    ∃ p q, Consec p q l ∧ P = g p ∧ Q = g q := by
  obtain ⟨a, b, hab⟩ := h
  rw [List.map_eq_append_iff] at hab
  obtain ⟨l1, l2, rfl, h1, h2⟩ := hab
  rw [List.map_eq_cons_iff] at h2
  obtain ⟨p, l3, rfl, hp, h3⟩ := h2
  rw [List.map_eq_cons_iff] at h3
  obtain ⟨q, l4, rfl, hq, _⟩ := h3
  exact ⟨p, q, ⟨l1, l4, rfl⟩, hp.symm, hq.symm⟩

theorem ratAbs_bounds (x c : Rat) (h : ratAbs x ≤ c) : -c ≤ x ∧ x ≤ c := by
  unfold ratAbs at h; split at h <;> constructor <;> linarith

theorem ratAbs_nonneg' (x : Rat) : 0 ≤ ratAbs x := by unfold ratAbs; split <;> linarith

theorem head_le (l : List Pt) (hs : StrictFrom l) (f p : Pt) (hf : l.head? = some f) (hp : p ∈ l) : f.1 ≤ p.1 := by
  cases l with
  | nil => simp at hp
  | cons a t =>
    have : a = f := by simpa using hf
    subst this
    rcases List.mem_cons.mp hp with rfl | hp
    · exact le_refl _
    · exact le_of_lt ((List.pairwise_cons.mp hs).1 p hp)

theorem avarApply_consec (l : List Pt) (hs : StrictFrom l) (p q : Pt) (hc : Consec p q l) (x : Rat)
    (hp : p.1 ≤ x) (hq : x ≤ q.1) : avarApply l x = interp p q x := by
  cases hl : l.head? with
  | none =>
    have : l = [] := by simpa using hl
    have := hc.mem_left; rw [‹l = []›] at this; simp at this
  | some f =>
    rw [avarApply_eq_map l hs x ⟨f, hl, le_trans (head_le l hs f p hl hc.mem_left) hp⟩ ⟨q, hc.mem_right, hq⟩]
    exact map_consec l hs p q hc x hp hq

/-- a convex combination of two errors of size ≤ e has size ≤ e -/
theorem convex_err (t e1 e2 e : Rat) (t0 : 0 ≤ t) (t1 : t ≤ 1) (h1 : -e ≤ e1 ∧ e1 ≤ e) (h2 : -e ≤ e2 ∧ e2 ≤ e) :
    -e ≤ (1 - t) * e1 + t * e2 ∧ (1 - t) * e1 + t * e2 ≤ e := by
  have s0 : 0 ≤ 1 - t := by linarith
  have a1 := mul_le_mul_of_nonneg_left h1.1 s0
  have a2 := mul_le_mul_of_nonneg_left h1.2 s0
  have b1 := mul_le_mul_of_nonneg_left h2.1 t0
  have b2 := mul_le_mul_of_nonneg_left h2.2 t0
  constructor <;> nlinarith

/-- **Quantisation error of a strictly sorted segment map at an arbitrary coordinate.**
    `P` exact, entries in `[-1,1]²`; `Q` its entry-wise F2Dot14 rounding with still strictly increasing
    from-coordinates; `F = avarApply P` is `L`-Lipschitz on `[-1, 1]`. Then for `x` between the first and the
    last record of `Q`:  `|avarApply Q x - avarApply P x| ≤ 2⁻¹⁵ (1 + L)`. -/
theorem quantised_bound (P : List Pt) (hP : StrictFrom P)
    (hrange : ∀ p ∈ P, -1 ≤ p.1 ∧ p.1 ≤ 1 ∧ -1 ≤ p.2 ∧ p.2 ≤ 1)
    (hQ : StrictFrom (P.map fun p => (qv p.1, qv p.2)))
    (L : Rat) (hL : 0 ≤ L)
    (hLip : ∀ s t, -1 ≤ s → s ≤ 1 → -1 ≤ t → t ≤ 1 → ratAbs (avarApply P s - avarApply P t) ≤ L * ratAbs (s - t))
    (x : Rat) (f z : Pt) (hf : P.head? = some f) (hz : P.getLast? = some z) (h1 : qv f.1 ≤ x) (h2 : x ≤ qv z.1)
    (hx1 : -1 ≤ x) (hx2 : x ≤ 1) :
    ratAbs (avarApply (P.map fun p => (qv p.1, qv p.2)) x - avarApply P x) ≤ 1 / 32768 * (1 + L) := by
  have hf' : (P.map fun p => (qv p.1, qv p.2)).head? = some (qv f.1, qv f.2) := by
    simp [List.head?_map, hf]
  have hz' : (P.map fun p => (qv p.1, qv p.2)).getLast? = some (qv z.1, qv z.2) := by
    simp [List.getLast?_map, hz]
  -- it suffices to exhibit x' with |x - x'| ≤ ε, x' ∈ [-1,1] and |result - F x'| ≤ ε
  have key : ∀ (x' r : Rat), -1 ≤ x' → x' ≤ 1 → (-(1/32768) ≤ x - x' ∧ x - x' ≤ 1/32768) →
      (-(1/32768) ≤ r - avarApply P x' ∧ r - avarApply P x' ≤ 1/32768) →
      ratAbs (r - avarApply P x) ≤ 1 / 32768 * (1 + L) := by
    intro x' r hx'1 hx'2 hdx hr
    have hl := hLip x' x hx'1 hx'2 hx1 hx2
    have hdx' : ratAbs (x' - x) ≤ 1 / 32768 := ratAbs_le_and _ _ ⟨by linarith [hdx.2], by linarith [hdx.1]⟩
    have hl2 : ratAbs (avarApply P x' - avarApply P x) ≤ L * (1 / 32768) :=
      le_trans hl (mul_le_mul_of_nonneg_left hdx' hL)
    have hb := ratAbs_bounds _ _ hl2
    apply ratAbs_le_and
    constructor <;> nlinarith [hb.1, hb.2, hr.1, hr.2]
  rcases avarApply_cases _ hQ x _ _ hf' hz' h1 h2 with ⟨N, hN, hNx, hres⟩ | ⟨Pq, Qq, hc, hpx, hxq, hres⟩
  · -- x is a quantised vertex
    simp only [List.mem_map] at hN
    obtain ⟨n, hn, rfl⟩ := hN
    simp only [] at hNx hres
    have rn := hrange n hn
    rw [hres]
    apply key n.1 (qv n.2) rn.1 rn.2.1
    · rw [← hNx]; have := qv_err n.1 rn.1 rn.2.1; constructor <;> linarith [this.1, this.2]
    · rw [avarApply_vertex P hP n hn]
      have := qv_err n.2 rn.2.2.1 rn.2.2.2; constructor <;> linarith [this.1, this.2]
  · -- x is inside a quantised segment
    obtain ⟨p, q, hcP, rfl, rfl⟩ := consec_map _ P Pq Qq hc
    simp only [] at hpx hxq hres
    have hAB : qv p.1 < qv q.1 := hc.lt hQ
    have hpq : p.1 < q.1 := hcP.lt hP
    have rp := hrange p hcP.mem_left
    have rq := hrange q hcP.mem_right
    have hpos : 0 < qv q.1 - qv p.1 := by linarith
    have hne : qv q.1 - qv p.1 ≠ 0 := ne_of_gt hpos
    have hne2 : q.1 - p.1 ≠ 0 := by intro h0; linarith
    obtain ⟨t, ht⟩ : ∃ t, t = (x - qv p.1) / (qv q.1 - qv p.1) := ⟨_, rfl⟩
    have t0 : 0 ≤ t := by rw [ht]; exact div_nonneg (by linarith) (le_of_lt hpos)
    have t1 : t ≤ 1 := by rw [ht]; exact (div_le_one hpos).mpr (by linarith)
    have hxt : x = qv p.1 + t * (qv q.1 - qv p.1) := by rw [ht]; field_simp; ring
    have hrt : interp (qv p.1, qv p.2) (qv q.1, qv q.2) x = qv p.2 + t * (qv q.2 - qv p.2) := by
      unfold interp; simp only []; rw [ht]; field_simp
    have hx'lo : p.1 ≤ p.1 + t * (q.1 - p.1) := by nlinarith
    have hx'hi : p.1 + t * (q.1 - p.1) ≤ q.1 := by nlinarith
    have hF : avarApply P (p.1 + t * (q.1 - p.1)) = p.2 + t * (q.2 - p.2) := by
      rw [avarApply_consec P hP p q hcP _ hx'lo hx'hi]
      unfold interp; field_simp; ring
    rw [hres, hrt]
    apply key (p.1 + t * (q.1 - p.1)) _ (by linarith) (by linarith)
    · have e1 := qv_err p.1 rp.1 rp.2.1
      have e2 := qv_err q.1 rq.1 rq.2.1
      have := convex_err t (qv p.1 - p.1) (qv q.1 - q.1) (1/32768) t0 t1
        ⟨by linarith [e1.2], by linarith [e1.1]⟩ ⟨by linarith [e2.2], by linarith [e2.1]⟩
      have e : x - (p.1 + t * (q.1 - p.1)) = (1 - t) * (qv p.1 - p.1) + t * (qv q.1 - q.1) := by
        rw [hxt]; ring
      rw [e]; exact this
    · rw [hF]
      have e1 := qv_err p.2 rp.2.2.1 rp.2.2.2
      have e2 := qv_err q.2 rq.2.2.1 rq.2.2.2
      have := convex_err t (qv p.2 - p.2) (qv q.2 - q.2) (1/32768) t0 t1
        ⟨by linarith [e1.2], by linarith [e1.1]⟩ ⟨by linarith [e2.2], by linarith [e2.1]⟩
      have e : qv p.2 + t * (qv q.2 - qv p.2) - (p.2 + t * (q.2 - p.2)) =
          (1 - t) * (qv p.2 - p.2) + t * (qv q.2 - q.2) := by ring
      rw [e]; exact this

variable {ns : List Pt} {mn df mx dmin ddef dmax : Rat}

theorem Sorted.padded_range (h : Sorted ns mn df mx dmin ddef dmax) :
    ∀ p ∈ padded (rawOf ns mn df mx dmin ddef dmax), -1 ≤ p.1 ∧ p.1 ≤ 1 ∧ -1 ≤ p.2 ∧ p.2 ≤ 1 := by
  intro p hp
  have hr := h.raw_range
  unfold padded at hp
  simp only [] at hp
  have hraw : ∀ p ∈ rawOf ns mn df mx dmin ddef dmax, -1 ≤ p.1 ∧ p.1 ≤ 1 ∧ -1 ≤ p.2 ∧ p.2 ≤ 1 := by
    intro p hp
    have := hr p hp
    have hlo : (-1 : Rat) ≤ (if mn < df then (-1 : Rat) else 0) := by split_ifs <;> norm_num
    exact ⟨le_trans hlo this.1, this.2.1, this.2.2.1, this.2.2.2⟩
  by_cases c1 : (rawMin (rawOf ns mn df mx dmin ddef dmax) != -1) = true <;>
    by_cases c2 : (rawMax (rawOf ns mn df mx dmin ddef dmax) != 1) = true <;>
    simp only [c1, c2, if_true, if_false, Bool.false_eq_true] at hp
  · simp only [List.mem_append, List.mem_cons, List.mem_nil_iff, or_false] at hp
    rcases hp with (rfl | hp) | rfl
    · norm_num
    · exact hraw p hp
    · norm_num
  · simp only [List.mem_cons] at hp
    rcases hp with rfl | hp
    · norm_num
    · exact hraw p hp
  · simp only [List.mem_append, List.mem_cons, List.mem_nil_iff, or_false] at hp
    rcases hp with hp | rfl
    · exact hraw p hp
    · norm_num
  · exact hraw p hp

/-- first and last record of the padded list bracket every default-normalised coordinate of the axis -/
theorem Sorted.padded_head_last (h : Sorted ns mn df mx dmin ddef dmax) (u : Rat) (hu1 : mn ≤ u) (hu2 : u ≤ mx) :
    ∃ f z, (padded (rawOf ns mn df mx dmin ddef dmax)).head? = some f ∧
      (padded (rawOf ns mn df mx dmin ddef dmax)).getLast? = some z ∧
      f.1 ≤ phi mn df mx u ∧ phi mn df mx u ≤ z.1 := by
  obtain ⟨o1, o2, o3, o4⟩ := h.order
  have hlo : phi mn df mx mn ≤ phi mn df mx u := h.phi_le mn u ⟨le_refl _, le_trans o1 o2⟩ ⟨hu1, hu2⟩ hu1
  have hhi : phi mn df mx u ≤ phi mn df mx mx := h.phi_le u mx ⟨hu1, hu2⟩ ⟨le_trans o1 o2, le_refl _⟩ hu2
  have hr := defaultNormalize_range mn df mx u o1 o2 hu1 hu2
  have hr1 : (-1 : Rat) ≤ phi mn df mx u := by
    have : (-1 : Rat) ≤ (if mn < df then (-1 : Rat) else 0) := by split_ifs <;> norm_num
    exact le_trans this hr.1
  have hr2 : phi mn df mx u ≤ 1 := by
    have : (if df < mx then (1 : Rat) else 0) ≤ 1 := by split_ifs <;> norm_num
    exact le_trans hr.2 this
  have hhead : (rawOf ns mn df mx dmin ddef dmax).head? = some (phi mn df mx mn, psi ns dmin ddef dmax mn) := by
    simp only [rawOf, List.head?_map, h.hhead, Option.map_some]
  have hlast : (rawOf ns mn df mx dmin ddef dmax).getLast? = some (phi mn df mx mx, psi ns dmin ddef dmax mx) := by
    simp only [rawOf, List.getLast?_map, h.hlast, Option.map_some]
  have hne : rawOf ns mn df mx dmin ddef dmax ≠ [] := by
    intro h0; rw [h0] at hhead; simp at hhead
  unfold padded
  simp only []
  by_cases c1 : (rawMin (rawOf ns mn df mx dmin ddef dmax) != -1) = true <;>
    by_cases c2 : (rawMax (rawOf ns mn df mx dmin ddef dmax) != 1) = true <;>
    simp only [c1, c2, if_true, if_false, Bool.false_eq_true]
  · refine ⟨(-1, -1), (1, 1), by simp, ?_, hr1, hr2⟩
    rw [List.getLast?_append]; simp
  · refine ⟨(-1, -1), (phi mn df mx mx, psi ns dmin ddef dmax mx), by simp, ?_, hr1, hhi⟩
    rw [List.getLast?_cons_of_ne_nil hne]; exact hlast
  · refine ⟨(phi mn df mx mn, psi ns dmin ddef dmax mn), (1, 1), ?_, by simp, hlo, hr2⟩
    rw [List.head?_append_of_ne_nil _ hne]; exact hhead
  · exact ⟨_, _, hhead, hlast, hlo, hhi⟩

variable (a : AxisDef)

/-- **`avar_quantised_bound`**, helper form: at every user coordinate, with the default-normalised coordinate
    rounded to F2Dot14 as a rasteriser does. -/
theorem wf_quantised_bound (h : a.WellFormed) (ax : Axis) (hax : a.axis? = some ax)
    (hstrict : strictFrom (qpts (segmentMap ax)) = true) (L : Rat) (hL : 0 ≤ L)
    (hLip : ∀ s t, -1 ≤ s → s ≤ 1 → -1 ≤ t → t ≤ 1 →
      ratAbs (avarApply (segmentMapExact ax) s - avarApply (segmentMapExact ax) t) ≤ L * ratAbs (s - t))
    (u : Rat) (hu1 : a.min ≤ u) (hu2 : u ≤ a.max) :
    ratAbs (avarApply (qpts (segmentMap ax)) (qv (defaultNormalize a.min a.default a.max u)) -
            designNormalize a.designMin a.designDefault a.designMax (ax.conv.toDesign u)) ≤ 1 / 32768 * (1 + 2 * L) := by
  have hS := wf_sorted a h
  obtain ⟨o1, o2, o3, o4⟩ := hS.order
  have hagree := wf_avar_agrees a h ax hax u hu1 hu2
  have hQ := strictFrom_sound _ hstrict
  rw [qpts_segmentMap] at hQ ⊢
  -- facts about the exact list
  have hfacts : (∀ p ∈ segmentMapExact ax, -1 ≤ p.1 ∧ p.1 ≤ 1 ∧ -1 ≤ p.2 ∧ p.2 ≤ 1) ∧
      ∃ f z, (segmentMapExact ax).head? = some f ∧ (segmentMapExact ax).getLast? = some z ∧
        f.1 ≤ defaultNormalize a.min a.default a.max u ∧ defaultNormalize a.min a.default a.max u ≤ z.1 := by
    have hr := defaultNormalize_range a.min a.default a.max u o1 o2 hu1 hu2
    have hr1 : (-1 : Rat) ≤ defaultNormalize a.min a.default a.max u := by
      have : (-1 : Rat) ≤ (if a.min < a.default then (-1 : Rat) else 0) := by split_ifs <;> norm_num
      exact le_trans this hr.1
    have hr2 : defaultNormalize a.min a.default a.max u ≤ 1 := by
      have : (if a.default < a.max then (1 : Rat) else 0) ≤ 1 := by split_ifs <;> norm_num
      exact le_trans hr.2 this
    unfold segmentMapExact
    simp only []
    rw [wf_rawMappings a h ax hax]
    split_ifs
    · refine ⟨?_, (-1, -1), (1, 1), by simp [defaultSegmentMap], by simp [defaultSegmentMap], hr1, hr2⟩
      intro p hp
      simp only [defaultSegmentMap, List.mem_cons, List.mem_nil_iff, or_false] at hp
      rcases hp with rfl | rfl | rfl <;> norm_num
    · exact ⟨hS.padded_range, hS.padded_head_last u hu1 hu2⟩
  obtain ⟨hrange, f, z, hf, hz, hfx, hxz⟩ := hfacts
  generalize hx : defaultNormalize a.min a.default a.max u = x at *
  have hfr := hrange f (List.mem_of_mem_head? hf)
  have hzr := hrange z (List.mem_of_getLast? hz)
  have hx1 : -1 ≤ x := le_trans hfr.1 hfx
  have hx2 : x ≤ 1 := le_trans hxz hzr.2.1
  have hP : StrictFrom (segmentMapExact ax) := by
    unfold StrictFrom at hQ ⊢
    rw [List.pairwise_map] at hQ
    refine hQ.imp ?_
    intro p q hpq
    by_contra hc
    have := qv_mono q.1 p.1 (not_lt.mp hc)
    simp only [] at hpq
    linarith
  have hqx1 : -1 ≤ qv x := by have := qv_mono _ _ hx1; rwa [qv_neg_one] at this
  have hqx2 : qv x ≤ 1 := by have := qv_mono _ _ hx2; rwa [qv_one] at this
  have hb := quantised_bound (segmentMapExact ax) hP hrange hQ L hL hLip (qv x) f z hf hz
    (qv_mono _ _ hfx) (qv_mono _ _ hxz) hqx1 hqx2
  have he := qv_err x hx1 hx2
  have hl := hLip (qv x) x hqx1 hqx2 hx1 hx2
  have hdx : ratAbs (qv x - x) ≤ 1 / 32768 := ratAbs_le_and _ _ ⟨by linarith [he.2], by linarith [he.1]⟩
  have hl2 : ratAbs (avarApply (segmentMapExact ax) (qv x) - avarApply (segmentMapExact ax) x) ≤ L * (1 / 32768) :=
    le_trans hl (mul_le_mul_of_nonneg_left hdx hL)
  rw [← hagree]
  have b1 := ratAbs_bounds _ _ hb
  have b2 := ratAbs_bounds _ _ hl2
  apply ratAbs_le_and
  constructor <;> nlinarith [b1.1, b1.2, b2.1, b2.2]

end Fontc.PlmProofs
