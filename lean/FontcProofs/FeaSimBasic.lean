/-
  C11 simulation, part 1: what the elementary operations of the compilation context do
  (`push`, `finish_current`, `ensure_current_lookup_type`, `set_lookup_flag`), and the vocabulary of
  the invariants: states only grow (`Ext`), lookups sit at their ids (`Placed`).
-/
import FontcModel.FeaCompile
import FontcProofs.FeaFlags

namespace Fontc.FeaCompile
open Cmp

/-- the lookups a builder is written to by `push` -/
def builtLookups (cf : CFlag) (b : Builder) : List OT.Lookup :=
  match b with
  | .chain _ anon => buildLookup cf b :: anon.map (buildAnonLookup cf)
  | _ => [buildLookup cf b]

theorem push_eq (s : St) (cf : CFlag) (b : Builder) :
    s.push cf b =
      if b.kind.isPos then ({ s with gpos := s.gpos ++ builtLookups cf b }, .gpos s.gpos.length)
      else ({ s with gsub := s.gsub ++ builtLookups cf b }, .gsub s.gsub.length) := by
  cases b <;> simp [St.push, builtLookups, Builder.kind, Kind.isPos]

/-- `ls` are the lookups at index `id …` of their table -/
def Placed (gsub gpos : List OT.Lookup) (id : LookupId) (ls : List OT.Lookup) : Prop :=
  match id with
  | .gsub n => ∃ pre post, gsub = pre ++ ls ++ post ∧ pre.length = n
  | .gpos n => ∃ pre post, gpos = pre ++ ls ++ post ∧ pre.length = n
  | .empty => False

theorem Placed.mono {gsub gpos : List OT.Lookup} {id : LookupId} {ls : List OT.Lookup}
    (h : Placed gsub gpos id ls) (g' p' : List OT.Lookup) : Placed (gsub ++ g') (gpos ++ p') id ls := by
  cases id with
  | gsub n =>
    obtain ⟨pre, post, he, hl⟩ := h
    exact ⟨pre, post ++ g', by simp [he], hl⟩
  | gpos n =>
    obtain ⟨pre, post, he, hl⟩ := h
    exact ⟨pre, post ++ p', by simp [he], hl⟩
  | empty => exact h

theorem Placed.head {gsub gpos : List OT.Lookup} {n : Nat} {l : OT.Lookup} {ls : List OT.Lookup}
    (h : Placed gsub gpos (.gsub n) (l :: ls)) : gsub[n]? = some l := by
  obtain ⟨pre, post, he, hl⟩ := h
  subst hl
  simp [he]

theorem Placed.head_gpos {gsub gpos : List OT.Lookup} {n : Nat} {l : OT.Lookup} {ls : List OT.Lookup}
    (h : Placed gsub gpos (.gpos n) (l :: ls)) : gpos[n]? = some l := by
  obtain ⟨pre, post, he, hl⟩ := h
  subst hl
  simp [he]

set_option linter.unusedSimpArgs false

/-- the fields no lookup operation touches -/
def SameCtx (s s' : St) : Prop :=
  s'.curName = s.curName ∧ s'.named = s.named ∧ s'.flag = s.flag ∧ s'.attachIds = s.attachIds ∧
  s'.filterIds = s.filterIds ∧ s'.langsys = s.langsys ∧ s'.script = s.script ∧ s'.features = s.features

theorem SameCtx.refl (s : St) : SameCtx s s := ⟨rfl, rfl, rfl, rfl, rfl, rfl, rfl, rfl⟩

theorem SameCtx.trans {a b c : St} (h1 : SameCtx a b) (h2 : SameCtx b c) : SameCtx a c := by
  obtain ⟨a1, a2, a3, a4, a5, a6, a7, a8⟩ := h1
  obtain ⟨b1, b2, b3, b4, b5, b6, b7, b8⟩ := h2
  exact ⟨b1.trans a1, b2.trans a2, b3.trans a3, b4.trans a4, b5.trans a5, b6.trans a6, b7.trans a7, b8.trans a8⟩

def addIdToActive (a : Option Active) (id : LookupId) : Option Active := a.map (·.addLookup id)

/-- the current lookup (if any) is pushed and added to the feature -/
def Flushed (s s' : St) : Prop :=
  match s.cur with
  | none => s'.gsub = s.gsub ∧ s'.gpos = s.gpos ∧ s'.active = s.active
  | some (cf, b) =>
    if b.kind.isPos then
      s'.gpos = s.gpos ++ builtLookups cf b ∧ s'.gsub = s.gsub ∧ s'.active = addIdToActive s.active (.gpos s.gpos.length)
    else
      s'.gsub = s.gsub ++ builtLookups cf b ∧ s'.gpos = s.gpos ∧ s'.active = addIdToActive s.active (.gsub s.gsub.length)

theorem ensure_keep (s : St) (k : Kind) (h : s.hasCurrentKind k = true) (h' : s.hasSameFlags = true) :
    s.ensure k = s := by
  simp [St.ensure, h, h']

/-- `ensure_current_lookup_type` when the current lookup does not fit (or there is none) -/
theorem ensure_new_spec (s : St) (k : Kind)
    (hne : ∀ cf b, s.cur = some (cf, b) → ¬ (b.kind = k ∧ cf = s.flag)) :
    SameCtx s (s.ensure k) ∧ (s.ensure k).cur = some (s.flag, Builder.new k) ∧ Flushed s (s.ensure k) := by
  have hcond : (s.hasCurrentKind k && s.hasSameFlags) = false := by
    cases hc : s.cur with
    | none => simp [St.hasCurrentKind, hc]
    | some p =>
      obtain ⟨cf, b⟩ := p
      simp only [St.hasCurrentKind, St.hasSameFlags, hc, Option.map_some, Bool.and_eq_false_iff]
      by_cases hk : b.kind = k
      · right
        have : cf ≠ s.flag := fun e => hne cf b hc ⟨hk, e⟩
        simp [this]
      · left; simp [hk]
  obtain ⟨gsub, gpos, cur, curName, named, flag, aIds, fIds, ls, active, script, features⟩ := s
  simp only [St.ensure, hcond, Bool.false_eq_true, ↓reduceIte, push_eq, Flushed]
  cases cur with
  | none => simp [SameCtx]
  | some p =>
    obtain ⟨cf, b⟩ := p
    simp only
    split <;> cases active <;> simp_all [SameCtx, St.addToFeature, addIdToActive]

/-- the current lookup does not absorb / is not promoted by a rule of another type -/
def NoMerge (s : St) (r : Rule) : Prop :=
  match s.cur with
  | none => True
  | some (cf, b) => cf = s.flag → Wf.mixes b.kind r.kind = false

theorem prepare_eq_ensure (s : St) (r : Rule) (h : NoMerge s r) : s.prepare r = s.ensure r.kind := by
  unfold NoMerge at h
  cases hc : s.cur with
  | none =>
    cases r <;> simp [St.prepare, St.hasCurrentKind, St.hasSameFlags, St.promoteToMulti, St.promoteToLiga, hc, Rule.kind]
  | some p =>
    obtain ⟨cf, b⟩ := p
    rw [hc] at h
    simp only at h
    by_cases hf : cf = s.flag
    · have hm := h hf
      cases r <;> cases b <;>
        simp_all [St.prepare, St.hasCurrentKind, St.hasSameFlags, St.promoteToMulti, St.promoteToLiga, Rule.kind,
          Builder.kind, Wf.mixes, St.setBuilder]
    · have : s.hasSameFlags = false := by simp [St.hasSameFlags, hc, hf]
      cases r <;> simp [St.prepare, this, Rule.kind]

theorem Builder.add_kind (fx : Fixes) (root : Nat) (named : String → LookupId) (b : Builder) (r : Rule) :
    (b.add fx root named r).kind = b.kind := by
  cases b <;> cases r <;>
    first
    | rfl
    | (simp only [Builder.add]; split <;> rfl)

theorem Builder.new_kind (k : Kind) : (Builder.new k).kind = k := by cases k <;> rfl

theorem Builder.foldl_add_kind (fx : Fixes) (root : Nat) (named : String → LookupId) (b : Builder) (rs : List Rule) :
    (rs.foldl (Builder.add fx root named) b).kind = b.kind := by
  induction rs generalizing b with
  | nil => rfl
  | cons r rs ih => simp [List.foldl_cons, ih, Builder.add_kind]

end Fontc.FeaCompile
