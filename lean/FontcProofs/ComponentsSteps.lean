/-
  Helper lemmas for C12, part 3: replacing one glyph by an instance that draws the same keeps the drawing of
  every glyph (congruence); splitting; sequences of operations; rounding of stored offsets.
-/
import FontcProofs.ComponentsOps
import FontcProofs.Rounding

namespace Fontc.Components
open Fontc

/-! ### Congruence: a local replacement is a global one -/

/-- Relations on drawings that are compatible with how `resolve` assembles a glyph. -/
structure Cong (R : List Contour → List Contour → Prop) : Prop where
  refl : ∀ xs, R xs xs
  append : ∀ {xs ys xs' ys'}, R xs ys → R xs' ys' → R (xs ++ xs') (ys ++ ys')
  mapApply : ∀ (t : Affine) {xs ys}, R xs ys → R (xs.map (applyC t)) (ys.map (applyC t))

theorem Cong.flatMap {R} (hR : Cong R) {α} (l : List α) (f g : α → List Contour) (h : ∀ a ∈ l, R (f a) (g a)) :
    R (l.flatMap f) (l.flatMap g) := by
  induction l with
  | nil => exact hR.refl _
  | cons a l ih =>
    simp only [List.flatMap_cons]
    exact hR.append (h a (by simp)) (ih fun b hb => h b (by simp [hb]))

theorem congEq : Cong (· = ·) := ⟨fun _ => rfl, fun h1 h2 => by rw [h1, h2], fun _ _ _ h => by rw [h]⟩
theorem congSame : Cong SameDrawing := ⟨SameDrawing.refl, SameDrawing.append, SameDrawing.mapApply⟩

theorem Fits.set {G : Env} {rk : String → Nat} (hfit : Fits G rk) (n : String) (i' : Inst)
    (hi' : ∀ c ∈ i'.comps, rk c.base < rk n) : Fits (G.set n i') rk := by
  intro m j hj c hc
  simp only [Env.set] at hj
  by_cases hm : m = n
  · subst hm; simp at hj; subst hj; exact hi' c hc
  · simp [hm] at hj; exact hfit m j hj c hc

/-- If the new instance of `n`, resolved in the old environment, is `R`-related to the old instance, then every
    glyph's outline in the new environment is `R`-related to its outline in the old one. -/
theorem set_cong {R} (hR : Cong R) (G : Env) (rk : String → Nat) (hfit : Fits G rk)
    (n : String) (i i' : Inst) (hG : G n = some i) (hi' : ∀ c ∈ i'.comps, rk c.base < rk n)
    (hloc : ∀ f, rk n ≤ f → R (resolveInst applyC G f i') (resolveInst applyC G f i)) :
    ∀ (f : Nat) (m : String), rk m < f → R (resolve (G.set n i') f m) (resolve G f m) := by
  intro f
  induction f with
  | zero => intro m h; omega
  | succ f ih =>
    intro m hm
    by_cases hmn : m = n
    · subst hmn
      have h1 : resolve (G.set m i') (f + 1) m = resolveInst applyC (G.set m i') f i' :=
        resolveWith_succ applyC _ f m i' (by simp [Env.set])
      have h2 : resolve G (f + 1) m = resolveInst applyC G f i := resolveWith_succ applyC G f m i hG
      have h3 : resolveInst applyC (G.set m i') f i' = resolveInst applyC G f i' := by
        simp only [resolveInst]
        congr 1
        apply flatMap_congr'
        intro c hc
        rw [resolveWith_set_below applyC G rk hfit m i' f c.base (hi' c hc)]
      rw [h1, h2, h3]
      exact hloc f (by omega)
    · simp only [resolve, resolveWith, Env.set, hmn, if_false]
      cases hGm : G m with
      | none => exact hR.refl _
      | some j =>
        simp only
        apply hR.append (hR.refl _)
        apply hR.flatMap
        intro c hc
        have := hfit m j hGm c hc
        exact hR.mapApply c.t (ih c.base (by omega))

/-! ### The four operations at the glyph level -/

theorem flattenInst_rank (G : Env) (rk : String → Nat) (hfit : Fits G rk) (F : Nat) (n : String) (i : Inst)
    (hG : G n = some i) : ∀ c ∈ (flattenInst G F i).comps, rk c.base < rk n := by
  intro c' h
  simp only [flattenInst, List.mem_flatMap] at h
  obtain ⟨c, hc, hc'⟩ := h
  have := flattenComp_rank G rk hfit F c c' hc'
  have := hfit n i hG c hc
  omega

theorem inlineInst_rank (G : Env) (rk : String → Nat) (hfit : Fits G rk) (exported : String → Bool) (n : String)
    (i : Inst) (hG : G n = some i) : ∀ c ∈ (inlineInst G exported i).comps, rk c.base < rk n := by
  intro c' h
  simp only [inlineInst, List.mem_flatMap] at h
  obtain ⟨c, hc, hc'⟩ := h
  have := inlineComps_rank G rk hfit exported c c' hc'
  have := hfit n i hG c hc
  omega

theorem decomposeInst_resolve (G : Env) (rk : String → Nat) (hfit : Fits G rk) (f F : Nat) (i : Inst)
    (hF : ∀ c ∈ i.comps, rk c.base < F) (hf : ∀ c ∈ i.comps, rk c.base < f) :
    SameDrawing (resolveInst applyC G f (decomposeInst G F i)) (resolveInst applyC G f i) := by
  simp only [resolveInst, decomposeInst, List.flatMap_nil, List.append_nil]
  apply SameDrawing.append (SameDrawing.refl _)
  refine SameDrawing.trans (SameDrawing.of_perm (decomposeLevels_perm G rk hfit f F i.comps hF hf)) ?_
  apply SameDrawing.flatMap
  intro c _
  have h := resolveAcc_applyC G f c.t c.base
  simp only [resolve] at h
  rw [← h]
  exact SameDrawing.of_revEq (resolveAcc_orient_revEq G f c.t c.base)

/-! ### split -/

/-- The rank after a split: the new simple glyph gets rank 0. -/
def splitRank (rk : String → Nat) (nn : String) : String → Nat := fun m => if m = nn then 0 else rk m

/-- `nn` is fresh: not a glyph and not referenced by any glyph. -/
def Fresh (G : Env) (nn : String) : Prop := G nn = none ∧ ∀ m j, G m = some j → ∀ c ∈ j.comps, c.base ≠ nn

theorem resolve_set_fresh (G : Env) (nn : String) (i' : Inst) (hfresh : Fresh G nn) :
    ∀ (f : Nat) (m : String), m ≠ nn → resolve (G.set nn i') f m = resolve G f m := by
  intro f
  induction f with
  | zero => intro m _; rfl
  | succ f ih =>
    intro m hm
    simp only [resolve, resolveWith, Env.set, hm, if_false]
    cases hGm : G m with
    | none => rfl
    | some j =>
      simp only
      congr 1
      apply flatMap_congr'
      intro c hc
      have := ih c.base (hfresh.2 m j hGm c hc)
      simp only [resolve] at this
      rw [this]

theorem Fits.splitRank {G : Env} {rk : String → Nat} (hfit : Fits G rk) (nn : String) (hfresh : Fresh G nn) :
    Fits G (splitRank rk nn) := by
  intro m j hj c hc
  have hm : m ≠ nn := by intro h; subst h; rw [hfresh.1] at hj; cases hj
  have hc' : c.base ≠ nn := hfresh.2 m j hj c hc
  simp only [Components.splitRank, hm, hc', if_false]
  exact hfit m j hj c hc

/-! ### Rounding of stored offsets -/

theorem ratAbs_add_le (a b : Rat) : ratAbs (a + b) ≤ ratAbs a + ratAbs b := by
  unfold ratAbs; split <;> split <;> split <;> grind

theorem CloseC.refl (ε : Rat) (hε : 0 ≤ ε) : ∀ c : Contour, CloseC ε c c
  | [] => .nil
  | p :: ps => .cons ⟨by simp [ratAbs_zero, hε, Rat.sub_self], by simp [ratAbs_zero, hε, Rat.sub_self], rfl⟩ (CloseC.refl ε hε ps)

theorem CloseCs.refl (ε : Rat) (hε : 0 ≤ ε) : ∀ cs : List Contour, CloseCs ε cs cs
  | [] => .nil
  | c :: cs => .cons (CloseC.refl ε hε c) (CloseCs.refl ε hε cs)

theorem CloseCs.append {ε : Rat} {xs ys xs' ys' : List Contour} (h1 : CloseCs ε xs ys) (h2 : CloseCs ε xs' ys') :
    CloseCs ε (xs ++ xs') (ys ++ ys') := by
  induction h1 with
  | nil => simpa using h2
  | cons h _ ih => exact .cons h ih

theorem CloseCs.flatMap {ε : Rat} {α} (l : List α) (f g : α → List Contour) (h : ∀ a ∈ l, CloseCs ε (f a) (g a)) :
    CloseCs ε (l.flatMap f) (l.flatMap g) := by
  induction l with
  | nil => exact .nil
  | cons a l ih =>
    simp only [List.flatMap_cons]
    exact CloseCs.append (h a (by simp)) (ih fun b hb => h b (by simp [hb]))

/-- Translating two δ-close drawings by offsets that differ by at most η gives (δ+η)-close drawings. -/
theorem CloseC.translate {δ η : Rat} (t t' : Affine)
    (ht : t.a = 1 ∧ t.b = 0 ∧ t.c = 0 ∧ t.d = 1) (ht' : t'.a = 1 ∧ t'.b = 0 ∧ t'.c = 0 ∧ t'.d = 1)
    (he : ratAbs (t'.e - t.e) ≤ η) (hf : ratAbs (t'.f - t.f) ≤ η) {c c' : Contour} (h : CloseC δ c' c) :
    CloseC (δ + η) (applyC t' c') (applyC t c) := by
  induction h with
  | nil => exact .nil
  | @cons p q _ _ hpq _ ih =>
    refine .cons ?_ ih
    obtain ⟨hx, hy, hon⟩ := hpq
    obtain ⟨a1, b1, c1, d1⟩ := ht
    obtain ⟨a2, b2, c2, d2⟩ := ht'
    refine ⟨?_, ?_, hon⟩
    · simp only [Affine.apply, a1, c1, a2, c2]
      have : (1 * p.x + 0 * p.y + t'.e) - (1 * q.x + 0 * q.y + t.e) = (p.x - q.x) + (t'.e - t.e) := by grind
      rw [this]
      have := ratAbs_add_le (p.x - q.x) (t'.e - t.e)
      grind
    · simp only [Affine.apply, b1, d1, b2, d2]
      have : (0 * p.x + 1 * p.y + t'.f) - (0 * q.x + 1 * q.y + t.f) = (p.y - q.y) + (t'.f - t.f) := by grind
      rw [this]
      have := ratAbs_add_le (p.y - q.y) (t'.f - t.f)
      grind

theorem CloseC.mono {δ δ' : Rat} (hle : δ ≤ δ') {c c' : Contour} (h : CloseC δ c c') : CloseC δ' c c' := by
  induction h with
  | nil => exact .nil
  | cons hpq _ ih => exact .cons ⟨Rat.le_trans hpq.1 hle, Rat.le_trans hpq.2.1 hle, hpq.2.2⟩ ih

theorem CloseCs.mono {δ δ' : Rat} (hle : δ ≤ δ') {cs cs' : List Contour} (h : CloseCs δ cs cs') : CloseCs δ' cs cs' := by
  induction h with
  | nil => exact .nil
  | cons h _ ih => exact .cons (h.mono hle) ih

theorem CloseCs.translate {δ η : Rat} (t t' : Affine)
    (ht : t.a = 1 ∧ t.b = 0 ∧ t.c = 0 ∧ t.d = 1) (ht' : t'.a = 1 ∧ t'.b = 0 ∧ t'.c = 0 ∧ t'.d = 1)
    (he : ratAbs (t'.e - t.e) ≤ η) (hf : ratAbs (t'.f - t.f) ≤ η) {cs cs' : List Contour} (h : CloseCs δ cs' cs) :
    CloseCs (δ + η) (cs'.map (applyC t')) (cs.map (applyC t)) := by
  induction h with
  | nil => exact .nil
  | cons h _ ih => exact .cons (h.translate t t' ht ht' he hf) ih

/-- Perturbing every component offset by at most η moves every resolved point by at most η per nesting level
    (translate-only components; `G'` has the same glyphs, contours, bases and 2×2 parts as `G`). -/
theorem perturbed_offsets_close (η : Rat) (hη : 0 ≤ η) (G G' : Env) (rk : String → Nat) (hfit : Fits G rk)
    (htr : TranslateOnly G)
    (hG' : ∀ n, match G n, G' n with
      | none, none => True
      | some i, some i' => i'.contours = i.contours ∧ i'.comps.length = i.comps.length ∧
          ∀ (k : Nat) (c c' : Comp), i.comps[k]? = some c → i'.comps[k]? = some c' →
            c'.base = c.base ∧ (c'.t.a = 1 ∧ c'.t.b = 0 ∧ c'.t.c = 0 ∧ c'.t.d = 1) ∧
            ratAbs (c'.t.e - c.t.e) ≤ η ∧ ratAbs (c'.t.f - c.t.f) ≤ η
      | _, _ => False) :
    ∀ (f : Nat) (n : String), rk n < f → CloseCs ((rk n : Rat) * η) (resolve G' f n) (resolve G f n) := by
  intro f
  induction f with
  | zero => intro n h; omega
  | succ f ih =>
    intro n hn
    have hrk0 : (0 : Rat) ≤ (rk n : Rat) * η := Rat.mul_nonneg (by exact_mod_cast Nat.zero_le _) hη
    have hn' := hG' n
    simp only [resolve, resolveWith]
    cases hGn : G n with
    | none =>
      cases hGn' : G' n with
      | none => exact .nil
      | some i' => simp [hGn, hGn'] at hn'
    | some i =>
      cases hGn' : G' n with
      | none => simp [hGn, hGn'] at hn'
      | some i' =>
        simp only [hGn, hGn'] at hn'
        obtain ⟨hcont, hlen, hcomps⟩ := hn'
        simp only
        rw [hcont]
        apply CloseCs.append (CloseCs.refl _ hrk0 _)
        -- walk the two component lists in parallel
        have key : ∀ (l l' : List Comp), l'.length = l.length →
            (∀ (k : Nat) (c c' : Comp), l[k]? = some c → l'[k]? = some c' →
              c'.base = c.base ∧ (c'.t.a = 1 ∧ c'.t.b = 0 ∧ c'.t.c = 0 ∧ c'.t.d = 1) ∧
              ratAbs (c'.t.e - c.t.e) ≤ η ∧ ratAbs (c'.t.f - c.t.f) ≤ η) →
            (∀ c ∈ l, rk c.base < rk n ∧ (c.t.a = 1 ∧ c.t.b = 0 ∧ c.t.c = 0 ∧ c.t.d = 1)) →
            CloseCs ((rk n : Rat) * η)
              (l'.flatMap fun c => (resolveWith applyC G' f c.base).map (applyC c.t))
              (l.flatMap fun c => (resolveWith applyC G f c.base).map (applyC c.t)) := by
          intro l
          induction l with
          | nil => intro l' hl _ _; cases l' with
            | nil => exact .nil
            | cons _ _ => simp at hl
          | cons c l ihl =>
            intro l' hl hk hc
            cases l' with
            | nil => simp at hl
            | cons c' l' =>
              simp only [List.flatMap_cons]
              obtain ⟨hb, ht', he, hf'⟩ := hk 0 c c' (by simp) (by simp)
              obtain ⟨hlt, ht⟩ := hc c (by simp)
              apply CloseCs.append
              · rw [hb]
                have hsub := ih c.base (by omega)
                have := hsub.translate c.t c'.t ht ht' he hf'
                refine this.mono ?_
                have h1 : ((rk c.base : Nat) : Rat) + 1 ≤ (rk n : Rat) := by exact_mod_cast hlt
                have : (rk c.base : Rat) * η + η = ((rk c.base : Rat) + 1) * η := by grind
                rw [this]
                exact Rat.mul_le_mul_of_nonneg_right h1 hη
              · apply ihl l' (by simpa using hl)
                · intro k a a' ha ha'
                  exact hk (k + 1) a a' (by simpa using ha) (by simpa using ha')
                · intro a ha; exact hc a (by simp [ha])
        apply key i.comps i'.comps hlen hcomps
        intro c hc
        exact ⟨hfit n i hGn c hc, htr n i hGn c hc⟩

/-! ### General 2×2 chains -/

/-- Same 2×2 parts, offsets within `ε` (max norm), level by level. -/
def ChainClose (ε : Rat) : List Affine → List Affine → Prop
  | [], [] => True
  | t :: ts, t' :: ts' =>
    t'.a = t.a ∧ t'.b = t.b ∧ t'.c = t.c ∧ t'.d = t.d ∧ ratAbs (t'.e - t.e) ≤ ε ∧ ratAbs (t'.f - t.f) ≤ ε ∧
      ChainClose ε ts ts'
  | _, _ => False

theorem ratAbs_mul_le (a x B : Rat) (h : ratAbs x ≤ B) : ratAbs (a * x) ≤ ratAbs a * B := by
  obtain ⟨h1, h2⟩ := (ratAbs_le_iff x B).1 h
  apply (ratAbs_le_iff _ _).2
  by_cases ha : a < 0
  · have hna : 0 ≤ -a := by grind
    have e1 := Rat.mul_le_mul_of_nonneg_left h1 hna
    have e2 := Rat.mul_le_mul_of_nonneg_left h2 hna
    have : ratAbs a = -a := by simp [ratAbs, ha]
    rw [this]
    constructor <;> grind
  · have hna : 0 ≤ a := by grind
    have e1 := Rat.mul_le_mul_of_nonneg_left h1 hna
    have e2 := Rat.mul_le_mul_of_nonneg_left h2 hna
    have : ratAbs a = a := by simp [ratAbs, ha]
    rw [this]
    constructor <;> grind

theorem norm2x2_ge (t : Affine) : ratAbs t.a + ratAbs t.c ≤ t.norm2x2 ∧ ratAbs t.b + ratAbs t.d ≤ t.norm2x2 := by
  unfold Affine.norm2x2
  simp only
  split <;> constructor <;> grind

theorem norm2x2_nonneg (t : Affine) : 0 ≤ t.norm2x2 := by
  have := (norm2x2_ge t).1
  have := ratAbs_nonneg t.a
  have := ratAbs_nonneg t.c
  grind

theorem chainBound_nonneg : ∀ ts : List Affine, 0 ≤ chainBound ts
  | [] => by simp [chainBound]
  | t :: ts => by
    have := Rat.mul_nonneg (norm2x2_nonneg t) (chainBound_nonneg ts)
    simp only [chainBound]
    grind

/-- One affine step: inputs within `B`, offsets within `ε` ⇒ outputs within `ε + ‖A‖·B`. -/
theorem apply_perturb (t t' : Affine) (ε B : Rat) (hB : 0 ≤ B)
    (ha : t'.a = t.a) (hb : t'.b = t.b) (hc : t'.c = t.c) (hd : t'.d = t.d)
    (he : ratAbs (t'.e - t.e) ≤ ε) (hf : ratAbs (t'.f - t.f) ≤ ε) (q q' : Pt)
    (hx : ratAbs (q'.x - q.x) ≤ B) (hy : ratAbs (q'.y - q.y) ≤ B) :
    ratAbs ((t'.apply q').x - (t.apply q).x) ≤ ε + t.norm2x2 * B ∧
    ratAbs ((t'.apply q').y - (t.apply q).y) ≤ ε + t.norm2x2 * B := by
  obtain ⟨n1, n2⟩ := norm2x2_ge t
  constructor
  · have e : (t'.apply q').x - (t.apply q).x = t.a * (q'.x - q.x) + t.c * (q'.y - q.y) + (t'.e - t.e) := by
      simp only [Affine.apply, ha, hc]; grind
    rw [e]
    have m1 := ratAbs_mul_le t.a _ B hx
    have m2 := ratAbs_mul_le t.c _ B hy
    have a1 := ratAbs_add_le (t.a * (q'.x - q.x) + t.c * (q'.y - q.y)) (t'.e - t.e)
    have a2 := ratAbs_add_le (t.a * (q'.x - q.x)) (t.c * (q'.y - q.y))
    have m3 := Rat.mul_le_mul_of_nonneg_right n1 hB
    grind
  · have e : (t'.apply q').y - (t.apply q).y = t.b * (q'.x - q.x) + t.d * (q'.y - q.y) + (t'.f - t.f) := by
      simp only [Affine.apply, hb, hd]; grind
    rw [e]
    have m1 := ratAbs_mul_le t.b _ B hx
    have m2 := ratAbs_mul_le t.d _ B hy
    have a1 := ratAbs_add_le (t.b * (q'.x - q.x) + t.d * (q'.y - q.y)) (t'.f - t.f)
    have a2 := ratAbs_add_le (t.b * (q'.x - q.x)) (t.d * (q'.y - q.y))
    have m3 := Rat.mul_le_mul_of_nonneg_right n2 hB
    grind

/-- General 2×2 case of the rounding bound: along a chain of component transforms (outermost first) whose stored
    offsets are each within `ε` of the true ones, a point of the innermost glyph moves by at most
    `ε · Σ_k Π_{j<k} ‖A_j‖∞` (`chainBound`); for translate-only chains that is `ε ·` nesting depth. -/
theorem chain_perturb_bound (ε : Rat) (hε : 0 ≤ ε) : ∀ (ts ts' : List Affine), ChainClose ε ts ts' → ∀ p : Pt,
    ratAbs ((applyChain ts' p).x - (applyChain ts p).x) ≤ ε * chainBound ts ∧
    ratAbs ((applyChain ts' p).y - (applyChain ts p).y) ≤ ε * chainBound ts
  | [], [], _, p => by simp [applyChain, chainBound, ratAbs_zero, Rat.sub_self]
  | [], _ :: _, h, _ => by simp [ChainClose] at h
  | _ :: _, [], h, _ => by simp [ChainClose] at h
  | t :: ts, t' :: ts', h, p => by
    obtain ⟨ha, hb, hc, hd, he, hf, hrest⟩ := h
    obtain ⟨ihx, ihy⟩ := chain_perturb_bound ε hε ts ts' hrest p
    have hB : 0 ≤ ε * chainBound ts := Rat.mul_nonneg hε (chainBound_nonneg ts)
    have := apply_perturb t t' ε (ε * chainBound ts) hB ha hb hc hd he hf _ _ ihx ihy
    simp only [applyChain, chainBound]
    have e : ε * (1 + t.norm2x2 * chainBound ts) = ε + t.norm2x2 * (ε * chainBound ts) := by grind
    rw [e]
    exact this

end Fontc.Components
