/-
  C11 simulation, general part 2: vocabulary for feature blocks with lookup blocks, lookup references
  and `script` / `language` statements: the events fed to `ActiveFeature`, the items of the source
  walk with their ids.
-/
import FontcProofs.FeaGenBlock

namespace Fontc.FeaCompile
open Cmp
set_option linter.unusedSimpArgs false

/-- what `ActiveFeature` sees: a change of language system, or a lookup -/
inductive Ev where
  | sys (s : Sys) (excl : Bool)
  | item (id : LookupId)
  deriving Repr, DecidableEq

def evStep (a : Active) : Ev → Active
  | .sys s ex => a.setSystem s ex
  | .item id => a.addLookup id

def regOfSys (s : Sys) : Src.Reg := if s.2 == "dflt" then .script s.1 else .lang s.1 s.2

/-- position (`Src.Reg`) after the events, starting from `r` -/
def regAfter (r : Src.Reg) : List Ev → Src.Reg
  | [] => r
  | .sys s _ :: evs => regAfter (regOfSys s) evs
  | .item _ :: evs => regAfter r evs

/-- the items put out by the source walk, with their ids, are the item events, each at the position
    the preceding events lead to -/
def EvRel : Src.Reg → List Ev → List (Src.Reg × Src.Item) → List LookupId → Prop
  | _, [], [], [] => True
  | _, .sys s _ :: evs, items, ids => EvRel (regOfSys s) evs items ids
  | r, .item id :: evs, (r', _) :: items, id' :: ids => r' = r ∧ id' = id ∧ EvRel r evs items ids
  | _, _, _, _ => False

theorem regAfter_append (r : Src.Reg) (e1 e2 : List Ev) : regAfter r (e1 ++ e2) = regAfter (regAfter r e1) e2 := by
  induction e1 generalizing r with
  | nil => rfl
  | cons e e1 ih => cases e <;> simp [regAfter, ih]

theorem EvRel.snoc_sys : ∀ (r : Src.Reg) (evs : List Ev) (items : List (Src.Reg × Src.Item)) (ids : List LookupId)
    (s : Sys) (ex : Bool), EvRel r evs items ids → EvRel r (evs ++ [.sys s ex]) items ids := by
  intro r evs
  induction evs generalizing r with
  | nil =>
    intro items ids s ex h
    cases items <;> cases ids <;> simp_all [EvRel]
  | cons e evs ih =>
    intro items ids s ex h
    cases e with
    | sys s0 ex0 => simp only [List.cons_append, EvRel] at h ⊢; exact ih _ _ _ s ex h
    | item id0 =>
      cases items with
      | nil => simp [EvRel] at h
      | cons it items =>
        cases ids with
        | nil => simp [EvRel] at h
        | cons id ids =>
          obtain ⟨r', itm⟩ := it
          simp only [List.cons_append, EvRel] at h ⊢
          exact ⟨h.1, h.2.1, ih _ _ _ s ex h.2.2⟩

theorem EvRel.snoc_item : ∀ (r : Src.Reg) (evs : List Ev) (items : List (Src.Reg × Src.Item)) (ids : List LookupId)
    (it : Src.Item) (id : LookupId), EvRel r evs items ids →
    EvRel r (evs ++ [.item id]) (items ++ [(regAfter r evs, it)]) (ids ++ [id]) := by
  intro r evs
  induction evs generalizing r with
  | nil =>
    intro items ids it id h
    cases items <;> cases ids <;> simp_all [EvRel, regAfter]
  | cons e evs ih =>
    intro items ids it id h
    cases e with
    | sys s0 ex0 => simp only [List.cons_append, EvRel, regAfter] at h ⊢; exact ih _ _ _ it id h
    | item id0 =>
      cases items with
      | nil => simp [EvRel] at h
      | cons it0 items =>
        cases ids with
        | nil => simp [EvRel] at h
        | cons id1 ids =>
          obtain ⟨r', itm⟩ := it0
          simp only [List.cons_append, EvRel, regAfter] at h ⊢
          exact ⟨h.1, h.2.1, ih _ _ _ it id h.2.2⟩


/-! ### lists related element by element -/

def All2 {α β : Type} (R : α → β → Prop) : List α → List β → Prop
  | [], [] => True
  | a :: as, b :: bs => R a b ∧ All2 R as bs
  | _, _ => False

theorem All2.length {α β : Type} {R : α → β → Prop} : ∀ {as : List α} {bs : List β}, All2 R as bs → as.length = bs.length := by
  intro as
  induction as with
  | nil => intro bs h; cases bs <;> simp_all [All2]
  | cons a as ih =>
    intro bs h
    cases bs with
    | nil => simp [All2] at h
    | cons b bs => simp only [All2] at h; simp [ih h.2]

theorem All2.mono {α β : Type} {R R' : α → β → Prop} (hR : ∀ a b, R a b → R' a b) :
    ∀ {as : List α} {bs : List β}, All2 R as bs → All2 R' as bs := by
  intro as
  induction as with
  | nil => intro bs h; cases bs <;> simp_all [All2]
  | cons a as ih =>
    intro bs h
    cases bs with
    | nil => simp [All2] at h
    | cons b bs => simp only [All2] at h ⊢; exact ⟨hR a b h.1, ih h.2⟩

theorem All2.append {α β : Type} {R : α → β → Prop} :
    ∀ {as : List α} {bs : List β}, All2 R as bs → ∀ {as' : List α} {bs' : List β}, All2 R as' bs' →
    All2 R (as ++ as') (bs ++ bs') := by
  intro as
  induction as with
  | nil =>
    intro bs h as' bs' h'
    cases bs with
    | nil => simpa using h'
    | cons _ _ => simp [All2] at h
  | cons a as ih =>
    intro bs h as' bs' h'
    cases bs with
    | nil => simp [All2] at h
    | cons b bs => simp only [All2, List.cons_append] at h ⊢; exact ⟨h.1, ih h.2 h'⟩

theorem All2.snoc {α β : Type} {R : α → β → Prop} {as : List α} {bs : List β} (h : All2 R as bs) {a : α} {b : β}
    (hab : R a b) : All2 R (as ++ [a]) (bs ++ [b]) := h.append (as' := [a]) (bs' := [b]) ⟨hab, trivial⟩

theorem All2.of_mem_zip {α β : Type} {R : α → β → Prop} :
    ∀ {as : List α} {bs : List β}, All2 R as bs → ∀ a b, (a, b) ∈ as.zip bs → R a b := by
  intro as
  induction as with
  | nil => intro bs _ a b h; simp at h
  | cons a0 as ih =>
    intro bs h a b hm
    cases bs with
    | nil => simp [All2] at h
    | cons b0 bs =>
      simp only [All2] at h
      simp only [List.zip_cons_cons, List.mem_cons, Prod.mk.injEq] at hm
      rcases hm with ⟨rfl, rfl⟩ | hm
      · exact h.1
      · exact ih h.2 a b hm

theorem All2.of_forall {α β : Type} {R : α → β → Prop} :
    ∀ {as : List α} {bs : List β}, as.length = bs.length → (∀ a b, (a, b) ∈ as.zip bs → R a b) → All2 R as bs := by
  intro as
  induction as with
  | nil => intro bs h _; cases bs <;> simp_all [All2]
  | cons a as ih =>
    intro bs h hall
    cases bs with
    | nil => simp at h
    | cons b bs =>
      simp only [All2]
      exact ⟨hall a b (by simp), ih (by simpa using h) (fun a' b' hm => hall a' b' (by simp [hm]))⟩

/-! ### items of a feature block and their ids -/

/-- names only get added -/
def NamedExt (s s' : St) : Prop := ∀ n id, s.named.lookup n = some id → s'.named.lookup n = some id

theorem NamedExt.refl (s : St) : NamedExt s s := fun _ _ h => h
theorem NamedExt.trans {a b c : St} (h1 : NamedExt a b) (h2 : NamedExt b c) : NamedExt a c :=
  fun n id h => h2 n id (h1 n id h)
theorem NamedExt.of_eq {s s' : St} (h : s'.named = s.named) : NamedExt s s' := fun n id hh => by rw [h]; exact hh

/-- an item of the source walk and the lookup id the compilation context has for it -/
def ItemOk (fx : Fixes) (s : St) (it : Src.Reg × Src.Item) (id : LookupId) : Prop :=
  match it.2 with
  | .defn l =>
    (∃ ls, CompiledRun fx s.attachIds s.filterIds l.flag l.rules id ls ∧ Placed s.gsub s.gpos id ls) ∧
    ∀ n, l.name = some n → s.named.lookup n = some id
  | .ref n => s.named.lookup n = some id ∧ idBelow s id

theorem ItemOk.mono {fx : Fixes} {s s' : St} (hg : Grew s s') (hn : NamedExt s s') {it : Src.Reg × Src.Item} {id : LookupId}
    (h : ItemOk fx s it id) : ItemOk fx s' it id := by
  obtain ⟨⟨g, e1⟩, ⟨p, e2⟩, ⟨a, e3⟩, ⟨f, e4⟩⟩ := hg
  obtain ⟨reg, item⟩ := it
  cases item with
  | defn l =>
    simp only [ItemOk] at h ⊢
    obtain ⟨⟨ls, hc, hp⟩, hnm⟩ := h
    refine ⟨⟨ls, ?_, ?_⟩, fun n hl => hn n id (hnm n hl)⟩
    · rw [e3, e4]; exact hc.mono a f
    · rw [e1, e2]; exact hp.mono g p
  | ref n =>
    simp only [ItemOk] at h ⊢
    exact ⟨hn n id h.1, h.2.mono ⟨⟨g, e1⟩, ⟨p, e2⟩, ⟨a, e3⟩, ⟨f, e4⟩⟩⟩

def OutRelG (fx : Fixes) (s : St) : List (Src.Reg × Src.Item) → List LookupId → Prop := All2 (ItemOk fx s)

theorem OutRelG.mono {fx : Fixes} {s s' : St} (hg : Grew s s') (hn : NamedExt s s') {items : List (Src.Reg × Src.Item)}
    {ids : List LookupId} (h : OutRelG fx s items ids) : OutRelG fx s' items ids :=
  All2.mono (fun _ _ h => h.mono hg hn) h

def Src.Item.isDefn : Src.Item → Bool
  | .defn _ => true
  | .ref _ => false

/-- the ids of the lookups defined (not merely referenced) by the items -/
def defIds (items : List (Src.Reg × Src.Item)) (ids : List LookupId) : List LookupId :=
  ((items.zip ids).filter fun x => x.1.2.isDefn).map (·.2)

theorem defIds_snoc (items : List (Src.Reg × Src.Item)) (ids : List LookupId) (h : items.length = ids.length)
    (it : Src.Reg × Src.Item) (id : LookupId) :
    defIds (items ++ [it]) (ids ++ [id]) = defIds items ids ++ (if it.2.isDefn then [id] else []) := by
  simp only [defIds, List.zip_append h, List.filter_append, List.map_append, List.zip_cons_cons, List.zip_nil_right,
    List.filter_cons, List.filter_nil]
  cases it.2.isDefn <;> simp

/-- lookup names: those defined so far (`used`), each defined once, referenced only when defined -/
def NamesOk : List String → List Stmt → Prop
  | _, [] => True
  | used, .lookup n _ :: rest => n ∉ used ∧ NamesOk (n :: used) rest
  | used, .ref n :: rest => n ∈ used ∧ NamesOk used rest
  | used, _ :: rest => NamesOk used rest

def namesAfter : List String → List Stmt → List String
  | used, [] => used
  | used, .lookup n _ :: rest => namesAfter (n :: used) rest
  | used, _ :: rest => namesAfter used rest

end Fontc.FeaCompile
