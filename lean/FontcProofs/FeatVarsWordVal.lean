/-
  The value of a word-vector rank and what `|`, `|=` and `count_zeros` do to it, for any number of words.
-/
import FontcProofs.FeatVarsWord

namespace Fontc.FeatVars

theorem or_split (k x y u v : Nat) (hu : u < 2 ^ k) (hv : v < 2 ^ k) :
    (2 ^ k * x + u) ||| (2 ^ k * y + v) = 2 ^ k * (x ||| y) + (u ||| v) := by
  apply Nat.eq_of_testBit_eq
  intro j
  rw [Nat.testBit_or, Nat.testBit_two_pow_mul_add x hu, Nat.testBit_two_pow_mul_add y hv,
    Nat.testBit_two_pow_mul_add (x ||| y) (Nat.or_lt_two_pow hu hv)]
  by_cases h : j < k <;> simp [h, Nat.testBit_or]

theorem popcount_split (k : Nat) : ∀ x u, u < 2 ^ k → popcount (2 ^ k * x + u) = popcount x + popcount u := by
  induction k with
  | zero => intro x u hu; have : u = 0 := by simpa using hu
            subst this; simp [popcount_zero]
  | succ k ih =>
    intro x u hu
    rw [popcount_step (2 ^ (k + 1) * x + u), popcount_step u]
    have e : 2 ^ (k + 1) * x = 2 * (2 ^ k * x) := by rw [Nat.pow_succ]; ac_rfl
    have h1 : (2 ^ (k + 1) * x + u) % 2 = u % 2 := by rw [e]; omega
    have h2 : (2 ^ (k + 1) * x + u) / 2 = 2 ^ k * x + u / 2 := by rw [e]; omega
    rw [h1, h2, ih x (u / 2) (by rw [Nat.pow_succ] at hu; omega)]
    omega

/-- little-endian value -/
def lval : List UInt64 → Nat
  | [] => 0
  | w :: l => 2 ^ 64 * lval l + w.toNat

theorem val_append_single (a : WRank) (w : UInt64) : WRank.val (a ++ [w]) = WRank.val a * 2 ^ 64 + w.toNat := by
  simp [WRank.val, List.foldl_append]

theorem val_reverse (l : List UInt64) : WRank.val l.reverse = lval l := by
  induction l with
  | nil => rfl
  | cons w l ih => rw [List.reverse_cons, val_append_single, ih, lval]; omega

theorem val_eq_lval (a : WRank) : WRank.val a = lval a.reverse := by
  rw [← val_reverse, List.reverse_reverse]

theorem lval_lt (l : List UInt64) : lval l < 2 ^ (64 * l.length) := by
  induction l with
  | nil => simp [lval]
  | cons w l ih =>
    have := UInt64.toNat_lt w
    simp only [lval, List.length_cons]
    have e : 2 ^ (64 * (l.length + 1)) = 2 ^ 64 * 2 ^ (64 * l.length) := by
      rw [← Nat.pow_add]; congr 1; omega
    rw [e]
    have : 2 ^ 64 * (lval l + 1) ≤ 2 ^ 64 * 2 ^ (64 * l.length) := Nat.mul_le_mul_left _ ih
    omega

theorem lval_orFront : ∀ (x y : List UInt64), y.length ≤ x.length → lval (orFront x y) = lval x ||| lval y := by
  intro x
  induction x with
  | nil => intro y hy; have : y = [] := by simpa using hy
           subst this; simp [orFront, lval]
  | cons w xs ih =>
    intro y hy
    cases y with
    | nil => simp [orFront, lval]
    | cons v ys =>
      simp only [orFront, lval, UInt64.toNat_or]
      rw [ih ys (by simpa using hy), or_split 64 _ _ _ _ (UInt64.toNat_lt w) (UInt64.toNat_lt v)]

/-- `&a | &b` is the bitwise OR of the values, whatever the lengths -/
theorem val_bitor (a b : WRank) : (WRank.bitor a b).val = a.val ||| b.val := by
  unfold WRank.bitor
  split
  · rename_i h
    rw [val_reverse, lval_orFront _ _ (by simp; omega), ← val_eq_lval, ← val_eq_lval]
  · rename_i h
    rw [val_reverse, lval_orFront _ _ (by simp; omega), ← val_eq_lval, ← val_eq_lval, Nat.or_comm]

theorem orFront_eq_zipWith : ∀ (x y : List UInt64), x.length ≤ y.length → orFront x y = List.zipWith (· ||| ·) x y := by
  intro x
  induction x with
  | nil => intro y _; simp [orFront]
  | cons w xs ih =>
    intro y hy
    cases y with
    | nil => simp at hy
    | cons v ys => simp [orFront, ih ys (by simpa using hy)]

theorem val_orFront_same_len (x y : List UInt64) (h : x.length = y.length) :
    WRank.val (orFront x y) = WRank.val x ||| WRank.val y := by
  rw [val_eq_lval, orFront_eq_zipWith x y (by omega), List.reverse_zipWith h,
    ← orFront_eq_zipWith _ _ (by simp; omega), lval_orFront _ _ (by simp; omega), ← val_eq_lval, ← val_eq_lval]

theorem val_append (x y : WRank) : WRank.val (x ++ y) = 2 ^ (64 * y.length) * WRank.val x + WRank.val y := by
  rw [val_eq_lval, val_eq_lval x, val_eq_lval y, List.reverse_append]
  generalize x.reverse = xr
  have : y.length = y.reverse.length := by simp
  rw [this]
  generalize y.reverse = yr
  induction yr with
  | nil => simp [lval]
  | cons w l ih =>
    simp only [List.cons_append, lval, ih, List.length_cons]
    have e : 2 ^ (64 * (l.length + 1)) = 2 ^ 64 * 2 ^ (64 * l.length) := by
      rw [← Nat.pow_add]; congr 1; omega
    rw [e, Nat.mul_add, Nat.mul_assoc]; omega

theorem val_lt (a : WRank) : a.val < 2 ^ (64 * a.length) := by
  rw [val_eq_lval]; simpa using lval_lt a.reverse

/-- `a |= &b` is the bitwise OR of the values **when `a` is not longer than `b`** -/
theorem val_bitorAssign_of_le (a b : WRank) (h : a.length ≤ b.length) :
    (WRank.bitorAssign a b).val = a.val ||| b.val := by
  unfold WRank.bitorAssign
  simp only []
  have hlen : (b.take (b.length - a.length) ++ a).length = b.length := by simp; omega
  rw [val_orFront_same_len _ _ hlen, val_append]
  have hb : b = b.take (b.length - a.length) ++ b.drop (b.length - a.length) := (List.take_append_drop _ _).symm
  have hdl : (b.drop (b.length - a.length)).length = a.length := by simp; omega
  have hbv : b.val = 2 ^ (64 * a.length) * WRank.val (b.take (b.length - a.length)) + WRank.val (b.drop (b.length - a.length)) := by
    conv => lhs; rw [hb]
    rw [val_append, hdl]
  have ha := val_lt a
  have hd := val_lt (b.drop (b.length - a.length))
  rw [hdl] at hd
  rw [hbv, or_split _ _ _ _ _ ha hd]
  have : a.val = 2 ^ (64 * a.length) * 0 + a.val := by simp
  conv => rhs; rw [this]
  rw [or_split _ _ _ _ _ ha hd]
  simp

/-- `count_zeros` = (number of allocated bits) − (number of set bits) -/
theorem countZeros_add_popcount (a : WRank) : a.countZeros + popcount a.val = 64 * a.length := by
  induction a with
  | nil => simp [WRank.countZeros, WRank.val, popcount_zero]
  | cons w a ih =>
    have hv : WRank.val (w :: a) = 2 ^ (64 * a.length) * w.toNat + WRank.val a := by
      have := val_append [w] a
      simpa [WRank.val] using this
    rw [hv, popcount_split _ _ _ (val_lt a)]
    have hw := popcount_le_of_lt_two_pow (UInt64.toNat_lt w)
    simp only [WRank.countZeros, List.map_cons, List.sum_cons, countZeros64, List.length_cons] at ih ⊢
    omega

end Fontc.FeatVars
