/-
  C19 helper lemmas, part 5: an emitted out-of-range value is a different value.
-/
import FontcProofs.CastsBoundary
namespace Fontc.Casts
open Fontc

/-- A font is emitted although the value does not fit: then the reader sees a DIFFERENT value — with the single
    exception of a contour ending exactly at point 65535 (65536 points) in a release build, where the wrapped
    subtraction happens to produce the right end point. -/
theorem emitted_out_of_range_differs_old (f : Field) (v : Rat) (p : Profile) (w : Rat)
    (hr : ¬ Representable f v) (hw : fieldPipelineOld f v p = .ok w) :
    w ≠ ideal f v ∨ (f = .endPt ∧ cnt v = 65536 ∧ p = .release) := by
  cases f
  case comp2x2 =>
    left
    simp only [fieldPipelineOld] at hw
    by_cases hc : -2 ≤ v ∧ v ≤ 2
    · rw [if_pos hc] at hw
      simp only [Representable] at hr
      have hhi : ¬ roundHalfAway (v * 16384) ≤ 32767 := fun x => hr ⟨hc.1, x⟩
      injection hw with hw
      rw [← hw, f2dot14FromF64_eq, satI16_above (by omega)]
      simp only [ideal, f2dot14ToRat]
      intro he
      have : ((32767 : Int) : Rat) = ((roundHalfAway (v * 16384) : Int) : Rat) := by grind
      have := Rat.intCast_inj.1 this
      omega
    · rw [if_neg hc] at hw; cases hw
  case outlineCoord | compOffset | lsb | kernValue | anchorCoord | valueDelta | gvarDelta | hvarDelta | metricI16 | compositeBbox =>
    left
    simp only [Representable] at hr
    simp only [fieldPipelineOld, otRoundI16] at hw
    injection hw with hw
    rw [← hw]; simp only [ideal]
    intro he
    exact satI16_ne hr (Rat.intCast_inj.1 he)
  case advance | metricU16 =>
    left
    simp only [Representable] at hr
    simp only [fieldPipelineOld, otRoundU16] at hw
    injection hw with hw
    rw [← hw]; simp only [ideal]
    intro he
    exact satU16_ne hr (Rat.intCast_inj.1 he)
  case rsbExtent =>
    left
    simp only [Representable] at hr
    simp only [fieldPipelineOld] at hw
    injection hw with hw
    rw [← hw]; simp only [ideal]
    intro he
    exact satI16_ne hr (Rat.intCast_inj.1 he)
  case pointDelta | tsb =>
    left
    simp only [Representable] at hr
    simp only [fieldPipelineOld, subI16, Int.sub_zero] at hw
    rw [if_neg hr] at hw
    cases p
    · cases hw
    · simp only at hw
      injection hw with hw
      rw [← hw]; simp only [ideal]
      intro he
      exact wrapI16_ne hr (Rat.intCast_inj.1 he)
  case glyphCount | longMetricCount =>
    simp only [Representable] at hr
    simp only [fieldPipelineOld] at hw
    rw [if_neg hr] at hw; cases hw
  case numContours =>
    simp only [Representable] at hr
    simp only [fieldPipelineOld] at hw
    rw [if_neg hr] at hw; cases hw
  case countU16 =>
    left
    simp only [Representable] at hr
    simp only [fieldPipelineOld] at hw
    injection hw with hw
    rw [← hw]; simp only [ideal]
    intro he
    have : ¬ inU16 (cnt v) := fun x => hr x.2
    exact wrapU16_ne this (Rat.intCast_inj.1 he)
  case compositeTotal =>
    left
    simp only [Representable] at hr
    simp only [fieldPipelineOld, addU16, Int.zero_add] at hw
    rw [if_neg hr] at hw
    cases p
    · cases hw
    · simp only at hw
      injection hw with hw
      rw [← hw]; simp only [ideal]
      intro he
      have : ¬ inU16 (cnt v) := fun x => hr x.2
      exact wrapU16_ne this (Rat.intCast_inj.1 he)
  case endPt =>
    simp only [Representable] at hr
    simp only [fieldPipelineOld, subU16] at hw
    have hc := cnt_nonneg v
    have hwr := wrapU16_range (cnt v)
    unfold inU16 at hwr
    by_cases h0 : 0 ≤ wrapU16 (cnt v) - 1
    · left
      rw [if_pos h0] at hw
      injection hw with hw
      rw [← hw]; simp only [ideal]
      intro he
      have he := Rat.intCast_inj.1 he
      unfold wrapU16 at he h0
      omega
    · rw [if_neg h0] at hw
      cases p
      · cases hw
      · simp only at hw
        injection hw with hw
        by_cases h6 : cnt v = 65536
        · right; exact ⟨rfl, h6, rfl⟩
        · left
          rw [← hw]; simp only [ideal]
          intro he
          have he := Rat.intCast_inj.1 he
          unfold wrapU16 at he h0
          omega
end Fontc.Casts
