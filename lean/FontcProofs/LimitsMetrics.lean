/-
  Helper lemmas for C17: MetricsBuilder (hmtx/hhea, vmtx/vhea).
-/
import FontcModel.Limits

namespace Fontc.Limits

/-! ### fold of `update` -/

def lmOf (g : GlyphMetric) : LongMetric := ⟨g.advance, g.sideBearing⟩

theorem foldl_update_longMetrics (gs : List GlyphMetric) (b : MetricsBuilder) :
    (gs.foldl MetricsBuilder.update b).longMetrics = b.longMetrics ++ gs.map lmOf := by
  induction gs generalizing b with
  | nil => simp
  | cons g gs ih =>
    simp only [List.foldl_cons, ih, List.map_cons]
    unfold MetricsBuilder.update
    cases g.boundsAdvance <;> simp [lmOf]

theorem foldl_update_advanceMax (gs : List GlyphMetric) (b : MetricsBuilder) :
    (gs.foldl MetricsBuilder.update b).advanceMax = (gs.map (·.advance)).foldl max b.advanceMax := by
  induction gs generalizing b with
  | nil => simp
  | cons g gs ih =>
    simp only [List.foldl_cons, ih, List.map_cons]
    unfold MetricsBuilder.update
    cases g.boundsAdvance <;> simp

/-- glyphs with a bounding box, as (advance, side bearing, bounds advance) -/
def boxed (gs : List GlyphMetric) : List (Nat × Int × Int) :=
  gs.filterMap fun g => g.boundsAdvance.map fun ba => (g.advance, g.sideBearing, ba)

def secondOf (t : Nat × Int × Int) : Int := clampI16 ((t.1 : Int) - t.2.1 - t.2.2)
def extentOf (t : Nat × Int × Int) : Int := clampI16 (t.2.1 + t.2.2)

theorem foldl_update_minFirst (gs : List GlyphMetric) (b : MetricsBuilder) :
    (gs.foldl MetricsBuilder.update b).minFirst = ((boxed gs).map (·.2.1)).foldl optMin b.minFirst := by
  induction gs generalizing b with
  | nil => simp [boxed]
  | cons g gs ih =>
    simp only [List.foldl_cons, ih]
    unfold MetricsBuilder.update boxed
    cases h : g.boundsAdvance <;> simp [h]

theorem foldl_update_minSecond (gs : List GlyphMetric) (b : MetricsBuilder) :
    (gs.foldl MetricsBuilder.update b).minSecond = ((boxed gs).map secondOf).foldl optMin b.minSecond := by
  induction gs generalizing b with
  | nil => simp [boxed]
  | cons g gs ih =>
    simp only [List.foldl_cons, ih]
    unfold MetricsBuilder.update boxed
    cases h : g.boundsAdvance <;> simp [h, secondOf]

theorem foldl_update_maxExtent (gs : List GlyphMetric) (b : MetricsBuilder) :
    (gs.foldl MetricsBuilder.update b).maxExtent = ((boxed gs).map extentOf).foldl optMax b.maxExtent := by
  induction gs generalizing b with
  | nil => simp [boxed]
  | cons g gs ih =>
    simp only [List.foldl_cons, ih]
    unfold MetricsBuilder.update boxed
    cases h : g.boundsAdvance <;> simp [h, extentOf]

/-! ### extrema of folds -/

theorem foldl_max_nat (xs : List Nat) (v0 : Nat) :
    v0 ≤ xs.foldl max v0 ∧ (∀ x ∈ xs, x ≤ xs.foldl max v0) ∧ (xs.foldl max v0 = v0 ∨ xs.foldl max v0 ∈ xs) := by
  induction xs generalizing v0 with
  | nil => simp
  | cons x xs ih =>
    simp only [List.foldl_cons, List.mem_cons]
    have h := ih (max v0 x)
    refine ⟨by omega, ?_, ?_⟩
    · intro y hy
      rcases hy with rfl | hy
      · omega
      · exact h.2.1 y hy
    · rcases h.2.2 with h1 | h1
      · rw [h1]
        by_cases hx : v0 ≤ x
        · right; left; omega
        · left; omega
      · right; right; exact h1

theorem foldl_optMin_some (xs : List Int) (v0 : Int) :
    ∃ v, xs.foldl optMin (some v0) = some v ∧ v ≤ v0 ∧ (∀ x ∈ xs, v ≤ x) ∧ (v = v0 ∨ v ∈ xs) := by
  induction xs generalizing v0 with
  | nil => exact ⟨v0, rfl, by omega, by simp, Or.inl rfl⟩
  | cons x xs ih =>
    simp only [List.foldl_cons, optMin]
    obtain ⟨v, hv, h1, h2, h3⟩ := ih (min v0 x)
    refine ⟨v, hv, by omega, ?_, ?_⟩
    · intro y hy
      rcases List.mem_cons.1 hy with rfl | hy
      · omega
      · exact h2 y hy
    · rcases h3 with h3 | h3
      · by_cases hx : v0 ≤ x
        · left; omega
        · right; exact List.mem_cons.2 (Or.inl (by omega))
      · right; exact List.mem_cons_of_mem _ h3

theorem foldl_optMax_some (xs : List Int) (v0 : Int) :
    ∃ v, xs.foldl optMax (some v0) = some v ∧ v0 ≤ v ∧ (∀ x ∈ xs, x ≤ v) ∧ (v = v0 ∨ v ∈ xs) := by
  induction xs generalizing v0 with
  | nil => exact ⟨v0, rfl, by omega, by simp, Or.inl rfl⟩
  | cons x xs ih =>
    simp only [List.foldl_cons, optMax]
    obtain ⟨v, hv, h1, h2, h3⟩ := ih (max v0 x)
    refine ⟨v, hv, by omega, ?_, ?_⟩
    · intro y hy
      rcases List.mem_cons.1 hy with rfl | hy
      · omega
      · exact h2 y hy
    · rcases h3 with h3 | h3
      · by_cases hx : x ≤ v0
        · left; omega
        · right; exact List.mem_cons.2 (Or.inl (by omega))
      · right; exact List.mem_cons_of_mem _ h3

theorem isMinOr0_fold (xs : List Int) : IsMinOr0 ((xs.foldl optMin none).getD 0) xs := by
  cases xs with
  | nil => simp [IsMinOr0]
  | cons x xs =>
    simp only [List.foldl_cons, optMin]
    obtain ⟨v, hv, h1, h2, h3⟩ := foldl_optMin_some xs x
    rw [hv]
    refine ⟨by simp, fun _ => ⟨?_, ?_⟩⟩
    · intro y hy
      rcases List.mem_cons.1 hy with rfl | hy
      · exact h1
      · exact h2 y hy
    · rcases h3 with rfl | h3
      · simp
      · exact List.mem_cons_of_mem _ h3

theorem isMaxOr0_fold (xs : List Int) : IsMaxOr0 ((xs.foldl optMax none).getD 0) xs := by
  cases xs with
  | nil => simp [IsMaxOr0]
  | cons x xs =>
    simp only [List.foldl_cons, optMax]
    obtain ⟨v, hv, h1, h2, h3⟩ := foldl_optMax_some xs x
    rw [hv]
    refine ⟨by simp, fun _ => ⟨?_, ?_⟩⟩
    · intro y hy
      rcases List.mem_cons.1 hy with rfl | hy
      · exact h1
      · exact h2 y hy
    · rcases h3 with rfl | h3
      · simp
      · exact List.mem_cons_of_mem _ h3

theorem isMaxNat_fold (xs : List Nat) : IsMaxNat (xs.foldl max 0) xs := by
  obtain ⟨_, h2, h3⟩ := foldl_max_nat xs 0
  exact ⟨h2, by rcases h3 with h | h; exact Or.inr h; exact Or.inl h⟩

/-! ### the trailing run of equal advances -/

/-- every element of the last `(xs.reverse.takeWhile p).length` elements of `xs` satisfies `p` -/
theorem suffix_all_of_takeWhile_reverse {α} (p : α → Bool) (xs : List α) :
    ∀ x ∈ xs.drop (xs.length - (xs.reverse.takeWhile p).length), p x = true := by
  intro x hx
  have hpre : xs.reverse.takeWhile p <+: xs.reverse := List.takeWhile_prefix p
  have heq := List.prefix_iff_eq_take.1 hpre
  rw [List.take_reverse] at heq
  have hall : (xs.reverse.takeWhile p).all p = true := List.all_takeWhile
  rw [heq] at hall
  simp only [List.all_reverse, List.all_eq_true] at hall
  exact hall x hx

theorem takeWhile_reverse_length_le {α} (p : α → Bool) (xs : List α) :
    (xs.reverse.takeWhile p).length ≤ xs.length := by
  have := (List.takeWhile_prefix p (l := xs.reverse)).length_le
  simpa using this

theorem lsbRun_pos (ms : List LongMetric) (h : ms ≠ []) : 1 ≤ lsbRun ms := by
  unfold lsbRun
  obtain ⟨l, hl⟩ : ∃ l, ms.getLast? = some l := by
    cases hm : ms.getLast? with
    | none => simp [List.getLast?_eq_none_iff] at hm; exact absurd hm h
    | some l => exact ⟨l, rfl⟩
  rw [hl]
  have hrev : ms.reverse.head? = some l := by simpa using hl
  cases hr : ms.reverse with
  | nil => simp [hr] at hrev
  | cons a r =>
    rw [hr] at hrev
    simp only [List.head?_cons, Option.some.injEq] at hrev
    subst hrev
    simp

theorem lsbRun_le (ms : List LongMetric) : lsbRun ms ≤ ms.length := by
  unfold lsbRun
  cases ms.getLast? with
  | none => simp
  | some l => exact takeWhile_reverse_length_le _ _

/-- Core of `hmtx_expands_to_input`: cutting `numLsbOnly` entries off the end and re-expanding them
    with the advance of the last retained record gives back the list. -/
theorem expand_build_eq (ms : List LongMetric) (cut : Nat) (hcutdef : cut = ms.length - numLsbOnly ms) :
    hmtxExpand (ms.take cut) ((ms.drop cut).map (·.sideBearing)) = ms := by
  by_cases hne : ms = []
  · subst hne; simp [hmtxExpand]
  obtain ⟨l, hl⟩ : ∃ l, ms.getLast? = some l := by
    cases hm : ms.getLast? with
    | none => simp [List.getLast?_eq_none_iff] at hm; exact absurd hm hne
    | some l => exact ⟨l, rfl⟩
  have hpos := lsbRun_pos ms hne
  have hle := lsbRun_le ms
  have hlen : 0 < ms.length := List.length_pos_iff.2 hne
  have hk : numLsbOnly ms = lsbRun ms - 1 := by simp [numLsbOnly, hne]
  -- all of the last `lsbRun` entries carry the last advance
  have hall : ∀ x ∈ ms.drop (ms.length - lsbRun ms), x.advance = l.advance := by
    intro x hx
    have := suffix_all_of_takeWhile_reverse (fun m : LongMetric => m.advance == l.advance) ms x
    unfold lsbRun at hx
    rw [hl] at hx
    simpa using this hx
  have hcut : cut = (ms.length - lsbRun ms) + 1 := by omega
  have hi : ms.length - lsbRun ms < ms.length := by omega
  -- split ms = A ++ z :: s'
  have hsplit : ms.drop (ms.length - lsbRun ms) = ms[ms.length - lsbRun ms] :: ms.drop cut := by
    rw [hcut]; exact List.drop_eq_getElem_cons hi
  have hz : (ms[ms.length - lsbRun ms]).advance = l.advance :=
    hall _ (by rw [hsplit]; exact List.mem_cons_self)
  have hrest : ∀ x ∈ ms.drop cut, x.advance = l.advance := fun x hx =>
    hall x (by rw [hsplit]; exact List.mem_cons_of_mem _ hx)
  have htake : ms.take cut = ms.take (ms.length - lsbRun ms) ++ [ms[ms.length - lsbRun ms]] := by
    rw [hcut]; exact List.take_succ_eq_append_getElem hi
  have hlast : (ms.take cut).getLast? = some (ms[ms.length - lsbRun ms]) := by
    rw [htake, List.getLast?_concat]
  unfold hmtxExpand
  rw [hlast]
  simp only [List.map_map]
  have hmap : (ms.drop cut).map ((fun sb => (⟨(ms[ms.length - lsbRun ms]).advance, sb⟩ : LongMetric)) ∘ (·.sideBearing))
      = ms.drop cut := by
    rw [List.map_congr_left (g := id)]
    · simp
    · intro x hx
      have hxa := hrest x hx
      cases x with
      | mk a sb =>
        simp only [Function.comp, id, LongMetric.mk.injEq, and_true]
        simp only at hxa
        rw [hz, hxa]
  rw [hmap, List.take_append_drop]

theorem numLsbOnly_lt (ms : List LongMetric) (h : ms ≠ []) : numLsbOnly ms < ms.length := by
  have hpos := lsbRun_pos ms h
  have hle := lsbRun_le ms
  have hlen : 0 < ms.length := List.length_pos_iff.2 h
  simp [numLsbOnly, h]; omega

end Fontc.Limits
