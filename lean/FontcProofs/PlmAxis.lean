/-
  C08 helper lemmas, part 4: from an `AxisDef` (what the source says) through `CoordConverter::new`
  to the `Sorted` facts of part 3.
-/
import FontcProofs.PlmAvar

namespace Fontc.PlmProofs
open Fontc Fontc.Plm Fontc.Avar

/-- `CoordConverter::new` succeeds exactly when the default index is in bounds, and these are its maps. -/
theorem conv_new_ok (ms : List Pt) (idx : Nat) (df dd : Rat) (h : ms[idx]? = some (df, dd)) :
    ∃ d0 ds c, ms.map (·.2) = d0 :: ds ∧ Conv.new ms idx = .ok c ∧
      c.userToDesign = Plm.new ms ∧
      c.designToNormalized = Plm.new (normExamples (listMin d0 ds) dd (listMax d0 ds)) := by
  cases ms with
  | nil => simp at h
  | cons m ms =>
    refine ⟨m.2, ms.map (·.2), ?_⟩
    have hd : ((m :: ms).map (·.2))[idx]? = some dd := by
      rw [List.getElem?_map, h]; rfl
    simp only [List.map_cons] at hd
    simp only [Conv.new, List.isEmpty_cons, Bool.false_eq_true, if_false, List.map_cons, hd]
    exact ⟨_, trivial, rfl, rfl, rfl⟩

theorem ptLe_trans (a b c : Pt) (h1 : ptLe a b = true) (h2 : ptLe b c = true) : ptLe a c = true := by
  simp only [ptLe, Bool.or_eq_true, decide_eq_true_eq, Bool.and_eq_true, beq_iff_eq] at *
  rcases h1 with h1 | ⟨h1, h1'⟩ <;> rcases h2 with h2 | ⟨h2, h2'⟩
  · left; linarith
  · left; linarith
  · left; linarith
  · right; exact ⟨by linarith, by linarith⟩

theorem ptLe_total (a b : Pt) : (ptLe a b || ptLe b a) = true := by
  simp only [ptLe, Bool.or_eq_true, decide_eq_true_eq, Bool.and_eq_true, beq_iff_eq]
  rcases lt_trichotomy a.1 b.1 with h | h | h
  · left; left; exact h
  · rcases le_total a.2 b.2 with h2 | h2
    · left; right; exact ⟨h, h2⟩
    · right; right; exact ⟨h.symm, h2⟩
  · right; left; exact h

variable (a : AxisDef)

/-- everything the proofs need, extracted from a well-formed axis definition -/
theorem wf_sorted (h : a.WellFormed) :
    Sorted a.nodes a.min a.default a.max a.designMin a.designDefault a.designMax := by
  obtain ⟨dd, hdd⟩ := h.defaultNode
  obtain ⟨dlo, hlo⟩ := h.minFirst
  obtain ⟨dhi, hhi⟩ := h.maxLast
  have hmem : (a.default, dd) ∈ a.nodes := by
    simp only [AxisDef.nodes, Plm.new, mem_sortPts]
    exact List.mem_of_getElem? hdd
  have hS : Sorted a.nodes a.min a.default a.max dlo dd dhi := ⟨h.sorted, hmem, hlo, hhi⟩
  have e2 : a.designDefault = dd := by simp [AxisDef.designDefault, hdd]
  -- the designs of the examples are the designs of the sorted vertices
  have hmemd : ∀ d, d ∈ a.mappings.map (·.2) ↔ ∃ n ∈ a.nodes, n.2 = d := by
    intro d
    simp only [AxisDef.nodes, Plm.new, mem_sortPts, List.mem_map]
  have e1 : a.designMin = dlo := by
    unfold AxisDef.designMin
    cases hm : a.mappings.map (·.2) with
    | nil =>
      have : dd ∈ a.mappings.map (·.2) := (hmemd dd).mpr ⟨_, hmem, rfl⟩
      rw [hm] at this; simp at this
    | cons d0 ds =>
      simp only
      apply listMin_eq
      · rw [← hm]; exact (hmemd dlo).mpr ⟨_, hS.head_mem, rfl⟩
      · intro d hd
        rw [← hm] at hd
        obtain ⟨n, hn, rfl⟩ := (hmemd d).mp hd
        exact (hS.bounds n hn).2.2.1
  have e3 : a.designMax = dhi := by
    unfold AxisDef.designMax
    cases hm : a.mappings.map (·.2) with
    | nil =>
      have : dd ∈ a.mappings.map (·.2) := (hmemd dd).mpr ⟨_, hmem, rfl⟩
      rw [hm] at this; simp at this
    | cons d0 ds =>
      simp only
      apply listMax_eq
      · rw [← hm]; exact (hmemd dhi).mpr ⟨_, hS.last_mem, rfl⟩
      · intro d hd
        rw [← hm] at hd
        obtain ⟨n, hn, rfl⟩ := (hmemd d).mp hd
        exact (hS.bounds n hn).2.2.2
  rw [e1, e2, e3]; exact hS

/-- the converter fontc builds for a well-formed axis definition -/
theorem wf_axis (h : a.WellFormed) :
    ∃ ax, a.axis? = some ax ∧ ax.min = a.min ∧ ax.default = a.default ∧ ax.max = a.max ∧
      ax.conv.userToDesign = ⟨a.nodes⟩ ∧
      ax.conv.designToNormalized = Plm.new (normExamples a.designMin a.designDefault a.designMax) := by
  obtain ⟨dd, hdd⟩ := h.defaultNode
  obtain ⟨d0, ds, c, hm, hc, hu, hn⟩ := conv_new_ok a.mappings a.defaultIdx a.default dd hdd
  refine ⟨⟨a.min, a.default, a.max, c⟩, ?_, rfl, rfl, rfl, ?_, ?_⟩
  · simp [AxisDef.axis?, hc]
  · simp only [hu, AxisDef.nodes]
  · simp only [hn, AxisDef.designMin, AxisDef.designMax, AxisDef.designDefault, hm, hdd]
    rfl

/-- every `u` between the first and last vertex is a vertex or lies in a segment -/
theorem exists_segment (u : Rat) : ∀ (ns : List Pt) (f l : Pt), ns.head? = some f → ns.getLast? = some l →
    f.1 ≤ u → u ≤ l.1 → (∃ n ∈ ns, n.1 = u) ∨ ∃ p q, Consec p q ns ∧ p.1 ≤ u ∧ u ≤ q.1 := by
  intro ns
  induction ns with
  | nil => intro f l hf; simp at hf
  | cons x t ih =>
    intro f l hf hl h1 h2
    have hx : x = f := by simpa using hf
    subst hx
    cases t with
    | nil =>
      have : x = l := by simpa using hl
      subst this
      left; exact ⟨x, by simp, le_antisymm h1 h2⟩
    | cons y t =>
      by_cases c : u ≤ y.1
      · right; exact ⟨x, y, Consec.head x y t, h1, c⟩
      · have hl' : (y :: t).getLast? = some l := by simpa [List.getLast?_cons_cons] using hl
        rcases ih y l (by simp) hl' (le_of_lt (not_le.mp c)) h2 with ⟨n, hn, e⟩ | ⟨p, q, hc, hp, hq⟩
        · left; exact ⟨n, List.mem_cons_of_mem _ hn, e⟩
        · right; exact ⟨p, q, hc.cons x, hp, hq⟩

theorem Sorted.map_range {ns : List Pt} {mn df mx dmin ddef dmax : Rat}
    (h : Sorted ns mn df mx dmin ddef dmax) (u : Rat) (hu1 : mn ≤ u) (hu2 : u ≤ mx) :
    dmin ≤ Plm.map ⟨ns⟩ u ∧ Plm.map ⟨ns⟩ u ≤ dmax := by
  rcases exists_segment u ns (mn, dmin) (mx, dmax) h.hhead h.hlast hu1 hu2 with ⟨n, hn, e⟩ | ⟨p, q, hc, hp, hq⟩
  · rw [← e, map_vertex ns h.strict n hn]
    have := h.bounds n hn
    exact ⟨this.2.2.1, this.2.2.2⟩
  · rw [map_consec ns h.strict p q hc u hp hq]
    obtain ⟨r1, r2⟩ := h.consec_rel p q hc
    have hI := interp_mem p q u r1 r2 hp hq
    have bp := h.bounds p hc.mem_left
    have bq := h.bounds q hc.mem_right
    exact ⟨le_trans bp.2.2.1 hI.1, le_trans hI.2 bq.2.2.2⟩

/-- fontc's own user → normalized conversion is "user → design, then the property's design normalisation" -/
theorem wf_toNormalized (h : a.WellFormed) (ax : Axis) (hax : a.axis? = some ax) (u : Rat)
    (hu1 : a.min ≤ u) (hu2 : u ≤ a.max) :
    ax.conv.toNormalized u = designNormalize a.designMin a.designDefault a.designMax (ax.conv.toDesign u) := by
  obtain ⟨ax', hax', _, _, _, hu2d, hd2n⟩ := wf_axis a h
  have : ax = ax' := by rw [hax] at hax'; exact Option.some.inj hax'
  subst this
  have hS := wf_sorted a h
  obtain ⟨_, _, o3, o4⟩ := hS.order
  have hr := hS.map_range u hu1 hu2
  unfold Conv.toNormalized Conv.designToNorm Conv.toDesign
  rw [hd2n, hu2d]
  exact d2n_closed _ _ _ _ o3 o4 hr.1 hr.2

/-- the un-padded list `to_segment_map` starts from -/
theorem wf_rawMappings (h : a.WellFormed) (ax : Axis) (hax : a.axis? = some ax) :
    rawMappings ax = rawOf a.nodes a.min a.default a.max a.designMin a.designDefault a.designMax := by
  have hS := wf_sorted a h
  obtain ⟨o1, o2, o3, o4⟩ := hS.order
  obtain ⟨ax', hax', e1, e2, e3, hu2d, hd2n⟩ := wf_axis a h
  have : ax = ax' := by rw [hax] at hax'; exact Option.some.inj hax'
  subst this
  unfold rawMappings Conv.iter rawOf Axis.defaultConverter
  rw [hu2d, List.map_map, e1, e2, e3]
  apply List.map_congr_left
  intro n hn
  have bn := hS.bounds n hn
  simp only [Function.comp]
  rw [defaultConv_toNormalized a.min a.default a.max n.1 o1 o2 bn.1 bn.2.1,
      wf_toNormalized a h ax hax n.1 bn.1 bn.2.1]
  simp only [phi, psi, Conv.toDesign, hu2d]

/-- **`avar_agrees`**, helper form. -/
theorem wf_avar_agrees (h : a.WellFormed) (ax : Axis) (hax : a.axis? = some ax) (u : Rat)
    (hu1 : a.min ≤ u) (hu2 : u ≤ a.max) :
    avarApply (segmentMapExact ax) (defaultNormalize a.min a.default a.max u) =
      designNormalize a.designMin a.designDefault a.designMax (ax.conv.toDesign u) := by
  have hS := wf_sorted a h
  obtain ⟨ax', hax', _, _, _, hu2d, _⟩ := wf_axis a h
  have : ax = ax' := by rw [hax] at hax'; exact Option.some.inj hax'
  subst this
  unfold segmentMapExact
  simp only []
  rw [wf_rawMappings a h ax hax]
  have := hS.elided_agrees u hu1 hu2
  simp only [phi, psi] at this
  simp only [Conv.toDesign, hu2d]
  exact this

end Fontc.PlmProofs
