/-
  Triangularity of the variation model (fontdrasil/src/variations.rs: regions_for, master_influence,
  scalar_at) — the central lemma behind C03/C04/C07/C09/C10.

  For a list of locations `locs` with (H1) a common axis count, (H2) pairwise distinct entries and
  (H3) non-decreasing rank (number of non-zero coordinates), and
  `infl := masterInfluence (regionsFor locs)`:
    T1 `masterInfluence_length`        infl.length = locs.length
    T2 `masterInfluence_self_scalar`   scalarAt infl[j] locs[j] = 1
    T3 `masterInfluence_triangular`    i < j → scalarAt infl[j] locs[i] = 0
    T4 `masterInfluence_tents_valid`   every tent is valid (and C07-well-formed for normalized input)
    T5 `masterInfluence_scalar_unit`   0 ≤ scalarAt r p ≤ 1 for every region r of infl and every p
  Each theorem lists only the hypotheses it needs (T1 and T5 need none, T2 and T4 only H1).

  Proof architecture (helpers in VarModelGeom1/2.lean, namespace `Fontc.VarModel.Geom`):
  `RegInv locs l r` ties a region to its location (peaks = coordinates, sign-correct ordered tents,
  min/max are 0 or a coordinate of the column); `regionFor_inv` establishes it, `influenceStep_spec`
  shows one step preserves it, only shrinks tents (`ShrAll`), and — when supports agree and the
  locations differ — leaves the previous master "killed" (`KilledBy`: on some active axis its
  coordinate is outside the open support).  `fold_spec` lifts this to the inner loop,
  `masterInfluenceAux_good` to the outer loop.
-/
import FontcProofs.VarModelGeom2

namespace Fontc.VarModel.Geom
open Fontc Fontc.VarModel

theorem RegInv.activeAxes {locs : List Loc} {l : Loc} {r : Region} (h : RegInv locs l r) :
    activeAxes r = l.map nz := by
  apply List.ext_getElem?
  intro a
  simp only [VarModel.activeAxes, List.getElem?_map]
  cases hr : r[a]? with
  | none =>
    have : l[a]? = none := by
      rw [List.getElem?_eq_none_iff] at hr ⊢
      rw [← h.2.1]; exact hr
    simp [this]
  | some t =>
    obtain ⟨v, hv, hpk, ho, _⟩ := h.of_get hr
    have e1 := ho.hasNonZero
    have e2 := nz_iff v
    simp only [hv, Option.map_some, Option.some.injEq]
    cases h1 : t.hasNonZero <;> cases h2 : nz v <;> grind

/-- Folding `influenceStep` over earlier influence regions keeps the invariant, only shrinks, and
    kills every earlier master with the same support. -/
theorem fold_spec {locs : List Loc} {l : Loc} (ps : List Region) (r : Region)
    (hr : RegInv locs l r)
    (hps : ∀ p ∈ ps, ∃ l', RegInv locs l' p ∧ l'.length = l.length) :
    RegInv locs l (ps.foldl influenceStep r) ∧ ShrAll r (ps.foldl influenceStep r) ∧
    ∀ p ∈ ps, ∀ l', RegInv locs l' p → l'.length = l.length → l'.map nz = l.map nz → l' ≠ l →
      KilledBy (ps.foldl influenceStep r) p := by
  induction ps generalizing r with
  | nil => exact ⟨hr, ShrAll.refl r, by simp⟩
  | cons p ps ih =>
    obtain ⟨l0, hp0, hlen0⟩ := hps p (by simp)
    obtain ⟨s1, s2, s3⟩ := influenceStep_spec hr hp0 hlen0.symm
    obtain ⟨i1, i2, i3⟩ := ih (influenceStep r p) s1 (fun q hq => hps q (by simp [hq]))
    simp only [List.foldl_cons]
    refine ⟨i1, s2.trans i2, ?_⟩
    intro q hq l' hq' hlen hsupp hne
    rcases List.mem_cons.1 hq with rfl | hq
    · have hact : activeAxes r = activeAxes q := by rw [hr.activeAxes, hq'.activeAxes, hsupp]
      -- the location of `q` is determined by its peaks, so `l' = l0` is not needed:
      obtain ⟨_, _, s3'⟩ := influenceStep_spec hr hq' hlen.symm
      exact (s3' hact hne).shr i2
    · exact i3 q hq l' hq' hlen hsupp hne

/-- The invariant carried along `masterInfluenceAux`. -/
def Good (locs : List Loc) (pre : List Loc) (acc : List Region) : Prop :=
  acc.length = pre.length ∧
  ∀ (j : Nat) (l : Loc) (r : Region), pre[j]? = some l → acc[j]? = some r →
    RegInv locs l r ∧
    ∀ (i : Nat) (l' : Loc) (p : Region), i < j → pre[i]? = some l' → acc[i]? = some p →
      l'.map nz = l.map nz → l' ≠ l → KilledBy r p

theorem masterInfluenceAux_good {locs : List Loc} {n : Nat} (suf pre : List Loc) (acc : List Region)
    (hg : Good locs pre acc) (hn : ∀ l ∈ pre ++ suf, l ∈ locs ∧ l.length = n) :
    Good locs (pre ++ suf) (masterInfluenceAux acc (suf.map (regionFor locs))) := by
  induction suf generalizing pre acc with
  | nil => simpa [masterInfluenceAux] using hg
  | cons l suf ih =>
    simp only [List.map_cons, masterInfluenceAux]
    have hl := hn l (by simp)
    have hps : ∀ p ∈ acc, ∃ l', RegInv locs l' p ∧ l'.length = l.length := by
      intro p hp
      obtain ⟨i, hi, rfl⟩ := List.mem_iff_getElem.1 hp
      have hi' : i < pre.length := hg.1 ▸ hi
      refine ⟨pre[i], (hg.2 i pre[i] acc[i] (List.getElem?_eq_getElem hi')
        (List.getElem?_eq_getElem hi)).1, ?_⟩
      rw [(hn pre[i] (by simp)).2, hl.2]
    obtain ⟨f1, _, f3⟩ := fold_spec acc (regionFor locs l) (regionFor_inv hl.1) hps
    have := ih (pre ++ [l]) (acc ++ [acc.foldl influenceStep (regionFor locs l)]) ?_ (by simpa using hn)
    · simpa using this
    · refine ⟨by simp [hg.1], ?_⟩
      intro j l2 r h1 h2
      by_cases hj : j < pre.length
      · have hj' : j < acc.length := hg.1 ▸ hj
        rw [List.getElem?_append_left hj] at h1
        rw [List.getElem?_append_left hj'] at h2
        obtain ⟨g1, g2⟩ := hg.2 j l2 r h1 h2
        refine ⟨g1, ?_⟩
        intro i l' p hi h3 h4
        rw [List.getElem?_append_left (by omega)] at h3
        rw [List.getElem?_append_left (by omega)] at h4
        exact g2 i l' p hi h3 h4
      · have hj' : ¬ j < acc.length := hg.1 ▸ hj
        rw [List.getElem?_append_right (by omega)] at h1 h2
        have hj2 : j = pre.length := by
          apply Classical.byContradiction; intro hc
          rw [List.getElem?_eq_none (by simp; omega)] at h1; simp at h1
        subst hj2
        simp [hg.1] at h1 h2
        subst h1 h2
        refine ⟨f1, ?_⟩
        intro i l' p hi h3 h4 hs hne
        have hlen := hg.1
        rw [List.getElem?_append_left (by omega)] at h3
        rw [List.getElem?_append_left (by omega)] at h4
        have hmem : p ∈ acc := List.mem_of_getElem? h4
        have hinv := (hg.2 i l' p h3 h4).1
        have hl' := hn l' (by simp [List.mem_of_getElem? h3])
        exact f3 p hmem l' hinv (by rw [hl'.2, hl.2]) hs hne

theorem masterInfluence_good {locs : List Loc} {n : Nat} (hn : ∀ l ∈ locs, l.length = n) :
    Good locs locs (masterInfluence (regionsFor locs)) := by
  have := masterInfluenceAux_good (locs := locs) (n := n) locs [] [] ⟨rfl, by simp⟩
    (by simpa using fun l hl => ⟨hl, hn l hl⟩)
  simpa [masterInfluence, regionsFor] using this

end Fontc.VarModel.Geom

namespace Fontc.VarModel
open Fontc Fontc.VarModel Fontc.VarModel.Geom

theorem masterInfluenceAux_length (acc rs : List Region) :
    (masterInfluenceAux acc rs).length = acc.length + rs.length := by
  induction rs generalizing acc with
  | nil => simp [masterInfluenceAux]
  | cons r rs ih => simp [masterInfluenceAux, ih]; omega

/-- (T1) one influence region per location. -/
theorem masterInfluence_length (locs : List Loc) :
    (masterInfluence (regionsFor locs)).length = locs.length := by
  simp [masterInfluence, masterInfluenceAux_length, regionsFor]

/-- (T2) self-scalar. -/
theorem masterInfluence_self_scalar {n : Nat} {locs : List Loc}
    (H1 : ∀ l ∈ locs, l.length = n)
    (j : Nat) (r : Region) (l : Loc)
    (hr : (masterInfluence (regionsFor locs))[j]? = some r) (hl : locs[j]? = some l) :
    scalarAt r l = 1 := by
  obtain ⟨hinv, _⟩ := (masterInfluence_good H1).2 j l r hl hr
  apply scalarAt_eq_one (by rw [hinv.2.1]; exact Nat.le_refl _)
  intro a t v h1 h2
  have := (hinv.2.2 a t v h1 h2).1
  rw [← this]; exact tentFactor_peak t

/-- (T3) triangularity: the influence region of master `j` vanishes at every earlier master. -/
theorem masterInfluence_triangular {n : Nat} {locs : List Loc}
    (H1 : ∀ l ∈ locs, l.length = n)
    (H2 : locs.Pairwise (· ≠ ·))
    (H3 : locs.Pairwise (fun a b => rank a ≤ rank b))
    (i j : Nat) (hij : i < j) (r : Region) (l' : Loc)
    (hr : (masterInfluence (regionsFor locs))[j]? = some r) (hl' : locs[i]? = some l') :
    scalarAt r l' = 0 := by
  have hg := masterInfluence_good H1
  have hj : j < locs.length := by
    rw [← masterInfluence_length]; exact (List.getElem?_eq_some_iff.1 hr).1
  have hi : i < locs.length := (List.getElem?_eq_some_iff.1 hl').1
  have hl'eq : locs[i] = l' := (List.getElem?_eq_some_iff.1 hl').2
  have hl : locs[j]? = some locs[j] := List.getElem?_eq_getElem hj
  have hne : l' ≠ locs[j] := hl'eq ▸ (List.pairwise_iff_getElem.1 H2 i j hi hj hij)
  have hrk : rank l' ≤ rank locs[j] := hl'eq ▸ (List.pairwise_iff_getElem.1 H3 i j hi hj hij)
  generalize locs[j] = l at hl hne hrk
  have hi2 : i < (masterInfluence (regionsFor locs)).length := by rw [masterInfluence_length]; exact hi
  obtain ⟨hinv, hk⟩ := hg.2 j l r hl hr
  have hp := List.getElem?_eq_getElem hi2
  generalize (masterInfluence (regionsFor locs))[i] = p at hp
  have hpinv := (hg.2 i l' p hl' hp).1
  have hlen : l.length = l'.length := by
    rw [H1 l (List.mem_of_getElem? hl), H1 l' (List.mem_of_getElem? hl')]
  by_cases hA : ∃ (a : Nat) (v v' : Rat), l[a]? = some v ∧ l'[a]? = some v' ∧ v ≠ 0 ∧ v' = 0
  · -- Case A: an axis used by master j but not by master i
    obtain ⟨a, v, v', h1, h2, h3, h4⟩ := hA
    obtain ⟨t, ht, hpk, ho⟩ := hinv.of_get_loc h1
    refine scalarAt_eq_zero ⟨a, t, v', ht, h2, tentFactor_eq_zero ho ?_ ?_ ?_⟩
    all_goals (unfold TentOrd at ho; grind)
  · -- Case B: equal supports; the cut against influence region i killed location i
    have hs : l'.map nz = l.map nz := by
      apply support_eq l l' hlen _ hrk
      intro a v v' h1 h2 h3 h4
      exact hA ⟨a, v, v', h1, h2, h3, h4⟩
    obtain ⟨a, t, q, k1, k2, k3, k4, k5⟩ := hk i l' p hij hl' hp hs hne
    obtain ⟨v', hv', hq, _⟩ := hpinv.of_get k2
    obtain ⟨_, _, _, ho, _⟩ := hinv.of_get k1
    subst hq
    exact scalarAt_eq_zero ⟨a, t, q.peak, k1, hv', tentFactor_eq_zero ho k3 k4 k5⟩

theorem Geom.InCol_bound {locs : List Loc} {a : Nat} {x : Rat} (h : InCol locs a x)
    (hb : ∀ l ∈ locs, ∀ y ∈ l, -1 ≤ y ∧ y ≤ 1) : -1 ≤ x ∧ x ≤ 1 := by
  rcases h with rfl | ⟨l, hl, rfl⟩
  · constructor <;> grind
  · cases h : l[a]? with
    | none => simp [List.getD, h]; constructor <;> grind
    | some y => simp [List.getD, h]; exact hb l hl y (List.mem_of_getElem? h)

/-- (T4) every tent of every influence region is valid; with normalized coordinates it is
    well formed in the sense of C07. -/
theorem masterInfluence_tents_valid {n : Nat} {locs : List Loc}
    (H1 : ∀ l ∈ locs, l.length = n)
    (r : Region) (hr : r ∈ masterInfluence (regionsFor locs)) (t : Tent) (ht : t ∈ r) :
    (t.min ≤ t.peak ∧ t.peak ≤ t.max ∧ ¬ (t.min < 0 ∧ 0 < t.max)) ∧
    ((∀ l ∈ locs, ∀ x ∈ l, -1 ≤ x ∧ x ≤ 1) → t.wellFormed = true) := by
  have hg := masterInfluence_good H1
  obtain ⟨j, hj, rfl⟩ := List.mem_iff_getElem.1 hr
  obtain ⟨a, ha, rfl⟩ := List.mem_iff_getElem.1 ht
  have hj' : j < locs.length := by rw [← masterInfluence_length]; exact hj
  obtain ⟨hinv, _⟩ := hg.2 j locs[j] _ (List.getElem?_eq_getElem hj') (List.getElem?_eq_getElem hj)
  obtain ⟨v, _, _, ho, cmin, cmax, _⟩ := hinv.of_get (List.getElem?_eq_getElem ha)
  have hv := (validate_iff _).1 ho.validate
  refine ⟨hv, fun hb => ?_⟩
  have b1 := Geom.InCol_bound cmin hb
  have b2 := Geom.InCol_bound cmax hb
  simp only [Tent.wellFormed, Bool.and_eq_true, decide_eq_true_eq, Bool.not_eq_true',
    Bool.and_eq_false_iff, decide_eq_false_iff_not]
  grind

/-- (T5) every influence scalar lies in the unit interval, at every location whatsoever. -/
theorem masterInfluence_scalar_unit (locs : List Loc)
    (r : Region) (_hr : r ∈ masterInfluence (regionsFor locs)) (p : Loc) :
    0 ≤ scalarAt r p ∧ scalarAt r p ≤ 1 := scalarAt_bounds r p

/-! ### `getElem` forms of T2 / T3 -/

/-- (T2), indexed form. -/
theorem masterInfluence_self_scalar' {n : Nat} {locs : List Loc}
    (H1 : ∀ l ∈ locs, l.length = n) (j : Nat) (hj : j < locs.length) :
    scalarAt ((masterInfluence (regionsFor locs))[j]'(by rw [masterInfluence_length]; exact hj))
      locs[j] = 1 :=
  masterInfluence_self_scalar H1 j _ _ (List.getElem?_eq_getElem _) (List.getElem?_eq_getElem _)

/-- (T3), indexed form. -/
theorem masterInfluence_triangular' {n : Nat} {locs : List Loc}
    (H1 : ∀ l ∈ locs, l.length = n)
    (H2 : locs.Pairwise (· ≠ ·))
    (H3 : locs.Pairwise (fun a b => rank a ≤ rank b))
    (i j : Nat) (hij : i < j) (hj : j < locs.length) :
    scalarAt ((masterInfluence (regionsFor locs))[j]'(by rw [masterInfluence_length]; exact hj))
      (locs[i]'(Nat.lt_trans hij hj)) = 0 :=
  masterInfluence_triangular H1 H2 H3 i j hij _ _ (List.getElem?_eq_getElem _)
    (List.getElem?_eq_getElem _)

/-! ### Non-vacuity -/

/-- Two axes, four masters; `[1/2,0]` and `[1,0]` share their support, so the region of `[1,0]`
    really gets cut (its min becomes `1/2`). -/
def exampleLocs : List Loc := [[0, 0], [1/2, 0], [1, 0], [1, 1]]

example : ∀ l ∈ exampleLocs, l.length = 2 := by decide +kernel
example : exampleLocs.Pairwise (· ≠ ·) := by decide +kernel
example : exampleLocs.Pairwise (fun a b => rank a ≤ rank b) := by decide +kernel
example : ∀ l ∈ exampleLocs, ∀ x ∈ l, -1 ≤ x ∧ x ≤ 1 := by decide +kernel

/-- The hypotheses are satisfiable and the theorem instance is the expected concrete fact. -/
example : scalarAt ((masterInfluence (regionsFor exampleLocs))[2]'(by decide +kernel))
    (exampleLocs[1]) = 0 :=
  masterInfluence_triangular' (n := 2) (by decide +kernel) (by decide +kernel) (by decide +kernel)
    1 2 (by decide) (by decide)

/-- Independent check by evaluation: the full scalar matrix `scalarAt infl[j] locs[i]` is
    unit upper triangular (row j, column i). -/
example : (masterInfluence (regionsFor exampleLocs)).map (fun r => exampleLocs.map (scalarAt r)) =
    [[1, 1, 1, 1], [0, 1, 0, 0], [0, 0, 1, 1], [0, 0, 0, 1]] := by decide +kernel

example : (masterInfluence (regionsFor exampleLocs))[2]? =
    some [⟨1/2, 1, 1⟩, ⟨0, 0, 0⟩] := by decide +kernel

/-- The plain grid `[[0,0],[1,0],[0,1],[1,1]]` also satisfies H1–H3. -/
example : let locs : List Loc := [[0, 0], [1, 0], [0, 1], [1, 1]]
    (∀ l ∈ locs, l.length = 2) ∧ locs.Pairwise (· ≠ ·) ∧
    locs.Pairwise (fun a b => rank a ≤ rank b) ∧
    (masterInfluence (regionsFor locs)).map (fun r => locs.map (scalarAt r)) =
      [[1, 1, 1, 1], [0, 1, 0, 1], [0, 0, 1, 1], [0, 0, 0, 1]] := by decide +kernel

end Fontc.VarModel
