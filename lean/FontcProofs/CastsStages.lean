/-
  C19 helper lemmas, part 7: the multi-value stages (glyf point deltas, composite totals).
-/
import FontcProofs.CastsF2Dot14
namespace Fontc.Casts
open Fontc

/-! ### glyf point deltas -/

theorem encode_decode_exact (p : Profile) (last : Int) (xs : List Int) (h : DiffsFit last xs) :
    ∃ ds, encodeDeltas p last xs = some ds ∧ decodeDeltas last ds = xs := by
  induction xs generalizing last with
  | nil => exact ⟨[], rfl, rfl⟩
  | cons x xs ih =>
    obtain ⟨h1, h2⟩ := h
    obtain ⟨ds, e1, e2⟩ := ih x h2
    refine ⟨(x - last) :: ds, ?_, ?_⟩
    · simp only [encodeDeltas, if_pos h1, e1, Option.map]
    · simp only [decodeDeltas]
      have : last + (x - last) = x := by omega
      rw [this, e2]

theorem encode_debug_none_iff (last : Int) (xs : List Int) :
    encodeDeltas .debug last xs = none ↔ ¬ DiffsFit last xs := by
  induction xs generalizing last with
  | nil => simp [encodeDeltas, DiffsFit]
  | cons x xs ih =>
    simp only [encodeDeltas, DiffsFit]
    by_cases h1 : inI16 (x - last)
    · rw [if_pos h1]
      have := ih x
      cases he : encodeDeltas .debug x xs with
      | none => simp [he] at this ⊢; exact fun _ => this
      | some ds => simp [he] at this ⊢; exact ⟨h1, this⟩
    · rw [if_neg h1]; simp [h1]

theorem encode_release_some (last : Int) (xs : List Int) :
    ∃ ds, encodeDeltas .release last xs = some ds ∧ ds.length = xs.length := by
  induction xs generalizing last with
  | nil => exact ⟨[], rfl, rfl⟩
  | cons x xs ih =>
    obtain ⟨ds, e1, e2⟩ := ih x
    by_cases h1 : inI16 (x - last)
    · exact ⟨(x - last) :: ds, by simp only [encodeDeltas, if_pos h1, e1, Option.map], by simp [e2]⟩
    · exact ⟨wrapI16 (x - last) :: ds, by simp only [encodeDeltas, if_neg h1, e1, Option.map], by simp [e2]⟩

/-- the confirmed case: two points 40000 apart, each in range; a release build stores −25536 and a reader
    that follows the spec sees −45536 instead of 20000 -/
theorem pointDelta_witness :
    encodeDeltas .debug 0 [-20000, 20000] = none ∧
    encodeDeltas .release 0 [-20000, 20000] = some [-20000, -25536] ∧
    decodeDeltas 0 [-20000, -25536] = [-20000, -45536] := by decide

/-! ### composite totals -/

theorem listSum_nonneg (xs : List Int) (h : ∀ x ∈ xs, 0 ≤ x) : 0 ≤ listSum xs := by
  induction xs with
  | nil => simp [listSum]
  | cons x xs ih =>
    simp only [listSum]
    have := h x (by simp)
    have := ih (fun y hy => h y (by simp [hy]))
    omega

theorem foldAddU16_debug (acc : Int) (xs : List Int) (ha : acc ≤ 65535) (h : ∀ x ∈ xs, 0 ≤ x) :
    foldAddU16 .debug acc xs = if acc + listSum xs ≤ 65535 then .ok ((acc + listSum xs : Int) : Rat) else .panic := by
  induction xs generalizing acc with
  | nil =>
    have : acc + listSum [] = acc := by simp [listSum]
    rw [if_pos (by omega), this]; rfl
  | cons e es ih =>
    have hs := listSum_nonneg es (fun y hy => h y (by simp [hy]))
    have hsum : listSum (e :: es) = e + listSum es := rfl
    simp only [foldAddU16]
    by_cases h1 : acc + e ≤ 65535
    · rw [if_pos h1, ih (acc + e) h1 (fun y hy => h y (by simp [hy]))]
      by_cases hc : acc + e + listSum es ≤ 65535
      · rw [if_pos hc, if_pos (by rw [hsum]; omega)]
        have : acc + e + listSum es = acc + listSum (e :: es) := by rw [hsum]; omega
        rw [this]
      · rw [if_neg hc, if_neg (by rw [hsum]; omega)]
    · rw [if_neg h1, if_neg (by rw [hsum]; omega)]

theorem foldAddU16_release (acc : Int) (xs : List Int) (ha : inU16 acc) (h : ∀ x ∈ xs, 0 ≤ x) :
    foldAddU16 .release acc xs = .ok ((wrapU16 (acc + listSum xs) : Int) : Rat) := by
  induction xs generalizing acc with
  | nil =>
    have : acc + listSum [] = acc := by simp [listSum]
    rw [this, wrapU16_of_in ha]; rfl
  | cons e es ih =>
    have he := h e (by simp)
    have hsum : listSum (e :: es) = e + listSum es := rfl
    simp only [foldAddU16]
    by_cases h1 : acc + e ≤ 65535
    · rw [if_pos h1, ih (acc + e) ⟨by unfold inU16 at ha; omega, h1⟩ (fun y hy => h y (by simp [hy]))]
      have : acc + e + listSum es = acc + listSum (e :: es) := by rw [hsum]; omega
      rw [this]
    · rw [if_neg h1]
      rw [ih (wrapU16 (acc + e)) (wrapU16_range _) (fun y hy => h y (by simp [hy]))]
      have : wrapU16 (wrapU16 (acc + e) + listSum es) = wrapU16 (acc + listSum (e :: es)) := by
        unfold wrapU16
        rw [Int.emod_add_emod, hsum]
        have : acc + e + listSum es = acc + (e + listSum es) := by omega
        rw [this]
      rw [this]

/-- the fold over a composite's components is `addU16 0 (total)`: the per-field pipeline of `.compositeTotal` -/
theorem foldAddU16_eq (p : Profile) (xs : List Int) (h : ∀ x ∈ xs, 0 ≤ x) :
    foldAddU16 p 0 xs = addU16 p 0 (listSum xs) := by
  cases p
  · rw [foldAddU16_debug 0 xs (by omega) h]; simp only [addU16]
  · rw [foldAddU16_release 0 xs ⟨by omega, by omega⟩ h]
    simp only [addU16]
    by_cases h1 : 0 + listSum xs ≤ 65535
    · rw [if_pos h1]
      have := listSum_nonneg xs h
      rw [wrapU16_of_in ⟨by omega, h1⟩]
    · rw [if_neg h1]

end Fontc.Casts
