/-
  C11: `compile_correct` for programs made of language-system statements followed by feature blocks
  whose statements are `lookupflag` and rule statements of the map-keyed lookup types.
-/
import FontcProofs.FeaSimTop
import FontcProofs.FeaRunSem
import FontcProofs.FeaAssemble

namespace Fontc.FeaCompile
open Cmp
set_option linter.unusedSimpArgs false

def lsTops (ls : List (Tag × Tag)) : List Top := ls.map fun x => Top.langsys x.1 x.2
def featTops (fs : List (Tag × List Stmt)) : List Top := fs.map fun x => Top.feature x.1 x.2

theorem langsysOf_tops (ls : List (Tag × Tag)) (fs : List (Tag × List Stmt)) :
    Src.langsysOf (lsTops ls ++ featTops fs) = if ls.isEmpty then [("DFLT", "dflt")] else ls := by
  have h1 : (lsTops ls ++ featTops fs).filterMap Src.langsysStmt? = ls := by
    simp only [List.filterMap_append]
    have a : (lsTops ls).filterMap Src.langsysStmt? = ls := by
      induction ls with
      | nil => rfl
      | cons x ls ih => simp only [lsTops, List.map_cons, List.filterMap_cons, Src.langsysStmt?] at ih ⊢; rw [ih]
    have b : (featTops fs).filterMap Src.langsysStmt? = ([] : List (Tag × Tag)) := by
      induction fs with
      | nil => rfl
      | cons x fs ih => simp only [featTops, List.map_cons, List.filterMap_cons, Src.langsysStmt?] at ih ⊢; rw [ih]
    rw [a, b]; simp
  simp only [Src.langsysOf, h1]

theorem entriesOf_lsTops (lsE : List (Tag × Tag)) (es : List Src.Entry) (ls : List (Tag × Tag)) (rest : List Top) :
    Src.entriesOf lsE es (lsTops ls ++ rest) = Src.entriesOf lsE es rest := by
  induction ls with
  | nil => rfl
  | cons x ls ih => simpa [lsTops, Src.entriesOf] using ih

/-- the state after the `languagesystem` statements -/
theorem foldl_lsTops (fx : Fixes) (ls : List (Tag × Tag)) :
    ∀ (s : St), let s' := (lsTops ls).foldl (St.top fx) s
      (∀ sys, sys ∈ s'.langsys ↔ sys ∈ s.langsys ∨ sys ∈ ls) ∧ s'.gsub = s.gsub ∧ s'.gpos = s.gpos ∧ s'.cur = s.cur ∧
      s'.curName = s.curName ∧ s'.named = s.named ∧ s'.flag = s.flag ∧ s'.attachIds = s.attachIds ∧
      s'.filterIds = s.filterIds ∧ s'.active = s.active ∧ s'.script = s.script ∧ s'.features = s.features := by
  induction ls with
  | nil => intro s; simp [lsTops]
  | cons x ls ih =>
    intro s
    simp only [lsTops, List.map_cons, List.foldl_cons]
    have := ih (St.top fx s (Top.langsys x.1 x.2))
    simp only [lsTops] at this
    obtain ⟨h0, h1, h2, h3, h4, h5, h6, h7, h8, h9, h10, h11⟩ := this
    refine ⟨?_, h1, h2, h3, h4, h5, h6, h7, h8, h9, h10, h11⟩
    intro sys
    rw [h0]
    simp only [St.top]
    by_cases hc : s.langsys.contains (x.1, x.2) = true
    · have hm : (x.1, x.2) ∈ s.langsys := by simpa using hc
      simp only [hc, ↓reduceIte, List.mem_cons]
      constructor
      · rintro (h | h)
        · exact Or.inl h
        · exact Or.inr (Or.inr h)
      · rintro (h | h | h)
        · exact Or.inl h
        · subst h; exact Or.inl hm
        · exact Or.inr h
    · have hx : (x.1, x.2) = x := rfl
      simp only [hc, Bool.false_eq_true, ↓reduceIte, List.mem_append, List.mem_singleton, List.mem_cons, hx, List.not_mem_nil, or_false]
      constructor
      · rintro ((h | h) | h)
        · exact Or.inl h
        · exact Or.inr (Or.inl h)
        · exact Or.inr (Or.inr h)
      · rintro (h | h | h)
        · exact Or.inl (Or.inl h)
        · exact Or.inl (Or.inr h)
        · exact Or.inr h

theorem feats_fold (fx : Fixes) (U : List (List Glyph)) (dls : List Sys) (lsE : List (Tag × Tag))
    (hls : ∀ sys, sys ∈ lsE ↔ sys ∈ dls) (fs : List (Tag × List Stmt)) :
    ∀ (es : List Src.Entry) (s : St) (ids : List LookupId), TopInv fx U dls es s ids →
    (∀ x ∈ fs, FlatBody x.2 ∧ FlagsOk U x.2 ∧ NoMixFrom {} x.2) →
    ∃ ids', TopInv fx U dls (Src.entriesOf lsE es (featTops fs)) ((featTops fs).foldl (St.top fx) s) ids' := by
  induction fs with
  | nil => intro es s ids h _; exact ⟨ids, h⟩
  | cons x fs ih =>
    intro es s ids hinv hall
    obtain ⟨h1, h2, h3⟩ := hall x (by simp)
    obtain ⟨ids1, hinv1⟩ := top_feature fx U dls lsE hls es s ids x.1 x.2 hinv h1 h2 h3
    simp only [featTops, List.map_cons, List.foldl_cons, Src.entriesOf, St.top]
    exact ih _ _ ids1 hinv1 (fun y hy => hall y (by simp [hy]))

theorem list_isEmpty_iff_forall {α : Type} (l : List α) : l.isEmpty = true ↔ ∀ x, x ∉ l := by
  cases l with
  | nil => simp
  | cons a l =>
    simp only [List.isEmpty_cons, Bool.false_eq_true, false_iff]
    intro h; exact h a (by simp)

/-- **`compile_correct`, flat fragment.**  Programs: `languagesystem` statements followed by feature
    blocks whose statements are `lookupflag` and rule statements; every lookup of the program (run of
    rules of one type under one flag) is a single, multiple or alternate substitution or a single
    positioning lookup in which no glyph is targeted twice, or a ligature substitution lookup in
    which no component sequence is given twice (`GsubRunOk`, `GposRunOk`); no single rule stands next to a multiple
    rule in one run (`NoMixFrom`); flags are normalised with attachment classes from the pairwise
    disjoint family `U`; GDEF entries are distinct.  Then for every declared language system, every
    feature set, every alternate selector and EVERY glyph string, the compiled tables shape the
    string exactly as the source semantics says. -/
theorem compile_correct_flat (fx : Fixes) (p : Program) (ls : List (Tag × Tag)) (fs : List (Tag × List Stmt))
    (U : List (List Glyph))
    (htops : p.tops = lsTops ls ++ featTops fs)
    (hbodies : ∀ x ∈ fs, FlatBody x.2 ∧ FlagsOk U x.2 ∧ NoMixFrom {} x.2)
    (hents : ∀ e ∈ Src.entries p, GsubRunOk e.lookup.rules ∨ GposRunOk e.lookup.rules)
    (hgdef : (p.gdef.map (·.1)).Nodup)
    (hU1 : ∀ c ∈ U, c.Nodup) (hU2 : ∀ c ∈ U, ∀ c' ∈ U, c ≠ c' → ∀ g ∈ c, g ∉ c')
    (script lang : Tag) (hreg : (script, lang) ∈ Src.langsysOf p.tops)
    (feats : List Tag) (alt : Nat) (str : List Glyph) :
    shape (compileWith fx p) script lang feats alt str = interp p script lang feats alt str := by
  -- the state after the language systems
  obtain ⟨h0, h1, h2, h3, h4, h5, h6, h7, h8, h9, h10, h11⟩ := foldl_lsTops fx ls {}
  generalize hs0 : (lsTops ls).foldl (St.top fx) {} = s0 at h0 h1 h2 h3 h4 h5 h6 h7 h8 h9 h10 h11
  have hdls : ∀ sys, sys ∈ s0.defaultSystems ↔ sys ∈ Src.langsysOf p.tops := by
    intro sys
    rw [htops, langsysOf_tops]
    have hmem : ∀ x, x ∈ s0.langsys ↔ x ∈ ls := by intro x; rw [h0]; simp
    have hemp : s0.langsys.isEmpty = ls.isEmpty := by
      rw [Bool.eq_iff_iff, list_isEmpty_iff_forall, list_isEmpty_iff_forall]
      constructor
      · intro h x hx; exact h x ((hmem x).mpr hx)
      · intro h x hx; exact h x ((hmem x).mp hx)
    simp only [St.defaultSystems, hemp]
    split
    · rfl
    · exact hmem sys
  have hinit : TopInv fx U (Src.langsysOf p.tops) [] s0 [] := {
    closed := ⟨h3, h4, h10, h9, h6⟩
    dlsOk := hdls
    idsInv := by unfold IdsInv; rw [h7, h8]; exact ⟨List.nodup_nil, List.nodup_nil⟩
    attachU := by rw [h7]; simp
    ents := trivial
    ordered := List.Pairwise.nil
    below := by simp
    featKeys := by rw [h11]; exact List.nodup_nil
    feats := by intro tag lang script; rw [h11]; simp [regIds, List.lookup]
    regsUniform := by simp }
  obtain ⟨ids, hinv⟩ := feats_fold fx U (Src.langsysOf p.tops) (Src.langsysOf p.tops) (fun _ => Iff.rfl) fs [] s0 [] hinit hbodies
  have hentries : Src.entriesOf (Src.langsysOf p.tops) [] (featTops fs) = Src.entries p := by
    simp only [Src.entries]
    rw [htops, entriesOf_lsTops]
  have hstate : (featTops fs).foldl (St.top fx) s0 = p.tops.foldl (St.top fx) {} := by
    rw [htops, List.foldl_append, hs0]
  rw [hentries, hstate] at hinv
  exact correct_of_topInv fx p U _ _ ids hinv hents hgdef hU1 hU2 script lang hreg feats alt str

end Fontc.FeaCompile
