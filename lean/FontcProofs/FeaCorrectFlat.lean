/-
  C11: `compile_correct` for programs made of language-system statements followed by feature blocks
  whose statements are `lookupflag` and rule statements of the map-keyed lookup types.
-/
import FontcProofs.FeaSimTop
import FontcProofs.FeaLookupSem

namespace Fontc.FeaCompile
open Cmp
set_option linter.unusedSimpArgs false

def lsTops (ls : List (Tag × Tag)) : List Top := ls.map fun x => Top.langsys x.1 x.2
def featTops (fs : List (Tag × List Stmt)) : List Top := fs.map fun x => Top.feature x.1 x.2

theorem langsysOf_tops (ls : List (Tag × Tag)) (fs : List (Tag × List Stmt)) :
    Src.langsysOf (lsTops ls ++ featTops fs) = if ls.isEmpty then [("DFLT", "dflt")] else ls := by
  have h1 : (lsTops ls ++ featTops fs).filterMap Src.langsysStmt? = ls := by
    simp only [List.filterMap_append]
    have a : (lsTops ls).filterMap Src.langsysStmt? = ls := by
      induction ls with
      | nil => rfl
      | cons x ls ih => simp only [lsTops, List.map_cons, List.filterMap_cons, Src.langsysStmt?] at ih ⊢; rw [ih]
    have b : (featTops fs).filterMap Src.langsysStmt? = ([] : List (Tag × Tag)) := by
      induction fs with
      | nil => rfl
      | cons x fs ih => simp only [featTops, List.map_cons, List.filterMap_cons, Src.langsysStmt?] at ih ⊢; rw [ih]
    rw [a, b]; simp
  simp only [Src.langsysOf, h1]

theorem entriesOf_lsTops (lsE : List (Tag × Tag)) (es : List Src.Entry) (ls : List (Tag × Tag)) (rest : List Top) :
    Src.entriesOf lsE es (lsTops ls ++ rest) = Src.entriesOf lsE es rest := by
  induction ls with
  | nil => rfl
  | cons x ls ih => simpa [lsTops, Src.entriesOf] using ih

/-- the state after the `languagesystem` statements -/
theorem foldl_lsTops (fx : Fixes) (ls : List (Tag × Tag)) :
    ∀ (s : St), let s' := (lsTops ls).foldl (St.top fx) s
      (∀ sys, sys ∈ s'.langsys ↔ sys ∈ s.langsys ∨ sys ∈ ls) ∧ s'.gsub = s.gsub ∧ s'.gpos = s.gpos ∧ s'.cur = s.cur ∧
      s'.curName = s.curName ∧ s'.named = s.named ∧ s'.flag = s.flag ∧ s'.attachIds = s.attachIds ∧
      s'.filterIds = s.filterIds ∧ s'.active = s.active ∧ s'.script = s.script ∧ s'.features = s.features := by
  induction ls with
  | nil => intro s; simp [lsTops]
  | cons x ls ih =>
    intro s
    simp only [lsTops, List.map_cons, List.foldl_cons]
    have := ih (St.top fx s (Top.langsys x.1 x.2))
    simp only [lsTops] at this
    obtain ⟨h0, h1, h2, h3, h4, h5, h6, h7, h8, h9, h10, h11⟩ := this
    refine ⟨?_, h1, h2, h3, h4, h5, h6, h7, h8, h9, h10, h11⟩
    intro sys
    rw [h0]
    simp only [St.top]
    by_cases hc : s.langsys.contains (x.1, x.2) = true
    · have hm : (x.1, x.2) ∈ s.langsys := by simpa using hc
      simp only [hc, ↓reduceIte, List.mem_cons]
      constructor
      · rintro (h | h)
        · exact Or.inl h
        · exact Or.inr (Or.inr h)
      · rintro (h | h | h)
        · exact Or.inl h
        · subst h; exact Or.inl hm
        · exact Or.inr h
    · have hx : (x.1, x.2) = x := rfl
      simp only [hc, Bool.false_eq_true, ↓reduceIte, List.mem_append, List.mem_singleton, List.mem_cons, hx, List.not_mem_nil, or_false]
      constructor
      · rintro ((h | h) | h)
        · exact Or.inl h
        · exact Or.inr (Or.inl h)
        · exact Or.inr (Or.inr h)
      · rintro (h | h | h)
        · exact Or.inl (Or.inl h)
        · exact Or.inl (Or.inr h)
        · exact Or.inr h

theorem feats_fold (fx : Fixes) (U : List (List Glyph)) (dls : List Sys) (lsE : List (Tag × Tag))
    (hls : ∀ sys, sys ∈ lsE ↔ sys ∈ dls) (fs : List (Tag × List Stmt)) :
    ∀ (es : List Src.Entry) (s : St) (ids : List LookupId), TopInv fx U dls es s ids →
    (∀ x ∈ fs, FlatBody x.2 ∧ FlagsOk U x.2 ∧ NoMixFrom {} x.2) →
    ∃ ids', TopInv fx U dls (Src.entriesOf lsE es (featTops fs)) ((featTops fs).foldl (St.top fx) s) ids' := by
  induction fs with
  | nil => intro es s ids h _; exact ⟨ids, h⟩
  | cons x fs ih =>
    intro es s ids hinv hall
    obtain ⟨h1, h2, h3⟩ := hall x (by simp)
    obtain ⟨ids1, hinv1⟩ := top_feature fx U dls lsE hls es s ids x.1 x.2 hinv h1 h2 h3
    simp only [featTops, List.map_cons, List.foldl_cons, Src.entriesOf, St.top]
    exact ih _ _ ids1 hinv1 (fun y hy => hall y (by simp [hy]))

end Fontc.FeaCompile
