/-
  Helper lemmas for C14: decimal / two-decimal formatting and the kerning-instance file name.
  Core Lean only.
-/
import FontcModel.Paths
import FontcProofs.PathsStf

namespace Fontc.Paths

/-! ### decimal digits -/

theorem decDigits_small (n : Nat) (h : n < 10) : decDigits n = [0x30 + n] := by
  rw [decDigits]; simp [h]

theorem decDigits_big (n : Nat) (h : ¬ n < 10) : decDigits n = decDigits (n / 10) ++ [0x30 + n % 10] := by
  rw [decDigits]; simp [h]

theorem decDigits_ne_nil (n : Nat) : decDigits n ≠ [] := by
  by_cases h : n < 10
  · rw [decDigits_small n h]; simp
  · rw [decDigits_big n h]; simp

theorem decDigits_digits (n : Nat) : ∀ x ∈ decDigits n, 0x30 ≤ x ∧ x ≤ 0x39 := by
  induction n using Nat.strongRecOn with
  | _ n ih =>
    intro x hx
    by_cases h : n < 10
    · rw [decDigits_small n h] at hx
      simp at hx
      omega
    · rw [decDigits_big n h, List.mem_append] at hx
      rcases hx with hx | hx
      · exact ih (n / 10) (by omega) x hx
      · simp at hx
        omega

theorem decDigits_inj (a : Nat) : ∀ b, decDigits a = decDigits b → a = b := by
  induction a using Nat.strongRecOn with
  | _ a ih =>
    intro b h
    by_cases ha : a < 10 <;> by_cases hb : b < 10
    · rw [decDigits_small a ha, decDigits_small b hb] at h
      simp at h
      omega
    · rw [decDigits_small a ha, decDigits_big b hb] at h
      have := congrArg List.length h
      simp at this
      have hne := decDigits_ne_nil (b / 10)
      cases hq : decDigits (b / 10) with
      | nil => exact absurd hq hne
      | cons _ _ => rw [hq] at this; simp at this
    · rw [decDigits_big a ha, decDigits_small b hb] at h
      have := congrArg List.length h
      simp at this
      have hne := decDigits_ne_nil (a / 10)
      cases hq : decDigits (a / 10) with
      | nil => exact absurd hq hne
      | cons _ _ => rw [hq] at this; simp at this
    · rw [decDigits_big a ha, decDigits_big b hb] at h
      obtain ⟨h1, h2⟩ := List.append_inj' h (by simp)
      have := ih (a / 10) (by omega) (b / 10) h1
      simp at h2
      omega

/-! ### `{:.2}` -/

theorem fmtRound2_prefix (r r' : Bool × Nat) (u v : List Nat)
    (h : fmtRound2 r ++ u = fmtRound2 r' ++ v) : r = r' ∧ u = v := by
  obtain ⟨s, n⟩ := r
  obtain ⟨s', n'⟩ := r'
  unfold fmtRound2 at h
  simp only at h
  -- the sign
  have hs : s = s' := by
    cases hq : decDigits (n / 100) with
    | nil => exact absurd hq (decDigits_ne_nil _)
    | cons x xs =>
      cases hq' : decDigits (n' / 100) with
      | nil => exact absurd hq' (decDigits_ne_nil _)
      | cons y ys =>
        have hx := decDigits_digits (n / 100) x (by rw [hq]; simp)
        have hy := decDigits_digits (n' / 100) y (by rw [hq']; simp)
        rw [hq, hq'] at h
        cases s <;> cases s' <;> simp at h ⊢ <;> omega
  subst hs
  have h' : decDigits (n / 100) ++ 0x2E :: (0x30 + n % 100 / 10) :: (0x30 + n % 10) :: u
      = decDigits (n' / 100) ++ 0x2E :: (0x30 + n' % 100 / 10) :: (0x30 + n' % 10) :: v := by
    cases s <;> simpa using h
  have nd : ∀ m, (0x2E : Nat) ∉ decDigits m := by
    intro m hm
    have := decDigits_digits m _ hm
    omega
  obtain ⟨hd, ht⟩ := split_at_sep _ _ _ _ (nd _) (nd _) h'
  have hq := decDigits_inj _ _ hd
  simp only [List.cons.injEq] at ht
  refine ⟨?_, ht.2.2⟩
  have : n = n' := by omega
  rw [this]

/-! ### the kerning-instance file name -/

theorem tagByte_printable (b : Nat) (h : 0x20 ≤ b ∧ b ≤ 0x7E) : tagByte b = [b] := by
  simp [tagByte, h.1, h.2]

theorem render_printable (t : Tag) (h : t.printable) : t.render = [t.b0, t.b1, t.b2, t.b3] := by
  obtain ⟨h0, h1, h2, h3⟩ := h
  simp [Tag.render, tagByte_printable _ h0, tagByte_printable _ h1, tagByte_printable _ h2,
    tagByte_printable _ h3]

/-- what remains of the file name after an entry: more entries, each led by '_', then ".yml" -/
def kernRestOld : Loc → List Nat
  | [] => lit ".yml"
  | e :: r => 0x5F :: (kernEntryOld e ++ kernRestOld r)

theorem join_cons_append_old (x : List Nat) (r : Loc) :
    joinUnderscore (x :: r.map kernEntryOld) ++ lit ".yml" = x ++ kernRestOld r := by
  induction r generalizing x with
  | nil => simp [joinUnderscore, kernRestOld]
  | cons e r ih =>
    simp only [List.map_cons, joinUnderscore, kernRestOld]
    rw [List.append_assoc, List.cons_append]
    rw [ih (kernEntryOld e)]

theorem kernFileNameOld_nil : kernFileNameOld [] = lit "kern_" ++ lit ".yml" := by
  simp [kernFileNameOld, joinUnderscore]

theorem kernFileNameOld_cons (e : Tag × Rat) (r : Loc) :
    kernFileNameOld (e :: r) = lit "kern_" ++ (kernEntryOld e ++ kernRestOld r) := by
  unfold kernFileNameOld
  rw [List.append_assoc, List.map_cons, join_cons_append_old]

/-- what two decimals keep of a location -/
def Loc.key (l : Loc) : List (Tag × (Bool × Nat)) := l.map fun e => (e.1, round2 e.2)

def Loc.printable (l : Loc) : Prop := ∀ e ∈ l, e.1.printable

theorem kernEntryOld_prefix (e e' : Tag × Rat) (u v : List Nat) (he : e.1.printable) (he' : e'.1.printable)
    (h : kernEntryOld e ++ u = kernEntryOld e' ++ v) : e.1 = e'.1 ∧ round2 e.2 = round2 e'.2 ∧ u = v := by
  unfold kernEntryOld fmt2 at h
  rw [render_printable _ he, render_printable _ he'] at h
  simp only [List.cons_append, List.nil_append, List.cons.injEq, true_and] at h
  obtain ⟨h0, h1, h2, h3, h4⟩ := h
  obtain ⟨hr, huv⟩ := fmtRound2_prefix _ _ _ _ h4
  refine ⟨?_, hr, huv⟩
  obtain ⟨⟨a, b, c, d⟩, x⟩ := e
  obtain ⟨⟨a', b', c', d'⟩, x'⟩ := e'
  simp_all

theorem kernRestOld_inj (l1 : Loc) : ∀ l2 : Loc, l1.printable → l2.printable →
    kernRestOld l1 = kernRestOld l2 → l1.key = l2.key := by
  induction l1 with
  | nil =>
    intro l2 _ _ h
    cases l2 with
    | nil => rfl
    | cons e r => simp [kernRestOld, lit] at h
  | cons e r ih =>
    intro l2 p1 p2 h
    cases l2 with
    | nil => simp [kernRestOld, lit] at h
    | cons e' r' =>
      simp only [kernRestOld, List.cons.injEq, true_and] at h
      obtain ⟨ht, hr, hrest⟩ := kernEntryOld_prefix e e' _ _ (p1 e (by simp)) (p2 e' (by simp)) h
      have := ih r' (fun x hx => p1 x (by simp [hx])) (fun x hx => p2 x (by simp [hx])) hrest
      simp only [Loc.key, List.map_cons] at this ⊢
      rw [ht, hr, this]

/-- equal kerning-instance file names ⇒ same axes and the same coordinates after rounding to two
    decimals -/
theorem kernFileNameOld_key (l1 l2 : Loc) (p1 : l1.printable) (p2 : l2.printable)
    (h : kernFileNameOld l1 = kernFileNameOld l2) : l1.key = l2.key := by
  cases l1 with
  | nil =>
    cases l2 with
    | nil => rfl
    | cons e r =>
      rw [kernFileNameOld_nil, kernFileNameOld_cons] at h
      have h := List.append_cancel_left h
      unfold kernEntryOld at h
      rw [render_printable _ (p2 e (by simp))] at h
      simp [lit] at h
  | cons e r =>
    cases l2 with
    | nil =>
      rw [kernFileNameOld_nil, kernFileNameOld_cons] at h
      have h := List.append_cancel_left h
      unfold kernEntryOld at h
      rw [render_printable _ (p1 e (by simp))] at h
      simp [lit] at h
    | cons e' r' =>
      rw [kernFileNameOld_cons, kernFileNameOld_cons] at h
      have h := List.append_cancel_left h
      have h' : kernRestOld (e :: r) = kernRestOld (e' :: r') := by simp [kernRestOld, h]
      exact kernRestOld_inj _ _ p1 p2 h'

theorem map_kernEntryOld_of_key (l1 : Loc) : ∀ l2 : Loc, l1.key = l2.key →
    l1.map kernEntryOld = l2.map kernEntryOld := by
  induction l1 with
  | nil =>
    intro l2 h
    cases l2 with
    | nil => rfl
    | cons _ _ => simp [Loc.key] at h
  | cons e r ih =>
    intro l2 h
    cases l2 with
    | nil => simp [Loc.key] at h
    | cons e' r' =>
      simp only [Loc.key, List.map_cons, List.cons.injEq, Prod.mk.injEq] at h
      have hr := ih r' (by simpa [Loc.key] using h.2)
      have he : kernEntryOld e = kernEntryOld e' := by simp [kernEntryOld, fmt2, h.1.1, h.1.2]
      simp [he, hr]

/-- and conversely: the file name only depends on the key -/
theorem kernFileNameOld_of_key (l1 l2 : Loc) (h : l1.key = l2.key) : kernFileNameOld l1 = kernFileNameOld l2 := by
  unfold kernFileNameOld
  rw [map_kernEntryOld_of_key l1 l2 h]

theorem kernFileNameOld_ne_locations (l : Loc) (p : l.printable) : kernFileNameOld l ≠ lit "kern_locations.yml" := by
  intro h
  cases l with
  | nil => rw [kernFileNameOld_nil] at h; revert h; decide
  | cons e r =>
    rw [kernFileNameOld_cons] at h
    unfold kernEntryOld at h
    rw [render_printable _ (p e (by simp))] at h
    simp [lit] at h

/-! ### the kerning-instance name of the current code (printer as a parameter) -/

/-- what follows an entry in the joined name: nothing, or '_' and the remaining entries -/
def kernRest (pr : Rat → List Nat) : Loc → List Nat
  | [] => []
  | e :: r => 0x5F :: (kernEntry pr e ++ kernRest pr r)

theorem join_cons_eq (pr : Rat → List Nat) (x : List Nat) (r : Loc) :
    joinUnderscore (x :: r.map (kernEntry pr)) = x ++ kernRest pr r := by
  induction r generalizing x with
  | nil => simp [joinUnderscore, kernRest]
  | cons e r ih =>
    simp only [List.map_cons, joinUnderscore, kernRest]
    rw [ih (kernEntry pr e)]

theorem kernName_nil (pr : Rat → List Nat) : kernName pr [] = lit "kern_" := by
  simp [kernName, joinUnderscore]

theorem kernName_cons (pr : Rat → List Nat) (e : Tag × Rat) (r : Loc) :
    kernName pr (e :: r) = lit "kern_" ++ (kernEntry pr e ++ kernRest pr r) := by
  unfold kernName
  rw [List.map_cons, join_cons_eq]

/-- the rest is empty or starts with '_' -/
theorem kernRest_cases (pr : Rat → List Nat) (r : Loc) : kernRest pr r = [] ∨ ∃ t, kernRest pr r = 0x5F :: t := by
  cases r with
  | nil => exact Or.inl rfl
  | cons e r => exact Or.inr ⟨_, rfl⟩

theorem print_prefix (pr : Rat → List Nat) (hi : PrintInjective pr) (hu : PrintNoUnderscore pr)
    (x y : Rat) (u v : List Nat) (hu' : u = [] ∨ ∃ t, u = 0x5F :: t) (hv' : v = [] ∨ ∃ t, v = 0x5F :: t)
    (h : pr x ++ u = pr y ++ v) : x = y ∧ u = v := by
  rcases hu' with rfl | ⟨t, rfl⟩ <;> rcases hv' with rfl | ⟨t', rfl⟩
  · simp only [List.append_nil] at h
    exact ⟨hi _ _ h, rfl⟩
  · simp only [List.append_nil] at h
    exact absurd (by rw [h]; simp) (hu x)
  · simp only [List.append_nil] at h
    exact absurd (by rw [← h]; simp) (hu y)
  · obtain ⟨h1, h2⟩ := split_at_sep _ _ _ _ (hu x) (hu y) h
    exact ⟨hi _ _ h1, by rw [h2]⟩

theorem kernEntry_prefix (pr : Rat → List Nat) (hi : PrintInjective pr) (hu : PrintNoUnderscore pr)
    (e e' : Tag × Rat) (u v : List Nat) (he : e.1.printable) (he' : e'.1.printable)
    (hu' : u = [] ∨ ∃ t, u = 0x5F :: t) (hv' : v = [] ∨ ∃ t, v = 0x5F :: t)
    (h : kernEntry pr e ++ u = kernEntry pr e' ++ v) : e = e' ∧ u = v := by
  unfold kernEntry at h
  rw [render_printable _ he, render_printable _ he'] at h
  simp only [List.cons_append, List.nil_append, List.cons.injEq, true_and] at h
  obtain ⟨h0, h1, h2, h3, h4⟩ := h
  obtain ⟨hx, huv⟩ := print_prefix pr hi hu _ _ _ _ hu' hv' h4
  refine ⟨?_, huv⟩
  obtain ⟨⟨a, b, c, d⟩, x⟩ := e
  obtain ⟨⟨a', b', c', d'⟩, x'⟩ := e'
  simp_all

theorem kernRest_inj (pr : Rat → List Nat) (hi : PrintInjective pr) (hu : PrintNoUnderscore pr)
    (l1 : Loc) : ∀ l2 : Loc, l1.printable → l2.printable → kernRest pr l1 = kernRest pr l2 → l1 = l2 := by
  induction l1 with
  | nil =>
    intro l2 _ _ h
    cases l2 with
    | nil => rfl
    | cons e r => simp [kernRest] at h
  | cons e r ih =>
    intro l2 p1 p2 h
    cases l2 with
    | nil => simp [kernRest] at h
    | cons e' r' =>
      simp only [kernRest, List.cons.injEq, true_and] at h
      obtain ⟨he, hrest⟩ := kernEntry_prefix pr hi hu e e' _ _ (p1 e (by simp)) (p2 e' (by simp))
        (kernRest_cases pr r) (kernRest_cases pr r') h
      rw [he, ih r' (fun x hx => p1 x (by simp [hx])) (fun x hx => p2 x (by simp [hx])) hrest]

/-- distinct locations have distinct names (before `string_to_filename`) -/
theorem kernName_inj (pr : Rat → List Nat) (hi : PrintInjective pr) (hu : PrintNoUnderscore pr)
    (l1 l2 : Loc) (p1 : l1.printable) (p2 : l2.printable) (h : kernName pr l1 = kernName pr l2) : l1 = l2 := by
  cases l1 with
  | nil =>
    cases l2 with
    | nil => rfl
    | cons e r =>
      rw [kernName_nil, kernName_cons] at h
      have h := congrArg List.length h
      unfold kernEntry at h
      rw [render_printable _ (p2 e (by simp))] at h
      simp at h
  | cons e r =>
    cases l2 with
    | nil =>
      rw [kernName_nil, kernName_cons] at h
      have h := congrArg List.length h
      unfold kernEntry at h
      rw [render_printable _ (p1 e (by simp))] at h
      simp at h
    | cons e' r' =>
      rw [kernName_cons, kernName_cons] at h
      have h := List.append_cancel_left h
      have h' : kernRest pr (e :: r) = kernRest pr (e' :: r') := by simp [kernRest, h]
      exact kernRest_inj pr hi hu _ _ p1 p2 h'

theorem kernName_ne_locations (pr : Rat → List Nat) (l : Loc) (p : l.printable) :
    kernName pr l ≠ lit "kern_locations" := by
  intro h
  cases l with
  | nil => rw [kernName_nil] at h; revert h; decide
  | cons e r =>
    rw [kernName_cons] at h
    unfold kernEntry at h
    rw [render_printable _ (p e (by simp))] at h
    simp [lit] at h

/-! ### a printer with the assumed properties exists (non-vacuity only; not the real printer) -/

def prWitness (x : Rat) : List Nat :=
  (if x < 0 then [0x2D] else []) ++ decDigits x.num.natAbs ++ 0x2F :: decDigits x.den

theorem prWitness_noUnderscore : PrintNoUnderscore prWitness := by
  intro x h
  simp only [prWitness, List.mem_append, List.mem_cons] at h
  rcases h with (h | h) | h | h
  · split at h <;> simp at h
  · have := decDigits_digits _ _ h; omega
  · omega
  · have := decDigits_digits _ _ h; omega

theorem prWitness_injective : PrintInjective prWitness := by
  intro x y h
  unfold prWitness at h
  have hs : (x < 0) ↔ (y < 0) := by
    cases hq : decDigits x.num.natAbs with
    | nil => exact absurd hq (decDigits_ne_nil _)
    | cons a as =>
      cases hq' : decDigits y.num.natAbs with
      | nil => exact absurd hq' (decDigits_ne_nil _)
      | cons b bs =>
        have ha := decDigits_digits _ a (by rw [hq]; simp)
        have hb := decDigits_digits _ b (by rw [hq']; simp)
        rw [hq, hq'] at h
        by_cases hx : x < 0 <;> by_cases hy : y < 0 <;> simp [hx, hy] at h ⊢ <;> omega
  have h' : decDigits x.num.natAbs ++ 0x2F :: decDigits x.den = decDigits y.num.natAbs ++ 0x2F :: decDigits y.den := by
    by_cases hx : x < 0
    · have hy : y < 0 := hs.mp hx
      simpa [hx, hy] using h
    · have hy : ¬ y < 0 := fun hh => hx (hs.mpr hh)
      simpa [hx, hy] using h
  have nd : ∀ m, (0x2F : Nat) ∉ decDigits m := by
    intro m hm
    have := decDigits_digits m _ hm
    omega
  obtain ⟨h1, h2⟩ := split_at_sep _ _ _ _ (nd _) (nd _) h'
  have hn := decDigits_inj _ _ h1
  have hd := decDigits_inj _ _ h2
  have key : ∀ q : Rat, q.num < 0 ↔ q < 0 := by
    intro q
    rw [← Int.not_le, Rat.num_nonneg, Rat.not_le]
  have hsn : x.num < 0 ↔ y.num < 0 := by rw [key, key]; exact hs
  apply Rat.ext
  · by_cases hx : x.num < 0
    · have := hsn.mp hx; omega
    · have : ¬ y.num < 0 := fun hh => hx (hsn.mpr hh)
      omega
  · exact hd

end Fontc.Paths
