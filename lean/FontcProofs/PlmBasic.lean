/-
  C08 helper lemmas, part 1: how the two scanning evaluators (`Plm.map` — the model of
  `PiecewiseLinearMap::map` — and the spec-side `avarApply`) behave on a sorted list, and the
  transport lemma that drives `avar_agrees`.
-/
import FontcModel.Avar
import Mathlib.Tactic.Linarith
import Mathlib.Tactic.FieldSimp
import Mathlib.Tactic.Ring
import Mathlib.Algebra.Order.Field.Basic

namespace Fontc.PlmProofs
open Fontc Fontc.Plm Fontc.Avar

/-- strictly increasing from-coordinates -/
def StrictFrom (l : List Pt) : Prop := l.Pairwise (fun p q => p.1 < q.1)

/-- `p`, `q` are adjacent entries of `l` -/
def Consec (p q : Pt) (l : List Pt) : Prop := ∃ a b, l = a ++ p :: q :: b

theorem Consec.cons {p q : Pt} {l : List Pt} (x : Pt) (h : Consec p q l) : Consec p q (x :: l) := by
  obtain ⟨a, b, rfl⟩ := h; exact ⟨x :: a, b, rfl⟩

theorem Consec.head (p q : Pt) (l : List Pt) : Consec p q (p :: q :: l) := ⟨[], l, rfl⟩

theorem Consec.mem_left {p q : Pt} {l : List Pt} (h : Consec p q l) : p ∈ l := by
  obtain ⟨a, b, rfl⟩ := h; simp
theorem Consec.mem_right {p q : Pt} {l : List Pt} (h : Consec p q l) : q ∈ l := by
  obtain ⟨a, b, rfl⟩ := h; simp

theorem Consec.lt {p q : Pt} {l : List Pt} (h : Consec p q l) (hs : StrictFrom l) : p.1 < q.1 := by
  obtain ⟨a, b, rfl⟩ := h
  unfold StrictFrom at hs
  rw [List.pairwise_append] at hs
  have := hs.2.1
  rw [List.pairwise_cons] at this
  exact this.1 q (by simp)

/-- linear interpolation through `p`, `q` at `v` -/
def interp (p q : Pt) (v : Rat) : Rat := p.2 + (v - p.1) * (q.2 - p.2) / (q.1 - p.1)

theorem interp_left (p q : Pt) : interp p q p.1 = p.2 := by simp [interp]
theorem interp_right (p q : Pt) (h : p.1 < q.1) : interp p q q.1 = q.2 := by
  have : q.1 - p.1 ≠ 0 := by intro h0; linarith
  unfold interp; field_simp; ring

theorem lerp_eq_interp (p q : Pt) (v : Rat) (h : p.1 < q.1) :
    lerp p.2 q.2 ((v - p.1) / (q.1 - p.1)) = interp p q v := by
  have : q.1 - p.1 ≠ 0 := by intro h0; linarith
  unfold lerp interp; field_simp

/-! ### `Plm.map` on a strictly sorted list -/

theorem mapGo_consec (p q : Pt) (r : List Pt) (u : Rat) (hpu : p.1 ≤ u) (huq : u ≤ q.1) :
    ∀ (l : List Pt) (prev : Pt), StrictFrom (prev :: (l ++ p :: q :: r)) → prev.1 < u →
      mapGo u prev (l ++ p :: q :: r) = interp p q u := by
  intro l
  induction l with
  | nil =>
    intro prev hs hprev
    have hpq : p.1 < q.1 := by
      unfold StrictFrom at hs
      simp only [List.nil_append, List.pairwise_cons] at hs
      exact hs.2.1 q (by simp)
    simp only [List.nil_append, mapGo]
    by_cases h1 : p.1 < u
    · simp only [h1, if_true]
      have h2 : ¬ q.1 < u := by linarith
      simp only [h2, if_false]
      by_cases h3 : q.1 = u
      · simp [h3]; rw [← h3, interp_right p q hpq]
      · have : (q.1 == u) = false := by simpa using h3
        simp only [this]
        exact lerp_eq_interp p q u hpq
    · have hpu' : p.1 = u := by linarith
      simp [hpu']; rw [← hpu', interp_left]
  | cons a l ih =>
    intro prev hs hprev
    have ha : a.1 < u := by
      unfold StrictFrom at hs
      simp only [List.cons_append, List.pairwise_cons] at hs
      have := hs.2.1 p (by simp)
      linarith
    simp only [List.cons_append, mapGo, ha, if_true]
    apply ih a _ ha
    unfold StrictFrom at hs ⊢
    exact (List.pairwise_cons.mp hs).2

/-- On a strictly sorted list, `map` between two adjacent vertices is the linear interpolation
    through them (including both end points). -/
theorem map_consec (ns : List Pt) (hs : StrictFrom ns) (p q : Pt) (hc : Consec p q ns) (u : Rat)
    (hpu : p.1 ≤ u) (huq : u ≤ q.1) : Plm.map ⟨ns⟩ u = interp p q u := by
  obtain ⟨l, r, rfl⟩ := hc
  cases l with
  | nil =>
    have hpq : p.1 < q.1 := Consec.lt ⟨[], r, rfl⟩ hs
    simp only [List.nil_append, Plm.map]
    by_cases h1 : p.1 < u
    · simp only [h1, if_true]
      have := mapGo_consec p q r u hpu huq [] p
      -- scan from p itself
      simp only [mapGo]
      have h2 : ¬ q.1 < u := by linarith
      simp only [h2, if_false]
      by_cases h3 : q.1 = u
      · simp [h3]; rw [← h3, interp_right p q hpq]
      · have : (q.1 == u) = false := by simpa using h3
        simp only [this]
        exact lerp_eq_interp p q u hpq
    · have hpu' : p.1 = u := by linarith
      simp [hpu']; rw [← hpu', interp_left]
  | cons a l =>
    have ha : a.1 < u := by
      unfold StrictFrom at hs
      simp only [List.cons_append, List.pairwise_cons] at hs
      have := hs.1 p (by simp)
      linarith
    simp only [List.cons_append, Plm.map, ha, if_true]
    exact mapGo_consec p q r u hpu huq l a hs ha

/-- at a vertex of a strictly sorted list `map` returns the vertex' own value -/
theorem map_vertex (ns : List Pt) (hs : StrictFrom ns) (p : Pt) (hp : p ∈ ns) : Plm.map ⟨ns⟩ p.1 = p.2 := by
  obtain ⟨a, b, rfl⟩ := List.append_of_mem hp
  cases b with
  | cons q b =>
    have hc : Consec p q (a ++ p :: q :: b) := ⟨a, b, rfl⟩
    rw [map_consec _ hs p q hc p.1 (le_refl _) (le_of_lt (hc.lt hs)), interp_left]
  | nil =>
    rcases List.eq_nil_or_concat a with rfl | ⟨a', o, rfl⟩
    · simp [Plm.map]
    · have hc : Consec o p (a'.concat o ++ [p]) := ⟨a', [], by simp⟩
      have hlt := hc.lt hs
      rw [map_consec _ hs o p hc p.1 (le_of_lt hlt) (le_refl _), interp_right o p hlt]

/-! ### the spec-side `avarApply` -/

/-- **Transport lemma.** If the segment map lists `(φ uᵢ, ψ uᵢ)` for strictly increasing `uᵢ`, `φ` is strictly
    increasing on a domain `D` containing the vertices and `u`, and on every segment `ψ` is an affine function
    of `φ` (`AffOn`), then applying the segment map to `φ u` gives `ψ u`. -/
def AffOn (φ ψ : Rat → Rat) (lo hi : Rat) : Prop :=
  ∀ u, lo ≤ u → u ≤ hi → (ψ u - ψ lo) * (φ hi - φ lo) = (φ u - φ lo) * (ψ hi - ψ lo)

theorem avarGo_transport (φ ψ : Rat → Rat) (D : Rat → Prop)
    (mono : ∀ s t, D s → D t → s < t → φ s < φ t) (u : Rat) (hDu : D u) :
    ∀ (rest : List Pt) (p : Pt), p.1 < u → (∀ n ∈ p :: rest, D n.1) → (∃ e ∈ rest, u ≤ e.1) →
      (∀ a b, Consec a b (p :: rest) → AffOn φ ψ a.1 b.1) → StrictFrom (p :: rest) →
      avarGo (φ u) (φ p.1, ψ p.1) (rest.map fun n => (φ n.1, ψ n.1)) = ψ u := by
  intro rest
  induction rest with
  | nil => intro p _ _ he; obtain ⟨e, he, _⟩ := he; simp at he
  | cons q rest ih =>
    intro p hp hD he haff hs
    have hDp : D p.1 := hD p (by simp)
    have hDq : D q.1 := hD q (by simp)
    have hpq : p.1 < q.1 := (Consec.head p q rest).lt hs
    simp only [List.map_cons, avarGo]
    by_cases hqu : q.1 < u
    · have : φ q.1 < φ u := mono _ _ hDq hDu hqu
      simp only [this, if_true]
      apply ih q hqu
      · intro n hn; exact hD n (List.mem_cons_of_mem _ hn)
      · obtain ⟨e, he, hue⟩ := he
        rcases List.mem_cons.mp he with rfl | he
        · linarith
        · exact ⟨e, he, hue⟩
      · intro a b hab; exact haff a b (hab.cons p)
      · exact (List.pairwise_cons.mp hs).2
    · have huq : u ≤ q.1 := not_lt.mp hqu
      have hnot : ¬ φ q.1 < φ u := by
        rcases eq_or_lt_of_le huq with h | h
        · rw [h]; exact lt_irrefl _
        · exact not_lt.mpr (le_of_lt (mono _ _ hDu hDq h))
      simp only [hnot, if_false]
      have hA := haff p q (Consec.head p q rest) u (le_of_lt hp) huq
      have hpos : 0 < φ q.1 - φ p.1 := by linarith [mono _ _ hDp hDq hpq]
      have hne : φ q.1 - φ p.1 ≠ 0 := ne_of_gt hpos
      field_simp
      linarith

theorem avarApply_transport (φ ψ : Rat → Rat) (D : Rat → Prop)
    (mono : ∀ s t, D s → D t → s < t → φ s < φ t) (ns : List Pt) (hs : StrictFrom ns)
    (hD : ∀ n ∈ ns, D n.1) (haff : ∀ a b, Consec a b ns → AffOn φ ψ a.1 b.1)
    (u : Rat) (hDu : D u) (hlo : ∃ e, ns.head? = some e ∧ e.1 ≤ u) (hhi : ∃ e ∈ ns, u ≤ e.1) :
    avarApply (ns.map fun n => (φ n.1, ψ n.1)) (φ u) = ψ u := by
  cases ns with
  | nil => obtain ⟨e, he, _⟩ := hhi; simp at he
  | cons p rest =>
    obtain ⟨e, he, hpu⟩ := hlo
    simp only [List.head?_cons, Option.some.injEq] at he
    subst he
    have hDp : D p.1 := hD p (by simp)
    simp only [List.map_cons, avarApply]
    rcases eq_or_lt_of_le hpu with h | h
    · simp [h]
    · have : φ p.1 < φ u := mono _ _ hDp hDu h
      simp only [this, if_true]
      apply avarGo_transport φ ψ D mono u hDu rest p h hD _ haff hs
      obtain ⟨e, he, hue⟩ := hhi
      rcases List.mem_cons.mp he with rfl | he
      · linarith
      · exact ⟨e, he, hue⟩

/-! ### identity maps and padding -/

theorem avarGo_ident (x : Rat) : ∀ (rest : List Pt) (p : Pt), p.1 = p.2 → p.1 < x →
    (∀ q ∈ rest, q.1 = q.2) → avarGo x p rest = x := by
  intro rest
  induction rest with
  | nil => intro p _ _ _; rfl
  | cons q rest ih =>
    intro p hp hpx hall
    have hq : q.1 = q.2 := hall q (by simp)
    simp only [avarGo]
    by_cases h : q.1 < x
    · simp only [h, if_true]
      exact ih q hq h (fun r hr => hall r (List.mem_cons_of_mem _ hr))
    · simp only [h, if_false]
      have hne : q.1 - p.1 ≠ 0 := by intro h0; linarith [not_lt.mp h]
      rw [← hp, ← hq]; field_simp; ring

/-- a segment map all of whose entries are `k:k` is the identity (on every `x`) -/
theorem avarApply_ident (l : List Pt) (x : Rat) (hall : ∀ q ∈ l, q.1 = q.2) : avarApply l x = x := by
  cases l with
  | nil => rfl
  | cons p rest =>
    have hp : p.1 = p.2 := hall p (by simp)
    simp only [avarApply]
    by_cases h : p.1 < x
    · simp only [h, if_true]
      exact avarGo_ident x rest p hp h (fun r hr => hall r (List.mem_cons_of_mem _ hr))
    · simp only [h, if_false]
      by_cases h2 : p.1 = x
      · simp [h2]; rw [← hp, h2]
      · have : (p.1 == x) = false := by simpa using h2
        simp [this]

/-- an extra record in front, left of the first one, does not change the value at or right of the first -/
theorem avarApply_cons_front (e p : Pt) (rest : List Pt) (x : Rat) (hep : e.1 < p.1) (hpx : p.1 ≤ x) :
    avarApply (e :: p :: rest) x = avarApply (p :: rest) x := by
  have hex : e.1 < x := lt_of_lt_of_le hep hpx
  simp only [avarApply, hex, if_true, avarGo]
  by_cases h : p.1 < x
  · simp [h]
  · have hpx' : p.1 = x := le_antisymm hpx (not_lt.mp h)
    have hne : p.1 - e.1 ≠ 0 := by intro h0; linarith
    simp only [hpx', beq_self_eq_true, if_true]
    rw [← hpx']; field_simp; ring_nf

theorem avarGo_append (z : Pt) (x : Rat) : ∀ (rest : List Pt) (p : Pt), (∃ e ∈ rest, x ≤ e.1) →
    avarGo x p (rest ++ [z]) = avarGo x p rest := by
  intro rest
  induction rest with
  | nil => intro p he; obtain ⟨e, he, _⟩ := he; simp at he
  | cons q rest ih =>
    intro p he
    simp only [List.cons_append, avarGo]
    by_cases h : q.1 < x
    · simp only [h, if_true]
      apply ih
      obtain ⟨e, he, hxe⟩ := he
      rcases List.mem_cons.mp he with rfl | he
      · exact absurd h (not_lt.mpr hxe)
      · exact ⟨e, he, hxe⟩
    · simp [h]

/-- an extra record at the back does not change the value at or left of some existing record -/
theorem avarApply_append (z : Pt) (l : List Pt) (x : Rat) (he : ∃ e ∈ l, x ≤ e.1) :
    avarApply (l ++ [z]) x = avarApply l x := by
  cases l with
  | nil => obtain ⟨e, he, _⟩ := he; simp at he
  | cons p rest =>
    simp only [List.cons_append, avarApply]
    by_cases h : p.1 < x
    · simp only [h, if_true]
      apply avarGo_append
      obtain ⟨e, he, hxe⟩ := he
      rcases List.mem_cons.mp he with rfl | he
      · exact absurd h (not_lt.mpr hxe)
      · exact ⟨e, he, hxe⟩
    · simp [h]

/-! ### the sort of `PiecewiseLinearMap::new` -/

theorem mem_insertPt (x a : Pt) (l : List Pt) : a ∈ insertPt x l ↔ a = x ∨ a ∈ l := by
  induction l with
  | nil => simp [insertPt]
  | cons y t ih =>
    simp only [insertPt]
    split
    · simp
    · simp only [List.mem_cons, ih]
      constructor
      · rintro (h | h | h)
        · exact Or.inr (Or.inl h)
        · exact Or.inl h
        · exact Or.inr (Or.inr h)
      · rintro (h | h | h)
        · exact Or.inr (Or.inl h)
        · exact Or.inl h
        · exact Or.inr (Or.inr h)

theorem mem_sortPts (a : Pt) (l : List Pt) : a ∈ sortPts l ↔ a ∈ l := by
  induction l with
  | nil => simp [sortPts]
  | cons y t ih =>
    have : sortPts (y :: t) = insertPt y (sortPts t) := rfl
    rw [this, mem_insertPt, ih]; simp

theorem sortPts_of_pairwise (l : List Pt) (h : l.Pairwise (fun a b => ptLe a b = true)) : sortPts l = l := by
  induction l with
  | nil => rfl
  | cons y t ih =>
    have : sortPts (y :: t) = insertPt y (sortPts t) := rfl
    rw [this, ih (List.pairwise_cons.mp h).2]
    cases t with
    | nil => rfl
    | cons z t =>
      have hz := (List.pairwise_cons.mp h).1 z (by simp)
      simp [insertPt, hz]

/-! ### `Iterator::min` / `max` folds -/

theorem ratMin_le_left (a b : Rat) : ratMin a b ≤ a := by unfold ratMin; split <;> linarith
theorem ratMin_le_right (a b : Rat) : ratMin a b ≤ b := by
  unfold ratMin; split
  · exact le_refl _
  · rename_i h; exact not_lt.mp h
theorem le_ratMax_left (a b : Rat) : a ≤ ratMax a b := by unfold ratMax; split <;> linarith
theorem le_ratMax_right (a b : Rat) : b ≤ ratMax a b := by
  unfold ratMax; split
  · exact le_refl _
  · rename_i h; exact not_lt.mp h
theorem ratMin_mem (a b : Rat) : ratMin a b = a ∨ ratMin a b = b := by unfold ratMin; split <;> simp
theorem ratMax_mem (a b : Rat) : ratMax a b = a ∨ ratMax a b = b := by unfold ratMax; split <;> simp

theorem listMin_le (ds : List Rat) : ∀ d0, listMin d0 ds ≤ d0 ∧ ∀ d ∈ ds, listMin d0 ds ≤ d := by
  induction ds with
  | nil => intro d0; simp [listMin]
  | cons a ds ih =>
    intro d0
    have h := ih (ratMin d0 a)
    simp only [listMin, List.foldl_cons] at h ⊢
    refine ⟨le_trans h.1 (ratMin_le_left _ _), ?_⟩
    intro d hd
    rcases List.mem_cons.mp hd with rfl | hd
    · exact le_trans h.1 (ratMin_le_right _ _)
    · exact h.2 d hd

theorem listMin_mem (ds : List Rat) : ∀ d0, listMin d0 ds ∈ d0 :: ds := by
  induction ds with
  | nil => intro d0; simp [listMin]
  | cons a ds ih =>
    intro d0
    have h := ih (ratMin d0 a)
    simp only [listMin, List.foldl_cons] at h ⊢
    rcases List.mem_cons.mp h with h | h
    · rw [h]; rcases ratMin_mem d0 a with h2 | h2 <;> simp [h2]
    · simp [h]

theorem le_listMax (ds : List Rat) : ∀ d0, d0 ≤ listMax d0 ds ∧ ∀ d ∈ ds, d ≤ listMax d0 ds := by
  induction ds with
  | nil => intro d0; simp [listMax]
  | cons a ds ih =>
    intro d0
    have h := ih (ratMax d0 a)
    simp only [listMax, List.foldl_cons] at h ⊢
    refine ⟨le_trans (le_ratMax_left _ _) h.1, ?_⟩
    intro d hd
    rcases List.mem_cons.mp hd with rfl | hd
    · exact le_trans (le_ratMax_right _ _) h.1
    · exact h.2 d hd

theorem listMax_mem (ds : List Rat) : ∀ d0, listMax d0 ds ∈ d0 :: ds := by
  induction ds with
  | nil => intro d0; simp [listMax]
  | cons a ds ih =>
    intro d0
    have h := ih (ratMax d0 a)
    simp only [listMax, List.foldl_cons] at h ⊢
    rcases List.mem_cons.mp h with h | h
    · rw [h]; rcases ratMax_mem d0 a with h2 | h2 <;> simp [h2]
    · simp [h]

/-- the fold-minimum of a non-empty list is characterised by: a member, below every member -/
theorem listMin_eq (d0 : Rat) (ds : List Rat) (m : Rat) (hm : m ∈ d0 :: ds) (hle : ∀ d ∈ d0 :: ds, m ≤ d) :
    listMin d0 ds = m := by
  have h1 := listMin_le ds d0
  have h2 := listMin_mem ds d0
  apply le_antisymm
  · rcases List.mem_cons.mp hm with rfl | hm
    · exact h1.1
    · exact h1.2 m hm
  · exact hle _ h2

theorem listMax_eq (d0 : Rat) (ds : List Rat) (m : Rat) (hm : m ∈ d0 :: ds) (hle : ∀ d ∈ d0 :: ds, d ≤ m) :
    listMax d0 ds = m := by
  have h1 := le_listMax ds d0
  have h2 := listMax_mem ds d0
  apply le_antisymm
  · exact hle _ h2
  · rcases List.mem_cons.mp hm with rfl | hm
    · exact h1.1
    · exact h1.2 m hm

end Fontc.PlmProofs
