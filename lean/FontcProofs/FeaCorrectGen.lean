/-
  C11: `compile_correct` for programs with `languagesystem` statements, top-level lookup blocks and
  feature blocks containing `lookupflag`, rules, lookup blocks, lookup references and
  `script` / `language` statements.
-/
import FontcProofs.FeaGenAssemble
import FontcProofs.FeaCorrectFlat

namespace Fontc.FeaCompile
open Cmp
set_option linter.unusedSimpArgs false

/-- the top-level statements after the `languagesystem` statements -/
def TopsOk (U : List (List Glyph)) (dls : List Sys) : List String → List Top → Prop
  | _, [] => True
  | _, .langsys .. :: _ => False
  | used, .lookup n body :: rest => n ∉ used ∧ BlockOk U body ∧ TopsOk U dls (n :: used) rest
  | used, .feature _ body :: rest =>
    BodyOk U {} used body ∧ sysOk dls none [] (stmtSys "DFLT" body) = true ∧ NoLangDflt body ∧
    TopsOk U dls (namesAfter used body) rest

theorem tops_fold (fx : Fixes) (U : List (List Glyph)) (dls : List Sys) (lsE : List (Tag × Tag))
    (hls : ∀ x, x ∈ lsE ↔ x ∈ dls) (rest : List Top) :
    ∀ (es : List Src.Entry) (s : St) (ids : List LookupId) (used : List String), TopInvG fx U dls es s ids used →
    TopsOk U dls used rest →
    ∃ ids' used', TopInvG fx U dls (Src.entriesOf lsE es rest) (rest.foldl (St.top fx) s) ids' used' := by
  induction rest with
  | nil => intro es s ids used h _; exact ⟨ids, used, h⟩
  | cons t rest ih =>
    intro es s ids used hinv hok
    cases t with
    | langsys a b => simp [TopsOk] at hok
    | lookup n body =>
      simp only [TopsOk] at hok
      obtain ⟨ids1, h1⟩ := top_lookup_gen fx U dls es s ids used n body hinv hok.2.1 hok.1
      simp only [List.foldl_cons, Src.entriesOf, St.top]
      exact ih _ _ ids1 _ h1 hok.2.2
    | feature tag body =>
      simp only [TopsOk] at hok
      obtain ⟨ids1, h1⟩ := top_feature_gen fx U dls lsE hls es s ids used tag body hinv hok.1 hok.2.1 hok.2.2.1
      simp only [List.foldl_cons, Src.entriesOf, St.top]
      exact ih _ _ ids1 _ h1 hok.2.2.2

theorem filterMap_langsys_of_topsOk (U : List (List Glyph)) (dls : List Sys) (rest : List Top) :
    ∀ used, TopsOk U dls used rest → rest.filterMap Src.langsysStmt? = [] := by
  induction rest with
  | nil => intro _ _; rfl
  | cons t rest ih =>
    intro used hok
    cases t with
    | langsys a b => simp [TopsOk] at hok
    | lookup n body => simp only [TopsOk] at hok; simpa [Src.langsysStmt?] using ih _ hok.2.2
    | feature tag body => simp only [TopsOk] at hok; simpa [Src.langsysStmt?] using ih _ hok.2.2.2

theorem filterMap_lsTops (ls : List (Tag × Tag)) : (lsTops ls).filterMap Src.langsysStmt? = ls := by
  induction ls with
  | nil => rfl
  | cons x ls ih => simp only [lsTops, List.map_cons, List.filterMap_cons, Src.langsysStmt?] at ih ⊢; rw [ih]

/-- **`compile_correct`.**  Programs: `languagesystem` statements, then top-level lookup blocks and
    feature blocks (`TopsOk`: lookup blocks are `lookupflag`s followed by rules of one type; names are
    defined once and before use; a `script` statement names a new script, a `language` statement a
    new non-default language of the current script, both declared by a `languagesystem` statement; no
    single-substitution rule stands next to a multiple / ligature rule under one flag outside a lookup
    block; flags are normalised with attachment classes from the pairwise disjoint family `U`).
    Every lookup of the program is of a type whose lookup-level correctness is proved (`GsubRunOk`,
    `GposRunOk`: single / multiple / alternate / ligature substitution, contextual substitution with
    in-line single or multiple substitutions, single positioning; no glyph or sequence targeted
    twice).  Then for every script, every language for which the table has a record or no fallback
    (`LangOkFor`), every feature set, every alternate selector and EVERY glyph string, the compiled
    tables shape the string exactly as the source semantics says. -/
theorem compile_correct_gen (fx : Fixes) (p : Program) (ls : List (Tag × Tag)) (rest : List Top)
    (U : List (List Glyph))
    (htops : p.tops = lsTops ls ++ rest)
    (hok : TopsOk U (Src.langsysOf p.tops) [] rest)
    (hents : ∀ e ∈ Src.entries p, GsubRunOk e.lookup.rules ∨ GposRunOk e.lookup.rules)
    (hgdef : (p.gdef.map (·.1)).Nodup)
    (hU1 : ∀ c ∈ U, c.Nodup) (hU2 : ∀ c ∈ U, ∀ c' ∈ U, c ≠ c' → ∀ g ∈ c, g ∉ c')
    (script lang : Tag) (hlang : ∀ isPos, LangOkFor (Src.entries p) isPos script lang)
    (feats : List Tag) (alt : Nat) (str : List Glyph) :
    shape (compileWith fx p) script lang feats alt str = interp p script lang feats alt str := by
  obtain ⟨h0, h1, h2, h3, h4, h5, h6, h7, h8, h9, h10, h11⟩ := foldl_lsTops fx ls {}
  generalize hs0 : (lsTops ls).foldl (St.top fx) {} = s0 at h0 h1 h2 h3 h4 h5 h6 h7 h8 h9 h10 h11
  have hlsof : Src.langsysOf p.tops = if ls.isEmpty then [("DFLT", "dflt")] else ls := by
    simp only [Src.langsysOf, htops, List.filterMap_append, filterMap_lsTops,
      filterMap_langsys_of_topsOk U _ rest [] hok, List.append_nil]
  have hdls : ∀ sys, sys ∈ s0.defaultSystems ↔ sys ∈ Src.langsysOf p.tops := by
    intro sys
    rw [hlsof]
    have hmem : ∀ x, x ∈ s0.langsys ↔ x ∈ ls := by intro x; rw [h0]; simp
    have hemp : s0.langsys.isEmpty = ls.isEmpty := by
      rw [Bool.eq_iff_iff, list_isEmpty_iff_forall, list_isEmpty_iff_forall]
      constructor
      · intro h x hx; exact h x ((hmem x).mpr hx)
      · intro h x hx; exact h x ((hmem x).mp hx)
    simp only [St.defaultSystems, hemp]
    split
    · rfl
    · exact hmem sys
  have hinit : TopInvG fx U (Src.langsysOf p.tops) [] s0 [] [] := {
    closed := ⟨h3, h4, h10, h9, h6⟩
    dlsOk := hdls
    idsInv := by unfold IdsInv; rw [h7, h8]; exact ⟨List.nodup_nil, List.nodup_nil⟩
    attachU := by rw [h7]; simp
    len := rfl
    ents := by intro l id hm; simp [entPairs] at hm
    ordered := List.Pairwise.nil
    below := by simp
    featKeys := by rw [h11]; exact List.nodup_nil
    feats := by intro tag lang script id; rw [h11]; simp [List.lookup]
    namedKeys := by intro n; rw [h5]; simp [List.lookup]
    namedEnt := by intro n id; rw [h5]; simp [List.lookup, entPairs] }
  obtain ⟨ids, used, hinv⟩ := tops_fold fx U (Src.langsysOf p.tops) (Src.langsysOf p.tops) (fun _ => Iff.rfl) rest [] s0 [] []
    hinit hok
  have hentries : Src.entriesOf (Src.langsysOf p.tops) [] rest = Src.entries p := by
    simp only [Src.entries]
    rw [htops, entriesOf_lsTops]
  have hstate : rest.foldl (St.top fx) s0 = p.tops.foldl (St.top fx) {} := by
    rw [htops, List.foldl_append, hs0]
  rw [hentries, hstate] at hinv
  exact correct_of_topInvG fx p U _ _ ids used hinv hents hgdef hU1 hU2 script lang hlang feats alt str

end Fontc.FeaCompile
